import CCVerif.Model.Parser
import CCVerif.Model.Printer
import CCVerif.Model.WfAst
import CCVerif.Model.AstQuery
import CCVerif.Lemmas.ParsePrint
import CCVerif.Lemmas.ParsePrint2
import CCVerif.Lemmas.PrintLex2
import CCVerif.Lemmas.PrintLex3Print
import CCVerif.Lemmas.ParsePrint3Emb
import CCVerif.Lemmas.ParsePrint3Decl
import CCVerif.Lemmas.ParsePrint3Text
/-!
# C05 — printing then re-parsing an expression preserves its tree (both syntaxes)

Models: `Model/Lexer.lean` (both RE-flex lexers), `Model/Parser.lean` (grammar + semantic
actions), `Model/Printer.lean` (`GeneratorImplAST`, `Token::ToString`, `ConvertID`,
`CompareOperations`), all driven by the tables `Generated/Tokens.lean` that `gen_tables.py`
re-extracts from /repo on every run — so every `decide` below is re-proved against the current
source.

Part 1 (table level, finite, `decide +kernel`): spellings lex back, adjacent fixed spellings
separate, the printer's bracket decisions against the grammar's precedence lines.
Part 2 (trees): the property `parse_print_statement`; exhaustive operator-pair instances through
the full pipeline print → lex → parse (all 128 arithmetic / set triples and all connective pairs);
former defects 1–4 and 6, repaired in /repo, as positive theorems (`lex_spell_ascii`,
`less_roundtrips`, `recursion_roundtrips`, `set_brackets_sufficient`, `set_pairs_roundtrip_*`,
`zero_index_roundtrips`) with regression pins of the old tables (`lex_spell_ascii_pinned`,
`set_brackets_pinned`); the two RECORDED findings as closed counterexamples (5: numeric overflow of
literals / indices, 7: transliteration of a local name onto a keyword); and the proved fragments:
`parse_print_partial` (fragment `E`, token level; proof in `Lemmas/ParsePrint.lean`),
`parse_print_fragment2` (fragment `E2` ⊇ `E`: + `ℬ`, enumerations, tuples, calls, filters, quantifiers, `D{…}`; token
level; `Lemmas/ParsePrint2.lean`), `lex_print_fragment2` (printed TEXT lexes to the printed tokens;
`Lemmas/LexPieces.lean`, `LexNumeric.lean`, `PrintLex2.lean`) and `parse_print_text_fragment2` (the property itself on
the fragment, at the level of text, both syntaxes; uses `Lemmas/ParseErase.lean`: the parser never looks at positions).
Which links of the chain tree → printer → text → lexer → tokens → parser → tree are theorems: on `E2` with
lexer-conformant leaves ALL of them (unbounded trees); outside `E2` (recursive / imperative constructions, `{x∈X | φ}`
without `D`, function definitions, global declarations) only kernel-evaluated instances and the correspondence run.
Part 3 extends all links to `E3` (`E2` + recursive / imperative constructions: `parse_print_text_fragment3`) and to the top-level
forms over `E3` — function definitions `[x∈S, …] body`, global declarations `X1 :== body`, `S1 ::= body`, `F1 :== [x∈S] body`,
`X1 :==` (`parse_print_text_top_fragment3`); still outside: `{x∈X | φ}` without `D` as input, bare `F1` / `P1` as identifiers.
-/
namespace CCVerif.C05
open CCVerif.Syntax CCVerif.Generated CCVerif.Lexer CCVerif.Parser CCVerif.Printer CCVerif.Wf
open CCVerif.PP (Side E E2 tk)

/-! ## Part 1 — tables -/

/-- terminals with one fixed spelling per syntax (everything the grammar knows except
identifiers, integer literals and the indexed `Pr/pr/Fi`) -/
def fixedSpelling : List Tok := grammarTokens.filter fun t =>
  !(t == .ID_LOCAL || t == .ID_GLOBAL || t == .ID_FUNCTION || t == .ID_PREDICATE || t == .ID_RADICAL ||
    t == .LIT_INTEGER || t == .BIGPR || t == .SMALLPR || t == .FILTER)

/-- **lex_spell_math**: what `RSStr` prints for a token is what `MathLexerImpl.l` reads as that token. -/
theorem lex_spell_math : ∀ k ∈ fixedSpelling, lexKinds .math (str .math k) = some [k] := by
  decide +kernel

/-- **lex_spell_ascii**: what `AsciiStr` prints for a token is what `AsciiLexerImpl.l` reads as that
token — all tokens (true since the /repo fix "ASCII spelling of '<' is the one the ASCII lexer accepts"). -/
theorem lex_spell_ascii : ∀ k ∈ fixedSpelling, lexKinds .ascii (str .ascii k) = some [k] := by
  decide +kernel

/-- the spelling `AsciiStr(LESSER)` had before that fix (pinned, not generated) -/
def asciiLesserPinned : List Nat := [32, 92, 108, 101, 115, 115, 32]

/-- regression pin of former defect 1: the old spelling ` \less ` lexes as `\le` followed by the
identifier `ss`, and the generated table no longer has it -/
theorem lex_spell_ascii_pinned :
    lexKinds .ascii asciiLesserPinned = some [.LESSER_OR_EQ, .ID_LOCAL] ∧ (str .ascii .LESSER == asciiLesserPinned) = false := by
  decide +kernel

/-- **lex_spell_index**: `Token::ToString` of `Pr/pr/Fi` with an index tuple lexes back to the
same kind in both syntaxes (instances `1`, `1,2`, `3,1,2`). -/
theorem lex_spell_index : ∀ id ∈ [Tok.BIGPR, .SMALLPR, .FILTER], ∀ syn ∈ [Syn.math, .ascii],
    ∀ idx ∈ [[(1 : Int)], [1, 2], [3, 1, 2]],
      ((tokToString syn id (.tuple idx)).bind (lex syn)).map (·.map fun t => (t.id, t.data)) =
        some [(id, .tuple idx), (.END, .none)] := by
  decide +kernel

/-- spelling contains a letter/digit/underscore: two such tokens are never printed adjacently -/
def wordLike (syn : Syn) (t : Tok) : Bool := (str syn t).any fun c => isAlnum syn c

/-- fixed-spelling tokens that can END an operand in the printer's output -/
def closers : List Tok := [.PUNC_PR, .PUNC_CR, .PUNC_SR, .LIT_INTSET, .LIT_EMPTYSET]
/-- fixed-spelling tokens that can START an operand / a formula, one per kind of first symbol
(bracket, upper-case word, lower-case word, symbol) -/
def openers : List Tok := [.PUNC_PL, .PUNC_CL, .LIT_INTSET, .CARD, .LIT_EMPTYSET, .NOT]
/-- infix symbols printed between operands with no blanks of the printer's own (`ViArithmetic`,
`OutputBinary`, `ViDecart`, `ViGlobalDeclaration`) -/
def infixes : List Tok := [.PLUS, .MINUS, .MULTIPLY, .GREATER, .LESSER, .GREATER_OR_EQ, .LESSER_OR_EQ, .EQUAL, .NOTEQUAL,
  .IN, .NOTIN, .SUBSET, .SUBSET_OR_EQ, .NOTSUBSET, .DECART, .UNION, .INTERSECTION, .SET_MINUS, .SYMMINUS,
  .ITERATE, .ASSIGN, .PUNC_DEFINE, .PUNC_STRUCT]
/-- prefix symbols and opening brackets (`ViNegation`, `ViQuantifier`, `ViBoolean`, brackets) -/
def prefixes : List Tok := [.NOT, .FORALL, .EXISTS, .BOOLEAN, .PUNC_PL, .PUNC_CL, .PUNC_SL]
/-- what may follow a closed operand directly -/
def followers : List Tok := infixes ++ [.PUNC_PR, .PUNC_CR, .PUNC_SR, .PUNC_COMMA, .PUNC_SEMICOLON, .PUNC_BAR]

/-- ordered pairs of fixed spellings the printer can emit adjacently with no separator of its own:
(end of an operand, what follows it), (infix / prefix symbol or bracket, start of an operand),
and the keyword/bracket pairs `D{ R{ I{ card( bool( debool( red( ℬ( ℬℬ ](` -/
def adjacentAfter : List (Tok × Tok) := closers.flatMap fun a => followers.map fun b => (a, b)
def adjacentBefore : List (Tok × Tok) :=
  ((infixes ++ prefixes).flatMap fun a => openers.map fun b => (a, b)) ++
  [(.DECLARATIVE, .PUNC_CL), (.RECURSIVE, .PUNC_CL), (.IMPERATIVE, .PUNC_CL), (.CARD, .PUNC_PL), (.BOOL, .PUNC_PL),
   (.DEBOOL, .PUNC_PL), (.REDUCE, .PUNC_PL), (.BOOLEAN, .PUNC_PL), (.BOOLEAN, .BOOLEAN), (.PUNC_SR, .PUNC_PL)]

/-- **separable_math**: every such pair, concatenated, lexes as exactly those two tokens. (Among ALL
pairs of fixed MATH spellings that are not both words the only merging one is `:=` `=` ↦ `:==`; an
expression never starts with `=`.) -/
theorem separable_math :
    (∀ x ∈ adjacentAfter, lexKinds .math (str .math x.1 ++ str .math x.2) = some [x.1, x.2]) ∧
    (∀ x ∈ adjacentBefore, lexKinds .math (str .math x.1 ++ str .math x.2) = some [x.1, x.2]) :=
  ⟨by decide +kernel, by decide +kernel⟩

/-- both spellings are compact at the joint (ASCII operator words carry their own blanks) -/
def compactJoint (a b : Tok) : Bool :=
  (str .ascii a).getLast? != some 32 && (str .ascii b).head? != some 32

/-- **separable_ascii**: the same for the ASCII pairs that are not already separated by a blank of
the spelling itself. (`{` `}` would merge to `{}`; the printer never prints an empty enumeration.) -/
theorem separable_ascii : ∀ x ∈ adjacentAfter ++ adjacentBefore, compactJoint x.1 x.2 = true →
    lexKinds .ascii (str .ascii x.1 ++ str .ascii x.2) = some [x.1, x.2] := by
  decide +kernel

/-- Greek lower-case letters `α … ω` -/
def greekLower : List Nat := List.range' 0x3B1 25

/-- **translit_char**: `ConvertID` maps every Greek letter the MATH lexer admits in a local name
to one lower-case ASCII letter, and leaves ASCII untouched. -/
theorem translit_char :
    (∀ c ∈ greekLower, (convertCp c).length = 1 ∧ (convertCp c).all (fun x => decide (97 ≤ x) && decide (x ≤ 122)) = true) ∧
    (∀ c ∈ List.range 128, convertCp c = [c]) := by
  decide +kernel

/-- the demand "a transliterated local name is a local name" — FALSE, see
`translit_local_counterexample` -/
def translit_local_is_local_statement : Prop :=
  ∀ name : List Nat, lexKinds .math name = some [.ID_LOCAL] →
    lexKinds .ascii (convertID .ascii name) = some [.ID_LOCAL]

/-- DEFECT 7: the local name `ρεδ` is transliterated to `red`, which both lexers read as the
keyword REDUCE (likewise `χαρδ`→`card`, `βοολ`→`bool`, `πρ1`→`pr1`). -/
theorem translit_local_counterexample :
    lexKinds .math [0x3C1, 0x3B5, 0x3B4] = some [.ID_LOCAL] ∧
    lexKinds .ascii (convertID .ascii [0x3C1, 0x3B5, 0x3B4]) = some [.REDUCE] ∧
    ¬ translit_local_is_local_statement := by
  refine ⟨by decide +kernel, by decide +kernel, fun h => ?_⟩
  have := h [0x3C1, 0x3B5, 0x3B4] (by decide +kernel)
  revert this; decide +kernel

/-! ### bracket decisions against the grammar's precedence lines -/

def setOps : List Tok := [.PLUS, .MINUS, .MULTIPLY, .UNION, .INTERSECTION, .SET_MINUS, .SYMMINUS, .DECART]
def logicOps : List Tok := [.EQUIVALENT, .IMPLICATION, .OR, .AND]

/-- the grammar (generated `%left/%right` lines): must a binary-operator operand `c` on side `side`
of operator `p` be parenthesised to be attached there again? Lower precedence: yes; equal
precedence: the operand on the non-associative side; and a `×` operand of `×` (otherwise the
parser flattens it). -/
def grammarNeeds (p c : Tok) (side : Side) : Bool :=
  match precOf p, precOf c with
  | some (pp, pa), some (pc, _) =>
    pc < pp || (pc == pp && (if pa == .left then side == .right else side == .left)) ||
      (p == .DECART && c == .DECART)
  | _, _ => true

/-- the printer: `ViArithmetic` / `ViSetexprBinary` / `ViDecart` (first factor = left operand, any later
factor = right operand), parametric in the comparison so that the pinned old table can be plugged in -/
def printerSetWith (cmp : Tok → Tok → Cmp) (decartOld : Bool) (p c : Tok) (side : Side) : Bool :=
  if p == .DECART then
    (if decartOld then c == .DECART
     else c == .DECART || cmp .DECART c == .greater || (side == .right && cmp .DECART c == .equal))
  else
  match side with
  | .left => p != c && cmp p c == .greater
  | .right => p == c || cmp p c == .equal || cmp p c == .greater

def printerSet (p c : Tok) (side : Side) : Bool := printerSetWith compareOps false p c side

/-- the printer: `ViLogicBinary` -/
def printerLogic (p c : Tok) (side : Side) : Bool :=
  match side with
  | .left => p != c && compareOps p c == .greater
  | .right => p == c || compareOps p c == .greater

def triples (ops : List Tok) : List (Tok × Tok × Side) :=
  ops.flatMap fun p => ops.flatMap fun c => [(p, c, .left), (p, c, .right)]

/-- **logic_brackets_sufficient**: for `⇔ ⇒ ∨ &` the printer brackets every operand the grammar
would otherwise attach differently; bodies of `¬ ∀ ∃` that are binary are always bracketed. -/
theorem logic_brackets_sufficient :
    (∀ x ∈ triples logicOps, grammarNeeds x.1 x.2.1 x.2.2 → printerLogic x.1 x.2.1 x.2.2) ∧
    (∀ q ∈ [Tok.NOT, .FORALL, .EXISTS], ∀ c ∈ logicOps, compareOps q c = .greater) := by
  decide +kernel

/-- operator triples where a printer omits parentheses the grammar needs -/
def insufficientWith (pr : Tok → Tok → Side → Bool) : List (Tok × Tok × Side) :=
  (triples setOps).filter fun x => grammarNeeds x.1 x.2.1 x.2.2 && !pr x.1 x.2.1 x.2.2

/-- **set_brackets_sufficient**: for the arithmetic / set operators `+ - * ∪ ∩ \ ∆ ×` the printer brackets
every operand the grammar (generated `%left` lines) would otherwise attach differently — all 128
(parent, child, side) triples (true since the /repo fix "the printer brackets operands the grammar
would otherwise attach differently"). -/
theorem set_brackets_sufficient :
    ∀ x ∈ triples setOps, grammarNeeds x.1 x.2.1 x.2.2 → printerSet x.1 x.2.1 x.2.2 := by
  decide +kernel

/-- the `precedences` pairs of `CompareOperations` before that fix (pinned, not generated) -/
def precPairsPinned : List (Tok × Tok) := [
  (.PLUS, .MULTIPLY), (.MINUS, .MULTIPLY),
  (.EQUIVALENT, .IMPLICATION), (.EQUIVALENT, .OR), (.EQUIVALENT, .AND), (.EQUIVALENT, .NOT), (.EQUIVALENT, .EXISTS), (.EQUIVALENT, .FORALL),
  (.IMPLICATION, .OR), (.IMPLICATION, .AND), (.IMPLICATION, .NOT), (.IMPLICATION, .EXISTS), (.IMPLICATION, .FORALL),
  (.OR, .AND), (.OR, .NOT), (.OR, .EXISTS), (.OR, .FORALL), (.AND, .NOT), (.AND, .EXISTS), (.AND, .FORALL)]

def compareOpsPinned (l r : Tok) : Cmp :=
  if !opSet.contains l || !opSet.contains r then .incomparable
  else if precPairsPinned.contains (l, r) then .less
  else if precPairsPinned.contains (r, l) then .greater
  else .equal

/-- regression pin of former defects 3 and 4: with the old precedence pairs and the old `ViDecart`
rule (brackets only around a `×` factor) exactly 22 triples lacked brackets — an arithmetic LEFT
operand of `∪ ∩ \ ∆`, an arithmetic factor of `×` anywhere, a `∪ ∩ \ ∆` factor that is not the first —
and with the current tables none does. -/
theorem set_brackets_pinned :
    insufficientWith (printerSetWith compareOpsPinned true) =
      [(.UNION, .PLUS, .left), (.UNION, .MINUS, .left), (.UNION, .MULTIPLY, .left),
       (.INTERSECTION, .PLUS, .left), (.INTERSECTION, .MINUS, .left), (.INTERSECTION, .MULTIPLY, .left),
       (.SET_MINUS, .PLUS, .left), (.SET_MINUS, .MINUS, .left), (.SET_MINUS, .MULTIPLY, .left),
       (.SYMMINUS, .PLUS, .left), (.SYMMINUS, .MINUS, .left), (.SYMMINUS, .MULTIPLY, .left),
       (.DECART, .PLUS, .left), (.DECART, .PLUS, .right), (.DECART, .MINUS, .left), (.DECART, .MINUS, .right),
       (.DECART, .MULTIPLY, .left), (.DECART, .MULTIPLY, .right), (.DECART, .UNION, .right),
       (.DECART, .INTERSECTION, .right), (.DECART, .SET_MINUS, .right), (.DECART, .SYMMINUS, .right)] ∧
    insufficientWith printerSet = [] := by
  decide +kernel

/-! ## Part 2 — trees -/

/-- verdict of print-then-parse on one tree -/
inductive Outcome where
  /-- the printed text parses to the same tree (up to positions, local names transliterated) -/
  | same
  /-- it parses to another tree -/
  | different
  /-- it does not parse -/
  | noparse
  /-- the printer makes a failing unchecked access -/
  | stuck
deriving Repr, DecidableEq

/-- print in `syn`, lex and parse the text in `syn`, compare with `translit syn t` -/
def outcome (syn : Syn) (t : Ast) : Outcome :=
  match print syn t with
  | none => .stuck
  | some text =>
    match parse syn text with
    | none => .noparse
    | some t' => if Ast.eqv t' (translit syn t) then .same else .different

/-- the C05 verdict on one tree -/
def roundTrips (syn : Syn) (t : Ast) : Bool := outcome syn t == .same

/-- **The property** (full statement, NOT proved in general; false for the unchanged code, see the
counterexamples): every tree the parser can produce is given back by print-then-parse, in both
syntaxes, up to positions and the transliteration of local names. -/
def parse_print_statement : Prop :=
  ∀ (syn : Syn) (t : Ast), wfAst t = true → roundTrips syn t = true

/-! ### exhaustive operator pairs (finite instances of the property, full pipeline
print → lex → parse on the models) -/

def gX (n : String) : Ast := .node .ID_GLOBAL (.text n) 0 0 []
def lx (n : String) : Ast := .node .ID_LOCAL (.text n) 0 0 []
def bin (op : Tok) (a b : Ast) : Ast := .node op .none 0 0 [a, b]
def un (op : Tok) (a : Ast) : Ast := .node op .none 0 0 [a]

/-- `p` with the operator `c` as left / right operand, leaves `X1 X2 X3` -/
def pairTree (p c : Tok) : Side → Ast
  | .left => bin p (bin c (gX "X1") (gX "X2")) (gX "X3")
  | .right => bin p (gX "X1") (bin c (gX "X2") (gX "X3"))

def eqAB : Ast := bin .EQUAL (lx "a") (lx "b")
def eqCD : Ast := bin .EQUAL (lx "c") (lx "d")
def eqEF : Ast := bin .EQUAL (lx "e") (lx "f")
def logicTree (p c : Tok) : Side → Ast
  | .left => bin p (bin c eqAB eqCD) eqEF
  | .right => bin p eqAB (bin c eqCD eqEF)

/-- the trees of these families are well-formed (one instance per family; the shape is the same for
every operator) -/
theorem pair_trees_wf :
    wfAst (pairTree .UNION .PLUS .left) = true ∧ wfAst (pairTree .DECART .UNION .right) = true ∧
    wfAst (logicTree .AND .OR .left) = true ∧ wfAst (logicTree .IMPLICATION .IMPLICATION .right) = true := by
  decide +kernel

/-- the triples with the given parents -/
def triplesOf (parents : List Tok) : List (Tok × Tok × Side) :=
  (triples setOps).filter fun x => parents.contains x.1

/-- **set_pairs_roundtrip_math**: every (parent, child, side) of the arithmetic / set operators
round-trips — all 128 trees, full pipeline print → lex → parse. -/
theorem set_pairs_roundtrip_math :
    (∀ x ∈ triplesOf [.PLUS, .MINUS, .MULTIPLY, .DECART], outcome .math (pairTree x.1 x.2.1 x.2.2) = .same) ∧
    (∀ x ∈ triplesOf [.UNION, .INTERSECTION, .SET_MINUS, .SYMMINUS], outcome .math (pairTree x.1 x.2.1 x.2.2) = .same) :=
  ⟨by decide +kernel, by decide +kernel⟩

/-- **set_pairs_roundtrip_ascii**: the same in ASCII, all 128. -/
theorem set_pairs_roundtrip_ascii :
    (∀ x ∈ triplesOf [.PLUS, .MINUS, .MULTIPLY], outcome .ascii (pairTree x.1 x.2.1 x.2.2) = .same) ∧
    (∀ x ∈ triplesOf [.DECART, .UNION, .INTERSECTION], outcome .ascii (pairTree x.1 x.2.1 x.2.2) = .same) ∧
    (∀ x ∈ triplesOf [.SET_MINUS, .SYMMINUS], outcome .ascii (pairTree x.1 x.2.1 x.2.2) = .same) :=
  ⟨by decide +kernel, by decide +kernel, by decide +kernel⟩

/-- n-ary products: a middle and a last factor that are `×`, `∪`, `+` keep their place -/
theorem product_factors_roundtrip : ∀ c ∈ [Tok.DECART, .UNION, .PLUS, .SET_MINUS], ∀ syn ∈ [Syn.math, .ascii],
    outcome syn (.node .DECART .none 0 0 [gX "X1", bin c (gX "X2") (gX "X3"), gX "X4"]) = .same ∧
    outcome syn (.node .DECART .none 0 0 [bin c (gX "X1") (gX "X2"), gX "X3", bin c (gX "X4") (gX "X5")]) = .same := by
  decide +kernel

/-- **logic_pairs_roundtrip**: all 32 (parent, child, side) of `⇔ ⇒ ∨ &` in MATH, and the parents
`⇒ &` in ASCII. -/
theorem logic_pairs_roundtrip :
    (∀ x ∈ triples logicOps, outcome .math (logicTree x.1 x.2.1 x.2.2) = .same) ∧
    (∀ x ∈ triples logicOps, (x.1 == .IMPLICATION || x.1 == .AND) = true → outcome .ascii (logicTree x.1 x.2.1 x.2.2) = .same) :=
  ⟨by decide +kernel, by decide +kernel⟩

/-- **logic_unary_roundtrip**: `¬ ∀ ∃` over every binary body and under every binary parent on both
sides (MATH; the bracket decisions do not depend on the syntax). -/
theorem logic_unary_roundtrip : ∀ c ∈ logicOps,
    outcome .math (un .NOT (bin c eqAB eqCD)) = .same ∧
    outcome .math (.node .FORALL .none 0 0 [lx "x", gX "X1", bin c eqAB eqCD]) = .same ∧
    outcome .math (bin c (un .NOT eqAB) eqCD) = .same ∧
    outcome .math (bin c eqAB (un .NOT eqCD)) = .same ∧
    outcome .math (bin c (.node .EXISTS .none 0 0 [lx "x", gX "X1", eqAB]) eqCD) = .same ∧
    outcome .math (bin c eqAB (.node .EXISTS .none 0 0 [lx "x", gX "X1", eqCD])) = .same := by
  decide +kernel

/-! ### repaired defects as positive theorems; the two recorded findings (5: numeric overflow, 7:
transliteration onto a keyword) as closed counterexamples to `parse_print_statement` -/

def units (s : String) : List Nat := s.toList.map Char.toNat

/-- the text parses to exactly this tree (positions included) -/
def parsesTo (syn : Syn) (text : List Nat) (t : Ast) : Bool :=
  match parse syn text with
  | some t' => CCVerif.AstQuery.sameAst t' t
  | none => false

/-- (former DEFECT 1) `a<b` is printed in ASCII as `a \ls b` and comes back. -/
theorem less_roundtrips :
    parsesTo .math (units "a<b") (.node .LESSER .none 0 3 [.node .ID_LOCAL (.text "a") 0 1 [], .node .ID_LOCAL (.text "b") 2 3 []]) = true ∧
    wfAst (bin .LESSER (lx "a") (lx "b")) = true ∧
    print .ascii (bin .LESSER (lx "a") (lx "b")) = some (units "a \\ls b") ∧
    outcome .ascii (bin .LESSER (lx "a") (lx "b")) = .same ∧ outcome .math (bin .LESSER (lx "a") (lx "b")) = .same := by
  decide +kernel

/-- the short recursion `R{a:=X1 | a∪X2}` and the full one `R{(a,b):=X1 | a=b | a∪X2}` -/
def recShort : Ast := .node .NT_RECURSIVE_SHORT .none 0 0 [lx "a", gX "X1", bin .UNION (lx "a") (gX "X2")]
def recFull : Ast := .node .NT_RECURSIVE_FULL .none 0 0
  [.node .NT_TUPLE_DECL .none 0 0 [lx "a", lx "b"], gX "X1", bin .EQUAL (lx "a") (lx "b"), bin .UNION (lx "a") (gX "X2")]

/-- (former DEFECT 2) `ViRecursion` prints the assignment token of the target syntax: both recursion
forms round-trip in both syntaxes; the ASCII text carries `\assign`. -/
theorem recursion_roundtrips :
    wfAst recShort = true ∧ wfAst recFull = true ∧
    print .ascii recShort = some (units "R{a \\assign X1 | a \\union X2}") ∧
    (∀ syn ∈ [Syn.math, .ascii], outcome syn recShort = .same ∧ outcome syn recFull = .same) := by
  decide +kernel

/-- DEFECT 5: an integer literal ≥ 2³¹ wraps in `static_cast<int32_t>(atol(…))`; the tree holds a
negative number whose printed form `-2147483648` is not a literal. -/
theorem parse_print_counterexample_literal :
    parsesTo .math (units "2147483648=a")
      (.node .EQUAL .none 0 12 [.node .LIT_INTEGER (.int (-2147483648)) 0 10 [], .node .ID_LOCAL (.text "a") 11 12 []]) = true ∧
    wfAst (bin .EQUAL (.node .LIT_INTEGER (.int (-2147483648)) 0 0 []) (lx "a")) = true ∧
    outcome .math (bin .EQUAL (.node .LIT_INTEGER (.int (-2147483648)) 0 0 []) (lx "a")) = .noparse := by
  decide +kernel

/-- (former DEFECT 6, repaired in /repo by "zero indices of pr/Pr/Fi are kept and reported instead of
dropped": before it `pr0(a)` parsed to an EMPTY index tuple and `Token::ToString` dereferenced
`begin()` of the empty vector.) Now the zero index stays in the token and round-trips; an empty
tuple is outside `WfAst`, and the printer model is still stuck on it. -/
theorem zero_index_roundtrips :
    parsesTo .math (units "pr0(a)") (.node .SMALLPR (.tuple [0]) 0 6 [.node .ID_LOCAL (.text "a") 4 5 []]) = true ∧
    wfAst (.node .SMALLPR (.tuple [0]) 0 0 [lx "a"]) = true ∧
    outcome .math (.node .SMALLPR (.tuple [0]) 0 0 [lx "a"]) = .same ∧
    outcome .ascii (.node .FILTER (.tuple [1, 0]) 0 0 [gX "X1", gX "S1"]) = .same ∧
    wfAst (.node .SMALLPR (.tuple []) 0 0 [lx "a"]) = false ∧
    outcome .math (.node .SMALLPR (.tuple []) 0 0 [lx "a"]) = .stuck := by
  decide +kernel

/-- DEFECT 7 on a tree: `ρεδ∈X1` becomes `red \in X1` in ASCII, which does not parse. -/
theorem parse_print_counterexample_translit :
    wfAst (bin .IN (lx "ρεδ") (gX "X1")) = true ∧ roundTrips .math (bin .IN (lx "ρεδ") (gX "X1")) = true ∧
    print .ascii (bin .IN (lx "ρεδ") (gX "X1")) = some (units "red \\in X1") ∧
    outcome .ascii (bin .IN (lx "ρεδ") (gX "X1")) = .noparse := by
  decide +kernel

/-- hence the property in full is still false for the current code (recorded findings 5 and 7) -/
theorem parse_print_statement_counterexample : ¬ parse_print_statement := by
  intro h
  have := h .ascii (bin .IN (lx "ρεδ") (gX "X1")) (by decide +kernel)
  revert this; decide +kernel

/-! ### the proved fragment -/

/-- the first formulation of the lexer link (every well-formed `E` phrase, no condition on leaf payloads): FALSE as
stated — an `E.atom` may carry any payload, and the printer is stuck on an identifier without a name. The provable
formulation carries the hypothesis `E2.lexOK` and is `lex_print_fragment2` below. -/
def lex_print_statement : Prop :=
  ∀ (syn : Syn) (e : E), e.wf = true →
    ((print syn e.ast).bind (lex syn)).map (·.map fun t => (t.id, t.data)) =
      some ((e.toks ++ [tk .END]).map fun t => (t.id, t.data))

theorem lex_print_statement_counterexample : ¬ lex_print_statement := by
  intro h
  have := h .math (.atom .ID_LOCAL .none) rfl
  revert this; decide +kernel

/-- **parse_print_partial** (the proved part of `parse_print_statement`, at the level of tokens; no
hypothesis beyond membership in the fragment).
For EVERY tree of the fragment
  identifiers (local, global, radical), literals (integer, `Z`, `∅`),
  `bool debool red card Pr… pr…` applied to a set expression,
  the binary arithmetic / set operators `+ - * ∪ ∩ \ ∆`, n-ary products `k1×…×kn` (a factor that is
  itself a product stays a separate node), the eleven binary predicates, `¬`, the connectives `⇔ ⇒ ∨ &`,
of any size and nesting, the parser model returns the tree itself from the token sequence printed
with the bracket decisions of `ViArithmetic`, `ViDecart`, `ViLogicBinary`, `ViNegation` (computed from
the generated `CompareOperations` tables): precedence climbing against the generated `%left` lines
re-attaches every operand where it was, unbracketed products are flattened exactly as printed,
redundant bracket nodes disappear, nothing else changes. That the bracket decisions suffice at
every node (`PP.ok_of_wf`) is derived from `brackets_suffice_fragment`, re-proved on every run.
Superseded by `parse_print_fragment2` (larger fragment `E2`, which contains `E` through `PP.E.emb`) and, at the level
of text, by `parse_print_text_fragment2`; kept because its proof is independent. -/
theorem parse_print_partial (e : E) (hw : e.wf = true) :
    parseToks (e.toks ++ [tk .END]) = some e.ast :=
  CCVerif.PP.parseToks_toks_wf e hw

/-- **brackets_suffice_fragment**: the table facts (generated `CompareOperations` pairs against the
generated `%left` lines) from which the bracket hypothesis of the fragment proof follows for every
tree: under `+ - * ∪ ∩ \ ∆` and as a factor of `×` an operand that is a binary operator is bracketed
or binds tightly enough; leaves and text operators are never bracketed; likewise for the
connectives and `¬`. -/
theorem brackets_suffice_fragment :
    (∀ p ∈ PP.set7L, ∀ c ∈ PP.set8L, ∀ s ∈ PP.sides, (PP.brSet p c s || PP.condOK p c s) = true) ∧
    (∀ p ∈ PP.set7L, ∀ c ∈ PP.leafL, ∀ s ∈ PP.sides, PP.brSet p c s = false) ∧
    (∀ c ∈ PP.set7L, (PP.brProd true c || PP.condOK .DECART c .left) = true ∧ (PP.brProd false c || PP.condOK .DECART c .right) = true) ∧
    (∀ c ∈ PP.leafL, PP.brProd true c = false ∧ PP.brProd false c = false) ∧
    (∀ p ∈ PP.logic4L, ∀ c ∈ PP.logic4L, ∀ s ∈ PP.sides, (PP.brLogic p c s || PP.condOK p c s) = true) ∧
    (∀ p ∈ PP.logic4L, ∀ s ∈ PP.sides, PP.brLogic p .NOT s = false) ∧
    (∀ c ∈ PP.logic4L, PP.brNot c = true) ∧ PP.brNot .NOT = false :=
  CCVerif.PP.bracket_tables

/-- `a+b*(c∪d)∩e×(f×g)×h ∈ pr1(x) ⇒ ¬(p=q & ¬ r⊆s ∨ t∉u)` as a fragment phrase -/
def sampleE : E :=
  let v (n : String) : E := .atom .ID_LOCAL (.text n)
  .lbin .IMPLICATION
    (.pred .IN (.sbin .PLUS (v "a") (.sbin .MULTIPLY (v "b")
        (.prodN (.prod2 (.sbin .INTERSECTION (.sbin .UNION (v "c") (v "d")) (v "e")) (.prod2 (v "f") (v "g"))) (v "h"))))
      (.text .SMALLPR (.tuple [1]) (v "x")))
    (.neg (.lbin .OR (.lbin .AND (.pred .EQUAL (v "p") (v "q")) (.neg (.pred .SUBSET_OR_EQ (v "r") (v "s"))))
      (.pred .NOTIN (v "t") (v "u"))))

/-- non-vacuity of `parse_print_partial`, and the lexer link on this instance in both
syntaxes by kernel evaluation (in general: `lex_print_fragment2`) -/
theorem parse_print_partial_nonvacuous :
    sampleE.wf = true ∧ wfAst sampleE.ast = true ∧
    (∀ syn ∈ [Syn.math, .ascii],
      ((print syn sampleE.ast).bind (lex syn)).map (·.map fun t => (t.id, t.data)) =
        some ((sampleE.toks ++ [tk .END]).map fun t => (t.id, t.data)) ∧
      outcome syn sampleE.ast = .same) := by
  decide +kernel

/-! ### the larger fragment `E2`: tokens, then text -/

/-- **parse_print_fragment2** (token level, unbounded trees, no bracket hypothesis). For EVERY set phrase or formula of
the fragment `E2` (`Model/PPFragment2.lean`):
  everything of `parse_print_partial`, and in addition
  `ℬ(…)` (printed `ℬℬ(…)` without parentheses when nested), enumerations `{a, …}`, tuples `(a, b, …)`,
  function and predicate calls `F1[a, …]` / `P1[a, …]`, filters `Fi1,2[p, …](a)`,
  quantifiers `∀ / ∃` with a plain (`x`), tuple (`(x, (y, z))`) or enumerated (`x, y`) declaration,
  the declarative construction `D{v∈d | φ}` with a plain or tuple variable,
nested in any way, the parser model returns the tree from the printed token sequence: lists go through
`setexpr_enum`, declared variables through `variable` / `variable_pack` and the `TupleDeclaration` rewrite, the body
of a quantifier is a `logic_no_binary` exactly because `ViQuantifier` brackets every connective
(`brackets_suffice_fragment2`), an enumeration never starts like a term declaration `x∈`.
Still outside: recursive / imperative constructions, `{x∈X | φ}` without `D`, function definitions, global
declarations, bare `F1` / `P1` as identifiers. -/
theorem parse_print_fragment2 (e : E2) (hw : e.wf = true) (hSL : e.isS = true ∨ e.isL = true) :
    parseToks (e.toks ++ [tk .END]) = some e.ast :=
  CCVerif.PP.parseToks_toks_wf2 e hw hSL

/-- `parse_print_partial` is the instance of `parse_print_fragment2` on embedded phrases -/
example (e : E) (hw : e.wf = true) : parseToks (e.toks ++ [tk .END]) = some e.ast := by
  have := parse_print_fragment2 e.emb (by rw [PP.emb_wf]; exact hw) (PP.emb_cat e)
  rwa [PP.emb_toks, PP.emb_ast] at this

/-- **brackets_suffice_fragment2**: the additional table facts (generated `CompareOperations`) behind
`parse_print_fragment2`: the new set constructs are never bracketed as operands; `¬ ∀ ∃` and predicate calls are never
bracketed under a connective or `¬`; a quantifier brackets every connective in its body and nothing else. -/
theorem brackets_suffice_fragment2 :
    (∀ p ∈ PP.set7L, ∀ c ∈ PP.primTopL, ∀ s ∈ PP.sides, PP.brSet p c s = false) ∧
    (∀ c ∈ PP.primTopL, PP.brProd true c = false ∧ PP.brProd false c = false) ∧
    (∀ p ∈ PP.logic4L, ∀ c ∈ PP.unaryTopL, ∀ s ∈ PP.sides, PP.brLogic p c s = false) ∧
    (∀ c ∈ PP.unaryTopL, PP.brNot c = false) ∧
    (∀ q ∈ PP.quantL, (∀ c ∈ PP.logic4L, PP.brQ q c = true) ∧ (∀ c ∈ PP.unaryTopL, PP.brQ q c = false)) :=
  CCVerif.PP.bracket_tables2

/-- **fixed_spellings_fragment** (generated spelling tables and lexer rules, both syntaxes): every fixed spelling
the printer emits inside a fragment phrase splits into blanks + core + blanks, the core is lexed as its token
without payload, trailing blanks stop every rule, and a core that is a word is extended neither by a comma nor (for
`B`) by another `B`. -/
theorem fixed_spellings_fragment : ∀ syn ∈ PP.synL, ∀ t ∈ PP.fragFixed, PP.fixedBase syn t = true :=
  CCVerif.PP.fixed_table

/-- **free_spellings_fragment**: operators, closing brackets, comma, bar, `∈`, `¬ ∀ ∃`, `∅` accept ANY following
unit (their spelling ends with a blank, or no literal of the lexer extends it) and start with a non-alphanumeric
unit, in both syntaxes. -/
theorem free_spellings_fragment : ∀ syn ∈ PP.synL, ∀ t ∈ PP.freeL, PP.freeTok syn t = true ∧
    PP.memb t PP.fragFixed = true ∧
    (match (str syn t).head? with | some c => !isAlnum syn c | none => false) = true :=
  CCVerif.PP.free_table

/-- **punctuation_spellings_fragment**: the brackets, comma and bar are spelled as `GeneratorImplAST` writes them
literally; `ℬ` may be followed by `ℬ` and by `(`; only `}` can extend `{` (ASCII `{}`). -/
theorem punctuation_spellings_fragment :
    (∀ syn ∈ PP.synL, str syn .PUNC_PL = [40] ∧ str syn .PUNC_PR = [41] ∧ str syn .PUNC_SL = [91] ∧
      str syn .PUNC_SR = [93] ∧ str syn .PUNC_CL = [123] ∧ str syn .PUNC_CR = [125] ∧ str syn .PUNC_COMMA = [44] ∧
      str syn .PUNC_BAR = [124]) ∧
    (∀ syn ∈ PP.synL, ∀ t ∈ PP.wordL, PP.memb t PP.fragFixed = true ∧
      (PP.freeTok syn t || !LexP.symStart syn (PP.fparts syn t).2.1) = true) ∧
    (∀ syn ∈ PP.synL, ∀ t ∈ PP.startFixedL, PP.memb t PP.fragFixed = true ∧
      (match (str syn t).head? with | some c => c != 125 | none => false) = true) :=
  ⟨CCVerif.PP.punct_spell, CCVerif.PP.word_table, CCVerif.PP.start_table.1⟩

/-- **lex_print_fragment2** (the lexer link, a theorem now): for every set phrase or formula of `E2` whose leaf
payloads are lexer-conformant (`E2.lexOK syn`: an identifier name is a non-empty word over the alphabet of the syntax
— `[A-Za-z0-9_]`, for MATH also `α…ω` — that the lexer of the syntax reads as ONE token of its kind; integer literals
lie in `[0, 2³¹)`, indices of `Pr pr Fi` in `[0, 32767]`; `bool debool red card` carry no payload), the printer
model prints a text and the lexer model reads it back as exactly `e.toks` (kinds and payloads) followed by END.
Maximal munch is handled in general: `Lemmas/LexPieces.lean` (no rule matches beyond a token whose next unit does
not extend it; blank runs), `Lemmas/LexNumeric.lean` (decimal spellings, index tuples), `Lemmas/PrintLex2.lean`
(the printed text as a chain of such tokens). -/
theorem lex_print_fragment2 (syn : Syn) (e : E2) (hw : e.wf = true) (hSL : e.isS = true ∨ e.isL = true)
    (hl : e.lexOK syn = true) :
    ((print syn e.ast).bind (lex syn)).map (·.map fun t => (t.id, t.data)) =
      some ((e.toks ++ [tk .END]).map fun t => (t.id, t.data)) := by
  obtain ⟨hp, hlex⟩ := CCVerif.PP.lex_print2 syn e hw hSL hl
  rw [hp]
  exact hlex

/-- **parse_print_text_fragment2** (`parse_print_statement` restricted to the fragment, at the level of TEXT, both
syntaxes): if the tree `t` is, up to positions, the tree of a set phrase or formula `e` of `E2` with lexer-conformant
leaves, then print `t`, lex and parse the text — the result is `t` again (up to positions; local names are not
changed by the transliteration because they are words of the target alphabet). Chain of theorems:
printer = items (`PP.pclaim`, positions ignored: `PP.print_erA`) → lexer gives `e.toks` (`lex_print_fragment2`) →
parser gives the tree (`parse_print_fragment2`) → positions of the tokens do not matter (`PE.parseToks_erase`).
The two recorded findings are outside the hypothesis `E2.lexOK` (literal ≥ 2³¹ / index > 32767; a Greek name printed
in ASCII). -/
theorem parse_print_text_fragment2 (syn : Syn) (t : Ast) (e : E2) (ht : CCVerif.PE.erA t = e.ast) (hw : e.wf = true)
    (hSL : e.isS = true ∨ e.isL = true) (hl : e.lexOK syn = true) : roundTrips syn t = true := by
  obtain ⟨text, t', hp, hparse, heq⟩ := CCVerif.PP.text_roundtrip2_any syn t e ht hw hSL hl
  simp [roundTrips, outcome, hp, hparse, heq]

/-- the same for the zero-position tree of the phrase itself -/
theorem parse_print_text_fragment2_self (syn : Syn) (e : E2) (hw : e.wf = true) (hSL : e.isS = true ∨ e.isL = true)
    (hl : e.lexOK syn = true) : roundTrips syn e.ast = true := by
  obtain ⟨text, t', hp, hparse, heq⟩ := CCVerif.PP.text_roundtrip2 syn e hw hSL hl
  simp [roundTrips, outcome, hp, hparse, heq]

/-- non-vacuity with real positions: `X1∪X2` as the parser delivers it -/
example : ∀ syn ∈ [Syn.math, .ascii],
    roundTrips syn (.node .UNION .none 0 5 [.node .ID_GLOBAL (.text "X1") 0 2 [], .node .ID_GLOBAL (.text "X2") 3 5 []]) = true := by
  intro syn _
  refine parse_print_text_fragment2 syn _ (.sbin .UNION (.atom .ID_GLOBAL (.text "X1")) (.atom .ID_GLOBAL (.text "X2")))
    (by simp [CCVerif.PE.erA, CCVerif.PE.erL, E2.ast]) (by decide) (Or.inl rfl) (by cases syn <;> decide +kernel)

/-- `∀x, (y, z)∈ℬ(X1×X2) (P1[x, {y, 1}] ⇒ ∃w∈Fi1,2[X1, X2](S1) ¬w∈D{(a, b)∈X1×X1 | a=b & card({a, b})<F1[a, Z]∪pr2(y)})`
as an `E2` phrase -/
def sampleE2 : E2 :=
  let v (n : String) : E2 := .atom .ID_LOCAL (.text n)
  let g (n : String) : E2 := .atom .ID_GLOBAL (.text n)
  .quant .FORALL (.more (v "x") (.one (.tuple (v "y") (.one (v "z"))))) (.pow (.prod2 (g "X1") (g "X2")))
    (.lbin .IMPLICATION
      (.pcall (.text "P1") (.more (v "x") (.one (.enum (.more (v "y") (.one (.atom .LIT_INTEGER (.int 1))))))))
      (.quant .EXISTS (.one (v "w")) (.filter (.tuple [1, 2]) (.more (g "X1") (.one (g "X2"))) (g "S1"))
        (.neg (.pred .IN (v "w")
          (.decl (.tuple (v "a") (.one (v "b"))) (.prod2 (g "X1") (g "X1"))
            (.lbin .AND (.pred .EQUAL (v "a") (v "b"))
              (.pred .LESSER (.text .CARD .none (.enum (.more (v "a") (.one (v "b")))))
                (.sbin .UNION (.fcall (.text "F1") (.more (v "a") (.one (.atom .LIT_INTSET .none))))
                  (.text .SMALLPR (.tuple [2]) (v "y"))))))))))

/-- non-vacuity of the `E2` theorems: the sample satisfies every hypothesis in both syntaxes, and its tree is one the
grammar produces -/
theorem fragment2_nonvacuous :
    sampleE2.wf = true ∧ sampleE2.isL = true ∧ sampleE2.lexOK .math = true ∧ sampleE2.lexOK .ascii = true ∧
    wfAst sampleE2.ast = true := by
  decide +kernel

example : ∀ syn ∈ [Syn.math, .ascii], roundTrips syn sampleE2.ast = true := by
  intro syn _
  have h := fragment2_nonvacuous
  exact parse_print_text_fragment2_self syn sampleE2 h.1 (Or.inr h.2.1) (by cases syn; exact h.2.2.1; exact h.2.2.2.1)

/-- a Greek local name is inside the hypothesis for MATH and outside it for ASCII (recorded finding 7) -/
example : (E2.atom .ID_LOCAL (.text "ρεδ")).lexOK .math = true ∧ (E2.atom .ID_LOCAL (.text "ρεδ")).lexOK .ascii = false := by
  decide +kernel

/-! ### non-vacuity: constructor forms that do round-trip (both syntaxes) -/

example : ∀ syn ∈ [Syn.math, .ascii],
    roundTrips syn (.node .NT_DECLARATIVE_EXPR .none 0 0
      [.node .NT_TUPLE_DECL .none 0 0 [lx "a", lx "b"], gX "S1", bin .AND eqAB (un .NOT eqAB)]) = true := by
  decide +kernel
example : ∀ syn ∈ [Syn.math, .ascii],
    roundTrips syn (.node .NT_IMPERATIVE_EXPR .none 0 0
      [lx "a", bin .ITERATE (lx "a") (gX "X1"), bin .ASSIGN (lx "b") (lx "a"), eqAB]) = true := by
  decide +kernel
example : roundTrips .ascii (bin .IN (lx "αβ1") (gX "X1")) = true := by decide +kernel
example : roundTrips .math (.node .PUNC_DEFINE .none 0 0 [.node .ID_FUNCTION (.text "F1") 0 0 [],
    .node .NT_FUNC_DEFINITION .none 0 0 [.node .NT_ARGUMENTS .none 0 0
      [.node .NT_ARG_DECL .none 0 0 [lx "a", un .BOOLEAN (gX "X1")]], bin .SET_MINUS (lx "a") (lx "a")]]) = true := by
  decide +kernel

/-! ## Part 3 — the fragment `E3`: recursive and imperative constructions

`E3` (`Model/PPFragment3.lean`) = `E2` + `R{v := d | s}`, `R{v := d | c | s}`, `I{val | block ; …}` with blocks that are
formulas, `v :∈ s` or `v := s` (`v` a local name or a tuple of variables), nested in any way. Proofs:
`Lemmas/ParsePrint3.lean`, `ParsePrint3Top.lean` (parser), `PrintLex3.lean`, `PrintLex3Print.lean` (lexer, printer),
`ParsePrint3Emb.lean` (`E2 ⊆ E3`). The `:=` of a recursion is printed with `Token::Str(ASSIGN, syntax)` (repaired defect
2): the proofs go through the generated spelling tables (`PP3.fixed_table`, `PP3.assign_spell`), not through a literal —
MATH `:=` is the one spelling here that a longer literal of the lexer (`:==`) extends, and a set phrase never starts with
`=` (`PP3.items_head`). -/

open CCVerif.PP3 (E3)

/-- **parse_print_fragment3** (parser link on `E3`): for every well-formed set phrase or formula of `E3` the parser model
returns the tree from the printed token sequence. New with respect to `parse_print_fragment2`: `recursion` (both
productions — the parser decides between them only after the second part, by the token that follows it), `imperative`
with `imp_blocks`, `variable ITERATE setexpr` / `variable ASSIGN setexpr` with the `TupleDeclaration` rewrite of a tuple on
the left, and `SemanticCheck` (assignment blocks occur only directly below `I{…}`, so it passes). -/
theorem parse_print_fragment3 (e : E3) (hw : e.wf = true) (hSL : e.isS = true ∨ e.isL = true) :
    parseToks (e.toks ++ [tk .END]) = some e.ast :=
  CCVerif.PP3.parseToks_toks_wf2 e hw hSL

/-- `parse_print_fragment2` is the instance of `parse_print_fragment3` on embedded phrases -/
example (e : E2) (hw : e.wf = true) (hSL : e.isS = true ∨ e.isL = true) : parseToks (e.toks ++ [tk .END]) = some e.ast := by
  have := parse_print_fragment3 (PP3.emb3 e) (by rw [PP3.emb3_wf]; exact hw) (by rw [PP3.emb3_isS, PP3.emb3_isL]; exact hSL)
  rwa [PP3.emb3_toks, PP3.emb3_ast] at this

/-- **brackets_suffice_fragment3**: `brackets_suffice_fragment2` with `R{…}` and `I{…}` among the set phrases that are
never bracketed as operands of `+ - * ∪ ∩ \ ∆ ×` (generated `CompareOperations` tables). -/
theorem brackets_suffice_fragment3 :
    (∀ p ∈ PP.set7L, ∀ c ∈ PP3.primTopL, ∀ s ∈ PP.sides, PP.brSet p c s = false) ∧
    (∀ c ∈ PP3.primTopL, PP.brProd true c = false ∧ PP.brProd false c = false) ∧
    (∀ p ∈ PP.logic4L, ∀ c ∈ PP3.unaryTopL, ∀ s ∈ PP.sides, PP.brLogic p c s = false) ∧
    (∀ c ∈ PP3.unaryTopL, PP.brNot c = false) ∧
    (∀ q ∈ PP3.quantL, (∀ c ∈ PP.logic4L, PP.brQ q c = true) ∧ (∀ c ∈ PP3.unaryTopL, PP.brQ q c = false)) :=
  CCVerif.PP3.bracket_tables2

/-- **fixed_spellings_fragment3** (generated spelling tables and lexer rules, both syntaxes): as
`fixed_spellings_fragment`, for the larger list of spellings (`R`, `I`, `:=`, `:∈`, `;` added). -/
theorem fixed_spellings_fragment3 : ∀ syn ∈ PP.synL, ∀ t ∈ PP3.fragFixed, PP.fixedBase syn t = true :=
  CCVerif.PP3.fixed_table

/-- **free_spellings_fragment3**: as `free_spellings_fragment`; `:∈` and `;` accept any following unit too. -/
theorem free_spellings_fragment3 : ∀ syn ∈ PP.synL, ∀ t ∈ PP3.freeL, PP.freeTok syn t = true ∧
    PP.memb t PP3.fragFixed = true ∧
    (match (str syn t).head? with | some c => !isAlnum syn c | none => false) = true :=
  CCVerif.PP3.free_table

/-- **assign_spelling_fragment3**: the spelling of ASSIGN in the requested syntax (`:=` / ` \assign `) accepts any
following unit or is extended by `=` only; it does not start with an alphanumeric unit; `;` is spelled as
`GeneratorImplAST` writes it; `R` and `I` are words; none of the fixed spellings that can start a set phrase starts with
`}` or `=`. -/
theorem assign_spelling_fragment3 :
    (∀ syn ∈ PP.synL,
      (PP.freeTok syn .ASSIGN || (LexP.symStart syn (PP.fparts syn .ASSIGN).2.1 &&
        LexP.extChars syn (PP.fparts syn .ASSIGN).2.1 == [61])) = true ∧
      (match (str syn .ASSIGN).head? with | some c => !isAlnum syn c | none => false) = true ∧
      str syn .PUNC_SEMICOLON = [59]) ∧
    (∀ syn ∈ PP.synL, ∀ t ∈ PP3.wordL, PP.memb t PP3.fragFixed = true ∧
      (PP.freeTok syn t || !LexP.symStart syn (PP.fparts syn t).2.1) = true) ∧
    (∀ syn ∈ PP.synL, ∀ t ∈ PP3.startFixedL, PP.memb t PP3.fragFixed = true ∧
      (match (str syn t).head? with | some c => c != 125 && c != 61 | none => false) = true) :=
  ⟨CCVerif.PP3.assign_spell, CCVerif.PP3.word_table, CCVerif.PP3.start_table.1⟩

/-- **lex_print_fragment3** (lexer link on `E3`): for every set phrase or formula of `E3` with lexer-conformant leaves
(`E3.lexOK syn`, the same condition on leaves as `E2.lexOK`) the printer model prints a text and the lexer model reads it
back as exactly `e.toks` (kinds and payloads) followed by END. -/
theorem lex_print_fragment3 (syn : Syn) (e : E3) (hw : e.wf = true) (hSL : e.isS = true ∨ e.isL = true)
    (hl : e.lexOK syn = true) :
    ((print syn e.ast).bind (lex syn)).map (·.map fun t => (t.id, t.data)) =
      some ((e.toks ++ [tk .END]).map fun t => (t.id, t.data)) := by
  obtain ⟨hp, hlex⟩ := CCVerif.PP3.lex_print2 syn e hw hSL hl
  rw [hp]
  exact hlex

/-- **parse_print_text_fragment3** (`parse_print_statement` restricted to `E3`, at the level of TEXT, both syntaxes): if
the tree `t` is, up to positions, the tree of a set phrase or formula `e` of `E3` with lexer-conformant leaves, then print
`t`, lex and parse the text — the result is `t` again (up to positions). Every link is a theorem, as for
`parse_print_text_fragment2`; the fragment now contains the recursive and the imperative construction. -/
theorem parse_print_text_fragment3 (syn : Syn) (t : Ast) (e : E3) (ht : CCVerif.PE.erA t = e.ast) (hw : e.wf = true)
    (hSL : e.isS = true ∨ e.isL = true) (hl : e.lexOK syn = true) : roundTrips syn t = true := by
  obtain ⟨text, t', hp, hparse, heq⟩ := CCVerif.PP3.text_roundtrip2_any syn t e ht hw hSL hl
  simp [roundTrips, outcome, hp, hparse, heq]

/-- the same for the zero-position tree of the phrase itself -/
theorem parse_print_text_fragment3_self (syn : Syn) (e : E3) (hw : e.wf = true) (hSL : e.isS = true ∨ e.isL = true)
    (hl : e.lexOK syn = true) : roundTrips syn e.ast = true := by
  obtain ⟨text, t', hp, hparse, heq⟩ := CCVerif.PP3.text_roundtrip2 syn e hw hSL hl
  simp [roundTrips, outcome, hp, hparse, heq]

/-- `parse_print_text_fragment2` is the instance of `parse_print_text_fragment3` on embedded phrases -/
example (syn : Syn) (t : Ast) (e : E2) (ht : CCVerif.PE.erA t = e.ast) (hw : e.wf = true)
    (hSL : e.isS = true ∨ e.isL = true) (hl : e.lexOK syn = true) : roundTrips syn t = true :=
  parse_print_text_fragment3 syn t (PP3.emb3 e) (by rw [PP3.emb3_ast]; exact ht) (by rw [PP3.emb3_wf]; exact hw)
    (by rw [PP3.emb3_isS, PP3.emb3_isL]; exact hSL) (by rw [PP3.emb3_lexOK]; exact hl)

/-- non-vacuity with real positions: `R{w := X1 | w∪X1}` (short recursion) as the parser delivers it -/
example : ∀ syn ∈ [Syn.math, .ascii],
    roundTrips syn (.node .NT_RECURSIVE_SHORT .none 0 14 [.node .ID_LOCAL (.text "w") 2 3 [],
      .node .ID_GLOBAL (.text "X1") 5 7 [],
      .node .UNION .none 10 14 [.node .ID_LOCAL (.text "w") 10 11 [], .node .ID_GLOBAL (.text "X1") 12 14 []]]) = true := by
  intro syn _
  refine parse_print_text_fragment3 syn _
    (.recS (.atom .ID_LOCAL (.text "w")) (.atom .ID_GLOBAL (.text "X1"))
      (.sbin .UNION (.atom .ID_LOCAL (.text "w")) (.atom .ID_GLOBAL (.text "X1"))))
    (by simp [CCVerif.PE.erA, CCVerif.PE.erL, E3.ast, E3.dast]) (by decide) (Or.inl rfl) (by cases syn <;> decide +kernel)

/-- `I{(x, y) | x :∈ X1; (y, z) := R{(a, b) := (x, 0) | pr1(a)∈X2 | (a∪x, b+1)}; y≠∅; z := R{w := S1 | w∪X1}}∪X2`
as an `E3` phrase: imperative construction with all three kinds of blocks (tuple patterns on the left included), full
and short recursion inside -/
def sampleE3 : E3 :=
  let v (n : String) : E3 := .atom .ID_LOCAL (.text n)
  let g (n : String) : E3 := .atom .ID_GLOBAL (.text n)
  .sbin .UNION
    (.imp (.tuple (v "x") (.one (v "y")))
      (.bmoreK .ITERATE (v "x") (g "X1")
        (.bmoreK .ASSIGN (.tuple (v "y") (.one (v "z")))
            (.recF (.tuple (v "a") (.one (v "b"))) (.tuple (v "x") (.one (.atom .LIT_INTEGER (.int 0))))
              (.pred .IN (.text .SMALLPR (.tuple [1]) (v "a")) (g "X2"))
              (.tuple (.sbin .UNION (v "a") (v "x")) (.one (.sbin .PLUS (v "b") (.atom .LIT_INTEGER (.int 1))))))
          (.bmore (.pred .NOTEQUAL (v "y") (.atom .LIT_EMPTYSET .none))
            (.boneK .ASSIGN (v "z") (.recS (v "w") (g "S1") (.sbin .UNION (v "w") (g "X1"))))))))
    (g "X2")

/-- non-vacuity of the `E3` theorems: the sample satisfies every hypothesis in both syntaxes, and its tree is one the
grammar produces -/
theorem fragment3_nonvacuous :
    sampleE3.wf = true ∧ sampleE3.isS = true ∧ sampleE3.lexOK .math = true ∧ sampleE3.lexOK .ascii = true ∧
    wfAst sampleE3.ast = true := by
  decide +kernel

example : ∀ syn ∈ [Syn.math, .ascii], roundTrips syn sampleE3.ast = true := by
  intro syn _
  have h := fragment3_nonvacuous
  exact parse_print_text_fragment3_self syn sampleE3 h.1 (Or.inl h.2.1) (by cases syn; exact h.2.2.1; exact h.2.2.2.1)

/-- the printed texts of the sample (the ASCII text spells ASSIGN ` \assign `, from the generated table) -/
example : (print .math sampleE3.ast).map (fun u => String.ofList (u.map Char.ofNat)) =
    some "I{(x, y) | x:∈X1; (y, z):=R{(a, b):=(x, 0) | pr1(a)∈X2 | (a∪x, b+1)}; y≠∅; z:=R{w:=S1 | w∪X1}}∪X2" := by
  decide +kernel

/-! ### top-level forms over `E3` (parser link) -/

/-- **parse_print_top_fragment3** (TOKEN level only): function definitions `[x∈S, y∈T] body` and global declarations
`X1 :== body`, `S1 ::= body`, `F1 :== [x∈S] body`, `X1 :==` whose bodies and domains are phrases of `E3`
(`PP3.Top`, `Lemmas/ParsePrint3Decl.lean`): the parser model returns the tree from the printed token sequence
(`arguments`, `no_declaration`, `expression`, `FinalizeCstEmpty`, `SemanticCheck`, `CreateSyntaxTree`).
This is the parser link alone; the printer and lexer links for these forms are `lex_print_top_fragment3`, the whole chain at
the level of TEXT is `parse_print_text_top_fragment3` (both below). -/
theorem parse_print_top_fragment3 (t : PP3.Top) (hw : t.wf = true) : parseToks (t.toks ++ [tk .END]) = some t.ast :=
  CCVerif.PP3.parseToks_top t hw

/-- `F1 :== [a∈ℬ(X1), b∈X2] R{w := a | w∪{b}}` -/
def sampleTop3 : PP3.Top :=
  let v (n : String) : E3 := .atom .ID_LOCAL (.text n)
  let g (n : String) : E3 := .atom .ID_GLOBAL (.text n)
  .glob .ID_FUNCTION (.text "F1") .PUNC_DEFINE
    (.fdef (.more (.text "a") (.pow (g "X1")) (.one (.text "b") (g "X2")))
      (.recS (v "w") (v "a") (.sbin .UNION (v "w") (.enum (.one (v "b"))))))

/-- non-vacuity of `parse_print_top_fragment3`; the tree is one the grammar produces, and the full pipeline (text
level, kernel-evaluated for this instance) gives it back in both syntaxes -/
example : sampleTop3.wf = true ∧ wfAst sampleTop3.ast = true ∧
    (∀ syn ∈ [Syn.math, .ascii], roundTrips syn sampleTop3.ast = true) := by
  decide +kernel

example : parseToks (sampleTop3.toks ++ [tk .END]) = some sampleTop3.ast :=
  parse_print_top_fragment3 sampleTop3 (by decide)

/-! ### top-level forms over `E3` at the level of TEXT (`Lemmas/ParsePrint3Text.lean`) -/

/-- **define_spelling_fragment3** (generated spelling tables and lexer rules, both syntaxes): the spellings of PUNC_DEFINE and
PUNC_STRUCT (`:==` / `::=`, ` \defexpr ` / ` \deftype `) split into blanks + core + blanks, the core is lexed as its token
without payload, NO literal of the lexer extends it (or it ends with a blank) — so any body may follow —, and it does not start
with an alphanumeric unit — so the declared name in front of it ends there. (The MATH lexer reads `:==` as one token by maximal
munch over `:=` + `=`; that `:=` followed by `=` never occurs inside a phrase is `assign_spelling_fragment3`.) -/
theorem define_spelling_fragment3 : ∀ syn ∈ PP.synL, ∀ t ∈ PP3.defL, PP.fixedBase syn t = true ∧ PP.freeTok syn t = true ∧
    (match (str syn t).head? with | some c => !isAlnum syn c | none => false) = true :=
  CCVerif.PP3.def_table

/-- **lex_print_top_fragment3** (printer and lexer link for the top-level forms): for every well-formed `PP3.Top` term with
lexer-conformant leaves (`Top.lexOK syn`: declared arguments are local names, the declared name is a global / function /
predicate name of the lexer of `syn`, leaves of the domains and of the body as `E3.lexOK`) the printer model prints a text —
`ViGlobalDeclaration`, `ViFunctionDefinition`, `ViArgumentsEnum`, `ViArgument` — and the lexer model reads it back as exactly
`t.toks` (kinds and payloads) followed by END. -/
theorem lex_print_top_fragment3 (syn : Syn) (t : PP3.Top) (hw : t.wf = true) (hl : t.lexOK syn = true) :
    ((print syn t.ast).bind (lex syn)).map (·.map fun t => (t.id, t.data)) =
      some ((t.toks ++ [tk .END]).map fun t => (t.id, t.data)) := by
  obtain ⟨hp, hlex⟩ := CCVerif.PP3.lex_print_top syn t hw hl
  rw [hp]
  exact hlex

/-- **parse_print_text_top_fragment3** (`parse_print_statement` on the top-level forms over `E3`, at the level of TEXT, both
syntaxes): if the tree `t` is, up to positions, the tree of a well-formed `PP3.Top` term `d` — a set phrase / formula of `E3`, a
function definition `[x∈S, …] body`, a global declaration `X1 :== body`, `S1 ::= body`, `F1 :== [x∈S, …] body` or the empty
declaration `X1 :==` — with lexer-conformant leaves, then print `t`, lex and parse the text: the result is `t` again (up to
positions). Every link is a theorem: printer = items (`PP3.top_print`), lexer gives `d.toks` (`lex_print_top_fragment3`), parser
gives the tree (`parse_print_top_fragment3`), positions do not matter (`PE.parseToks_erase`, `PP3.print_erA`), the
transliteration is the identity (`PP3.translit_top`). -/
theorem parse_print_text_top_fragment3 (syn : Syn) (t : Ast) (d : PP3.Top) (ht : CCVerif.PE.erA t = d.ast) (hw : d.wf = true)
    (hl : d.lexOK syn = true) : roundTrips syn t = true := by
  obtain ⟨text, t', hp, hparse, heq⟩ := CCVerif.PP3.top_text_roundtrip_any syn t d ht hw hl
  simp [roundTrips, outcome, hp, hparse, heq]

/-- `parse_print_text_fragment3` is the instance `Top.plain (Body.expr e)` -/
example (syn : Syn) (t : Ast) (e : E3) (ht : CCVerif.PE.erA t = e.ast) (hw : e.wf = true)
    (hSL : e.isS = true ∨ e.isL = true) (hl : e.lexOK syn = true) : roundTrips syn t = true :=
  parse_print_text_top_fragment3 syn t (.plain (.expr e)) ht
    (by simp only [PP3.Top.wf, PP3.Body.wf, hw, Bool.and_true, Bool.or_eq_true]; exact hSL) hl

/-- `F1 :== [a∈ℬ(X1), b∈X1] b∈a` with the argument names as parameters -/
def sampleTopIn (a b : String) : PP3.Top :=
  .glob .ID_FUNCTION (.text "F1") .PUNC_DEFINE
    (.fdef (.more (.text a) (.pow (.atom .ID_GLOBAL (.text "X1"))) (.one (.text b) (.atom .ID_GLOBAL (.text "X1"))))
      (.pred .IN (.atom .ID_LOCAL (.text b)) (.atom .ID_LOCAL (.text a))))

/-- non-vacuity: `F1 :== [α∈ℬ(X1), β∈X1] β∈α` (Greek argument names) meets the hypotheses for MATH, `F1 :== [a∈ℬ(X1), b∈X1] b∈a`
for both syntaxes; the trees are ones the grammar produces; the Greek names are outside `lexOK .ascii` -/
theorem top_text_nonvacuous :
    (sampleTopIn "α" "β").wf = true ∧ (sampleTopIn "α" "β").lexOK .math = true ∧ (sampleTopIn "α" "β").lexOK .ascii = false ∧
    (sampleTopIn "a" "b").wf = true ∧ (sampleTopIn "a" "b").lexOK .math = true ∧ (sampleTopIn "a" "b").lexOK .ascii = true ∧
    wfAst (sampleTopIn "α" "β").ast = true ∧ wfAst sampleTop3.ast = true ∧
    sampleTop3.lexOK .math = true ∧ sampleTop3.lexOK .ascii = true := by
  decide +kernel

example : roundTrips .math (sampleTopIn "α" "β").ast = true :=
  parse_print_text_top_fragment3 .math _ (sampleTopIn "α" "β") (by rfl) top_text_nonvacuous.1 top_text_nonvacuous.2.1

example : ∀ syn ∈ [Syn.math, .ascii], roundTrips syn (sampleTopIn "a" "b").ast = true := by
  intro syn _
  have h := top_text_nonvacuous
  exact parse_print_text_top_fragment3 syn _ (sampleTopIn "a" "b") (by rfl) h.2.2.2.1
    (by cases syn; exact h.2.2.2.2.1; exact h.2.2.2.2.2.1)

example : ∀ syn ∈ [Syn.math, .ascii], roundTrips syn sampleTop3.ast = true := by
  intro syn _
  have h := top_text_nonvacuous
  exact parse_print_text_top_fragment3 syn _ sampleTop3 (by rfl) (by decide)
    (by cases syn; exact h.2.2.2.2.2.2.2.2.1; exact h.2.2.2.2.2.2.2.2.2)

/-- the printed texts of the definition with Greek names; in ASCII the names come out transliterated, and the round trip of
the Greek tree holds there too by kernel evaluation (outside the hypothesis `lexOK .ascii`, inside the property) -/
example : (print .math (sampleTopIn "α" "β").ast).map (fun u => String.ofList (u.map Char.ofNat)) =
      some "F1:==[α∈ℬ(X1), β∈X1] β∈α" ∧
    (print .ascii (sampleTopIn "α" "β").ast).map (fun u => String.ofList (u.map Char.ofNat)) =
      some "F1 \\defexpr [a \\in B(X1), b \\in X1] b \\in a" ∧
    roundTrips .ascii (sampleTopIn "α" "β").ast = true := by
  decide +kernel

/-- with real positions, as the parser delivers it: `X1:==` (empty declaration) and `S1::=ℬ(X1)` -/
example : ∀ syn ∈ [Syn.math, .ascii],
    roundTrips syn (.node .PUNC_DEFINE .none 0 5 [.node .ID_GLOBAL (.text "X1") 0 2 []]) = true ∧
    roundTrips syn (.node .PUNC_STRUCT .none 0 10 [.node .ID_GLOBAL (.text "S1") 0 2 [],
      .node .BOOLEAN .none 5 10 [.node .ID_GLOBAL (.text "X1") 7 9 []]]) = true := by
  intro syn _
  refine ⟨parse_print_text_top_fragment3 syn _ (.globEmpty .ID_GLOBAL (.text "X1"))
      (by simp [CCVerif.PE.erA, CCVerif.PE.erL, PP3.Top.ast]) (by decide) (by cases syn <;> decide +kernel),
    parse_print_text_top_fragment3 syn _ (.glob .ID_GLOBAL (.text "S1") .PUNC_STRUCT (.expr (.pow (.atom .ID_GLOBAL (.text "X1")))))
      (by simp [CCVerif.PE.erA, CCVerif.PE.erL, PP3.Top.ast, PP3.Body.ast, E3.ast]) (by decide) (by cases syn <;> decide +kernel)⟩

end CCVerif.C05
