import CCVerif.Model.Checker
import CCVerif.Spec.Typing
import CCVerif.Lemmas.CheckerErr
import CCVerif.Lemmas.CheckerSound
import CCVerif.Lemmas.CheckerSound1
import CCVerif.Lemmas.CheckerSoundTop
import CCVerif.Lemmas.CheckerCompleteTop
import CCVerif.Lemmas.CheckerComplete3Top
import CCVerif.Lemmas.CheckerTotal
import CCVerif.Model.CheckerPinned
import CCVerif.Model.CheckerPinnedRec
import CCVerif.Model.CheckerPinnedRec2
import CCVerif.Spec.VClass
import CCVerif.Lemmas.VClassSpec
import CCVerif.Lemmas.VClassSound
import CCVerif.Lemmas.VClassTop
/-!
# C03 — the checker's verdict and typification follow the typing rules

* algebra of typifications (`Merge`, `AreCompatible`): unbounded, by structural induction;
* `check` (transcription of `TypeAuditor`) against the declarative relation of `Spec/Typing.lean`;
* on every tree of the shape the parser builds (`WfTop`): `check_total` (never `stuck`),
  `reject_has_critical_in_range` (a rejected input carries a critical error positioned inside
  it), `args_reported` (declared argument names in order);
* the defects K1–K7 that this check found in the pinned baseline and that are repaired in
  /repo stay documented as closed counterexamples about `checkPinned`.
-/
namespace CCVerif.C03
open CCVerif.Syntax CCVerif.Types CCVerif.Checker CCVerif.Spec

/-! ## algebra of types -/

mutual
private theorem compat_refl' (te : TraitEnv) : ∀ t : Ty, compat te t t = true
  | .base a => by simp [compat]
  | .coll b => by simp only [compat]; exact compat_refl' te b
  | .tuple cs => by simp only [compat]; exact compatList_refl' te cs
private theorem compatList_refl' (te : TraitEnv) : ∀ cs : List Ty, compatList te cs cs = true
  | [] => rfl
  | c :: cs => by
    simp only [compatList, Bool.and_eq_true]; exact ⟨compat_refl' te c, compatList_refl' te cs⟩
end

/-- `AreCompatible(t, t)` -/
theorem compat_refl (te : TraitEnv) (t : Ty) : compat te t t = true := compat_refl' te t

private theorem commonType_isSome_comm (te : TraitEnv) (a b : Ty) :
    (commonType te a b).isSome = (commonType te b a).isSome := by
  unfold commonType
  by_cases ha : (a == Ty.Z) = true <;> by_cases hb : (b == Ty.Z) = true
  · have := Ty.eq_of_beq _ _ ha; have := Ty.eq_of_beq _ _ hb; subst_vars; rfl
  · simp [ha, hb]
  · simp [ha, hb]
  · simp [ha, hb]

mutual
private theorem compat_symm' (te : TraitEnv) : ∀ a b : Ty, compat te a b = compat te b a
  | .base a, .base b => by
    simp only [compat]
    rw [commonType_isSome_comm te (.base a) (.base b)]
    have e : (a == b) = (b == a) := BEq.comm
    rw [e]
    cases (b == a) <;> cases (a == Ty.anyName) <;> cases (b == Ty.anyName) <;> simp
  | .base _, .coll _ => by simp [compat]
  | .base _, .tuple _ => by simp [compat]
  | .coll _, .base _ => by simp [compat]
  | .tuple _, .base _ => by simp [compat]
  | .coll a, .coll b => by simp only [compat]; exact compat_symm' te a b
  | .tuple as, .tuple bs => by simp only [compat]; exact compatList_symm' te as bs
  | .coll _, .tuple _ => by simp [compat]
  | .tuple _, .coll _ => by simp [compat]
private theorem compatList_symm' (te : TraitEnv) : ∀ as bs : List Ty, compatList te as bs = compatList te bs as
  | [], [] => rfl
  | [], _ :: _ => by simp [compatList]
  | _ :: _, [] => by simp [compatList]
  | a :: as, b :: bs => by
    simp only [compatList]; rw [compat_symm' te a b, compatList_symm' te as bs]
end

/-- `AreCompatible` is symmetric -/
theorem compat_symm (te : TraitEnv) (a b : Ty) : compat te a b = compat te b a := compat_symm' te a b

mutual
private theorem merge_idem' (te : TraitEnv) : ∀ t : Ty, merge te t t = some t
  | .base a => by simp [merge]
  | .coll b => by simp only [merge]; rw [merge_idem' te b]
  | .tuple cs => by simp only [merge]; rw [Ty.beqList_refl cs]; rfl
end

/-- `Merge(t, t) = t` -/
theorem merge_idem (te : TraitEnv) (t : Ty) : merge te t t = some t := merge_idem' te t

private theorem commonType_comm (te : TraitEnv) (a b : String) (hne : a ≠ b) :
    commonType te (.base a) (.base b) = commonType te (.base b) (.base a) := by
  unfold commonType
  by_cases ha : ((Ty.base a) == Ty.Z) = true <;> by_cases hb : ((Ty.base b) == Ty.Z) = true
  · have h1 := Ty.eq_of_beq _ _ ha; have h2 := Ty.eq_of_beq _ _ hb
    simp only [Ty.Z, Ty.base.injEq] at h1 h2; exact absurd (h1.trans h2.symm) hne
  · simp [ha, hb]
  · simp [ha, hb]
  · simp [ha, hb]

mutual
private theorem merge_comm' (te : TraitEnv) : ∀ a b : Ty, merge te a b = merge te b a
  | .base a, .base b => by
    simp only [merge]
    by_cases h1 : a = b
    · subst h1; rfl
    · have h2 : ¬ b = a := fun e => h1 e.symm
      simp only [beq_iff_eq, h1, h2, if_false]
      by_cases ha : a = Ty.anyName <;> by_cases hb : b = Ty.anyName
      · exact absurd (ha.trans hb.symm) h1
      · simp [ha, hb]
      · simp [ha, hb]
      · simp only [ha, hb, if_false]; exact commonType_comm te a b h1
  | .base _, .coll _ => by simp [merge]
  | .base _, .tuple _ => by simp [merge]
  | .coll _, .base _ => by simp [merge]
  | .tuple _, .base _ => by simp [merge]
  | .coll a, .coll b => by simp only [merge]; rw [merge_comm' te a b]
  | .tuple as, .tuple bs => by
    simp only [merge]
    by_cases h : Ty.beqList as bs = true
    · have e := Ty.eq_of_beqList as bs h; subst e; rfl
    · have h' : ¬ Ty.beqList bs as = true := fun e => h (by
        have := Ty.eq_of_beqList bs as e; subst this; exact Ty.beqList_refl _)
      have hf : Ty.beqList as bs = false := by simpa using h
      have hf' : Ty.beqList bs as = false := by simpa using h'
      simp [hf, hf', mergeList_comm' te as bs]
  | .coll _, .tuple _ => by simp [merge]
  | .tuple _, .coll _ => by simp [merge]
private theorem mergeList_comm' (te : TraitEnv) : ∀ as bs : List Ty, mergeList te as bs = mergeList te bs as
  | [], [] => rfl
  | [], _ :: _ => by simp [mergeList]
  | _ :: _, [] => by simp [mergeList]
  | a :: as, b :: bs => by
    simp only [mergeList]; rw [merge_comm' te a b, mergeList_comm' te as bs]
end

/-- `Merge` is commutative -/
theorem merge_comm (te : TraitEnv) (a b : Ty) : merge te a b = merge te b a := merge_comm' te a b

private theorem mergeList_idem (te : TraitEnv) : ∀ cs : List Ty, mergeList te cs cs = some cs
  | [] => rfl
  | c :: cs => by simp only [mergeList]; rw [merge_idem te c, mergeList_idem te cs]

mutual
private theorem compat_merge' (te : TraitEnv) : ∀ a b : Ty, compat te a b = (merge te a b).isSome
  | .base a, .base b => by
    simp only [compat, merge]
    by_cases h1 : (a == b) = true
    · simp [h1]
    · by_cases h2 : (a == Ty.anyName) = true
      · simp [h1, h2]
      · by_cases h3 : (b == Ty.anyName) = true
        · simp [h1, h2, h3]
        · simp [h1, h2, h3]
  | .base a, .coll _ => by simp only [compat, merge]; split <;> simp_all
  | .base a, .tuple _ => by simp only [compat, merge]; split <;> simp_all
  | .coll _, .base b => by simp only [compat, merge]; split <;> simp_all
  | .tuple _, .base b => by simp only [compat, merge]; split <;> simp_all
  | .coll a, .coll b => by
    simp only [compat, merge]; rw [compat_merge' te a b]; cases merge te a b <;> rfl
  | .tuple as, .tuple bs => by
    simp only [compat, merge]
    by_cases h : Ty.beqList as bs = true
    · have e := Ty.eq_of_beqList as bs h; subst e
      simp [h, compatList_refl' te as]
    · simp only [h]; rw [compatList_merge' te as bs]; cases mergeList te as bs <;> rfl
  | .coll _, .tuple _ => by simp [compat, merge]
  | .tuple _, .coll _ => by simp [compat, merge]
private theorem compatList_merge' (te : TraitEnv) : ∀ as bs : List Ty, compatList te as bs = (mergeList te as bs).isSome
  | [], [] => rfl
  | [], _ :: _ => by simp [compatList, mergeList]
  | _ :: _, [] => by simp [compatList, mergeList]
  | a :: as, b :: bs => by
    simp only [compatList, mergeList]; rw [compat_merge' te a b, compatList_merge' te as bs]
    cases merge te a b <;> cases mergeList te as bs <;> rfl
end

/-- `AreCompatible(a, b)` holds exactly when `Merge(a, b)` succeeds -/
theorem compat_iff_merge_some (te : TraitEnv) (a b : Ty) :
    compat te a b = true ↔ ∃ c, merge te a b = some c := by
  rw [compat_merge' te a b]; cases merge te a b <;> simp

/-- the any-type is compatible with everything and is the unit of `Merge` -/
theorem merge_any_left (te : TraitEnv) (t : Ty) : merge te Ty.R0 t = some t := by
  cases t with
  | base b => simp only [merge, Ty.R0]; by_cases h : Ty.anyName = b <;> simp [h]
  | coll b => simp [merge, Ty.R0]
  | tuple cs => simp [merge, Ty.R0]

theorem merge_any_right (te : TraitEnv) (t : Ty) : merge te t Ty.R0 = some t := by
  rw [merge_comm]; exact merge_any_left te t

/-- the only place where `Merge` calls `Typification::Tuple(components)`: the component vector
is never empty there, so the assert of `Tuple` cannot fire inside `Merge` -/
theorem merge_tuple_nonempty (te : TraitEnv) (as bs cs : List Ty)
    (hne : Ty.beqList as bs = false) (h : mergeList te as bs = some cs) : cs ≠ [] := by
  intro e; subst e
  cases as with
  | nil => cases bs with
    | nil => simp [Ty.beqList] at hne
    | cons b bs => simp [mergeList] at h
  | cons a as => cases bs with
    | nil => simp [mergeList] at h
    | cons b bs =>
      simp only [mergeList] at h
      cases h1 : merge te a b with
      | none => simp [h1] at h
      | some c => cases h2 : mergeList te as bs with
        | none => simp [h1, h2] at h
        | some cs => simp [h1, h2] at h

/-- integers convert to a constant set: `Merge(Z, C) = C` when `C` converts from int -/
theorem merge_int_const (te : TraitEnv) (c : String) (hc : c ≠ Ty.intName) (hany : c ≠ Ty.anyName)
    (hconv : convertsFromInt te (.base c) = true) : merge te Ty.Z (.base c) = some (.base c) := by
  have h1 : ¬ Ty.intName = c := fun e => hc e.symm
  have h2 : ¬ Ty.intName = Ty.anyName := by decide
  simp only [merge, Ty.Z, beq_iff_eq, h1, h2, hany, if_false]
  unfold commonType
  have : ((Ty.base Ty.intName) == Ty.Z) = true := by decide
  simp [this, hconv]

example : merge [("C1", Traits.integral)] Ty.Z (.base "C1") = some (.base "C1") := by decide
example : merge [] (.coll (.tuple [Ty.R0, .base "X1"])) (.coll (.tuple [.base "X2", Ty.R0]))
    = some (.coll (.tuple [.base "X2", .base "X1"])) := by decide
example : compat [] (.base "X1") (.base "X2") = false := by decide


/-! ## rejected expressions carry a critical error inside the expression -/

def InRange (e : Ast) (err : Err) : Prop := e.lo ≤ err.2 ∧ err.2 ≤ e.hi

private theorem run_facts (Γ : Ctx) (n : Nat) (e : Ast) (hw : WfRange e) :
    (∀ err, err ∈ (checkWithFuel Γ n e).errs → InRange e err) ∧
    ((checkWithFuel Γ n e).out = .fail → (checkWithFuel Γ n e).silent = true ∨
      ∃ err, err ∈ (checkWithFuel Γ n e).errs ∧ isCritical err.1 = true) := by
  obtain ⟨new, e1, e2, e3⟩ := (good_visit Γ n none e hw).run {}
  unfold checkWithFuel
  generalize visit Γ n none e {} = r at e1 e2 e3
  obtain ⟨r, s⟩ := r
  have hs : s.errs = new := by simpa using e1
  cases r with
  | ok u => exact ⟨fun err h => e2 err (by simpa [hs] using h), by simp⟩
  | stuck x => exact ⟨fun err h => e2 err (by simpa [hs] using h), by simp⟩
  | fail =>
    refine ⟨fun err h => e2 err (by simpa [hs] using h), fun _ => ?_⟩
    rcases e3 trivial with h | ⟨err, h1, h2⟩
    · exact Or.inl h
    · exact Or.inr ⟨err, by simpa [hs] using h1, h2⟩

/-- every logged error and warning of the checker is positioned inside the expression
(any tree with well-formed ranges, no grammar hypothesis) -/
theorem errors_in_range (Γ : Ctx) (e : Ast) (hw : WfRange e) :
    ∀ err, err ∈ (check Γ e).errs → InRange e err :=
  (run_facts Γ _ e hw).1

/-- on ANY tree with well-formed ranges: a rejection that did not pass one of the three
`return false`-without-error branches that remain in the code (`ChildTypeDebool` /
`CheckFuncArguments` on a LOGIC-typed child, `GetLocalTypification` in argument mode — ghost flag
`silent`) carries a critical error inside the expression -/
theorem reject_has_critical_in_range_anytree (Γ : Ctx) (e : Ast) (hw : WfRange e)
    (hfail : (check Γ e).out = .fail) (hns : (check Γ e).silent = false) :
    ∃ err, err ∈ (check Γ e).errs ∧ isCritical err.1 = true ∧ InRange e err := by
  rcases (run_facts Γ _ e hw).2 hfail with h | ⟨err, h1, h2⟩
  · unfold check at hns; rw [h] at hns; cases hns
  · exact ⟨err, h1, h2, errors_in_range Γ e hw err h1⟩

/-- on every tree the parser can build, those branches are never taken -/
theorem check_never_silent (Γ : Ctx) (xs : List String) (e : Ast) (hg : WfTop Γ xs e) :
    (check Γ e).silent = false :=
  (check_facts Γ hg _ (Nat.le_succ _)).2.1

/-- **the property's last clause, in full**: an input of the shape the parser builds (`WfTop`:
arities, token payloads, set / logic / declaration positions, non-empty index lists; a call in
a set position names a function whose declared type is not LOGIC) that is rejected carries at
least one critical error positioned inside the expression -/
theorem reject_has_critical_in_range (Γ : Ctx) (xs : List String) (e : Ast) (hw : WfRange e)
    (hg : WfTop Γ xs e) (hfail : (check Γ e).out = .fail) :
    ∃ err, err ∈ (check Γ e).errs ∧ isCritical err.1 = true ∧ InRange e err :=
  reject_has_critical_in_range_anytree Γ e hw hfail (check_never_silent Γ xs e hg)

/-! ## totality -/

/-- **totality**: on every input of the shape the parser builds the check never reaches one of
the faulting sites of the C++ (`std::get` on the wrong alternative, `Typification::Tuple({})`,
`Token::ToString` on an empty index list, child access out of range, `.at()` out of range);
fuel `depth + 1` suffices -/
theorem check_total (Γ : Ctx) (xs : List String) (e : Ast) (hg : WfTop Γ xs e) :
    ∀ site, (check Γ e).out ≠ .stuck site :=
  (check_facts Γ hg _ (Nat.le_succ _)).1

/-- more fuel changes nothing about it -/
theorem check_total_fuel (Γ : Ctx) (xs : List String) (e : Ast) (hg : WfTop Γ xs e) (n : Nat)
    (hn : Ast.depth e ≤ n) : ∀ site, (checkWithFuel Γ n e).out ≠ .stuck site :=
  (check_facts Γ hg n hn).1

/-! ## declared arguments -/

/-- **args_reported**: for an accepted function definition `[x1∈D1, …, xn∈Dn] body` (also under
`F:==`) the reported arguments are `x1 … xn` in order; for every other accepted input the list
is empty. (The reported *types* are the element types of the domains as computed by the checker;
their agreement with the reference is part of the correspondence run.) -/
theorem args_reported (Γ : Ctx) (xs : List String) (e : Ast) (hg : WfTop Γ xs e) (τ : ExprTy)
    (hok : (check Γ e).out = .ok τ) : (check Γ e).args.map Prod.fst = xs :=
  (check_facts Γ hg _ (Nat.le_succ _)).2.2 τ hok

/-! ### non-vacuity and necessity of the hypotheses (closed terms) -/

private def gX1 : ExprTy := .ty (.coll (.base "X1"))
/-- X1 a base set, C1 a constant set, S1 : ℬ(X1×X1), S4 : C1, A1 an axiom -/
def ctxK : Ctx :=
  { types := [("X1", gX1), ("C1", .ty (.coll (.base "C1"))), ("A1", .logic),
              ("S1", .ty (.coll (.tuple [.base "X1", .base "X1"]))), ("S4", .ty (.base "C1"))],
    traits := [("X1", Traits.nominal), ("C1", Traits.integral)] }

private def glob (n : String) (lo hi : Int) : Ast := .node .ID_GLOBAL (.text n) lo hi []
private def loc (n : String) (lo hi : Int) : Ast := .node .ID_LOCAL (.text n) lo hi []

private theorem wf_leaf (t : Tok) (d : TokData) (lo hi : Int) (h : lo < hi) : WfRange (.node t d lo hi []) :=
  .node h (fun _ hk => by simp at hk) (fun _ hk => by simp at hk)

/-- `A1∪X1` (A1 an axiom) -/
def exUnionLogic : Ast := .node .UNION .none 0 5 [glob "A1" 0 2, glob "X1" 3 5]

private theorem wf_exUnionLogic : WfRange exUnionLogic := by
  refine .node (by decide) ?_ ?_
  · intro k hk; simp [glob] at hk; rcases hk with h | h <;> subst h <;> exact wf_leaf _ _ _ _ (by decide)
  · intro k hk; simp [glob] at hk; rcases hk with h | h <;> subst h <;> decide

example : WfTop ctxK [] exUnionLogic :=
  .ofDef (.expr (Or.inl (.sSetbin (Or.inl rfl) (.sGlobal (Or.inl rfl)) (.sGlobal (Or.inl rfl)))))

/-- the repaired code on the old K2 input `A1∪X1`: rejected with `invalidTypeOperation` at `A1` -/
example : (check ctxK exUnionLogic).out = .fail ∧ (check ctxK exUnionLogic).errs = [(0x8807, 0)] := by
  decide +kernel

/-- the old K1/K3/K4/K5/K7 inputs on the repaired code -/
example : (check ctxK (.node .PLUS .none 0 4 [glob "A1" 0 2, .node .LIT_INTEGER (.int 1) 3 4 []])).errs = [(0x8807, 0)] := by
  decide +kernel
example : (check ctxK (.node .LIT_EMPTYSET .none 0 1 [])).out = .ok (.ty Ty.emptySet) := by decide +kernel
example : (check ctxK (.node .SMALLPR (.tuple [0]) 0 7 [glob "S1" 4 6])).errs = [(0x8811, 4)] := by decide +kernel
example : (check ctxK (.node .PUNC_STRUCT .none 0 7 [glob "S7" 0 2, glob "S4" 5 7])).errs = [(0x881C, 2)] := by
  decide +kernel
example : (check ctxK (.node .FILTER (.tuple [1]) 0 10 [loc "zz" 4 6, .node .LIT_EMPTYSET .none 8 9 []])).errs
    = [(0x8801, 4)] := by decide +kernel
/-- `[a∈X1] A1` stays accepted as LOGIC -/
example : (check ctxK (.node .NT_FUNC_DEFINITION .none 0 9 [.node .NT_ARGUMENTS .none 1 5
    [.node .NT_ARG_DECL .none 1 5 [loc "a" 1 2, glob "X1" 3 5]], glob "A1" 7 9])).out = .ok .logic := by decide +kernel

/-- `[a∈D{x∈X1 | x=x}, x∈X1] a=x` (the K6 input) -/
def exArgs : Ast :=
  .node .NT_FUNC_DEFINITION .none 0 27 [
    .node .NT_ARGUMENTS .none 1 22 [
      .node .NT_ARG_DECL .none 1 16 [loc "a" 1 2,
        .node .NT_DECLARATIVE_EXPR .none 3 16 [loc "x" 5 6, glob "X1" 7 9,
          .node .EQUAL .none 12 15 [loc "x" 12 13, loc "x" 14 15]]],
      .node .NT_ARG_DECL .none 18 22 [loc "x" 18 19, glob "X1" 20 22]],
    .node .EQUAL .none 24 27 [loc "a" 24 25, loc "x" 26 27]]

/-- non-vacuity of `args_reported` on the K6 input: both names, in order, with their types -/
example : (check ctxK exArgs).out = .ok .logic ∧
    (check ctxK exArgs).args = [("a", .base "X1"), ("x", .base "X1")] := by decide +kernel

example : WfTop ctxK ["a", "x"] exArgs :=
  .ofDef (.funcdef
    (.cons (.mk (.sDeclarative .dLocal (.sGlobal (Or.inl rfl)) (.lPred (Or.inl rfl) .sLocal .sLocal)))
      (.cons (.mk (.sGlobal (Or.inl rfl))) .nil))
    (Or.inr (.lPred (Or.inl rfl) .sLocal .sLocal)))

/-- the unrestricted statements (no grammar hypothesis) -/
def reject_has_critical_in_range_anytree_statement : Prop :=
  ∀ (Γ : Ctx) (e : Ast), WfRange e → (check Γ e).out = .fail →
    ∃ err, err ∈ (check Γ e).errs ∧ isCritical err.1 = true ∧ InRange e err
def check_total_anytree_statement : Prop :=
  ∀ (Γ : Ctx) (e : Ast) (site : String), (check Γ e).out ≠ .stuck site

/-- `(1=1) ∪ X1` as a TREE (the parser cannot build it: a logic node in a set position):
`ChildTypeDebool` still returns `nullopt` silently on a LOGIC child -/
def exLogicChild : Ast :=
  .node .UNION .none 0 7 [.node .EQUAL .none 0 3 [.node .LIT_INTEGER (.int 1) 0 1 [], .node .LIT_INTEGER (.int 1) 2 3 []],
    glob "X1" 5 7]

/-- the grammar hypothesis of `reject_has_critical_in_range` is needed -/
theorem reject_needs_grammar_counterexample :
    (check ctxK exLogicChild).out = .fail ∧ (check ctxK exLogicChild).errs = [] := by decide +kernel

/-- the non-empty index list in `Wf` is needed (the parser cannot build an empty one any more):
`pr<>(debool(S1))` still reaches `Typification::Tuple({})` -/
theorem check_total_needs_index_counterexample :
    (check ctxK (.node .SMALLPR (.tuple []) 0 15 [.node .DEBOOL .none 4 14 [glob "S1" 11 13]])).out
      = .stuck "Tuple({}):ViProjectTuple" := by decide +kernel

/-- the side condition of `Wf.sCall` is needed: with a context that gives a term-function the
type LOGIC (no `Schema` does), `F1[X1]+1` still throws `bad_variant_access` -/
theorem check_total_needs_functype_counterexample :
    (check { ctxK with types := ("F1", .logic) :: ctxK.types, funcs := [("F1", [("a", .coll (.base "X1"))])] }
      (.node .PLUS .none 0 8 [.node .NT_FUNC_CALL .none 0 6 [.node .ID_FUNCTION (.text "F1") 0 2 [], glob "X1" 3 5],
        .node .LIT_INTEGER (.int 1) 7 8 []])).out = .stuck "bad_variant_access:ViArithmetic" := by decide +kernel

theorem check_total_anytree_statement_false : ¬ check_total_anytree_statement := fun h =>
  h _ _ _ check_total_needs_index_counterexample

/-! ## the pinned baseline (before the repairs): the defects as closed counterexamples -/

/-- K2 (pinned): `A1∪X1` was rejected with an EMPTY error list -/
theorem pinned_reject_counterexample_union :
    (checkPinned ctxK exUnionLogic).out = .fail ∧ (checkPinned ctxK exUnionLogic).errs = [] := by decide +kernel
/-- K2 (pinned): `card(A1)` -/
theorem pinned_reject_counterexample_card :
    (checkPinned ctxK (.node .CARD .none 0 8 [glob "A1" 5 7])).out = .fail ∧
    (checkPinned ctxK (.node .CARD .none 0 8 [glob "A1" 5 7])).errs = [] := by decide +kernel
/-- K5 (pinned): `S7::=S4` with `S4 : C1` -/
theorem pinned_reject_counterexample_struct :
    (checkPinned ctxK (.node .PUNC_STRUCT .none 0 7 [glob "S7" 0 2, glob "S4" 5 7])).out = .fail ∧
    (checkPinned ctxK (.node .PUNC_STRUCT .none 0 7 [glob "S7" 0 2, glob "S4" 5 7])).errs = [] := by decide +kernel
/-- K1 (pinned): `A1+1` — escaped `bad_variant_access` -/
theorem pinned_total_counterexample_arith :
    (checkPinned ctxK (.node .PLUS .none 0 4 [glob "A1" 0 2, .node .LIT_INTEGER (.int 1) 3 4 []])).out
      = .stuck "bad_variant_access:ViArithmetic" := by decide +kernel
/-- K1 (pinned): `A1=A1` -/
theorem pinned_total_counterexample_equals :
    (checkPinned ctxK (.node .EQUAL .none 0 5 [glob "A1" 0 2, glob "A1" 3 5])).out
      = .stuck "bad_variant_access:ViEquals" := by decide +kernel
/-- K1 (pinned): `S7::=A1` -/
theorem pinned_total_counterexample_struct :
    (checkPinned ctxK (.node .PUNC_STRUCT .none 0 7 [glob "S7" 0 2, glob "A1" 5 7])).out
      = .stuck "bad_variant_access:ViGlobalDeclaration" := by decide +kernel
/-- K3 (pinned): a lone `∅` -/
theorem pinned_total_counterexample_emptyset :
    (checkPinned ctxK (.node .LIT_EMPTYSET .none 0 1 [])).out = .stuck "null-parent:ViEmptySet" := by decide +kernel
/-- K4 (pinned lexer gave an empty index list for `pr0`): the error path of `pr<>(S1)` builds
`iter->ToString()` from `*begin(indicies)` -/
theorem pinned_total_counterexample_index_msg :
    (checkPinned ctxK (.node .SMALLPR (.tuple []) 0 7 [glob "S1" 4 6])).out
      = .stuck "Token::ToString:empty-index" := by decide +kernel
/-- K7 (pinned): `Fi1[zz](∅)` was accepted although `zz` is not declared -/
theorem pinned_filter_any_counterexample :
    (checkPinned ctxK (.node .FILTER (.tuple [1]) 0 10 [loc "zz" 4 6, .node .LIT_EMPTYSET .none 8 9 []])).out
      = .ok (.ty Ty.emptySet) := by decide +kernel

/-! ## the checker against the declarative typing relation -/

/-- full statement: an accepted input has the reported type (and declared arguments) in the
declarative system of `Spec/Typing.lean` -/
def check_sound_statement : Prop :=
  ∀ (Γ : Ctx) (xs : List String) (e : Ast) (τ : ExprTy), WfTop Γ xs e → (check Γ e).out = .ok τ →
    HasTopType Γ e τ (check Γ e).args

/-- full statement: a typable input is accepted with that type (equality for the principal
type computed by the algorithm; types are unique up to the any-type refinement of `merge`) -/
def check_complete_statement : Prop :=
  ∀ (Γ : Ctx) (xs : List String) (e : Ast) (τ : ExprTy) (args : List (String × Ty)), WfTop Γ xs e →
    HasTopType Γ e τ args → (check Γ e).out = .ok τ ∧ (check Γ e).args = args

/-- PARTIAL: soundness for the binder-free core fragment `Core` (globals, literals, arithmetic,
card, comparisons, =/≠, ∈/∉, ⊂/⊆/⊄, ¬ & ∨ ⇒ ⇔, ℬ, debool, ∪ ∩ \ ∆, red, pr, Pr) in any environment.
Excluded: bound variables and all binders (∀ ∃ D{} R{} I{} and function definitions), radicals,
function calls, ×, tuples, enumerations / bool, Fi, global declarations — for these the
agreement of `check` with the reference inference is established by the correspondence run. -/
theorem check_sound_partial (Γ : Ctx) (Δ : Env) (e : Ast) (τ : ExprTy) (hc : Core e)
    (h : (check Γ e).out = .ok τ) : HasType Γ Δ e τ := by
  unfold check checkWithFuel at h
  generalize hv : visit Γ (Ast.depth e + 1) none e {} = r at h
  obtain ⟨r, s⟩ := r
  cases r with
  | ok u =>
    simp at h; subst h
    exact (core_sound Γ Δ _ e hc none {} s hv).1
  | fail => simp at h
  | stuck x => simp at h

/-- for any fuel -/
theorem check_sound_partial_fuel (Γ : Ctx) (Δ : Env) (n : Nat) (e : Ast) (τ : ExprTy) (hc : Core e)
    (h : (checkWithFuel Γ n e).out = .ok τ) : HasType Γ Δ e τ := by
  unfold checkWithFuel at h
  generalize hv : visit Γ n none e {} = r at h
  obtain ⟨r, s⟩ := r
  cases r with
  | ok u =>
    simp at h; subst h
    exact (core_sound Γ Δ _ e hc none {} s hv).1
  | fail => simp at h
  | stuck x => simp at h

/-- non-vacuity: `card(X1∪X1) = 1` is in the fragment and is accepted -/
example : Core (.node .EQUAL .none 0 14 [.node .CARD .none 0 12 [.node .UNION .none 5 10 [glob "X1" 5 7, glob "X1" 8 10]],
    .node .LIT_INTEGER (.int 1) 13 14 []]) :=
  .equal (Or.inl rfl) (.card (.setbin (Or.inl rfl) (.global (Or.inl rfl)) (.global (Or.inl rfl)))) .int
example : (check ctxK (.node .EQUAL .none 0 14 [.node .CARD .none 0 12 [.node .UNION .none 5 10 [glob "X1" 5 7, glob "X1" 8 10]],
    .node .LIT_INTEGER (.int 1) 13 14 []])).out = .ok .logic := by decide +kernel

/-! ### soundness beyond the binder-free core: bound variables, binders, whole inputs -/

/-- for any fuel -/
theorem check_sound_partial1_fuel (Γ : Ctx) (n : Nat) (e : Ast) (τ : ExprTy) (hc : Core1Top Γ e)
    (h : (checkWithFuel Γ n e).out = .ok τ) : HasTopType Γ e τ (checkWithFuel Γ n e).args := by
  unfold checkWithFuel at h ⊢
  generalize hv : visit Γ n none e {} = r at h ⊢
  obtain ⟨r, s⟩ := r
  cases r with
  | ok u =>
    simp at h; subst h
    exact core1_top_ok Γ hc n none s hv
  | fail => simp at h
  | stuck x => simp at h

/-- SOUNDNESS of the checker model for every construct of the grammar (`check_sound_statement` with
its missing side conditions made explicit; fragment `Core1Top` of Lemmas/CheckerSound1 +
CheckerSoundTop): whole inputs — an expression, a function definition `[x1∈D1, …] body` (with the
reported argument list: names AND types), `X1:==`, `D1:==e`, `F1:==[…] e`, `S1::=dom` — whose
expressions are built from: the binder-free core of `check_sound_partial`, bound variables,
radicals, ×, tuples, enumerations / bool, the quantifiers ∀ ∃ with a variable, a (nested) tuple
pattern or an enumerated declaration, D{p∈S | P}, I{e | p:∈S; p:=e; cond}, R{p:=e | step},
R{p:=e | cond | step} (the variable is typed by the join of the initial value and the step: join chain
`StepReach` from `type(step) ⊔ type(e)` to a type the step stays within; condition typed with it), Fi, and calls of term-functions / predicates with template instantiation
(`CompareTemplated` over mangled radicals = `matchArg` + `solve` + `instantiate`, Lemmas/Templates),
nested arbitrarily. Scopes (`StartScope` / `EndScope` / `ClearLocalVariables`, re-declaration after the
end of a scope, shadowing = error) are related to the lexical environment of the typing relation.
Side conditions carried by the fragment (beyond the shape `Wf` of the parser's trees):
* a call: the context is `CtxOk` (declared types mention no mangled template parameter `Rn‹F›`; every
  template parameter of a function's result type occurs in a declared argument type) — decidable
  sufficient condition `ctxOkB`;
* a call in a logic position names a LOGIC-typed global, a call in a set position one that is not
  (without it: `check_sound_needs_predtype_counterexample`);
* a radical token is not itself a mangled name when the context is `CtxOk`.
Not covered: nothing of the grammar; what is NOT proved is the converse (`check_complete_statement`). -/
theorem check_sound_partial1 (Γ : Ctx) (e : Ast) (τ : ExprTy) (hc : Core1Top Γ e)
    (h : (check Γ e).out = .ok τ) : HasTopType Γ e τ (check Γ e).args :=
  check_sound_partial1_fuel Γ _ e τ hc h

/-- for expressions of the fragment (set or logic position): typed in the empty environment,
no argument list -/
theorem check_sound_partial1_expr (Γ : Ctx) (e : Ast) (τ : ExprTy) (hc : Core1 Γ .S e ∨ Core1 Γ .L e)
    (h : (check Γ e).out = .ok τ) : HasType Γ {} e τ ∧ (check Γ e).args = [] := by
  unfold check checkWithFuel at h ⊢
  generalize hv : visit Γ (Ast.depth e + 1) none e {} = r at h ⊢
  obtain ⟨r, s⟩ := r
  cases r with
  | ok u =>
    simp at h; subst h
    rcases hc with hc | hc
    · obtain ⟨a, b, _⟩ := (core1_sound Γ _).1 e hc none {} s {} hv goodSt_init rel_init
      exact ⟨a, b.2.args⟩
    · obtain ⟨a, b, _⟩ := (core1_sound Γ _).2.1 e hc none {} s {} hv goodSt_init rel_init
      exact ⟨a, b.2.args⟩
  | fail => simp at h
  | stuck x => simp at h

/-- `∀(a,b)∈S1 ∃x,y∈X1 (x=a & y∈D{z∈X1 | z=b})` -/
def exBinders : Ast :=
  .node .FORALL .none 0 40 [
    .node .NT_TUPLE_DECL .none 1 6 [loc "a" 2 3, loc "b" 4 5], glob "S1" 7 9,
    .node .EXISTS .none 10 40 [
      .node .NT_ENUM_DECL .none 11 14 [loc "x" 11 12, loc "y" 13 14], glob "X1" 15 17,
      .node .AND .none 19 39 [
        .node .EQUAL .none 19 22 [loc "x" 19 20, loc "a" 21 22],
        .node .IN .none 25 39 [loc "y" 25 26,
          .node .NT_DECLARATIVE_EXPR .none 27 39 [loc "z" 29 30, glob "X1" 31 33,
            .node .EQUAL .none 36 39 [loc "z" 36 37, loc "b" 38 39]]]]]]

/-- non-vacuity of `check_sound_partial1`: the input is in the fragment and is accepted -/
example : Core1 ctxK .L exBinders :=
  .lQuant (Or.inl rfl)
    (.deOfD (.dTuple (fun k hk => by
      simp only [List.mem_cons, List.not_mem_nil, or_false] at hk
      rcases hk with rfl | rfl <;> exact .dLocal)))
    (.sGlobal (Or.inl rfl))
    (.lQuant (Or.inr rfl)
      (.deEnum (fun k hk => by
        simp only [List.mem_cons, List.not_mem_nil, or_false] at hk
        rcases hk with rfl | rfl <;> exact .dLocal))
      (.sGlobal (Or.inl rfl))
      (.lBin (Or.inl rfl) (.lEqual (Or.inl rfl) .sLocal .sLocal)
        (.lElem (Or.inl rfl) .sLocal
          (.sDeclarative .dLocal (.sGlobal (Or.inl rfl)) (.lEqual (Or.inl rfl) .sLocal .sLocal)))))
example : (check ctxK exBinders).out = .ok .logic := by decide +kernel
/-- the scope rules are exercised: re-declaring a visible variable is rejected (`localShadowing`),
and a variable used after the end of its scope is rejected (`localOutOfScope`) -/
example : (check ctxK (.node .FORALL .none 0 20 [loc "a" 1 2, glob "X1" 3 5,
    .node .EXISTS .none 6 20 [loc "a" 7 8, glob "X1" 9 11, .node .EQUAL .none 12 15 [loc "a" 12 13, loc "a" 14 15]]])).errs
    = [(0x8802, 7)] := by decide +kernel
example : (check ctxK (.node .AND .none 0 30 [
    .node .FORALL .none 0 12 [loc "a" 1 2, glob "X1" 3 5, .node .EQUAL .none 6 9 [loc "a" 6 7, loc "a" 8 9]],
    .node .EQUAL .none 14 17 [loc "a" 14 15, loc "a" 16 17]])).errs = [(0x8815, 14)] := by decide +kernel

/-- `I{(a, b) | a:∈X1; b:=a; a=b}` -/
def exImperative : Ast :=
  .node .NT_IMPERATIVE_EXPR .none 0 30 [
    .node .NT_TUPLE .none 2 8 [loc "a" 3 4, loc "b" 6 7],
    .node .ITERATE .none 11 16 [loc "a" 11 12, glob "X1" 14 16],
    .node .ASSIGN .none 18 22 [loc "b" 18 19, loc "a" 21 22],
    .node .EQUAL .none 24 27 [loc "a" 24 25, loc "b" 26 27]]

example : Core1Top ctxK exImperative :=
  .ofDef (.expr (Or.inl (.sImperative
    (.sMany (Or.inr rfl) (fun k hk => by
      simp only [List.mem_cons, List.not_mem_nil, or_false] at hk
      rcases hk with rfl | rfl <;> exact .sLocal))
    (fun b hb => by
      simp only [List.mem_cons, List.not_mem_nil, or_false] at hb
      rcases hb with rfl | rfl | rfl
      · exact .iterate .dLocal (.sGlobal (Or.inl rfl))
      · exact .assign .dLocal .sLocal
      · exact .cond (.lEqual (Or.inl rfl) .sLocal .sLocal)))))
example : (check ctxK exImperative).out = .ok (.ty (.coll (.tuple [.base "X1", .base "X1"]))) := by decide +kernel

/-- the function definition `[a∈D{x∈X1 | x=x}, x∈X1] a=x` is in the fragment; the theorem gives its
argument list with the types -/
example : Core1Top ctxK exArgs :=
  .ofDef (.funcdef
    (fun k hk => by
      simp only [List.mem_cons, List.not_mem_nil, or_false] at hk
      rcases hk with rfl | rfl
      · exact .mk (.sDeclarative .dLocal (.sGlobal (Or.inl rfl)) (.lEqual (Or.inl rfl) .sLocal .sLocal))
      · exact .mk (.sGlobal (Or.inl rfl)))
    (Or.inr (.lEqual (Or.inl rfl) .sLocal .sLocal)))
example : HasTopType ctxK exArgs .logic [("a", .base "X1"), ("x", .base "X1")] := by
  have h : (check ctxK exArgs).out = .ok .logic ∧
      (check ctxK exArgs).args = [("a", .base "X1"), ("x", .base "X1")] := by decide +kernel
  have := check_sound_partial1 ctxK exArgs .logic
    (.ofDef (.funcdef
      (fun k hk => by
        simp only [List.mem_cons, List.not_mem_nil, or_false] at hk
        rcases hk with rfl | rfl
        · exact .mk (.sDeclarative .dLocal (.sGlobal (Or.inl rfl)) (.lEqual (Or.inl rfl) .sLocal .sLocal))
        · exact .mk (.sGlobal (Or.inl rfl)))
      (Or.inr (.lEqual (Or.inl rfl) .sLocal .sLocal)))) h.1
  rw [h.2] at this; exact this

/-- `S7::=ℬ(X1×X1)` and `D7:==X1∪X1` are in the fragment -/
example : Core1Top ctxK (.node .PUNC_STRUCT .none 0 14 [glob "S7" 0 2,
    .node .BOOLEAN .none 5 14 [.node .DECART .none 7 12 [glob "X1" 7 9, glob "X1" 10 12]]]) :=
  .struct (.sUnary (Or.inr (Or.inl rfl)) (.sMany (Or.inl rfl) (fun k hk => by
    simp only [List.mem_cons, List.not_mem_nil, or_false] at hk
    rcases hk with rfl | rfl <;> exact .sGlobal (Or.inl rfl))))
example : (check ctxK (.node .PUNC_STRUCT .none 0 14 [glob "S7" 0 2,
    .node .BOOLEAN .none 5 14 [.node .DECART .none 7 12 [glob "X1" 7 9, glob "X1" 10 12]]])).out
    = .ok (.ty (.coll (.tuple [.base "X1", .base "X1"]))) := by decide +kernel

/-! ### recursion whose type deduction does not converge (defect K10, repaired) -/

/-- `R{x := ∅ | {x}}` -/
def exRecDiverge : Ast :=
  .node .NT_RECURSIVE_SHORT .none 0 14 [loc "x" 2 3, .node .LIT_EMPTYSET .none 7 8 [],
    .node .NT_ENUMERATION .none 11 14 [loc "x" 12 13]]

private theorem ty_ne_coll (t : Ty) : t ≠ .coll t := by
  intro h
  have := congrArg sizeOf h
  simp at this

private theorem merge_coll_self_ne (te : TraitEnv) : ∀ τ : Ty, merge te (.coll τ) τ ≠ some τ
  | .base b => by simp only [merge]; split <;> simp
  | .tuple _ => by simp [merge]
  | .coll c => by
    simp only [merge]
    cases h : merge te (.coll c) c with
    | none => simp
    | some x =>
      simp only [Option.some.injEq, Ty.coll.injEq, ne_eq]
      intro hx; subst hx
      exact merge_coll_self_ne te x h

private theorem no_fix (Γ : Ctx) (Δ : Env) (τ tτ : Ty) (lo hi l2 h2 : Int) (d : TokData)
    (h : HasType Γ (Δ.add "x" τ) (.node .NT_ENUMERATION d lo hi [loc "x" l2 h2]) (.ty tτ))
    (hm : merge Γ.traits tτ τ = some τ)
    (hx : Δ.has "x" = false) : False := by
  cases h with
  | global a _ _ => rcases a with h | h | h <;> cases h
  | enumeration _ hts hmm =>
    cases hts with
    | cons hk hrest =>
      cases hrest
      simp only [mergeAll, Option.some.injEq] at hmm
      subst hmm
      cases hk with
      | global a _ _ => rcases a with h | h | h <;> cases h
      | local_ hg =>
        rw [Env.get?_add _ _ _ hx] at hg
        simp at hg
        subst hg
        exact merge_coll_self_ne _ _ hm

/-- the declarative system gives `R{x := ∅ | {x}}` no type in any context: the rule needs a type τ of
the variable such that the step, typed with `x : τ`, stays within τ — and `{x} : ℬ(τ)` never does -/
theorem recursion_diverge_untypable (Γ : Ctx) (τ : ExprTy) (args : List (String × Ty)) :
    ¬ HasTopType Γ exRecDiverge τ args := by
  intro h
  cases h with
  | expr _ _ _ ht =>
    cases ht with
    | quant a _ _ _ _ => rcases a with h | h <;> cases h
    | enumeration a _ _ => rcases a with h | h <;> cases h
    | recShort _ _ _ _ _ _ hb hs hm =>
      cases hb with
      | var hx => exact no_fix _ _ _ _ _ _ _ _ _ hs hm hx

example : WfTop ctxK [] exRecDiverge :=
  .ofDef (.expr (Or.inl (.sRecShort .dLocal .sEmpty (.sEnum (fun k hk => by
    simp only [List.mem_cons, List.not_mem_nil, or_false] at hk; subst hk; exact .sLocal)))))

/-- K10 (pinned `ViRecursion`, Model/CheckerPinnedRec.lean): when the ≤ 5 rounds of type deduction
did not reach a fixed point the loop simply ended and the last deduced type was reported:
`R{x := ∅ | {x}}`, which has no type, was accepted with the typification ℬℬℬℬℬℬℬ(R0) -/
theorem pinned_recursion_diverge_counterexample :
    (checkPinnedRec ctxK exRecDiverge).out = .ok (.ty (.coll (.coll (.coll (.coll (.coll (.coll (.coll Ty.R0)))))))) ∧
    (checkPinnedRec ctxK exRecDiverge).errs = [] ∧
    ∀ τ args, ¬ HasTopType ctxK exRecDiverge τ args :=
  ⟨by decide +kernel, by decide +kernel, fun τ args => recursion_diverge_untypable ctxK τ args⟩

/-- the repaired code rejects it with `typesNotEqual` at the step expression -/
example : (check ctxK exRecDiverge).out = .fail ∧ (check ctxK exRecDiverge).errs = [(0x8803, 11)] := by
  decide +kernel

/-! ### recursion whose condition uses the variable at a type the initial value does not have
(defect K11, repaired in /repo 374179a) -/

/-- `R{a := X1 | ∀x∈a pr1(x)=x | ∅}` -/
def exRecCond : Ast :=
  .node .NT_RECURSIVE_FULL .none 0 28 [loc "a" 2 3, glob "X1" 5 7,
    .node .FORALL .none 10 24 [loc "x" 11 12, loc "a" 13 14,
      .node .EQUAL .none 15 24 [.node .SMALLPR (.tuple [1]) 15 22 [loc "x" 19 20], loc "x" 23 24]],
    .node .LIT_EMPTYSET .none 27 28 []]

private theorem emptyset_type {Γ : Ctx} {Δ : Env} {d : TokData} {lo hi : Int} {t : Ty}
    (h : HasType Γ Δ (.node .LIT_EMPTYSET d lo hi []) (.ty t)) : t = Ty.emptySet := by
  cases h with
  | global a _ _ => rcases a with h | h | h <;> cases h
  | emptyset => rfl

private theorem merge_empty_X1 (te : TraitEnv) :
    merge te Ty.emptySet (.coll (.base "X1")) = some (.coll (.base "X1")) := by
  simp [merge, Ty.emptySet, Ty.R0, Ty.anyName]

/-- with the step `∅` the chain of type deduction stays at ℬ(X1) (induction over the chain; the other
motives of the mutual recursor are trivial) -/
private theorem reach_emptyStep {Γ : Ctx} {d : TokData} {lo hi : Int} {Δ : Env} {p step : Ast} {σ τ : Ty}
    (h : StepReach Γ Δ p step σ τ) :
    step = .node .LIT_EMPTYSET d lo hi [] → σ = .coll (.base "X1") → τ = σ := by
  apply StepReach.rec (motive_1 := fun _ _ _ _ => True) (motive_2 := fun _ _ _ _ => True)
    (motive_3 := fun _ _ _ _ => True) (motive_4 := fun _ _ _ _ => True)
    (motive_5 := fun _ _ step σ τ _ =>
      step = .node .LIT_EMPTYSET d lo hi [] → σ = .coll (.base "X1") → τ = σ) (t := h)
  any_goals (intros; trivial)
  intro Δ Δσ p step σ σ' σ'' τ _ ht hm _ _ ih hs hσ
  subst hs
  have := emptyset_type ht; subst this; subst hσ
  rw [merge_empty_X1] at hm; cases hm
  exact ih rfl rfl

/-- the declarative system gives `R{a := X1 | ∀x∈a pr1(x)=x | ∅}` no type: the variable holds the
initial value `X1`, so its type is ℬ(X1) (the step `∅` stays within it), its elements are not tuples and
`pr1(x)` has no type -/
theorem recursion_condition_untypable (τ : ExprTy) (args : List (String × Ty)) :
    ¬ HasTopType ctxK exRecCond τ args := by
  intro h
  cases h with
  | expr _ _ _ ht =>
    cases ht with
    | enumeration a _ _ => rcases a with h | h <;> cases h
    | recFull iA b0 iC _ hm0 sr bτ _ _ ic =>
      cases iA with
      | global _ _ hl =>
        simp [ctxK, lookup, gX1] at hl; subst hl
        cases b0 with
        | var _ =>
          have := emptyset_type iC; subst this
          rw [merge_empty_X1] at hm0; cases hm0
          have := reach_emptyStep sr rfl rfl; subst this
          cases bτ with
          | var ha =>
            cases ic with
            | quant _ hdom hdb hbind hbody =>
              cases hdom with
              | global a _ _ => rcases a with h | h | h <;> cases h
              | local_ hg =>
                rw [Env.get?_add _ _ _ ha] at hg
                simp at hg; subst hg
                cases hdb
                cases hbind with
                | var hxn =>
                  cases hbody with
                  | order a _ _ _ _ _ => rcases a with h | h | h | h <;> cases h
                  | elem a _ _ _ _ => rcases a with h | h <;> cases h
                  | subset a _ _ _ _ => rcases a with h | h | h <;> cases h
                  | logbin a _ _ => rcases a with h | h | h | h <;> cases h
                  | equal _ h1 _ _ =>
                    cases h1 with
                    | enumeration a _ _ => rcases a with h | h <;> cases h
                    | smallpr _ hx _ _ =>
                      cases hx with
                      | global a _ _ => rcases a with h | h | h <;> cases h
                      | local_ hg =>
                        rw [Env.get?_add _ _ _ hxn] at hg
                        simp at hg
                    | smallprAny _ hx =>
                      cases hx with
                      | global a _ _ => rcases a with h | h | h <;> cases h
                      | local_ hg =>
                        rw [Env.get?_add _ _ _ hxn] at hg
                        simp [Ty.R0, Ty.anyName] at hg

example : WfTop ctxK [] exRecCond :=
  .ofDef (.expr (Or.inl (.sRecFull .dLocal (.sGlobal (Or.inl rfl))
    (.lQuant (Or.inl rfl) (.deOfD .dLocal) .sLocal
      (.lPred (Or.inl rfl) (.sProj (Or.inr rfl) (by simp) .sLocal) .sLocal)) .sEmpty)))

/-- K11 (pinned `ViRecursion`, Model/CheckerPinnedRec2.lean): the rounds of type deduction re-declared
the variable with the type of the STEP alone, so the condition was analysed with `a : ℬ(R0)` (the type of
the step `∅`) although `a` holds the initial value `X1`: `R{a := X1 | ∀x∈a pr1(x)=x | ∅}`, which has no
type, was accepted with the typification ℬ(X1) (and its evaluation applied `pr1` to an element of X1) -/
theorem pinned_recursion_condition_counterexample :
    (checkPinnedRec2 ctxK exRecCond).out = .ok (.ty (.coll (.base "X1"))) ∧
    (checkPinnedRec2 ctxK exRecCond).errs = [] ∧
    ∀ τ args, ¬ HasTopType ctxK exRecCond τ args :=
  ⟨by decide +kernel, by decide +kernel, fun τ args => recursion_condition_untypable τ args⟩

/-- the repaired code declares `a : ℬ(X1)` (join of the initial value and the step) and rejects the
condition with `invalidProjectionTuple` at the argument of `pr1` -/
example : (check ctxK exRecCond).out = .fail ∧ (check ctxK exRecCond).errs = [(0x8811, 19)] := by
  decide +kernel

/-! ### recursive terms and radicals in the fragment -/

/-- `R{a := X1 | 1=1 | a∪X1}` -/
def exRecFull : Ast :=
  .node .NT_RECURSIVE_FULL .none 0 20 [loc "a" 2 3, glob "X1" 5 7,
    .node .EQUAL .none 10 13 [.node .LIT_INTEGER (.int 1) 10 11 [], .node .LIT_INTEGER (.int 1) 12 13 []],
    .node .UNION .none 16 20 [loc "a" 16 17, glob "X1" 18 20]]
example : Core1Top ctxK exRecFull :=
  .ofDef (.expr (Or.inl (.sRecFull .dLocal (.sGlobal (Or.inl rfl)) (.lEqual (Or.inl rfl) .sInt .sInt)
    (.sSetbin (Or.inl rfl) .sLocal (.sGlobal (Or.inl rfl))))))
example : (check ctxK exRecFull).out = .ok (.ty (.coll (.base "X1"))) := by decide +kernel

/-- `R{a := ∅ | a∪X1}`: the type of the variable is deduced in two rounds, ℬ(R0) then ℬ(X1) -/
def exRecShort : Ast :=
  .node .NT_RECURSIVE_SHORT .none 0 14 [loc "a" 2 3, .node .LIT_EMPTYSET .none 5 6 [],
    .node .UNION .none 9 13 [loc "a" 9 10, glob "X1" 11 13]]
example : Core1Top ctxK exRecShort :=
  .ofDef (.expr (Or.inl (.sRecShort .dLocal .sEmpty (.sSetbin (Or.inl rfl) .sLocal (.sGlobal (Or.inl rfl))))))
example : (check ctxK exRecShort).out = .ok (.ty (.coll (.base "X1"))) := by decide +kernel

/-- `[a∈ℬ(R1)] card(a)`: a radical in an argument domain; `ctxK` has no functions, so no name is mangled -/
def exRadical : Ast :=
  .node .NT_FUNC_DEFINITION .none 0 20 [.node .NT_ARGUMENTS .none 1 9 [
    .node .NT_ARG_DECL .none 1 9 [loc "a" 1 2, .node .BOOLEAN .none 3 9 [.node .ID_RADICAL (.text "R1") 5 7 []]]],
    .node .CARD .none 11 18 [loc "a" 16 17]]
example : Core1Top ctxK exRadical :=
  .ofDef (.funcdef
    (fun k hk => by
      simp only [List.mem_cons, List.not_mem_nil, or_false] at hk; subst hk
      exact .mk (.sUnary (Or.inr (Or.inl rfl)) (.sRadical (fun _ f hf => by simp [ctxK, lookup] at hf))))
    (Or.inl (.sUnary (Or.inl rfl) .sLocal)))
example : (check ctxK exRadical).out = .ok (.ty Ty.Z) ∧ (check ctxK exRadical).args = [("a", .coll (.base "R1"))] := by
  decide +kernel

/-! ### calls with template instantiation, filters -/

/-- `ctxK` plus the templated term-function `F1 : [a∈ℬ(R1), b∈R1] → ℬ(R1)` and the predicate
`P1 : [a∈X1] → LOGIC` -/
def ctxF : Ctx :=
  { ctxK with
    types := ("F1", .ty (.coll (.base "R1"))) :: ("P1", .logic) :: ctxK.types,
    funcs := [("F1", [("a", .coll (.base "R1")), ("b", .base "R1")]), ("P1", [("a", .base "X1")])] }

/-- the hypothesis of the call rule is satisfiable: `ctxF` is well formed for template instantiation -/
theorem ctxF_ok : CtxOk ctxF := ctxOk_of_ctxOkB (by decide +kernel)

/-- `∀x∈X1 (x∈F1[X1, x] & P1[x])` -/
def exCall : Ast :=
  .node .FORALL .none 0 30 [loc "x" 1 2, glob "X1" 3 5,
    .node .AND .none 7 29 [
      .node .IN .none 7 18 [loc "x" 7 8,
        .node .NT_FUNC_CALL .none 9 18 [.node .ID_FUNCTION (.text "F1") 9 11 [], glob "X1" 12 14, loc "x" 16 17]],
      .node .NT_FUNC_CALL .none 21 26 [.node .ID_PREDICATE (.text "P1") 21 23 [], loc "x" 24 25]]]

example : Core1Top ctxF exCall :=
  .ofDef (.expr (Or.inr (.lQuant (Or.inl rfl) (.deOfD .dLocal) (.sGlobal (Or.inl rfl))
    (.lBin (Or.inl rfl)
      (.lElem (Or.inl rfl) .sLocal (.sCall ctxF_ok (by decide) (fun k hk => by
        simp only [List.mem_cons, List.not_mem_nil, or_false] at hk
        rcases hk with rfl | rfl
        · exact .sGlobal (Or.inl rfl)
        · exact .sLocal)))
      (.lCall ctxF_ok (by decide) (fun k hk => by
        simp only [List.mem_cons, List.not_mem_nil, or_false] at hk; subst hk; exact .sLocal))))))
example : (check ctxF exCall).out = .ok .logic := by decide +kernel
/-- a template parameter that meets the any-type and a set: `F1[∅, ∅] : ℬℬ(R0)` -/
example : (check ctxF (.node .NT_FUNC_CALL .none 0 9 [.node .ID_FUNCTION (.text "F1") 0 2 [],
    .node .LIT_EMPTYSET .none 3 4 [], .node .LIT_EMPTYSET .none 6 7 []])).out
    = .ok (.ty (.coll (.coll Ty.R0))) := by decide +kernel

/-- `Fi1[X1](S1)` -/
example : Core1Top ctxK (.node .FILTER (.tuple [1]) 0 11 ([glob "X1" 4 6] ++ [glob "S1" 8 10])) :=
  .ofDef (.expr (Or.inl (.sFilter (by decide) (by simp)
    (fun k hk => by simp only [List.mem_cons, List.not_mem_nil, or_false] at hk; subst hk; exact .sGlobal (Or.inl rfl))
    (.sGlobal (Or.inl rfl)))))
example : (check ctxK (.node .FILTER (.tuple [1]) 0 11 [glob "X1" 4 6, glob "S1" 8 10])).out
    = .ok (.ty (.coll (.tuple [.base "X1", .base "X1"]))) := by decide +kernel

/-! ### the full statement needs a hypothesis on the context -/

/-- a context that gives the predicate name `P2` a set type (no `Schema` does) -/
def ctxP : Ctx :=
  { ctxK with types := ("P2", .ty (.coll (.base "X1"))) :: ctxK.types, funcs := [("P2", [("a", .coll (.base "X1"))])] }

/-- `¬P2[X1]` -/
def exPredSet : Ast :=
  .node .NOT .none 0 7 [.node .NT_FUNC_CALL .none 1 7 [.node .ID_PREDICATE (.text "P2") 1 3 [], glob "X1" 4 6]]

example : WfTop ctxP [] exPredSet :=
  .ofDef (.expr (Or.inr (.lNot (.lCall (fun k hk => by
    simp only [List.mem_cons, List.not_mem_nil, or_false] at hk; subst hk; exact .sGlobal (Or.inl rfl))))))

private theorem call_P2_not_logic (Δ : Env) (lo hi : Int) (as : List Ast) (lf hf : Int) (kf : List Ast)
    (τ : ExprTy) (h : HasType ctxP Δ (.node .NT_FUNC_CALL .none lo hi (.node .ID_PREDICATE (.text "P2") lf hf kf :: as)) τ) :
    τ ≠ .logic := by
  cases h with
  | call hfn hft _ _ _ _ _ =>
    simp only [Ast.data, TokData.text.injEq] at hfn
    subst hfn
    have : lookup ctxP.types "P2" = some (.ty (.coll (.base "X1"))) := by decide
    rw [this] at hft
    cases hft
    intro e; cases e
  | _ => simp_all

/-- the connectives do not look at the type of their operands (`VisitAllAndSetCurrent`): with a
context in which a name called like a predicate has a set type, `¬P2[X1]` is accepted as LOGIC
although it has no type. The full statement therefore needs the hypothesis that a call in a logic
position names a LOGIC-typed global (the side condition of `Core1.lCall`; true of every `Schema`) -/
theorem check_sound_needs_predtype_counterexample :
    (check ctxP exPredSet).out = .ok .logic ∧ ∀ τ args, ¬ HasTopType ctxP exPredSet τ args := by
  refine ⟨by decide +kernel, fun τ args h => ?_⟩
  cases h with
  | expr _ _ _ ht =>
    cases ht with
    | not hc => exact call_P2_not_logic _ _ _ _ _ _ _ _ hc rfl
    | enumeration a _ _ => rcases a with h | h <;> cases h

/-- hence `check_sound_statement`, which quantifies over all contexts, does not hold as stated;
`check_sound_partial1` is the statement with the needed side conditions made explicit -/
theorem check_sound_statement_false : ¬ check_sound_statement := by
  intro h
  have hw : WfTop ctxP [] exPredSet :=
    .ofDef (.expr (Or.inr (.lNot (.lCall (fun k hk => by
      simp only [List.mem_cons, List.not_mem_nil, or_false] at hk; subst hk; exact .sGlobal (Or.inl rfl))))))
  exact check_sound_needs_predtype_counterexample.2 _ _
    (h ctxP [] exPredSet _ hw check_sound_needs_predtype_counterexample.1)

/-! ## the value-class audit against its declarative specification (Spec/VClass.lean) -/

private theorem vEids_critical {eid : Nat} (h : eid ∈ vEids) : isCritical eid = true := by
  simp only [vEids, List.mem_cons, List.not_mem_nil, or_false] at h
  rcases h with rfl | rfl | rfl | rfl <;> decide

/-- **vclass_sound**: on an input of the parser's shape (`WfTop`, ranges nested `WfRange`), in a context
whose stored function definitions have the parser's shape too (`AstsWf`), for every fuel: when the
`ValueAuditor` model accepts with class `c`, the rules of `Spec/VClass.lean` derive `c` for the input —
and the audit has logged nothing -/
theorem vclass_sound (Γ : Ctx) (xs : List String) (e : Ast) (hΓ : AstsWf Γ) (hg : WfTop Γ xs e) (hw : WfRange e)
    (n : Nat) (c : VClass) (h : (vcheck Γ n e).out = some c) :
    HasVClassTop Γ e c ∧ (vcheck Γ n e).errs = [] := by
  have hrun := top_sound hΓ n hg hw {}
  unfold vcheck at h ⊢
  generalize vVisit Γ n true [] e {} = r at hrun h ⊢
  obtain ⟨r, s⟩ := r
  cases r with
  | ok u =>
    simp only [Option.some.injEq] at h
    subst h
    refine ⟨hrun.1, ?_⟩
    have : s.errs = [] := hrun.2
    simp [this]
  | fail => simp at h
  | stuck x => simp at h

/-- **vclass_complete**: when the rules derive class `c` for an input (any tree, any context — the
derivation carries everything that is needed), the model returns exactly `c`, is not stuck and logs
nothing, for every sufficiently large fuel (the bound is read off the derivation: its height, which
counts the nesting of audited function bodies) -/
theorem vclass_complete (Γ : Ctx) (e : Ast) (c : VClass) (h : HasVClassTop Γ e c) :
    ∃ N, ∀ n, N ≤ n → (vcheck Γ n e).out = some c ∧ (vcheck Γ n e).stuck = none ∧ (vcheck Γ n e).errs = [] := by
  obtain ⟨N, hN⟩ := conv_top h
  refine ⟨N, fun n hn => ?_⟩
  unfold vcheck
  rw [hN n hn true]
  exact ⟨rfl, rfl, rfl⟩

/-- **vclass_deterministic**: the rules give an input at most one class -/
theorem vclass_deterministic (Γ : Ctx) (e : Ast) (c c' : VClass) (h : HasVClassTop Γ e c)
    (h' : HasVClassTop Γ e c') : c = c' := by
  obtain ⟨N, hN⟩ := vclass_complete Γ e c h
  obtain ⟨N', hN'⟩ := vclass_complete Γ e c' h'
  have h1 := (hN (N + N') (by omega)).1
  have h2 := (hN' (N + N') (by omega)).1
  rw [h1] at h2
  exact Option.some.inj h2

/-- **vclass_reject_logs**: when the model rejects (returns `false`, not a faulting site) an input of
the parser's shape, it has logged exactly one error: one of `invalidPropertyUsage`, `globalNoValue`,
`globalMissingAST`, `globalFuncNoInterpretation`, critical, positioned inside the expression -/
theorem vclass_reject_logs (Γ : Ctx) (xs : List String) (e : Ast) (hΓ : AstsWf Γ) (hg : WfTop Γ xs e)
    (hw : WfRange e) (n : Nat) (h : (vcheck Γ n e).out = none) (hs : (vcheck Γ n e).stuck = none) :
    ∃ err, (vcheck Γ n e).errs = [err] ∧ err.1 ∈ vEids ∧ isCritical err.1 = true ∧ InRange e err := by
  have hrun := top_sound hΓ n hg hw {}
  unfold vcheck at h hs ⊢
  generalize vVisit Γ n true [] e {} = r at hrun h hs ⊢
  obtain ⟨r, s⟩ := r
  cases r with
  | ok u => simp at h
  | fail =>
    obtain ⟨err, e1, e2, e3, e4⟩ := hrun.1 rfl
    have : s.errs = [err] := e1
    exact ⟨err, by simp [this], e2, vEids_critical e2, e3, e4⟩
  | stuck x => simp at hs

/-- a rejected input of the parser's shape has no class in the rules either, whenever the fuel that was
used is large enough for the derivation in question (in particular: no derivation exists when the model
rejects for every fuel) -/
theorem vclass_reject_no_class (Γ : Ctx) (e : Ast) (h : ∀ N, ∃ n, N ≤ n ∧ (vcheck Γ n e).out = none) :
    ∀ c, ¬ HasVClassTop Γ e c := by
  intro c hc
  obtain ⟨N, hN⟩ := vclass_complete Γ e c hc
  obtain ⟨n, hn, hout⟩ := h N
  rw [(hN n hn).1] at hout
  cases hout

/-! ### non-vacuity: one value, one property, one rejected misuse, one call with a property argument -/

/-- `X1`, `S1` are values -/
def ctxV : Ctx :=
  { vclass := [("X1", .value), ("S1", .value)] }

theorem ctxV_asts : AstsWf ctxV := fun f tree fd body h => by simp [ctxV, lookup] at h

private theorem wfr2 (t : Tok) (d : TokData) (lo hi : Int) (a b : Ast) (h : lo < hi) (ha : WfRange a) (hb : WfRange b)
    (h1 : lo ≤ a.lo ∧ a.hi ≤ hi) (h2 : lo ≤ b.lo ∧ b.hi ≤ hi) : WfRange (.node t d lo hi [a, b]) := by
  refine .node h ?_ ?_
  · intro k hk; simp only [List.mem_cons, List.not_mem_nil, or_false] at hk
    rcases hk with rfl | rfl <;> assumption
  · intro k hk; simp only [List.mem_cons, List.not_mem_nil, or_false] at hk
    rcases hk with rfl | rfl <;> assumption

private theorem wfr1 (t : Tok) (d : TokData) (lo hi : Int) (a : Ast) (h : lo < hi) (ha : WfRange a)
    (h1 : lo ≤ a.lo ∧ a.hi ≤ hi) : WfRange (.node t d lo hi [a]) := by
  refine .node h ?_ ?_
  · intro k hk; simp only [List.mem_cons, List.not_mem_nil, or_false] at hk; subst hk; assumption
  · intro k hk; simp only [List.mem_cons, List.not_mem_nil, or_false] at hk; subst hk; assumption

/-- `X1∪S1`: a value -/
def exVValue : Ast := .node .UNION .none 0 5 [glob "X1" 0 2, glob "S1" 3 5]
/-- `ℬ(X1)`: a property -/
def exVProps : Ast := .node .BOOLEAN .none 0 6 [glob "X1" 3 5]
/-- `card(ℬ(X1))`: a property where a value is needed -/
def exVMisuse : Ast := .node .CARD .none 0 12 [.node .BOOLEAN .none 5 11 [glob "X1" 8 10]]

example : WfTop ctxV [] exVValue :=
  .ofDef (.expr (Or.inl (.sSetbin (Or.inl rfl) (.sGlobal (Or.inl rfl)) (.sGlobal (Or.inl rfl)))))
example : WfRange exVValue :=
  wfr2 _ _ _ _ _ _ (by decide) (wf_leaf _ _ _ _ (by decide)) (wf_leaf _ _ _ _ (by decide)) (by decide) (by decide)
example : (vcheck ctxV 3 exVValue).out = some .value := by decide +kernel
/-- the derivation, written out: both operands are values, so the union is -/
example : HasVClassTop ctxV exVValue .value :=
  .ofDef (.expr (.union (c1 := .value) (c2 := .value) (Or.inl rfl)
    (.global (Or.inl rfl) (by decide) (by decide)) (.global (Or.inl rfl) (by decide) (by decide))))

example : WfTop ctxV [] exVProps :=
  .ofDef (.expr (Or.inl (.sUnary (Or.inr (Or.inl rfl)) (.sGlobal (Or.inl rfl)))))
example : (vcheck ctxV 3 exVProps).out = some .props := by decide +kernel
example : HasVClassTop ctxV exVProps .props :=
  .ofDef (.expr (.boolean (c := .value) (.global (Or.inl rfl) (by decide) (by decide))))

example : WfTop ctxV [] exVMisuse :=
  .ofDef (.expr (Or.inl (.sUnary (Or.inl rfl) (.sUnary (Or.inr (Or.inl rfl)) (.sGlobal (Or.inl rfl))))))
example : WfRange exVMisuse :=
  wfr1 _ _ _ _ _ (by decide) (wfr1 _ _ _ _ _ (by decide) (wf_leaf _ _ _ _ (by decide)) (by decide)) (by decide)
/-- the misuse is rejected with `invalidPropertyUsage` at the position of `ℬ(X1)` -/
example : (vcheck ctxV 4 exVMisuse).out = none ∧ (vcheck ctxV 4 exVMisuse).stuck = none ∧
    (vcheck ctxV 4 exVMisuse).errs = [(EID.invalidPropertyUsage, 5)] := by decide +kernel
/-- and the rules give it no class: `card` needs a value, `ℬ(X1)` is a property -/
example : ∀ c, ¬ HasVClassTop ctxV exVMisuse c := by
  intro c h
  cases h with
  | ofDef h => cases h with
    | expr h => cases h with
      | const ht => rcases ht with h | h | h <;> cases h
      | collect ht => rcases ht with h | h <;> cases h
      | needValue _ ha => cases ha with
        | const ht => rcases ht with h | h | h <;> cases h
        | needValue ht => rcases ht with h | h | h | h | h | h <;> cases h
        | collect ht => rcases ht with h | h <;> cases h

/-- a call with a property argument audits the stored body: with `F1:==[a∈ℬ(R1)] a∪a` of class `value`,
`F1[X1]` is a value and `F1[ℬ(X1)]` a property (the parameter `a` stands for a property in `a∪a`) -/
def ctxVF : Ctx :=
  { vclass := [("X1", .value), ("F1", .value)],
    asts := [("F1", .node .PUNC_DEFINE .none 0 20 [.node .ID_FUNCTION (.text "F1") 0 2 [],
      .node .NT_FUNC_DEFINITION .none 5 20 [
        .node .NT_ARGUMENTS .none 6 13 [.node .NT_ARG_DECL .none 6 13 [loc "a" 6 7,
          .node .BOOLEAN .none 8 13 [.node .ID_RADICAL (.text "R1") 10 12 []]]],
        .node .UNION .none 16 19 [loc "a" 16 17, loc "a" 18 19]]])] }
example : (vcheck ctxVF 5 (.node .NT_FUNC_CALL .none 0 6 [.node .ID_FUNCTION (.text "F1") 0 2 [], glob "X1" 3 5])).out
    = some .value := by decide +kernel
example : (vcheck ctxVF 5 (.node .NT_FUNC_CALL .none 0 10 [.node .ID_FUNCTION (.text "F1") 0 2 [],
    .node .BOOLEAN .none 3 9 [glob "X1" 6 8]])).out = some .props := by decide +kernel

/-! ## completeness on a fragment: the checker decides the typing relation there -/

/-- COMPLETENESS of the checker model on the fragment `CFragTop` (Lemmas/CheckerCompleteTop: trees of the
grammar's shape built from everything except R{}, Fi and calls F[…]; whole inputs: expression,
function definition `[x1∈D1, …] body`, `X1:==`, `D1:==def`, `S1::=dom`): a whole input that has a type in
the declarative system is ACCEPTED, with EXACTLY that type and that argument list — including inputs
that mention `∅` / the any-type `R0` (on the fragment the relation is functional, see
`type_unique_partial1`). The hypothesis `hxs` says that the derivation names the declared arguments
as the input does (`ArgDecls.cons` of Spec/Typing.lean leaves the name free — spec looseness, see
`check_complete_needs_argnames_counterexample`); for inputs other than function definitions it reads
`args = []`, which every derivation satisfies. -/
theorem check_complete_partial1 (Γ : Ctx) (xs : List String) (e : Ast) (τ : ExprTy) (args : List (String × Ty))
    (hc : CFragTop Γ xs e) (hxs : args.map Prod.fst = xs) (h : HasTopType Γ e τ args) :
    (check Γ e).out = .ok τ ∧ (check Γ e).args = args :=
  cfrag_check_complete Γ hc τ args h hxs

/-- on the fragment the declarative relation is functional: type and argument list are unique -/
theorem type_unique_partial1 (Γ : Ctx) (xs : List String) (e : Ast) (τ τ' : ExprTy) (args args' : List (String × Ty))
    (hc : CFragTop Γ xs e) (hxs : args.map Prod.fst = xs) (hxs' : args'.map Prod.fst = xs)
    (h : HasTopType Γ e τ args) (h' : HasTopType Γ e τ' args') : τ = τ' ∧ args = args' := by
  obtain ⟨a1, a2⟩ := check_complete_partial1 Γ xs e τ args hc hxs h
  obtain ⟨b1, b2⟩ := check_complete_partial1 Γ xs e τ' args' hc hxs' h'
  rw [a1] at b1
  exact ⟨by cases b1; rfl, a2.symm.trans b2⟩

/-- the checker DECIDES typability on the fragment: it accepts exactly the inputs that have a type
(soundness `check_sound_partial1` + completeness `check_complete_partial1`), and the type it reports is
the type -/
theorem check_decides_partial1 (Γ : Ctx) (xs : List String) (e : Ast) (hw : WfTop Γ xs e) (hc : CFragTop Γ xs e) :
    ((∃ τ, (check Γ e).out = .ok τ) ↔ ∃ τ args, HasTopType Γ e τ args ∧ args.map Prod.fst = xs) ∧
    (∀ τ, (check Γ e).out = .ok τ ↔ ∃ args, HasTopType Γ e τ args ∧ args.map Prod.fst = xs) := by
  have key : ∀ τ, (check Γ e).out = .ok τ ↔ ∃ args, HasTopType Γ e τ args ∧ args.map Prod.fst = xs := by
    intro τ
    constructor
    · intro h
      exact ⟨_, check_sound_partial1 Γ e τ hc.core1 h, args_reported Γ xs e hw τ h⟩
    · rintro ⟨args, h, hxs⟩
      exact (check_complete_partial1 Γ xs e τ args hc hxs h).1
  refine ⟨⟨fun ⟨τ, h⟩ => ⟨τ, (key τ).mp h⟩, fun ⟨τ, args, h⟩ => ⟨τ, (key τ).mpr ⟨args, h⟩⟩⟩, key⟩

/-- non-vacuity: `∀(a,b)∈S1 ∃x,y∈X1 (x=a & y∈D{z∈X1 | z=b})` is in the fragment and has a type -/
example : CFragTop ctxK [] exBinders :=
  .ofDef (.expr (Or.inr (.lQuant (Or.inl rfl)
    (.deOfD (.dTuple (fun k hk => by
      simp only [List.mem_cons, List.not_mem_nil, or_false] at hk
      rcases hk with rfl | rfl <;> exact .dLocal)))
    (.sGlobal (Or.inl rfl))
    (.lQuant (Or.inr rfl)
      (.deEnum (fun k hk => by
        simp only [List.mem_cons, List.not_mem_nil, or_false] at hk
        rcases hk with rfl | rfl <;> exact .dLocal))
      (.sGlobal (Or.inl rfl))
      (.lBin (Or.inl rfl) (.lEqual (Or.inl rfl) .sLocal .sLocal)
        (.lElem (Or.inl rfl) .sLocal
          (.sDeclarative .dLocal (.sGlobal (Or.inl rfl)) (.lEqual (Or.inl rfl) .sLocal .sLocal))))))))

private theorem exImperative_frag : CFragTop ctxK [] exImperative :=
  .ofDef (.expr (Or.inl (.sImperative
    (.sMany (Or.inr rfl) (fun k hk => by
      simp only [List.mem_cons, List.not_mem_nil, or_false] at hk
      rcases hk with rfl | rfl <;> exact .sLocal))
    (fun b hb => by
      simp only [List.mem_cons, List.not_mem_nil, or_false] at hb
      rcases hb with rfl | rfl | rfl
      · exact .iterate .dLocal (.sGlobal (Or.inl rfl))
      · exact .assign .dLocal .sLocal
      · exact .cond (.lEqual (Or.inl rfl) .sLocal .sLocal)))))

/-- non-vacuity: `I{(a, b) | a:∈X1; b:=a; a=b}` is in the fragment and has the type ℬ(X1×X1) -/
example : CFragTop ctxK [] exImperative ∧
    HasTopType ctxK exImperative (.ty (.coll (.tuple [.base "X1", .base "X1"]))) [] := by
  refine ⟨exImperative_frag, ?_⟩
  have h := check_sound_partial1 ctxK exImperative _ exImperative_frag.core1
    (show (check ctxK exImperative).out = .ok (.ty (.coll (.tuple [.base "X1", .base "X1"]))) by decide +kernel)
  have ha : (check ctxK exImperative).args = [] := by decide +kernel
  rw [ha] at h; exact h

/-- an ill-typed input of the fragment: `X1 ∪ S1` (ℬ(X1) against ℬ(X1×X1)) has NO type — the checker's
rejection decides it -/
example : ¬ ∃ τ args, HasTopType ctxK (.node .UNION .none 0 5 [glob "X1" 0 2, glob "S1" 3 5]) τ args ∧
    args.map Prod.fst = [] := by
  rintro ⟨τ, args, h, hxs⟩
  have hc : CFragTop ctxK [] (.node .UNION .none 0 5 [glob "X1" 0 2, glob "S1" 3 5]) :=
    .ofDef (.expr (Or.inl (.sSetbin (Or.inl rfl) (.sGlobal (Or.inl rfl)) (.sGlobal (Or.inl rfl)))))
  have h1 := (check_complete_partial1 ctxK [] _ τ args hc hxs h).1
  have h2 : (check ctxK (.node .UNION .none 0 5 [glob "X1" 0 2, glob "S1" 3 5])).out = .fail := by decide +kernel
  rw [h2] at h1; cases h1


/-- non-vacuity for a function definition: `[a∈D{x∈X1 | x=x}, x∈X1] a=x` is in the fragment; it has the
type LOGIC with the arguments `a : X1, x : X1` (see the example after `check_sound_partial1`) -/
example : CFragTop ctxK ["a", "x"] exArgs :=
  .ofDef (.funcdef (by simp)
    (.cons (.sDeclarative .dLocal (.sGlobal (Or.inl rfl)) (.lEqual (Or.inl rfl) .sLocal .sLocal))
      (.cons (.sGlobal (Or.inl rfl)) .nil))
    (Or.inr (.lEqual (Or.inl rfl) .sLocal .sLocal)))

/-- `[a∈X1] b=b` -/
def exArgName : Ast :=
  .node .NT_FUNC_DEFINITION .none 0 11 [
    .node .NT_ARGUMENTS .none 1 5 [.node .NT_ARG_DECL .none 1 5 [loc "a" 1 2, glob "X1" 3 5]],
    .node .EQUAL .none 7 10 [loc "b" 7 8, loc "b" 9 10]]

/-- why `check_complete_partial1` asks the derivation to use the argument names of the input: the rule
`ArgDecls.cons` of Spec/Typing.lean does not tie the declared name to the text of the variable node, so
`[a∈X1] b=b` is typable (declare the argument under the name `b`), and the checker — rightly — rejects
it (`b` undeclared). A looseness of the SPECIFICATION, not a defect of the code. -/
theorem check_complete_needs_argnames_counterexample :
    HasTopType ctxK exArgName .logic [("b", .base "X1")] ∧ (check ctxK exArgName).out = .fail ∧
      (0x8801, 7) ∈ (check ctxK exArgName).errs := by
  refine ⟨?_, by decide +kernel, by decide +kernel⟩
  exact HasTopType.funcdef
    (ArgDecls.cons (x := "b") (HasType.global (Or.inl rfl) (by decide) (by decide)) (Debool.coll _) (by decide)
      ArgDecls.nil)
    (HasType.equal (t1 := .base "X1") (t2 := .base "X1") (Or.inl rfl)
      (HasType.local_ (t := .base "X1") (by decide)) (HasType.local_ (t := .base "X1") (by decide)) (by decide))

/-! ## completeness beyond the first fragment: filters and calls (with template instantiation) -/

/-- COMPLETENESS of the checker model on the fragment `CFrag2Top` (Lemmas/CheckerComplete3Top) = the fragment of
`check_complete_partial1` (`CFragTop.to2`) PLUS filters `Fi i,j [P1, …, Pk](A)` / `Fi i,j [P](A)` (all three
rules: one parameter per index, one parameter set of tuples, argument of the any-type / `∅`) and calls
`F[a1, …, an]` of term-functions and predicates, templated or not, nested arbitrarily: a whole input that has a
type in the declarative system is ACCEPTED with EXACTLY that type and argument list. For a templated call the
rule `HasType.call` asks that the reference constraint solver (`matchArg` per argument, `solve` = every radical
is the join of all its occurrences) finds the instantiation `σ`; the theorem says that the checker's
`CompareTemplated` over the mangled radicals then FINDS it too (Lemmas/TemplatesComplete `ct_complete`,
`args_complete`) and reports `σ(result)`, radicals that only met the any-type becoming `R0`. The rule fixes `σ`
(it is a function of the argument types), so the relation stays functional: `type_unique_partial2`.
Side conditions of a call: exactly those of `check_sound_partial1` (`Core1.sCall` / `lCall`): the context is
`CtxOk`; a call in a set position names a global whose declared type is not LOGIC, in a logic position one
whose type is LOGIC. R{p := e | step} and R{p := e | cond | step} are in the fragment under the explicit bound
hypothesis `RecBounded Γ p step` (Lemmas/CheckerCompleteRec): whenever the premises of the rule hold, the join
chain reaches its fixed point within `typeDeductionDepth` = 5 rounds of the checker (`StepReachN`); sufficient
condition `recBounded_of_const`. Without it completeness FAILS: `recursion_needs_bound_counterexample`.
`hxs`: as in `check_complete_partial1`. -/
theorem check_complete_partial2 (Γ : Ctx) (xs : List String) (e : Ast) (τ : ExprTy) (args : List (String × Ty))
    (hc : CFrag2Top Γ xs e) (hxs : args.map Prod.fst = xs) (h : HasTopType Γ e τ args) :
    (check Γ e).out = .ok τ ∧ (check Γ e).args = args :=
  cfrag2_check_complete Γ hc τ args h hxs

/-- on the fragment with filters and calls the declarative relation is functional -/
theorem type_unique_partial2 (Γ : Ctx) (xs : List String) (e : Ast) (τ τ' : ExprTy) (args args' : List (String × Ty))
    (hc : CFrag2Top Γ xs e) (hxs : args.map Prod.fst = xs) (hxs' : args'.map Prod.fst = xs)
    (h : HasTopType Γ e τ args) (h' : HasTopType Γ e τ' args') : τ = τ' ∧ args = args' := by
  obtain ⟨a1, a2⟩ := check_complete_partial2 Γ xs e τ args hc hxs h
  obtain ⟨b1, b2⟩ := check_complete_partial2 Γ xs e τ' args' hc hxs' h'
  rw [a1] at b1
  exact ⟨by cases b1; rfl, a2.symm.trans b2⟩

/-- the checker DECIDES typability on the fragment with filters and calls, and the type it reports is the
type (soundness `check_sound_partial1` + completeness `check_complete_partial2`) -/
theorem check_decides_partial2 (Γ : Ctx) (xs : List String) (e : Ast) (hw : WfTop Γ xs e) (hc : CFrag2Top Γ xs e) :
    ((∃ τ, (check Γ e).out = .ok τ) ↔ ∃ τ args, HasTopType Γ e τ args ∧ args.map Prod.fst = xs) ∧
    (∀ τ, (check Γ e).out = .ok τ ↔ ∃ args, HasTopType Γ e τ args ∧ args.map Prod.fst = xs) := by
  have key : ∀ τ, (check Γ e).out = .ok τ ↔ ∃ args, HasTopType Γ e τ args ∧ args.map Prod.fst = xs := by
    intro τ
    constructor
    · intro h
      exact ⟨_, check_sound_partial1 Γ e τ hc.core1 h, args_reported Γ xs e hw τ h⟩
    · rintro ⟨args, h, hxs⟩
      exact (check_complete_partial2 Γ xs e τ args hc hxs h).1
  refine ⟨⟨fun ⟨τ, h⟩ => ⟨τ, (key τ).mp h⟩, fun ⟨τ, args, h⟩ => ⟨τ, (key τ).mpr ⟨args, h⟩⟩⟩, key⟩

private theorem mem1 {α : Type} {P : α → Prop} {a : α} (h : P a) : ∀ k, k ∈ [a] → P k := by
  intro k hk; simp only [List.mem_cons, List.not_mem_nil, or_false] at hk; subst hk; exact h
private theorem mem2 {α : Type} {P : α → Prop} {a b : α} (ha : P a) (hb : P b) : ∀ k, k ∈ [a, b] → P k := by
  intro k hk; simp only [List.mem_cons, List.not_mem_nil, or_false] at hk
  rcases hk with rfl | rfl
  · exact ha
  · exact hb

/-- a typable input of the fragment, from the checker's verdict (soundness) -/
private theorem typable_of_check {Γ : Ctx} {xs : List String} {e : Ast} {τ : ExprTy} (hc : CFrag2Top Γ xs e)
    (h : (check Γ e).out = .ok τ) (ha : (check Γ e).args = []) : HasTopType Γ e τ [] := by
  have := check_sound_partial1 Γ e τ hc.core1 h
  rw [ha] at this; exact this

/-- `Fi1[X1](S1)` (one parameter per index) -/
private def exFilterEach : Ast := .node .FILTER (.tuple [1]) 0 11 ([glob "X1" 4 6] ++ [glob "S1" 8 10])
/-- `Fi1,2[S1](S1)` (one parameter for two indices: a set of pairs) -/
private def exFilterOne : Ast := .node .FILTER (.tuple [1, 2]) 0 13 ([glob "S1" 6 8] ++ [glob "S1" 10 12])
/-- `Fi1[X1](∅)` (the any-type corner) -/
private def exFilterAny : Ast := .node .FILTER (.tuple [1]) 0 10 ([glob "X1" 4 6] ++ [.node .LIT_EMPTYSET .none 8 9 []])

private theorem exFilterEach_frag : CFrag2Top ctxK [] exFilterEach :=
  .ofDef (.expr (Or.inl (.sFilter (by decide) (by simp) (mem1 (.sGlobal (Or.inl rfl))) (.sGlobal (Or.inl rfl)))))
private theorem exFilterOne_frag : CFrag2Top ctxK [] exFilterOne :=
  .ofDef (.expr (Or.inl (.sFilter (by decide) (by simp) (mem1 (.sGlobal (Or.inl rfl))) (.sGlobal (Or.inl rfl)))))
private theorem exFilterAny_frag : CFrag2Top ctxK [] exFilterAny :=
  .ofDef (.expr (Or.inl (.sFilter (by decide) (by simp) (mem1 (.sGlobal (Or.inl rfl))) .sEmpty)))

/-- non-vacuity (filters, all three rules): in the fragment and typable — `Fi1[X1](S1) : ℬ(X1×X1)`,
`Fi1,2[S1](S1) : ℬ(X1×X1)`, `Fi1[X1](∅) : ℬ(R0)` -/
example : CFrag2Top ctxK [] exFilterEach ∧ HasTopType ctxK exFilterEach (.ty (.coll (.tuple [.base "X1", .base "X1"]))) [] :=
  ⟨exFilterEach_frag, typable_of_check exFilterEach_frag (by decide +kernel) (by decide +kernel)⟩
example : CFrag2Top ctxK [] exFilterOne ∧ HasTopType ctxK exFilterOne (.ty (.coll (.tuple [.base "X1", .base "X1"]))) [] :=
  ⟨exFilterOne_frag, typable_of_check exFilterOne_frag (by decide +kernel) (by decide +kernel)⟩
example : CFrag2Top ctxK [] exFilterAny ∧ HasTopType ctxK exFilterAny (.ty Ty.emptySet) [] :=
  ⟨exFilterAny_frag, typable_of_check exFilterAny_frag (by decide +kernel) (by decide +kernel)⟩

/-- an ill-typed filter: `Fi1[S1](S1)` (the parameter ℬ(X1×X1) is not a set of first components) has NO type -/
example : ¬ ∃ τ args, HasTopType ctxK (.node .FILTER (.tuple [1]) 0 11 ([glob "S1" 4 6] ++ [glob "S1" 8 10])) τ args ∧
    args.map Prod.fst = [] := by
  rintro ⟨τ, args, h, hxs⟩
  have hc : CFrag2Top ctxK [] (.node .FILTER (.tuple [1]) 0 11 ([glob "S1" 4 6] ++ [glob "S1" 8 10])) :=
    .ofDef (.expr (Or.inl (.sFilter (by decide) (by simp) (mem1 (.sGlobal (Or.inl rfl))) (.sGlobal (Or.inl rfl)))))
  have h1 := (check_complete_partial2 ctxK [] _ τ args hc hxs h).1
  have h2 : (check ctxK (.node .FILTER (.tuple [1]) 0 11 ([glob "S1" 4 6] ++ [glob "S1" 8 10]))).out = .fail := by
    decide +kernel
  rw [h2] at h1; cases h1

/-- non-vacuity (calls): `∀x∈X1 (x∈F1[X1, x] & P1[x])` — the templated `F1 : [a∈ℬ(R1), b∈R1] → ℬ(R1)` at `R1 ↦ X1`
and the non-templated predicate `P1 : [a∈X1] → LOGIC` — is in the fragment and has the type LOGIC -/
private theorem exCall_frag : CFrag2Top ctxF [] exCall :=
  .ofDef (.expr (Or.inr (.lQuant (Or.inl rfl) (.deOfD .dLocal) (.sGlobal (Or.inl rfl))
    (.lBin (Or.inl rfl)
      (.lElem (Or.inl rfl) .sLocal (.sCall ctxF_ok (by decide) (mem2 (.sGlobal (Or.inl rfl)) .sLocal)))
      (.lCall ctxF_ok (by decide) (mem1 .sLocal))))))
example : CFrag2Top ctxF [] exCall ∧ HasTopType ctxF exCall .logic [] :=
  ⟨exCall_frag, typable_of_check exCall_frag (by decide +kernel) (by decide +kernel)⟩

/-- `F1[∅, ∅]`: the template parameter meets the any-type (`ℬ(R1)` against `ℬ(R0)`) and a set (`R1` against
`ℬ(R0)`): `R1 ↦ R0 ⊔ ℬ(R0) = ℬ(R0)`, the principal result is `ℬℬ(R0)` -/
private def exCallEmpty : Ast :=
  .node .NT_FUNC_CALL .none 0 9 [.node .ID_FUNCTION (.text "F1") 0 2 [],
    .node .LIT_EMPTYSET .none 3 4 [], .node .LIT_EMPTYSET .none 6 7 []]
private theorem exCallEmpty_frag : CFrag2Top ctxF [] exCallEmpty :=
  .ofDef (.expr (Or.inl (.sCall ctxF_ok (by decide) (mem2 .sEmpty .sEmpty))))
example : CFrag2Top ctxF [] exCallEmpty ∧ HasTopType ctxF exCallEmpty (.ty (.coll (.coll Ty.R0))) [] :=
  ⟨exCallEmpty_frag, typable_of_check exCallEmpty_frag (by decide +kernel) (by decide +kernel)⟩

/-- `∀p∈S1 p∈F1[X1×X1, p]`: the template parameter is instantiated by a tuple type, `R1 ↦ X1×X1` -/
private def exCallPair : Ast :=
  .node .FORALL .none 0 24 [loc "p" 1 2, glob "S1" 3 5,
    .node .IN .none 7 23 [loc "p" 7 8,
      .node .NT_FUNC_CALL .none 9 23 [.node .ID_FUNCTION (.text "F1") 9 11 [],
        .node .DECART .none 12 17 [glob "X1" 12 14, glob "X1" 15 17], loc "p" 19 20]]]
private theorem exCallPair_frag : CFrag2Top ctxF [] exCallPair :=
  .ofDef (.expr (Or.inr (.lQuant (Or.inl rfl) (.deOfD .dLocal) (.sGlobal (Or.inl rfl))
    (.lElem (Or.inl rfl) .sLocal (.sCall ctxF_ok (by decide)
      (mem2 (.sMany (Or.inl rfl) (mem2 (.sGlobal (Or.inl rfl)) (.sGlobal (Or.inl rfl)))) .sLocal))))))
example : CFrag2Top ctxF [] exCallPair ∧ HasTopType ctxF exCallPair .logic [] :=
  ⟨exCallPair_frag, typable_of_check exCallPair_frag (by decide +kernel) (by decide +kernel)⟩
/-- the instance the checker reports for the call alone: `F1[X1×X1, debool(S1)] : ℬ(X1×X1)` -/
example : (check ctxF (.node .NT_FUNC_CALL .none 0 26 [.node .ID_FUNCTION (.text "F1") 0 2 [],
    .node .DECART .none 3 8 [glob "X1" 3 5, glob "X1" 6 8], .node .DEBOOL .none 10 20 [glob "S1" 17 19]])).out
    = .ok (.ty (.coll (.tuple [.base "X1", .base "X1"]))) := by decide +kernel

/-- no instantiation exists: `F1[X1, S4]` asks `R1 ↦ X1 ⊔ C1`, which has no join — NO type, decided by the
checker's rejection -/
example : ¬ ∃ τ args, HasTopType ctxF (.node .NT_FUNC_CALL .none 0 10 [.node .ID_FUNCTION (.text "F1") 0 2 [],
    glob "X1" 3 5, glob "S4" 7 9]) τ args ∧ args.map Prod.fst = [] := by
  rintro ⟨τ, args, h, hxs⟩
  have hc : CFrag2Top ctxF [] (.node .NT_FUNC_CALL .none 0 10 [.node .ID_FUNCTION (.text "F1") 0 2 [],
      glob "X1" 3 5, glob "S4" 7 9]) :=
    .ofDef (.expr (Or.inl (.sCall ctxF_ok (by decide) (mem2 (.sGlobal (Or.inl rfl)) (.sGlobal (Or.inl rfl))))))
  have h1 := (check_complete_partial2 ctxF [] _ τ args hc hxs h).1
  have h2 : (check ctxF (.node .NT_FUNC_CALL .none 0 10 [.node .ID_FUNCTION (.text "F1") 0 2 [],
      glob "X1" 3 5, glob "S4" 7 9])).out = .fail := by decide +kernel
  rw [h2] at h1; cases h1

/-- non-vacuity of `check_decides_partial2`: `exCall` also has the parser's shape -/
example : WfTop ctxF [] exCall ∧ CFrag2Top ctxF [] exCall := by
  refine ⟨?_, exCall_frag⟩
  exact .ofDef (.expr (Or.inr (.lQuant (Or.inl rfl) (.deOfD .dLocal) (.sGlobal (Or.inl rfl))
    (.lBin (Or.inl rfl)
      (.lPred (by simp) .sLocal (.sCall (by decide) (mem2 (.sGlobal (Or.inl rfl)) .sLocal)))
      (.lCall (mem1 .sLocal))))))

/-! ### R{}: complete under the bound hypothesis, and the bound is needed -/

private def tC1 : Ty := .base "C1"
private def prA (i : Int) (lo hi : Int) : Ast := .node .SMALLPR (.tuple [i]) lo hi [loc "a" (lo + 4) (lo + 5)]
private def int1 (lo : Int) : Ast := .node .LIT_INTEGER (.int 1) lo (lo + 1) []
/-- `(S4, pr1(a), pr2(a), pr3(a), pr4(a), pr5(a))` -/
private def deepStep : Ast :=
  .node .NT_TUPLE .none 22 69 [glob "S4" 23 25, prA 1 27 33, prA 2 35 41, prA 3 43 49, prA 4 51 57, prA 5 59 65]
/-- `R{a := (1,1,1,1,1,1) | (S4, pr1(a), pr2(a), pr3(a), pr4(a), pr5(a))}` (S4 : C1, a constant set: `Z` converts
to `C1`): every round of the type deduction turns one more component of the variable from `Z` into `C1` -/
def exRecDeep : Ast :=
  .node .NT_RECURSIVE_SHORT .none 0 70 [loc "a" 2 3,
    .node .NT_TUPLE .none 5 18 [int1 6, int1 8, int1 10, int1 12, int1 14, int1 16], deepStep]

private theorem prA_ty (cs : List Ty) (c : Ty) (i : Int) (lo hi : Int) (h : pick cs [i] = some [c]) :
    HasType ctxK (({} : Env).add "a" (.tuple cs)) (prA i lo hi) (.ty c) :=
  HasType.smallpr (cs := cs) (comps := [c]) (by simp [notEmptyLit, loc, Ast.id])
    (HasType.local_ (by simp [Env.get?, Env.add])) h (by simp)

/-- with the variable at `(c1,…,c6)` the step has the type `(C1, c1,…,c5)` -/
private theorem deepStep_ty (c1 c2 c3 c4 c5 c6 : Ty) :
    HasType ctxK (({} : Env).add "a" (.tuple [c1, c2, c3, c4, c5, c6])) deepStep
      (.ty (.tuple [tC1, c1, c2, c3, c4, c5])) :=
  HasType.tuple (HasTypes.cons (HasType.global (Or.inl rfl) (by decide) (by decide))
    (HasTypes.cons (prA_ty _ c1 1 _ _ (by simp [pick]))
    (HasTypes.cons (prA_ty _ c2 2 _ _ (by simp [pick]))
    (HasTypes.cons (prA_ty _ c3 3 _ _ (by simp [pick]))
    (HasTypes.cons (prA_ty _ c4 4 _ _ (by simp [pick]))
    (HasTypes.cons (prA_ty _ c5 5 _ _ (by simp [pick])) HasTypes.nil))))))

private theorem bindA (t : Ty) : Binds ({} : Env) (loc "a" 2 3) t (({} : Env).add "a" t) := Binds.var (by decide)

/-- THE BOUND IS NEEDED. `exRecDeep` is typable by the rules — join chain
`(C1,Z,Z,Z,Z,Z) ⟶ (C1,C1,Z,Z,Z,Z) ⟶ … ⟶ (C1,C1,C1,C1,C1,C1)` of 5 steps, the last type is a fixed point, so the
term has the type `C1⁶` — but `ViRecursion` gives up after `typeDeductionDepth = 5` rounds (the 5th round still
sees the type grow) and rejects it with `typesNotEqual`. So `check_complete_statement` fails on R{} without the
hypothesis `RecBounded`; with one component less the term is accepted. -/
theorem recursion_needs_bound_counterexample :
    HasTopType ctxK exRecDeep (.ty (.tuple [tC1, tC1, tC1, tC1, tC1, tC1])) [] ∧
      (check ctxK exRecDeep).out = .fail ∧ (check ctxK exRecDeep).errs = [(0x8803, 22)] := by
  refine ⟨?_, by decide +kernel, by decide +kernel⟩
  refine HasTopType.expr (by decide) (by decide) (by decide) ?_
  refine HasType.recShort (t0 := .tuple [Ty.Z, Ty.Z, Ty.Z, Ty.Z, Ty.Z, Ty.Z])
    (t1 := .tuple [tC1, Ty.Z, Ty.Z, Ty.Z, Ty.Z, Ty.Z]) (v0 := .tuple [tC1, Ty.Z, Ty.Z, Ty.Z, Ty.Z, Ty.Z])
    (tτ := .tuple [tC1, tC1, tC1, tC1, tC1, tC1])
    (HasType.tuple (HasTypes.cons HasType.int (HasTypes.cons HasType.int (HasTypes.cons HasType.int
      (HasTypes.cons HasType.int (HasTypes.cons HasType.int (HasTypes.cons HasType.int HasTypes.nil)))))))
    (bindA _) (deepStep_ty _ _ _ _ _ _) (by decide +kernel) (by decide +kernel) ?_ (bindA _) (deepStep_ty _ _ _ _ _ _)
    (by decide +kernel)
  exact StepReach.step (σ'' := .tuple [tC1, tC1, Ty.Z, Ty.Z, Ty.Z, Ty.Z]) (bindA _) (deepStep_ty _ _ _ _ _ _) (by decide +kernel)
    (StepReach.step (σ'' := .tuple [tC1, tC1, tC1, Ty.Z, Ty.Z, Ty.Z]) (bindA _) (deepStep_ty _ _ _ _ _ _) (by decide +kernel)
    (StepReach.step (σ'' := .tuple [tC1, tC1, tC1, tC1, Ty.Z, Ty.Z]) (bindA _) (deepStep_ty _ _ _ _ _ _) (by decide +kernel)
    (StepReach.step (σ'' := .tuple [tC1, tC1, tC1, tC1, tC1, Ty.Z]) (bindA _) (deepStep_ty _ _ _ _ _ _) (by decide +kernel)
    (StepReach.step (σ'' := .tuple [tC1, tC1, tC1, tC1, tC1, tC1]) (bindA _) (deepStep_ty _ _ _ _ _ _) (by decide +kernel)
    StepReach.refl))))

/-! non-vacuity of the bound hypothesis: `R{a := ∅ | a∪X1}` -/

private def pA : Ast := loc "a" 2 3
private def stepU : Ast := .node .UNION .none 9 13 [loc "a" 9 10, glob "X1" 11 13]

private theorem cX1 : convertsFromInt ctxK.traits (.base "X1") = false := by decide

private theorem merge_X1_left (c m : Ty) (h : merge ctxK.traits (.base "X1") c = some m) : m = .base "X1" := by
  cases c with
  | base b =>
    simp only [merge] at h
    split at h
    · simpa using h.symm
    · split at h
      · rename_i h2; exact absurd h2 (by decide)
      · split at h
        · simpa using h.symm
        · have : commonType ctxK.traits (.base "X1") (.base b) = none := by
            unfold commonType
            have h1 : ((Ty.base "X1") == Ty.Z) = false := by decide
            simp only [h1, Bool.false_eq_true, if_false, cX1]
            split <;> rfl
          rw [this] at h; cases h
  | coll _ =>
    have : ("X1" == Ty.anyName) = false := by decide
    simp [merge, this] at h
  | tuple _ =>
    have : ("X1" == Ty.anyName) = false := by decide
    simp [merge, this] at h

private theorem merge_BX1 (σ σ'' : Ty) (h : merge ctxK.traits (.coll (.base "X1")) σ = some σ'') :
    σ'' = .coll (.base "X1") := by
  cases σ with
  | base b => simp only [merge] at h; split at h <;> simp_all
  | coll c =>
    simp only [merge] at h
    cases hm : merge ctxK.traits (.base "X1") c with
    | none => rw [hm] at h; cases h
    | some m => rw [hm] at h; cases h; rw [merge_X1_left _ _ hm]
  | tuple _ => simp [merge] at h

/-- whatever the type of the variable, `a∪X1` has the type ℬ(X1) -/
private theorem stepU_ty {Δ : Env} {σ' : Ty} (h : HasType ctxK Δ stepU (.ty σ')) : σ' = .coll (.base "X1") := by
  obtain ⟨t1, t2, e1, e2, m, _, _, _, _, h2, d2, hm, he⟩ := inv_setbin (Or.inl rfl) h
  cases he
  have ht2 : t2 = .coll (.base "X1") := by
    cases h2 with
    | global _ _ hl =>
      have : lookup ctxK.types "X1" = some (.ty (.coll (.base "X1"))) := by decide
      rw [this] at hl; cases hl; rfl
    | _ => simp_all
  subst ht2
  cases d2
  rw [merge_comm] at hm
  rw [merge_X1_left _ _ hm]

/-- the chain of `R{a := … | a∪X1}` stabilises within two rounds, whatever the initial value -/
private theorem recBounded_stepU : RecBounded ctxK pA stepU :=
  recBounded_of_const (.coll (.base "X1")) (fun _ _ h => stepU_ty h) merge_BX1

private theorem exRecShort_frag : CFrag2Top ctxK [] exRecShort :=
  .ofDef (.expr (Or.inl (.sRecShort .dLocal .sEmpty (.sSetbin (Or.inl rfl) .sLocal (.sGlobal (Or.inl rfl)))
    recBounded_stepU)))

/-- non-vacuity (R{} under the bound hypothesis): `R{a := ∅ | a∪X1}` is in the fragment — its chain
ℬ(R0) ⟶ ℬ(X1) stabilises in two rounds — and has the type ℬ(X1) -/
example : CFrag2Top ctxK [] exRecShort ∧ HasTopType ctxK exRecShort (.ty (.coll (.base "X1"))) [] :=
  ⟨exRecShort_frag, typable_of_check exRecShort_frag (by decide +kernel) (by decide +kernel)⟩

end CCVerif.C03
