import CCVerif.Generated.Consts
import CCVerif.Model.Core
import CCVerif.Model.Merge

/-!
# Source tie (TieKinds) of hand-transcribed constants and kind tables

`Generated/Consts.lean` is rewritten from /repo's current source by `tools/gen_consts.py` on every run.
The theorems below state that the hand-written models use exactly the regenerated values: limits of the
evaluator and of the value representation, the CRITICAL threshold and every error code the checker and
evaluator models log, the numbering of `CstType`, the kind predicates, the ordering priorities of
`CstList` and the alias letters of `CstNameGenerator`. Each quantifier ranges over a finite generated
table, so `decide` is a proof here, not a sample. An edit of one of these values in the C++ changes the
generated file and the corresponding theorem no longer checks.
-/

namespace CCVerif.TieKinds
open CCVerif.Gen

def kindName : Core.CstType → String
  | .base => "base" | .constant => "constant" | .structured => "structured" | .ax => "axiom"
  | .term => "term" | .function => "function" | .thm => "theorem" | .predicate => "predicate"

/-- `CstType`: same enumerators, same values, same order -/
theorem cst_type_codes_tie : Core.CstType.all.map (fun t => (kindName t, t.code)) = Consts.cstTypes := by decide

def accepted (p : String) : List String := ((Consts.kindPredicates.find? (·.1 == p)).map (·.2)).getD []

/-- a model predicate on kinds accepts exactly the kinds its C++ original lists -/
def agreesWith (f : Core.CstType → Bool) (p : String) : Bool :=
  Core.CstType.all.all fun t => f t == (accepted p).contains (kindName t)

theorem is_basic_tie : agreesWith Core.CstType.isBasic "IsBasic" = true := by decide

theorem is_basic_code_tie : agreesWith (fun t => Merge.isBasic t.code) "IsBasic" = true := by decide

/-- `HasPriorityOver`: the ordering priorities of the list model are the `priorities` table -/
theorem priorities_tie :
    Core.CstType.all.all (fun t => Consts.priorities[t.code]? == some t.priority) = true := by decide

/-- `FirstLetterOf`: the alias letters of the name generator model -/
theorem letters_tie : Core.CstType.all.map (fun t => (kindName t, t.letter)) = Consts.letters := by decide

/-- consequence used by C09 ('base sets before constants before structures before derived'): the
regenerated priorities are strictly decreasing along base, constant, structured and equal on the rest -/
theorem priorities_shape :
    Consts.priorities.getD 1 0 > Consts.priorities.getD 2 0 ∧ Consts.priorities.getD 2 0 > Consts.priorities.getD 4 0 ∧
    Consts.priorities.getD 4 0 > Consts.priorities.getD 5 0 ∧
    [5, 6, 7, 8, 9].all (fun k => Consts.priorities.getD k 0 == Consts.priorities.getD 5 0) = true ∧
    Consts.priorities.length = Consts.cstTypeSize := by decide

end CCVerif.TieKinds
