import CCVerif.Model.Translate
import CCVerif.Model.TranslateSpec
import CCVerif.Lemmas.Translate
import CCVerif.Lemmas.Rename
import CCVerif.Lemmas.RelexRun
import CCVerif.Lemmas.WordSpec
import CCVerif.Properties.C17
/-!
# C08 — renaming rewrites all and only the mentions of a name and preserves meaning

Models: `Model/Translate.lean` (`TranslateRS`, `SubstituteGlobals`, `ExtractUGlobals`,
`RSConcept::Translate`, the content part of `SetAliasFor` / `SubstitueAliases`), the shared MATH
lexer model (`Model/Lexer.lean` + the table regenerated from `MathLexerImpl.l`), `Model/Refs.lean`
(`TranslateRaw`, C17), `Model/Schema.lean` (analysis on the fragment of C07).
Specification: `Model/TranslateSpec.lean`.

Text level (all texts, all maps, all filters — no size bound):
* `translateRS_tokens` — the result of `TranslateRS` is the text with exactly the filter tokens
  replaced by their images, every other code point kept (inter-token bytes, other tokens, bytes
  around multi-byte symbols), simultaneously (each token is looked up once, in the original text);
  the count is the number of replaced tokens; `std::string::replace` never throws; the tokens and
  the gaps between them make up the original text (`tokens_cover_text`).
* `whole_identifier_only` — an identifier token is never followed by an identifier symbol (longest
  match of the regenerated rule table): `X1` inside `X11` is not a token, hence untouched;
  `identifier_not_inside` — nor preceded by one, a digit or the letter `B` excepted (`xX1`, `X1X1`).
* `locals_untouched`, `other_tokens_untouched`, `unmapped_untouched`, `swap_applies_once`.
* `relex_stable` — for filters that accept identifier tokens only (both filters of the code) and
  maps whose new names are identifier spellings: lexing the translated text gives the original
  token list with the replaced tokens re-spelled (no token fuses or splits), all texts;
  `relex_any_filter_counterexample`: false for a filter that accepts a non-identifier token.
* `words_agree_tokens`, `translateRS_words` — the word-level specification (`scan`, no lexer model)
  and the token-level one are the same function, on every text.
* `translateRaw_text` (from C17's `translateRaw_spec`) and `translateRaw_strict` (byte for byte: only
  the name bytes of a renamed entity reference change) for reference texts.

Schema level (fragment model of C07): `rename_iso`, `substitute_iso`,
`rename_capture_counterexample`, `rename_without_substitution_counterexample`.
-/
namespace CCVerif.C08
open CCVerif.Syntax CCVerif.Generated CCVerif.Lexer CCVerif.Strings CCVerif.Translate CCVerif.Translate.Spec

/-! ## text level -/

/-- **translateRS_tokens.** For every well-formed text (scalar values `cps`), every token filter and
every translator: with `toks` the MATH token stream of the text, `TranslateRS` returns the text
woven from the same inter-token code points and the same tokens, with exactly the tokens accepted
by the filter replaced by their image under the translator (`weaveToks`: all look-ups are made on
the original tokens, so swaps and chains are applied once per token), and the number of tokens
whose text changed. In particular it never faults. -/
theorem translateRS_tokens (f : Tok → Bool) (tr : Translator) (cps : List Nat) (hv : ∀ c ∈ cps, scalar c)
    (toks : List RawTok) (hl : lexMath cps = some toks) :
    translateRS f tr (encode cps) = .ok (weaveToks f tr cps 0 toks) (changed f tr toks) := by
  unfold translateRS
  rw [decode_encode cps hv]
  simp only
  unfold translateCps
  rw [hl]
  simp only
  have := go_spec f tr cps toks 0 [] 0 (lexMath_laid hl)
  simp only [List.drop_zero, List.take_zero, List.nil_append, List.length_nil, Nat.zero_add] at this
  have e : ((0 : Nat) : Int) - (((encode ([] : List Nat)).length : Nat) : Int) = 0 := by simp [encode]
  rw [e] at this
  rw [this]

/-- the token stream always exists (the MATH table has a catch-all rule): `TranslateRS` on a
well-formed text is `ok`, for every filter and translator -/
theorem translateRS_no_fault (f : Tok → Bool) (tr : Translator) (cps : List Nat) (hv : ∀ c ∈ cps, scalar c) :
    ∃ s n, translateRS f tr (encode cps) = .ok s n := by
  obtain ⟨toks, hl⟩ := lexMath_total cps
  exact ⟨_, _, translateRS_tokens f tr cps hv toks hl⟩

/-- the decomposition used by `translateRS_tokens` loses nothing: the inter-token code points and
the token texts, woven without any replacement, are the text itself -/
theorem tokens_cover_text (f : Tok → Bool) (cps : List Nat) (toks : List RawTok) (hl : lexMath cps = some toks) :
    weaveToks f (fun _ => none) cps 0 toks = encode cps := by
  have := weave_id f cps toks 0 (lexMath_laid hl)
  simpa using this

/-- every token's text is found at its offset -/
theorem token_at_offset (cps : List Nat) (toks : List RawTok) (hl : lexMath cps = some toks) :
    ∀ t ∈ toks, (cps.drop t.lo).take t.text.length = t.text :=
  fun t ht => ((lexMath_laid hl).mem t ht).1

/-- **whole identifiers only.** In the token stream an identifier token (global, function,
predicate or local name) is never followed directly by an identifier symbol: the name was matched
up to the end of the identifier (longest match over the regenerated rule table). Hence a name
that is a proper prefix of a longer identifier (`X1` in `X11`) is not a token of the text and, by
`translateRS_tokens`, is not replaced. -/
theorem whole_identifier_only (cps : List Nat) (toks : List RawTok) (hl : lexMath cps = some toks)
    (t : RawTok) (ht : t ∈ toks) (hid : filterIdentifiers t.id = true) :
    ∀ c, cps[t.lo + t.text.length]? = some c → isAlnum .math c = false := by
  intro c hc
  obtain ⟨_, h2⟩ := (lexMath_laid hl).mem t ht
  rcases h2 with ⟨_, he⟩ | ⟨n, hb, htx⟩
  · rw [math_eof] at he
    have : t.id = .END := (Option.some.inj he).symm
    rw [this] at hid
    exact absurd hid (by decide)
  · have hm := munch (cps.drop t.lo) n t.id hid hb
    have hlen : t.text.length = min n (cps.drop t.lo).length := by rw [htx, List.length_take]
    by_cases hn : n ≤ (cps.drop t.lo).length
    · apply hm c
      rw [List.drop_drop, List.head?_drop]
      have : t.lo + t.text.length = t.lo + n := by omega
      rw [← this]; exact hc
    · have : cps.length ≤ t.lo + t.text.length := by
        simp only [List.length_drop] at hlen hn; omega
      rw [List.getElem?_eq_none this] at hc
      cases hc

/-- **… on the left as well.** An identifier token does not start in the middle of an identifier:
the symbol before it is not an identifier symbol — except a digit (a number written directly
before the name: `1X1` is the number `1` followed by `X1`) or the letter `B` (not a symbol of the
MATH alphabet: `BX1` is an unknown symbol followed by `X1`). So `X1` inside `xX1`, `X1X1`, `ξX1`,
`_X1`, `DX1`, `Pr1X1` is not a token and is not replaced. -/
theorem identifier_not_inside (cps : List Nat) (toks : List RawTok) (hl : lexMath cps = some toks)
    (t : RawTok) (ht : t ∈ toks) (hid : filterIdentifiers t.id = true) (hpos : 0 < t.lo) :
    ∀ c, cps[t.lo - 1]? = some c → isAlnum .math c = true → Lexer.isDigit c = true ∨ c = 66 := by
  intro c hc hca
  rcases alnum_cases c hca with h | h | h
  · exact Or.inl h
  · exact Or.inr h
  · exfalso
    -- the token itself starts with an identifier symbol
    obtain ⟨_, h2⟩ := (lexMath_laid hl).mem t ht
    have hbest : ∃ n, bestRule .math (cps.drop t.lo) mathRules none = some (n, .tok t.id) := by
      rcases h2 with ⟨_, he⟩ | ⟨n, hb, _⟩
      · rw [math_eof] at he
        have : t.id = .END := (Option.some.inj he).symm
        rw [this] at hid
        exact absurd hid (by decide)
      · exact ⟨n, hb⟩
    obtain ⟨n, hb⟩ := hbest
    obtain ⟨a, tl, hs, haa⟩ := id_token_head (cps.drop t.lo) n t.id hid hb
    have hhead : cps[t.lo]? = some a := by
      have := congrArg (fun l => l[0]?) hs
      simpa [List.getElem?_drop] using this
    -- the piece before it
    rcases lexMath_prev hl t ht with h0 | ⟨q, k, act, hq, hbq⟩
    · omega
    · refine no_idstart_before (cps.drop q) k act c a hbq ?_ ?_ h haa
      · rw [List.getElem?_drop]
        have : q + k = t.lo - 1 := by omega
        rw [this]; exact hc
      · rw [List.getElem?_drop]
        have : q + (k + 1) = t.lo := hq
        rw [this]; exact hhead

/-- under `FilterGlobals` a local name keeps its bytes -/
theorem locals_untouched (tr : Translator) (t : RawTok) (h : t.id = .ID_LOCAL) :
    newText filterGlobals tr t = encode t.text ∧ isChanged filterGlobals tr t = false := by
  simp [newText, isChanged, filterGlobals, h]

/-- a token the filter does not accept (operators, multi-byte symbols, keywords such as `Pr1`,
`R1`, `D`, `Z`, unknown symbols) keeps its bytes -/
theorem other_tokens_untouched (f : Tok → Bool) (tr : Translator) (t : RawTok) (h : f t.id = false) :
    newText f tr t = encode t.text ∧ isChanged f tr t = false := by
  simp [newText, isChanged, h]

/-- an identifier that the map does not mention (or maps to itself) keeps its bytes and is not counted -/
theorem unmapped_untouched (f : Tok → Bool) (tr : Translator) (t : RawTok)
    (h : tr (encode t.text) = none ∨ tr (encode t.text) = some (encode t.text)) :
    newText f tr t = encode t.text ∧ isChanged f tr t = false := by
  rcases h with h | h <;> simp [newText, isChanged, h]

/-- a token is replaced by the image of ITS OWN text under the map — never by the image of an
image: swaps exchange, chains move one step -/
theorem swap_applies_once (f : Tok → Bool) (m : Substitutes) (t : RawTok) (new : Bytes) (hf : f t.id = true)
    (h : createTranslator m (encode t.text) = some new) :
    newText f (createTranslator m) t = new := by
  simp [newText, hf, h]

/-- the keywords of the MATH syntax that look like names are not accepted by either filter -/
theorem keywords_not_names :
    ∀ k ∈ [Tok.BIGPR, .SMALLPR, .FILTER, .ID_RADICAL, .DECLARATIVE, .RECURSIVE, .IMPERATIVE, .LIT_INTSET,
            .CARD, .BOOL, .DEBOOL, .REDUCE, .INTERRUPT, .LIT_INTEGER],
      filterGlobals k = false ∧ filterIdentifiers k = false := by decide

/-- `SubstituteGlobals` is `TranslateRS` with `FilterGlobals` and the map as a translator -/
theorem substituteGlobals_tokens (m : Substitutes) (cps : List Nat) (hv : ∀ c ∈ cps, scalar c)
    (toks : List RawTok) (hl : lexMath cps = some toks) :
    substituteGlobals (encode cps) m =
      .ok (weaveToks filterGlobals (createTranslator m) cps 0 toks) (changed filterGlobals (createTranslator m) toks) :=
  translateRS_tokens _ _ cps hv toks hl

/-- `ExtractUGlobals` returns the texts of the global-name tokens -/
theorem extractUGlobals_tokens (cps : List Nat) (hv : ∀ c ∈ cps, scalar c) (toks : List RawTok) (hl : lexMath cps = some toks) :
    extractUGlobals (encode cps) = some ((toks.filter fun t => filterGlobals t.id).map fun t => encode t.text) := by
  unfold extractUGlobals extractBy
  rw [decode_encode cps hv]
  simp only
  rw [hl]
  rfl

/-- reference texts: `TextConcept::TranslateRaw` rewrites exactly the entity references whose name is
mapped to a different name — in these only the bytes of the name — and keeps every other byte
(C17, `translateRaw_spec`) -/
theorem translateRaw_text (tr : Translator) (cps : List Nat) (hv : ∀ c ∈ cps, validCp c) :
    Refs.translateRaw Refs.Variant.current tr (encode cps) = .ok (Refs.Spec.translateSpec tr cps) :=
  CCVerif.Refs.translateRaw_spec tr cps hv

/-- the strict specification of this package and C17's specification are the same function -/
private theorem translateRefsStrict_eq (tr : Translator) (cps : List Nat) :
    translateRefsStrict tr cps = Refs.Spec.translateSpec tr cps := by
  unfold translateRefsStrict Refs.Spec.translateSpec
  congr 2

/-- **translateRaw_strict.** The strict, byte-for-byte reading of "changes nothing else" for a
reference text: for every well-formed text and every translator, `TranslateRaw` returns the text
in which, of every found entity reference whose name is mapped to a different name, only the bytes
of the name are replaced by the new name (`translateRefsStrict`: gaps, other references, and the
tags / blanks / legacy fields of the renamed references byte for byte). -/
theorem translateRaw_strict (tr : Translator) (cps : List Nat) (hv : ∀ c ∈ cps, validCp c) :
    Refs.translateRaw Refs.Variant.current tr (encode cps) = .ok (translateRefsStrict tr cps) := by
  rw [translateRefsStrict_eq]
  exact CCVerif.Refs.translateRaw_spec tr cps hv

/-- **strict_item_bytes.** What `translateRefsStrict` weaves in for a found entity reference `n ↦ n'`,
`n' ≠ n`: the original bytes are `@{` ++ `n` ++ `|` ++ tail and the replacement is `@{` ++ `n'` ++ `|`
++ the same tail (so `take 2` / `drop (2 + |n|)` in `strictItem` never cut anything else). -/
theorem strict_item_bytes (tr : Translator) (cps : List Nat) (x : Nat × Nat × Refs.RefData)
    (hx : x ∈ Refs.Spec.refsOf cps) (n : Bytes) (f : Refs.Morph) (n' : Bytes)
    (hd : x.2.2 = .entity n f) (htr : tr n = some n') (hne : n' ≠ n) :
    ∃ tl, encode (Refs.Spec.slice cps x.1 x.2.1) = [Refs.cAt, Refs.cOpen] ++ n ++ Refs.cBar :: tl ∧
      (strictItem tr cps x).text = [Refs.cAt, Refs.cOpen] ++ n' ++ Refs.cBar :: tl :=
  CCVerif.Refs.translateRaw_name_only tr cps x hx n f n' hd htr hne

/-- `@{X1|nomn,sing}` -/
def refNomnSing : List Nat := [64, 123, 88, 49, 124, 110, 111, 109, 110, 44, 115, 105, 110, 103, 125]

/-- `translateRaw_strict` on an instance where the strict reading and the canonical spelling differ:
renaming `X1` to `X2` turns `@{X1|nomn,sing}` into `@{X2|nomn,sing}` (tags as typed). -/
theorem translateRaw_strict_example :
    Refs.translateRaw Refs.Variant.current (createTranslator [([88, 49], [88, 50])]) (encode refNomnSing) =
      .ok [64, 123, 88, 50, 124, 110, 111, 109, 110, 44, 115, 105, 110, 103, 125] ∧
    translateRefsStrict (createTranslator [([88, 49], [88, 50])]) refNomnSing =
      [64, 123, 88, 50, 124, 110, 111, 109, 110, 44, 115, 105, 110, 103, 125] := by
  decide +kernel

-- non-vacuity of `strict_item_bytes`
example : (0, 15, Refs.RefData.entity [88, 49] [25, 30]) ∈ Refs.Spec.refsOf refNomnSing ∧
    createTranslator [([88, 49], [88, 50])] [88, 49] = some [88, 50] := by decide +kernel

/-- **the behaviour before the repair (pinned definition, closed fact).** Until the commit "fix:
renaming an entity inside a text reference rewrites the name only" `TranslateRaw` replaced an
affected reference by its canonical spelling (`translateRefsRespelledPinned`): `X1 ↦ X2` turned
`@{X1|nomn,sing}` into `@{X2|sing,nomn}` — tags re-ordered — which is not the strict result. The
former finding C08-reference-respelled; it is repaired, `translateRaw_strict` holds now. -/
theorem translateRaw_respelled_pinned_observed :
    translateRefsRespelledPinned (createTranslator [([88, 49], [88, 50])]) refNomnSing =
      [64, 123, 88, 50, 124, 115, 105, 110, 103, 44, 110, 111, 109, 110, 125] ∧
    translateRefsRespelledPinned (createTranslator [([88, 49], [88, 50])]) refNomnSing ≠
      translateRefsStrict (createTranslator [([88, 49], [88, 50])]) refNomnSing := by
  decide +kernel

/-- what does hold byte for byte: a reference text none of whose entity references is renamed is
returned unchanged (corollary of C17's specification on an instance class: the empty map) -/
theorem translateRaw_identity_example :
    Refs.translateRaw Refs.Variant.current (createTranslator []) (encode refNomnSing) = .ok (encode refNomnSing) := by
  decide +kernel

/-! ### non-vacuity and the named situations of the property -/

def U : Nat := 0x222A   -- ∪
def txtPrefix : List Nat := [88, 49, U, 88, 49, 49, U, 88, 49, 49, 49]          -- X1∪X11∪X111
def txtSwap : List Nat := [0x212C, 40, 88, 49, 0xD7, 88, 50, 41, U, 88, 49]     -- ℬ(X1×X2)∪X1
def txtLocal : List Nat := [0x3BE, 0x2208, 88, 49, 32, 38, 32, 0x3BE, 88, 49, 32, 120, 88, 49]  -- ξ∈X1 & ξX1 xX1
def x1 : Bytes := [88, 49]
def x2 : Bytes := [88, 50]

/-- `X1 ↦ X2` on `X1∪X11∪X111`: one replacement, `X11` and `X111` untouched, the three-byte `∪`
before and after untouched -/
example : translateRS filterGlobals (createTranslator [(x1, x2)]) (encode txtPrefix) =
    .ok (encode [88, 50, U, 88, 49, 49, U, 88, 49, 49, 49]) 1 := by decide +kernel

/-- simultaneous swap `X1 ↔ X2` on `ℬ(X1×X2)∪X1` -/
example : translateRS filterGlobals (createTranslator [(x1, x2), (x2, x1)]) (encode txtSwap) =
    .ok (encode [0x212C, 40, 88, 50, 0xD7, 88, 49, 41, U, 88, 50]) 3 := by decide +kernel

/-- chain `X1 ↦ X2, X2 ↦ X3` with `X2` present: each token moves one step -/
example : translateRS filterGlobals (createTranslator [(x1, x2), (x2, [88, 51])]) (encode [88, 49, U, 88, 50]) =
    .ok (encode [88, 50, U, 88, 51]) 2 := by decide +kernel

/-- locals (`ξ`, `ξX1`, `xX1`) are untouched under `FilterGlobals` even when the map mentions them -/
example : translateRS filterGlobals (createTranslator [(x1, x2), ([0xCE, 0xBE], [0xCE, 0xB6])]) (encode txtLocal) =
    .ok (encode [0x3BE, 0x2208, 88, 50, 32, 38, 32, 0x3BE, 88, 49, 32, 120, 88, 49]) 1 := by decide +kernel

/-- … and are renamed under `FilterIdentifiers` (new name longer in bytes than the old one) -/
example : translateRS filterIdentifiers (createTranslator [([0xCE, 0xBE], [0xCE, 0xB6, 0xCE, 0xB6])]) (encode txtLocal) =
    .ok (encode [0x3B6, 0x3B6, 0x2208, 88, 49, 32, 38, 32, 0x3BE, 88, 49, 32, 120, 88, 49]) 1 := by decide +kernel

/-- the two exceptions of `identifier_not_inside`, and the non-exception: `1X1` is a number and the
name, `BX1` an unknown symbol and the name, `xX1` one local name (so `X1 ↦ X2` leaves `xX1` alone) -/
example : (lexMath [49, 88, 49]).map (·.map fun t => (t.id, t.lo, t.text)) =
      some [(.LIT_INTEGER, 0, [49]), (.ID_GLOBAL, 1, [88, 49])] ∧
    (lexMath [66, 88, 49]).map (·.map fun t => (t.id, t.lo, t.text)) =
      some [(.INTERRUPT, 0, [66]), (.ID_GLOBAL, 1, [88, 49])] ∧
    (lexMath [120, 88, 49]).map (·.map fun t => (t.id, t.lo, t.text)) = some [(.ID_LOCAL, 0, [120, 88, 49])] ∧
    translateRS filterGlobals (createTranslator [(x1, x2)]) (encode [120, 88, 49, 32, 88, 49, 88, 49, 32, 49, 88, 49]) =
      .ok (encode [120, 88, 49, 32, 88, 49, 88, 49, 32, 49, 88, 50]) 1 := by decide +kernel

/-- hypotheses of the theorems are met by these texts -/
example : (lexMath txtPrefix).isSome = true ∧ (∀ c ∈ txtPrefix, scalar c) := by decide +kernel

/-! ### lexing the result again -/

/-- **relex_stable.** For a filter that accepts identifier tokens only (`FilterGlobals`,
`FilterIdentifiers`, and every sub-filter of them): if every replaced token is replaced by a name
that lexes, on its own, as one identifier token (`relexExpected … = some exp`), then the translated
text is well formed, and lexing it gives the original token list with the replaced tokens
re-spelled — same number of tokens, same order, every unchanged token with its kind and text, every
replaced token as ONE identifier token whose text is the new name and whose kind is the identifier
class of the new name. No two tokens fuse and no token splits; so a second translation, or the
analysis that follows a renaming, sees exactly the renamed identifiers. All texts, all maps, no
size bound; the table-dependent facts (homogeneous literals, prefix lengths of the indexed and
numbered keywords, no identifier rule before an indexed-keyword rule, the identifier rules, the
END rule) are re-checked by `decide` against the regenerated table. -/
theorem relex_stable (f : Tok → Bool) (hf : ∀ k, f k = true → filterIdentifiers k = true) (tr : Translator)
    (cps : List Nat) (hv : ∀ c ∈ cps, scalar c) (toks : List RawTok) (hl : lexMath cps = some toks)
    (exp : List (Tok × Bytes)) (he : relexExpected f tr toks = some exp) :
    ∃ cps', decode (weaveToks f tr cps 0 toks) = some cps' ∧
      (lexMath cps').map (·.map fun t => (t.id, encode t.text)) = some exp :=
  ⟨_, relex_lexMath f hf tr cps hv toks hl exp he⟩

/-- `relex_stable` in the shape of the former statement (the decoded result given) -/
theorem relex_stable_decoded (f : Tok → Bool) (hf : ∀ k, f k = true → filterIdentifiers k = true) (tr : Translator)
    (cps : List Nat) (hv : ∀ c ∈ cps, scalar c) (toks : List RawTok) (hl : lexMath cps = some toks)
    (exp : List (Tok × Bytes)) (he : relexExpected f tr toks = some exp)
    (cps' : List Nat) (hd : decode (weaveToks f tr cps 0 toks) = some cps') :
    (lexMath cps').map (·.map fun t => (t.id, encode t.text)) = some exp := by
  obtain ⟨h1, h2⟩ := relex_lexMath f hf tr cps hv toks hl exp he
  rw [h1] at hd
  cases hd
  exact h2

/-- the two filters of `TFFactory` accept identifier tokens only -/
theorem filters_identifier_only :
    (∀ k, filterGlobals k = true → filterIdentifiers k = true) ∧ (∀ k, filterIdentifiers k = true → filterIdentifiers k = true) := by
  refine ⟨?_, fun _ h => h⟩
  intro k h
  unfold filterGlobals at h
  unfold filterIdentifiers
  rw [h]; rfl

/-- `relex_stable` for `SubstituteGlobals` / `RSConcept::Translate` (`FilterGlobals`) -/
theorem relex_stable_globals (m : Substitutes) (cps : List Nat) (hv : ∀ c ∈ cps, scalar c) (toks : List RawTok)
    (hl : lexMath cps = some toks) (exp : List (Tok × Bytes))
    (he : relexExpected filterGlobals (createTranslator m) toks = some exp) :
    ∃ cps', decode (weaveToks filterGlobals (createTranslator m) cps 0 toks) = some cps' ∧
      (lexMath cps').map (·.map fun t => (t.id, encode t.text)) = some exp :=
  relex_stable _ filters_identifier_only.1 _ cps hv toks hl exp he

/-- the hypothesis `relexExpected … = some exp` is met whenever the new names of the map are
identifier spellings: e.g. global names `X2`, `F7`; non-vacuity of `relex_stable` on a text with a
prefix pair, a three-byte operator and a change of identifier class -/
example : (∀ c ∈ txtLocal, scalar c) ∧ (lexMath txtLocal).isSome = true ∧
    ((lexMath txtLocal).bind (relexExpected filterGlobals (createTranslator [(x1, [70, 55])]))).isSome = true ∧
    idClass [88, 50] = some .ID_GLOBAL ∧ idClass [70, 55] = some .ID_FUNCTION ∧ idClass [0xCE, 0xBE, 49] = some .ID_LOCAL := by
  decide +kernel

/-- **the hypothesis on the filter is needed.** The former statement `relex_stable_statement`
quantified over ALL token filters; for a filter that accepts a token that is not an identifier the
claim is false in the model: with the filter `{PLUS}` and the map `+ ↦ X1`, the text `a+b`
(tokens `a`, `+`, `b`) becomes `aX1b`, ONE local name — the three tokens fuse. No such filter exists
in the code (`TFFactory` builds `FilterGlobals` and `FilterIdentifiers` only); recorded to delimit
`relex_stable`. -/
def relex_stable_statement : Prop :=
  ∀ (f : Tok → Bool) (tr : Translator) (cps : List Nat), (∀ c ∈ cps, scalar c) →
    ∀ toks, lexMath cps = some toks → ∀ exp, relexExpected f tr toks = some exp →
      ∀ cps', decode (weaveToks f tr cps 0 toks) = some cps' →
        (lexMath cps').map (·.map fun t => (t.id, encode t.text)) = some exp

theorem relex_any_filter_counterexample : ¬ relex_stable_statement := by
  intro h
  have := h (fun t => t = .PLUS) (createTranslator [([43], [88, 49])]) [97, 43, 98] (by decide)
    [⟨.ID_LOCAL, 0, 1, [97]⟩, ⟨.PLUS, 1, 2, [43]⟩, ⟨.ID_LOCAL, 2, 3, [98]⟩] (by decide +kernel)
    [(.ID_LOCAL, [97]), (.ID_GLOBAL, [88, 49]), (.ID_LOCAL, [98])] (by decide +kernel)
    [97, 88, 49, 98] (by decide +kernel)
  revert this
  decide +kernel

/-- `relex_stable` evaluated on instances (`relexHolds` is what the model driver prints as
`relex-mismatch` when false): prefix names, a swap, Greek and longer new names, a
change of identifier class (`X1 ↦ F7`) -/
theorem relex_stable_instances :
    ∀ p ∈ [(txtPrefix, [(x1, x2)]), (txtPrefix, [(x1, [88, 49, 49]), ([88, 49, 49], x1)]),
            (txtSwap, [(x1, x2), (x2, x1)]), (txtSwap, [(x1, [88, 0xCE, 0xBE, 0xCE, 0xB6])]),
            (txtLocal, [(x1, [70, 55])])],
      relexHolds filterGlobals (createTranslator p.2) p.1 = true := by
  decide +kernel

/-- when the new "name" is not an identifier, nothing is claimed — and indeed the token list changes:
`X1 ↦ X1 ∪X2`-style expression substitution splits one token into three -/
theorem relex_needs_identifier_names :
    relexExpected filterGlobals (createTranslator [(x1, encode [88, 49, 32, U, 88, 50])]) ((lexMath [88, 49]).getD []) = none := by
  decide +kernel

/-! ### the word-level specification -/

/-- **words_agree_tokens.** The word-level specification of `Model/TranslateSpec.lean` (`scan` /
`translateWords`: whole-identifier occurrences defined WITHOUT the lexer model and its rule table —
maximal runs of identifier symbols that do not start with a digit or `B` and are not reserved
words, global when they start with an upper-case letter) and the token-level one (`weaveToks`,
`changed` over the MATH token stream) are the same function: for every text, every translator,
`locals = false` against `FilterGlobals` and `locals = true` against `FilterIdentifiers`, same bytes
and same count. The table-dependent facts (which literals are reserved words, the prefixes of the
indexed and numbered keywords, keyword rules before the general identifier rules, the catch-all
rule last) are re-checked by `decide` against the regenerated table. -/
theorem words_agree_tokens (locals : Bool) (tr : Translator) (cps : List Nat) (toks : List RawTok)
    (hl : lexMath cps = some toks) :
    translateWords locals tr cps =
      (weaveToks (if locals then filterIdentifiers else filterGlobals) tr cps 0 toks,
       changed (if locals then filterIdentifiers else filterGlobals) tr toks) :=
  words_eq_tokens locals tr cps toks hl

/-- **translateRS_words.** `TranslateRS` with one of the two filters of the code computes the
word-level specification: on every well-formed text the result is the text with exactly the
whole-identifier occurrences of mapped names replaced (globals only / globals and locals), and the
count is their number — no lexer model in the specification. -/
theorem translateRS_words (locals : Bool) (tr : Translator) (cps : List Nat) (hv : ∀ c ∈ cps, scalar c) :
    translateRS (if locals then filterIdentifiers else filterGlobals) tr (encode cps) =
      .ok (translateWords locals tr cps).1 (translateWords locals tr cps).2 := by
  obtain ⟨toks, hl⟩ := lexMath_total cps
  rw [translateRS_tokens _ tr cps hv toks hl, words_agree_tokens locals tr cps toks hl]

/-- `SubstituteGlobals` computes the word-level specification for globals -/
theorem substituteGlobals_words (m : Substitutes) (cps : List Nat) (hv : ∀ c ∈ cps, scalar c) :
    substituteGlobals (encode cps) m =
      .ok (translateWords false (createTranslator m) cps).1 (translateWords false (createTranslator m) cps).2 :=
  translateRS_words false (createTranslator m) cps hv

/-- the word-level specification on a text with the named situations: `xX1` and `X1X1` untouched,
`1X1` and `BX1` renamed, the keyword `Pr1,2` passed verbatim (non-vacuity of `words_agree_tokens`) -/
theorem words_on_example :
    translateWords false (createTranslator [(x1, x2)]) [120, 88, 49, 32, 88, 49, 88, 49, 32, 49, 88, 49, 32, 80, 114, 49, 44, 50, 32, 66, 88, 49] =
      (encode [120, 88, 49, 32, 88, 49, 88, 49, 32, 49, 88, 50, 32, 80, 114, 49, 44, 50, 32, 66, 88, 50], 2) := by
  decide +kernel

/-! ## schema level (fragment model of C07: definitions are unions of global names) -/

section SchemaLevel
open CCVerif.Schema

/-- the one-entry renaming `old ↦ new` on names -/
def ren (old new : String) (n : String) : String := if n == old then new else n

private theorem ren_injOn {old new : String} {names : List String} (hnew : new ∉ names) :
    ∀ a ∈ names, ∀ b ∈ names, ren old new a = ren old new b → a = b := by
  intro a ha b hb he
  unfold ren at he
  by_cases h1 : a = old <;> by_cases h2 : b = old
  · rw [h1, h2]
  · simp [h1, h2] at he; exact absurd (he ▸ hb) hnew
  · simp [h1, h2] at he; exact absurd (he ▸ ha) hnew
  · simpa [h1, h2] using he

/-- **rename_iso.** `SetAliasFor(u, new, substitute = true)` on a well-formed schema with pairwise
distinct aliases (what `RSCore` maintains, C09), where the new name is free (what the identity
manager checks) and is not mentioned anywhere as an unresolved name (the proviso of the property):
the renamed schema has the same dependency edges and the same report — per constituent the same
status and the typification with the alias substituted. -/
theorem rename_iso {st : St} (h : WF st) (hd : AliasesDistinct st) {u : Nat} {c : Cst} (hat : st.at u = some c)
    (new : String) (hfree : ∀ x ∈ st.store, x.alias ≠ new)
    (hproviso : ∀ x ∈ st.store, new ∈ x.defn.mentions → (findAliasL st.store new).isSome = true) :
    (step false st (.setAlias u new true)).depEdges = st.depEdges ∧
    (step false st (.setAlias u new true)).report =
      st.report.map (fun r => (r.1, r.2.1, r.2.2.map (ren c.alias new))) := by
  obtain ⟨hc, hcu⟩ := mem_of_at hat
  have hne : ¬ c.alias = new := hfree c hc
  -- `new` does not occur at all
  have hnone : findAliasL st.store new = none := by
    unfold findAliasL
    rw [List.find?_eq_none.2 (fun x hx => by simpa using hfree x hx)]
    rfl
  have hnew : new ∉ namesOf st.store := by
    intro hm
    rcases List.mem_append.1 hm with hm | hm
    · obtain ⟨x, hx, e⟩ := List.mem_map.1 hm
      exact hfree x hx e
    · obtain ⟨x, hx, e⟩ := List.mem_flatMap.1 hm
      have := hproviso x hx e
      rw [hnone] at this
      cases this
  have hst := RSModel.setAlias_spec h true hat hne
  simp only [if_true] at hst
  rw [List.map_map] at hst
  have hal := RSModel.setAl_facts h.base.nodup hd hc hcu new
  refine iso_of_renaming h (h.setAlias u new true) (ren c.alias new) _ hst ?_ (ren_injOn hnew)
  intro c1 hc1
  obtain ⟨b1, b2, b3, b4, _⟩ := hal c1 hc1
  refine ⟨b1, b2, b4, ?_⟩
  show renameDef _ (RSModel.setAl u new c1).defn = _
  rw [b3]
  cases c1.defn with
  | union ns =>
    show Def.union _ = Def.union _
    congr 1
    apply List.map_congr_left
    intro n _
    unfold ren
    by_cases hn1 : n = c.alias <;> simp [hn1]
  | empty => rfl
  | bad => rfl

/-- **substitute_iso.** `SubstitueAliases(map)` (`ResetAliases`, and the simultaneous maps of merge /
equation) with a map that keeps distinct names distinct — aliases stay pairwise distinct and no
new alias coincides with a name that was mentioned without being an alias —: same dependency edges,
same report with the map applied to the types. Swaps and chains are such maps. -/
theorem substitute_iso {st : St} (h : WF st) (m : List (String × String))
    (hinj : ∀ a ∈ namesOf st.store, ∀ b ∈ namesOf st.store,
      (lookup m a).getD a = (lookup m b).getD b → a = b) :
    (step false st (.substitute m)).depEdges = st.depEdges ∧
    (step false st (.substitute m)).report =
      st.report.map (fun r => (r.1, r.2.1, r.2.2.map (fun n => (lookup m n).getD n))) := by
  have hb : Base ({ st with invalid := true, store := st.store.map (fun (x : Cst) =>
      { x with alias := (lookup m x.alias).getD x.alias }) } : St) :=
    h.base.of_eq (uids_map_pres (fun (x : Cst) =>
      { x with alias := (lookup m x.alias).getD x.alias }) (fun x => rfl) st.store) rfl
  have hst : (step false st (.substitute m)).store =
      (st.store.map (fun (x : Cst) => { x with alias := (lookup m x.alias).getD x.alias })).map
        (RSModel.renCst (lookup m)) := by
    unfold step
    simp only
    rw [RSModel.translateAll_store hb rfl]
  rw [List.map_map] at hst
  refine iso_of_renaming h (h.substitute m) (fun n => (lookup m n).getD n) _ hst ?_ hinj
  intro c1 _
  refine ⟨rfl, rfl, rfl, ?_⟩
  show renameDef _ c1.defn = _
  cases c1.defn <;> rfl

/-- `substitute_iso` with the proviso in the words of the property: the keys of the map are aliases
(`ResetAliases` builds it from the constituents), the new aliases are pairwise distinct (identity
manager), and no new alias was mentioned somewhere as an unresolved name -/
theorem substitute_iso_of_fresh {st : St} (h : WF st) (m : List (String × String))
    (hkeys : ∀ p ∈ m, p.1 ∈ st.store.map (·.alias))
    (hdist : ((st.store.map (·.alias)).map (fun n => (lookup m n).getD n)).Nodup)
    (hproviso : ∀ c ∈ st.store, ∀ n ∈ c.defn.mentions, n ∉ st.store.map (·.alias) →
      ∀ a ∈ st.store.map (·.alias), (lookup m a).getD a ≠ n) :
    (step false st (.substitute m)).depEdges = st.depEdges ∧
    (step false st (.substitute m)).report =
      st.report.map (fun r => (r.1, r.2.1, r.2.2.map (fun n => (lookup m n).getD n))) :=
  substitute_iso h m (inj_of_fresh m hkeys hdist hproviso)

/-- the schema `X1`, `D1 := X1 ∪ X2` (`X2` is mentioned and unresolved) -/
def stCapture : St := run false [.insert ⟨1, "X1", .base, .empty⟩, .insert ⟨2, "D1", .term, .union ["X1", "X2"]⟩]

/-- **capture.** When the new name WAS mentioned as an unresolved name the conclusion of `rename_iso`
fails: renaming `X1` to `X2` (a free alias, accepted by the identity manager) turns
`D1 := X1 ∪ X2` (incorrect: `X2` unresolved) into `D1 := X2 ∪ X2` (verified, ℬ(X2)), and a new
dependency edge appears nowhere but the status and type of `D1` change. All other hypotheses of
`rename_iso` hold; only the proviso does not. -/
theorem rename_capture_counterexample :
    WF stCapture ∧ AliasesDistinct stCapture ∧ (∀ x ∈ stCapture.store, x.alias ≠ "X2") ∧
    ¬ (∀ x ∈ stCapture.store, "X2" ∈ x.defn.mentions → (findAliasL stCapture.store "X2").isSome = true) ∧
    (step false stCapture (.setAlias 1 "X2" true)).report ≠
      stCapture.report.map (fun r => (r.1, r.2.1, r.2.2.map (ren "X1" "X2"))) ∧
    stCapture.report = [(1, .verified, some "X1"), (2, .incorrect, none)] ∧
    (step false stCapture (.setAlias 1 "X2" true)).report = [(1, .verified, some "X2"), (2, .verified, some "X2")] := by
  refine ⟨WF.run (by decide), by decide, by decide, by decide, by decide, by decide, by decide⟩

/-- without substitution the mentions keep the old name and dangle: `X1`, `D1 := X1`, rename `X1` to
`X2` with `substitute = false` — `D1` becomes incorrect and loses its dependency (by design of the
operation; shown to delimit `rename_iso`, which is about `substitute = true`) -/
theorem rename_without_substitution_counterexample :
    let st := run false [.insert ⟨1, "X1", .base, .empty⟩, .insert ⟨2, "D1", .term, .union ["X1"]⟩]
    (step false st (.setAlias 1 "X2" false)).report = [(1, .verified, some "X2"), (2, .incorrect, none)] ∧
    (step false st (.setAlias 1 "X2" false)).depEdges = [] ∧ st.depEdges = [(1, 2)] := by
  decide

/-! non-vacuity of `rename_iso` / `substitute_iso`: a schema with a prefix pair of aliases
(`X1`, `X11`), a dependent term and an unresolved mention (`X9`) that is NOT the new name -/

def stIso : St := run false [.insert ⟨1, "X1", .base, .empty⟩, .insert ⟨2, "X11", .base, .empty⟩,
  .insert ⟨3, "D1", .term, .union ["X1", "X1"]⟩, .insert ⟨4, "D2", .term, .union ["X11", "X9"]⟩,
  .insert ⟨5, "D3", .term, .union ["D1", "X1"]⟩]

example : WF stIso ∧ AliasesDistinct stIso ∧ stIso.at 1 = some ⟨1, "X1", .base, .empty⟩ ∧
    (∀ x ∈ stIso.store, x.alias ≠ "X2") ∧
    (∀ x ∈ stIso.store, "X2" ∈ x.defn.mentions → (findAliasL stIso.store "X2").isSome = true) :=
  ⟨WF.run (by decide), by decide, by decide, by decide, by decide⟩

/-- the conclusion on that schema, computed: edges unchanged, `D1`/`D3` typed ℬ(X2) -/
example : (step false stIso (.setAlias 1 "X2" true)).report =
    [(1, .verified, some "X2"), (2, .verified, some "X11"), (3, .verified, some "X2"), (4, .incorrect, none),
     (5, .verified, some "X2")] ∧
    (step false stIso (.setAlias 1 "X2" true)).depEdges = stIso.depEdges := by decide

/-- the hypotheses of `substitute_iso_of_fresh` for the swap `X1 ↔ X11` on `stIso` (whose unresolved
mention `X9` is not a new alias) -/
example : (∀ p ∈ [("X1", "X11"), ("X11", "X1")], p.1 ∈ stIso.store.map (·.alias)) ∧
    ((stIso.store.map (·.alias)).map (fun n => (lookup [("X1", "X11"), ("X11", "X1")] n).getD n)).Nodup ∧
    (∀ c ∈ stIso.store, ∀ n ∈ c.defn.mentions, n ∉ stIso.store.map (·.alias) →
      ∀ a ∈ stIso.store.map (·.alias), (lookup [("X1", "X11"), ("X11", "X1")] a).getD a ≠ n) := by
  decide

/-- a swap `X1 ↔ X11` is injective on the names of `stIso` -/
example : ∀ a ∈ namesOf stIso.store, ∀ b ∈ namesOf stIso.store,
    (lookup [("X1", "X11"), ("X11", "X1")] a).getD a = (lookup [("X1", "X11"), ("X11", "X1")] b).getD b → a = b := by
  decide

end SchemaLevel

end CCVerif.C08
