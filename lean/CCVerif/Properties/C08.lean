import CCVerif.Model.Translate
import CCVerif.Model.TranslateSpec
import CCVerif.Lemmas.Translate
import CCVerif.Lemmas.Rename
import CCVerif.Lemmas.RelexRun
import CCVerif.Lemmas.WordSpec
import CCVerif.Properties.C17
import CCVerif.Lemmas.RenameGenFrag
import CCVerif.Lemmas.CheckerRenamePlain
import CCVerif.Lemmas.CheckerRenameNames
import CCVerif.Lemmas.RenameChecker
import CCVerif.Lemmas.ConceptSpec
import CCVerif.Lemmas.ExtractAfter
import CCVerif.Lemmas.ContentDeps
/-!
# C08 — renaming rewrites all and only the mentions of a name and preserves meaning

Models: `Model/Translate.lean` (`TranslateRS`, `SubstituteGlobals`, `ExtractUGlobals`,
`RSConcept::Translate`, the content part of `SetAliasFor` / `SubstitueAliases`), the shared MATH
lexer model (`Model/Lexer.lean` + the table regenerated from `MathLexerImpl.l`), `Model/Refs.lean`
(`TranslateRaw`, C17), `Model/Schema.lean` (analysis on the fragment of C07).
Specification: `Model/TranslateSpec.lean`.

Text level (all texts, all maps, all filters — no size bound):
* `translateRS_tokens` — the result of `TranslateRS` is the text with exactly the filter tokens
  replaced by their images, every other code point kept (inter-token bytes, other tokens, bytes
  around multi-byte symbols), simultaneously (each token is looked up once, in the original text);
  the count is the number of replaced tokens; `std::string::replace` never throws; the tokens and
  the gaps between them make up the original text (`tokens_cover_text`).
* `whole_identifier_only` — an identifier token is never followed by an identifier symbol (longest
  match of the regenerated rule table): `X1` inside `X11` is not a token, hence untouched;
  `identifier_not_inside` — nor preceded by one, a digit or the letter `B` excepted (`xX1`, `X1X1`).
* `locals_untouched`, `other_tokens_untouched`, `unmapped_untouched`, `swap_applies_once`.
* `relex_stable` — for filters that accept identifier tokens only (both filters of the code) and
  maps whose new names are identifier spellings: lexing the translated text gives the original
  token list with the replaced tokens re-spelled (no token fuses or splits), all texts;
  `relex_any_filter_counterexample`: false for a filter that accepts a non-identifier token.
* `words_agree_tokens`, `translateRS_words` — the word-level specification (`scan`, no lexer model)
  and the token-level one are the same function, on every text.
* `translateRaw_text` (from C17's `translateRaw_spec`) and `translateRaw_strict` (byte for byte: only
  the name bytes of a renamed entity reference change) for reference texts.

Schema level (fragment model of C07): `rename_iso`, `substitute_iso`,
`rename_capture_counterexample`, `rename_without_substitution_counterexample`.

Schema level, GENERIC machine (`Model/SchemaGen.lean`, any analysis that is `Lawful` — C07 — and
satisfies the equivariance law `Equivariance` of `Lemmas/RenameGen.lean`): `rename_iso_generic`,
`substitute_iso_generic` (same dependency edges, report = old report with the renaming applied),
`rename_capture_generic_counterexample`; the fragment is an instance and `rename_iso` a corollary
(`fragment_equivariant`, `rename_iso_via_generic`).

Schema level, the REAL type checker (`Model/Checker.lean`) as the analysis, definitions = parsed trees:
`checker_equivariant` (`check (ρ Γ) (ρ e) = ρ (check Γ e)` with the exact side conditions `TreeOK`),
`checker_analysis_equivariant`, `rename_iso_checker`, `substitute_iso_checker`, and with the renaming
constructed: `rename_iso_checker_plain` (transposition, constituents that are not called functions, no
assumption on spellings), `rename_iso_checker_names` (every constituent with a well-formed name,
called functions included: block-wise transposition of the mangled radicals),
`rename_capture_checker_counterexample`; on GRAMMAR-SHAPED definitions with constant traits nothing is left to
the caller: `rename_iso_checker_shaped`, `substitute_iso_checker_shaped` (renaming constructed, side conditions
discharged by `Lemmas/CheckerWfCarrier.lean`; also in the from-scratch form).

Word level, extraction side and constituent level: `extractUGlobals_words` (`globalsOf` = the tokens of
`ExtractUGlobals`), `unmentioned_text_unchanged`, `mentions_after_translate`, `old_name_not_mentioned`,
`renameAll_spec`, `setAlias_renameAll_spec` (model = `renameAll` = the pointwise reading `Renamed` for every
constituent), `unresolved_spec`, `freshFor_spec`, `content_dependencies_preserved`, `content_dependencies_preserved_map`,
`content_capture_counterexample`.
-/
namespace CCVerif.C08
open CCVerif.Syntax CCVerif.Generated CCVerif.Lexer CCVerif.Strings CCVerif.Translate CCVerif.Translate.Spec

/-! ## text level -/

/-- **translateRS_tokens.** For every well-formed text (scalar values `cps`), every token filter and
every translator: with `toks` the MATH token stream of the text, `TranslateRS` returns the text
woven from the same inter-token code points and the same tokens, with exactly the tokens accepted
by the filter replaced by their image under the translator (`weaveToks`: all look-ups are made on
the original tokens, so swaps and chains are applied once per token), and the number of tokens
whose text changed. In particular it never faults. -/
theorem translateRS_tokens (f : Tok → Bool) (tr : Translator) (cps : List Nat) (hv : ∀ c ∈ cps, scalar c)
    (toks : List RawTok) (hl : lexMath cps = some toks) :
    translateRS f tr (encode cps) = .ok (weaveToks f tr cps 0 toks) (changed f tr toks) := by
  unfold translateRS
  rw [decode_encode cps hv]
  simp only
  unfold translateCps
  rw [hl]
  simp only
  have := go_spec f tr cps toks 0 [] 0 (lexMath_laid hl)
  simp only [List.drop_zero, List.take_zero, List.nil_append, List.length_nil, Nat.zero_add] at this
  have e : ((0 : Nat) : Int) - (((encode ([] : List Nat)).length : Nat) : Int) = 0 := by simp [encode]
  rw [e] at this
  rw [this]

/-- the token stream always exists (the MATH table has a catch-all rule): `TranslateRS` on a
well-formed text is `ok`, for every filter and translator -/
theorem translateRS_no_fault (f : Tok → Bool) (tr : Translator) (cps : List Nat) (hv : ∀ c ∈ cps, scalar c) :
    ∃ s n, translateRS f tr (encode cps) = .ok s n := by
  obtain ⟨toks, hl⟩ := lexMath_total cps
  exact ⟨_, _, translateRS_tokens f tr cps hv toks hl⟩

/-- the decomposition used by `translateRS_tokens` loses nothing: the inter-token code points and
the token texts, woven without any replacement, are the text itself -/
theorem tokens_cover_text (f : Tok → Bool) (cps : List Nat) (toks : List RawTok) (hl : lexMath cps = some toks) :
    weaveToks f (fun _ => none) cps 0 toks = encode cps := by
  have := weave_id f cps toks 0 (lexMath_laid hl)
  simpa using this

/-- every token's text is found at its offset -/
theorem token_at_offset (cps : List Nat) (toks : List RawTok) (hl : lexMath cps = some toks) :
    ∀ t ∈ toks, (cps.drop t.lo).take t.text.length = t.text :=
  fun t ht => ((lexMath_laid hl).mem t ht).1

/-- **whole identifiers only.** In the token stream an identifier token (global, function,
predicate or local name) is never followed directly by an identifier symbol: the name was matched
up to the end of the identifier (longest match over the regenerated rule table). Hence a name
that is a proper prefix of a longer identifier (`X1` in `X11`) is not a token of the text and, by
`translateRS_tokens`, is not replaced. -/
theorem whole_identifier_only (cps : List Nat) (toks : List RawTok) (hl : lexMath cps = some toks)
    (t : RawTok) (ht : t ∈ toks) (hid : filterIdentifiers t.id = true) :
    ∀ c, cps[t.lo + t.text.length]? = some c → isAlnum .math c = false := by
  intro c hc
  obtain ⟨_, h2⟩ := (lexMath_laid hl).mem t ht
  rcases h2 with ⟨_, he⟩ | ⟨n, hb, htx⟩
  · rw [math_eof] at he
    have : t.id = .END := (Option.some.inj he).symm
    rw [this] at hid
    exact absurd hid (by decide)
  · have hm := munch (cps.drop t.lo) n t.id hid hb
    have hlen : t.text.length = min n (cps.drop t.lo).length := by rw [htx, List.length_take]
    by_cases hn : n ≤ (cps.drop t.lo).length
    · apply hm c
      rw [List.drop_drop, List.head?_drop]
      have : t.lo + t.text.length = t.lo + n := by omega
      rw [← this]; exact hc
    · have : cps.length ≤ t.lo + t.text.length := by
        simp only [List.length_drop] at hlen hn; omega
      rw [List.getElem?_eq_none this] at hc
      cases hc

/-- **… on the left as well.** An identifier token does not start in the middle of an identifier:
the symbol before it is not an identifier symbol — except a digit (a number written directly
before the name: `1X1` is the number `1` followed by `X1`) or the letter `B` (not a symbol of the
MATH alphabet: `BX1` is an unknown symbol followed by `X1`). So `X1` inside `xX1`, `X1X1`, `ξX1`,
`_X1`, `DX1`, `Pr1X1` is not a token and is not replaced. -/
theorem identifier_not_inside (cps : List Nat) (toks : List RawTok) (hl : lexMath cps = some toks)
    (t : RawTok) (ht : t ∈ toks) (hid : filterIdentifiers t.id = true) (hpos : 0 < t.lo) :
    ∀ c, cps[t.lo - 1]? = some c → isAlnum .math c = true → Lexer.isDigit c = true ∨ c = 66 := by
  intro c hc hca
  rcases alnum_cases c hca with h | h | h
  · exact Or.inl h
  · exact Or.inr h
  · exfalso
    -- the token itself starts with an identifier symbol
    obtain ⟨_, h2⟩ := (lexMath_laid hl).mem t ht
    have hbest : ∃ n, bestRule .math (cps.drop t.lo) mathRules none = some (n, .tok t.id) := by
      rcases h2 with ⟨_, he⟩ | ⟨n, hb, _⟩
      · rw [math_eof] at he
        have : t.id = .END := (Option.some.inj he).symm
        rw [this] at hid
        exact absurd hid (by decide)
      · exact ⟨n, hb⟩
    obtain ⟨n, hb⟩ := hbest
    obtain ⟨a, tl, hs, haa⟩ := id_token_head (cps.drop t.lo) n t.id hid hb
    have hhead : cps[t.lo]? = some a := by
      have := congrArg (fun l => l[0]?) hs
      simpa [List.getElem?_drop] using this
    -- the piece before it
    rcases lexMath_prev hl t ht with h0 | ⟨q, k, act, hq, hbq⟩
    · omega
    · refine no_idstart_before (cps.drop q) k act c a hbq ?_ ?_ h haa
      · rw [List.getElem?_drop]
        have : q + k = t.lo - 1 := by omega
        rw [this]; exact hc
      · rw [List.getElem?_drop]
        have : q + (k + 1) = t.lo := hq
        rw [this]; exact hhead

/-- under `FilterGlobals` a local name keeps its bytes -/
theorem locals_untouched (tr : Translator) (t : RawTok) (h : t.id = .ID_LOCAL) :
    newText filterGlobals tr t = encode t.text ∧ isChanged filterGlobals tr t = false := by
  simp [newText, isChanged, filterGlobals, h]

/-- a token the filter does not accept (operators, multi-byte symbols, keywords such as `Pr1`,
`R1`, `D`, `Z`, unknown symbols) keeps its bytes -/
theorem other_tokens_untouched (f : Tok → Bool) (tr : Translator) (t : RawTok) (h : f t.id = false) :
    newText f tr t = encode t.text ∧ isChanged f tr t = false := by
  simp [newText, isChanged, h]

/-- an identifier that the map does not mention (or maps to itself) keeps its bytes and is not counted -/
theorem unmapped_untouched (f : Tok → Bool) (tr : Translator) (t : RawTok)
    (h : tr (encode t.text) = none ∨ tr (encode t.text) = some (encode t.text)) :
    newText f tr t = encode t.text ∧ isChanged f tr t = false := by
  rcases h with h | h <;> simp [newText, isChanged, h]

/-- a token is replaced by the image of ITS OWN text under the map — never by the image of an
image: swaps exchange, chains move one step -/
theorem swap_applies_once (f : Tok → Bool) (m : Substitutes) (t : RawTok) (new : Bytes) (hf : f t.id = true)
    (h : createTranslator m (encode t.text) = some new) :
    newText f (createTranslator m) t = new := by
  simp [newText, hf, h]

/-- the keywords of the MATH syntax that look like names are not accepted by either filter -/
theorem keywords_not_names :
    ∀ k ∈ [Tok.BIGPR, .SMALLPR, .FILTER, .ID_RADICAL, .DECLARATIVE, .RECURSIVE, .IMPERATIVE, .LIT_INTSET,
            .CARD, .BOOL, .DEBOOL, .REDUCE, .INTERRUPT, .LIT_INTEGER],
      filterGlobals k = false ∧ filterIdentifiers k = false := by decide

/-- `SubstituteGlobals` is `TranslateRS` with `FilterGlobals` and the map as a translator -/
theorem substituteGlobals_tokens (m : Substitutes) (cps : List Nat) (hv : ∀ c ∈ cps, scalar c)
    (toks : List RawTok) (hl : lexMath cps = some toks) :
    substituteGlobals (encode cps) m =
      .ok (weaveToks filterGlobals (createTranslator m) cps 0 toks) (changed filterGlobals (createTranslator m) toks) :=
  translateRS_tokens _ _ cps hv toks hl

/-- `ExtractUGlobals` returns the texts of the global-name tokens -/
theorem extractUGlobals_tokens (cps : List Nat) (hv : ∀ c ∈ cps, scalar c) (toks : List RawTok) (hl : lexMath cps = some toks) :
    extractUGlobals (encode cps) = some ((toks.filter fun t => filterGlobals t.id).map fun t => encode t.text) := by
  unfold extractUGlobals extractBy
  rw [decode_encode cps hv]
  simp only
  rw [hl]
  rfl

/-- reference texts: `TextConcept::TranslateRaw` rewrites exactly the entity references whose name is
mapped to a different name — in these only the bytes of the name — and keeps every other byte
(C17, `translateRaw_spec`) -/
theorem translateRaw_text (tr : Translator) (cps : List Nat) (hv : ∀ c ∈ cps, validCp c) :
    Refs.translateRaw Refs.Variant.current tr (encode cps) = .ok (Refs.Spec.translateSpec tr cps) :=
  CCVerif.Refs.translateRaw_spec tr cps hv

/-- the strict specification of this package and C17's specification are the same function -/
private theorem translateRefsStrict_eq (tr : Translator) (cps : List Nat) :
    translateRefsStrict tr cps = Refs.Spec.translateSpec tr cps := by
  unfold translateRefsStrict Refs.Spec.translateSpec
  congr 2

/-- **translateRaw_strict.** The strict, byte-for-byte reading of "changes nothing else" for a
reference text: for every well-formed text and every translator, `TranslateRaw` returns the text
in which, of every found entity reference whose name is mapped to a different name, only the bytes
of the name are replaced by the new name (`translateRefsStrict`: gaps, other references, and the
tags / blanks / legacy fields of the renamed references byte for byte). -/
theorem translateRaw_strict (tr : Translator) (cps : List Nat) (hv : ∀ c ∈ cps, validCp c) :
    Refs.translateRaw Refs.Variant.current tr (encode cps) = .ok (translateRefsStrict tr cps) := by
  rw [translateRefsStrict_eq]
  exact CCVerif.Refs.translateRaw_spec tr cps hv

/-- **strict_item_bytes.** What `translateRefsStrict` weaves in for a found entity reference `n ↦ n'`,
`n' ≠ n`: the original bytes are `@{` ++ `n` ++ `|` ++ tail and the replacement is `@{` ++ `n'` ++ `|`
++ the same tail (so `take 2` / `drop (2 + |n|)` in `strictItem` never cut anything else). -/
theorem strict_item_bytes (tr : Translator) (cps : List Nat) (x : Nat × Nat × Refs.RefData)
    (hx : x ∈ Refs.Spec.refsOf cps) (n : Bytes) (f : Refs.Morph) (n' : Bytes)
    (hd : x.2.2 = .entity n f) (htr : tr n = some n') (hne : n' ≠ n) :
    ∃ tl, encode (Refs.Spec.slice cps x.1 x.2.1) = [Refs.cAt, Refs.cOpen] ++ n ++ Refs.cBar :: tl ∧
      (strictItem tr cps x).text = [Refs.cAt, Refs.cOpen] ++ n' ++ Refs.cBar :: tl :=
  CCVerif.Refs.translateRaw_name_only tr cps x hx n f n' hd htr hne

/-- `@{X1|nomn,sing}` -/
def refNomnSing : List Nat := [64, 123, 88, 49, 124, 110, 111, 109, 110, 44, 115, 105, 110, 103, 125]

/-- `translateRaw_strict` on an instance where the strict reading and the canonical spelling differ:
renaming `X1` to `X2` turns `@{X1|nomn,sing}` into `@{X2|nomn,sing}` (tags as typed). -/
theorem translateRaw_strict_example :
    Refs.translateRaw Refs.Variant.current (createTranslator [([88, 49], [88, 50])]) (encode refNomnSing) =
      .ok [64, 123, 88, 50, 124, 110, 111, 109, 110, 44, 115, 105, 110, 103, 125] ∧
    translateRefsStrict (createTranslator [([88, 49], [88, 50])]) refNomnSing =
      [64, 123, 88, 50, 124, 110, 111, 109, 110, 44, 115, 105, 110, 103, 125] := by
  decide +kernel

-- non-vacuity of `strict_item_bytes`
example : (0, 15, Refs.RefData.entity [88, 49] [25, 30]) ∈ Refs.Spec.refsOf refNomnSing ∧
    createTranslator [([88, 49], [88, 50])] [88, 49] = some [88, 50] := by decide +kernel

/-- **the behaviour before the repair (pinned definition, closed fact).** Until the commit "fix:
renaming an entity inside a text reference rewrites the name only" `TranslateRaw` replaced an
affected reference by its canonical spelling (`translateRefsRespelledPinned`): `X1 ↦ X2` turned
`@{X1|nomn,sing}` into `@{X2|sing,nomn}` — tags re-ordered — which is not the strict result. The
former finding C08-reference-respelled; it is repaired, `translateRaw_strict` holds now. -/
theorem translateRaw_respelled_pinned_observed :
    translateRefsRespelledPinned (createTranslator [([88, 49], [88, 50])]) refNomnSing =
      [64, 123, 88, 50, 124, 115, 105, 110, 103, 44, 110, 111, 109, 110, 125] ∧
    translateRefsRespelledPinned (createTranslator [([88, 49], [88, 50])]) refNomnSing ≠
      translateRefsStrict (createTranslator [([88, 49], [88, 50])]) refNomnSing := by
  decide +kernel

/-- what does hold byte for byte: a reference text none of whose entity references is renamed is
returned unchanged (corollary of C17's specification on an instance class: the empty map) -/
theorem translateRaw_identity_example :
    Refs.translateRaw Refs.Variant.current (createTranslator []) (encode refNomnSing) = .ok (encode refNomnSing) := by
  decide +kernel

/-! ### non-vacuity and the named situations of the property -/

def U : Nat := 0x222A   -- ∪
def txtPrefix : List Nat := [88, 49, U, 88, 49, 49, U, 88, 49, 49, 49]          -- X1∪X11∪X111
def txtSwap : List Nat := [0x212C, 40, 88, 49, 0xD7, 88, 50, 41, U, 88, 49]     -- ℬ(X1×X2)∪X1
def txtLocal : List Nat := [0x3BE, 0x2208, 88, 49, 32, 38, 32, 0x3BE, 88, 49, 32, 120, 88, 49]  -- ξ∈X1 & ξX1 xX1
def x1 : Bytes := [88, 49]
def x2 : Bytes := [88, 50]

/-- `X1 ↦ X2` on `X1∪X11∪X111`: one replacement, `X11` and `X111` untouched, the three-byte `∪`
before and after untouched -/
example : translateRS filterGlobals (createTranslator [(x1, x2)]) (encode txtPrefix) =
    .ok (encode [88, 50, U, 88, 49, 49, U, 88, 49, 49, 49]) 1 := by decide +kernel

/-- simultaneous swap `X1 ↔ X2` on `ℬ(X1×X2)∪X1` -/
example : translateRS filterGlobals (createTranslator [(x1, x2), (x2, x1)]) (encode txtSwap) =
    .ok (encode [0x212C, 40, 88, 50, 0xD7, 88, 49, 41, U, 88, 50]) 3 := by decide +kernel

/-- chain `X1 ↦ X2, X2 ↦ X3` with `X2` present: each token moves one step -/
example : translateRS filterGlobals (createTranslator [(x1, x2), (x2, [88, 51])]) (encode [88, 49, U, 88, 50]) =
    .ok (encode [88, 50, U, 88, 51]) 2 := by decide +kernel

/-- locals (`ξ`, `ξX1`, `xX1`) are untouched under `FilterGlobals` even when the map mentions them -/
example : translateRS filterGlobals (createTranslator [(x1, x2), ([0xCE, 0xBE], [0xCE, 0xB6])]) (encode txtLocal) =
    .ok (encode [0x3BE, 0x2208, 88, 50, 32, 38, 32, 0x3BE, 88, 49, 32, 120, 88, 49]) 1 := by decide +kernel

/-- … and are renamed under `FilterIdentifiers` (new name longer in bytes than the old one) -/
example : translateRS filterIdentifiers (createTranslator [([0xCE, 0xBE], [0xCE, 0xB6, 0xCE, 0xB6])]) (encode txtLocal) =
    .ok (encode [0x3B6, 0x3B6, 0x2208, 88, 49, 32, 38, 32, 0x3BE, 88, 49, 32, 120, 88, 49]) 1 := by decide +kernel

/-- the two exceptions of `identifier_not_inside`, and the non-exception: `1X1` is a number and the
name, `BX1` an unknown symbol and the name, `xX1` one local name (so `X1 ↦ X2` leaves `xX1` alone) -/
example : (lexMath [49, 88, 49]).map (·.map fun t => (t.id, t.lo, t.text)) =
      some [(.LIT_INTEGER, 0, [49]), (.ID_GLOBAL, 1, [88, 49])] ∧
    (lexMath [66, 88, 49]).map (·.map fun t => (t.id, t.lo, t.text)) =
      some [(.INTERRUPT, 0, [66]), (.ID_GLOBAL, 1, [88, 49])] ∧
    (lexMath [120, 88, 49]).map (·.map fun t => (t.id, t.lo, t.text)) = some [(.ID_LOCAL, 0, [120, 88, 49])] ∧
    translateRS filterGlobals (createTranslator [(x1, x2)]) (encode [120, 88, 49, 32, 88, 49, 88, 49, 32, 49, 88, 49]) =
      .ok (encode [120, 88, 49, 32, 88, 49, 88, 49, 32, 49, 88, 50]) 1 := by decide +kernel

/-- hypotheses of the theorems are met by these texts -/
example : (lexMath txtPrefix).isSome = true ∧ (∀ c ∈ txtPrefix, scalar c) := by decide +kernel

/-! ### lexing the result again -/

/-- **relex_stable.** For a filter that accepts identifier tokens only (`FilterGlobals`,
`FilterIdentifiers`, and every sub-filter of them): if every replaced token is replaced by a name
that lexes, on its own, as one identifier token (`relexExpected … = some exp`), then the translated
text is well formed, and lexing it gives the original token list with the replaced tokens
re-spelled — same number of tokens, same order, every unchanged token with its kind and text, every
replaced token as ONE identifier token whose text is the new name and whose kind is the identifier
class of the new name. No two tokens fuse and no token splits; so a second translation, or the
analysis that follows a renaming, sees exactly the renamed identifiers. All texts, all maps, no
size bound; the table-dependent facts (homogeneous literals, prefix lengths of the indexed and
numbered keywords, no identifier rule before an indexed-keyword rule, the identifier rules, the
END rule) are re-checked by `decide` against the regenerated table. -/
theorem relex_stable (f : Tok → Bool) (hf : ∀ k, f k = true → filterIdentifiers k = true) (tr : Translator)
    (cps : List Nat) (hv : ∀ c ∈ cps, scalar c) (toks : List RawTok) (hl : lexMath cps = some toks)
    (exp : List (Tok × Bytes)) (he : relexExpected f tr toks = some exp) :
    ∃ cps', decode (weaveToks f tr cps 0 toks) = some cps' ∧
      (lexMath cps').map (·.map fun t => (t.id, encode t.text)) = some exp :=
  ⟨_, relex_lexMath f hf tr cps hv toks hl exp he⟩

/-- `relex_stable` in the shape of the former statement (the decoded result given) -/
theorem relex_stable_decoded (f : Tok → Bool) (hf : ∀ k, f k = true → filterIdentifiers k = true) (tr : Translator)
    (cps : List Nat) (hv : ∀ c ∈ cps, scalar c) (toks : List RawTok) (hl : lexMath cps = some toks)
    (exp : List (Tok × Bytes)) (he : relexExpected f tr toks = some exp)
    (cps' : List Nat) (hd : decode (weaveToks f tr cps 0 toks) = some cps') :
    (lexMath cps').map (·.map fun t => (t.id, encode t.text)) = some exp := by
  obtain ⟨h1, h2⟩ := relex_lexMath f hf tr cps hv toks hl exp he
  rw [h1] at hd
  cases hd
  exact h2

/-- the two filters of `TFFactory` accept identifier tokens only -/
theorem filters_identifier_only :
    (∀ k, filterGlobals k = true → filterIdentifiers k = true) ∧ (∀ k, filterIdentifiers k = true → filterIdentifiers k = true) := by
  refine ⟨?_, fun _ h => h⟩
  intro k h
  unfold filterGlobals at h
  unfold filterIdentifiers
  rw [h]; rfl

/-- `relex_stable` for `SubstituteGlobals` / `RSConcept::Translate` (`FilterGlobals`) -/
theorem relex_stable_globals (m : Substitutes) (cps : List Nat) (hv : ∀ c ∈ cps, scalar c) (toks : List RawTok)
    (hl : lexMath cps = some toks) (exp : List (Tok × Bytes))
    (he : relexExpected filterGlobals (createTranslator m) toks = some exp) :
    ∃ cps', decode (weaveToks filterGlobals (createTranslator m) cps 0 toks) = some cps' ∧
      (lexMath cps').map (·.map fun t => (t.id, encode t.text)) = some exp :=
  relex_stable _ filters_identifier_only.1 _ cps hv toks hl exp he

/-- the hypothesis `relexExpected … = some exp` is met whenever the new names of the map are
identifier spellings: e.g. global names `X2`, `F7`; non-vacuity of `relex_stable` on a text with a
prefix pair, a three-byte operator and a change of identifier class -/
example : (∀ c ∈ txtLocal, scalar c) ∧ (lexMath txtLocal).isSome = true ∧
    ((lexMath txtLocal).bind (relexExpected filterGlobals (createTranslator [(x1, [70, 55])]))).isSome = true ∧
    idClass [88, 50] = some .ID_GLOBAL ∧ idClass [70, 55] = some .ID_FUNCTION ∧ idClass [0xCE, 0xBE, 49] = some .ID_LOCAL := by
  decide +kernel

/-- **the hypothesis on the filter is needed.** The former statement `relex_stable_statement`
quantified over ALL token filters; for a filter that accepts a token that is not an identifier the
claim is false in the model: with the filter `{PLUS}` and the map `+ ↦ X1`, the text `a+b`
(tokens `a`, `+`, `b`) becomes `aX1b`, ONE local name — the three tokens fuse. No such filter exists
in the code (`TFFactory` builds `FilterGlobals` and `FilterIdentifiers` only); recorded to delimit
`relex_stable`. -/
def relex_stable_statement : Prop :=
  ∀ (f : Tok → Bool) (tr : Translator) (cps : List Nat), (∀ c ∈ cps, scalar c) →
    ∀ toks, lexMath cps = some toks → ∀ exp, relexExpected f tr toks = some exp →
      ∀ cps', decode (weaveToks f tr cps 0 toks) = some cps' →
        (lexMath cps').map (·.map fun t => (t.id, encode t.text)) = some exp

theorem relex_any_filter_counterexample : ¬ relex_stable_statement := by
  intro h
  have := h (fun t => t = .PLUS) (createTranslator [([43], [88, 49])]) [97, 43, 98] (by decide)
    [⟨.ID_LOCAL, 0, 1, [97]⟩, ⟨.PLUS, 1, 2, [43]⟩, ⟨.ID_LOCAL, 2, 3, [98]⟩] (by decide +kernel)
    [(.ID_LOCAL, [97]), (.ID_GLOBAL, [88, 49]), (.ID_LOCAL, [98])] (by decide +kernel)
    [97, 88, 49, 98] (by decide +kernel)
  revert this
  decide +kernel

/-- `relex_stable` evaluated on instances (`relexHolds` is what the model driver prints as
`relex-mismatch` when false): prefix names, a swap, Greek and longer new names, a
change of identifier class (`X1 ↦ F7`) -/
theorem relex_stable_instances :
    ∀ p ∈ [(txtPrefix, [(x1, x2)]), (txtPrefix, [(x1, [88, 49, 49]), ([88, 49, 49], x1)]),
            (txtSwap, [(x1, x2), (x2, x1)]), (txtSwap, [(x1, [88, 0xCE, 0xBE, 0xCE, 0xB6])]),
            (txtLocal, [(x1, [70, 55])])],
      relexHolds filterGlobals (createTranslator p.2) p.1 = true := by
  decide +kernel

/-- when the new "name" is not an identifier, nothing is claimed — and indeed the token list changes:
`X1 ↦ X1 ∪X2`-style expression substitution splits one token into three -/
theorem relex_needs_identifier_names :
    relexExpected filterGlobals (createTranslator [(x1, encode [88, 49, 32, U, 88, 50])]) ((lexMath [88, 49]).getD []) = none := by
  decide +kernel

/-! ### the word-level specification -/

/-- **words_agree_tokens.** The word-level specification of `Model/TranslateSpec.lean` (`scan` /
`translateWords`: whole-identifier occurrences defined WITHOUT the lexer model and its rule table —
maximal runs of identifier symbols that do not start with a digit or `B` and are not reserved
words, global when they start with an upper-case letter) and the token-level one (`weaveToks`,
`changed` over the MATH token stream) are the same function: for every text, every translator,
`locals = false` against `FilterGlobals` and `locals = true` against `FilterIdentifiers`, same bytes
and same count. The table-dependent facts (which literals are reserved words, the prefixes of the
indexed and numbered keywords, keyword rules before the general identifier rules, the catch-all
rule last) are re-checked by `decide` against the regenerated table. -/
theorem words_agree_tokens (locals : Bool) (tr : Translator) (cps : List Nat) (toks : List RawTok)
    (hl : lexMath cps = some toks) :
    translateWords locals tr cps =
      (weaveToks (if locals then filterIdentifiers else filterGlobals) tr cps 0 toks,
       changed (if locals then filterIdentifiers else filterGlobals) tr toks) :=
  words_eq_tokens locals tr cps toks hl

/-- **translateRS_words.** `TranslateRS` with one of the two filters of the code computes the
word-level specification: on every well-formed text the result is the text with exactly the
whole-identifier occurrences of mapped names replaced (globals only / globals and locals), and the
count is their number — no lexer model in the specification. -/
theorem translateRS_words (locals : Bool) (tr : Translator) (cps : List Nat) (hv : ∀ c ∈ cps, scalar c) :
    translateRS (if locals then filterIdentifiers else filterGlobals) tr (encode cps) =
      .ok (translateWords locals tr cps).1 (translateWords locals tr cps).2 := by
  obtain ⟨toks, hl⟩ := lexMath_total cps
  rw [translateRS_tokens _ tr cps hv toks hl, words_agree_tokens locals tr cps toks hl]

/-- `SubstituteGlobals` computes the word-level specification for globals -/
theorem substituteGlobals_words (m : Substitutes) (cps : List Nat) (hv : ∀ c ∈ cps, scalar c) :
    substituteGlobals (encode cps) m =
      .ok (translateWords false (createTranslator m) cps).1 (translateWords false (createTranslator m) cps).2 :=
  translateRS_words false (createTranslator m) cps hv

/-- the word-level specification on a text with the named situations: `xX1` and `X1X1` untouched,
`1X1` and `BX1` renamed, the keyword `Pr1,2` passed verbatim (non-vacuity of `words_agree_tokens`) -/
theorem words_on_example :
    translateWords false (createTranslator [(x1, x2)]) [120, 88, 49, 32, 88, 49, 88, 49, 32, 49, 88, 49, 32, 80, 114, 49, 44, 50, 32, 66, 88, 49] =
      (encode [120, 88, 49, 32, 88, 49, 88, 49, 32, 49, 88, 50, 32, 80, 114, 49, 44, 50, 32, 66, 88, 50], 2) := by
  decide +kernel

/-! ## schema level (fragment model of C07: definitions are unions of global names) -/

section SchemaLevel
open CCVerif.Schema

/-- the one-entry renaming `old ↦ new` on names -/
def ren (old new : String) (n : String) : String := if n == old then new else n

private theorem ren_injOn {old new : String} {names : List String} (hnew : new ∉ names) :
    ∀ a ∈ names, ∀ b ∈ names, ren old new a = ren old new b → a = b := by
  intro a ha b hb he
  unfold ren at he
  by_cases h1 : a = old <;> by_cases h2 : b = old
  · rw [h1, h2]
  · simp [h1, h2] at he; exact absurd (he ▸ hb) hnew
  · simp [h1, h2] at he; exact absurd (he ▸ ha) hnew
  · simpa [h1, h2] using he

/-- **rename_iso.** `SetAliasFor(u, new, substitute = true)` on a well-formed schema with pairwise
distinct aliases (what `RSCore` maintains, C09), where the new name is free (what the identity
manager checks) and is not mentioned anywhere as an unresolved name (the proviso of the property):
the renamed schema has the same dependency edges and the same report — per constituent the same
status and the typification with the alias substituted. -/
theorem rename_iso {st : St} (h : WF st) (hd : AliasesDistinct st) {u : Nat} {c : Cst} (hat : st.at u = some c)
    (new : String) (hfree : ∀ x ∈ st.store, x.alias ≠ new)
    (hproviso : ∀ x ∈ st.store, new ∈ x.defn.mentions → (findAliasL st.store new).isSome = true) :
    (step false st (.setAlias u new true)).depEdges = st.depEdges ∧
    (step false st (.setAlias u new true)).report =
      st.report.map (fun r => (r.1, r.2.1, r.2.2.map (ren c.alias new))) := by
  obtain ⟨hc, hcu⟩ := mem_of_at hat
  have hne : ¬ c.alias = new := hfree c hc
  -- `new` does not occur at all
  have hnone : findAliasL st.store new = none := by
    unfold findAliasL
    rw [List.find?_eq_none.2 (fun x hx => by simpa using hfree x hx)]
    rfl
  have hnew : new ∉ namesOf st.store := by
    intro hm
    rcases List.mem_append.1 hm with hm | hm
    · obtain ⟨x, hx, e⟩ := List.mem_map.1 hm
      exact hfree x hx e
    · obtain ⟨x, hx, e⟩ := List.mem_flatMap.1 hm
      have := hproviso x hx e
      rw [hnone] at this
      cases this
  have hst := RSModel.setAlias_spec h true hat hne
  simp only [if_true] at hst
  rw [List.map_map] at hst
  have hal := RSModel.setAl_facts h.base.nodup hd hc hcu new
  refine iso_of_renaming h (h.setAlias u new true) (ren c.alias new) _ hst ?_ (ren_injOn hnew)
  intro c1 hc1
  obtain ⟨b1, b2, b3, b4, _⟩ := hal c1 hc1
  refine ⟨b1, b2, b4, ?_⟩
  show renameDef _ (RSModel.setAl u new c1).defn = _
  rw [b3]
  cases c1.defn with
  | union ns =>
    show Def.union _ = Def.union _
    congr 1
    apply List.map_congr_left
    intro n _
    unfold ren
    by_cases hn1 : n = c.alias <;> simp [hn1]
  | empty => rfl
  | bad => rfl

/-- **substitute_iso.** `SubstitueAliases(map)` (`ResetAliases`, and the simultaneous maps of merge /
equation) with a map that keeps distinct names distinct — aliases stay pairwise distinct and no
new alias coincides with a name that was mentioned without being an alias —: same dependency edges,
same report with the map applied to the types. Swaps and chains are such maps. -/
theorem substitute_iso {st : St} (h : WF st) (m : List (String × String))
    (hinj : ∀ a ∈ namesOf st.store, ∀ b ∈ namesOf st.store,
      (lookup m a).getD a = (lookup m b).getD b → a = b) :
    (step false st (.substitute m)).depEdges = st.depEdges ∧
    (step false st (.substitute m)).report =
      st.report.map (fun r => (r.1, r.2.1, r.2.2.map (fun n => (lookup m n).getD n))) := by
  have hb : Base ({ st with invalid := true, store := st.store.map (fun (x : Cst) =>
      { x with alias := (lookup m x.alias).getD x.alias }) } : St) :=
    h.base.of_eq (uids_map_pres (fun (x : Cst) =>
      { x with alias := (lookup m x.alias).getD x.alias }) (fun x => rfl) st.store) rfl
  have hst : (step false st (.substitute m)).store =
      (st.store.map (fun (x : Cst) => { x with alias := (lookup m x.alias).getD x.alias })).map
        (RSModel.renCst (lookup m)) := by
    unfold step
    simp only
    rw [RSModel.translateAll_store hb rfl]
  rw [List.map_map] at hst
  refine iso_of_renaming h (h.substitute m) (fun n => (lookup m n).getD n) _ hst ?_ hinj
  intro c1 _
  refine ⟨rfl, rfl, rfl, ?_⟩
  show renameDef _ c1.defn = _
  cases c1.defn <;> rfl

/-- `substitute_iso` with the proviso in the words of the property: the keys of the map are aliases
(`ResetAliases` builds it from the constituents), the new aliases are pairwise distinct (identity
manager), and no new alias was mentioned somewhere as an unresolved name -/
theorem substitute_iso_of_fresh {st : St} (h : WF st) (m : List (String × String))
    (hkeys : ∀ p ∈ m, p.1 ∈ st.store.map (·.alias))
    (hdist : ((st.store.map (·.alias)).map (fun n => (lookup m n).getD n)).Nodup)
    (hproviso : ∀ c ∈ st.store, ∀ n ∈ c.defn.mentions, n ∉ st.store.map (·.alias) →
      ∀ a ∈ st.store.map (·.alias), (lookup m a).getD a ≠ n) :
    (step false st (.substitute m)).depEdges = st.depEdges ∧
    (step false st (.substitute m)).report =
      st.report.map (fun r => (r.1, r.2.1, r.2.2.map (fun n => (lookup m n).getD n))) :=
  substitute_iso h m (inj_of_fresh m hkeys hdist hproviso)

/-- the schema `X1`, `D1 := X1 ∪ X2` (`X2` is mentioned and unresolved) -/
def stCapture : St := run false [.insert ⟨1, "X1", .base, .empty⟩, .insert ⟨2, "D1", .term, .union ["X1", "X2"]⟩]

/-- **capture.** When the new name WAS mentioned as an unresolved name the conclusion of `rename_iso`
fails: renaming `X1` to `X2` (a free alias, accepted by the identity manager) turns
`D1 := X1 ∪ X2` (incorrect: `X2` unresolved) into `D1 := X2 ∪ X2` (verified, ℬ(X2)), and a new
dependency edge appears nowhere but the status and type of `D1` change. All other hypotheses of
`rename_iso` hold; only the proviso does not. -/
theorem rename_capture_counterexample :
    WF stCapture ∧ AliasesDistinct stCapture ∧ (∀ x ∈ stCapture.store, x.alias ≠ "X2") ∧
    ¬ (∀ x ∈ stCapture.store, "X2" ∈ x.defn.mentions → (findAliasL stCapture.store "X2").isSome = true) ∧
    (step false stCapture (.setAlias 1 "X2" true)).report ≠
      stCapture.report.map (fun r => (r.1, r.2.1, r.2.2.map (ren "X1" "X2"))) ∧
    stCapture.report = [(1, .verified, some "X1"), (2, .incorrect, none)] ∧
    (step false stCapture (.setAlias 1 "X2" true)).report = [(1, .verified, some "X2"), (2, .verified, some "X2")] := by
  refine ⟨WF.run (by decide), by decide, by decide, by decide, by decide, by decide, by decide⟩

/-- without substitution the mentions keep the old name and dangle: `X1`, `D1 := X1`, rename `X1` to
`X2` with `substitute = false` — `D1` becomes incorrect and loses its dependency (by design of the
operation; shown to delimit `rename_iso`, which is about `substitute = true`) -/
theorem rename_without_substitution_counterexample :
    let st := run false [.insert ⟨1, "X1", .base, .empty⟩, .insert ⟨2, "D1", .term, .union ["X1"]⟩]
    (step false st (.setAlias 1 "X2" false)).report = [(1, .verified, some "X2"), (2, .incorrect, none)] ∧
    (step false st (.setAlias 1 "X2" false)).depEdges = [] ∧ st.depEdges = [(1, 2)] := by
  decide

/-! non-vacuity of `rename_iso` / `substitute_iso`: a schema with a prefix pair of aliases
(`X1`, `X11`), a dependent term and an unresolved mention (`X9`) that is NOT the new name -/

def stIso : St := run false [.insert ⟨1, "X1", .base, .empty⟩, .insert ⟨2, "X11", .base, .empty⟩,
  .insert ⟨3, "D1", .term, .union ["X1", "X1"]⟩, .insert ⟨4, "D2", .term, .union ["X11", "X9"]⟩,
  .insert ⟨5, "D3", .term, .union ["D1", "X1"]⟩]

example : WF stIso ∧ AliasesDistinct stIso ∧ stIso.at 1 = some ⟨1, "X1", .base, .empty⟩ ∧
    (∀ x ∈ stIso.store, x.alias ≠ "X2") ∧
    (∀ x ∈ stIso.store, "X2" ∈ x.defn.mentions → (findAliasL stIso.store "X2").isSome = true) :=
  ⟨WF.run (by decide), by decide, by decide, by decide, by decide⟩

/-- the conclusion on that schema, computed: edges unchanged, `D1`/`D3` typed ℬ(X2) -/
example : (step false stIso (.setAlias 1 "X2" true)).report =
    [(1, .verified, some "X2"), (2, .verified, some "X11"), (3, .verified, some "X2"), (4, .incorrect, none),
     (5, .verified, some "X2")] ∧
    (step false stIso (.setAlias 1 "X2" true)).depEdges = stIso.depEdges := by decide

/-- the hypotheses of `substitute_iso_of_fresh` for the swap `X1 ↔ X11` on `stIso` (whose unresolved
mention `X9` is not a new alias) -/
example : (∀ p ∈ [("X1", "X11"), ("X11", "X1")], p.1 ∈ stIso.store.map (·.alias)) ∧
    ((stIso.store.map (·.alias)).map (fun n => (lookup [("X1", "X11"), ("X11", "X1")] n).getD n)).Nodup ∧
    (∀ c ∈ stIso.store, ∀ n ∈ c.defn.mentions, n ∉ stIso.store.map (·.alias) →
      ∀ a ∈ stIso.store.map (·.alias), (lookup [("X1", "X11"), ("X11", "X1")] a).getD a ≠ n) := by
  decide

/-- a swap `X1 ↔ X11` is injective on the names of `stIso` -/
example : ∀ a ∈ namesOf stIso.store, ∀ b ∈ namesOf stIso.store,
    (lookup [("X1", "X11"), ("X11", "X1")] a).getD a = (lookup [("X1", "X11"), ("X11", "X1")] b).getD b → a = b := by
  decide

end SchemaLevel

/-! ## schema level, GENERIC machine (`Model/SchemaGen.lean`): any lawful, equivariant analysis -/

section GenericLevel
open CCVerif.SchemaGen
open CCVerif.Schema (lookup)

/-- **rename_iso_generic.** The isomorphism clause for the generic schema machine: for EVERY
per-constituent analysis `A` that satisfies the frame laws of C07 (`Lawful A`) and the equivariance
law (`Q : Equivariance A`: the analysis commutes with a consistent renaming of skeleton, context and
constituent; status kept), every well-formed state with pairwise distinct aliases, a new name that
is free and — the proviso of the property — not mentioned anywhere as an unresolved name, and every
admissible renaming `r` that maps the old alias to the new one and moves no other name (the new one
excepted, which does not occur): after `SetAliasFor(u, new, substitute = true)` the schema is the old
one up to `r` — the same dependency edges and the report with `r` applied to every entry. -/
theorem rename_iso_generic {D I : Type} [DecidableEq D] {A : Analysis D I} (hA : Lawful A) (Q : Equivariance A)
    {st : St D I} (h : WF A st) (hd : AliasesDistinct st) {u : Nat} {c : Cst D} (hat : st.at u = some c)
    (new : String) (hfree : ∀ x ∈ st.store, x.alias ≠ new)
    (hproviso : ∀ x ∈ st.store, new ∈ A.mentions x.defn → (findAliasL st.store new).isSome = true)
    (r : Q.Ren) (hg : ∀ x ∈ st.store, Q.Good r x) (hold : Q.app r c.alias = new)
    (hfix : ∀ n, n ≠ c.alias → n ≠ new → Q.app r n = n) :
    (step A st (.setAlias u new true)).depEdges A = st.depEdges A ∧
    (step A st (.setAlias u new true)).report A = (st.report A).map (fun p => (p.1, Q.renI r p.2)) := by
  obtain ⟨hc, _⟩ := mem_of_at hat
  have hnone : findAliasL st.store new = none := by
    unfold findAliasL
    rw [List.find?_eq_none.2 (fun x hx => by simpa using hfree x hx)]
    rfl
  have hnew : new ∉ namesOfG A st.store := by
    intro hm
    rcases List.mem_append.1 hm with hm | hm
    · obtain ⟨x, hx, e⟩ := List.mem_map.1 hm
      exact hfree x hx e
    · obtain ⟨x, hx, e⟩ := List.mem_flatMap.1 hm
      have := hproviso x hx e
      rw [hnone] at this
      cases this
  exact setAlias_iso_gen hA Q h hd hat new (hfree c hc) r hg hold
    (fun n hn hne => hfix n hne (fun e => hnew (e ▸ hn)))

/-- **substitute_iso_generic.** `SubstitueAliases(map)` (`ResetAliases`, the simultaneous maps of merge
and equation — swaps and chains included) on the generic machine: if the map acts on the names that
occur in the schema (aliases and mentions) like an admissible renaming `r` — in particular
injectively, which is the proviso — the schema afterwards is the old one up to `r`. -/
theorem substitute_iso_generic {D I : Type} [DecidableEq D] {A : Analysis D I} (hA : Lawful A)
    (Q : Equivariance A) {st : St D I} (h : WF A st) (m : List (String × String)) (r : Q.Ren)
    (hg : ∀ x ∈ st.store, Q.Good r x)
    (hagree : ∀ n ∈ namesOfG A st.store, Q.app r n = (lookup m n).getD n) :
    (step A st (.substitute m)).depEdges A = st.depEdges A ∧
    (step A st (.substitute m)).report A = (st.report A).map (fun p => (p.1, Q.renI r p.2)) :=
  substitute_iso_gen hA Q h m r hg hagree

/-- the renaming hypothesis of `substitute_iso_generic` contains the proviso: a map that acts like an
admissible renaming is injective on the names of the schema -/
theorem substitute_agree_injective {D I : Type} {A : Analysis D I} (Q : Equivariance A) {s : List (Cst D)}
    (m : List (String × String)) (r : Q.Ren)
    (hagree : ∀ n ∈ namesOfG A s, Q.app r n = (lookup m n).getD n) :
    ∀ a ∈ namesOfG A s, ∀ b ∈ namesOfG A s, (lookup m a).getD a = (lookup m b).getD b → a = b := by
  intro a ha b hb he
  rw [← hagree a ha, ← hagree b hb] at he
  exact Q.app_injective r he

/-- the definition fragment of C07 is a lawful, equivariant analysis; every bijection of names is an
admissible renaming and there is no side condition -/
theorem fragment_equivariant : Lawful fragA ∧ (∀ (b : Bij) (c : Cst Schema.Def), fragEquivariance.Good b c) :=
  ⟨fragA_lawful, fun _ _ => trivial⟩

/-- **rename_iso_via_generic.** The fragment theorem `rename_iso` as a COROLLARY of the generic one:
a well-formed state of the fragment machine is a well-formed state of the generic machine over
`fragA` (`WF_toG`), the transposition `old ↔ new` is an admissible renaming, and on the types of the
report — aliases of the schema, hence different from the free name `new` — it acts like `old ↦ new`. -/
theorem rename_iso_via_generic {st : Schema.St} (h : Schema.WF st) (hd : Schema.AliasesDistinct st) {u : Nat}
    {c : Schema.Cst} (hat : st.at u = some c) (new : String) (hfree : ∀ x ∈ st.store, x.alias ≠ new)
    (hproviso : ∀ x ∈ st.store, new ∈ x.defn.mentions → (Schema.findAliasL st.store new).isSome = true) :
    (Schema.step false st (.setAlias u new true)).depEdges = st.depEdges ∧
    (Schema.step false st (.setAlias u new true)).report =
      st.report.map (fun r => (r.1, r.2.1, r.2.2.map (ren c.alias new))) := by
  have hwf := WF_toG h
  have hd' : AliasesDistinct (toG st) := by
    unfold AliasesDistinct
    rw [toG_store, List.map_map]
    exact hd
  have hat' : (toG st).at u = some (cG c) := by rw [at_toG, hat]; rfl
  have hfa : ∀ a, findAliasL (toG st).store a = Schema.findAliasL st.store a := fun a => findAlias_toG st a
  have hgen := rename_iso_generic fragA_lawful fragEquivariance hwf hd' hat' new
    (by
      intro x hx
      obtain ⟨y, hy, rfl⟩ := List.mem_map.1 hx
      exact hfree y hy)
    (by
      intro x hx hm
      obtain ⟨y, hy, rfl⟩ := List.mem_map.1 hx
      rw [hfa]
      exact hproviso y hy hm)
    (Bij.swap c.alias new) (fun _ _ => trivial) (swapName_left _ _)
    (fun n h1 h2 => swapName_other h1 h2)
  have hstep : toG (Schema.step false st (.setAlias u new true)) = step fragA (toG st) (.setAlias u new true) :=
    toG_step st (.setAlias u new true)
  refine ⟨by rw [depEdges_toG, hstep, hgen.1, ← depEdges_toG], ?_⟩
  rw [report_toG, hstep, hgen.2, report_toG, List.map_map, List.map_map]
  apply List.map_congr_left
  intro p hp
  simp only [Function.comp]
  show (p.1, (renInfo (swapName c.alias new) p.2).status, (renInfo (swapName c.alias new) p.2).ty) = _
  simp only [renInfo]
  congr 2
  -- a type of the report is an alias of the schema
  unfold St.report at hp
  obtain ⟨x, hx, rfl⟩ := List.mem_map.1 hp
  simp only
  cases hty : ((toG st).infoFor fragA x.uid).ty with
  | none => rfl
  | some t =>
    simp only [Option.map_some]
    congr 1
    rw [infoFor_toG] at hty
    obtain ⟨y, hy, hya⟩ := typed_alias (h.sync.sound _ _ hty)
    have htn : t ≠ new := fun e => hfree y hy (hya.trans e)
    unfold swapName ren
    by_cases h1 : t = c.alias
    · simp [h1]
    · simp [h1, htn]

/-- **capture (generic machine).** On the generic machine over the fragment analysis the conclusion of
`rename_iso_generic` fails for EVERY admissible renaming when the proviso fails: renaming `X1` to the
free alias `X2` turns `D1 := X1 ∪ X2` (incorrect: `X2` unresolved) into `D1 := X2 ∪ X2` (verified), a
change of status that no renaming of the entries produces. All other hypotheses hold. -/
theorem rename_capture_generic_counterexample :
    let st := run fragA [.insert ⟨1, "X1", .base, .empty⟩, .insert ⟨2, "D1", .term, .union ["X1", "X2"]⟩]
    WF fragA st ∧ AliasesDistinct st ∧ (∀ x ∈ st.store, x.alias ≠ "X2") ∧
    ¬ (∀ x ∈ st.store, "X2" ∈ fragA.mentions x.defn → (findAliasL st.store "X2").isSome = true) ∧
    ∀ b : Bij, (step fragA st (.setAlias 1 "X2" true)).report fragA ≠
      (st.report fragA).map (fun p => (p.1, fragEquivariance.renI b p.2)) := by
  refine ⟨WF.run fragA_lawful ⟨trivial, trivial, trivial⟩, by decide, by decide, by decide, ?_⟩
  intro b
  have h1 : (step fragA (run fragA [.insert ⟨1, "X1", .base, .empty⟩, .insert ⟨2, "D1", .term, .union ["X1", "X2"]⟩])
      (.setAlias 1 "X2" true)).report fragA =
      [(1, { status := .verified, ty := some "X2" }), (2, { status := .verified, ty := some "X2" })] := by decide
  have h2 : (run fragA [.insert ⟨1, "X1", .base, .empty⟩, .insert ⟨2, "D1", .term, .union ["X1", "X2"]⟩]).report fragA =
      [(1, { status := .verified, ty := some "X1" }), (2, { status := .incorrect, ty := none })] := by decide
  rw [h1, h2]
  intro he
  have := congrArg (fun l => l.map (fun p => p.2.status)) he
  simp [fragEquivariance, renInfo] at this

/-- non-vacuity of `rename_iso_generic` / `substitute_iso_generic` on the generic machine over the
fragment: prefix aliases `X1` / `X11`, dependent terms, an unresolved mention `X9` that is not the new
name; the transposition `X1 ↔ X2` is the renaming; for `substitute` the swap `X1 ↔ X11` -/
example :
    let st := run fragA [.insert ⟨1, "X1", .base, .empty⟩, .insert ⟨2, "X11", .base, .empty⟩,
      .insert ⟨3, "D1", .term, .union ["X1", "X1"]⟩, .insert ⟨4, "D2", .term, .union ["X11", "X9"]⟩,
      .insert ⟨5, "D3", .term, .union ["D1", "X1"]⟩]
    WF fragA st ∧ AliasesDistinct st ∧ st.at 1 = some ⟨1, "X1", .base, .empty⟩ ∧
    (∀ x ∈ st.store, x.alias ≠ "X2") ∧
    (∀ x ∈ st.store, "X2" ∈ fragA.mentions x.defn → (findAliasL st.store "X2").isSome = true) ∧
    fragEquivariance.app (Bij.swap "X1" "X2") "X1" = "X2" ∧
    (∀ n ∈ namesOfG fragA st.store, fragEquivariance.app (Bij.swap "X1" "X11") n =
      (lookup [("X1", "X11"), ("X11", "X1")] n).getD n) :=
  ⟨WF.run fragA_lawful ⟨trivial, trivial, trivial, trivial, trivial, trivial⟩, by decide, by decide, by decide,
    by decide, by decide, by decide⟩

end GenericLevel

/-! ## schema level, the REAL type checker (`Model/Checker.lean`) as the analysis -/

section CheckerLevel
open CCVerif.SchemaGen CCVerif.Checker CCVerif.Types

/-- **checker_equivariant.** The type checker commutes with a renaming of the global names: for a
bijection `ρ` of the global identifiers and an admissible renaming `τ` of the base names of
typifications (a bijection that fixes `Z` and `R0` and maps radicals to radicals and non-radicals to
non-radicals), `CheckType` of the tree with its ID_GLOBAL / ID_FUNCTION / ID_PREDICATE tokens renamed
by `ρ` (what `TranslateRS` rewrites), in the context with its keys renamed by `ρ`, its types by `τ`
and its trait keys by `τ`, gives the result of the original check with the typification and the
types of the declared arguments renamed by `τ` — same outcome (accepted / rejected / the same stuck
site), the same error log, the same ghost flag. The side conditions `TreeOK r e` are those the
proof forces, per node: a radical token's text is fixed by `τ`; the name `fn` of a called function is
renamed as a token and `τ (R ++ fn) = τ R ++ ρ fn` for radicals `R` (`MangleRadicals`); `τ` and `ρ`
agree on the declared name of `X1:==`; the variable of an argument declaration keeps its name. No
condition on the FIRST LETTER of a name is needed at this level: the checker classifies names by
token kind, never by spelling, except for `Z`, `R0` and `IsRadical` on base names. (The kind letter
matters one level below: the renamed tree keeps the token kinds, and the lexer gives the re-spelled
name the identifier class of its new spelling — `relex_stable` —, so the text-level renaming yields
this tree only if it keeps the lexical class, which the identity manager enforces.) -/
theorem checker_equivariant (r : CRen) (Γ : Ctx) {e : Ast} (h : TreeOK r e) :
    check (renCtx r Γ) (renAst r.ρ.f e) = renCheckRes r (check Γ e) :=
  check_ren Γ h

/-- the checker instance with the real `rename` is a lawful analysis of the generic machine (C07
applies to it) and satisfies the equivariance law of `rename_iso_generic`; the renamed definition IS
`TranslateRS` with any partial map that acts like `ρ` on the mentioned names -/
theorem checker_analysis_equivariant (traitsOf : Skel → TraitEnv) :
    Lawful (checkerR traitsOf) ∧
    ∀ (q : CRenFor traitsOf) (f : String → Option String) (c : Cst CDef), GoodC q.r c →
      (∀ n ∈ mentionsOf c.defn, (f n).getD n = q.r.ρ.f n) →
      (checkerR traitsOf).rename f c.defn = c.defn.map (renAst q.r.ρ.f) :=
  ⟨checkerR_lawful traitsOf, fun q f c hg h => (checkerEquivariance traitsOf).rename_eq q f c hg h⟩

/-- **rename_iso_checker.** The isomorphism clause of C08 for ARBITRARY parsed definitions, at the
level of the checker model: the generic schema machine with the type checker as the analysis
(`checkerR traitsOf`; a definition is a parsed tree), a well-formed state with distinct aliases, a new
name that is free and not mentioned as an unresolved name, and a renaming `r` of the checker that
maps the old alias to the new one, moves no other name, under which `TraitsFor` is equivariant and
which satisfies the side conditions `GoodC` for every constituent (`τ alias = ρ alias`; `TreeOK` for
the body; every global name of the body at a visited position — true of the grammar's trees). After
`SetAliasFor(u, new, substitute = true)`: the same dependency edges, and per constituent the same
status, the typification and the declared argument types with the names renamed. -/
theorem rename_iso_checker (traitsOf : Skel → TraitEnv) {st : St CDef CInfo} (h : WF (checkerR traitsOf) st)
    (hd : AliasesDistinct st) {u : Nat} {c : Cst CDef} (hat : st.at u = some c) (new : String)
    (hfree : ∀ x ∈ st.store, x.alias ≠ new)
    (hproviso : ∀ x ∈ st.store, new ∈ mentionsOf x.defn → (findAliasL st.store new).isSome = true)
    (r : CRen) (htr : ∀ sk, traitsOf (renSk r.ρ.f sk) = renTE r.τ (traitsOf sk))
    (hg : ∀ x ∈ st.store, GoodC r x) (hold : r.ρ.f c.alias = new)
    (hfix : ∀ n, n ≠ c.alias → n ≠ new → r.ρ.f n = n) :
    (step (checkerR traitsOf) st (.setAlias u new true)).depEdges (checkerR traitsOf) =
      st.depEdges (checkerR traitsOf) ∧
    (step (checkerR traitsOf) st (.setAlias u new true)).report (checkerR traitsOf) =
      (st.report (checkerR traitsOf)).map (fun p => (p.1, renCInfo r p.2)) :=
  rename_iso_generic (checkerR_lawful traitsOf) (checkerEquivariance traitsOf) h hd hat new hfree hproviso
    ⟨r, htr⟩ hg hold hfix

/-- **substitute_iso_checker.** The same for `SubstitueAliases(map)` with a map that acts like the
renaming `r` on the names of the schema. -/
theorem substitute_iso_checker (traitsOf : Skel → TraitEnv) {st : St CDef CInfo} (h : WF (checkerR traitsOf) st)
    (m : List (String × String)) (r : CRen) (htr : ∀ sk, traitsOf (renSk r.ρ.f sk) = renTE r.τ (traitsOf sk))
    (hg : ∀ x ∈ st.store, GoodC r x)
    (hagree : ∀ n ∈ namesOfG (checkerR traitsOf) st.store, r.ρ.f n = (Schema.lookup m n).getD n) :
    (step (checkerR traitsOf) st (.substitute m)).depEdges (checkerR traitsOf) =
      st.depEdges (checkerR traitsOf) ∧
    (step (checkerR traitsOf) st (.substitute m)).report (checkerR traitsOf) =
      (st.report (checkerR traitsOf)).map (fun p => (p.1, renCInfo r p.2)) :=
  substitute_iso_generic (checkerR_lawful traitsOf) (checkerEquivariance traitsOf) h m ⟨r, htr⟩ hg hagree

/-- **rename_iso_checker_plain.** `rename_iso_checker` with a renaming constructed: the transposition
`old ↔ new` on tokens and base names, for two names that are neither `Z`, `R0` nor radicals, in a
schema whose base sets are nominal (`baseTraits`). The side condition is the decidable `goodPlain`:
in every definition, `old` / `new` are not the text of a radical token, not the name of a CALLED
function, not the variable of an argument declaration, and every global name stands at a visited
position. No assumption on the spelling of the other names. (Renaming a function that is called needs a
`τ` that also rewrites the mangled radicals: `rename_iso_checker_names`.) -/
theorem rename_iso_checker_plain {st : St CDef CInfo} (h : WF (checkerR baseTraits) st)
    (hd : AliasesDistinct st) {u : Nat} {c : Cst CDef} (hat : st.at u = some c) (new : String)
    (hp : PlainNames c.alias new) (hfree : ∀ x ∈ st.store, x.alias ≠ new)
    (hproviso : ∀ x ∈ st.store, new ∈ mentionsOf x.defn → (findAliasL st.store new).isSome = true)
    (hg : ∀ x ∈ st.store, goodPlain c.alias new x = true) :
    (step (checkerR baseTraits) st (.setAlias u new true)).depEdges (checkerR baseTraits) =
      st.depEdges (checkerR baseTraits) ∧
    (step (checkerR baseTraits) st (.setAlias u new true)).report (checkerR baseTraits) =
      (st.report (checkerR baseTraits)).map (fun p => (p.1, renCInfo (CRen.plain c.alias new hp) p.2)) :=
  rename_iso_checker baseTraits h hd hat new hfree hproviso (CRen.plain c.alias new hp)
    (plainRen c.alias new hp).traits (fun x hx => goodC_plain hp (hg x hx)) (swapName_left _ _)
    (fun _ h1 h2 => swapName_other h1 h2)

/-- `X1`, `X11` base sets; `D1:==X1\X1`; `D2:==X1\D9` (`D9` denotes nothing); `D3:==D2\X1` (mentions the
failed `D2`); `D4:==X11\X11` -/
def histRen : List (Op CDef) :=
  [.insert ⟨1, "X1", .base, none⟩, .insert ⟨2, "X11", .base, none⟩,
   .insert ⟨3, "D1", .term, some (setMinus (glob "X1") (glob "X1"))⟩,
   .insert ⟨4, "D2", .term, some (setMinus (glob "X1") (glob "D9"))⟩,
   .insert ⟨5, "D3", .term, some (setMinus (glob "D2") (glob "X1"))⟩,
   .insert ⟨6, "D4", .term, some (setMinus (glob "X11") (glob "X11"))⟩]

private theorem plainX1X2 : PlainNames "X1" "X2" := ⟨by decide, by decide, by decide, by decide, by decide, by decide⟩
private theorem plainX1X11 : PlainNames "X1" "X11" := ⟨by decide, by decide, by decide, by decide, by decide, by decide⟩

/-- the hypotheses of `rename_iso_checker_plain` hold for renaming `X1` to `X2` in `histRen` -/
example :
    let st := run (checkerR baseTraits) histRen
    WF (checkerR baseTraits) st ∧ AliasesDistinct st ∧ st.at 1 = some ⟨1, "X1", .base, none⟩ ∧
    (∀ x ∈ st.store, x.alias ≠ "X2") ∧
    (∀ x ∈ st.store, "X2" ∈ mentionsOf x.defn → (findAliasL st.store "X2").isSome = true) ∧
    (∀ x ∈ st.store, goodPlain "X1" "X2" x = true) :=
  ⟨WF.run (checkerR_lawful _) ⟨trivial, trivial, trivial, trivial, trivial, trivial, trivial⟩,
    by decide +kernel, by decide +kernel, by decide +kernel, by decide +kernel, by decide +kernel⟩

/-- … and the conclusion, computed: `D1` is typed ℬ(X2) after the renaming, `D2` / `D3` stay incorrect,
`X11` / `D4` are untouched (whole identifiers only), the edges are the old ones -/
example :
    let A := checkerR baseTraits
    let st := run A histRen
    (step A st (.setAlias 1 "X2" true)).report A =
      [(1, { status := .verified, ty := some (.ty (.coll (.base "X2"))) }),
       (2, { status := .verified, ty := some (.ty (.coll (.base "X11"))) }),
       (3, { status := .verified, ty := some (.ty (.coll (.base "X2"))) }),
       (4, { status := .incorrect }), (5, { status := .incorrect }),
       (6, { status := .verified, ty := some (.ty (.coll (.base "X11"))) })] ∧
    (step A st (.setAlias 1 "X2" true)).depEdges A = st.depEdges A ∧
    st.depEdges A = [(1, 3), (1, 4), (1, 5), (4, 5), (2, 6)] := by
  decide +kernel

/-- the hypotheses of `substitute_iso_checker` for the simultaneous swap `X1 ↔ X11` on `histRen` -/
example :
    let st := run (checkerR baseTraits) histRen
    (∀ x ∈ st.store, GoodC (CRen.plain "X1" "X11" plainX1X11) x) ∧
    (∀ n ∈ namesOfG (checkerR baseTraits) st.store,
      (CRen.plain "X1" "X11" plainX1X11).ρ.f n = (Schema.lookup [("X1", "X11"), ("X11", "X1")] n).getD n) :=
  ⟨fun x hx => goodC_plain plainX1X11
      ((by decide +kernel : ∀ x ∈ (run (checkerR baseTraits) histRen).store, goodPlain "X1" "X11" x = true) x hx),
    by decide +kernel⟩

/-- non-vacuity of `checker_equivariant`: the side conditions hold for the transposition `X1 ↔ X2` on
`D1:==X1\X9` -/
example : TreeOK (CRen.plain "X1" "X2" plainX1X2) (defTree "D1" (setMinus (glob "X1") (glob "X9"))) :=
  treeOK_plain plainX1X2 _ (by decide +kernel)

/-- **rename_iso_checker_names.** `rename_iso_checker` with a renaming constructed for EVERY constituent,
called functions and predicates included: `old` and `new` are good names (`GoodName`: an upper-case
letter followed by at least one symbol, none of them upper-case — what the identity manager issues —,
not `R0` and not a radical); `ρ` is the transposition on the global tokens, `τ` the transposition
applied to every block of a base name, so that the mangled radical `R1F1` of a call of `F1` becomes
`R1F2` (`CRen.names`). Schema with nominal base sets (`baseTraitsN`). The side condition is the
decidable `goodNames`: every alias is a single block; in every definition the text of a radical token
is a single block other than the two names, the name of every called function is a global token and a
well-formed name, a non-global declared name / the variable of an argument declaration is not one
of the two names, and every global name stands at a visited position. -/
theorem rename_iso_checker_names {st : St CDef CInfo} (h : WF (checkerR baseTraitsN) st)
    (hd : AliasesDistinct st) {u : Nat} {c : Cst CDef} (hat : st.at u = some c) (new : String)
    (ho : GoodName c.alias) (hn : GoodName new) (hfree : ∀ x ∈ st.store, x.alias ≠ new)
    (hproviso : ∀ x ∈ st.store, new ∈ mentionsOf x.defn → (findAliasL st.store new).isSome = true)
    (hg : ∀ x ∈ st.store, goodNames (swapName c.alias new) x = true) :
    (step (checkerR baseTraitsN) st (.setAlias u new true)).depEdges (checkerR baseTraitsN) =
      st.depEdges (checkerR baseTraitsN) ∧
    (step (checkerR baseTraitsN) st (.setAlias u new true)).report (checkerR baseTraitsN) =
      (st.report (checkerR baseTraitsN)).map (fun p => (p.1, renCInfo (CRen.names ho hn) p.2)) :=
  rename_iso_checker baseTraitsN h hd hat new hfree hproviso (CRen.names ho hn)
    (namesRen (NameBij.swap ho hn)).traits (fun x hx => goodC_names (NameBij.swap ho hn) (hg x hx))
    (swapName_left _ _) (fun _ h1 h2 => swapName_other h1 h2)

/-- **substitute_iso_checker_names.** `SubstitueAliases(map)` with the real checker as the analysis and
the renaming CONSTRUCTED, for every simultaneous map (swaps, chains, the renumbering of `ResetAliases`,
the maps of merge and equation): every name that occurs in the schema (aliases and mentions) and its
image are good names, and the map is injective on them — the proviso. The renaming is the product of
transpositions `NameBij.ofMap` (it acts like the map on the names of the schema), block-wise on the
base names; side condition `goodNames` as in `rename_iso_checker_names`. -/
theorem substitute_iso_checker_names {st : St CDef CInfo} (h : WF (checkerR baseTraitsN) st)
    (m : List (String × String))
    (hgood : ∀ n ∈ namesOfG (checkerR baseTraitsN) st.store,
      GoodName n ∧ GoodName ((Schema.lookup m n).getD n))
    (hinj : ∀ a ∈ namesOfG (checkerR baseTraitsN) st.store, ∀ b ∈ namesOfG (checkerR baseTraitsN) st.store,
      (Schema.lookup m a).getD a = (Schema.lookup m b).getD b → a = b)
    (hg : ∀ x ∈ st.store, goodNames (NameBij.ofMap (namesOfG (checkerR baseTraitsN) st.store)
      (fun n => (Schema.lookup m n).getD n)).b.f x = true) :
    (step (checkerR baseTraitsN) st (.substitute m)).depEdges (checkerR baseTraitsN) =
      st.depEdges (checkerR baseTraitsN) ∧
    (step (checkerR baseTraitsN) st (.substitute m)).report (checkerR baseTraitsN) =
      (st.report (checkerR baseTraitsN)).map (fun p => (p.1, renCInfo (CRen.ofNameBij
        (NameBij.ofMap (namesOfG (checkerR baseTraitsN) st.store) (fun n => (Schema.lookup m n).getD n))) p.2)) :=
  substitute_iso_checker baseTraitsN h m _ (namesRen _).traits (fun x hx => goodC_names _ (hg x hx))
    (NameBij.ofMap_spec _ _ hgood hinj)

/-- `X1` base set; the templated function `F1:==[a∈ℬ(R1)] a\a`; `D1:==F1[X1]`; `D2:==F1[F1[X1]]` -/
def histFun : List (Op CDef) :=
  let loc (s : String) : Ast := .node .ID_LOCAL (.text s) 0 0 []
  let call (f : String) (x : Ast) : Ast := .node .NT_FUNC_CALL .none 0 0 [.node .ID_FUNCTION (.text f) 0 0 [], x]
  [.insert ⟨1, "X1", .base, none⟩,
   .insert ⟨2, "F1", .term, some (.node .NT_FUNC_DEFINITION .none 0 0
      [.node .NT_ARGUMENTS .none 0 0 [.node .NT_ARG_DECL .none 0 0
        [loc "a", .node .BOOLEAN .none 0 0 [.node .ID_RADICAL (.text "R1") 0 0 []]]],
       setMinus (loc "a") (loc "a")])⟩,
   .insert ⟨3, "D1", .term, some (call "F1" (glob "X1"))⟩,
   .insert ⟨4, "D2", .term, some (call "F1" (call "F1" (glob "X1")))⟩]

/-- the hypotheses of `rename_iso_checker_names` hold for renaming the CALLED function `F1` to `F2` -/
example :
    let st := run (checkerR baseTraitsN) histFun
    WF (checkerR baseTraitsN) st ∧ AliasesDistinct st ∧
    (st.at 2).map (·.alias) = some "F1" ∧ GoodName "F1" ∧ GoodName "F2" ∧
    (∀ x ∈ st.store, x.alias ≠ "F2") ∧
    (∀ x ∈ st.store, "F2" ∈ mentionsOf x.defn → (findAliasL st.store "F2").isSome = true) ∧
    (∀ x ∈ st.store, goodNames (swapName "F1" "F2") x = true) :=
  ⟨WF.run (checkerR_lawful _) ⟨trivial, trivial, trivial, trivial, trivial⟩,
    by decide +kernel, by decide +kernel, by decide +kernel, by decide +kernel, by decide +kernel,
    by decide +kernel, by decide +kernel⟩

/-- … and the conclusion, computed: the calls `F2[X1]`, `F2[F2[X1]]` are still typed ℬ(X1), the function
keeps its templated typification ℬ(R1), the edges are the old ones -/
example :
    let A := checkerR baseTraitsN
    let st := run A histFun
    (step A st (.setAlias 2 "F2" true)).report A = st.report A ∧
    (st.report A).map (fun p => (p.1, p.2.status, p.2.ty)) =
      [(1, .verified, some (.ty (.coll (.base "X1")))), (2, .verified, some (.ty (.coll (.base "R1")))),
       (3, .verified, some (.ty (.coll (.base "X1")))), (4, .verified, some (.ty (.coll (.base "X1"))))] ∧
    (step A st (.setAlias 2 "F2" true)).depEdges A = st.depEdges A ∧
    st.depEdges A = [(1, 3), (2, 3), (1, 4), (2, 4)] := by
  decide +kernel

/-- the hypotheses of `substitute_iso_checker_names` hold for the simultaneous map `X1 ↦ X2`, `F1 ↦ D1`,
`D1 ↦ F1` (a chain through a free name and a swap that exchanges a function with a term) on `histFun` -/
example :
    let st := run (checkerR baseTraitsN) histFun
    let m := [("X1", "X2"), ("F1", "D1"), ("D1", "F1")]
    (∀ n ∈ namesOfG (checkerR baseTraitsN) st.store, GoodName n ∧ GoodName ((Schema.lookup m n).getD n)) ∧
    (∀ a ∈ namesOfG (checkerR baseTraitsN) st.store, ∀ b ∈ namesOfG (checkerR baseTraitsN) st.store,
      (Schema.lookup m a).getD a = (Schema.lookup m b).getD b → a = b) ∧
    (∀ x ∈ st.store, goodNames (NameBij.ofMap (namesOfG (checkerR baseTraitsN) st.store)
      (fun n => (Schema.lookup m n).getD n)).b.f x = true) := by
  refine ⟨by decide +kernel, by decide +kernel, by decide +kernel⟩

/-- **capture (checker).** With the real checker as the analysis the conclusion fails for EVERY renaming
when the proviso fails: `X1` base set, `D1:==X1\X2` (incorrect: `X2` denotes nothing); renaming `X1` to
the free alias `X2` gives `D1:==X2\X2`, verified with type ℬ(X2) — the status changes, which no
renaming of the entries does. -/
theorem rename_capture_checker_counterexample :
    let A := checkerR baseTraits
    let st := run A [.insert ⟨1, "X1", .base, none⟩,
      .insert ⟨2, "D1", .term, some (setMinus (glob "X1") (glob "X2"))⟩]
    WF A st ∧ AliasesDistinct st ∧ (∀ x ∈ st.store, x.alias ≠ "X2") ∧
    ¬ (∀ x ∈ st.store, "X2" ∈ mentionsOf x.defn → (findAliasL st.store "X2").isSome = true) ∧
    ∀ r : CRen, (step A st (.setAlias 1 "X2" true)).report A ≠
      (st.report A).map (fun p => (p.1, renCInfo r p.2)) := by
  refine ⟨WF.run (checkerR_lawful _) ⟨trivial, trivial, trivial⟩, by decide +kernel, by decide +kernel,
    by decide +kernel, ?_⟩
  intro r
  have h1 : (step (checkerR baseTraits) (run (checkerR baseTraits) [.insert ⟨1, "X1", .base, none⟩,
      .insert ⟨2, "D1", .term, some (setMinus (glob "X1") (glob "X2"))⟩]) (.setAlias 1 "X2" true)).report
        (checkerR baseTraits) =
      [(1, { status := .verified, ty := some (.ty (.coll (.base "X2"))) }),
       (2, { status := .verified, ty := some (.ty (.coll (.base "X2"))) })] := by decide +kernel
  have h2 : (run (checkerR baseTraits) [.insert ⟨1, "X1", .base, none⟩,
      .insert ⟨2, "D1", .term, some (setMinus (glob "X1") (glob "X2"))⟩]).report (checkerR baseTraits) =
      [(1, { status := .verified, ty := some (.ty (.coll (.base "X1"))) }), (2, { status := .incorrect })] := by
    decide +kernel
  rw [h1, h2]
  intro he
  have := congrArg (fun l => l.map (fun p => p.2.status)) he
  simp [renCInfo] at this

end CheckerLevel

/-! ## schema level, the real type checker on GRAMMAR-SHAPED definitions: nothing left to the caller -/

section CheckerShaped
open CCVerif.SchemaGen CCVerif.Checker CCVerif.Types

/-- **rename_iso_checker_shaped.** The isomorphism clause of C08 for the type-checker model (`checkerR`, constant
traits as in C13 `extract_status_type_preserved_checker`) on the carrier of grammar-shaped definitions
(`defShaped`: empty, or a phrase of the grammar `Wf.wf .ND` — what C06 `parse_gives_WfParsed` gives below the
declaration — whose radical tokens, called names and declared variables carry the kind of text the lexer gives
them). Hypotheses: the C07 invariant, pairwise distinct aliases, the new name free and — the proviso of the
property — not mentioned as an unresolved name; every name of the schema and the new name are good names
(`GoodName`: what the identity manager issues); the trait keys are single blocks that are neither names of the
schema nor the new name. NO renaming and NO side condition per constituent is left as a hypothesis: there is a
bijection of names `n` that maps the old alias to the new one and fixes every other name of the schema such
that after `SetAliasFor(u, new, substitute = true)` the dependency edges are the old ones and every entry is
the old entry renamed by `n` (same status; typification and declared argument types with `n` applied to every
block of every base name) — for the state of the machine and, equivalently (C07), for the analysis FROM SCRATCH
of the renamed schema against the analysis from scratch of the old one. -/
theorem rename_iso_checker_shaped (traits : TraitEnv) {st : St CDef CInfo}
    (h : WF (checkerR fun _ => traits) st) (hd : AliasesDistinct st) {u : Nat} {c : Cst CDef}
    (hat : st.at u = some c) (new : String)
    (hfree : ∀ x ∈ st.store, x.alias ≠ new)
    (hproviso : ∀ x ∈ st.store, new ∈ mentionsOf x.defn → (findAliasL st.store new).isSome = true)
    (hshape : ∀ x ∈ st.store, defShaped x.defn = true)
    (hgood : ∀ n ∈ namesOfG (checkerR fun _ => traits) st.store, GoodName n) (hnew : GoodName new)
    (htr : ∀ p ∈ traits, Blocks.isBlock p.1.toList = true ∧
      p.1 ∉ namesOfG (checkerR fun _ => traits) st.store ∧ p.1 ≠ new) :
    ∃ n : NameBij, n.b.f c.alias = new ∧
      (∀ x ∈ namesOfG (checkerR fun _ => traits) st.store, x ≠ c.alias → n.b.f x = x) ∧
      (step (checkerR fun _ => traits) st (.setAlias u new true)).depEdges (checkerR fun _ => traits) =
        st.depEdges (checkerR fun _ => traits) ∧
      (step (checkerR fun _ => traits) st (.setAlias u new true)).report (checkerR fun _ => traits) =
        (st.report (checkerR fun _ => traits)).map (fun p => (p.1, renCInfo (CRen.ofNameBij n) p.2)) ∧
      ((step (checkerR fun _ => traits) st (.setAlias u new true)).scratch (checkerR fun _ => traits)).depEdges
          (checkerR fun _ => traits) = (st.scratch (checkerR fun _ => traits)).depEdges (checkerR fun _ => traits) ∧
      ((step (checkerR fun _ => traits) st (.setAlias u new true)).scratch (checkerR fun _ => traits)).report
          (checkerR fun _ => traits) =
        ((st.scratch (checkerR fun _ => traits)).report (checkerR fun _ => traits)).map
          (fun p => (p.1, renCInfo (CRen.ofNameBij n) p.2)) := by
  obtain ⟨n, h1, h2, h3⟩ :=
    setAlias_iso_checker_shaped traits h hd hat new hfree hproviso hshape hgood hnew htr
  obtain ⟨s1, s2⟩ := scratch_form (checkerR_lawful _) h (h.setAlias (checkerR_lawful _) u new true)
    (renCInfo (CRen.ofNameBij n)) h3
  exact ⟨n, h1, h2, h3.1, h3.2, s1, s2⟩

/-- **substitute_iso_checker_shaped.** The same for `SubstitueAliases(map)` (`ResetAliases`, the simultaneous maps
of merge and equation — swaps and chains included): the map is injective on the names of the schema (the
proviso) and maps them — good names — to good names, the trait keys stay apart. The bijection `n` acts like the
map on every name of the schema. -/
theorem substitute_iso_checker_shaped (traits : TraitEnv) {st : St CDef CInfo}
    (h : WF (checkerR fun _ => traits) st) (m : List (String × String))
    (hshape : ∀ x ∈ st.store, defShaped x.defn = true)
    (hgood : ∀ n ∈ namesOfG (checkerR fun _ => traits) st.store,
      GoodName n ∧ GoodName ((Schema.lookup m n).getD n))
    (htr : ∀ p ∈ traits, Blocks.isBlock p.1.toList = true ∧
      p.1 ∉ namesOfG (checkerR fun _ => traits) st.store ∧
      p.1 ∉ (namesOfG (checkerR fun _ => traits) st.store).map (fun n => (Schema.lookup m n).getD n))
    (hinj : ∀ a ∈ namesOfG (checkerR fun _ => traits) st.store,
      ∀ b ∈ namesOfG (checkerR fun _ => traits) st.store,
        (Schema.lookup m a).getD a = (Schema.lookup m b).getD b → a = b) :
    ∃ n : NameBij, (∀ x ∈ namesOfG (checkerR fun _ => traits) st.store, n.b.f x = (Schema.lookup m x).getD x) ∧
      (step (checkerR fun _ => traits) st (.substitute m)).depEdges (checkerR fun _ => traits) =
        st.depEdges (checkerR fun _ => traits) ∧
      (step (checkerR fun _ => traits) st (.substitute m)).report (checkerR fun _ => traits) =
        (st.report (checkerR fun _ => traits)).map (fun p => (p.1, renCInfo (CRen.ofNameBij n) p.2)) ∧
      ((step (checkerR fun _ => traits) st (.substitute m)).scratch (checkerR fun _ => traits)).depEdges
          (checkerR fun _ => traits) = (st.scratch (checkerR fun _ => traits)).depEdges (checkerR fun _ => traits) ∧
      ((step (checkerR fun _ => traits) st (.substitute m)).scratch (checkerR fun _ => traits)).report
          (checkerR fun _ => traits) =
        ((st.scratch (checkerR fun _ => traits)).report (checkerR fun _ => traits)).map
          (fun p => (p.1, renCInfo (CRen.ofNameBij n) p.2)) := by
  obtain ⟨n, h1, h3⟩ := SchemaGen.substitute_iso_checker_shaped traits h m hshape hgood htr hinj
  obtain ⟨s1, s2⟩ := scratch_form (checkerR_lawful _) h (h.substitute (checkerR_lawful _) m)
    (renCInfo (CRen.ofNameBij n)) h3
  exact ⟨n, h1, h3.1, h3.2, s1, s2⟩

/-- `X1` base set; `S1:==ℬ(X1×X1)`; `D1:==Pr1(S1)` (rejected in this instance: `S1` is a term here, typed
ℬℬ(X1×X1), not a structure); `D2:==Pr1(red(S1))`; `D3:==X1\X9` (`X9` denotes nothing) -/
def histShaped : List (Op CDef) :=
  let bool1 (a : Ast) : Ast := .node .BOOLEAN .none 0 0 [a]
  let decart (a b : Ast) : Ast := .node .DECART .none 0 0 [a, b]
  let bigPr1 (a : Ast) : Ast := .node .BIGPR (.tuple [1]) 0 0 [a]
  let red (a : Ast) : Ast := .node .REDUCE .none 0 0 [a]
  [.insert ⟨1, "X1", .base, none⟩,
   .insert ⟨2, "S1", .term, some (bool1 (decart (glob "X1") (glob "X1")))⟩,
   .insert ⟨3, "D1", .term, some (bigPr1 (glob "S1"))⟩,
   .insert ⟨4, "D2", .term, some (bigPr1 (red (glob "S1")))⟩,
   .insert ⟨5, "D3", .term, some (setMinus (glob "X1") (glob "X9"))⟩]

/-- the hypotheses of `rename_iso_checker_shaped` hold for renaming `X1` to `X5` in `histShaped` -/
example :
    let A := checkerR fun _ => []
    let st := run A histShaped
    WF A st ∧ AliasesDistinct st ∧ st.at 1 = some ⟨1, "X1", .base, none⟩ ∧
    (∀ x ∈ st.store, x.alias ≠ "X5") ∧
    (∀ x ∈ st.store, "X5" ∈ mentionsOf x.defn → (findAliasL st.store "X5").isSome = true) ∧
    (∀ x ∈ st.store, defShaped x.defn = true) ∧
    (∀ n ∈ namesOfG A st.store, GoodName n) ∧ GoodName "X5" :=
  ⟨WF.run (checkerR_lawful _) (by decide +kernel), by decide +kernel, by decide +kernel, by decide +kernel,
    by decide +kernel, by decide +kernel, by decide +kernel, by decide +kernel⟩

/-- … and the conclusion, computed: `X1`, `S1`, `D2` are typed ℬ(X5), ℬℬ(X5×X5), ℬ(X5) after the renaming,
`D1` / `D3` stay incorrect, the edges are the old ones -/
example :
    let A := checkerR fun _ => []
    let st := run A histShaped
    (st.report A).map (fun p => (p.1, p.2.status, p.2.ty)) =
      [(1, .verified, some (.ty (.coll (.base "X1")))),
       (2, .verified, some (.ty (.coll (.coll (.tuple [.base "X1", .base "X1"]))))),
       (3, .incorrect, none), (4, .verified, some (.ty (.coll (.base "X1")))), (5, .incorrect, none)] ∧
    ((step A st (.setAlias 1 "X5" true)).report A).map (fun p => (p.1, p.2.status, p.2.ty)) =
      [(1, .verified, some (.ty (.coll (.base "X5")))),
       (2, .verified, some (.ty (.coll (.coll (.tuple [.base "X5", .base "X5"]))))),
       (3, .incorrect, none), (4, .verified, some (.ty (.coll (.base "X5")))), (5, .incorrect, none)] ∧
    (step A st (.setAlias 1 "X5" true)).depEdges A = st.depEdges A ∧
    st.depEdges A = [(1, 2), (2, 3), (2, 4), (1, 5)] := by
  decide +kernel

/-- the hypotheses of `substitute_iso_checker_shaped` for the simultaneous map `X1 ↦ X5`, `S1 ↦ D2`, `D2 ↦ S1`
(a fresh name and a swap) on `histShaped` -/
example :
    let A := checkerR fun _ => []
    let st := run A histShaped
    let m := [("X1", "X5"), ("S1", "D2"), ("D2", "S1")]
    (∀ n ∈ namesOfG A st.store, GoodName n ∧ GoodName ((Schema.lookup m n).getD n)) ∧
    (∀ a ∈ namesOfG A st.store, ∀ b ∈ namesOfG A st.store,
      (Schema.lookup m a).getD a = (Schema.lookup m b).getD b → a = b) := by
  refine ⟨by decide +kernel, by decide +kernel⟩

end CheckerShaped

/-! ## the word-level specification, name-extraction side and constituent level -/

section WordLevelContent

/-- **extractUGlobals_words.** The model of `ExtractUGlobals` (MATH lexer, `FilterGlobals`) returns exactly the
whole upper-case identifier words of the word-level specification (`globalsOf`: `scan`, no lexer model, no rule
table), in text order and with repetitions, for every well-formed text. Same table-dependent facts as
`words_agree_tokens`. -/
theorem extractUGlobals_words (cps : List Nat) (hv : ∀ c ∈ cps, scalar c) :
    extractUGlobals (encode cps) = some (globalsOf cps) := by
  rw [extractUGlobals_bytes, decode_encode cps hv]
  rfl

/-- … at token level: the global words are the texts of the tokens `FilterGlobals` accepts -/
theorem globals_agree_tokens (cps : List Nat) (toks : List RawTok) (hl : lexMath cps = some toks) :
    globalsOf cps = (toks.filter fun t => filterGlobals t.id).map fun t => encode t.text :=
  globals_eq_tokens cps toks hl

/-- … on byte strings: both sides are undefined exactly on ill-formed UTF-8 (what the driver prints as
`skip` / `n/a` for `c08 ext`) -/
theorem extractUGlobals_words_bytes (s : Bytes) : extractUGlobals s = (decode s).map globalsOf :=
  extractUGlobals_bytes s

/-- the extraction on the text of `words_on_example` (`xX1 X1X1 1X1 Pr1,2 BX1`): `xX1` is a local name, `X1X1`
ONE global word, `1X1` and `BX1` contain the global word `X1`, `Pr1,2` is a keyword -/
theorem globals_on_example :
    globalsOf [120, 88, 49, 32, 88, 49, 88, 49, 32, 49, 88, 49, 32, 80, 114, 49, 44, 50, 32, 66, 88, 49] =
      [[88, 49, 88, 49], [88, 49], [88, 49]] ∧
    extractUGlobals (encode [120, 88, 49, 32, 88, 49, 88, 49, 32, 49, 88, 49, 32, 80, 114, 49, 44, 50, 32, 66, 88, 49]) =
      some [[88, 49, 88, 49], [88, 49], [88, 49]] := by
  decide +kernel

/-- **unmentioned_text_unchanged.** "… and changes nothing else", for a whole text: when no whole upper-case
identifier word of a well-formed text (`globalsOf`, word level) is sent to a different name by the translator,
`TranslateRS` with `FilterGlobals` returns the text byte for byte and the count 0 — e.g. `X11∪X111` under
`X1 ↦ X2`. -/
theorem unmentioned_text_unchanged (tr : Translator) (cps : List Nat) (hv : ∀ c ∈ cps, scalar c)
    (h : ∀ b ∈ globalsOf cps, tr b = none ∨ tr b = some b) :
    translateRS filterGlobals tr (encode cps) = .ok (encode cps) 0 := by
  have := translateRS_words false tr cps hv
  simp only [Bool.false_eq_true, if_false] at this
  rw [this, translateWords_untouched tr cps h]

/-- non-vacuity: `X11∪X111` does not mention `X1` as a whole word -/
example : ∀ b ∈ globalsOf [88, 49, 49, U, 88, 49, 49, 49],
    createTranslator [(x1, x2)] b = none ∨ createTranslator [(x1, x2)] b = some b := by decide +kernel

/-- **mentions_after_translate.** The names a text mentions AFTER the translation are the names it mentioned before
with the map applied, in the same order: for every well-formed text and every translator whose new names — as
far as they replace a global word of the text — lex on their own as one global-name token (what the identity
manager issues), `ExtractUGlobals` of the result of `TranslateRS(FilterGlobals)` is the word-level extraction of
the original text mapped. The text-level counterpart of the law `mentions_ren` of the schema level; from
`relex_stable` and `extractUGlobals_words`. -/
theorem mentions_after_translate (tr : Translator) (cps : List Nat) (hv : ∀ c ∈ cps, scalar c)
    (hg : ∀ b ∈ globalsOf cps, ∀ n, tr b = some n → n ≠ b → ∃ k, idClass n = some k ∧ filterGlobals k = true) :
    ∃ s k, translateRS filterGlobals tr (encode cps) = .ok s k ∧
      extractUGlobals s = some ((globalsOf cps).map fun b => (tr b).getD b) := by
  have h1 := translateRS_words false tr cps hv
  simp only [Bool.false_eq_true, if_false] at h1
  obtain ⟨cps', hd, he⟩ := globals_after_translate tr cps hv hg
  refine ⟨_, _, h1, ?_⟩
  rw [extractUGlobals_bytes, hd, Option.map_some, he]

/-- **old_name_not_mentioned.** "replaces EACH whole-identifier occurrence": after `old ↦ new` (`new ≠ old` a
global identifier spelling) no global-name token of the result is spelled `old`, and for every third name
nothing changes: it is mentioned afterwards iff it was mentioned before. -/
theorem old_name_not_mentioned (old new : Bytes) (hne : new ≠ old)
    (hcls : ∃ k, idClass new = some k ∧ filterGlobals k = true) (cps : List Nat) (hv : ∀ c ∈ cps, scalar c) :
    ∃ s k names, translateRS filterGlobals (createTranslator [(old, new)]) (encode cps) = .ok s k ∧
      extractUGlobals s = some names ∧ old ∉ names ∧
      ∀ n, n ≠ old → n ≠ new → (n ∈ names ↔ n ∈ globalsOf cps) := by
  have htr : ∀ b, createTranslator [(old, new)] b = if old = b then some new else none := by
    intro b
    unfold createTranslator
    by_cases e : old = b <;> simp [e]
  obtain ⟨s, k, h1, h2⟩ := mentions_after_translate (createTranslator [(old, new)]) cps hv (by
    intro b _ n hn _
    rw [htr] at hn
    split at hn
    · cases hn; exact hcls
    · cases hn)
  refine ⟨s, k, _, h1, h2, ?_, ?_⟩
  · intro hm
    obtain ⟨b, _, e⟩ := List.mem_map.1 hm
    rw [htr] at e
    split at e
    · exact hne e
    · next hb => exact hb e.symm
  · intro n h1' h2'
    constructor
    · intro hm
      obtain ⟨b, hb, e⟩ := List.mem_map.1 hm
      rw [htr] at e
      split at e
      · exact absurd e.symm h2'
      · simp only [Option.getD_none] at e; exact e ▸ hb
    · intro hm
      refine List.mem_map.2 ⟨n, hm, ?_⟩
      rw [htr, if_neg (fun e => h1' e.symm)]
      rfl

/-- non-vacuity of `mentions_after_translate` / `old_name_not_mentioned`: `X2` is a global identifier spelling;
on `ℬ(X1×X2)∪X1` the swap `X1 ↔ X2` turns the mentions `X1 X2 X1` into `X2 X1 X2` -/
example : (∃ k, idClass x2 = some k ∧ filterGlobals k = true) ∧ (∀ c ∈ txtSwap, scalar c) ∧
    globalsOf txtSwap = [x1, x2, x1] ∧
    ((translateRS filterGlobals (createTranslator [(x1, x2), (x2, x1)]) (encode txtSwap)).text?.bind extractUGlobals) =
      some [x2, x1, x2] := by
  refine ⟨⟨.ID_GLOBAL, by decide +kernel, by decide⟩, by decide, by decide +kernel, by decide +kernel⟩

/-- **renameAll_spec.** `Schema::SubstitueAliases(map)` + `Thesaurus::SubstitueAliases(map)` on the content
(`ResetAliases`, merge, equation; model `substituteAliases`: byte offsets of `TranslateRS`, the right-to-left loop
of `TranslateRaw`), for constituents whose four texts are well-formed UTF-8 (`Concept.WF`): the operation never
faults, its result is the specification `renameAll`, and that is, for EVERY constituent at its position,
`Renamed`: same identifier; alias through the map; definition and convention with exactly the whole upper-case
identifier words that the map sends elsewhere replaced (`translateWords false`, the word-level specification);
term and definition text with only the name bytes of the mapped entity references replaced
(`translateRefsStrict`); the list keeps its length — nothing else changes. -/
theorem renameAll_spec (m : Substitutes) (cs : List Concept) (h : ∀ c ∈ cs, c.WF) :
    ∃ cs', substituteAliases cs m = some cs' ∧ renameAll m cs = some cs' ∧ cs'.length = cs.length ∧
      ∀ (i : Nat) (c c' : Concept), cs[i]? = some c → cs'[i]? = some c' → Renamed (createTranslator m) c c' := by
  obtain ⟨cs', a, b, r⟩ := substituteAliases_renamed m cs h
  exact ⟨cs', a, b, r.length, r.get⟩

/-- **setAlias_renameAll_spec.** `SetAliasFor(u, new, substitute = true)` on the content, after the identity
manager accepted the name (`new` differs from the old alias; identifiers and aliases pairwise distinct, C09):
the same with the one-entry map `old ↦ new`. -/
theorem setAlias_renameAll_spec (cs : List Concept) (u : Nat) (c : Concept) (new : Bytes)
    (hf : cs.find? (·.uid = u) = some c) (hne : c.alias ≠ new)
    (hu : (cs.map (·.uid)).Nodup) (ha : (cs.map (·.alias)).Nodup) (h : ∀ x ∈ cs, x.WF) :
    ∃ cs', setAlias cs u new true = some cs' ∧ renameAll [(c.alias, new)] cs = some cs' ∧
      cs'.length = cs.length ∧
      ∀ (i : Nat) (x x' : Concept), cs[i]? = some x → cs'[i]? = some x' →
        Renamed (createTranslator [(c.alias, new)]) x x' := by
  obtain ⟨cs', a, b, r⟩ := setAlias_renamed cs u c new hf hne hu ha h
  exact ⟨cs', a, b, r.length, r.get⟩

/-- **unresolved_spec.** The names the specification calls unresolved are exactly the names that the model of
`ExtractUGlobals` (token level) finds in some definition and that are not the alias of a constituent. -/
theorem unresolved_spec (cs : List Concept) (n : Bytes) :
    n ∈ unresolved cs ↔
      (∃ c ∈ cs, ∃ names, extractUGlobals c.definition = some names ∧ n ∈ names) ∧ ∀ c ∈ cs, c.alias ≠ n :=
  mem_unresolved cs n

/-- **freshFor_spec.** The proviso as the oracle `iso` evaluates it (`freshFor`) is the proviso of the property:
every new name of the map (of an entry that changes something) that is found by `ExtractUGlobals` in some
definition is the alias of a constituent — it is not mentioned as an unresolved name. The shape of the
hypothesis `hproviso` of `rename_iso*`. -/
theorem freshFor_spec (m : Substitutes) (cs : List Concept) :
    freshFor m cs = true ↔
      ∀ p ∈ m, p.1 ≠ p.2 →
        (∃ c ∈ cs, ∃ names, extractUGlobals c.definition = some names ∧ p.2 ∈ names) → ∃ c ∈ cs, c.alias = p.2 :=
  freshFor_iff m cs

/-- `X1` (term `@{X1|nomn,sing}`), `X11`, `D1 := X1∪X11∪X9` with the convention `X1 xX1` and a definition text that
refers to `X1` and `X11` -/
def contentEx : List Concept :=
  [⟨1, [88, 49], [], [], refNomnSing.map id, []⟩,
   ⟨2, [88, 49, 49], [], [], [], []⟩,
   ⟨3, [68, 49], encode [88, 49, U, 88, 49, 49, U, 88, 57], [88, 49, 32, 120, 88, 49], [],
      [64, 123, 88, 49, 124, 110, 111, 109, 110, 125, 32, 64, 123, 88, 49, 49, 124, 110, 111, 109, 110, 125]⟩]

/-- non-vacuity of `renameAll_spec` / `setAlias_renameAll_spec` / `unresolved_spec` / `freshFor_spec`: the
hypotheses hold on `contentEx`; renaming `X1` to `X2` rewrites the alias, the definition `X1∪X11∪X9` to
`X2∪X11∪X9`, the convention `X1 xX1` to `X2 xX1`, the references to `X1` (tags kept) and nothing else; `X9` is the
one unresolved name, so `X2` is fresh and `X9` is not -/
theorem content_example :
    (∀ c ∈ contentEx, c.WF) ∧ contentEx.find? (·.uid = 1) = some ⟨1, [88, 49], [], [], refNomnSing, []⟩ ∧
    (contentEx.map (·.uid)).Nodup ∧ (contentEx.map (·.alias)).Nodup ∧
    setAlias contentEx 1 x2 true = some
      [⟨1, x2, [], [], [64, 123, 88, 50, 124, 110, 111, 109, 110, 44, 115, 105, 110, 103, 125], []⟩,
       ⟨2, [88, 49, 49], [], [], [], []⟩,
       ⟨3, [68, 49], encode [88, 50, U, 88, 49, 49, U, 88, 57], [88, 50, 32, 120, 88, 49], [],
          [64, 123, 88, 50, 124, 110, 111, 109, 110, 125, 32, 64, 123, 88, 49, 49, 124, 110, 111, 109, 110, 125]⟩] ∧
    renameAll [(x1, x2)] contentEx = setAlias contentEx 1 x2 true ∧
    unresolved contentEx = [[88, 57]] ∧
    freshFor [(x1, x2)] contentEx = true ∧ freshFor [(x1, [88, 57])] contentEx = false := by
  decide +kernel

/-- **content_dependencies_preserved.** "Same dependency structure", read off the REAL TEXTS (no checker model):
`SetAliasFor(u, new, substitute = true)` on a content whose texts are well formed, identifiers and aliases
pairwise distinct, `new` a global identifier spelling that is not an alias and — the proviso, as the oracle
evaluates it — `freshFor`: afterwards, for every pair of constituents, the definition of the first mentions the
alias of the second (a global-name token of `ExtractUGlobals`) iff it did before. -/
theorem content_dependencies_preserved (cs : List Concept) (u : Nat) (c : Concept) (new : Bytes)
    (hf : cs.find? (·.uid = u) = some c) (hne : c.alias ≠ new)
    (hu : (cs.map (·.uid)).Nodup) (ha : (cs.map (·.alias)).Nodup) (hwf : ∀ x ∈ cs, x.WF)
    (hcls : ∃ k, idClass new = some k ∧ filterGlobals k = true)
    (hfree : ∀ x ∈ cs, x.alias ≠ new) (hfresh : freshFor [(c.alias, new)] cs = true) :
    ∃ cs', setAlias cs u new true = some cs' ∧ cs'.length = cs.length ∧
      ∀ (i j : Nat) (x x' y y' : Concept), cs[i]? = some x → cs'[i]? = some x' → cs[j]? = some y →
        cs'[j]? = some y' →
        ((∃ names, extractUGlobals x'.definition = some names ∧ y'.alias ∈ names) ↔
         (∃ names, extractUGlobals x.definition = some names ∧ y.alias ∈ names)) :=
  setAlias_dependencies cs u c new hf hne hu ha hwf hcls hfree hfresh

/-- **content_dependencies_preserved_map.** The same for `SubstitueAliases(map)` (`ResetAliases`, the maps of merge
and equation, swaps and chains included): the map is injective on the names of the content — aliases and names
found by `ExtractUGlobals` in the definitions; this is the proviso — and every new name is a global identifier
spelling. -/
theorem content_dependencies_preserved_map (m : Substitutes) (cs : List Concept) (hwf : ∀ x ∈ cs, x.WF)
    (hcls : ∀ p ∈ m, p.2 ≠ p.1 → ∃ k, idClass p.2 = some k ∧ filterGlobals k = true)
    (hinj : ∀ a b, NameOf cs a → NameOf cs b →
      (createTranslator m a).getD a = (createTranslator m b).getD b → a = b) :
    ∃ cs', substituteAliases cs m = some cs' ∧ cs'.length = cs.length ∧
      ∀ (i j : Nat) (x x' y y' : Concept), cs[i]? = some x → cs'[i]? = some x' → cs[j]? = some y →
        cs'[j]? = some y' →
        ((∃ names, extractUGlobals x'.definition = some names ∧ y'.alias ∈ names) ↔
         (∃ names, extractUGlobals x.definition = some names ∧ y.alias ∈ names)) :=
  substitute_dependencies m cs hwf hcls hinj

/-- non-vacuity of `content_dependencies_preserved_map`: the swap `X1 ↔ X11` on `contentEx` (names `X1`, `X11`,
`D1`, `X9`): injective on the names, new names global spellings; computed: `D1 := X11∪X1∪X9` afterwards -/
example :
    let m : Substitutes := [(x1, [88, 49, 49]), ([88, 49, 49], x1)]
    (∀ p ∈ m, p.2 ≠ p.1 → ∃ k, idClass p.2 = some k ∧ filterGlobals k = true) ∧
    (∀ a ∈ [x1, [88, 49, 49], [68, 49], [88, 57]], ∀ b ∈ [x1, [88, 49, 49], [68, 49], [88, 57]],
      (createTranslator m a).getD a = (createTranslator m b).getD b → a = b) ∧
    (∀ n, NameOf contentEx n → n ∈ [x1, [88, 49, 49], [68, 49], [88, 57]]) ∧
    (substituteAliases contentEx m).map (·.map fun x => (x.alias, extractUGlobals x.definition)) =
      some [([88, 49, 49], some []), (x1, some []), ([68, 49], some [[88, 49, 49], x1, [88, 57]])] := by
  refine ⟨?_, by decide, ?_, by decide +kernel⟩
  · intro p hp _
    have : ∀ p ∈ [(x1, [88, 49, 49]), ([88, 49, 49], x1)], idClass p.2 = some .ID_GLOBAL := by decide +kernel
    exact ⟨.ID_GLOBAL, this p hp, by decide⟩
  · intro n hn
    have hal : ∀ x ∈ contentEx, x.alias ∈ [x1, [88, 49, 49], [68, 49], [88, 57]] := by decide
    have hmen : ∀ x ∈ contentEx, ∀ names, extractUGlobals x.definition = some names →
        ∀ n ∈ names, n ∈ [x1, [88, 49, 49], [68, 49], [88, 57]] := by
      have h3 : ∀ x ∈ contentEx, ∃ names, extractUGlobals x.definition = some names ∧
          ∀ n ∈ names, n ∈ [x1, [88, 49, 49], [68, 49], [88, 57]] := by decide +kernel
      intro x hx names he n hn
      obtain ⟨names', he', h'⟩ := h3 x hx
      rw [he] at he'
      cases he'
      exact h' n hn
    rcases hn with ⟨x, hx, rfl⟩ | ⟨x, hx, names, he, hm⟩
    · exact hal x hx
    · exact hmen x hx names he n hm

/-- non-vacuity: the remaining hypotheses on `contentEx` for `X1 ↦ X2` (the others: `content_example`) -/
example : (∃ k, idClass x2 = some k ∧ filterGlobals k = true) ∧ (∀ x ∈ contentEx, x.alias ≠ x2) :=
  ⟨⟨.ID_GLOBAL, by decide +kernel, by decide⟩, by decide⟩

/-- **capture on the content.** Without the proviso the dependency structure changes: `X1`, `X2`,
`D1 := X1∪X9` (`X9` unresolved); renaming `X2` to the free alias `X9` makes `D1` mention constituent 2, which it
did not mention before. All other hypotheses of `content_dependencies_preserved` hold. -/
theorem content_capture_counterexample :
    let cs : List Concept := [⟨1, x1, [], [], [], []⟩, ⟨2, x2, [], [], [], []⟩,
      ⟨3, [68, 49], encode [88, 49, U, 88, 57], [], [], []⟩]
    (∀ c ∈ cs, c.WF) ∧ (cs.map (·.uid)).Nodup ∧ (cs.map (·.alias)).Nodup ∧ (∀ x ∈ cs, x.alias ≠ [88, 57]) ∧
    freshFor [(x2, [88, 57])] cs = false ∧
    cs.map (fun x => (x.alias, extractUGlobals x.definition)) =
      [(x1, some []), (x2, some []), ([68, 49], some [x1, [88, 57]])] ∧
    (setAlias cs 2 [88, 57] true).map (·.map fun x => (x.alias, extractUGlobals x.definition)) =
      some [(x1, some []), ([88, 57], some []), ([68, 49], some [x1, [88, 57]])] := by
  decide +kernel

end WordLevelContent

end CCVerif.C08
