import CCVerif.Lemmas.EvalGround
import CCVerif.Lemmas.EvalExamples
import CCVerif.Lemmas.EvalExamples6
import CCVerif.Lemmas.EvalExamples7
import CCVerif.Lemmas.EvalExamples8
import CCVerif.Lemmas.EvalExamples7n
import CCVerif.Lemmas.EvalNestedExamples
import CCVerif.Lemmas.EvalBlocksPatExamples
import CCVerif.Lemmas.EvalBlocksPatFilterExamples
import CCVerif.Lemmas.EvalCallsPatExamples
import CCVerif.Lemmas.EvalFuelTop
import CCVerif.Lemmas.EvalFuelNorm
import CCVerif.Lemmas.EvalFuelLoopsTop
import CCVerif.Lemmas.EvalFuelNormBound
/-!
# C02 — type soundness of checker + evaluator

* `ValHasTy v τ`: the structural typing of a value (types as in the strings `Typification::ToString`
  prints; the driver parses them and applies `Ty.hasTy` to every value the implementation produced);
  it implies the C++ `CheckCompatible` (which inspects the first element of a set only);
* values of one `R0`-free type are totally ordered by `Compare` (the hypothesis under which the
  canonical-set lemmas of C01 hold); the set operations of the evaluator preserve typing;
* `progress_preservation_statement`: an accepted expression never makes the evaluator `stuck`
  (the evaluator has no overflow outcome any more: arithmetic leaving `int32_t` is the documented
  error `typedOverflow`), a value has the reported type, a truth value is returned exactly for
  LOGIC, an error is a documented one (parametric in the typing judgement of C03);
  `progress_preservation_partial` proves it for the ground integer / logic fragment, no guard
  needed; `progress_preservation_partial1/2/3` prove it for the typed fragments of
  `Lemmas/EvalFrag.lean` (ground set constructs; + globals under `GlobalsOK`; + `∀ ∃ D{x∈S|P}` over one
  plain variable), `values_canonical_partial3` adds that returned values are canonical; `guarded_no_error_partial` adds that under the explicit guard `Safe32` (every arithmetic
  subterm's exact value fits `int32_t`) no error is raised at all; `never_stuck_partial` lists the
  possible outcomes;
* `…_fixed`: the closed accepted inputs on which the code pinned at the start was `stuck` or
  overflowed, after the `fix:` commits.
-/
namespace CCVerif.Eval
open CCVerif.Syntax CCVerif.Spec CCVerif.Norm
open Val Ty

/-! ## `ValHasTy` -/
mutual
/-- structural typing of a value: a base type is inhabited by the basic elements (and `R0` by
everything), a tuple type by tuples of the same arity component-wise, `ℬ(τ)` by the sets all of
whose members have type `τ` -/
def ValHasTy : Val → Ty → Prop
  | v, .base id => id = "R0" ∨ ∃ n, v = .e n
  | .t vs, .tuple ts => ValsHaveTys vs ts
  | .s xs, .coll b => AllHaveTy xs b
  | .e _, .tuple _ => False
  | .s _, .tuple _ => False
  | .e _, .coll _ => False
  | .t _, .coll _ => False
def ValsHaveTys : List Val → List Ty → Prop
  | [], [] => True
  | v :: vs, ty :: ts => ValHasTy v ty ∧ ValsHaveTys vs ts
  | [], _ :: _ => False
  | _ :: _, [] => False
def AllHaveTy : List Val → Ty → Prop
  | [], _ => True
  | v :: vs, b => ValHasTy v b ∧ AllHaveTy vs b
end

mutual
/-- the executable check used by the driver decides `ValHasTy` -/
theorem hasTy_iff : ∀ (v : Val) (τ : Ty), hasTy v τ = true ↔ ValHasTy v τ
  | .e n, .base id => by simp [hasTy, ValHasTy]
  | .t vs, .base id => by simp [hasTy, ValHasTy]
  | .s xs, .base id => by simp [hasTy, ValHasTy]
  | .t vs, .tuple ts => by simp only [hasTy, ValHasTy]; exact hasTyList_iff vs ts
  | .s xs, .coll b => by simp only [hasTy, ValHasTy]; exact hasTyAll_iff' xs b
  | .e _, .tuple _ | .s _, .tuple _ | .e _, .coll _ | .t _, .coll _ => by simp [hasTy, ValHasTy]
theorem hasTyList_iff : ∀ (vs : List Val) (ts : List Ty), hasTyList vs ts = true ↔ ValsHaveTys vs ts
  | [], [] => by simp [hasTyList, ValsHaveTys]
  | v :: vs, ty :: ts => by
    simp only [hasTyList, ValsHaveTys, Bool.and_eq_true]
    rw [hasTy_iff v ty, hasTyList_iff vs ts]
  | [], _ :: _ | _ :: _, [] => by simp [hasTyList, ValsHaveTys]
theorem hasTyAll_iff' : ∀ (vs : List Val) (b : Ty), hasTyAll vs b = true ↔ AllHaveTy vs b
  | [], _ => by simp [hasTyAll, AllHaveTy]
  | v :: vs, b => by
    simp only [hasTyAll, AllHaveTy, Bool.and_eq_true]
    rw [hasTy_iff v b, hasTyAll_iff' vs b]
end

/-- rule form: a set has type `ℬ(τ)` iff every member has type `τ` -/
theorem valHasTy_coll (xs : List Val) (b : Ty) : ValHasTy (.s xs) (.coll b) ↔ ∀ x ∈ xs, ValHasTy x b := by
  rw [← hasTy_iff]
  simp only [hasTy]
  rw [hasTyAll_iff]
  constructor
  · intro h x hx; exact (hasTy_iff x b).mp (h x hx)
  · intro h x hx; exact (hasTy_iff x b).mpr (h x hx)

/-- rule form: an integer literal has every base type, in particular `Z` -/
theorem valHasTy_int (n : Int) (id : String) : ValHasTy (.e n) (.base id) := by
  simp [ValHasTy]

mutual
/-- `CheckCompatible` (the C++ notion) follows from the full structural typing, for `R0`-free types -/
theorem checkCompatible_of_hasTy : ∀ (v : Val) (τ : Ty), noAny τ = true → hasTy v τ = true → checkCompatible v τ = true
  | .e n, .base id, _, _ => by simp [checkCompatible]
  | .t vs, .base id, hn, h | .s vs, .base id, hn, h => by simp [noAny] at hn; simp [hasTy, hn] at h
  | .t vs, .tuple ts, hn, h => by
    simp only [hasTy] at h
    simp only [noAny] at hn
    simp [checkCompatible, hasTyList_length h, checkCompatibleList_of vs ts hn h]
  | .s [], .coll b, _, _ => by simp [checkCompatible]
  | .s (x :: xs), .coll b, hn, h => by
    simp only [hasTy, hasTyAll, Bool.and_eq_true] at h
    simp only [noAny] at hn
    simp [checkCompatible, checkCompatible_of_hasTy x b hn h.1]
  | .e _, .tuple _, _, h | .s _, .tuple _, _, h | .e _, .coll _, _, h | .t _, .coll _, _, h => by simp [hasTy] at h
theorem checkCompatibleList_of : ∀ (vs : List Val) (ts : List Ty), noAnyList ts = true → hasTyList vs ts = true →
    checkCompatibleList vs ts = true
  | [], _, _, _ => by simp [checkCompatibleList]
  | _ :: _, [], _, _ => by simp [checkCompatibleList]
  | v :: vs, ty :: ts, hn, h => by
    simp only [hasTyList, Bool.and_eq_true] at h
    simp only [noAnyList, Bool.and_eq_true] at hn
    simp [checkCompatibleList, checkCompatible_of_hasTy v ty hn.1 h.1, checkCompatibleList_of vs ts hn.2 h.2]
end

/-- the converse fails: `CheckCompatible` looks at the first member only -/
theorem checkCompatible_weaker_counterexample :
    checkCompatible (.s [.e 1, .s []]) (.coll (.base "X1")) = true ∧ hasTy (.s [.e 1, .s []]) (.coll (.base "X1")) = false := by
  decide

/-! ## order and typing of the set operations -/

/-- values of one `R0`-free type are never INCOMPARABLE -/
theorem typed_total (a b : Val) (τ : Ty) (hn : noAny τ = true) (ha : ValHasTy a τ) (hb : ValHasTy b τ) :
    Comparable a b :=
  typed_comparable a b τ hn ((hasTy_iff a τ).mpr ha) ((hasTy_iff b τ).mpr hb)

theorem mkSet_hasTy (xs : List Val) (b : Ty) (h : ∀ x ∈ xs, ValHasTy x b) : ValHasTy (mkSet xs) (.coll b) := by
  rw [mkSet, ← hasTy_iff]; simp only [hasTy]
  exact hasTyAll_insertAll (hasTyAll_iff.mpr (fun x hx => (hasTy_iff x b).mpr (h x hx))) (by simp [hasTyAll])

theorem union_hasTy (xs ys : List Val) (b : Ty) (hx : ValHasTy (.s xs) (.coll b)) (hy : ValHasTy (.s ys) (.coll b)) :
    ValHasTy (.s (union xs ys)) (.coll b) := by
  rw [← hasTy_iff] at *; simp only [hasTy] at *
  exact hasTyAll_insertAll hy (hasTyAll_insertAll hx (by simp [hasTyAll]))

theorem inter_hasTy (xs ys : List Val) (b : Ty) (hy : ValHasTy (.s ys) (.coll b)) :
    ValHasTy (.s (inter xs ys)) (.coll b) := by
  rw [← hasTy_iff] at *; simp only [hasTy] at *
  exact hasTyAll_insertAll (hasTyAll_filter _ hy) (by simp [hasTyAll])

theorem diff_hasTy (xs ys : List Val) (b : Ty) (hx : ValHasTy (.s xs) (.coll b)) :
    ValHasTy (.s (diff xs ys)) (.coll b) := by
  rw [← hasTy_iff] at *; simp only [hasTy] at *
  exact hasTyAll_insertAll (hasTyAll_filter _ hx) (by simp [hasTyAll])

theorem symDiff_hasTy (xs ys : List Val) (b : Ty) (hx : ValHasTy (.s xs) (.coll b)) (hy : ValHasTy (.s ys) (.coll b)) :
    ValHasTy (.s (symDiff xs ys)) (.coll b) := by
  rw [← hasTy_iff] at *; simp only [hasTy] at *
  exact hasTyAll_insertAll (hasTyAll_filter _ hy) (hasTyAll_insertAll (hasTyAll_filter _ hx) (by simp [hasTyAll]))

/-! ## progress and preservation -/

def Documented (eid : Nat) : Prop :=
  eid = EID.typedOverflow ∨ eid = EID.booleanLimit ∨ eid = EID.globalMissingValue ∨
  eid = EID.iterationsLimit ∨ eid = EID.invalidDebool ∨ eid = EID.iterateInfinity

/-- what C02 allows as the outcome of evaluating an expression of (reported) type `τ` -/
def Sound (r : EvalRes) (τ : ExprTy) : Prop :=
  match r with
  | .ok v => ∃ t, τ = .ty t ∧ ValHasTy v t
  | .okBool _ => τ = .logic
  | .err eid _ => Documented eid
  | .outOfFuel => True
  | .stuck _ => False

/-- **full statement** (`Typed env e τ` = the checker accepts `e` with type `τ` and the data of
`env` is compatible with the typifications of the globals; C03) -/
def progress_preservation_statement (Typed : Env → Ast → ExprTy → Prop) : Prop :=
  ∀ (env : Env) (e : Ast) (τ : ExprTy), Typed env e τ → ∀ fuel, Sound (evaluate fuel env e).1 τ

/-- typing of the ground fragment: integer terms have type `Z`, formulas are LOGIC -/
def GroundTyped (_env : Env) (e : Ast) (τ : ExprTy) : Prop :=
  (GInt e ∧ τ = .ty (.base "Z")) ∨ (GLog e ∧ τ = .logic)

private theorem evaluate_ground' (env : Env) (e : Ast) (h : GInt e ∨ GLog e) (fuel : Nat) :
    (evaluate fuel env e).1 = .outOfFuel ∨
    (evaluate fuel env e).1 =
      (match ev { ids := [] } fuel e none { data := [], iters := 0 } with
        | .ok (.val v) _ => .ok v
        | .ok (.bool b) _ => .okBool b
        | .fail .quiet _ => .err EID.unknownError 0
        | .fail (.err eid p) _ => .err eid p
        | .fail (.stuck site) _ => .stuck site
        | .fail .outOfFuel _ => .outOfFuel) := by
  have hn : normalize env.funcs fuel e { userLocals := collectLocals e } = none ∨
      normalize env.funcs fuel e { userLocals := collectLocals e } = some (e, { userLocals := collectLocals e }) := by
    rcases h with h | h
    · exact normalize_gint _ h fuel _
    · exact normalize_glog _ h fuel _
  have hcl : collect env fuel e {} = .fail .outOfFuel ∨ collect env fuel e {} = .ok [] false {} := by
    rcases h with h | h
    · exact collect_gint _ h fuel {}
    · exact collect_glog _ h fuel {}
  unfold evaluate normalizeTree
  rcases hn with hn | hn
  · left; simp [hn]
  · rcases hcl with hc | hc
    · left; simp [hn, evalNorm, hc]
    · right
      simp only [hn, evalNorm, hc, Option.map_some]
      generalize ev { ids := [] } fuel e none { data := [], iters := 0 } = r
      cases r with
      | ok v st => cases v <;> rfl
      | fail f n => cases f <;> rfl

/-- **progress_preservation_partial**: ground integer terms and ground formulas: never `stuck`,
an integer of type `Z` resp. a truth value, or the documented error `typedOverflow` -/
theorem progress_preservation_partial : progress_preservation_statement GroundTyped := by
  intro env e τ ht fuel
  rcases ht with ⟨hg, rfl⟩ | ⟨hg, rfl⟩
  · rcases evaluate_ground' env e (Or.inl hg) fuel with he | he
    · rw [he]; simp [Sound]
    · rw [he]
      rcases sim_int { globals := env.globals, funcs := env.funcs } { ids := [] } hg fuel none { data := [], iters := 0 } .nil
        with ⟨n, hx, _⟩ | hx | ⟨⟨_, hx⟩, _⟩
      · rw [hx]; exact ⟨.base "Z", rfl, valHasTy_int n "Z"⟩
      · rw [hx]; simp [Sound]
      · rw [hx]; simp [Sound, Documented]
  · rcases evaluate_ground' env e (Or.inr hg) fuel with he | he
    · rw [he]; simp [Sound]
    · rw [he]
      rcases sim_log { globals := env.globals, funcs := env.funcs } { ids := [] } hg fuel none { data := [], iters := 0 } .nil
        with ⟨n, hx, _⟩ | hx | ⟨⟨_, hx⟩, _⟩
      · rw [hx]; simp [Sound]
      · rw [hx]; simp [Sound]
      · rw [hx]; simp [Sound, Documented]

/-- **guarded_no_error_partial**: under the overflow guard `Safe32` the ground fragment raises no
error at all: a value, a truth value, or the model ran out of fuel -/
theorem guarded_no_error_partial (env : Env) (e : Ast) (h : GInt e ∨ GLog e)
    (hs : Safe32 { globals := env.globals, funcs := env.funcs } e) (fuel : Nat) :
    (∃ v, (evaluate fuel env e).1 = .ok v) ∨ (∃ b, (evaluate fuel env e).1 = .okBool b) ∨
    (evaluate fuel env e).1 = .outOfFuel := by
  rcases evaluate_ground' env e h fuel with he | he
  · exact Or.inr (Or.inr he)
  · rw [he]
    rcases h with hg | hg
    · rcases sim_int { globals := env.globals, funcs := env.funcs } { ids := [] } hg fuel none { data := [], iters := 0 } .nil
        with ⟨n, hx, _⟩ | hx | ⟨_, sx⟩
      · rw [hx]; simp
      · rw [hx]; simp
      · exact absurd hs sx
    · rcases sim_log { globals := env.globals, funcs := env.funcs } { ids := [] } hg fuel none { data := [], iters := 0 } .nil
        with ⟨n, hx, _⟩ | hx | ⟨_, sx⟩
      · rw [hx]; simp
      · rw [hx]; simp
      · exact absurd hs sx

/-- **never_stuck_partial**: the outcomes of the ground fragment: a value, a truth value, out of
fuel, or the documented error `typedOverflow`; never `stuck`, no other error -/
theorem never_stuck_partial (env : Env) (e : Ast) (h : GInt e ∨ GLog e) (fuel : Nat) :
    (∃ v, (evaluate fuel env e).1 = .ok v) ∨ (∃ b, (evaluate fuel env e).1 = .okBool b) ∨
    (evaluate fuel env e).1 = .outOfFuel ∨ (∃ pos, (evaluate fuel env e).1 = .err EID.typedOverflow pos) := by
  rcases evaluate_ground' env e h fuel with he | he
  · exact Or.inr (Or.inr (Or.inl he))
  · rw [he]
    rcases h with hg | hg
    · rcases sim_int { globals := env.globals, funcs := env.funcs } { ids := [] } hg fuel none { data := [], iters := 0 } .nil
        with ⟨n, hx, _⟩ | hx | ⟨⟨_, hx⟩, _⟩ <;> rw [hx] <;> simp
    · rcases sim_log { globals := env.globals, funcs := env.funcs } { ids := [] } hg fuel none { data := [], iters := 0 } .nil
        with ⟨n, hx, _⟩ | hx | ⟨⟨_, hx⟩, _⟩ <;> rw [hx] <;> simp

/-! non-vacuity: `(2+3)*4` is ground, guarded, of type `Z`, and evaluates to `20` -/
private def lit (n : Int) : Ast := .node .LIT_INTEGER (.int n) 0 0 []
private def bin (t : Tok) (a b : Ast) : Ast := .node t .none 0 0 [a, b]
private def sample : Ast := bin .MULTIPLY (bin .PLUS (lit 2) (lit 3)) (lit 4)
private theorem denote_lit_val (env : SEnv) (fuel : Nat) (ρ : LEnv) (n x : Int)
    (h : denote env fuel ρ (lit n) = some (.val (.e x))) : x = n := by
  cases fuel with
  | zero => simp [denote] at h
  | succ f => rw [lit, denote_lit] at h; simp at h; exact h.symm
example : GroundTyped {} sample (.ty (.base "Z")) :=
  Or.inl ⟨.arith _ _ _ (by simp [isArith]) (.arith _ _ _ (by simp [isArith]) (.lit _ _ _) (.lit _ _ _)) (.lit _ _ _), rfl⟩
example : Safe32 {} sample := by
  have h23 : Safe32 {} (bin .PLUS (lit 2) (lit 3)) :=
    .arith _ _ _ (by simp [isArith]) (.lit _ _ _) (.lit _ _ _) (by
      intro fuel ρ x y hx hy
      rw [denote_lit_val _ _ _ _ _ hx, denote_lit_val _ _ _ _ _ hy]; decide)
  refine .arith _ _ _ (by simp [isArith]) h23 (.lit _ _ _) ?_
  intro fuel ρ x y hx hy
  rw [denote_lit_val _ _ _ _ _ hy]
  cases fuel with
  | zero => simp [denote] at hx
  | succ f =>
    rw [bin, denote_arith (by simp [isArith])] at hx
    cases f with
    | zero => simp [denote, dInt] at hx
    | succ g =>
      rw [lit, denote_lit, lit, denote_lit] at hx
      simp [dInt, arithOp] at hx
      rw [← hx]; decide
example : (evaluate 10 {} sample).1 = .ok (.e 20) := by decide

/-! ## stages 1-3: set-valued expressions, globals, binders over one plain variable

The typed fragments of `Lemmas/EvalFrag.lean` (same as in C01): the judgement `Frag env G lvl [] e τ`
plays the role of `Typed`; for `lvl ≥ 2` the interpretation must give every typed global a
canonical value of its type (`GlobalsOK`, the explicit form of `CheckCompatible` + canonical sets). -/

def Typed1 (env : Env) (e : Ast) (τ : ExprTy) : Prop := Frag env [] 1 [] e τ
def Typed2 (env : Env) (e : Ast) (τ : ExprTy) : Prop := ∃ G, GlobalsOK env G ∧ Frag env G 2 [] e τ
def Typed3 (env : Env) (e : Ast) (τ : ExprTy) : Prop := ∃ G, GlobalsOK env G ∧ Frag env G 3 [] e τ

theorem typed1_sub_typed2 {env : Env} {e : Ast} {τ : ExprTy} (h : Typed1 env e τ) : Typed2 env e τ :=
  ⟨[], (by intro g σ hg; simp [lookup] at hg), FragR.mono (by decide) h⟩
theorem typed2_sub_typed3 {env : Env} {e : Ast} {τ : ExprTy} (h : Typed2 env e τ) : Typed3 env e τ :=
  let ⟨G, hG, hf⟩ := h; ⟨G, hG, hf.mono (by decide)⟩

/-- **progress_preservation_partial3**: closed expressions of the stage-3 fragment (every ground
set construct, globals under a canonical typed interpretation, `∀ ∃ D{·∈·|·}` over one plain variable):
the evaluator is never `stuck`, a value has the type of the expression, a truth value is returned
exactly for LOGIC, an error is a documented one (`typedOverflow`, `invalidDebool`, `booleanLimit`,
`iterationsLimit`, `globalMissingValue`), `unknownError` is impossible.
Missing from the full statement: tuple patterns, enumerated declarations, calls, `R{}`, `I{}`,
filters, `Z`; `ℬ` of operands beyond the reference bound (shared fragment with C01). -/
theorem progress_preservation_partial3 : progress_preservation_statement Typed3 := by
  intro env e τ ⟨G, hG, hf⟩ fuel
  rcases evaluate_frag hG hf (by decide) fuel with hg | ho | ⟨eid, pos, he, hd⟩
  · cases τ with
    | ty ty =>
      obtain ⟨v, hr, hw, _, _⟩ := hg
      rw [hr]
      exact ⟨ty, rfl, (hasTy_iff v ty).mp hw.1⟩
    | logic =>
      obtain ⟨b, hr, _⟩ := hg
      rw [hr]; rfl
  · rw [ho]; trivial
  · rw [he]; exact hd

theorem progress_preservation_partial2 : progress_preservation_statement Typed2 :=
  fun env e τ h => progress_preservation_partial3 env e τ (typed2_sub_typed3 h)

theorem progress_preservation_partial1 : progress_preservation_statement Typed1 :=
  fun env e τ h => progress_preservation_partial2 env e τ (typed1_sub_typed2 h)

/-- **values_canonical_partial3**: on the fragment every returned value is moreover canonical (sets
strictly increasing in `Compare`, recursively) and its type is `R0`-free - the hypothesis under
which `Compare` is a total order and the set operations mean what they should -/
theorem values_canonical_partial3 (env : Env) (e : Ast) (τ : ExprTy) (h : Typed3 env e τ) (fuel : Nat) (v : Val)
    (hv : (evaluate fuel env e).1 = .ok v) : canon v = true ∧ ∃ ty, τ = .ty ty ∧ noAny ty = true := by
  obtain ⟨G, hG, hf⟩ := h
  rcases evaluate_frag hG hf (by decide) fuel with hg | ho | ⟨eid, pos, he, _⟩
  · cases τ with
    | ty ty =>
      obtain ⟨v', hr, hw, hn, _⟩ := hg
      rw [hr] at hv; injection hv with hv; subst hv
      exact ⟨hw.2, ty, rfl, hn⟩
    | logic =>
      obtain ⟨b, hr, _⟩ := hg
      rw [hr] at hv; cases hv
  · rw [ho] at hv; cases hv
  · rw [he] at hv; cases hv

/-- **never_stuck_partial3**: the possible outcomes on the stage-3 fragment -/
theorem never_stuck_partial3 (env : Env) (e : Ast) (τ : ExprTy) (h : Typed3 env e τ) (fuel : Nat) :
    (∃ v, (evaluate fuel env e).1 = .ok v) ∨ (∃ b, (evaluate fuel env e).1 = .okBool b) ∨
    (evaluate fuel env e).1 = .outOfFuel ∨ (∃ eid pos, (evaluate fuel env e).1 = .err eid pos ∧ Documented eid) := by
  obtain ⟨G, hG, hf⟩ := h
  rcases evaluate_frag hG hf (by decide) fuel with hg | ho | ⟨eid, pos, he, hd⟩
  · cases τ with
    | ty ty => obtain ⟨v, hr, _⟩ := hg; exact Or.inl ⟨v, hr⟩
    | logic => obtain ⟨b, hr, _⟩ := hg; exact Or.inr (Or.inl ⟨b, hr⟩)
  · exact Or.inr (Or.inr (Or.inl ho))
  · exact Or.inr (Or.inr (Or.inr ⟨eid, pos, he, hd⟩))

/-! ## stage 4: `R{…}` and `I{…}` over plain variables (shared fragment with C01) -/

def Typed4 (env : Env) (e : Ast) (τ : ExprTy) : Prop := ∃ G, GlobalsOK env G ∧ Frag env G 4 [] e τ

theorem typed3_sub_typed4 {env : Env} {e : Ast} {τ : ExprTy} (h : Typed3 env e τ) : Typed4 env e τ :=
  let ⟨G, hG, hf⟩ := h; ⟨G, hG, hf.mono (by decide)⟩

private theorem sound_of_frag {env : Env} {G : TCtx} {lvl : Nat} (hG : GlobalsOK env G) {e n : Ast} {τ : ExprTy}
    (hf : FragR env G lvl [] [] e n τ) (hl5 : lvl ≤ 5) (fuel : Nat) : Sound (evaluate fuel env e).1 τ := by
  rcases evaluate_frag hG hf hl5 fuel with hg | ho | ⟨eid, pos, he, hd⟩
  · cases τ with
    | ty ty =>
      obtain ⟨v, hr, hw, _, _⟩ := hg
      rw [hr]
      exact ⟨ty, rfl, (hasTy_iff v ty).mp hw.1⟩
    | logic =>
      obtain ⟨b, hr, _⟩ := hg
      rw [hr]; rfl
  · rw [ho]; trivial
  · rw [he]; exact hd

/-- **progress_preservation_partial4**: stage 3 extended with the recursive constructor (short and full
form) and the imperative constructor (iterate / assign / condition blocks) over plain variables: never
`stuck` (in particular the slot guards, the block metadata, the block stack and the `std::get`s of the two
loops never fault), a value has the type of the expression, errors are documented ones (`iterationsLimit`
when the shared iteration counter is exhausted). -/
theorem progress_preservation_partial4 : progress_preservation_statement Typed4 := by
  intro env e τ ⟨G, hG, hf⟩ fuel
  exact sound_of_frag hG hf (by decide) fuel

/-- **values_canonical_partial4**: returned values are canonical and of an `R0`-free type -/
theorem values_canonical_partial4 (env : Env) (e : Ast) (τ : ExprTy) (h : Typed4 env e τ) (fuel : Nat) (v : Val)
    (hv : (evaluate fuel env e).1 = .ok v) : canon v = true ∧ ∃ ty, τ = .ty ty ∧ noAny ty = true := by
  obtain ⟨G, hG, hf⟩ := h
  rcases evaluate_frag hG hf (by decide) fuel with hg | ho | ⟨eid, pos, he, _⟩
  · cases τ with
    | ty ty =>
      obtain ⟨v', hr, hw, hn, _⟩ := hg
      rw [hr] at hv; injection hv with hv; subst hv
      exact ⟨hw.2, ty, rfl, hn⟩
    | logic =>
      obtain ⟨b, hr, _⟩ := hg
      rw [hr] at hv; cases hv
  · rw [ho] at hv; cases hv
  · rw [he] at hv; cases hv

/-- **never_stuck_partial4**: the possible outcomes on the stage-4 fragment -/
theorem never_stuck_partial4 (env : Env) (e : Ast) (τ : ExprTy) (h : Typed4 env e τ) (fuel : Nat) :
    (∃ v, (evaluate fuel env e).1 = .ok v) ∨ (∃ b, (evaluate fuel env e).1 = .okBool b) ∨
    (evaluate fuel env e).1 = .outOfFuel ∨ (∃ eid pos, (evaluate fuel env e).1 = .err eid pos ∧ Documented eid) := by
  obtain ⟨G, hG, hf⟩ := h
  rcases evaluate_frag hG hf (by decide) fuel with hg | ho | ⟨eid, pos, he, hd⟩
  · cases τ with
    | ty ty => obtain ⟨v, hr, _⟩ := hg; exact Or.inl ⟨v, hr⟩
    | logic => obtain ⟨b, hr, _⟩ := hg; exact Or.inr (Or.inl ⟨b, hr⟩)
  · exact Or.inr (Or.inr (Or.inl ho))
  · exact Or.inr (Or.inr (Or.inr ⟨eid, pos, he, hd⟩))

/-! ## stage 5: enumerated declarations (the evaluator runs on the normal form: nested quantifiers) -/

def Typed5 (env : Env) (e : Ast) (τ : ExprTy) : Prop := ∃ G n, GlobalsOK env G ∧ FragR env G 5 [] [] e n τ

theorem typed4_sub_typed5 {env : Env} {e : Ast} {τ : ExprTy} (h : Typed4 env e τ) : Typed5 env e τ :=
  let ⟨G, hG, hf⟩ := h; ⟨G, e, hG, FragR.mono (by decide) hf⟩

/-- **progress_preservation_partial5**: stage 4 extended with quantifiers over an enumerated declaration
`Q x₁,…,xₙ ∈ S . P`: evaluating the normalised tree never faults, values have the type of the expression,
errors are documented ones. -/
theorem progress_preservation_partial5 : progress_preservation_statement Typed5 := by
  intro env e τ ⟨G, n, hG, hf⟩ fuel
  exact sound_of_frag hG hf (by decide) fuel

/-- **never_stuck_partial5**: the possible outcomes on the stage-5 fragment -/
theorem never_stuck_partial5 (env : Env) (e : Ast) (τ : ExprTy) (h : Typed5 env e τ) (fuel : Nat) :
    (∃ v, (evaluate fuel env e).1 = .ok v) ∨ (∃ b, (evaluate fuel env e).1 = .okBool b) ∨
    (evaluate fuel env e).1 = .outOfFuel ∨ (∃ eid pos, (evaluate fuel env e).1 = .err eid pos ∧ Documented eid) := by
  obtain ⟨G, n, hG, hf⟩ := h
  rcases evaluate_frag hG hf (by decide) fuel with hg | ho | ⟨eid, pos, he, hd⟩
  · cases τ with
    | ty ty => obtain ⟨v, hr, _⟩ := hg; exact Or.inl ⟨v, hr⟩
    | logic => obtain ⟨b, hr, _⟩ := hg; exact Or.inr (Or.inl ⟨b, hr⟩)
  · exact Or.inr (Or.inr (Or.inl ho))
  · exact Or.inr (Or.inr (Or.inr ⟨eid, pos, he, hd⟩))

/-! ## stage 6: flat tuple patterns in `∀ ∃ D{}` (one generated variable per pattern, components by projection) -/

def Typed6 (env : Env) (e : Ast) (τ : ExprTy) : Prop :=
  ∃ G n, GlobalsOK env G ∧ FragR env G 6 [] [] e n τ ∧ NoCollide (patsOf e)

/-- **progress_preservation_partial6**: stage 5 extended with flat tuple patterns in quantifiers and declarative
set-builders (candidate names of the patterns not colliding): evaluating the normalised tree - where every use of
a pattern component is a projection `pr_i` of the generated variable - never faults (in particular no
`T().Component` of a non-tuple or of a missing index), values have the type of the expression, errors are
documented ones. -/
theorem progress_preservation_partial6 : progress_preservation_statement Typed6 := by
  intro env e τ ⟨G, n, hG, hf, hP⟩ fuel
  rcases evaluate_frag_of_norm hG hf fuel (hf.normalizesTree6 hP fuel) with hg | ho | ⟨eid, pos, he, hd⟩
  · cases τ with
    | ty ty =>
      obtain ⟨v, hr, hw, _, _⟩ := hg
      rw [hr]
      exact ⟨ty, rfl, (hasTy_iff v ty).mp hw.1⟩
    | logic =>
      obtain ⟨b, hr, _⟩ := hg
      rw [hr]; rfl
  · rw [ho]; trivial
  · rw [he]; exact hd

/-- **never_stuck_partial6**: the possible outcomes on the stage-6 fragment -/
theorem never_stuck_partial6 (env : Env) (e : Ast) (τ : ExprTy) (h : Typed6 env e τ) (fuel : Nat) :
    (∃ v, (evaluate fuel env e).1 = .ok v) ∨ (∃ b, (evaluate fuel env e).1 = .okBool b) ∨
    (evaluate fuel env e).1 = .outOfFuel ∨ (∃ eid pos, (evaluate fuel env e).1 = .err eid pos ∧ Documented eid) := by
  obtain ⟨G, n, hG, hf, hP⟩ := h
  rcases evaluate_frag_of_norm hG hf fuel (hf.normalizesTree6 hP fuel) with hg | ho | ⟨eid, pos, he, hd⟩
  · cases τ with
    | ty ty => obtain ⟨v, hr, _⟩ := hg; exact Or.inl ⟨v, hr⟩
    | logic => obtain ⟨b, hr, _⟩ := hg; exact Or.inr (Or.inl ⟨b, hr⟩)
  · exact Or.inr (Or.inr (Or.inl ho))
  · exact Or.inr (Or.inr (Or.inr ⟨eid, pos, he, hd⟩))

/-! non-vacuity (witnesses in `Lemmas/EvalExamples.lean`, the expressions of C01's examples) and one
value-typed instance: `D{x∈X1 | ∃y∈X1 (x,y)∈D1}` has type `ℬ(X1)` and evaluates to `{1,2}` -/
example : Typed1 {} Examples.e1 .logic := Examples.e1_frag {}
example : Typed2 Examples.envS Examples.e2 .logic := ⟨_, Examples.globalsOK_S, Examples.e2_frag⟩
example : Typed3 Examples.envS Examples.e3 .logic := ⟨_, Examples.globalsOK_S, Examples.e3_frag⟩
example : Typed3 Examples.envS Examples.e4 (.ty (.coll Examples.X)) := ⟨_, Examples.globalsOK_S, Examples.e4_frag⟩
example : (evaluate 20 Examples.envS Examples.e4).1 = .ok (.s [.e 1, .e 2]) := by decide
/-! stage 4: `I{(x,y) | x:∈{1,2,3}; y:=x*x; y>1}` has type `ℬ(Z×Z)` and evaluates to `{(2,4),(3,9)}`;
`R{s:={1} | card(s)<3 | s ∪ D{y∈{1,2,3,4} | ∃x∈s y=x+1}}` has type `ℬ(Z)` and evaluates to `{1,2,3}` -/
example : Typed4 Examples.env0 Examples.impEx (.ty (.coll (.tuple [Examples.Z, Examples.Z]))) :=
  ⟨[], (by intro g σ hg; simp [lookup] at hg), Examples.impEx_frag⟩
example : (evaluate 20 Examples.env0 Examples.impEx).1 = .ok (.s [.t [.e 2, .e 4], .t [.e 3, .e 9]]) := by decide
example : Typed4 Examples.env0 Examples.recFullEx (.ty (.coll Examples.Z)) :=
  ⟨[], (by intro g σ hg; simp [lookup] at hg), Examples.recFullEx_frag⟩
example : (evaluate 20 Examples.env0 Examples.recFullEx).1 = .ok (.s [.e 1, .e 2, .e 3]) := by decide
/-! stage 5: `∃a,b∈D{a∈{1,2} | 1=1} (a=1 & b=b) & ∀x,y,z∈{1,2,3} (x<y & y<z ⇒ x<z)` is LOGIC and evaluates to `true` -/
example : Typed5 Examples.env0 Examples.e6 .logic :=
  ⟨[], _, (by intro g σ hg; simp [lookup] at hg), Examples.e6_frag⟩
example : (evaluate 30 Examples.env0 Examples.e6).1 = .okBool true := by decide
/-! stage 6: `D{(a,b)∈{(1,2),(2,3)} | ∃(c,d)∈{(1,2),(2,3)} b=c} = {(1,2)} & ∀(x,y)∈{(1,2),(2,3)} x<y` is LOGIC, `true` -/
example : Typed6 Examples.env0 Examples.e7 .logic :=
  ⟨[], _, (by intro g σ hg; simp [lookup] at hg), Examples.e7_frag, Examples.e7_nocollide⟩
example : (evaluate 30 Examples.env0 Examples.e7).1 = .okBool true := by decide

/-! ## former counterexamples, after the `fix:` commits -/

private def nd (t : Tok) (ks : List Ast) : Ast := .node t .none 0 0 ks
private def loc (s : String) : Ast := .node .ID_LOCAL (.text s) 0 0 []
private def glob (s : String) : Ast := .node .ID_GLOBAL (.text s) 0 0 []
private def envX : Env := { globals := [("X1", .s [.e 1, .e 2])] }

/-- `I{1 | a:∈X1}` -/
def imperativeGroundValue : Ast := nd .NT_IMPERATIVE_EXPR [lit 1, nd .ITERATE [loc "a", glob "X1"]]

/-- **imperative_ground_value_fixed** (DESIGN finding 19): the name collector reads the variable of
the block's own declaration -/
theorem imperative_ground_value_fixed :
    (evaluate 20 envX imperativeGroundValue).1 = .ok (.s [.e 1]) := by decide

/-- **int_overflow_fixed** (DESIGN finding 21): `2147483647+1` is the documented error `typedOverflow` -/
theorem int_overflow_fixed :
    (evaluate 20 {} (bin .PLUS (lit 2147483647) (lit 1))).1 = .err EID.typedOverflow 0 := by decide

/-! ## stage 7: calls of term functions / predicates (the evaluator runs on the tree with every call inlined)

`Typed7 env e τ`: `e` β-reduces (`Beta`, `Lemmas/EvalCalls.lean`: every call replaced by the body of the definition,
arguments for parameters, bound variables renamed) to a call-free `es` of stage 6 of type `τ`, whose normal form is what
the normaliser returns for `e` (a closed computation for a concrete expression).  The type of `e` is taken to be the
type of its reduct.  Not covered: calls under `R{}` / `I{}` / enumerated declarations / tuple patterns; that the
normaliser always produces the normal form of a β-reduct is checked per expression, not proved in general. -/

def Typed7 (env : Env) (e : Ast) (τ : ExprTy) : Prop :=
  ∃ G es n K f0, GlobalsOK env G ∧ FragR env G 6 [] [] es n τ ∧ Beta env.funcs K [] e es ∧
    normalizeTree env.funcs f0 e = some n

/-- **progress_preservation_partial7**: expressions with calls: evaluating the inlined tree never faults, a value has
the type of the expression, errors are documented ones. -/
theorem progress_preservation_partial7 : progress_preservation_statement Typed7 := by
  intro env e τ ⟨G, es, n, K, f0, hG, hf, hbeta, hn⟩ fuel
  rcases evaluate_calls hG hf hbeta hn fuel with hg | ho | ⟨eid, pos, he, hd⟩
  · cases τ with
    | ty ty =>
      obtain ⟨v, hr, hw, _, _⟩ := hg
      rw [hr]
      exact ⟨ty, rfl, (hasTy_iff v ty).mp hw.1⟩
    | logic =>
      obtain ⟨b, hr, _⟩ := hg
      rw [hr]; rfl
  · rw [ho]; trivial
  · rw [he]; exact hd

/-- **never_stuck_partial7**: the possible outcomes on stage 7 -/
theorem never_stuck_partial7 (env : Env) (e : Ast) (τ : ExprTy) (h : Typed7 env e τ) (fuel : Nat) :
    (∃ v, (evaluate fuel env e).1 = .ok v) ∨ (∃ b, (evaluate fuel env e).1 = .okBool b) ∨
    (evaluate fuel env e).1 = .outOfFuel ∨ (∃ eid pos, (evaluate fuel env e).1 = .err eid pos ∧ Documented eid) := by
  obtain ⟨G, es, n, K, f0, hG, hf, hbeta, hn⟩ := h
  rcases evaluate_calls hG hf hbeta hn fuel with hg | ho | ⟨eid, pos, he, hd⟩
  · cases τ with
    | ty ty => obtain ⟨v, hr, _⟩ := hg; exact Or.inl ⟨v, hr⟩
    | logic => obtain ⟨b, hr, _⟩ := hg; exact Or.inr (Or.inl ⟨b, hr⟩)
  · exact Or.inr (Or.inr (Or.inl ho))
  · exact Or.inr (Or.inr (Or.inr ⟨eid, pos, he, hd⟩))

/-! non-vacuity: `D{x∈X1 | F1[{x}]={x}}` with `F1 :== [s∈ℬ(X1)] D{y∈X1 | y∈s}` has type `ℬ(X1)` and evaluates to `{1,2}` -/
example : Typed7 Examples7.env7 Examples7.caller (.ty (.coll Examples.X)) :=
  ⟨_, _, _, 2, 10, Examples7.globalsOK_7, Examples7.callerN_frag, Examples7.caller_beta, Examples7.caller_normalizes⟩
example : (evaluate 20 Examples7.env7 Examples7.caller).1 = .ok (.s [.e 1, .e 2]) := by decide

/-! ## stage 8: filters (`ViFilter`, `EvaluateFilterTuple`, `EvaluateFilterComplex`)

`Typed8` = `Typed6` with the fragment `FragF` (`Lemmas/EvalFiltersSim.lean`): `FragR` plus `Fi_{i1..ik}[P1,…,Pk](S)` with
`S : ℬ(τ₁×…×τₙ)`, `P_j : ℬ(τ_{i_j})` and `Fi_{i1,…,ik}[P](S)` (`k ≥ 2`) with `P : ℬ(τ_{i_1}×…×τ_{i_k})`; the result has the
type of `S`.  What could fault in the C++: `std::get<StructuredData>` of a parameter / the argument, `B()` of a
non-set, `T().Component(index)` of a member that is no tuple or has no such component, `params[i]` - none of them does
on a typed filter. -/

def Typed8 (env : Env) (e : Ast) (τ : ExprTy) : Prop :=
  ∃ G n, GlobalsOK env G ∧ FragF env G 6 [] [] e n τ ∧ NoCollide (patsOf e)

theorem typed6_sub_typed8 {env : Env} {e : Ast} {τ : ExprTy} (h : Typed6 env e τ) : Typed8 env e τ :=
  let ⟨G, n, hG, hf, hP⟩ := h; ⟨G, n, hG, hf.toF (Nat.le_refl _), hP⟩

/-- **progress_preservation_partial8**: stage 6 extended with filters: evaluating the normalised tree never faults
(never `stuck`), a returned value has the type of the expression (for a filter: the type of its argument), errors are
documented ones. -/
theorem progress_preservation_partial8 : progress_preservation_statement Typed8 := by
  intro env e τ ⟨G, n, hG, hf, hP⟩ fuel
  rcases evaluate_fragF_of_norm hG hf fuel (hf.normalizesTree6 hP fuel) with hg | ho | ⟨eid, pos, he, hd⟩
  · cases τ with
    | ty ty =>
      obtain ⟨v, hr, hw, _, _⟩ := hg
      rw [hr]
      exact ⟨ty, rfl, (hasTy_iff v ty).mp hw.1⟩
    | logic =>
      obtain ⟨b, hr, _⟩ := hg
      rw [hr]; rfl
  · rw [ho]; trivial
  · rw [he]; exact hd

/-- **values_canonical_partial8**: returned values are canonical and of an `R0`-free type -/
theorem values_canonical_partial8 (env : Env) (e : Ast) (τ : ExprTy) (h : Typed8 env e τ) (fuel : Nat) (v : Val)
    (hv : (evaluate fuel env e).1 = .ok v) : canon v = true ∧ ∃ ty, τ = .ty ty ∧ noAny ty = true := by
  obtain ⟨G, n, hG, hf, hP⟩ := h
  rcases evaluate_fragF_of_norm hG hf fuel (hf.normalizesTree6 hP fuel) with hg | ho | ⟨eid, pos, he, _⟩
  · cases τ with
    | ty ty =>
      obtain ⟨v', hr, hw, hn, _⟩ := hg
      rw [hr] at hv; injection hv with hv; subst hv
      exact ⟨hw.2, ty, rfl, hn⟩
    | logic =>
      obtain ⟨b, hr, _⟩ := hg
      rw [hr] at hv; cases hv
  · rw [ho] at hv; cases hv
  · rw [he] at hv; cases hv

/-- **never_stuck_partial8**: the possible outcomes on stage 8 -/
theorem never_stuck_partial8 (env : Env) (e : Ast) (τ : ExprTy) (h : Typed8 env e τ) (fuel : Nat) :
    (∃ v, (evaluate fuel env e).1 = .ok v) ∨ (∃ b, (evaluate fuel env e).1 = .okBool b) ∨
    (evaluate fuel env e).1 = .outOfFuel ∨ (∃ eid pos, (evaluate fuel env e).1 = .err eid pos ∧ Documented eid) := by
  obtain ⟨G, n, hG, hf, hP⟩ := h
  rcases evaluate_fragF_of_norm hG hf fuel (hf.normalizesTree6 hP fuel) with hg | ho | ⟨eid, pos, he, hd⟩
  · cases τ with
    | ty ty => obtain ⟨v, hr, _⟩ := hg; exact Or.inl ⟨v, hr⟩
    | logic => obtain ⟨b, hr, _⟩ := hg; exact Or.inr (Or.inl ⟨b, hr⟩)
  · exact Or.inr (Or.inr (Or.inl ho))
  · exact Or.inr (Or.inr (Or.inr ⟨eid, pos, he, hd⟩))

/-! non-vacuity (`Lemmas/EvalExamples8.lean`): `Fi1[{1}]({1,2}×{1,2})` has type `ℬ(Z×Z)` and evaluates to `{(1,1),(1,2)}`;
the conjunction `e8` of C01's example (both filter forms, empty first parameter before an erroneous one, empty argument,
tuple pattern over a filter) is LOGIC and evaluates to `true` -/
example : Typed8 Examples.env0 Examples.e8v (.ty (.coll (.tuple [Examples.Z, Examples.Z]))) :=
  ⟨[], _, by intro g τ h; simp [lookup] at h, Examples.e8v_frag _ _, Examples.e8v_nocollide⟩
example : (evaluate 30 Examples.env0 Examples.e8v).1 = .ok (.s [.t [.e 1, .e 1], .t [.e 1, .e 2]]) := by decide
example : Typed8 Examples.env0 Examples.e8 .logic :=
  ⟨[], _, by intro g τ h; simp [lookup] at h, Examples.e8_frag, Examples.e8_nocollide⟩
example : (evaluate 30 Examples.env0 Examples.e8).1 = .okBool true := by decide

/-! ## stage 7 without the per-expression normaliser hypothesis (`Lemmas/EvalCallsNorm.lean`)

`Typed7n`: `e` is of the class `CN` (calls with call-free, binder-free arguments and bodies, anywhere among the
stage-3 constructs); its inlined form `es` - which `CN.normalize` proves to be what the normaliser returns - is typed in
stage 6; the type of `e` is taken to be the type of `es`. -/

def Typed7n (env : Env) (e : Ast) (τ : ExprTy) : Prop :=
  ∃ G es, GlobalsOK env G ∧ CN env.funcs [] e es ∧ FragR env G 6 [] [] es es τ

theorem typed7n_sub_typed7 {env : Env} {e : Ast} {τ : ExprTy} (h : Typed7n env e τ)
    (hf : ∃ f0 n, normalizeTree env.funcs f0 e = some n) : Typed7 env e τ := by
  obtain ⟨G, es, hG, hcn, hfr⟩ := h
  obtain ⟨f0, n, hn⟩ := hf
  have : n = es := by
    rcases hcn.normalizesTree f0 with h1 | h1
    · rw [h1] at hn; cases hn
    · rw [h1] at hn; injection hn with hn; exact hn.symm
  subst this
  exact ⟨G, n, n, 2, f0, hG, hfr, hcn.beta, hn⟩

/-- **progress_preservation_partial7n**: calls of the class `CN`: evaluating the inlined tree never faults, a value has
the type of the expression, errors are documented ones - with no hypothesis about the normaliser's answer -/
theorem progress_preservation_partial7n : progress_preservation_statement Typed7n := by
  intro env e τ ⟨G, es, hG, hcn, hf⟩ fuel
  rcases evaluate_calls' hG hf hcn.beta hcn.normalizesTree fuel with hg | ho | ⟨eid, pos, he, hd⟩
  · cases τ with
    | ty ty =>
      obtain ⟨v, hr, hw, _, _⟩ := hg
      rw [hr]
      exact ⟨ty, rfl, (hasTy_iff v ty).mp hw.1⟩
    | logic =>
      obtain ⟨b, hr, _⟩ := hg
      rw [hr]; rfl
  · rw [ho]; trivial
  · rw [he]; exact hd

/-! non-vacuity: `D{x∈X1 | F2[{x}, X1] = {x}}` with `F2 :== [s∈ℬ(X1), t∈ℬ(X1)] s∩t` has type `ℬ(X1)` and evaluates to `{1,2}` -/
example : Typed7n Examples7.env7n Examples7.caller2 (.ty (.coll Examples.X)) :=
  ⟨_, _, Examples7.globalsOK_7n, Examples7.caller2_cn, Examples7.caller2N_frag⟩
example : (evaluate 20 Examples7.env7n Examples7.caller2).1 = .ok (.s [.e 1, .e 2]) := by decide

/-! ## the fuel of the model (`Lemmas/EvalFuel*.lean`)

The real evaluator has no fuel: its recursion is structural on the tree, every loop runs over a finite set or stops at
`MAX_ITERATIONS`.  In the model the fuel only has to cover the DEPTH of the recursion: `fuelBound f0 n = max f0 (evDepth n)`
(`f0` = a fuel at which the normaliser answers `n` for `e` - a closed computation per expression, `normalizeTree` is
monotone in its fuel; `evDepth n` = nesting depth of the normalised tree, enough for the name collector and for the
interpreter, whose `R{}` / `I{}` loops carry their own bound `MAX_ITERATIONS + 2`).  The other source of `outOfFuel` are the
model's limits for materialising the lazy sets of the C++ (`ℬ` beyond `POW_LIMIT` members outside `∈`, `×` beyond
`PROD_LIMIT`): no fuel removes those, they are excluded syntactically by `eagerFree` (no `ℬ`, no `×`, no `R{}`, `I{}`,
no filter in the normalised tree). -/

/-- what C02 allows when the fuel is sufficient: `Sound` without `outOfFuel` -/
def SoundTotal (r : EvalRes) (τ : ExprTy) : Prop :=
  match r with
  | .ok v => ∃ t, τ = .ty t ∧ ValHasTy v t
  | .okBool _ => τ = .logic
  | .err eid _ => Documented eid
  | .outOfFuel => False
  | .stuck _ => False

private theorem soundTotal_of {r : EvalRes} {τ : ExprTy} (h : Sound r τ) (hn : r ≠ .outOfFuel) : SoundTotal r τ := by
  cases r with
  | outOfFuel => exact absurd rfl hn
  | ok v => exact h
  | okBool b => exact h
  | err e p => exact h
  | stuck s => exact h

/-- **full statement**: with the fuel `bound env e` the outcome is a value of the type, a truth value exactly for LOGIC,
or a documented error - nothing else - and it is the outcome at every larger fuel -/
def progress_preservation_total_statement (Typed : Env → Ast → ExprTy → Prop) (bound : Env → Ast → Nat) : Prop :=
  ∀ (env : Env) (e : Ast) (τ : ExprTy), Typed env e τ → ∀ fuel, bound env e ≤ fuel →
    SoundTotal (evaluate fuel env e).1 τ ∧ evaluate fuel env e = evaluate (bound env e) env e

/-- **evaluate_fuel_stable**: EVERY expression, every environment: once the normaliser has answered (`f0`), the outcome of
`Interpreter::Evaluate` (result and iteration count) is the same for all fuels from `fuelBound f0 n` on; in particular an
`outOfFuel` there is one at every fuel (a materialisation limit of the model, not the recursion depth) -/
theorem evaluate_fuel_stable (env : Env) (e n : Ast) (f0 : Nat) (hn : normalizeTree env.funcs f0 e = some n)
    (fuel : Nat) (hf : fuelBound f0 n ≤ fuel) : evaluate fuel env e = evaluate (fuelBound f0 n) env e :=
  evaluate_fuel_stable' hn fuel _ hf (Nat.le_refl _)

/-- **evaluate_fuel_sufficient_partial**: if the normalised tree is `eagerFree`, the outcome from `fuelBound f0 n` on is
not `outOfFuel` (every expression - typed or not - every environment) -/
theorem evaluate_fuel_sufficient_partial (env : Env) (e n : Ast) (f0 : Nat) (hn : normalizeTree env.funcs f0 e = some n)
    (he : eagerFree n = true) (fuel : Nat) (hf : fuelBound f0 n ≤ fuel) : (evaluate fuel env e).1 ≠ .outOfFuel :=
  evaluate_fuel_sufficient' hn he fuel hf

/-- the two passes after the normaliser, for EVERY tree: from the depth of the tree on the fuel does not matter, and
the name collector never answers `outOfFuel` there -/
theorem evalNorm_fuel_stable_all (env : Env) (nt : Ast) (fuel : Nat) (hf : evDepth nt ≤ fuel) :
    evalNorm fuel env nt = evalNorm (evDepth nt) env nt ∧ collect env fuel nt {} ≠ .fail .outOfFuel :=
  ⟨evalNorm_fuel_stable env nt fuel _ hf (Nat.le_refl _), collect_fuel_sufficient env fuel nt {} hf⟩

private theorem total_of {Typed : Env → Ast → ExprTy → Prop} (hs : progress_preservation_statement Typed)
    {env : Env} {e n : Ast} {τ : ExprTy} {f0 : Nat} (ht : Typed env e τ) (hn : normalizeTree env.funcs f0 e = some n)
    (he : eagerFree n = true) (fuel : Nat) (hf : fuelBound f0 n ≤ fuel) :
    SoundTotal (evaluate fuel env e).1 τ ∧ evaluate fuel env e = evaluate (fuelBound f0 n) env e :=
  ⟨soundTotal_of (hs env e τ ht fuel) (evaluate_fuel_sufficient' hn he fuel hf), evaluate_fuel_stable' hn fuel _ hf (Nat.le_refl _)⟩

/-- **progress_preservation_total_partial3**: stage 3 (ground set constructs, globals, `∀ ∃ D{}` over plain variables) without
eager `ℬ` and without `×`: from the fuel `evDepth e` on (the normaliser is covered: `FragR.normalizesTree_some`), the outcome is
a value of the type of the expression, a truth value exactly for LOGIC, or a documented error - never `outOfFuel`, never
`stuck` - and it is the same at every such fuel. -/
theorem progress_preservation_total_partial3 :
    progress_preservation_total_statement (fun env e τ => Typed3 env e τ ∧ eagerFree e = true) (fun _ e => evDepth e) := by
  intro env e τ ⟨⟨G, hG, hfr⟩, he⟩ fuel hf
  have hn := FragR.normalizesTree_some hfr (evDepth e) (Nat.le_refl _)
  have hb : fuelBound (evDepth e) e = evDepth e := by simp [fuelBound]
  have := total_of progress_preservation_partial3 ⟨G, hG, hfr⟩ hn he fuel (by rw [hb]; exact hf)
  rw [hb] at this
  exact this

/-- **progress_preservation_total_partial6**: the same for stages 5 / 6 (enumerated declarations, flat tuple patterns):
`n` is the normal form the normaliser returns -/
theorem progress_preservation_total_partial6 (env : Env) (e n : Ast) (τ : ExprTy) (f0 : Nat) (h : Typed6 env e τ)
    (hn : normalizeTree env.funcs f0 e = some n) (he : eagerFree n = true) (fuel : Nat) (hf : fuelBound f0 n ≤ fuel) :
    SoundTotal (evaluate fuel env e).1 τ ∧ evaluate fuel env e = evaluate (fuelBound f0 n) env e :=
  total_of progress_preservation_partial6 h hn he fuel hf

/-- **progress_preservation_total_partial7**: the same for expressions with calls (`Typed7`; `f0` covers the fuel the
normaliser needs to inline the calls) -/
theorem progress_preservation_total_partial7 (env : Env) (e n : Ast) (τ : ExprTy) (f0 : Nat) (h : Typed7 env e τ)
    (hn : normalizeTree env.funcs f0 e = some n) (he : eagerFree n = true) (fuel : Nat) (hf : fuelBound f0 n ≤ fuel) :
    SoundTotal (evaluate fuel env e).1 τ ∧ evaluate fuel env e = evaluate (fuelBound f0 n) env e :=
  total_of progress_preservation_partial7 h hn he fuel hf

/-! non-vacuity: `e3` = `∀x∈X1 ∃y∈X1 ((x,y)∈D1 ∨ (y,x)∈D1) & D{x∈X1 | ∃y∈X1 (x,y)∈D1} = Pr1(D1)` over `X1 = {1,2,3}` (nested
quantifiers): the normaliser answers at fuel 7, the tree is `eagerFree`, the bound is 7, the outcome at the bound is `true` -/
example : normalizeTree Examples.envS.funcs 7 Examples.e3 = some Examples.e3 := by rfl
example : eagerFree Examples.e3 = true := by decide
example : fuelBound 7 Examples.e3 = 7 := by decide
example : (evaluate (fuelBound 7 Examples.e3) Examples.envS Examples.e3).1 = .okBool true := by decide
example : evDepth Examples.e3 = 7 := by decide
example : SoundTotal (evaluate 9 Examples.envS Examples.e3).1 .logic ∧
    evaluate 9 Examples.envS Examples.e3 = evaluate (evDepth Examples.e3) Examples.envS Examples.e3 :=
  progress_preservation_total_partial3 Examples.envS Examples.e3 .logic
    ⟨⟨_, Examples.globalsOK_S, Examples.e3_frag⟩, by decide⟩ 9 (by decide)
example : ∀ fuel, 7 ≤ fuel → (evaluate fuel Examples.envS Examples.e3).1 = .okBool true := by
  intro fuel hf
  have h := evaluate_fuel_stable Examples.envS Examples.e3 Examples.e3 7 (by rfl) fuel (by
    have : fuelBound 7 Examples.e3 = 7 := by decide
    omega)
  rw [h]; decide

/-! ## the fuel of the model, part 2: `R{}`, `I{}`, filters; a closed bound for the normaliser (`Lemmas/EvalFuelLoops*.lean`,
`Lemmas/EvalFuelNormBound.lean`)

The loops of `R{}` / `I{}` carry the bound `MAX_ITERATIONS + 2` of their own.  A visit never decreases the iteration counter
(`Adv`), every round adds one, and a round beyond `MAX_ITERATIONS` ends with the documented error `iterationsLimit`: the
bound is never what stops them (`recLoop_adv`, `impLoop_adv`).  A filter evaluates its children and runs no loop of its own.
What remains excluded are the two constructs with a materialisation limit of the MODEL, `ℬ` and `×` (`matFree`). -/

/-- **evaluate_fuel_sufficient_partial2**: `eagerFree` relaxed to `matFree` - the normalised tree may contain `R{}`, `I{}` and
filters, only `ℬ` and `×` are excluded: the outcome from `fuelBound f0 n` on is not `outOfFuel` (every expression - typed or
not - every environment) -/
theorem evaluate_fuel_sufficient_partial2 (env : Env) (e n : Ast) (f0 : Nat) (hn : normalizeTree env.funcs f0 e = some n)
    (he : matFree n = true) (fuel : Nat) (hf : fuelBound f0 n ≤ fuel) : (evaluate fuel env e).1 ≠ .outOfFuel :=
  evaluate_fuel_sufficient2' hn he fuel hf

/-- the hypothesis of `evaluate_fuel_sufficient_partial` is a special case -/
theorem eagerFree_sub_matFree (n : Ast) (h : eagerFree n = true) : matFree n = true := eagerFree_matFree n h

/-- the iteration counter the interpreter reports never decreases during a visit, and a visit of a `matFree` tree is never
cut short by the model: the invariant behind `evaluate_fuel_sufficient_partial2`, for every context, parent and state -/
theorem ev_counter_monotone (c : Ctx) (fuel : Nat) (a : Ast) (p : Option Tok) (st : St) (he : matFree a = true)
    (hf : evDepth a ≤ fuel) :
    (∀ k, ev c fuel a p st ≠ .fail .outOfFuel k) ∧ ∀ v st', ev c fuel a p st = .ok v st' → st.iters ≤ st'.iters :=
  ev_fuel_sufficient2 c fuel a p st he hf

/-- names of the functions called in a tree -/
def calledIn : Ast → List String
  | .node tk _ _ _ ks =>
    (if tk == .NT_FUNC_CALL then [match ks with | k :: _ => textOf k | [] => ""] else []) ++ go ks
where
  go : List Ast → List String
    | [] => []
    | k :: ks => calledIn k ++ go ks

/-- the function context is acyclic: under some rank a definition only calls definitions of smaller rank -/
def FuncsAcyclic (fs : Funcs) : Prop :=
  ∃ rank : String → Nat, ∀ f tree, lookup f fs = some tree → ∀ g ∈ calledIn tree, lookup g fs ≠ none → rank g < rank f

/-- **full statement** (open): a closed fuel bound for the normaliser on EVERY tree over an acyclic function context
(enumerated declarations, tuple patterns, call inlining) -/
def normalize_fuel_sufficient_statement : Prop :=
  ∃ bound : Funcs → Ast → Nat, ∀ (fs : Funcs) (e : Ast), FuncsAcyclic fs → ∀ fuel, bound fs e ≤ fuel → normalizeTree fs fuel e ≠ none

/-- **normalize_fuel_sufficient_partial**: the part without rewriting - no tuple pattern, no enumerated declaration, no call
anywhere in `e` (`inert`; nothing else is asked: any arity, any nesting, typed or not, any function context): from the closed
bound `normFuel e = evDepth e` on, `SyntaxTree::Normalize` answers, and its answer is `e` itself -/
theorem normalize_fuel_sufficient_partial (fs : Funcs) (e : Ast) (h : inert e = true) (fuel : Nat) (hf : normFuel e ≤ fuel) :
    normalizeTree fs fuel e = some e :=
  normalizeTree_inert fs e h fuel hf

private theorem total_of2 {Typed : Env → Ast → ExprTy → Prop} (hs : progress_preservation_statement Typed)
    {env : Env} {e n : Ast} {τ : ExprTy} {f0 : Nat} (ht : Typed env e τ) (hn : normalizeTree env.funcs f0 e = some n)
    (he : matFree n = true) (fuel : Nat) (hf : fuelBound f0 n ≤ fuel) :
    SoundTotal (evaluate fuel env e).1 τ ∧ evaluate fuel env e = evaluate (fuelBound f0 n) env e :=
  ⟨soundTotal_of (hs env e τ ht fuel) (evaluate_fuel_sufficient2' hn he fuel hf), evaluate_fuel_stable' hn fuel _ hf (Nat.le_refl _)⟩

/-- **progress_preservation_total_partial8**: stage 8 (stages 1-6 with `R{}`, `I{}`, and filters) on expressions without
patterns / enumerated declarations (`inert`: the normaliser is covered by the CLOSED bound, no per-expression hypothesis) and
without `ℬ` / `×` (`matFree`): from the fuel `evDepth e` on the outcome is a value of the type of the expression, a truth value
exactly for LOGIC, or a documented error (`iterationsLimit` among them) - never `outOfFuel`, never `stuck` - and it is the same
at every such fuel. -/
theorem progress_preservation_total_partial8 :
    progress_preservation_total_statement (fun env e τ => Typed8 env e τ ∧ inert e = true ∧ matFree e = true)
      (fun _ e => evDepth e) := by
  intro env e τ ⟨ht, hi, he⟩ fuel hf
  have hn := normalizeTree_inert env.funcs e hi (evDepth e) (Nat.le_refl _)
  have hb : fuelBound (evDepth e) e = evDepth e := by simp [fuelBound]
  have := total_of2 progress_preservation_partial8 ht hn he fuel (by rw [hb]; exact hf)
  rw [hb] at this
  exact this

/-- **progress_preservation_total_partial8n**: all of stage 8 (patterns and enumerated declarations included); `n` is the
normal form the normaliser returns at `f0` (per-expression), `ℬ` / `×` absent from it -/
theorem progress_preservation_total_partial8n (env : Env) (e n : Ast) (τ : ExprTy) (f0 : Nat) (h : Typed8 env e τ)
    (hn : normalizeTree env.funcs f0 e = some n) (he : matFree n = true) (fuel : Nat) (hf : fuelBound f0 n ≤ fuel) :
    SoundTotal (evaluate fuel env e).1 τ ∧ evaluate fuel env e = evaluate (fuelBound f0 n) env e :=
  total_of2 progress_preservation_partial8 h hn he fuel hf

/-- **progress_preservation_total_partial7b**: expressions with calls (`Typed7`), `R{}` / `I{}` / filters allowed in the
inlined form -/
theorem progress_preservation_total_partial7b (env : Env) (e n : Ast) (τ : ExprTy) (f0 : Nat) (h : Typed7 env e τ)
    (hn : normalizeTree env.funcs f0 e = some n) (he : matFree n = true) (fuel : Nat) (hf : fuelBound f0 n ≤ fuel) :
    SoundTotal (evaluate fuel env e).1 τ ∧ evaluate fuel env e = evaluate (fuelBound f0 n) env e :=
  total_of2 progress_preservation_partial7 h hn he fuel hf

/-! non-vacuity.  `R{ξ:=0 | ξ<3 | ξ+1}` (not `eagerFree`): inert, `matFree`, depth 3, value 3 after 4 rounds;
`I{ξ | ξ:∈X1; ξ∈D1}` over `X1 = {1,2,3}`, `D1 = {2,3,5}`: value `{2,3}`; the stage-4 conjunction `e5` (`R{}` in both forms and
`I{}` with an assignment and a guard) is `Typed8`, inert and `matFree`. -/
private def recEx : Ast := nd .NT_RECURSIVE_FULL [loc "ξ", lit 0, nd .LESSER [loc "ξ", lit 3], nd .PLUS [loc "ξ", lit 1]]
private def envXD : Env := { globals := [("X1", .s [.e 1, .e 2, .e 3]), ("D1", .s [.e 2, .e 3, .e 5])] }
private def impEx2 : Ast := nd .NT_IMPERATIVE_EXPR [loc "ξ", nd .ITERATE [loc "ξ", glob "X1"], nd .IN [loc "ξ", glob "D1"]]

example : eagerFree recEx = false ∧ matFree recEx = true ∧ inert recEx = true ∧ normFuel recEx = 3 := by decide
example : normalizeTree [] 3 recEx = some recEx := normalize_fuel_sufficient_partial [] recEx (by decide) 3 (by decide)
example : evaluate 3 {} recEx = (.ok (.e 3), 4) := by decide
example : ∀ fuel, 3 ≤ fuel → (evaluate fuel {} recEx).1 ≠ .outOfFuel := fun fuel hf =>
  evaluate_fuel_sufficient_partial2 {} recEx recEx 3 (normalize_fuel_sufficient_partial _ _ (by decide) _ (by decide)) (by decide) fuel (by
    have : fuelBound 3 recEx = 3 := by decide
    omega)
example : eagerFree impEx2 = false ∧ matFree impEx2 = true ∧ inert impEx2 = true ∧ normFuel impEx2 = 3 := by decide
example : (evaluate 3 envXD impEx2).1 = .ok (.s [.e 2, .e 3]) := by decide
example : ∀ fuel, 3 ≤ fuel → (evaluate fuel envXD impEx2).1 ≠ .outOfFuel := fun fuel hf =>
  evaluate_fuel_sufficient_partial2 envXD impEx2 impEx2 3 (normalize_fuel_sufficient_partial _ _ (by decide) _ (by decide)) (by decide) fuel (by
    have : fuelBound 3 impEx2 = 3 := by decide
    omega)
example : Typed8 Examples.env0 Examples.e5 .logic ∧ inert Examples.e5 = true ∧ matFree Examples.e5 = true :=
  ⟨⟨[], _, by intro g τ h; simp [lookup] at h, (FragR.mono (by decide) Examples.e5_frag).toF (Nat.le_refl _), by
      have : patsOf Examples.e5 = [] := by decide
      rw [this]; intro xs h; cases h⟩, by decide, by decide⟩
example : evDepth Examples.e5 = 10 := by decide
example : (evaluate 10 Examples.env0 Examples.e5).1 = .okBool true := by decide

/-! ## stage 9: NESTED tuple patterns in `∀ ∃ D{}` (the evaluator runs on ONE generated variable per pattern and chains
of projections for the leaves)

`Typed9 env e τ`: `e` un-nests (`Unn`, `Lemmas/EvalNestedSound.lean`: every pattern replaced by the flat pattern of its
top-level components - an inner pattern becomes one variable named by the concatenation of its leaves -, every leaf of
an inner pattern by its projection chain) to an expression `es` of stage 8 of type `τ`, whose normal form is what the
normaliser returns for `e` (nested and flat form have the same generated name and the same chains; a closed
computation for a concrete expression).  The type of `e` is that of its flat form.  What could fault in the C++: every
`T().Component(i)` along a chain `pr_j(pr_i(@…))` - the member in the slot of the generated variable has the type of
the pattern, so every step of the chain finds a tuple with that component.  Not covered: nested patterns together with
`R{}` / `I{}` / enumerated declarations / filters / calls; patterns in `R{}` / `I{}` blocks. -/

def Typed9 (env : Env) (e : Ast) (τ : ExprTy) : Prop :=
  ∃ G es n f0, GlobalsOK env G ∧ FragF env G 6 [] [] es n τ ∧ Unn (senvOf env) [] [] e es ∧
    normalizeTree env.funcs f0 e = some n

/-- **progress_preservation_partial9**: expressions with nested tuple patterns: evaluating the normalised tree never
faults, a value has the type of the expression, a truth value exactly for LOGIC, errors are documented ones. -/
theorem progress_preservation_partial9 : progress_preservation_statement Typed9 := by
  intro env e τ ⟨G, es, n, f0, hG, hf, hu, hn⟩ fuel
  rcases evaluate_nested hG hf hu hn fuel with hg | ho | ⟨eid, pos, he, hd⟩
  · cases τ with
    | ty ty =>
      obtain ⟨v, hr, hw, _, _⟩ := hg
      rw [hr]
      exact ⟨ty, rfl, (hasTy_iff v ty).mp hw.1⟩
    | logic =>
      obtain ⟨b, hr, _⟩ := hg
      rw [hr]; rfl
  · rw [ho]; trivial
  · rw [he]; exact hd

/-- **never_stuck_partial9**: the possible outcomes on stage 9 -/
theorem never_stuck_partial9 (env : Env) (e : Ast) (τ : ExprTy) (h : Typed9 env e τ) (fuel : Nat) :
    (∃ v, (evaluate fuel env e).1 = .ok v) ∨ (∃ b, (evaluate fuel env e).1 = .okBool b) ∨
    (evaluate fuel env e).1 = .outOfFuel ∨ (∃ eid pos, (evaluate fuel env e).1 = .err eid pos ∧ Documented eid) := by
  obtain ⟨G, es, n, f0, hG, hf, hu, hn⟩ := h
  rcases evaluate_nested hG hf hu hn fuel with hg | ho | ⟨eid, pos, he, hd⟩
  · cases τ with
    | ty ty => obtain ⟨v, hr, _⟩ := hg; exact Or.inl ⟨v, hr⟩
    | logic => obtain ⟨b, hr, _⟩ := hg; exact Or.inr (Or.inl ⟨b, hr⟩)
  · exact Or.inr (Or.inr (Or.inl ho))
  · exact Or.inr (Or.inr (Or.inr ⟨eid, pos, he, hd⟩))

/-! non-vacuity (`Lemmas/EvalNestedExamples.lean`), `X1 = {1,2}`: `∀((a,b),c)∈(X1×X1)×X1 (a=c ∨ b=c)` is LOGIC and evaluates to
`false`; `D{((a,b),c)∈(X1×X1)×X1 | a=b}` has type `ℬ((X1×X1)×X1)` and evaluates to its four members -/
example : Typed9 Examples7.env7 Examples9.e9 .logic :=
  ⟨_, _, _, 10, Examples7.globalsOK_7, Examples9.e9s_frag.toF (Nat.le_refl _), Examples9.e9_unn, Examples9.e9_normalizes⟩
example : Typed9 Examples7.env7 Examples9.d9 (.ty (.coll Examples9.T9)) :=
  ⟨_, _, _, 10, Examples7.globalsOK_7, Examples9.d9s_frag.toF (Nat.le_refl _), Examples9.d9_unn, Examples9.d9_normalizes⟩
example : (evaluate 30 Examples7.env7 Examples9.e9).1 = .okBool false := by decide
example : (evaluate 30 Examples7.env7 Examples9.d9).1 =
    .ok (.s [.t [.t [.e 1, .e 1], .e 1], .t [.t [.e 1, .e 1], .e 2], .t [.t [.e 2, .e 2], .e 1], .t [.t [.e 2, .e 2], .e 2]]) := by
  decide

/-! ## stage 10: tuple patterns in the blocks of `I{}`, in the variable position of `R{}`, inside enumerated declarations
(the block machine / `ViRecursion` / the nested quantifiers run on ONE generated local per pattern)

`Typed10 env e τ`: `e` goes by pattern elimination (`PE`, `Lemmas/EvalBlocksPatSound.lean`: every declaration - plain or a
pattern of any depth, in `∀ ∃ D{}`, enumerated declarations, `R{}`, `:∈` / `:=` blocks of `I{}` - replaced by one plain
variable, every leaf by its projection chain) to an expression `es` of stage 8 of type `τ` over plain variables, whose
normal form is what the normaliser returns for `e` (a closed computation for a concrete expression).  The type of `e` is
that of `es`.  What could fault in the C++: every `T().Component(i)` along a chain `pr_j(pr_i(@…))` read from the slot the
block machine / the recursion assigned - the value in the slot has the type of the pattern (members of the typed domain,
typed initial value and typed step), so every step of the chain finds a tuple with that component; `SlotGuard` /
`outerValues` put the slot of the generated local back.  Not covered: filters / calls inside an expression with patterns. -/

def Typed10 (env : Env) (e : Ast) (τ : ExprTy) : Prop :=
  ∃ G es n f0, GlobalsOK env G ∧ FragF env G 6 [] [] es n τ ∧ PE (senvOf env) [] [] e es ∧
    normalizeTree env.funcs f0 e = some n

/-- **progress_preservation_partial10**: expressions with tuple patterns in `I{}` blocks / `R{}` / enumerated declarations:
evaluating the normalised tree never faults, a value has the type of the expression, a truth value exactly for LOGIC,
errors are documented ones. -/
theorem progress_preservation_partial10 : progress_preservation_statement Typed10 := by
  intro env e τ ⟨G, es, n, f0, hG, hf, hu, hn⟩ fuel
  rcases evaluate_blocksPat hG hf hu hn fuel with hg | ho | ⟨eid, pos, he, hd⟩
  · cases τ with
    | ty ty =>
      obtain ⟨v, hr, hw, _, _⟩ := hg
      rw [hr]
      exact ⟨ty, rfl, (hasTy_iff v ty).mp hw.1⟩
    | logic =>
      obtain ⟨b, hr, _⟩ := hg
      rw [hr]; rfl
  · rw [ho]; trivial
  · rw [he]; exact hd

/-- **never_stuck_partial10**: the possible outcomes on stage 10 -/
theorem never_stuck_partial10 (env : Env) (e : Ast) (τ : ExprTy) (h : Typed10 env e τ) (fuel : Nat) :
    (∃ v, (evaluate fuel env e).1 = .ok v) ∨ (∃ b, (evaluate fuel env e).1 = .okBool b) ∨
    (evaluate fuel env e).1 = .outOfFuel ∨ (∃ eid pos, (evaluate fuel env e).1 = .err eid pos ∧ Documented eid) := by
  obtain ⟨G, es, n, f0, hG, hf, hu, hn⟩ := h
  rcases evaluate_blocksPat hG hf hu hn fuel with hg | ho | ⟨eid, pos, he, hd⟩
  · cases τ with
    | ty ty => obtain ⟨v, hr, _⟩ := hg; exact Or.inl ⟨v, hr⟩
    | logic => obtain ⟨b, hr, _⟩ := hg; exact Or.inr (Or.inl ⟨b, hr⟩)
  · exact Or.inr (Or.inr (Or.inl ho))
  · exact Or.inr (Or.inr (Or.inr ⟨eid, pos, he, hd⟩))

/-! non-vacuity (`Lemmas/EvalBlocksPatExamples.lean`), `X1 = {1,2}`: `I{(a,b) | (a,b):∈X1×X1; a=b}` has type `ℬ(X1×X1)` and
evaluates to `{(1,1),(2,2)}`; `R{(a,b):=(0,0) | a<3 | (a+1,b+a)}` has type `Z×Z` and evaluates to `(3,3)`;
`∀(a,b),c∈X1×X1 a=a` is LOGIC and evaluates to `true` -/
example : Typed10 Examples7.env7 Examples10.i10 (.ty (.coll Examples10.XX)) :=
  ⟨_, _, _, 10, Examples7.globalsOK_7, Examples10.i10s_frag.toF (Nat.le_refl _), Examples10.i10_pe, Examples10.i10_normalizes⟩
example : Typed10 Examples7.env7 Examples10.r10 (.ty Examples10.ZZ) :=
  ⟨_, _, _, 10, Examples7.globalsOK_7, Examples10.r10s_frag.toF (Nat.le_refl _), Examples10.r10_pe, Examples10.r10_normalizes⟩
example : Typed10 Examples7.env7 Examples10.q10 .logic :=
  ⟨_, _, _, 10, Examples7.globalsOK_7, Examples10.q10s_frag.toF (Nat.le_refl _), Examples10.q10_pe, Examples10.q10_normalizes⟩
example : (evaluate 30 Examples7.env7 Examples10.i10).1 = .ok (.s [.t [.e 1, .e 1], .t [.e 2, .e 2]]) := by decide
example : (evaluate 30 Examples7.env7 Examples10.r10).1 = .ok (.t [.e 3, .e 3]) := by decide
example : (evaluate 30 Examples7.env7 Examples10.q10).1 = .okBool true := by decide

/-! ## stage 11: filters inside expressions with tuple patterns

`Typed11` = `Typed10` with `PE2` (`Lemmas/EvalBlocksPatFilter.lean`: the rules of `PE` + congruence for both forms of
`Fi…[…](…)`) for `PE`: the filter may stand in the domain of a pattern or in its scope, parameters and argument may use the
leaves.  What could fault in the C++: `T().Component(i)` in `EvaluateFilterTuple` / `EvaluateFilterComplex` on the members
of the argument - typed by stage 8 on the pattern-free form - and the projection chains of the leaves inside parameters
and argument, read from the slot of the generated local.  Not covered: calls inside an expression with patterns. -/

def Typed11 (env : Env) (e : Ast) (τ : ExprTy) : Prop :=
  ∃ G es n f0, GlobalsOK env G ∧ FragF env G 6 [] [] es n τ ∧ PE2 (senvOf env) [] [] e es ∧
    normalizeTree env.funcs f0 e = some n

/-- **progress_preservation_partial11**: expressions with tuple patterns in any binding position and filters anywhere:
evaluating the normalised tree never faults, a value has the type of the expression, a truth value exactly for LOGIC,
errors are documented ones. -/
theorem progress_preservation_partial11 : progress_preservation_statement Typed11 := by
  intro env e τ ⟨G, es, n, f0, hG, hf, hu, hn⟩ fuel
  rcases evaluate_blocksPatFilter hG hf hu hn fuel with hg | ho | ⟨eid, pos, he, hd⟩
  · cases τ with
    | ty ty =>
      obtain ⟨v, hr, hw, _, _⟩ := hg
      rw [hr]
      exact ⟨ty, rfl, (hasTy_iff v ty).mp hw.1⟩
    | logic =>
      obtain ⟨b, hr, _⟩ := hg
      rw [hr]; rfl
  · rw [ho]; trivial
  · rw [he]; exact hd

/-- **never_stuck_partial11**: the possible outcomes on stage 11 -/
theorem never_stuck_partial11 (env : Env) (e : Ast) (τ : ExprTy) (h : Typed11 env e τ) (fuel : Nat) :
    (∃ v, (evaluate fuel env e).1 = .ok v) ∨ (∃ b, (evaluate fuel env e).1 = .okBool b) ∨
    (evaluate fuel env e).1 = .outOfFuel ∨ (∃ eid pos, (evaluate fuel env e).1 = .err eid pos ∧ Documented eid) := by
  obtain ⟨G, es, n, f0, hG, hf, hu, hn⟩ := h
  rcases evaluate_blocksPatFilter hG hf hu hn fuel with hg | ho | ⟨eid, pos, he, hd⟩
  · cases τ with
    | ty ty => obtain ⟨v, hr, _⟩ := hg; exact Or.inl ⟨v, hr⟩
    | logic => obtain ⟨b, hr, _⟩ := hg; exact Or.inr (Or.inl ⟨b, hr⟩)
  · exact Or.inr (Or.inr (Or.inl ho))
  · exact Or.inr (Or.inr (Or.inr ⟨eid, pos, he, hd⟩))

/-- stage 10 is part of stage 11 -/
theorem typed10_sub_typed11 (env : Env) (e : Ast) (τ : ExprTy) (h : Typed10 env e τ) : Typed11 env e τ := by
  obtain ⟨G, es, n, f0, hG, hf, hu, hn⟩ := h
  exact ⟨G, es, n, f0, hG, hf, hu.toPE2, hn⟩

/-! non-vacuity (`Lemmas/EvalBlocksPatFilterExamples.lean`), `S = {1,2}×{1,2}`: `I{(a,b) | (a,b):∈S; (a,b)∈Fi1[{1}](S)}` has
type `ℬ(Z×Z)` and evaluates to `{(1,1),(1,2)}` -/
example : Typed11 Examples.env0 Examples11.i11 (.ty (.coll Examples11.ZZ)) :=
  ⟨[], _, _, 10, by intro g τ h; simp [lookup] at h, Examples11.i11s_frag, Examples11.i11_pe, Examples11.i11_normalizes⟩
example : (evaluate 30 Examples.env0 Examples11.i11).1 = .ok (.s [.t [.e 1, .e 1], .t [.e 1, .e 2]]) :=
  Examples11.i11_value.1

/-! ## stage 12: calls composed with tuple patterns / `R{}` / `I{}` / enumerated declarations / filters

`Typed12`: `e` β-reduces (`Beta2`, `Lemmas/EvalCallsPat.lean`: `Beta` of stage 7 with congruence through binders over
arbitrary declarations, `R{}`, `I{}`, enumerated declarations and filters, in the caller and in the bodies of the called
definitions) to the call-free `e1`, `e1` goes by pattern elimination (`PE2` of stage 11) to `es` over plain variables, `es`
is typed by stage 8 with normal form `n`, and `n` is what the normaliser returns for `e`.  What could fault in the C++ is
what could fault on the inlined, pattern-free tree - typed by stage 8.  Not proved: that the normaliser always returns such
an `n` (per-expression hypothesis). -/

def Typed12 (env : Env) (e : Ast) (τ : ExprTy) : Prop :=
  ∃ G e1 es n K f0, GlobalsOK env G ∧ FragF env G 6 [] [] es n τ ∧ Beta2 env.funcs K [] e e1 ∧
    PE2 (senvOf env) [] [] e1 es ∧ normalizeTree env.funcs f0 e = some n

/-- **progress_preservation_partial12**: expressions with calls AND tuple patterns / `R{}` / `I{}` / filters: evaluating
the normalised tree never faults, a value has the type of the expression, a truth value exactly for LOGIC, errors are
documented ones. -/
theorem progress_preservation_partial12 : progress_preservation_statement Typed12 := by
  intro env e τ ⟨G, e1, es, n, K, f0, hG, hf, hb, hu, hn⟩ fuel
  rcases evaluate_callsPat hG hf hb hu hn fuel with hg | ho | ⟨eid, pos, he, hd⟩
  · cases τ with
    | ty ty =>
      obtain ⟨v, hr, hw, _, _⟩ := hg
      rw [hr]
      exact ⟨ty, rfl, (hasTy_iff v ty).mp hw.1⟩
    | logic =>
      obtain ⟨b, hr, _⟩ := hg
      rw [hr]; rfl
  · rw [ho]; trivial
  · rw [he]; exact hd

/-- **never_stuck_partial12**: the possible outcomes on stage 12 -/
theorem never_stuck_partial12 (env : Env) (e : Ast) (τ : ExprTy) (h : Typed12 env e τ) (fuel : Nat) :
    (∃ v, (evaluate fuel env e).1 = .ok v) ∨ (∃ b, (evaluate fuel env e).1 = .okBool b) ∨
    (evaluate fuel env e).1 = .outOfFuel ∨ (∃ eid pos, (evaluate fuel env e).1 = .err eid pos ∧ Documented eid) := by
  obtain ⟨G, e1, es, n, K, f0, hG, hf, hb, hu, hn⟩ := h
  rcases evaluate_callsPat hG hf hb hu hn fuel with hg | ho | ⟨eid, pos, he, hd⟩
  · cases τ with
    | ty ty => obtain ⟨v, hr, _⟩ := hg; exact Or.inl ⟨v, hr⟩
    | logic => obtain ⟨b, hr, _⟩ := hg; exact Or.inr (Or.inl ⟨b, hr⟩)
  · exact Or.inr (Or.inr (Or.inl ho))
  · exact Or.inr (Or.inr (Or.inr ⟨eid, pos, he, hd⟩))

/-! non-vacuity (`Lemmas/EvalCallsPatExamples.lean`), `X1 = {1,2}`, `F1 :== [s∈ℬ(X1)] D{y∈X1 | y∈s}`:
`∀(a,b)∈X1×X1 F1[{a}]={a}` is LOGIC and evaluates to `true` -/
example : Typed12 Examples7.env7 Examples12.c12 .logic :=
  ⟨_, _, _, _, 2, 10, Examples7.globalsOK_7, Examples12.c12n_frag.toF (Nat.le_refl _), Examples12.c12_beta,
    Examples12.c12_pe, Examples12.c12_normalizes⟩
example : (evaluate 20 Examples7.env7 Examples12.c12).1 = .okBool true := Examples12.c12_value.1

end CCVerif.Eval
