import CCVerif.Model.Json
/-!
# C10 — saving and loading through JSON is lossless and stable

Theorems about the codecs of JSON.cpp between in-memory values and JSON trees. The composite
documents (RSForm, RSModel) are judged end-to-end on the implementation by the check's oracles;
here: the leaf codecs they are built from.
-/
namespace CCVerif.Json
open CCVerif.Translation

private theorem mapM_map_some {α β : Type} (f : α → β) (g : β → Option α) (h : ∀ a, g (f a) = some a) :
    ∀ xs : List α, (xs.map f).mapM g = some xs := by
  intro xs
  induction xs with
  | nil => simp
  | cons x xs ih => simp [List.mapM_cons, h, ih]

/-- **flags_roundtrip** -/
theorem flags_roundtrip (f : TrackingFlags) : TrackingFlags.fromJson f.toJson = some f := by
  cases f; simp [TrackingFlags.fromJson, TrackingFlags.toJson, Json.get, Json.asBool]

/-- **equation_roundtrip** -/
theorem equation_roundtrip (e : Equation) : Equation.fromJson e.toJson = some e := by
  cases e; simp [Equation.fromJson, Equation.toJson, Json.get, Json.asInt, Json.asStr]

private theorem pushBack_go_fresh (t : TextInterp) (k : Int) (h : ∀ p ∈ t, p.1 ≠ k) :
    ∀ fuel, fuel ≠ 0 → pushBack.go t fuel k = k := by
  intro fuel hf
  cases fuel with
  | zero => exact absurd rfl hf
  | succ f =>
    unfold pushBack.go
    have : (t.any (·.1 == k)) = false := by
      rw [List.any_eq_false]; intro p hp; simpa using h p hp
    simp [this]

private theorem foldl_pushBack_contiguous (ss : List String) (acc : TextInterp) (hc : Contiguous acc) :
    ss.foldl pushBack acc = acc ++ (ss.zipIdx.map fun (s, i) => (((acc.length + i : Nat) : Int) + 1, s)) := by
  induction ss generalizing acc with
  | nil => simp
  | cons s ss ih =>
    have hkeys : ∀ p ∈ acc, p.1 ≠ ((acc.length : Nat) : Int) + 1 := by
      intro p hp
      have hm : p.1 ∈ acc.map (·.1) := List.mem_map.2 ⟨p, hp, rfl⟩
      rw [hc] at hm
      obtain ⟨i, hi, e⟩ := List.mem_map.1 hm
      have := List.mem_range.1 hi
      omega
    have hpb : pushBack acc s = acc ++ [(((acc.length : Nat) : Int) + 1, s)] := by
      unfold pushBack
      rw [pushBack_go_fresh acc _ hkeys _ (by omega)]
    have hc' : Contiguous (pushBack acc s) := by
      rw [hpb]; unfold Contiguous at *
      simp [hc, List.range_succ]
    rw [List.foldl_cons, ih _ hc', hpb]
    simp only [List.length_append, List.length_cons, List.length_nil, List.append_assoc, List.singleton_append]
    congr 1
    rw [List.zipIdx_cons]
    simp only [List.map_cons, Nat.add_zero]
    congr 1
    rw [List.zipIdx_succ] 
    simp only [List.map_map]
    apply List.map_congr_left
    intro p _
    simp
    omega

/-- **text_roundtrip_partial**: a text interpretation whose keys are exactly `1..n` survives the
round trip. (The format stores the texts only; the hypothesis is what the proof needs.) -/
theorem text_roundtrip_partial (t : TextInterp) (hc : Contiguous t) :
    TextInterp.fromJson t.toJson = some t := by
  unfold TextInterp.fromJson TextInterp.toJson
  have hm : List.mapM Json.asStr (List.map (fun p : Int × String => Json.str p.2) t) = some (t.map (·.2)) := by
    have := mapM_map_some (fun (s : String) => Json.str s) Json.asStr (fun _ => rfl) (t.map (·.2))
    rw [List.map_map] at this
    exact this
  simp only [hm, Option.map_some, Option.some.injEq]
  rw [foldl_pushBack_contiguous _ [] (by simp [Contiguous])]
  simp only [List.nil_append, List.length_nil, Nat.zero_add]
  apply List.ext_getElem
  · simp
  · intro i h1 h2
    simp only [List.getElem_map, List.getElem_zipIdx, Nat.zero_add]
    have hk : (t[i]'h2).1 = (i : Int) + 1 := by
      have h3 := congrArg (fun l => l[i]?) hc
      simp only [List.getElem?_map] at h3
      rw [List.getElem?_eq_getElem h2, List.getElem?_range h2] at h3
      simpa using h3
    exact Prod.ext hk.symm rfl

/-- **text_roundtrip_counterexample** (recorded finding): keys `{1, 3}` come back as `{1, 2}` -/
theorem text_roundtrip_counterexample :
    TextInterp.fromJson (TextInterp.toJson [(1, "a"), (3, "b")]) = some [(1, "a"), (2, "b")] := by decide

/-- **text_save_load_save**: the document is stable for every interpretation (the texts and their
order survive, only the keys are renumbered) -/
theorem text_save_load_save (t : TextInterp) :
    (TextInterp.fromJson t.toJson).map TextInterp.toJson = some t.toJson := by
  unfold TextInterp.fromJson TextInterp.toJson
  have hm : List.mapM Json.asStr (List.map (fun p : Int × String => Json.str p.2) t) = some (t.map (·.2)) := by
    have := mapM_map_some (fun (s : String) => Json.str s) Json.asStr (fun _ => rfl) (t.map (·.2))
    rw [List.map_map] at this
    exact this
  simp only [hm, Option.map_some, Option.some.injEq, Json.arr.injEq]
  have : ∀ (ss : List String) (acc : TextInterp),
      (ss.foldl pushBack acc).map (fun p => Json.str p.2) = acc.map (fun p => Json.str p.2) ++ ss.map Json.str := by
    intro ss
    induction ss with
    | nil => simp
    | cons s ss ih => intro acc; rw [List.foldl_cons, ih]; simp [pushBack]
  rw [this]; simp [List.map_map, Function.comp_def]

/-- **translation_roundtrip**: a translation with distinct keys survives the round trip -/
theorem translation_roundtrip (t : Tr) (hn : (keys t).Nodup) : trFromJson (trToJson t) = some t := by
  unfold trFromJson trToJson
  have hm : List.mapM pairFromJson (List.map (fun p : Nat × Nat => Json.arr [Json.num p.1, Json.num p.2]) t) = some t := by
    apply mapM_map_some
    intro a; simp [pairFromJson]
  simp only [hm, Option.map_some, Option.some.injEq]
  have : ∀ (ps acc : Tr), (∀ p ∈ ps, containsKey acc p.1 = false) → (keys ps).Nodup →
      ps.foldl (fun acc p => Translation.insert acc p.1 p.2) acc = acc ++ ps := by
    intro ps
    induction ps with
    | nil => simp
    | cons p ps ih =>
      intro acc hfresh hnd
      rw [List.foldl_cons]
      have hp : containsKey acc p.1 = false := hfresh p (by simp)
      have hins : Translation.insert acc p.1 p.2 = acc ++ [p] := by unfold Translation.insert; simp [hp]
      rw [hins, ih]
      · simp
      · intro q hq
        have hq' := hfresh q (by simp [hq])
        have hne : p.1 ≠ q.1 := by
          simp only [keys, List.map_cons, List.nodup_cons] at hnd
          intro e; exact hnd.1 (e ▸ List.mem_map.2 ⟨q, hq, rfl⟩)
        unfold containsKey lookup at *
        rw [List.find?_append]
        cases hf : List.find? (fun x => x.1 == q.1) acc with
        | some x => rw [hf] at hq'; simp at hq'
        | none =>
          simp only [Option.none_or, List.find?_cons, List.find?_nil]
          have : (p.1 == q.1) = false := by simpa using hne
          simp [this]
      · simp only [keys, List.map_cons, List.nodup_cons] at hnd; exact hnd.2
  rw [this t [] (by intro p _; simp [containsKey, lookup]) hn]
  simp

/-- non-vacuity -/
example : Contiguous [(1, "a"), (2, "b"), (3, "c")] := by decide
example : trFromJson (trToJson [(5, 2), (7, 7)]) = some [(5, 2), (7, 7)] := by decide
example : (TrackingFlags.toJson { allowEdit := true }).dump =
    "{\"mutable\":true,\"editTerm\":false,\"editDefinition\":false,\"editConvention\":false}" := by decide

end CCVerif.Json
