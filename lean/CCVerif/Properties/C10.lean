import CCVerif.Model.Json
import CCVerif.Lemmas.JsonDoc
import CCVerif.Lemmas.JsonDocTags
import CCVerif.Lemmas.JsonDocModelLoad
import CCVerif.Lemmas.JsonDocModelLoad2
import CCVerif.Lemmas.JsonOss
import CCVerif.Lemmas.JsonOssLoad
import CCVerif.Lemmas.JsonOssGraph
import CCVerif.Lemmas.JsonOssReach
import CCVerif.Lemmas.JsonOssOrder
import CCVerif.Lemmas.JsonOssRows
import CCVerif.Lemmas.JsonOssRowsReach
import CCVerif.Lemmas.JsonOssLoadPict
import CCVerif.Lemmas.JsonOssLoadGraph
/-!
# C10 — saving and loading through JSON is lossless and stable

Theorems about the codecs of JSON.cpp between in-memory values and JSON trees.
First part: the leaf codecs (`Model/Json.lean`). Second part (below): the composite documents of
`RSForm` and `RSModel` (`Model/JsonDoc.lean`); the end-to-end oracles of the check (save, load,
compare, save again on the implementation) stay in place next to them.
-/
namespace CCVerif.Json
open CCVerif.Translation

private theorem mapM_map_some {α β : Type} (f : α → β) (g : β → Option α) (h : ∀ a, g (f a) = some a) :
    ∀ xs : List α, (xs.map f).mapM g = some xs := by
  intro xs
  induction xs with
  | nil => simp
  | cons x xs ih => simp [List.mapM_cons, h, ih]

/-- **flags_roundtrip** -/
theorem flags_roundtrip (f : TrackingFlags) : TrackingFlags.fromJson f.toJson = some f := by
  cases f; simp [TrackingFlags.fromJson, TrackingFlags.toJson, Json.get, Json.asBool]

/-- **equation_roundtrip** -/
theorem equation_roundtrip (e : Equation) : Equation.fromJson e.toJson = some e := by
  cases e; simp [Equation.fromJson, Equation.toJson, Json.get, Json.asInt, Json.asStr]

private theorem pushBack_go_fresh (t : TextInterp) (k : Int) (h : ∀ p ∈ t, p.1 ≠ k) :
    ∀ fuel, fuel ≠ 0 → pushBack.go t fuel k = k := by
  intro fuel hf
  cases fuel with
  | zero => exact absurd rfl hf
  | succ f =>
    unfold pushBack.go
    have : (t.any (·.1 == k)) = false := by
      rw [List.any_eq_false]; intro p hp; simpa using h p hp
    simp [this]

private theorem foldl_pushBack_contiguous (ss : List String) (acc : TextInterp) (hc : Contiguous acc) :
    ss.foldl pushBack acc = acc ++ (ss.zipIdx.map fun (s, i) => (((acc.length + i : Nat) : Int) + 1, s)) := by
  induction ss generalizing acc with
  | nil => simp
  | cons s ss ih =>
    have hkeys : ∀ p ∈ acc, p.1 ≠ ((acc.length : Nat) : Int) + 1 := by
      intro p hp
      have hm : p.1 ∈ acc.map (·.1) := List.mem_map.2 ⟨p, hp, rfl⟩
      rw [hc] at hm
      obtain ⟨i, hi, e⟩ := List.mem_map.1 hm
      have := List.mem_range.1 hi
      omega
    have hpb : pushBack acc s = acc ++ [(((acc.length : Nat) : Int) + 1, s)] := by
      unfold pushBack
      rw [pushBack_go_fresh acc _ hkeys _ (by omega)]
    have hc' : Contiguous (pushBack acc s) := by
      rw [hpb]; unfold Contiguous at *
      simp [hc, List.range_succ]
    rw [List.foldl_cons, ih _ hc', hpb]
    simp only [List.length_append, List.length_cons, List.length_nil, List.append_assoc, List.singleton_append]
    congr 1
    rw [List.zipIdx_cons]
    simp only [List.map_cons, Nat.add_zero]
    congr 1
    rw [List.zipIdx_succ] 
    simp only [List.map_map]
    apply List.map_congr_left
    intro p _
    simp
    omega

/-- **text_roundtrip_partial**: a text interpretation whose keys are exactly `1..n` survives the
round trip. (The format stores the texts only; the hypothesis is what the proof needs.) -/
theorem text_roundtrip_partial (t : TextInterp) (hc : Contiguous t) :
    TextInterp.fromJson t.toJson = some t := by
  unfold TextInterp.fromJson TextInterp.toJson
  have hm : List.mapM Json.asStr (List.map (fun p : Int × String => Json.str p.2) t) = some (t.map (·.2)) := by
    have := mapM_map_some (fun (s : String) => Json.str s) Json.asStr (fun _ => rfl) (t.map (·.2))
    rw [List.map_map] at this
    exact this
  simp only [hm, Option.map_some, Option.some.injEq]
  rw [foldl_pushBack_contiguous _ [] (by simp [Contiguous])]
  simp only [List.nil_append, List.length_nil, Nat.zero_add]
  apply List.ext_getElem
  · simp
  · intro i h1 h2
    simp only [List.getElem_map, List.getElem_zipIdx, Nat.zero_add]
    have hk : (t[i]'h2).1 = (i : Int) + 1 := by
      have h3 := congrArg (fun l => l[i]?) hc
      simp only [List.getElem?_map] at h3
      rw [List.getElem?_eq_getElem h2, List.getElem?_range h2] at h3
      simpa using h3
    exact Prod.ext hk.symm rfl

/-- **text_roundtrip_counterexample** (recorded finding): keys `{1, 3}` come back as `{1, 2}` -/
theorem text_roundtrip_counterexample :
    TextInterp.fromJson (TextInterp.toJson [(1, "a"), (3, "b")]) = some [(1, "a"), (2, "b")] := by decide

/-- **text_save_load_save**: the document is stable for every interpretation (the texts and their
order survive, only the keys are renumbered) -/
theorem text_save_load_save (t : TextInterp) :
    (TextInterp.fromJson t.toJson).map TextInterp.toJson = some t.toJson := by
  unfold TextInterp.fromJson TextInterp.toJson
  have hm : List.mapM Json.asStr (List.map (fun p : Int × String => Json.str p.2) t) = some (t.map (·.2)) := by
    have := mapM_map_some (fun (s : String) => Json.str s) Json.asStr (fun _ => rfl) (t.map (·.2))
    rw [List.map_map] at this
    exact this
  simp only [hm, Option.map_some, Option.some.injEq, Json.arr.injEq]
  have : ∀ (ss : List String) (acc : TextInterp),
      (ss.foldl pushBack acc).map (fun p => Json.str p.2) = acc.map (fun p => Json.str p.2) ++ ss.map Json.str := by
    intro ss
    induction ss with
    | nil => simp
    | cons s ss ih => intro acc; rw [List.foldl_cons, ih]; simp [pushBack]
  rw [this]; simp [List.map_map, Function.comp_def]

/-- **translation_roundtrip**: a translation with distinct keys survives the round trip -/
theorem translation_roundtrip (t : Tr) (hn : (keys t).Nodup) : trFromJson (trToJson t) = some t := by
  unfold trFromJson trToJson
  have hm : List.mapM pairFromJson (List.map (fun p : Nat × Nat => Json.arr [Json.num p.1, Json.num p.2]) t) = some t := by
    apply mapM_map_some
    intro a; simp [pairFromJson]
  simp only [hm, Option.map_some, Option.some.injEq]
  have : ∀ (ps acc : Tr), (∀ p ∈ ps, containsKey acc p.1 = false) → (keys ps).Nodup →
      ps.foldl (fun acc p => Translation.insert acc p.1 p.2) acc = acc ++ ps := by
    intro ps
    induction ps with
    | nil => simp
    | cons p ps ih =>
      intro acc hfresh hnd
      rw [List.foldl_cons]
      have hp : containsKey acc p.1 = false := hfresh p (by simp)
      have hins : Translation.insert acc p.1 p.2 = acc ++ [p] := by unfold Translation.insert; simp [hp]
      rw [hins, ih]
      · simp
      · intro q hq
        have hq' := hfresh q (by simp [hq])
        have hne : p.1 ≠ q.1 := by
          simp only [keys, List.map_cons, List.nodup_cons] at hnd
          intro e; exact hnd.1 (e ▸ List.mem_map.2 ⟨q, hq, rfl⟩)
        unfold containsKey lookup at *
        rw [List.find?_append]
        cases hf : List.find? (fun x => x.1 == q.1) acc with
        | some x => rw [hf] at hq'; simp at hq'
        | none =>
          simp only [Option.none_or, List.find?_cons, List.find?_nil]
          have : (p.1 == q.1) = false := by simpa using hne
          simp [this]
      · simp only [keys, List.map_cons, List.nodup_cons] at hnd; exact hnd.2
  rw [this t [] (by intro p _; simp [containsKey, lookup]) hn]
  simp

/-- non-vacuity -/
example : Contiguous [(1, "a"), (2, "b"), (3, "c")] := by decide
example : trFromJson (trToJson [(5, 2), (7, 7)]) = some [(5, 2), (7, 7)] := by decide
example : (TrackingFlags.toJson { allowEdit := true }).dump =
    "{\"mutable\":true,\"editTerm\":false,\"editDefinition\":false,\"editConvention\":false}" := by decide

end CCVerif.Json

/-!
# Document level (`Model/JsonDoc.lean`)

`Schema` / `Model` are the abstract content of an `RSForm` / `RSModel` as the writer reads it;
`toJson` / `fromJson env` transcribe `to_json` / `from_json`. `env` carries what the loader takes
from elsewhere: the random uid source, the renaming translator, and the recomputation
`UpdateState` (`env.analyse`, `env.typif`).

**Observable** fields of a record (`Record.obs` erases the others): uid, kind, alias, convention,
raw term, manual word forms, formal definition, raw text definition, tracking flags, position in
the list. **Recomputed on load** (not observable through the document): resolved term / resolved
definition text and the whole `parse` block. For a model additionally observable: calculated
flag, structure data, text interpretation, statement value of every constituent; recomputed: the
typification the data is packed against.

Well-formedness the writer / loader pair relies on (`Schema.WF` = `ItemsWF`):
* `LoadOK.uids`, `LoadOK.aliases`: uids and aliases pairwise distinct;
* `LoadOK.names`: every alias is a kind letter followed by digits, of the constituent's kind
  (otherwise `RegisterID` replaces it);
* `LoadOK.order`: no basic kind (X, C, S) after a kind with a larger code — the order
  `CstList::Insert` rebuilds;
* `FormsWF`: manual forms carry canonical tag strings (`normTags t = t`), strictly ascending.
`Model.WF` adds: no tracking; one data entry per constituent in ascending uid order; `EntryWF`
per kind — in particular `Contiguous` keys of a text interpretation (recorded finding
C10-text-keys), values compatible with their typification and free of the `unknownCount` marker
(C16), base-set data = the keys of its texts.
-/
namespace CCVerif.JsonDoc
open CCVerif.Json CCVerif.Core CCVerif.SDC

/-- **schema_roundtrip**: for any recomputation, any uid source and any translator: a well-formed
schema content, written and loaded, comes back with every observable field unchanged — same
records in the same order. -/
theorem schema_roundtrip (env : Env) (c : Schema) (h : c.WF) :
    ∃ c', Schema.fromJson env c.toJson = some c' ∧ c'.obs = c.obs := by
  refine ⟨_, schema_fromJson_toJson env c h, ?_⟩
  simp [Schema.obs, reloaded_obs]

/-- **schema_roundtrip_updated**: if moreover the content is in updated state for the loader's
recomputation (`Updated`: running `UpdateState` on the reloaded records reproduces the stored
resolved texts and parse blocks — C07's `analysis_equal` is the statement that the real
`UpdateState` has this property on reachable schemas with acyclic term references), the loaded
content is EQUAL to the original, recomputed fields included. -/
theorem schema_roundtrip_updated (env : Env) (c : Schema) (h : c.WF) (hu : Updated env c.items) :
    Schema.fromJson env c.toJson = some c := by
  rw [schema_fromJson_toJson env c h, reloaded_updated env c.items hu]

/-- **schema_stable**: the second document is identical to the first. -/
theorem schema_stable (env : Env) (c : Schema) (h : c.WF) (hu : Updated env c.items) :
    (Schema.fromJson env c.toJson).map Schema.toJson = some c.toJson := by
  rw [schema_roundtrip_updated env c h hu]; rfl

/-- **normTags_idempotent** (`NormIdem`): re-reading a written tag string gives the same
morphology. -/
theorem normTags_idempotent : NormIdem := normTags_idem

/-- **schema_load_wf**: whatever document the loader accepts — optional keys missing, items in
any order, repeated uids, taken / ill-formed / wrong-kind aliases, unknown or repeated tags,
tracking of unknown uids — the loaded content is well-formed: the loader re-registers identifiers
(`registerID_spec`, C09) and re-inserts by kind. (`RenameOK`: the translator applied for a
replaced alias leaves uid, alias, kind and word forms alone.) -/
theorem schema_load_wf (env : Env) (hren : RenameOK env) (d : Json) (c : Schema)
    (h : Schema.fromJson env d = some c) : c.WF :=
  schema_load_wf_of_normIdem env hren normTags_idem d c h

/-- **schema_load_stable**: loading is a normal form — the content loaded from ANY accepted
document survives a further save / load with all observable fields unchanged, and exactly when
it is in updated state; its document is then a fixed point of load-then-save. -/
theorem schema_load_stable (env : Env) (hren : RenameOK env) (d : Json) (c : Schema)
    (h : Schema.fromJson env d = some c) :
    (∃ c', Schema.fromJson env c.toJson = some c' ∧ c'.obs = c.obs) ∧
    (Updated env c.items → (Schema.fromJson env c.toJson).map Schema.toJson = some c.toJson) :=
  ⟨schema_roundtrip env c (schema_load_wf env hren d c h),
   schema_stable env c (schema_load_wf env hren d c h)⟩

/-- **model_roundtrip**: a well-formed model content in updated state is written (the packer's
preconditions hold) and loaded back EQUAL: schema part, and for every constituent the calculated
flag, the structure data (through `unpack_pack_partial`, C16), the text interpretation (through
`text_roundtrip_partial`: `Contiguous` keys) and the statement value. -/
theorem model_roundtrip (env : Env) (c : Model) (h : c.WF) (hu : ModelUpdated env c) :
    ∃ j, c.toJson = some j ∧ Model.fromJson env j = some c :=
  model_roundtrip_core text_roundtrip_partial env c h hu

/-- **model_stable**: the second document of a model is identical to the first. -/
theorem model_stable (env : Env) (c : Model) (h : c.WF) (hu : ModelUpdated env c) :
    (c.toJson >>= Model.fromJson env >>= Model.toJson) = c.toJson := by
  obtain ⟨j, h1, h2⟩ := model_roundtrip env c h hu
  simp [h1, h2]

/-- **loadData_unknown_ignored**: a `data` element whose `entityUID` is not a uid of the loaded
constituents changes nothing and cannot make the load fail, whatever else it contains (missing
`wasCalculated`, ill-typed `value`, …): the load with the element is the load without it. -/
theorem loadData_unknown_ignored (items : List Record) (ty : Nat → Option Ty) (pre post : List Json) (j : Json)
    (u : Nat) (hu : (j.get "entityUID") >>= asNat = some u) (hn : ∀ r ∈ items, r.uid ≠ u) :
    loadData items ty (.arr (pre ++ j :: post)) = loadData items ty (.arr (pre ++ post)) :=
  loadData_unknown_ignored' items ty pre post j u hu hn

/-- **loadData_texts_nonbase_ignored**: the `texts` of a `data` element for a constituent that is
not a base set are not looked at (not even parsed): the load is the load of the document with
that key removed (`dropKey`). -/
theorem loadData_texts_nonbase_ignored (items : List Record) (ty : Nat → Option Ty) (pre post : List Json)
    (j : Json) (u : Nat) (kind : CstType) (hu : (j.get "entityUID") >>= asNat = some u)
    (hk : kindOf items u = some kind) (hb : isBaseSet kind = false) :
    loadData items ty (.arr (pre ++ j :: post)) = loadData items ty (.arr (pre ++ dropKey "texts" j :: post)) :=
  loadData_texts_nonbase_ignored' items ty pre post j u kind hu hk hb

/-- the full-strength statement for models — no condition on the keys of text interpretations:
false, see `model_roundtrip_statement_false` -/
def model_roundtrip_statement : Prop :=
  ∀ (env : Env) (c : Model), c.WFk (fun _ => True) → ModelUpdated env c →
    ∃ j, c.toJson = some j ∧ Model.fromJson env j = some c

/-! ## satisfiability of the hypotheses, closed instances -/

/-- `Updated` is satisfiable for every content with distinct uids (by the recomputation that
answers with the stored fields) -/
theorem updated_satisfiable (c : Schema) (h : c.WF) : Updated (envOf c.items []) c.items :=
  updated_envOf _ _ h.load.uids

theorem modelUpdated_satisfiable (c : Model) (h : c.WF) : ModelUpdated (envOf c.items c.data) c :=
  modelUpdated_envOf c h

instance (fs : List Form) : Decidable (FormsWF fs) := by unfold FormsWF; infer_instance

/-- three constituents, non-ASCII texts, quotes and backslashes, two manual forms, tracking -/
def exSchema : Schema :=
  { title := "Схема \"тест\"", alias := "KS1", comment := "line1\nline2 \\ end",
    items := [
      { uid := 11, type := .base, alias := "X1", convention := "конвенция",
        term := { raw := "множество людей", resolved := "множество людей" },
        forms := [⟨"plur,gent", "множеств людей"⟩, ⟨"sing,datv", "множеству людей"⟩],
        parse := { status := .verified, valueClass := .value, typification := "ℬ(X1)", syntaxTree := "[:==[X1]]" },
        track := some { allowEdit := true, definition := true } },
      { uid := 7, type := .structured, alias := "S1", formal := "ℬ(X1×X1)",
        definition := { raw := "отношение на @{X1|plur,gent}", resolved := "отношение на множеств людей" },
        parse := { status := .verified, valueClass := .value, typification := "ℬ(X1×X1)",
                   syntaxTree := "[::=[S1][ℬ[×[X1][X1]]]]" } },
      { uid := 23, type := .function, alias := "F1", formal := "[α∈ℬ(X1)] α∪bad(",
        term := { raw := "q\"uote\\", resolved := "q\"uote\\" },
        parse := { status := .incorrect, args := [] } } ] }

example : normTags " sing , datv ,xxxx,sing" = "sing,datv" := by decide

theorem exSchema_wf : exSchema.WF :=
  ⟨by decide, ⟨by decide, by decide, by decide, by decide⟩⟩

example : Schema.fromJson (envOf exSchema.items []) exSchema.toJson = some exSchema :=
  schema_roundtrip_updated _ _ exSchema_wf (updated_satisfiable _ exSchema_wf)

/-- the same by evaluation of the model, and the stability of the document -/
example : Schema.fromJson (envOf exSchema.items []) exSchema.toJson = some exSchema := by decide
example : (Schema.fromJson (envOf exSchema.items []) exSchema.toJson).map Schema.toJson = some exSchema.toJson :=
  schema_stable _ _ exSchema_wf (updated_satisfiable _ exSchema_wf)

/-- a document the writer never produces: items out of kind order, optional keys missing, an
ill-formed alias, unnormalised tags — loaded, saved, loaded: stable on the observable fields -/
def exOddDoc : Json :=
  .obj [("items", .arr [
    .obj [("entityUID", .num 4), ("cstType", .str "term"), ("alias", .str "D1"),
          ("term", .obj [("raw", .str "терм"), ("forms", .arr [
            .obj [("text", .str "b"), ("tags", .str " sing , datv ")],
            .obj [("text", .str "a"), ("tags", .str "plur,gent,zzzz")],
            .obj [("text", .str "c"), ("tags", .str "datv,sing")]])])],
    .obj [("entityUID", .num 4), ("cstType", .str "basic"), ("alias", .str "bad name")]])]

def exOddEnv : Env := { envOf [] [] with fresh := fun ids => ids.foldl (· + ·) 1 }

example : (Schema.fromJson exOddEnv exOddDoc).map (fun c => c.items.map fun r => (r.uid, r.alias, r.forms)) =
    some [(5, "X1", []), (4, "D1", [⟨"plur,gent", "a"⟩, ⟨"sing,datv", "c"⟩])] := by decide

example : ∃ c, Schema.fromJson exOddEnv exOddDoc = some c ∧ c.WF := by
  cases h : Schema.fromJson exOddEnv exOddDoc with
  | none => exact absurd h (by decide)
  | some c => exact ⟨c, rfl, schema_load_wf exOddEnv (fun _ _ _ => ⟨rfl, rfl, rfl, rfl⟩) _ c h⟩

def tyX1 : Ty := .coll (.base "X1")

/-- a model: statement value, nested-empty structure data `{∅, {2}}`, a base set with two
non-ASCII texts, a calculated term whose value is the empty set -/
def exModel : Model :=
  { title := "модель", alias := "M1",
    items := [
      { uid := 5, type := .base, alias := "X1", term := { raw := "люди", resolved := "люди" },
        parse := { status := .verified, valueClass := .value, typification := "ℬ(X1)" } },
      { uid := 3, type := .structured, alias := "S1", formal := "ℬ(ℬ(X1))",
        parse := { status := .verified, valueClass := .value, typification := "ℬℬ(X1)" } },
      { uid := 2, type := .ax, alias := "A1", formal := "1=1", parse := { status := .verified, valueClass := .value } },
      { uid := 9, type := .term, alias := "D1", formal := "X1\\X1",
        parse := { status := .verified, valueClass := .value, typification := "ℬ(X1)" } } ],
    data := [
      { uid := 2, wasCalc := true, stmt := some true },
      { uid := 3, typif := some (.coll tyX1), sdata := some (.s [.s [], .s [.e 2]]) },
      { uid := 5, typif := some tyX1, sdata := some (.s [.e 1, .e 2]), texts := some [(1, "один"), (2, "два")] },
      { uid := 9, wasCalc := true, typif := some tyX1, sdata := some (.s []) } ] }

theorem exModel_wf : exModel.WF := by
  refine ⟨⟨by decide, ⟨by decide, by decide, by decide, by decide⟩⟩, by decide, by decide, ?_⟩
  intro e he
  simp only [exModel, List.mem_cons, List.not_mem_nil, or_false] at he
  rcases he with rfl | rfl | rfl | rfl
  · exact ⟨_, by simp [exModel]; right; right; left; rfl, rfl, by simp [EntryWFk, isBaseSet, isRSObject, isCallable]⟩
  · refine ⟨_, by simp [exModel]; right; left; rfl, rfl, ?_⟩
    simp [EntryWFk, isBaseSet, isRSObject, ValOK, tyX1]
    decide
  · refine ⟨_, by simp [exModel]; left; rfl, rfl, ?_⟩
    simp [EntryWFk, isBaseSet, ValOK, keysSet, tyX1]
    decide
  · refine ⟨_, by simp [exModel]; right; right; right; rfl, rfl, ?_⟩
    simp [EntryWFk, isBaseSet, isRSObject, ValOK, tyX1]
    decide

example : ∃ j, exModel.toJson = some j ∧ Model.fromJson (envOf exModel.items exModel.data) j = some exModel :=
  model_roundtrip _ _ exModel_wf (modelUpdated_satisfiable _ exModel_wf)

/-- the `data` array of `exModel` with extra elements in front and a `texts` key added to the
element of the term `D1` (uid 9), loaded -/
def exOddData (extra : List Json) (texts : Json) : Option (List DataEntry) :=
  (dataToJson exModel.items exModel.data).bind fun ds =>
    loadData exModel.items (fun u => (exModel.data.find? (·.uid == u)).bind (·.typif))
      (.arr (extra ++ ds.map fun j =>
        match j, j.get "entityUID" with
        | .obj kvs, some (.num 9) => .obj (kvs ++ [("texts", texts)])
        | _, _ => j))

/-- an element for the unknown uid 424242 (no `wasCalculated`, an ill-typed `value`) and `texts`
(not even an array) on the term `D1`: the load succeeds with the same content -/
example :
    let d := exOddData [.obj [("entityUID", .num 424242), ("value", .str "?")]] (.str "no array")
    d.map (·.map fun e => (e.uid, e.wasCalc)) = some (exModel.data.map fun e => (e.uid, e.wasCalc)) ∧
    d.map (·.map fun e => (e.texts, e.stmt)) = some (exModel.data.map fun e => (e.texts, e.stmt)) := by
  decide

/-- the written `data` array of the example, evaluated -/
example : (exModel.toJson.bind (·.get "data")).map Json.dump = some
    ("[{\"entityUID\":2,\"wasCalculated\":true,\"value\":true}," ++
     "{\"entityUID\":3,\"wasCalculated\":false,\"value\":[[2,0,0],[2,1,2]]}," ++
     "{\"entityUID\":5,\"wasCalculated\":false,\"value\":[[2,1],[2,2]],\"texts\":[\"один\",\"два\"]}," ++
     "{\"entityUID\":9,\"wasCalculated\":true,\"value\":[[0,0]]}]") := by decide +kernel

/-! ## the recorded finding at the document level -/

def gapModel : Model :=
  { alias := "M1",
    items := [{ uid := 5, type := .base, alias := "X1",
                parse := { status := .verified, valueClass := .value, typification := "ℬ(X1)" } }],
    data := [{ uid := 5, typif := some (.coll (.base "X1")), sdata := some (.s [.e 1, .e 3]),
               texts := some [(1, "a"), (3, "c")] }] }

/-- **model_roundtrip_counterexample** (recorded finding C10-text-keys): a base set interpreted
by `{1 ↦ a, 3 ↦ c}` (everything in `Model.WF` except `Contiguous` holds; the model is in updated
state for `envOf`) is reloaded as `{1 ↦ a, 2 ↦ c}` with the data set `{1, 2}`. -/
theorem model_roundtrip_counterexample :
    ((gapModel.toJson >>= Model.fromJson (envOf gapModel.items gapModel.data)).map fun c =>
        c.data.map fun e => (e.texts, e.sdata.map (cmp · (.s [.e 1, .e 2])))) =
      some [(some [(1, "a"), (2, "c")], some .equal)] ∧
    ModelUpdated (envOf gapModel.items gapModel.data) gapModel := by
  refine ⟨by decide, updated_envOf _ _ (by decide), ?_⟩
  intro e he
  simp only [gapModel, List.mem_singleton] at he
  subst he
  rfl

theorem gapModel_wf : gapModel.WFk (fun _ => True) := by
  refine ⟨⟨by decide, ⟨by decide, by decide, by decide, by decide⟩⟩, by decide, by decide, ?_⟩
  intro e he
  simp only [gapModel, List.mem_singleton] at he
  subst he
  refine ⟨_, List.mem_singleton.2 rfl, rfl, ?_⟩
  simp [EntryWFk, isBaseSet, ValOK, keysSet]
  decide

theorem model_roundtrip_statement_false : ¬ model_roundtrip_statement := by
  intro hall
  obtain ⟨j, hj, h⟩ := hall _ gapModel gapModel_wf model_roundtrip_counterexample.2
  have h1 := model_roundtrip_counterexample.1
  rw [hj] at h1
  simp only [Option.bind_eq_bind, Option.bind_some, h, Option.map_some] at h1
  revert h1
  decide

end CCVerif.JsonDoc


/-! ## the OSS document (`Model/JsonOss.lean`: `to_json` / `from_json` of `oss::OSSchema`)

Content `Oss` = the pictograms with their facet entries (source handle, operation handle with stored
equations / translations / flags, grid cell) + the graph facet's rows. The iteration order of the C++
hash containers (`storage`, `grid`, equation and translation maps) is NOT part of the statements: the
content lists them in one order, writer and loader models keep it. [The real second document lists
`items` / `layout` in another order than the first — harness line `c10 ossstableraw`; modulo that order
the real documents agree: `c10 ossstable`.] -/
namespace CCVerif.JsonOss
open CCVerif.Json
open CCVerif.Oss (Pid)

/-- well-formed OSS content: the structural invariant of C19 (`StructInv`: one entry, one grid cell, one
source handle per pictogram; every operation pictogram has two distinct existing parents, the others
none; the parent relation decreases a rank), distinct keys in the stored equation / translation maps,
and the graph facet lists parents before children (`RowsCanon`: creation order, kept by `Erase` and by
a reload) -/
structure OssWf (c : Oss) : Prop where
  codec : CodecWf c
  closed : ∀ r ∈ c.rows, r.1 ∈ c.items.map (·.uid) ∧ ∀ q ∈ r.2, q ∈ c.items.map (·.uid)
  parents : ∀ p ∈ c.items, (p.op.isSome = true → (rowOf c.rows p.uid).length = 2 ∧ (rowOf c.rows p.uid).Nodup) ∧
                           (p.op.isSome = false → rowOf c.rows p.uid = [])
  acyclic : ∃ rank : Pid → Nat, ∀ r ∈ c.rows, ∀ q ∈ r.2, rank q < rank r.1

/-- **oss_roundtrip**: load ∘ save reproduces every well-formed OSS content on every stored field — the
header, every pictogram (uid, data type, title, alias, comment, media link, source handle with its
hashes, operation type / broken / outdated flags / stored equations / translations, grid cell; the list
`items` itself), the connections in `EdgeList` order and the parents of every pictogram in operand
order — for every uid source `env`. -/
theorem oss_roundtrip (env : Env) (c : Oss) (h : OssWf c) :
    ∃ c', ossFromJson env (ossToJson c) = .ok c' ∧ c'.title = c.title ∧ c'.comment = c.comment ∧
      c'.domain = c.domain ∧ c'.items = c.items ∧ edgeList c'.rows = edgeList c.rows ∧
      ∀ p, rowOf c'.rows p = rowOf c.rows p :=
  ⟨_, ossFromJson_toJson env c h.codec, rfl, rfl, rfl, rfl, loadEdges_edgeList c.rows h.codec.rows,
    fun p => rowOf_loadEdges c.rows h.codec.rows p⟩

/-- **oss_stable**: save ∘ load ∘ save = save (as JSON trees; hash-container order as listed) -/
theorem oss_stable (env : Env) (c : Oss) (h : OssWf c) :
    (ossFromJson env (ossToJson c)).map ossToJson = .ok (ossToJson c) := by
  rw [ossFromJson_toJson env c h.codec]
  simp only [Except.map, ossToJson, loadEdges_edgeList c.rows h.codec.rows]

/-- the structural invariant holds for whatever an accepted document loads — full statement -/
def oss_load_wf_statement : Prop :=
  ∀ (env : Env) (j : Json) (c : Oss), ossFromJson env j = .ok c → structOkB c = true

/-- the diamond: bases 1, 2, 4; 3 = 1 + 2; 5 = 3 + 4, with stored equations, translations, flags, a link -/
def diamond : Oss :=
  { title := "diamond", comment := "c", domain := "dom"
    items := [ { uid := 1, title := "A", pos := ⟨0, 0⟩, src := some { name := "a.trs", type := .rsDoc, coreHash := 11, fullHash := 12 } },
               { uid := 2, title := "B", alias := "b", pos := ⟨0, 1⟩, link := { address := "http://x", subAddr := "s" } },
               { uid := 4, dataType := .tba, comment := "D", pos := ⟨0, 2⟩ },
               { uid := 3, pos := ⟨1, 0⟩, src := some { name := "p.trs", type := .rsDoc, coreHash := 5, fullHash := 6 },
                 op := some { type := .synt, outdated := true, options := some [(7, 8, { mode := .createNew, arg := "t" }), (9, 8, {})],
                              translations := some [[(7, 1), (9, 2)], []] } },
               { uid := 5, pos := ⟨2, 1⟩, op := some { type := .merge, broken := true } } ]
    rows := [(1, []), (2, []), (3, [1, 2]), (4, []), (5, [3, 4])] }

theorem diamond_wf : OssWf diamond := by
  refine ⟨⟨by decide, by decide, ?_, ?_⟩, by decide, by decide, ⟨fun p => p, by decide⟩⟩
  · intro p hp
    simp only [diamond, List.mem_cons, List.not_mem_nil, or_false] at hp
    rcases hp with rfl | rfl | rfl | rfl | rfl <;> refine ⟨rfl, fun h hh => ?_⟩ <;> cases hh <;>
      refine ⟨fun t ht => ?_, fun ts ht => ?_⟩ <;> cases ht <;> decide
  · refine ⟨by decide, by decide⟩

/-- non-vacuity of `oss_roundtrip` / `oss_stable`: the diamond -/
example : ∃ c', ossFromJson ⟨fun _ => 0⟩ (ossToJson diamond) = .ok c' ∧ c'.items = diamond.items ∧
    edgeList c'.rows = [(3, 1), (3, 2), (5, 3), (5, 4)] := by
  obtain ⟨c', h, _, _, _, hi, he, _⟩ := oss_roundtrip ⟨fun _ => 0⟩ diamond diamond_wf
  exact ⟨c', h, hi, by rw [he]; decide⟩
example : (ossFromJson ⟨fun _ => 0⟩ (ossToJson diamond)).map ossToJson = .ok (ossToJson diamond) :=
  oss_stable _ diamond diamond_wf

/-- the diamond's document with one more connection: `5` gets the parent `424242`, which is not a pictogram -/
def danglingDoc : Json :=
  match ossToJson diamond with
  | .obj kvs => .obj (kvs.map fun kv => if kv.1 == "connections" then
      (kv.1, edgesToJson (edgeList diamond.rows ++ [(5, 424242)])) else kv)
  | j => j

/-- … and with the connection `1 → 5` (a base gets the top operation as a parent): the cycle 5 → 3 → 1 → 5 -/
def cycleDoc : Json :=
  match ossToJson diamond with
  | .obj kvs => .obj (kvs.map fun kv => if kv.1 == "connections" then
      (kv.1, edgesToJson (edgeList diamond.rows ++ [(1, 5)])) else kv)
  | j => j

/-- **oss_load_wf_counterexample**: the loader accepts a document with a dangling parent and one with
a cycle (`LoadParent` checks neither the existence of the pictograms, nor the number of parents, nor
cycles longer than two); the loaded schema violates the structural invariant. The real `from_json`
does the same (harness lines `c10 ossdocload … wf=0`). -/
theorem oss_load_wf_counterexample :
    (ossFromJson ⟨fun _ => 0⟩ danglingDoc).map structOkB = .ok false ∧
    (ossFromJson ⟨fun _ => 0⟩ cycleDoc).map structOkB = .ok false ∧
    (ossFromJson ⟨fun _ => 0⟩ (ossToJson diamond)).map structOkB = .ok true := by
  refine ⟨?_, ?_, ?_⟩ <;> rfl

theorem oss_load_wf_statement_false : ¬ oss_load_wf_statement := by
  intro hall
  have h := oss_load_wf_counterexample.1
  cases hc : ossFromJson ⟨fun _ => 0⟩ danglingDoc with
  | error e => rw [hc] at h; simp [Except.map] at h
  | ok c =>
    rw [hc] at h
    have := hall _ _ c hc
    simp [Except.map, this] at h

/-- **oss_load_wf_partial**: the part of `oss_load_wf_statement` that holds for EVERY accepted `items`
array (the missing hypothesis of the full statement is on `connections`: existing pictograms, two
parents per operation, none per base, no cycle): whatever `LoadPicts` loads has one entry, one grid
cell and one source handle per pictogram, and nothing is dropped — a repeated `pictUID` is replaced
by a new identifier, an occupied cell by a free one. -/
theorem oss_load_wf_partial (env : Env) (ps l : List Pict) (hs : ∀ p ∈ ps, p.src.isSome = true)
    (h : loadPicts env [] ps = .ok l) :
    (l.map (·.uid)).Nodup ∧ (l.map (·.pos)).Nodup ∧ (∀ p ∈ l, p.src.isSome = true) ∧ l.length = ps.length := by
  have := loadPicts_keys env ps [] l (by simp) (by simp) (by simpa using hs) h
  simpa using this

/-- non-vacuity: a repeated uid in an occupied cell -/
example : loadPicts ⟨fun _ => 99⟩ [] [{ uid := 1 }, { uid := 1 }] = .ok [{ uid := 1 }, { uid := 99, pos := ⟨0, 1⟩ }] := by rfl

end CCVerif.JsonOss


/-! ## the OSS document and the C19 machine (`Model/Oss.lean`)

`Lemmas/JsonOssGraph.lean`, `Lemmas/JsonOssReach.lean`. The document loader's connection step IS the C19
model's `LoadParent` (`oss_graph_is_c19_loadParent`); hence for every schema REACHED by a history of the
C19 machine the written document loads back to the same content and the loaded key tables satisfy
`StructInv` (`oss_roundtrip_reachable_partial`), also with the `items` and `connections` arrays rearranged
(`oss_reload_rearranged`: C19's "documents loaded in arbitrary item order"). NOT reproduced in general: the
ORDER of the `connections` array / `ExecuteOrder` (`oss_connection_order_counterexample`, replayed on the
real code by `harness/replay/c10_oss_order.cpp`); `RowsCanon` (hypothesis of `oss_roundtrip`) is not an
invariant of reachable schemas — already one plain reload breaks it (`rowsCanon_not_invariant`). -/
namespace CCVerif.JsonOss
open CCVerif.Json
open CCVerif.Oss (Pid Graph Struct St Op Variant Oracle StructInv run runHist admissibleRun exampleOracle)

/-- **oss_graph_is_c19_loadParent** (projection law): on a row table with distinct items in which every
parent is an item (`RInv`, kept by `LoadParent`, true of the empty facet), the document loader's
`loadParent` projects to `Oss.Graph.loadParent` of the C19 machine; a whole `connections` array projects
to `Graph.loadParents` — the connection loop of C19's `loadDoc` — and `ParentsOf` of the projection is
the row. -/
theorem oss_graph_is_c19_loadParent :
    (∀ (g : Rows) (c p : Pid), RInv g →
      toGraph (loadParent g c p) = ((toGraph g).loadParent c p).1 ∧ RInv (loadParent g c p)) ∧
    (∀ es : List (Pid × Pid), toGraph (loadEdges [] es) = ({} : Graph).loadParents es ∧ RInv (loadEdges [] es)) ∧
    (∀ (g : Rows), RInv g → ∀ p, (toGraph g).parentsOf p = rowOf g p) :=
  ⟨fun _ c p h => ⟨(toGraph_loadParent h c p).1, (toGraph_loadParent h c p).2.1⟩,
   toGraph_loadEdges_nil, fun _ h p => parentsOf_toGraph h p⟩

/-- non-vacuity: the diamond's rows satisfy `RInv`; the third parent `5 → 1` is added in both models alike -/
example : RInv diamond.rows ∧
    toGraph (loadParent diamond.rows 5 1) = ((toGraph diamond.rows).loadParent 5 1).1 ∧
    (toGraph (loadParent diamond.rows 5 1)).parentsOf 5 = [3, 4, 1] := by
  have h : RInv diamond.rows := ⟨by decide, by unfold Closed; decide⟩
  exact ⟨h, (toGraph_loadParent h 5 1).1, by decide⟩

/-- save and load for reachable schemas, all fields of `oss_roundtrip` — full statement (FALSE: the order of
the connections) -/
def oss_roundtrip_reachable_statement : Prop :=
  ∀ (v : Variant) (o : Oracle) (ops : List Op) (st : St), run v o ops = some st → admissibleRun v o ops = true →
    ∀ (c : Oss), Represents st.s c → (∀ p ∈ c.items, ∀ x, p.op = some x → OpWf x) → ∀ env : Env,
    ∃ c', ossFromJson env (ossToJson c) = .ok c' ∧ c'.title = c.title ∧ c'.comment = c.comment ∧
      c'.domain = c.domain ∧ c'.items = c.items ∧ edgeList c'.rows = edgeList c.rows ∧
      (∀ p, rowOf c'.rows p = rowOf c.rows p) ∧ StructInv (toStruct c')

/-- **oss_roundtrip_reachable_partial**: for EVERY state reached by a history of the C19 machine (any
variant, any oracle; admissibility is not needed), every content `c` the writer can read from it
(`Represents`: the pictograms in any order with their cells and handles, the graph facet in index order)
whose stored equation / translation maps have distinct keys (they are `unordered_map`s): the written document
loads; header, the list of pictograms with every stored field, and the parents of every pictogram in operand
order are reproduced; the connections are reproduced up to the order of the array; the loaded key tables
satisfy the structural invariant of C19. Missing from `oss_roundtrip_reachable_statement`: the ORDER of
`connections` (false: `oss_connection_order_counterexample`). -/
theorem oss_roundtrip_reachable_partial (v : Variant) (o : Oracle) (ops : List Op) (st : St)
    (hrun : run v o ops = some st) (c : Oss) (hc : Represents st.s c)
    (hmaps : ∀ p ∈ c.items, ∀ x, p.op = some x → OpWf x) (env : Env) :
    ∃ c', ossFromJson env (ossToJson c) = .ok c' ∧ c'.title = c.title ∧ c'.comment = c.comment ∧
      c'.domain = c.domain ∧ c'.items = c.items ∧ (edgeList c'.rows).Perm (edgeList c.rows) ∧
      (∀ p, rowOf c'.rows p = rowOf c.rows p) ∧ StructInv (toStruct c') := by
  have hs := CCVerif.Oss.structInv_history v o ops st hrun
  have hk : (keysOf c.rows).Nodup := by rw [hc.rows]; exact (rinv_rowsOf hs.keys.graphWf).1
  obtain ⟨c', h1, h2, h3, h4, h5, h6, h7, _, h9⟩ := load_rearranged hs hc hmaps env c.items (List.Perm.refl _)
    (layoutToJson c.items) (edgeList c.rows) (fun q => edgeList_fibre c.rows hk q)
  exact ⟨c', by rw [ossToJson_eq]; exact h1, h2, h3, h4, h5, h7, h6, h9⟩

/-- **oss_reload_rearranged** (C19: "documents loaded in arbitrary item order"): the document of a reachable
schema with its `items` array rearranged arbitrarily, any `layout` value (never read), and its `connections`
array rearranged so that every child keeps the order of its own connections (`hord`; it implies that `es`
is a rearrangement of the written array) loads to a content with exactly these pictograms, the same parents
per pictogram in operand order, whose graph facet is the `LoadParent` run of the C19 machine on `es`
(`Graph.loadParents`: the connection loop of `loadDoc` / `Op.reload`) and whose key tables satisfy
`StructInv`. -/
theorem oss_reload_rearranged (v : Variant) (o : Oracle) (ops : List Op) (st : St)
    (hrun : run v o ops = some st) (c : Oss) (hc : Represents st.s c)
    (hmaps : ∀ p ∈ c.items, ∀ x, p.op = some x → OpWf x) (env : Env)
    (items' : List Pict) (hitems : items'.Perm c.items) (layout : Json)
    (es : List (Pid × Pid)) (hord : ∀ q, (es.filter (·.1 == q)).map (·.2) = rowOf c.rows q) :
    ∃ c', ossFromJson env (ossDoc c.title c.comment c.domain items' layout es) = .ok c' ∧
      c'.title = c.title ∧ c'.comment = c.comment ∧ c'.domain = c.domain ∧ c'.items = items' ∧
      (∀ q, rowOf c'.rows q = rowOf c.rows q) ∧ (edgeList c'.rows).Perm (edgeList c.rows) ∧
      toGraph c'.rows = ({} : Graph).loadParents es ∧ StructInv (toStruct c') :=
  load_rearranged (CCVerif.Oss.structInv_history v o ops st hrun) hc hmaps env items' hitems layout es hord

/-- `hord` says that `es` is a rearrangement of the written `connections` array -/
theorem oss_reload_rearranged_perm (v : Variant) (o : Oracle) (ops : List Op) (st : St)
    (hrun : run v o ops = some st) (c : Oss) (hc : Represents st.s c)
    (es : List (Pid × Pid)) (hord : ∀ q, (es.filter (·.1 == q)).map (·.2) = rowOf c.rows q) :
    es.Perm (edgeList c.rows) := by
  have hs := CCVerif.Oss.structInv_history v o ops st hrun
  have hk : (keysOf c.rows).Nodup := by rw [hc.rows]; exact (rinv_rowsOf hs.keys.graphWf).1
  have hn : ∀ q, (rowOf c.rows q).Nodup := fun q => by rw [hc.rowOf hs q]; exact parents_nodup hs q
  rw [List.perm_ext_iff_of_nodup (CCVerif.Oss.nodup_of_fibres (fun q => by rw [hord q]; exact hn q)) (edgeList_nodup hk hn)]
  rintro ⟨a, b⟩
  rw [mem_edgeList hk, ← mem_fibre, hord a]

/-- `hord` checked on the items of the facet: no other pictogram is the child of a connection -/
theorem hord_of_check (es : List (Pid × Pid)) (g : Rows) (h1 : ∀ e ∈ es, e.1 ∈ keysOf g)
    (h2 : ∀ q ∈ keysOf g, (es.filter (·.1 == q)).map (·.2) = rowOf g q) :
    ∀ q, (es.filter (·.1 == q)).map (·.2) = rowOf g q := by
  intro q
  by_cases hq : q ∈ keysOf g
  · exact h2 q hq
  · rw [rowOf_not_key hq]
    have : es.filter (·.1 == q) = [] := by
      rw [List.filter_eq_nil_iff]
      intro e he
      simp only [beq_iff_eq]
      intro heq
      exact hq (heq ▸ h1 e he)
    rw [this]; rfl

/-- `Represents`, decided -/
def representsB (s : Struct) (c : Oss) : Bool :=
  decide ((c.items.map (·.uid)).Perm s.storage) && c.items.all (fun p => s.grid.posOf p.uid == some p.pos) &&
  c.items.all (fun p => p.src.isSome == s.srcKeys.contains p.uid) &&
  c.items.all (fun p => p.op.isSome == s.isOperable p.uid) && (c.rows == rowsOf s.graph)

theorem represents_of_b {s : Struct} {c : Oss} (h : representsB s c = true) : Represents s c := by
  simp only [representsB, Bool.and_eq_true, decide_eq_true_eq, List.all_eq_true, beq_iff_eq] at h
  obtain ⟨⟨⟨⟨h1, h2⟩, h3⟩, h4⟩, h5⟩ := h
  exact ⟨h1, h2, h3, h4, h5⟩

/-- the diamond built through the API: bases 1, 2, 4; 3 = 1 + 2; 5 = 3 + 4 (`ChildPosFor` puts 5 into cell (2, 0)) -/
def histDiamond : List Op := [.insertBase 1, .insertBase 2, .insertBase 4, .insertOperation 1 2 3, .insertOperation 3 4 5]

def diamondR : Oss :=
  { diamond with items := diamond.items.map fun p => if p.uid == 5 then { p with pos := ⟨2, 0⟩ } else p }

private theorem diamondR_maps : ∀ p ∈ diamondR.items, ∀ x, p.op = some x → OpWf x := by
  intro p hp
  simp only [diamondR, diamond, List.map_cons, List.map_nil, List.mem_cons, List.not_mem_nil, or_false] at hp
  rcases hp with rfl | rfl | rfl | rfl | rfl <;> intro x hx <;> cases hx <;>
    refine ⟨fun t ht => ?_, fun ts ht => ?_⟩ <;> cases ht <;> decide

private theorem reached_represents {ops : List Op} {c : Oss}
    (h : (runHist Variant.repaired exampleOracle ops).map (fun st => representsB st.s c) = some true) :
    ∃ st, run Variant.repaired exampleOracle ops.reverse = some st ∧ Represents st.s c := by
  unfold runHist at h
  cases hr : run Variant.repaired exampleOracle ops.reverse with
  | none => rw [hr] at h; cases h
  | some st =>
    rw [hr] at h
    simp only [Option.map_some, Option.some.injEq] at h
    exact ⟨st, rfl, represents_of_b h⟩

/-- non-vacuity of `oss_roundtrip_reachable_partial` / `oss_reload_rearranged`: the diamond is reached, its
content (items listed in another order than `storage`) is what the writer reads; the document with the items
reversed and the connections child-first loads to the same parents, `StructInv` holds -/
example : ∃ st, run Variant.repaired exampleOracle histDiamond.reverse = some st ∧ Represents st.s diamondR ∧
    ∃ c', ossFromJson ⟨fun _ => 0⟩ (ossDoc "diamond" "c" "dom" diamondR.items.reverse (.arr [])
        [(5, 3), (3, 1), (5, 4), (3, 2)]) = .ok c' ∧
      c'.items = diamondR.items.reverse ∧ rowOf c'.rows 5 = [3, 4] ∧ rowOf c'.rows 3 = [1, 2] ∧
      keysOf c'.rows = [5, 3, 1, 4, 2] ∧ StructInv (toStruct c') := by
  obtain ⟨st, hr, hc⟩ := reached_represents (ops := histDiamond) (c := diamondR) (by decide +kernel)
  obtain ⟨c', h1, _, _, _, h5, h6, _, h8, h9⟩ := oss_reload_rearranged _ _ _ st hr diamondR hc diamondR_maps ⟨fun _ => 0⟩
    diamondR.items.reverse (List.reverse_perm _) (.arr []) [(5, 3), (3, 1), (5, 4), (3, 2)]
    (hord_of_check _ _ (by decide) (by decide))
  refine ⟨st, hr, hc, c', h1, h5, by rw [h6]; decide, by rw [h6]; decide, ?_, h9⟩
  have : keysOf c'.rows = (toGraph c'.rows).items := rfl
  rw [this, h8]; decide

/-- 6 = 4 + 5, 7 = 2 + 3, 8 = 1 + 6, then save → load with the connections rearranged (every child keeps the
order of its two connections: the history is admissible) -/
def histOrder : List Op :=
  [.insertBase 1, .insertBase 2, .insertBase 3, .insertBase 4, .insertBase 5,
   .insertOperation 4 5 6, .insertOperation 2 3 7, .insertOperation 1 6 8,
   .reload [8, 7, 6, 5, 4, 3, 2, 1] [(8, 1), (7, 2), (8, 6), (7, 3), (6, 4), (6, 5)]]

/-- what the writer reads from the schema after `histOrder` -/
def orderDoc : Oss :=
  { title := "t"
    items := [ { uid := 1, pos := ⟨0, 0⟩ }, { uid := 2, pos := ⟨0, 1⟩ }, { uid := 3, pos := ⟨0, 2⟩ },
               { uid := 4, pos := ⟨0, 3⟩ }, { uid := 5, pos := ⟨0, 4⟩ },
               { uid := 6, pos := ⟨1, 3⟩, op := some { type := .synt } }, { uid := 7, pos := ⟨1, 1⟩, op := some { type := .synt } },
               { uid := 8, pos := ⟨2, 1⟩, op := some { type := .synt } } ]
    rows := [(8, [1, 6]), (1, []), (7, [2, 3]), (2, []), (6, [4, 5]), (3, []), (4, []), (5, [])] }

/-- **oss_connection_order_counterexample**: after the admissible history `histOrder` the schema's document
lists the connections as 8, 7, 6; the loaded schema lists them (and `ExecuteOrder`) as 8, 6, 7 — pictogram 6
is first mentioned as a parent of 8 — so the second document differs from the first in the order of
`connections`. The real code does the same (`harness/replay/c10_oss_order.cpp`: `j1 connections
[[8,1],[8,6],[7,2],[7,3],[6,4],[6,5]]`, `j2 connections [[8,1],[8,6],[6,4],[6,5],[7,2],[7,3]]`). -/
theorem oss_connection_order_counterexample :
    (∃ st, run Variant.repaired exampleOracle histOrder.reverse = some st ∧ Represents st.s orderDoc) ∧
    admissibleRun Variant.repaired exampleOracle histOrder.reverse = true ∧
    edgeList orderDoc.rows = [(8, 1), (8, 6), (7, 2), (7, 3), (6, 4), (6, 5)] ∧
    (ossFromJson ⟨fun _ => 0⟩ (ossToJson orderDoc)).toOption.map (fun c' => edgeList c'.rows) =
      some [(8, 1), (8, 6), (6, 4), (6, 5), (7, 2), (7, 3)] ∧
    (ossFromJson ⟨fun _ => 0⟩ (ossToJson orderDoc)).toOption.map (fun c' => (ossToJson c').dump == (ossToJson orderDoc).dump) =
      some false :=
  ⟨reached_represents (ops := histOrder) (c := orderDoc) (by decide +kernel), by decide +kernel, by decide,
   by decide +kernel, by decide +kernel⟩

theorem oss_roundtrip_reachable_statement_false : ¬ oss_roundtrip_reachable_statement := by
  intro hall
  obtain ⟨⟨st, hr, hc⟩, hadm, he, hl, _⟩ := oss_connection_order_counterexample
  obtain ⟨c', h1, _, _, _, _, h6, _⟩ := hall _ _ _ st hr hadm orderDoc hc
    (by intro p hp x hx
        simp only [orderDoc, List.mem_cons, List.not_mem_nil, or_false] at hp
        rcases hp with rfl | rfl | rfl | rfl | rfl | rfl | rfl | rfl <;> cases hx <;>
          refine ⟨fun t ht => ?_, fun ts ht => ?_⟩ <;> cases ht) ⟨fun _ => 0⟩
  rw [h1] at hl
  simp only [Except.toOption, Option.map_some, Option.some.injEq] at hl
  rw [h6, he] at hl
  revert hl; decide

/-- **rowsCanon_not_invariant**: `RowsCanon` (parents-first rows, hypothesis of `oss_roundtrip` / `oss_stable`)
holds for the diamond built through the API and fails after one plain save → load (the document exactly as
written): `LoadParent` gives the child its index before its parents. -/
theorem rowsCanon_not_invariant :
    RowsCanon diamondR.rows ∧
    (ossFromJson ⟨fun _ => 0⟩ (ossToJson diamondR)).toOption.map (fun c' => c'.rows) =
      some [(3, [1, 2]), (1, []), (2, []), (5, [3, 4]), (4, [])] ∧
    ¬ RowsCanon [(3, [1, 2]), (1, []), (2, []), (5, [3, 4]), (4, [])] := by
  refine ⟨diamond_wf.codec.rows, by decide +kernel, ?_⟩
  intro h
  have := h.1
  simp only [List.pairwise_cons] at this
  exact (this.1 (1, []) (by simp)).2 (by simp)

/-- `OssWf` as far as the codec needs it, with `RowsCanon` weakened to `RowsOk`: no pictogram WITH connections
is mentioned as a parent in an earlier row (true of parents-first rows — `RowsCanon.rowsOk` — and of what a
plain reload makes of them, e.g. the reloaded diamond below, where `RowsCanon` fails) -/
structure OssWfOk (c : Oss) : Prop where
  uids : (c.items.map (·.uid)).Nodup
  cells : (c.items.map (·.pos)).Nodup
  picts : ∀ p ∈ c.items, PictWf p
  rows : RowsOk c.rows

theorem OssWf.ok {c : Oss} (h : OssWf c) : OssWfOk c :=
  ⟨h.codec.uids, h.codec.cells, h.codec.picts, h.codec.rows.rowsOk⟩

/-- **oss_roundtrip_ordered**: `oss_roundtrip` (every field, the ORDER of the connections included) for the
wider class `OssWfOk` -/
theorem oss_roundtrip_ordered (env : Env) (c : Oss) (h : OssWfOk c) :
    ∃ c', ossFromJson env (ossToJson c) = .ok c' ∧ c'.title = c.title ∧ c'.comment = c.comment ∧
      c'.domain = c.domain ∧ c'.items = c.items ∧ edgeList c'.rows = edgeList c.rows ∧
      ∀ p, rowOf c'.rows p = rowOf c.rows p :=
  ⟨{ title := c.title, comment := c.comment, domain := c.domain, items := c.items,
     rows := loadEdges [] (edgeList c.rows) },
    by rw [ossToJson_eq]; exact ossFromJson_doc env _ _ _ c.items _ _ h.uids h.cells h.picts, rfl, rfl, rfl, rfl,
    loadEdges_edgeList_ok c.rows h.rows, fun p => rowOf_loadEdges_ok c.rows h.rows p⟩

/-- **oss_stable_ordered**: save ∘ load ∘ save = save for `OssWfOk` -/
theorem oss_stable_ordered (env : Env) (c : Oss) (h : OssWfOk c) :
    (ossFromJson env (ossToJson c)).map ossToJson = .ok (ossToJson c) := by
  rw [ossToJson_eq, ossFromJson_doc env _ _ _ c.items _ _ h.uids h.cells h.picts]
  simp only [Except.map, ossToJson, ossDoc, loadEdges_edgeList_ok c.rows h.rows]

/-- the diamond after one reload (`rowsCanon_not_invariant`): child-first rows -/
def diamondReloaded : Oss := { diamondR with rows := [(3, [1, 2]), (1, []), (2, []), (5, [3, 4]), (4, [])] }

/-- non-vacuity: `OssWfOk` holds where `RowsCanon` does not -/
example : OssWfOk diamondReloaded ∧ ¬ RowsCanon diamondReloaded.rows ∧
    (ossFromJson ⟨fun _ => 0⟩ (ossToJson diamondReloaded)).map ossToJson = .ok (ossToJson diamondReloaded) := by
  have h : OssWfOk diamondReloaded := by
    refine ⟨by decide, by decide, ?_, ⟨by decide, by decide, by decide⟩⟩
    intro p hp
    exact ⟨by
      simp only [diamondReloaded, diamondR, diamond, List.map_cons, List.map_nil, List.mem_cons, List.not_mem_nil, or_false] at hp
      rcases hp with rfl | rfl | rfl | rfl | rfl <;> rfl, diamondR_maps p hp⟩
  exact ⟨h, rowsCanon_not_invariant.2.2, oss_stable_ordered _ _ h⟩

end CCVerif.JsonOss


/-! ## the ORDER of `connections` for the documents the library itself wrote

`Lemmas/JsonOssRows.lean`, `Lemmas/JsonOssRowsReach.lean`. `oss_connection_order_counterexample` needs a reload of
a document whose `connections` array was rearranged by hand. For the histories whose reloads load the array AS THE
WRITER EMITTED IT (`writerReloads`, a decidable predicate on histories; the order of `items`, a hash container,
stays free) `RowsOk` is an invariant — `AddItem` appends the new operation after its operands, `Erase` removes a
row nobody mentions, and `LoadParent` run over the written array keeps the children in their order and puts every
new parent behind its first child — so `oss_roundtrip_reachable_statement` and save ∘ load ∘ save = save hold for
them WITH the order of `connections`. -/
namespace CCVerif.JsonOss
open CCVerif.Json
open CCVerif.Oss (Pid Graph Struct St Op Variant Oracle StructInv run runHist admissibleRun exampleOracle)

/-- **oss_wf_ok_reachable**: every content the writer reads from a schema reached by a history whose reloads
leave `connections` as written satisfies `OssWfOk` — in particular `RowsOk`: no pictogram with connections is
mentioned as a parent in an earlier row of the graph facet. (Without `writerReloads`: false,
`oss_connection_order_counterexample`.) -/
theorem oss_wf_ok_reachable (v : Variant) (o : Oracle) (ops : List Op) (st : St)
    (hrun : run v o ops = some st) (hw : writerReloads v o ops = true) (c : Oss) (hc : Represents st.s c)
    (hmaps : ∀ p ∈ c.items, ∀ x, p.op = some x → OpWf x) : OssWfOk c := by
  obtain ⟨h1, h2, h3⟩ := represents_codec (CCVerif.Oss.structInv_history v o ops st hrun) hc hmaps
  exact ⟨h1, h2, h3, by rw [hc.rows]; exact rowsOk_history v o ops st hrun hw⟩

/-- **oss_roundtrip_reachable_writer**: `oss_roundtrip_reachable_statement` with `writerReloads` in the place of
`admissibleRun` — for EVERY state reached from the empty schema by insertions, erasures, source events,
executions and reloads of the documents as written (any variant, any oracle), and every content `c` the writer
can read from it: the written document loads; header, the list of pictograms with every stored field, the
`connections` array IN ORDER and the parents of every pictogram in operand order are reproduced; the loaded key
tables satisfy the structural invariant of C19. -/
theorem oss_roundtrip_reachable_writer (v : Variant) (o : Oracle) (ops : List Op) (st : St)
    (hrun : run v o ops = some st) (hw : writerReloads v o ops = true) (c : Oss) (hc : Represents st.s c)
    (hmaps : ∀ p ∈ c.items, ∀ x, p.op = some x → OpWf x) (env : Env) :
    ∃ c', ossFromJson env (ossToJson c) = .ok c' ∧ c'.title = c.title ∧ c'.comment = c.comment ∧
      c'.domain = c.domain ∧ c'.items = c.items ∧ edgeList c'.rows = edgeList c.rows ∧
      (∀ p, rowOf c'.rows p = rowOf c.rows p) ∧ StructInv (toStruct c') := by
  obtain ⟨c', h1, h2, h3, h4, h5, _, h7, h8⟩ := oss_roundtrip_reachable_partial v o ops st hrun c hc hmaps env
  obtain ⟨c'', g1, _, _, _, _, g6, _⟩ := oss_roundtrip_ordered env c (oss_wf_ok_reachable v o ops st hrun hw c hc hmaps)
  rw [h1] at g1
  injection g1 with g1
  subst g1
  exact ⟨c', h1, h2, h3, h4, h5, g6, h7, h8⟩

/-- **oss_stable_reachable**: save ∘ load ∘ save = save, as JSON trees, the order of `connections` included,
for every schema of `oss_roundtrip_reachable_writer` (hash-container order of `items` / `layout` / equation and
translation maps as the content lists it). -/
theorem oss_stable_reachable (v : Variant) (o : Oracle) (ops : List Op) (st : St)
    (hrun : run v o ops = some st) (hw : writerReloads v o ops = true) (c : Oss) (hc : Represents st.s c)
    (hmaps : ∀ p ∈ c.items, ∀ x, p.op = some x → OpWf x) (env : Env) :
    (ossFromJson env (ossToJson c)).map ossToJson = .ok (ossToJson c) :=
  oss_stable_ordered env c (oss_wf_ok_reachable v o ops st hrun hw c hc hmaps)

/-- the class is closed under "reload what was written" (any order of `items`): every generation of
save → load is covered by `oss_stable_reachable`; and the written array is `EdgeList` of the C19 model's facet,
so these reloads are the steps `Op.reload items st.s.graph.edgeList` -/
theorem writerReloads_reload (v : Variant) (o : Oracle) (ops : List Op) (st : St)
    (hrun : run v o ops = some st) (hw : writerReloads v o ops = true) (items : List Pid) :
    writerReloads v o (.reload items st.s.graph.edgeList :: ops) = true := by
  simp only [writerReloads, hw, hrun, Bool.true_and, beq_iff_eq]
  exact (writtenEdges_eq v o ops st hrun).symm

/-- the diamond built through the API, saved and loaded as written -/
def histDiamondReload : List Op := histDiamond ++ [.reload [1, 2, 4, 3, 5] [(3, 1), (3, 2), (5, 3), (5, 4)]]

/-- insert, insert, operation, erase, reload — and on: an operation over the reloaded schema, an execution, a
second reload -/
def histErase : List Op :=
  [.insertBase 1, .insertBase 2, .insertOperation 1 2 3, .insertBase 4, .insertOperation 3 4 5, .erase 5,
   .reload [3, 2, 1, 4] [(3, 1), (3, 2)], .insertOperation 3 4 6, .executeAll,
   .reload [6, 4, 3, 2, 1] [(3, 1), (3, 2), (6, 3), (6, 4)]]

/-- what the writer reads from the schema after `histErase` -/
def eraseDoc : Oss :=
  { title := "e"
    items := [ { uid := 1, pos := ⟨0, 0⟩ }, { uid := 2, pos := ⟨0, 1⟩ },
               { uid := 3, pos := ⟨1, 0⟩, op := some { type := .synt, options := some [(7, 8, {})] } },
               { uid := 4, pos := ⟨0, 2⟩ }, { uid := 6, pos := ⟨2, 0⟩, op := some { type := .merge, outdated := true } } ]
    rows := [(3, [1, 2]), (1, []), (2, []), (6, [3, 4]), (4, [])] }

private theorem eraseDoc_maps : ∀ p ∈ eraseDoc.items, ∀ x, p.op = some x → OpWf x := by
  intro p hp
  simp only [eraseDoc, List.mem_cons, List.not_mem_nil, or_false] at hp
  rcases hp with rfl | rfl | rfl | rfl | rfl <;> intro x hx <;> cases hx <;>
    refine ⟨fun t ht => ?_, fun ts ht => ?_⟩ <;> cases ht <;> decide

/-- non-vacuity of `oss_roundtrip_reachable_writer` / `oss_stable_reachable`: the reloaded diamond (child-first
rows, `RowsCanon` fails) is reached by a history in the class -/
example : ∃ st, run Variant.repaired exampleOracle histDiamondReload.reverse = some st ∧
    writerReloads Variant.repaired exampleOracle histDiamondReload.reverse = true ∧
    Represents st.s diamondReloaded ∧ ¬ RowsCanon diamondReloaded.rows ∧
    (ossFromJson ⟨fun _ => 0⟩ (ossToJson diamondReloaded)).map ossToJson = .ok (ossToJson diamondReloaded) := by
  obtain ⟨st, hr, hc⟩ := reached_represents (ops := histDiamondReload) (c := diamondReloaded) (by decide +kernel)
  have hw : writerReloads Variant.repaired exampleOracle histDiamondReload.reverse = true := by decide +kernel
  exact ⟨st, hr, hw, hc, rowsCanon_not_invariant.2.2,
    oss_stable_reachable _ _ _ st hr hw diamondReloaded hc diamondR_maps _⟩

/-- … and the schema after insert, insert, operation, erase, reload, operation, execution, reload: the loaded
connections are the written ones, in order -/
example : ∃ st, run Variant.repaired exampleOracle histErase.reverse = some st ∧
    writerReloads Variant.repaired exampleOracle histErase.reverse = true ∧ Represents st.s eraseDoc ∧
    (ossFromJson ⟨fun _ => 0⟩ (ossToJson eraseDoc)).map ossToJson = .ok (ossToJson eraseDoc) ∧
    ∃ c', ossFromJson ⟨fun _ => 0⟩ (ossToJson eraseDoc) = .ok c' ∧
      edgeList c'.rows = [(3, 1), (3, 2), (6, 3), (6, 4)] ∧ StructInv (toStruct c') := by
  obtain ⟨st, hr, hc⟩ := reached_represents (ops := histErase) (c := eraseDoc) (by decide +kernel)
  have hw : writerReloads Variant.repaired exampleOracle histErase.reverse = true := by decide +kernel
  obtain ⟨c', h1, _, _, _, _, h6, _, h8⟩ := oss_roundtrip_reachable_writer _ _ _ st hr hw eraseDoc hc eraseDoc_maps ⟨fun _ => 0⟩
  exact ⟨st, hr, hw, hc, oss_stable_reachable _ _ _ st hr hw eraseDoc hc eraseDoc_maps _, c', h1, by rw [h6]; decide, h8⟩

/-- the hypothesis `writerReloads` is what `histOrder` (the counterexample) lacks -/
example : writerReloads Variant.repaired exampleOracle histOrder.reverse = false := by decide +kernel

/-- **oss_reload_is_c19_reload** (the `LoadPict` half of the projection; with `oss_graph_is_c19_loadParent` the
whole loader): for every reachable schema `st`, every content `c` the writer reads from it, the document with its
`items` in ANY order, any `layout` and ANY `connections` array `es` for which the C19 machine's step
`Op.reload (items'.map uid) es` is defined (a rearrangement of the written array): the document loads, and the key
tables of the loaded content — `storage`, `idGen`, the graph facet with its index bookkeeping, the grid, the keys
of the source and operation facets, each in the order the loader fills them — are EXACTLY the structural state of
the C19 machine after that step (`Struct.loadPict` per item, `Graph.loadParent` per connection). -/
theorem oss_reload_is_c19_reload (v : Variant) (o : Oracle) (ops : List Op) (st st' : St)
    (hrun : run v o ops = some st) (c : Oss) (hc : Represents st.s c)
    (hmaps : ∀ p ∈ c.items, ∀ x, p.op = some x → OpWf x) (env : Env)
    (items' : List Pict) (hitems : items'.Perm c.items) (layout : Json) (es : List (Pid × Pid))
    (hrun' : run v o (.reload (items'.map (·.uid)) es :: ops) = some st') :
    ∃ c', ossFromJson env (ossDoc c.title c.comment c.domain items' layout es) = .ok c' ∧ c'.items = items' ∧
      c'.rows = loadEdges [] es ∧ toStruct c' = st'.s := by
  simp only [run, hrun, Option.bind_some, Option.map_eq_some_iff] at hrun'
  obtain ⟨r, hr, he⟩ := hrun'
  subst he
  exact reload_toStruct (b := r.2) (CCVerif.Oss.structInv_history v o ops st hrun) hc hmaps env items' hitems layout es hr

/-- non-vacuity: the diamond, its connections child-first; the loaded key tables are the state of the C19 machine
after the reload, e.g. the graph facet indexes the pictograms as 5, 3, 1, 4, 2 -/
example : ∃ st', run Variant.repaired exampleOracle
      (.reload (diamondR.items.map (·.uid)) [(5, 3), (3, 1), (5, 4), (3, 2)] :: histDiamond.reverse) = some st' ∧
    ∃ c', ossFromJson ⟨fun _ => 0⟩ (ossDoc "diamond" "c" "dom" diamondR.items (.arr []) [(5, 3), (3, 1), (5, 4), (3, 2)]) = .ok c' ∧
      toStruct c' = st'.s ∧ st'.s.graph.items = [5, 3, 1, 4, 2] ∧ st'.s.storage = [5, 3, 4, 2, 1] := by
  obtain ⟨st, hr, hc⟩ := reached_represents (ops := histDiamond) (c := diamondR) (by decide +kernel)
  cases hr' : run Variant.repaired exampleOracle
      (.reload (diamondR.items.map (·.uid)) [(5, 3), (3, 1), (5, 4), (3, 2)] :: histDiamond.reverse) with
  | none =>
    have : (run Variant.repaired exampleOracle
      (.reload (diamondR.items.map (·.uid)) [(5, 3), (3, 1), (5, 4), (3, 2)] :: histDiamond.reverse)).isSome = true := by
      decide +kernel
    rw [hr'] at this; cases this
  | some st' =>
    obtain ⟨c', h1, h2, h3, h4⟩ := oss_reload_is_c19_reload _ _ _ st st' hr diamondR hc diamondR_maps ⟨fun _ => 0⟩
      diamondR.items (List.Perm.refl _) (.arr []) [(5, 3), (3, 1), (5, 4), (3, 2)] hr'
    refine ⟨st', rfl, c', h1, h4, ?_, ?_⟩
    · rw [← h4]
      show keysOf c'.rows = _
      rw [h3]; decide
    · rw [← h4]
      show (c'.items.map (·.uid)).reverse = _
      rw [h2]; decide

/-- **oss_load_graph_partial**: the graph half of `oss_load_wf_statement` that holds for EVERY accepted document,
whatever its `connections` array (hand-written, repeated, reversed, dangling): in the loaded graph facet the
items are distinct, every mentioned pictogram is an item, no row repeats a parent, no pictogram is its own
parent, and no two pictograms are each other's parent. (What `LoadParent` does NOT exclude — cycles longer than
two, pictograms that are not in `items`, the number of parents — is really accepted:
`oss_load_wf_counterexample`.) -/
theorem oss_load_graph_partial (env : Env) (j : Json) (c : Oss) (h : ossFromJson env j = .ok c) :
    (keysOf c.rows).Nodup ∧ Closed c.rows ∧
    ∀ p, (rowOf c.rows p).Nodup ∧ p ∉ rowOf c.rows p ∧ ∀ q ∈ rowOf c.rows p, p ∉ rowOf c.rows q := by
  obtain ⟨es, he⟩ := ossFromJson_rows env j c h
  rw [he]
  exact ⟨(loadEdges_graphRows es).1.1, (loadEdges_graphRows es).1.2, (loadEdges_graphRows es).2⟩

/-- non-vacuity: a self loop, a repeated and a reversed connection are dropped, the 3-cycle is accepted; and
`cycleDoc` (accepted, `structOkB = false`) meets the hypothesis -/
example : loadEdges [] [(1, 2), (2, 1), (1, 1), (1, 2), (2, 3), (3, 1)] = [(1, [2]), (2, [3]), (3, [1])] := by decide
example : ∃ c, ossFromJson ⟨fun _ => 0⟩ cycleDoc = .ok c ∧ structOkB c = false ∧ (keysOf c.rows).Nodup ∧
    ∀ p, (rowOf c.rows p).Nodup ∧ p ∉ rowOf c.rows p := by
  cases hc : ossFromJson ⟨fun _ => 0⟩ cycleDoc with
  | error e =>
    have := oss_load_wf_counterexample.2.1
    rw [hc] at this; simp [Except.map] at this
  | ok c =>
    have h2 := oss_load_wf_counterexample.2.1
    rw [hc] at h2
    have hb : structOkB c = false := by simpa [Except.map] using h2
    obtain ⟨h1, _, h3⟩ := oss_load_graph_partial _ _ c hc
    exact ⟨c, rfl, hb, h1, fun p => ⟨(h3 p).1, (h3 p).2.1⟩⟩

end CCVerif.JsonOss

/-! ## model documents: stability of the LOADED content (`Lemmas/JsonDocModelLoad.lean`) -/
namespace CCVerif.JsonDoc
open CCVerif.Json CCVerif.Core CCVerif.SDC

/-- the full statement: loading is a normal form for model documents — FALSE, see
`model_load_repeated_counterexample` (a base set with a repeated `data` element) -/
def model_load_save_load_stable_statement : Prop :=
  ∀ (env : Env) (d : Json) (c : Model), Model.fromJson env d = some c → ModelUpdated env c →
    ∃ j, c.toJson = some j ∧ Model.fromJson env j = some c

/-- **model_load_save_load_stable_partial**: a content loaded from a model document that satisfies
`LoadedWF` (what `FinalizeLoadingCore` + `LoadData` establish step by step: `resetEntry_loaded`,
`applyOne_loaded`; weaker than `Model.WF`: a base set may have a value and no texts), whose values
re-pack (`ValsOK`, C16) and whose non-empty texts go with their key set (`Keyed`: fails only for a
repeated `data` element) is written and loaded back EQUAL: `load (save (load d)) = load d`. -/
theorem model_load_save_load_stable_partial (env : Env) (d : Json) (c : Model)
    (_h : Model.fromJson env d = some c) (hw : c.LoadedWF) (hv : c.ValsOK) (hk : c.Keyed)
    (hu : ModelUpdated env c) :
    ∃ j, c.toJson = some j ∧ Model.fromJson env j = some c :=
  loaded_roundtrip_core text_roundtrip_partial env c hw hv hk hu

/-- the `data` array `[{5, texts ["a"]}, {5, value {7}}]` for the base set of `gapModel`'s schema:
loaded `texts = {1 ↦ a}`, `data = {7}`; saved and loaded again: `data = {1}`. -/
def repeatedData : Json :=
  .arr [.obj [("entityUID", .num 5), ("wasCalculated", .bool false), ("texts", .arr [.str "a"])],
        .obj [("entityUID", .num 5), ("wasCalculated", .bool false), ("value", .arr [.arr [.num 1, .num 7]])],
        .obj [("entityUID", .num 424242)]]

def repeatedTy : Nat → Option Ty := fun _ => some (.coll (.base "X1"))
def repeatedView (l : List DataEntry) : List (Option (List (Int × String)) × Option Cmp) := l.map fun e => (e.texts, e.sdata.map (cmp · (.s [.e 7])))

theorem model_load_repeated_counterexample :
    (loadData gapModel.items repeatedTy repeatedData).map repeatedView = some [(some [(1, "a")], some .equal)] ∧
    (((loadData gapModel.items repeatedTy repeatedData).bind (dataToJson gapModel.items)).bind
        fun ds => loadData gapModel.items repeatedTy (.arr ds)).map repeatedView = some [(some [(1, "a")], some .less)] := by
  constructor <;> first | decide | rfl | (with_unfolding_all decide)

end CCVerif.JsonDoc

/-! ## model documents: the loader establishes `LoadedWF` / `Keyed` (`Lemmas/JsonDocModelLoad2.lean`) -/
namespace CCVerif.JsonDoc
open CCVerif.Json CCVerif.Core CCVerif.SDC

/-- **model_load_wf**: whatever model document the loader accepts, the loaded content satisfies
`LoadedWF` (`RenameKeeps`: the translator applied for a replaced alias leaves uid, alias, kind,
word forms and tracking flags alone — `renameKeeps_id` for the harness / driver input). -/
theorem model_load_wf (env : Env) (hk : RenameKeeps env) (d : Json) (c : Model)
    (h : Model.fromJson env d = some c) : c.LoadedWF :=
  model_load_wf_core normTags_idempotent env hk d c h

/-- **model_load_keyed**: when the `entityUID`s of the `data` array are distinct, every non-empty
loaded text interpretation goes with the data set of its keys. -/
theorem model_load_keyed (env : Env) (d : Json) (c : Model)
    (h : Model.fromJson env d = some c) (hnd : (dataUids d).Nodup) : c.Keyed :=
  model_load_keyed_core env d c h hnd

/-- **model_load_save_load_stable**: `load (save (load d)) = load d` for every accepted model
document whose `data` elements have distinct `entityUID`s (the hypothesis
`model_load_repeated_counterexample` shows necessary), whose loaded values re-pack (`ValsOK`:
well-formed typification, marker-free; C16) and in updated state. -/
theorem model_load_save_load_stable (env : Env) (hk : RenameKeeps env) (d : Json) (c : Model)
    (h : Model.fromJson env d = some c) (hnd : (dataUids d).Nodup) (hv : c.ValsOK) (hu : ModelUpdated env c) :
    ∃ j, c.toJson = some j ∧ Model.fromJson env j = some c :=
  model_load_save_load_stable_partial env d c h (model_load_wf env hk d c h) hv (model_load_keyed env d c h hnd) hu

/-- non-vacuity: a `data` element for an unknown uid, a base-set value without texts, a calculated
term whose `texts` are ignored, a calculated axiom; items out of kind order -/
def loadedEnv : Env :=
  { fresh := fun _ => 0
    rename := fun _ _ r => r
    analyse := fun _ _ => { parse := { status := .verified } }
    typif := fun _ u => if u = 5 ∨ u = 7 then some (.coll (.base "X1")) else none }

def loadedDoc : Json :=
  .obj [("title", .str "t"),
        ("items", .arr [
          .obj [("entityUID", .num 7), ("cstType", .str "term"), ("alias", .str "D1"),
                ("definition", .obj [("formal", .str "X1")])],
          .obj [("entityUID", .num 5), ("cstType", .str "basic"), ("alias", .str "X1")],
          .obj [("entityUID", .num 9), ("cstType", .str "axiom"), ("alias", .str "A1")]]),
        ("data", .arr [
          .obj [("entityUID", .num 424242)],
          .obj [("entityUID", .num 5), ("wasCalculated", .bool false), ("value", .arr [.arr [.num 2, .num 3], .arr [.num 2, .num 8]])],
          .obj [("entityUID", .num 7), ("wasCalculated", .bool true), ("value", .arr [.arr [.num 1, .num 3]]),
                ("texts", .arr [.str "ignored"])],
          .obj [("entityUID", .num 9), ("wasCalculated", .bool true), ("value", .bool true)]])]

def loadedView (c : Model) : List (Nat × Bool × Option Nat) :=
  c.data.map fun e => (e.uid, e.wasCalc, e.texts.map (·.length))
def loadedVals (c : Model) : List (Option Cmp × Option Bool) :=
  c.data.map fun e => (e.sdata.map (cmp · (.s [.e 3, .e 8])), e.stmt)

example : ∃ c, Model.fromJson loadedEnv loadedDoc = some c ∧ RenameKeeps loadedEnv ∧ (dataUids loadedDoc).Nodup ∧
    c.ValsOK ∧ ModelUpdated loadedEnv c ∧
    c.items.map (·.uid) = [5, 7, 9] ∧
    loadedView c = [(5, false, some 0), (7, true, none), (9, true, none)] ∧
    loadedVals c = [(some .equal, none), (some .less, none), (none, some true)] ∧
    ∃ j, c.toJson = some j ∧ Model.fromJson loadedEnv j = some c := by
  have hk : RenameKeeps loadedEnv := renameKeeps_id _ rfl
  have hnd : (dataUids loadedDoc).Nodup := by decide
  have hb1 : (Model.fromJson loadedEnv loadedDoc).map Model.valsOKb = some true := by decide +kernel
  have hb2 : (Model.fromJson loadedEnv loadedDoc).map (fun c => c.items.map (·.uid)) = some [5, 7, 9] := by decide +kernel
  have hb3 : (Model.fromJson loadedEnv loadedDoc).map loadedView = some [(5, false, some 0), (7, true, none), (9, true, none)] := by
    decide +kernel
  have hb4 : (Model.fromJson loadedEnv loadedDoc).map loadedVals = some [(some .equal, none), (some .less, none), (none, some true)] := by
    decide +kernel
  cases hc : Model.fromJson loadedEnv loadedDoc with
  | none => rw [hc] at hb1; cases hb1
  | some c =>
    rw [hc] at hb1 hb2 hb3 hb4
    simp only [Option.map_some, Option.some.injEq] at hb1 hb2 hb3 hb4
    have hv := valsOK_of_b c hb1
    have hu := model_load_updated normTags_idempotent loadedEnv hk ⟨fun _ _ _ => rfl, fun _ _ _ => rfl⟩ loadedDoc c hc
    exact ⟨c, rfl, hk, hnd, hv, hu, hb2, hb3, hb4, model_load_save_load_stable loadedEnv hk loadedDoc c hc hnd hv hu⟩

end CCVerif.JsonDoc
