import CCVerif.Lemmas.SDataCompact
/-!
# C16 — the compact data encoding round-trips; decoding arbitrary tables is safe

Property theorems about the model `CCVerif.Model.SDataCompact` (a transcription of the
`Packer` / `Unpacker` of `ccl/rslang/src/SDataCompact.cpp`). All statements are for every
typification, every value and every integer table — no bound on depth, arity, cardinality,
number or length of rows.

Independent notions the theorems are stated against:
* `compat v τ` — full structural compatibility (`compat_set`, `sorted_iff_pairwise`: every
  element of every set is compatible with the base type and the elements are strictly ascending
  for `Compare`, hence pairwise different: `sorted_nodup`). It implies the `CheckCompatible`
  of the C++ (`compat_checkCompatible`).
* `Ty.wf` — every tuple has at least two components (what `Typification::Tuple` and the type
  checker produce; the raw constructor allows 0 and 1, see `unpack_degenerate_arity`).
* `noMarker v` — no set inside `v` has exactly `SDCompact::unknownCount` (10 000 000) elements.
-/
namespace CCVerif.SDC

/-! ## what `compat` means -/

/-- `sorted` is "every earlier element is `LESS` than every later one" for `Compare`. -/
theorem sorted_iff_pairwise (l : List Val) :
    sorted l = true ↔ l.Pairwise (fun a b => cmp a b = .less) := by
  induction l with
  | nil => simp [sorted]
  | cons a l ih => simp [sorted, List.pairwise_cons, ih, lt]

/-- a sorted sequence has no repetition (`Compare` of a value with itself is `EQUAL`). -/
theorem sorted_nodup (l : List Val) (h : sorted l = true) : l.Nodup := by
  rw [sorted_iff_pairwise] at h
  refine List.Pairwise.imp ?_ h
  intro a b hab heq
  subst heq
  rw [cmp_refl] at hab
  cases hab

/-- a set value is compatible with `ℬ(b)` iff all its elements are compatible with `b` and they
are listed in strictly ascending order. -/
theorem compat_set_iff (xs : List Val) (b : Ty) :
    compat (.s xs) (.coll b) = true ↔
      (∀ a ∈ xs, compat a b = true) ∧ xs.Pairwise (fun a b => cmp a b = .less) := by
  rw [compat_set, sorted_iff_pairwise]

private theorem compatL_checkL (cs : List Val) (ts : List Ty)
    (ih : ∀ c ∈ cs, ∀ t, compat c t = true → checkCompatible c t = true) :
    compatL cs ts = true → checkCompatibleL cs ts = true := by
  induction cs generalizing ts with
  | nil => intro _; cases ts <;> simp [checkCompatibleL]
  | cons c cs ihc =>
    intro h
    cases ts with
    | nil => simp [compatL] at h
    | cons t ts =>
      simp only [compatL, Bool.and_eq_true] at h
      simp only [checkCompatibleL, Bool.and_eq_true]
      exact ⟨ih c (List.mem_cons_self ..) t h.1,
        ihc ts (fun c' hc' => ih c' (List.mem_cons_of_mem _ hc')) h.2⟩

mutual
/-- the full predicate implies the (first-element-only) `CheckCompatible` of StructuredData.cpp. -/
theorem compat_checkCompatible : ∀ (v : Val) (τ : Ty), compat v τ = true → checkCompatible v τ = true
  | .e _, .base _, _ => by simp [checkCompatible]
  | .t cs, .tuple ts, h => by
    simp only [compat] at h
    simp only [checkCompatible, Bool.and_eq_true, beq_iff_eq]
    exact ⟨compatL_length cs ts h, compatL_checkL cs ts (fun c _ t hc => compat_checkCompatible c t hc) h⟩
  | .s [], .coll _, _ => by simp [checkCompatible]
  | .s (x :: xs), .coll b, h => by
    rw [compat_set] at h
    simp only [checkCompatible]
    exact compat_checkCompatible x b (h.1 x (List.mem_cons_self ..))
  | .e _, .tuple _, h => by simp [compat] at h
  | .e _, .coll _, h => by simp [compat] at h
  | .t _, .base _, h => by simp [compat] at h
  | .t _, .coll _, h => by simp [compat] at h
  | .s _, .base _, h => by simp [compat] at h
  | .s _, .tuple _, h => by simp [compat] at h
end

/-! ## round trip -/

/-- the full statement of the first sentence of the property: packing ANY compatible value and
unpacking it against the same typification gives the value back. It is kept as a `def`
because it fails for values that contain a set of exactly `unknownCount` elements followed by
a sibling (`unpack_pack_marker_collision`); `unpack_pack_partial` proves it for all others. -/
def unpack_pack_statement : Prop :=
  ∀ (v : Val) (τ : Ty), τ.wf = true → compat v τ = true →
    ∃ tbl, pack v τ = some tbl ∧ unpack tbl τ = .ok v

/-- **unpack ∘ pack = id**: for every well-formed typification `τ` and every value `v`
compatible with it — any nesting, empty sets at any depth, tuples containing sets — the packer
succeeds (none of its unchecked accesses is out of its domain) and the unpacker, run on the
packed table against `τ`, returns exactly `v`.
Missing with respect to `unpack_pack_statement`: the hypothesis `noMarker v` (no set of exactly
10 000 000 elements inside `v`). -/
theorem unpack_pack_partial (v : Val) (τ : Ty) (hw : τ.wf = true) (hc : compat v τ = true)
    (hm : noMarker v = true) :
    ∃ tbl, pack v τ = some tbl ∧ unpack tbl τ = .ok v := by
  refine ⟨(enc v τ []).1 ++ [(enc v τ []).2], ?_, ?_⟩
  · unfold pack
    rw [packVal_enc v τ hc [] []]
    simp
  · have h := dec_enc v τ hc hm hw [] [] [] []
    simp only [List.nil_append, List.append_nil, List.length_nil, Nat.zero_add] at h
    unfold unpack
    rw [h]
    simp

/-- **marker collision** (why `noMarker` is needed): a set `A` of exactly `unknownCount`
elements that is the first of at least two elements of an enclosing set is packed with its
cardinality cell equal to the marker; the unpacker then reads `A` "to the end of the table",
swallowing the rows of the following siblings, and the enclosing loop runs out of rows:
the packed table does not unpack to any value. -/
theorem unpack_pack_marker_collision (b : Ty) (A : List Val) (w : Val) (rest : List Val)
    (hA : (A.length : Int) = unknownCount)
    (hn : ((Val.s A :: w :: rest).length : Int) ≠ unknownCount)
    (hc : compat (.s (.s A :: w :: rest)) (.coll (.coll b)) = true) :
    ∃ tbl, pack (.s (.s A :: w :: rest)) (.coll (.coll b)) = some tbl ∧
      ∀ v', unpack tbl (.coll (.coll b)) ≠ .ok v' := by
  generalize hv : Val.s (.s A :: w :: rest) = v at hc
  generalize hτ : Ty.coll (.coll b) = τ at hc
  refine ⟨(enc v τ []).1 ++ [(enc v τ []).2], ?_, ?_⟩
  · unfold pack
    rw [packVal_enc v τ hc [] []]
    simp
  · subst hv hτ
    generalize hn' : ((Val.s A :: w :: rest).length : Int) = n at hn
    have hA0 : (A.length : Int) ≠ 0 := by rw [hA]; simp [unknownCount]
    have hAne : A.isEmpty = false := by
      cases A with
      | nil => simp at hA0
      | cons _ _ => rfl
    have hn0 : n ≠ 0 ∧ n - 1 ≠ 0 := by
      rw [← hn']; simp only [List.length_cons]; omega
    have henc : enc (.s (.s A :: w :: rest)) (.coll (.coll b)) [] =
        encElems (.s A :: w :: rest) (.coll b) [n] := by
      simp [enc, ← hn']
    have hE1 : enc (.s A) (.coll b) [n] = encElems A b ([n] ++ [(A.length : Int)]) := by
      simp [enc, hAne]
    rw [henc, encElems_cons2, hE1]
    obtain ⟨c, tl, hext⟩ := encElems_ext A b ([n] ++ [(A.length : Int)]) []
      ((encElems (w :: rest) (.coll b) [n]).1 ++ [(encElems (w :: rest) (.coll b) [n]).2])
    generalize hT : ((encElems A b ([n] ++ [(A.length : Int)])).1 ++
        (encElems A b ([n] ++ [(A.length : Int)])).2 :: (encElems (w :: rest) (.coll b) [n]).1) ++
        [(encElems (w :: rest) (.coll b) [n]).2] = T
    have hT0 : T = ([] : List Row) ++ (([] : Row) ++ n :: ((A.length : Int) :: c)) :: tl := by
      rw [← hT]
      simp only [List.append_nil, List.append_assoc, List.cons_append, List.nil_append] at hext ⊢
      exact hext
    have hT1 : T = ([] : List Row) ++ ([n] ++ (A.length : Int) :: c) :: tl := by
      rw [hT0]; simp
    have hb0 : inBounds T 0 0 = true := (cell_at_prefix T [] [] _ n tl hT0).1
    have hc0 : cellAt T 0 0 = some n := (cell_at_prefix T [] [] _ n tl hT0).2
    have hb1 : inBounds T 0 (0 + 1) = true := (cell_at_prefix T [] [n] c _ tl hT1).1
    have hc1 : cellAt T 0 (0 + 1) = some (A.length : Int) := (cell_at_prefix T [] [n] c _ tl hT1).2
    have hlen : 0 < T.length := inBounds_lt T 0 0 hb0
    -- the first element: an unknown-count read that ends in the last row
    have hD : ∀ r, unpackFor T (.coll b) 0 (0 + 1) = .ok r → r.2.1 + 1 = T.length := by
      intro r h
      rw [unpackFor, if_pos hb1, hc1] at h
      dsimp only at h
      rw [if_neg hA0] at h
      have hmark : ((A.length : Int) == unknownCount) = true := by simp [hA]
      rw [hmark] at h
      generalize hres : setLoop T (fun x' y' => unpackFor T b x' y') (0 + 1) true T.length
        (A.length : Int) 0 (0 + 1) [] = res1 at h
      cases res1 with
      | none => simp at h
      | fault k => simp at h
      | ok r1 =>
        obtain ⟨vs, x1, y1⟩ := r1
        simp only [Res.ok.injEq] at h
        subst h
        exact setLoop_unknown_end T b _ (fun x y => unpackFor_good T b x y) (0 + 1) T.length _ 0 (0 + 1)
          [] vs x1 y1 (Nat.zero_le _) hres
    intro v' hu
    unfold unpack at hu
    have hF : ∀ r, unpackFor T (.coll (.coll b)) 0 0 ≠ .ok r := by
      intro r h
      rw [unpackFor, if_pos hb0, hc0] at h
      dsimp only at h
      rw [if_neg hn0.1] at h
      have hmk : (n == unknownCount) = false := by simpa using hn
      rw [hmk] at h
      cases hl : T.length with
      | zero => omega
      | succ f =>
        rw [hl, setLoop, if_pos ⟨by omega, Or.inr (by
          rw [← hn']; simp only [List.length_cons]; omega)⟩] at h
        cases hdx : unpackFor T (.coll b) 0 (0 + 1) with
        | none => rw [hdx] at h; simp at h
        | fault k => rw [hdx] at h; simp at h
        | ok r1 =>
          have hend := hD r1 hdx
          obtain ⟨v1, x1, y1⟩ := r1
          rw [hdx] at h
          dsimp only at h hend
          rw [show insert v1 [] = some [v1] from rfl] at h
          dsimp only at h
          rw [if_neg (by simp), setLoop_exhausted T _ 0 f (n - 1) (x1 + 1) y1 [v1] (by omega) hn0.2] at h
          simp at h
    cases hu0 : unpackFor T (.coll (.coll b)) 0 0 with
    | none => rw [hu0] at hu; simp at hu
    | fault k => rw [hu0] at hu; simp at hu
    | ok r => exact hF r hu0

/-- `{k, k+1, …, k+n-1}` as a set of basic elements. -/
def rangeSet (k n : Nat) : List Val := (List.range' k n).map (fun (i : Nat) => Val.e (i : Int))

private theorem rangeSet_length (k n : Nat) : (rangeSet k n).length = n := by simp [rangeSet]

private theorem rangeSet_succ (k n : Nat) : rangeSet k (n + 1) = .e (k : Int) :: rangeSet (k + 1) n := by
  simp [rangeSet, List.range'_succ]

private theorem rangeSet_mem (k n : Nat) (a : Val) (h : a ∈ rangeSet k n) :
    ∃ i : Nat, k ≤ i ∧ a = .e (i : Int) := by
  simp only [rangeSet, List.mem_map, List.mem_range'_1] at h
  obtain ⟨i, hi, rfl⟩ := h
  exact ⟨i, hi.1, rfl⟩

private theorem rangeSet_sorted : ∀ (n k : Nat), sorted (rangeSet k n) = true
  | 0, k => by simp [rangeSet, sorted]
  | n + 1, k => by
    rw [rangeSet_succ, sorted_cons]
    refine ⟨?_, rangeSet_sorted n (k + 1)⟩
    intro b hb
    obtain ⟨i, hi, rfl⟩ := rangeSet_mem (k + 1) n b hb
    simp only [lt, beq_iff_eq, cmp_e_less]
    omega

private theorem rangeSet_compat (k n : Nat) (id : String) :
    compat (.s (rangeSet k n)) (.coll (.base id)) = true := by
  rw [compat_set]
  refine ⟨?_, rangeSet_sorted n k⟩
  intro a ha
  obtain ⟨i, _, rfl⟩ := rangeSet_mem k n a ha
  simp [compat]

/-- `{ {0,…,n}, {1,…,n+1} } : ℬℬ(X1)` is a compatible value for every `n`. -/
private theorem twoRanges_compat (n : Nat) :
    compat (.s [.s (rangeSet 0 (n + 1)), .s (rangeSet 1 (n + 1))]) (.coll (.coll (.base "X1"))) = true := by
  rw [compat_set]
  constructor
  · intro a ha
    simp only [List.mem_cons, List.not_mem_nil, or_false] at ha
    rcases ha with rfl | rfl <;> exact rangeSet_compat _ _ _
  · rw [sorted_cons]
    refine ⟨?_, by simp [sorted]⟩
    intro b hb
    simp only [List.mem_cons, List.not_mem_nil, or_false] at hb
    subst hb
    simp only [lt, beq_iff_eq, cmp_s_less]
    right
    refine ⟨by simp [rangeSet_length], ?_⟩
    rw [rangeSet_succ, rangeSet_succ, cmpSeq_cons]
    have : cmp (.e ((0 : Nat) : Int)) (.e ((1 : Nat) : Int)) = .less := by rw [cmp_e_less]; omega
    rw [this]; simp

/-- **the unrestricted round-trip statement is false in the model**: two different sets of
10 000 000 elements each, as the two elements of a set of sets, pack to a table (of 2·10⁷ rows)
that unpacks to nothing. (The witness is too large to be replayed by the harness; the
statement is proved from `unpack_pack_marker_collision`, not by evaluation.) -/
theorem unpack_pack_marker_counterexample : ¬ unpack_pack_statement := by
  intro hall
  have hc := twoRanges_compat 9999999
  obtain ⟨tbl, hp, hu⟩ := hall _ (.coll (.coll (.base "X1"))) (by decide) hc
  obtain ⟨tbl', hp', hne⟩ := unpack_pack_marker_collision (.base "X1") (rangeSet 0 (9999999 + 1))
    (.s (rangeSet 1 (9999999 + 1))) []
    (by rw [rangeSet_length]; rfl)
    (by simp only [List.length_cons, List.length_nil]; decide) hc
  rw [hp] at hp'
  cases hp'
  exact hne _ hu

/-! ## unpacking arbitrary tables -/

/-- **no out-of-range access**: for every table (ragged rows, wrong counts, the marker,
negative numbers, no rows at all) and every typification, none of the `.at()` calls of the
unpacker throws, `--pos_x` never underflows and the loops terminate; the only abnormal outcome
the model has left is the assertion of `Factory::Tuple`, and only for a typification that has a
tuple of arity 0 (`unpack_degenerate_arity`). -/
theorem unpack_fault_only_degenerate (tbl : Table) (τ : Ty) (k : Fault)
    (h : unpack tbl τ = .fault k) : k = .assertTuple ∧ τ.wf = false := by
  unfold unpack at h
  have g := unpackFor_good tbl τ 0 0
  cases hu : unpackFor tbl τ 0 0 with
  | none => rw [hu] at h; simp at h
  | ok r =>
    obtain ⟨v, x, y⟩ := r
    rw [hu] at h
    dsimp only at h
    split at h <;> simp at h
  | fault k' =>
    rw [hu] at h g
    simp at h
    subst h
    exact g

/-- `std::out_of_range` is never thrown, whatever the table and the typification. -/
theorem unpack_no_oob (tbl : Table) (τ : Ty) : unpack tbl τ ≠ .fault .oob := by
  intro h
  have := (unpack_fault_only_degenerate tbl τ .oob h).1
  cases this

/-- against a well-formed typification unpacking never faults in any way. -/
theorem unpack_no_fault (tbl : Table) (τ : Ty) (hw : τ.wf = true) (k : Fault) :
    unpack tbl τ ≠ .fault k := by
  intro h
  have := (unpack_fault_only_degenerate tbl τ k h).2
  rw [hw] at this
  cases this

/-- **whatever is unpacked is compatible**: if unpacking any table against a well-formed
typification returns a value, the value is compatible with the typification (all elements
typed, all sets strictly ascending and duplicate-free). -/
theorem unpack_compat (tbl : Table) (τ : Ty) (v : Val) (hw : τ.wf = true)
    (h : unpack tbl τ = .ok v) : compat v τ = true := by
  unfold unpack at h
  have g := unpackFor_good tbl τ 0 0
  cases hu : unpackFor tbl τ 0 0 with
  | none => rw [hu] at h; simp at h
  | fault k => rw [hu] at h; simp at h
  | ok r =>
    obtain ⟨w, x, y⟩ := r
    rw [hu] at h g
    dsimp only at h
    split at h
    · simp at h
    · simp at h
      subst h
      exact g.2.2 hw

/-- the second sentence of the property in one statement: nothing, or a compatible value. -/
theorem unpack_none_or_compat (tbl : Table) (τ : Ty) (hw : τ.wf = true) :
    unpack tbl τ = .none ∨ ∃ v, unpack tbl τ = .ok v ∧ compat v τ = true := by
  cases h : unpack tbl τ with
  | none => exact Or.inl rfl
  | ok v => exact Or.inr ⟨v, rfl, unpack_compat tbl τ v hw h⟩
  | fault k => exact absurd h (unpack_no_fault tbl τ hw k)

/-! ## header -/

/-- **header_spec**: the header has one entry per cell of an empty set: packing `∅ : ℬ(b)`
gives one row of `|header|` zeros, and `SkipEmpty` advances the cursor by `|header|`. -/
theorem header_spec (b : Ty) (y : Nat) :
    pack (.s []) (.coll b) = some [List.replicate (header (.coll b)).length 0] ∧
    skipEmpty (.coll b) y = y + (header (.coll b)).length := by
  rw [header_length, skipEmpty_eq]
  refine ⟨?_, rfl⟩
  unfold pack
  rw [packVal]
  simp [addEmptyV_eq]

/-! ## non-vacuity -/

/-- `{(∅,1), ({2,3},1)} : ℬ(ℬ(X1)×C1)` — a nested empty set and a tuple containing a set. -/
def exTy : Ty := .coll (.tuple [.coll (.base "X1"), .base "C1"])
def exVal : Val := .s [.t [.s [], .e 1], .t [.s [.e 2, .e 3], .e 1]]

example : exTy.wf = true ∧ compat exVal exTy = true ∧ noMarker exVal = true := by decide
example : pack exVal exTy = some [[2, 0, 0, 1], [2, 2, 2], [2, 2, 3, 1]] := by decide
example : unpack [[2, 0, 0, 1], [2, 2, 2], [2, 2, 3, 1]] exTy = .ok exVal := rfl
example : ∃ tbl, pack exVal exTy = some tbl ∧ unpack tbl exTy = .ok exVal :=
  unpack_pack_partial exVal exTy (by decide) (by decide) (by decide)
/-- `unpack_compat` is not vacuous: a table with the unknown-count marker unpacks to a value. -/
example : unpack [[10000000, 0, 0, 7], [10000000, 1, 5, 7]] exTy =
    .ok (.s [.t [.s [], .e 7], .t [.s [.e 5], .e 7]]) := rfl
example : compat (.s [.t [.s [], .e 7], .t [.s [.e 5], .e 7]]) exTy = true :=
  unpack_compat [[10000000, 0, 0, 7], [10000000, 1, 5, 7]] exTy _ (by decide) rfl
/-- ragged / truncated / miscounted tables give "nothing". -/
example : unpack [[2, 1], []] (.coll (.base "X1")) = .none ∧
    unpack [[3, 1], [3, 2]] (.coll (.base "X1")) = .none ∧
    unpack [[-1, 1]] (.coll (.base "X1")) = .none ∧
    unpack [[2, 1], [2, 1]] (.coll (.base "X1")) = .none ∧
    unpack [] (.base "X1") = .none := ⟨rfl, rfl, rfl, rfl, rfl⟩

/-- the degenerate arities the raw constructor of `Typification` admits: arity 0 runs into the
assertion of `Factory::Tuple`, arity 1 returns the bare component (not a tuple). -/
theorem unpack_degenerate_arity :
    unpack [[1]] (.tuple []) = .fault .assertTuple ∧
    unpack [[1]] (.tuple [.base "X1"]) = .ok (.e 1) := ⟨rfl, rfl⟩

end CCVerif.SDC
