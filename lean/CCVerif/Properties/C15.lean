import CCVerif.Lemmas.SDataCow
import CCVerif.Lemmas.SDataLazy
import CCVerif.Lemmas.SDataCard
import CCVerif.Model.SDataPinned
/-!
# C15 — structured data is a finite-set algebra with value semantics

Property theorems about the model `CCVerif.Model.SData` (a transcription of
`ccl/rslang/src/StructuredData.cpp`, `SDImplementation.cpp`, `SDImplementation.h`).
All statements are for every value / every list / every history, no size bound; the proofs are
mutual structural inductions over the nested inductive `Val` (in `CCVerif.Lemmas.SData`).

Hypotheses are those the C++ relies on: the values that meet in one set have one typification
(`hasTy`, what the type checker guarantees), stored sets are canonical (`canon`, the `std::set`
invariant, itself proved to be preserved by every operation).

The independent notions the theorems are stated against: equality `=` of canonical trees, list
membership `∈`, `List.Nodup`, `List.Sublist`, and `sameObject` (set-theoretic identity of raw
values, defined without any order).
-/
namespace CCVerif.C15
open CCVerif.SData

/-! ## 1. `Compare` is a strict total order consistent with equality -/

/-- `Compare(a, a) = EQUAL` (also justifies the pointer short cut `data == rhs.data`). -/
theorem cmp_refl (a : Val) : cmp a a = .eq := SData.cmp_refl a

/-- `Compare` answers EQUAL exactly on identical trees. -/
theorem cmp_eq_iff_eq (a b : Val) : cmp a b = .eq ↔ a = b := SData.cmp_eq_iff a b

/-- antisymmetry: swapping the operands swaps LESS and GREATER and keeps EQUAL. -/
theorem cmp_antisymm (a b : Val) :
    (cmp a b = .lt ↔ cmp b a = .gt) ∧ (cmp a b = .gt ↔ cmp b a = .lt) ∧ (cmp a b = .eq ↔ cmp b a = .eq) := by
  have h := SData.cmp_swap a b
  refine ⟨?_, ?_, ?_⟩ <;> (rw [h]; cases cmp a b <;> simp [Cmp.swap])

/-- transitivity of LESS. -/
theorem cmp_trans (a b c : Val) (h1 : cmp a b = .lt) (h2 : cmp b c = .lt) : cmp a c = .lt :=
  SData.cmp_trans a b c h1 h2

example : cmp (.s [.e 1]) (.s [.e 2]) = .lt ∧ cmp (.s [.e 2]) (.s [.e 1, .e 2]) = .lt ∧
    cmp (.s [.e 1]) (.s [.e 1, .e 2]) = .lt := by decide

/-- totality on values of one typification: never INCOMPARABLE (and never stuck). -/
theorem cmp_total (a b : Val) (τ : Ty) (ha : hasTy a τ = true) (hb : hasTy b τ = true) :
    cmp a b = .lt ∨ cmp a b = .eq ∨ cmp a b = .gt :=
  (Cmp.proper_iff _).1 (SData.cmp_total a b τ ha hb)

example : cmp (.s [.e 1, .t [.e 2, .e 3]]) (.e 1) = .inc := by decide
example : hasTy (.s [.s [.e 1], .s [.e 1, .e 2]]) (.coll (.coll .base)) = true ∧
    hasTy (.s [.s [], .s [.e 5]]) (.coll (.coll .base)) = true ∧
    cmp (.s [.s [.e 1], .s [.e 1, .e 2]]) (.s [.s [], .s [.e 5]]) = .gt := by decide

/-- the element-wise loops of `Compare` never run off the right-hand operand. -/
theorem cmp_never_stuck (a b : Val) : cmp a b ≠ .stuck := SData.cmp_ne_stuck a b

/-- `operator<` is a strict total order on the values of one typification, and its induced
equivalence (neither less) is equality — what `std::set<StructuredData>` needs. -/
theorem lt_strict_total_order :
    (∀ a, lt a a = false) ∧
    (∀ a b c, lt a b = true → lt b c = true → lt a c = true) ∧
    (∀ a b, lt a b = true → lt b a = false) ∧
    (∀ a b τ, hasTy a τ = true → hasTy b τ = true → lt a b = true ∨ a = b ∨ lt b a = true) := by
  refine ⟨lt_irrefl, fun a b c => lt_trans, fun a b => lt_asymm, ?_⟩
  intro a b τ ha hb
  cases h1 : lt a b
  · cases h2 : lt b a
    · exact Or.inr (Or.inl (eq_of_not_lt ha hb h1 h2))
    · exact Or.inr (Or.inr rfl)
  · exact Or.inl rfl

/-! ## 2. enumerated sets: insertion, canonical form, extensionality -/

/-- `AddElement` keeps the set canonical, adds exactly the new element, and reports whether it
was new. -/
theorem insert_spec (x : Val) (xs : List Val) (τ : Ty) (hx : hasTy x τ = true) (hxs : allTy xs τ = true)
    (cx : canon x = true) (cs : canon (.s xs) = true) :
    canon (.s (insert x xs)) = true ∧ allTy (insert x xs) τ = true ∧
    (∀ y, y ∈ insert x xs ↔ y = x ∨ y ∈ xs) ∧ (insertNew x xs = true ↔ x ∉ xs) :=
  ⟨insert_canon hx hxs cx cs, allTy_insert hx xs hxs, mem_insert hx xs hxs,
    insertNew_iff hx xs hxs ((canon_s_iff xs).1 cs).2⟩

example : insert (.e 2) [.e 1, .e 3] = [.e 1, .e 2, .e 3] ∧ insert (.e 3) [.e 1, .e 3] = [.e 1, .e 3] ∧
    insertNew (.e 3) [.e 1, .e 3] = false := by decide
example : hasTy (.e 2) .base = true ∧ allTy [.e 1, .e 3] .base = true ∧ canon (.e 2) = true ∧
    canon (.s [.e 1, .e 3]) = true ∧ containsEnum (.e 3) [.e 1, .e 3] = true ∧
    containsEnum (.e 2) [.e 1, .e 3] = false := by decide

/-- `SDEnumSet::Contains` decides membership. -/
theorem contains_iff_mem (x : Val) (xs : List Val) (τ : Ty) (hx : hasTy x τ = true) (hxs : allTy xs τ = true)
    (cs : canon (.s xs) = true) : containsEnum x xs = true ↔ x ∈ xs :=
  containsEnum_iff hx xs hxs ((canon_s_iff xs).1 cs).2

/-- extensionality: canonical sets are equal exactly when they have the same members. -/
theorem set_extensionality (xs ys : List Val) (hx : canon (.s xs) = true) (hy : canon (.s ys) = true) :
    Val.s xs = Val.s ys ↔ ∀ v, v ∈ xs ↔ v ∈ ys := by
  constructor
  · intro h; cases h; intro v; exact Iff.rfl
  · intro h
    rw [sorted_ext xs ys ((canon_s_iff xs).1 hx).2 ((canon_s_iff ys).1 hy).2 h]

/-- `Compare` answers EQUAL on two stored sets exactly when they have the same members. -/
theorem compare_equal_iff_same_members (xs ys : List Val) (hx : canon (.s xs) = true) (hy : canon (.s ys) = true) :
    cmp (.s xs) (.s ys) = .eq ↔ ∀ v, v ∈ xs ↔ v ∈ ys := by
  rw [SData.cmp_eq_iff]; exact set_extensionality xs ys hx hy

example : canon (.s [.s [], .s [.e 2], .s [.e 1, .e 3]]) = true := by decide

/-- `Factory::Set` on an arbitrary sequence (any order, duplicates): the result is canonical and
has exactly the members of the sequence. -/
theorem mkSet_spec (xs : List Val) (τ : Ty) (ht : allTy xs τ = true) (hc : ∀ x ∈ xs, canon x = true) :
    canon (.s (mkSet xs)) = true ∧ allTy (mkSet xs) τ = true ∧ ∀ v, v ∈ mkSet xs ↔ v ∈ xs := by
  have h := addAll_spec xs [] (allTy_nil τ) ht sortedLt_nil
  have hm : ∀ v, v ∈ mkSet xs ↔ v ∈ xs := fun v => by rw [mkSet_eq_addAll, h.2.2 v]; simp
  refine ⟨?_, h.2.1, hm⟩
  rw [canon_s_iff]
  exact ⟨fun v hv => hc v ((hm v).1 hv), h.1⟩

/-- construction order and duplicates do not matter: two construction sequences give equal
(`Compare == EQUAL`) values exactly when they list the same elements. -/
theorem construction_independent (xs ys : List Val) (τ : Ty) (hx : allTy xs τ = true) (hy : allTy ys τ = true)
    (cx : ∀ x ∈ xs, canon x = true) (cy : ∀ y ∈ ys, canon y = true) :
    cmp (.s (mkSet xs)) (.s (mkSet ys)) = .eq ↔ ∀ v, v ∈ xs ↔ v ∈ ys := by
  have h1 := mkSet_spec xs τ hx cx
  have h2 := mkSet_spec ys τ hy cy
  rw [compare_equal_iff_same_members _ _ h1.1 h2.1]
  constructor
  · intro h v; rw [← h1.2.2 v, ← h2.2.2 v]; exact h v
  · intro h v; rw [h1.2.2 v, h2.2.2 v]; exact h v

example : mkSet [.e 3, .e 1, .e 3, .e 2, .e 1] = mkSet [.e 2, .e 3, .e 1] := by decide

/-- equal exactly when the same mathematical object: on canonical values `Compare == EQUAL`
coincides with the order-free set-theoretic identity `sameObject`. -/
theorem equal_iff_same_object (a b : Val) (ha : canon a = true) (hb : canon b = true) :
    cmp a b = .eq ↔ sameObject a b = true := by
  rw [SData.cmp_eq_iff, sameObject_iff_eq ha hb]

/-- the stored set denotes the same object as the raw construction sequence (any order, any
duplicates), and two raw sequences denote the same set iff their stored sets compare EQUAL. -/
theorem mkSet_same_object (xs ys : List Val) (τ : Ty) (hx : allTy xs τ = true) (hy : allTy ys τ = true)
    (cx : ∀ x ∈ xs, canon x = true) (cy : ∀ y ∈ ys, canon y = true) :
    sameObject (.s xs) (.s (mkSet xs)) = true ∧
    (sameObject (.s xs) (.s ys) = true ↔ cmp (.s (mkSet xs)) (.s (mkSet ys)) = .eq) := by
  have h1 := mkSet_spec xs τ hx cx
  have cxl : canonList xs = true := (canonList_iff xs).2 cx
  have cyl : canonList ys = true := (canonList_iff ys).2 cy
  have cml : canonList (mkSet xs) = true :=
    (canonList_iff _).2 (fun v hv => cx v ((h1.2.2 v).1 hv))
  refine ⟨(sameObject_sets_iff cxl cml).2 (fun v => (h1.2.2 v).symm), ?_⟩
  rw [sameObject_sets_iff cxl cyl, construction_independent xs ys τ hx hy cx cy]

example : sameObject (.s [.e 1, .s [.e 2, .e 2], .e 1]) (.s [.s [.e 2], .e 1]) = true := by decide
example : sameObject (.s [.e 1, .e 2]) (.s [.e 1]) = false := by decide
example : canon (.s [.t [.e 1, .s []], .t [.e 1, .s [.e 4]]]) = true ∧
    cmp (.s [.t [.e 1, .s []], .t [.e 1, .s [.e 4]]]) (.s [.t [.e 1, .s []], .t [.e 1, .s [.e 4]]]) = .eq ∧
    sameObject (.s [.t [.e 1, .s []], .t [.e 1, .s [.e 4]]]) (.s [.t [.e 1, .s [.e 4]], .t [.e 1, .s []]]) = true := by
  decide

/-- iteration visits every element once: a canonical set has no repeated element, so its
`Cardinality()` (the length of the iteration) is the number of its distinct members. -/
theorem iteration_each_once (xs : List Val) (h : canon (.s xs) = true) : xs.Nodup :=
  sortedLt_nodup xs ((canon_s_iff xs).1 h).2

/-! ## 3. the set operations agree with their set-theoretic definitions

`Faithful v τ`: the view `v` of a set implementation (its iteration `elems` and its `Contains`)
behaves like a finite set of canonical values of type `τ`. Enumerated sets are faithful
(`enum_faithful`); section 5 shows it for the lazy power set and product. -/

theorem enum_faithful (xs : List Val) (τ : Ty) (ht : allTy xs τ = true) (hc : canon (.s xs) = true) :
    Faithful (enumView xs) τ :=
  enumView_faithful ((canon_s_iff xs).1 hc).2 ht ((canon_s_iff xs).1 hc).1

private theorem canon_of_mem_spec {r : List Val} (hs : sortedLt r = true) (hc : ∀ y ∈ r, canon y = true) :
    canon (.s r) = true := (canon_s_iff r).2 ⟨hc, hs⟩

/-- `Union`. -/
theorem union_spec (a b : View) (τ : Ty) (ha : Faithful a τ) (hb : Faithful b τ) :
    canon (.s (union a b)) = true ∧ allTy (union a b) τ = true ∧
      ∀ y, y ∈ union a b ↔ y ∈ a.elems ∨ y ∈ b.elems := by
  have h := SData.union_spec ha hb
  refine ⟨canon_of_mem_spec h.1 (fun y hy => ?_), h.2.1, h.2.2⟩
  rcases (h.2.2 y).1 hy with h' | h'
  · exact ha.canonEl y h'
  · exact hb.canonEl y h'

/-- `Intersect`. -/
theorem intersect_spec (a b : View) (τ : Ty) (ha : Faithful a τ) (hb : Faithful b τ) :
    canon (.s (intersect a b)) = true ∧ allTy (intersect a b) τ = true ∧
      ∀ y, y ∈ intersect a b ↔ y ∈ a.elems ∧ y ∈ b.elems := by
  have h := SData.intersect_spec ha hb
  exact ⟨canon_of_mem_spec h.1 (fun y hy => ha.canonEl y ((h.2.2 y).1 hy).1), h.2.1, h.2.2⟩

/-- `Diff`. -/
theorem diff_spec (a b : View) (τ : Ty) (ha : Faithful a τ) (hb : Faithful b τ) :
    canon (.s (diff a b)) = true ∧ allTy (diff a b) τ = true ∧
      ∀ y, y ∈ diff a b ↔ y ∈ a.elems ∧ y ∉ b.elems := by
  have h := SData.diff_spec ha hb
  exact ⟨canon_of_mem_spec h.1 (fun y hy => ha.canonEl y ((h.2.2 y).1 hy).1), h.2.1, h.2.2⟩

/-- `SymDiff`. -/
theorem symDiff_spec (a b : View) (τ : Ty) (ha : Faithful a τ) (hb : Faithful b τ) :
    canon (.s (symDiff a b)) = true ∧ allTy (symDiff a b) τ = true ∧
      ∀ y, y ∈ symDiff a b ↔ (y ∈ a.elems ∧ y ∉ b.elems) ∨ (y ∈ b.elems ∧ y ∉ a.elems) := by
  have h := SData.symDiff_spec ha hb
  refine ⟨canon_of_mem_spec h.1 (fun y hy => ?_), h.2.1, h.2.2⟩
  rcases (h.2.2 y).1 hy with h' | h'
  · exact ha.canonEl y h'.1
  · exact hb.canonEl y h'.1

example : union (enumView [.e 1, .e 3]) (enumView [.e 2, .e 3]) = [.e 1, .e 2, .e 3] ∧
    intersect (enumView [.e 1, .e 3]) (enumView [.e 2, .e 3]) = [.e 3] ∧
    diff (enumView [.e 1, .e 3]) (enumView [.e 2, .e 3]) = [.e 1] ∧
    symDiff (enumView [.e 1, .e 3]) (enumView [.e 2, .e 3]) = [.e 1, .e 2] := by decide
example : Faithful (enumView [.e 1, .e 3]) .base := enum_faithful _ _ (by decide) (by decide)

/-- `IsSubsetOrEq` (the code as it is now, with the symmetric iterator equality). -/
theorem isSubsetOrEq_spec (a b : View) (τ : Ty) (ha : Faithful a τ) (hb : Faithful b τ) :
    isSubsetOrEq a b = true ↔ ∀ x, x ∈ a.elems → x ∈ b.elems :=
  SData.isSubsetOrEq_spec ha hb

example : isSubsetOrEq (enumView [.e 1, .e 3]) (enumView [.e 1, .e 2, .e 3]) = true ∧
    isSubsetOrEq (enumView [.e 1, .e 4]) (enumView [.e 1, .e 2, .e 3]) = false := by decide

/-- **pinned counterexample** (the tree before "fix: lazy set iterators compare equal
symmetrically"): with the old `operator==` of the lazy iterators `std::all_of` answered `true`
for `ℬ(∅) ⊆ ∅` although `∅ ∈ ℬ(∅)` is not in `∅`. `isSubsetOrEqPinned` is that old behaviour, not
the current code; the current transcription answers `false` (second component). -/
theorem isSubsetOrEq_lazy_counterexample :
    (∃ a b : View, a.lazy = true ∧ a.elems = [Val.s []] ∧ b.elems = [] ∧ (∀ x, b.has x = false) ∧
      isSubsetOrEqPinned a b = true ∧ ¬ (∀ x, x ∈ a.elems → x ∈ b.elems)) ∧
    (∀ a b : View, a.elems = [Val.s []] → (∀ x, b.has x = false) → isSubsetOrEq a b = false) := by
  refine ⟨⟨⟨[.s []], fun _ => true, true⟩, ⟨[], fun _ => false, false⟩, rfl, rfl, rfl, fun _ => rfl, ?_, ?_⟩, ?_⟩
  · simp [isSubsetOrEqPinned, allOfWith, findIfNot, lazyEndEqPinned]
  · intro h; have := h (.s []) (by simp); simp at this
  · intro a b ha hb
    simp [isSubsetOrEq, allOfWith, ha, findIfNot, hb, endEqIter]

/-- `Projection`: defined on sets of tuples for indices inside the arity, canonical, and its
members are exactly the projected members (a single index yields the component itself). -/
theorem projection_spec (a : List Val) (ts : List Ty) (idx : List Nat) (ρ : Ty)
    (ht : allTy a (.tup ts) = true) (hc : ∀ x ∈ a, canon x = true) (hp : projTy ts idx = some ρ) :
    ∃ r, projection idx a = some r ∧ canon (.s r) = true ∧ allTy r ρ = true ∧
      ∀ y, y ∈ r ↔ ∃ x ∈ a, projectOne idx x = some y := by
  obtain ⟨r, h1, h2, h3, h4⟩ := SData.projection_spec ht hp
  refine ⟨r, h1, canon_of_mem_spec h2 (fun y hy => ?_), h3, h4⟩
  obtain ⟨x, hx, hxy⟩ := (h4 y).1 hy
  have cx := hc x hx
  have tx := (allTy_iff _ _).1 ht x hx
  cases x with
  | e n => simp [hasTy] at tx
  | s xs => simp [hasTy] at tx
  | t cs =>
    rw [canon_t_iff] at cx
    simp only [projectOne, Option.bind_eq_some_iff] at hxy
    obtain ⟨vs, hvs, hy'⟩ := hxy
    have hmem := allSome_map_mem (component (.t cs)) idx vs hvs
    have cvs : ∀ v ∈ vs, canon v = true := by
      intro v hv
      obtain ⟨i, _, hi⟩ := (hmem v).1 hv
      simp only [component] at hi
      split at hi
      · cases hi
      · exact cx v (List.mem_of_getElem? hi)
    match vs, hy' with
    | [], h => simp [mkTuple] at h
    | [v], h => simp only [mkTuple, Option.some.injEq] at h; subst h; exact cvs _ (by simp)
    | v1 :: v2 :: r, h =>
      simp only [mkTuple, Option.some.injEq] at h; subst h
      rw [canon_t_iff]; exact cvs

/-- what one projected member is: the tuple of the selected components, 1-based. -/
theorem projectOne_tuple (idx : List Nat) (cs : List Val) :
    projectOne idx (.t cs) = (allSome (idx.map fun i => if i = 0 then none else cs[i - 1]?)).bind mkTuple := rfl

example : projection [2, 1] [.t [.e 1, .e 5], .t [.e 2, .e 5]] = some [.t [.e 5, .e 1], .t [.e 5, .e 2]] ∧
    projection [2] [.t [.e 1, .e 5], .t [.e 2, .e 5]] = some [.e 5] ∧
    (projTy [.base, .base] [2, 1]).isSome = true := by decide

/-- `Reduce`: the union of the members. -/
theorem reduce_spec (a : List Val) (τ : Ty) (ht : allTy a (.coll τ) = true) (hc : ∀ x ∈ a, canon x = true) :
    ∃ r, reduce a = some r ∧ canon (.s r) = true ∧ allTy r τ = true ∧
      ∀ y, y ∈ r ↔ ∃ ys, Val.s ys ∈ a ∧ y ∈ ys := by
  obtain ⟨r, h1, h2, h3, h4⟩ := SData.reduce_spec ht
  refine ⟨r, h1, canon_of_mem_spec h2 (fun y hy => ?_), h3, h4⟩
  obtain ⟨ys, hys, hy'⟩ := (h4 y).1 hy
  exact ((canon_s_iff ys).1 (hc _ hys)).1 y hy'

example : reduce [.s [.e 1], .s [.e 1, .e 2], .s []] = some [.e 1, .e 2] := by decide

/-- `Singleton` and `Debool`: `{x}` has the one member `x`, and `Debool` is its inverse;
`Debool` is defined exactly on one-element sets. -/
theorem singleton_debool_spec (x : Val) :
    (∀ y, y ∈ singleton x ↔ y = x) ∧ (canon x = true → canon (.s (singleton x)) = true) ∧
    debool (singleton x) = some x ∧ (∀ xs y, debool xs = some y ↔ xs = [y]) := by
  refine ⟨by simp [SData.singleton, SData.insert], ?_, rfl, ?_⟩
  · intro h; simp [SData.singleton, SData.insert, canon, canonList, sortedLt, h]
  · intro xs y
    match xs with
    | [] => simp [debool]
    | [z] => simp [debool]
    | _ :: _ :: _ => simp [debool]

/-! ## 4. value semantics: modifying a copy never changes the original -/

/-- every history of `new` / copy / assignment / `AddElement` (by value or of another handle) /
aliasing of stored elements that plain value semantics can run, the copy-on-write store runs
too, and afterwards every handle denotes exactly the plain value: handles behave as independent
values although they share `Impl`s. -/
theorem cow_refines_values (ops : List Op) (vs : List Val) (h : pureRun [] ops = some vs) :
    ∃ st, Store.run {} ops = some st ∧ Inv st ∧ st.hs.length = vs.length ∧ ∀ k, st.denote k = vs[k]? := by
  obtain ⟨st, h1, h2, h3⟩ := cow_run ops inv_empty abs_empty h
  exact ⟨st, h1, h2, h3.len, h3.den⟩

/-- isolation for one step from any reachable store (any store satisfying the `shared_ptr`
invariant `Inv`): `x.ModifyB().AddElement(v)` changes the denotation of the handle `x` to the set
with `v` added and leaves the denotation of every other handle unchanged. -/
theorem cow_isolation (st : Store) (k : Nat) (v : Val) (xs : List Val) (hi : Inv st)
    (hk : st.denote k = some (.s xs)) :
    ∃ st' b, st.addElement k v = some (st', b) ∧ Inv st' ∧
      st'.denote k = some (.s (insert v xs)) ∧ ∀ j, j ≠ k → st'.denote j = st.denote j := by
  -- the plain values the store denotes
  have hall : ∀ j, j < st.hs.length → ∃ w, st.denote j = some w := by
    intro j hj
    rw [denote_eq]
    obtain ⟨r, hr⟩ : ∃ r, st.hs[j]? = some r := ⟨st.hs[j], by simp [hj]⟩
    have hrl := hi.valid r (List.mem_of_getElem? hr)
    exact ⟨st.cells[r].val, by simp [hr, valAt, hrl]⟩
  let vs : List Val := (List.range st.hs.length).map fun j => (st.denote j).getD default
  have hlen : vs.length = st.hs.length := by simp [vs]
  have ha : Abs st vs := by
    refine ⟨hlen.symm, fun j => ?_⟩
    by_cases hj : j < st.hs.length
    · obtain ⟨w, hw⟩ := hall j hj
      simp [vs, hj, hw]
    · have : st.denote j = none := by
        rw [denote_eq]; simp [List.getElem?_eq_none (Nat.le_of_not_lt hj)]
      simp [vs, hj, this]
  have hk' : vs[k]? = some (.s xs) := by rw [← ha.den k]; exact hk
  obtain ⟨st', b, h1, h2, h3⟩ := add_case hi ha v hk'
  have hkl : k < vs.length := by
    rcases List.getElem?_eq_some_iff.mp hk' with ⟨h, _⟩; exact h
  refine ⟨st', b, h1, h2, ?_, ?_⟩
  · rw [h3.den k]; simp [hkl]
  · intro j hj
    rw [h3.den j, ha.den j, List.getElem?_set]
    split
    · rename_i e; exact absurd e.symm hj
    · rfl

example : pureRun [] [.new (.s [.s [.e 1]]), .copy 0, .add 1 (.s [.e 2]), .newShared (.s []), .addh 0 2] =
    some [.s [.s [], .s [.e 1]], .s [.s [.e 1], .s [.e 2]], .s []] := by decide
example : ((Store.run {} [.new (.s [.e 1]), .copy 0, .add 1 (.e 2)]).map Store.denoteAll) =
    some [some (.s [.e 1]), some (.s [.e 1, .e 2])] := by decide
/-- a reachable store with two handles on one shared cell satisfies the hypotheses of
`cow_isolation` (non-vacuity). -/
example : ∃ st, Store.run {} [.new (.s [.e 1]), .copy 0] = some st ∧ Inv st ∧
    st.denote 1 = some (.s [.e 1]) := by
  obtain ⟨st, h1, h2, _, h4⟩ := cow_refines_values [.new (.s [.e 1]), .copy 0] [.s [.e 1], .s [.e 1]] (by decide)
  exact ⟨st, h1, h2, by simpa using h4 1⟩
example : (Store.run {} [.new (.s [.e 1]), .copy 0]).map (fun st => (st.hs, st.cells.map (·.rc))) =
    some ([0, 0], [2]) := by decide

/-! ## 5. the lazy power set and Cartesian product -/

/-- `SDPowerSet::Iterator`, index level: iterating the power set of an `n`-element base visits
exactly `powSpec n` — every strictly increasing index vector once, subset sizes ascending,
lexicographically ascending inside one size — and the walk is never stuck. -/
theorem powerset_index_order (n : Nat) : powIdxAll n = powSpec n := powIdxAll_eq n

/-- `SDDecartian::Iterator`, index level: exactly the index vectors below the factor sizes, once
each, lexicographically ascending with the last factor fastest; nothing when a factor is empty. -/
theorem product_index_order (dims : List Nat) : prodIdxAll dims = tuplesIdx dims := prodIdxAll_eq dims

example : powIdxAll 3 = [[], [0], [1], [2], [0, 1], [0, 2], [1, 2], [0, 1, 2]] := by decide
example : prodIdxAll [2, 3] = [[0, 0], [0, 1], [0, 2], [1, 0], [1, 1], [1, 2]] := by decide

/-- the lazy power set of a canonical base enumerates every subset exactly once, in
`Compare`-ascending order: the iteration is defined, canonical (strictly ascending, hence
duplicate-free), has `2 ^ n` elements, and its members are exactly the sub-lists of the base
(the subsets, in canonical form). -/
theorem powerset_iteration (base : List Val) (τ : Ty) (hc : canon (.s base) = true) (ht : allTy base τ = true) :
    ∃ P, powIter base = some P ∧ canon (.s P) = true ∧ allTy P (.coll τ) = true ∧
      P.length = 2 ^ base.length ∧ ∀ x, x ∈ P ↔ ∃ ys, x = .s ys ∧ ys.Sublist base := by
  rw [canon_s_iff] at hc
  obtain ⟨P, h1, _, h3, h4, h5, h6, h7⟩ := powIter_spec hc.2 ht hc.1
  exact ⟨P, h1, (canon_s_iff P).2 ⟨h5, h3⟩, h4, h6, h7⟩

example : powIter [.e 1, .e 2] = some [.s [], .s [.e 1], .s [.e 2], .s [.e 1, .e 2]] := by decide

/-- every well-formed set implementation — enumerated, power set, product, nested in any way
(`ℬ(ℬ(X)×Y)` …) — iterates without getting stuck and is a faithful view of a finite set: strictly
ascending iteration, typed canonical members, and `Contains` (structural for the lazy sets)
decides membership in the iteration. So every operation theorem of section 3 applies to lazy
operands. -/
theorem lazy_sets_faithful (l : LSet) (τ : Ty) (h : l.wf τ = true) :
    ∃ xs, l.iter = some xs ∧ l.view = some ⟨xs, l.has, l.isLazy⟩ ∧ Faithful ⟨xs, l.has, l.isLazy⟩ τ := by
  obtain ⟨xs, h1, h2⟩ := LSet.faithful l τ h
  exact ⟨xs, h1, by simp [LSet.view, h1], h2⟩

example : (LSet.pow (.prod [.enum [.e 1, .e 2], .pow (.enum [.e 7])])).wf
    (.coll (.tup [.base, .coll .base])) = true := by decide

/-- `Contains` on a well-formed (possibly lazy) set performs no unchecked access (`B()` / `T()` of the
wrong alternative, `components.at`) for an argument of the element type. -/
theorem contains_never_stuck (l : LSet) (τ : Ty) (x : Val) (h : l.wf τ = true) (hx : hasTy x τ = true) :
    l.hasDefined x = true := LSet.hasDefined_of_typed l τ x h hx

example : (LSet.pow (.enum [.e 1])).hasDefined (.e 1) = false ∧
    (LSet.pow (.enum [.e 1])).hasDefined (.s [.e 2]) = true := by decide

/-- members and size of a lazily iterated power set over any well-formed base. -/
theorem powerset_members (b : LSet) (σ : Ty) (h : b.wf σ = true) :
    ∃ base P, b.iter = some base ∧ (LSet.pow b).iter = some P ∧ P.length = 2 ^ base.length ∧
      ∀ x, x ∈ P ↔ ∃ ys, x = .s ys ∧ ys.Sublist base := by
  obtain ⟨base, h1, h2⟩ := LSet.faithful b σ h
  obtain ⟨P, hp1, hp2, hp3, _⟩ := pow_faithful h2
  exact ⟨base, P, h1, by simp [LSet.iter, h1, hp1], hp2, hp3⟩

/-- members and size of a lazily iterated product over any well-formed factors: exactly the tuples
whose components come from the factors. -/
theorem product_members (fs : List LSet) (ts : List Ty) (h : LSet.wfList fs ts = true) (h2 : 2 ≤ fs.length) :
    ∃ xss P, LSet.iterList fs = some xss ∧ (LSet.prod fs).iter = some P ∧
      P.length = (xss.map List.length).foldr (· * ·) 1 ∧
      ∀ x, x ∈ P ↔ ∃ cs, x = .t cs ∧ MemEach cs xss := by
  obtain ⟨xss, h1, hx⟩ := LSet.faithfulList fs ts h
  obtain ⟨P, hp1, hp2, hp3, _⟩ := prod_faithful hx h2
  exact ⟨xss, P, h1, by simp [LSet.iter, h1, hp1], hp2, hp3⟩

example : (LSet.prod [.enum [.e 1, .e 2], .enum [.e 5]]).iter = some [.t [.e 1, .e 5], .t [.e 2, .e 5]] := by decide
example : LSet.wfList [.enum [.e 1, .e 2], .enum [.e 5]] [.base, .base] = true := by decide

/-- equal regardless of representation: a lazily represented set and *any* enumerated construction
(any order, any duplicates) of the same members are the same value (`Compare == EQUAL`). -/
theorem representation_independent (l : LSet) (τ : Ty) (h : l.wf τ = true) (xs ys : List Val)
    (hi : l.iter = some xs) (hy : allTy ys τ = true) (cy : ∀ y ∈ ys, canon y = true)
    (same : ∀ v, v ∈ xs ↔ v ∈ ys) : mkSet ys = xs ∧ cmp (.s xs) (.s (mkSet ys)) = .eq := by
  obtain ⟨xs', h1, h2⟩ := LSet.faithful l τ h
  rw [hi] at h1; cases h1
  have hm := mkSet_spec ys τ hy cy
  have e : mkSet ys = xs :=
    sorted_ext _ _ ((canon_s_iff _).1 hm.1).2 h2.sorted (fun v => by rw [hm.2.2 v, same v])
  exact ⟨e, by rw [e]; exact SData.cmp_refl _⟩

example : (LSet.pow (.enum [.e 1, .e 2])).wf (.coll .base) = true ∧
    (LSet.pow (.enum [.e 1, .e 2])).iter = some [.s [], .s [.e 1], .s [.e 2], .s [.e 1, .e 2]] ∧
    mkSet [.s [.e 1, .e 2], .s [], .s [.e 2], .s [.e 1], .s [.e 2]] = [.s [], .s [.e 1], .s [.e 2], .s [.e 1, .e 2]] := by
  decide

/-- `SDSet::Compare` on two implementations is `Compare` on the values they denote, as long as
`Cardinality()` is the true size. -/
theorem compare_lazy (a b : LSet) (xa xb : List Val) (ha : a.iter = some xa) (hb : b.iter = some xb)
    (ca : a.card = some xa.length) (cb : b.card = some xb.length) :
    a.compare b = cmp (.s xa) (.s xb) := by
  simp [LSet.compare, ha, hb, ca, cb, cmp]

/-- `Cardinality()` of a power set: `2 ^ n` up to `BOOL_INFINITY = 30` base elements, saturated
at `SET_INFINITY` above (not set-theoretic there; recorded as an assumption). -/
theorem card_pow (b : LSet) (n : Nat) (h : b.card = some n) :
    (LSet.pow b).card = some (if n > BOOL_INFINITY then SET_INFINITY else 2 ^ n) := by
  simp [LSet.card, h]

/-- `Cardinality()` of a product is the product of the (reported) factor sizes whenever that product
is at most `SET_INFINITY`. -/
theorem card_prod (fs : List LSet) (dims : List Nat) (h : LSet.cardList fs = some dims)
    (hpos : ∀ d ∈ dims, 0 < d) (hb : dims.foldr (· * ·) 1 ≤ SET_INFINITY) :
    (LSet.prod fs).card = some (dims.foldr (· * ·) 1) := by
  have := prodCount_exact dims 1 (Nat.le_refl 1) hpos (by simpa using hb)
  simp [LSet.card, h, this]

example : (LSet.pow (.enum [.e 1, .e 2, .e 3])).card = some 8 ∧
    (LSet.prod [.enum [.e 1, .e 2], .enum [.e 1, .e 2, .e 3]]).card = some 6 := by decide

/-- `Factory::Decartian` with an empty factor is the empty set, as is the set-theoretic product. -/
theorem decartian_empty_factor (fs : List LSet) (xss : List (List Val)) (h : ∃ f ∈ fs, f.card = some 0)
    (hx : [] ∈ xss) : decartian fs = .enum [] ∧ tuplesOf xss = [] := by
  refine ⟨?_, tuplesOf_nil_of_mem xss hx⟩
  obtain ⟨f, hf, hc⟩ := h
  have : fs.any (fun f => f.card == some 0) = true := List.any_eq_true.mpr ⟨f, hf, by simp [hc]⟩
  simp [decartian, this]

example : (decartian [.enum [.e 1], .enum []]).iter = some [] ∧ (decartian [.enum [.e 1], .enum []]).isLazy = false ∧
    tuplesOf [[.e 1], []] = [] := by decide

/-! ## 6. `Cardinality()` against the set-theoretic cardinality

`LSet.trueCard` (Spec/SDataCard.lean) is the mathematical size: the members of an enumeration,
`2 ^ |base|`, the product of the factor sizes.  `LSet.cardExact` is the arithmetic range in which the
C++ reports it: a power set over at most `BOOL_INFINITY = 30` members; a product all of whose partial
products are at most `SET_INFINITY` (`SET_INFINITY / factor ≥ count` at every factor, i.e.
`count * factor ≤ SET_INFINITY` — since 9d0a596; the test was `>` before, see
`pinned_product_size_order_counterexample`), all of it hereditarily.  Every set of at most
`SET_INFINITY` members is in that range (`card_exact_of_small`), and outside it the set has more than
`SET_INFINITY` members (`card_saturates`).  `LSet.factorsNonempty`: no `SDDecartian` has an empty
factor — what `Factory::Decartian` guarantees (`factory_sets_have_nonempty_factors`). -/

/-- cardinality = number of iterated elements, part 1: whatever a (possibly lazy, possibly nested)
implementation yields when iterated, it yields `trueCard` elements; a well-formed one yields them
pairwise different. -/
theorem iteration_counts_members (l : LSet) (τ : Ty) (h : l.wf τ = true) :
    ∃ xs, l.iter = some xs ∧ xs.Nodup ∧ xs.length = l.trueCard := LSet.iter_nodup_length l τ h

/-- the length of any defined iteration is the set-theoretic cardinality (no well-formedness needed). -/
theorem iteration_length (l : LSet) (xs : List Val) (h : l.iter = some xs) : xs.length = l.trueCard :=
  LSet.iter_length l xs h

/-- `Cardinality()` is the set-theoretic cardinality on the whole exact range — in particular the
numbers `2^29`, `2^30` above `SET_INFINITY` that a power set of 29 / 30 members reports un-saturated. -/
theorem card_exact (l : LSet) (hne : l.factorsNonempty = true) (hx : l.cardExact = true) :
    l.card = some l.trueCard := by
  obtain ⟨c, hc, hr⟩ := LSet.card_rel l hne
  rw [hc, hr.1 hx]

/-- every set of at most `SET_INFINITY` members is in the exact range, whatever its shape and the
order of its factors: `Cardinality()` is exact whenever the set-theoretic cardinality does not exceed
`SET_INFINITY`. -/
theorem card_exact_of_small (l : LSet) (hne : l.factorsNonempty = true) (hs : l.trueCard ≤ SET_INFINITY) :
    l.cardExact = true ∧ l.card = some l.trueCard :=
  ⟨LSet.cardExact_of_small l hne hs, card_exact l hne (LSet.cardExact_of_small l hne hs)⟩

/-- the side condition of a product does not depend on the order of the factors: for non-zero factor
sizes it says that the whole product is at most `SET_INFINITY`. -/
theorem prodFits_iff_product_le (ds : List Nat) (h : ∀ d ∈ ds, d ≠ 0) :
    prodFits ds 1 = true ↔ ds.foldr (· * ·) 1 ≤ SET_INFINITY := by
  rw [prodFits_iff ds 1 h (Nat.le_refl 1) (by decide), Nat.one_mul]

/-- cardinality = number of iterated elements, part 2: in the exact range `Cardinality()` is the
number of (pairwise different) elements the iteration yields — the hypothesis of `compare_lazy`. -/
theorem card_is_iteration_count (l : LSet) (τ : Ty) (h : l.wf τ = true) (hne : l.factorsNonempty = true)
    (hx : l.cardExact = true) : ∃ xs, l.iter = some xs ∧ xs.Nodup ∧ l.card = some xs.length := by
  obtain ⟨xs, h1, h2, h3⟩ := LSet.iter_nodup_length l τ h
  exact ⟨xs, h1, h2, by rw [h3]; exact card_exact l hne hx⟩

/-- outside the exact range `Cardinality()` is exactly `SET_INFINITY`, and the set then has more
than `SET_INFINITY` members: a saturated report is never above the true size. -/
theorem card_saturates (l : LSet) (hne : l.factorsNonempty = true) (hx : l.cardExact = false) :
    l.card = some SET_INFINITY ∧ SET_INFINITY < l.trueCard := by
  obtain ⟨c, hc, hr⟩ := LSet.card_rel l hne
  obtain ⟨e, hb⟩ := hr.2 hx
  exact ⟨by rw [hc, e], hb⟩

/-- the complete description: `Cardinality()` is defined, is the true cardinality or `SET_INFINITY`,
the latter only above `SET_INFINITY`; it is never above the true cardinality, never below
`min (true cardinality) SET_INFINITY`, and exact whenever the true cardinality is at most `SET_INFINITY`. -/
theorem card_characterised (l : LSet) (hne : l.factorsNonempty = true) :
    ∃ c, l.card = some c ∧ c = (if l.cardExact = true then l.trueCard else SET_INFINITY) ∧
      (c = l.trueCard ∨ (c = SET_INFINITY ∧ SET_INFINITY < l.trueCard)) ∧
      min l.trueCard SET_INFINITY ≤ c ∧ c ≤ l.trueCard ∧ (l.trueCard ≤ SET_INFINITY → c = l.trueCard) := by
  obtain ⟨c, hc, hr⟩ := LSet.card_rel l hne
  refine ⟨c, hc, ?_⟩
  cases hx : l.cardExact with
  | true =>
    have e := hr.1 hx
    exact ⟨by simp [e], Or.inl e, by rw [e]; exact Nat.min_le_left _ _, by omega, fun _ => e⟩
  | false =>
    obtain ⟨e, hb⟩ := hr.2 hx
    exact ⟨by simp [e], Or.inr ⟨e, hb⟩, by rw [e]; exact Nat.min_le_right _ _, by omega, fun h => by omega⟩

/-- `Cardinality()` is the true cardinality exactly on `cardExact`. -/
theorem card_exact_iff (l : LSet) (hne : l.factorsNonempty = true) :
    l.card = some l.trueCard ↔ l.cardExact = true := by
  obtain ⟨c, hc, hr⟩ := LSet.card_rel l hne
  rw [hc]
  cases hx : l.cardExact with
  | true => simp [hr.1 hx]
  | false =>
    obtain ⟨e, hb⟩ := hr.2 hx
    simp only [e, Option.some.injEq, Bool.false_eq_true, iff_false]
    omega

/-- a non-empty set never reports cardinality 0, and an empty one reports 0 (`IsEmpty()` is
`Cardinality() == 0`): the clause a wrapping product of sizes breaks. -/
theorem card_zero_iff_empty (l : LSet) (hne : l.factorsNonempty = true) : l.card = some 0 ↔ l.trueCard = 0 :=
  LSet.card_zero_iff l hne

/-- `Cardinality()` performs no division by zero when no `SDDecartian` has an empty factor … -/
theorem card_defined (l : LSet) (hne : l.factorsNonempty = true) : l.card ≠ none := by
  obtain ⟨c, hc, _⟩ := LSet.card_rel l hne
  rw [hc]; exact Option.some_ne_none c

/-- … and `SDDecartian::UpdateSize` does divide by the factor size: an `SDDecartian` over an empty
factor would be stuck (`SET_INFINITY / 0`). The constructor is not reachable with such a factor: -/
theorem card_stuck_on_empty_factor : (LSet.prod [.enum [.e 1], .enum []]).card = none ∧
    (decartian [.enum [.e 1], .enum []]).card = some 0 := by decide

/-- `Factory::Decartian` answers `EmptySet()` when a factor reports `IsEmpty()`, which (by
`card_zero_iff_empty`) is the case exactly for the empty factors: so no set built through the public
API — enumerations, `Factory::Boolean`, `Factory::Decartian`, nested in any way — contains an
`SDDecartian` with an empty factor, and `Factory::Decartian` denotes the set-theoretic product. -/
theorem factory_sets_have_nonempty_factors (l : LSet) (h : Built l) : l.factorsNonempty = true :=
  h.factorsNonempty

theorem factory_decartian_spec (fs : List LSet) (h : ∀ f ∈ fs, f.factorsNonempty = true) :
    (decartian fs).factorsNonempty = true ∧ (decartian fs).trueCard = (LSet.prod fs).trueCard :=
  decartian_spec fs h

/-- the specification column of the driver op `c15 card`: `specCard` is the set-theoretic
cardinality on the exact range and unspecified (`none`, printed `x`) elsewhere; where it is specified
the model's `Cardinality()` returns it. -/
theorem specCard_spec (l : LSet) :
    l.specCard = (if l.cardExact = true then some l.trueCard else none) ∧
    ∀ n, l.specCard = some n → l.factorsNonempty = true → l.card = some n := by
  refine ⟨LSet.specCard_eq l, fun n hn hne => ?_⟩
  rw [LSet.specCard_eq l] at hn
  cases hx : l.cardExact with
  | true =>
    simp only [hx, if_true, Option.some.injEq] at hn
    rw [← hn]; exact card_exact l hne hx
  | false => simp [hx] at hn

section card_examples
private def X (n : Nat) : LSet := .enum ((List.range n).map fun i => .e (Int.ofNat i))
/-- ℬ({1..5}) has 32 members; {1,2}×{1,2,3} has 6 — exact range, `card_exact` applies. -/
example : (LSet.pow (X 5)).factorsNonempty = true ∧ (LSet.pow (X 5)).cardExact = true ∧
    (LSet.pow (X 5)).trueCard = 32 ∧ (LSet.pow (X 5)).card = some 32 := by decide
example : (LSet.prod [X 2, X 3]).factorsNonempty = true ∧ (LSet.prod [X 2, X 3]).cardExact = true ∧
    (LSet.prod [X 2, X 3]).trueCard = 6 ∧ (LSet.prod [X 2, X 3]).card = some 6 := by decide
example : (LSet.pow (X 5)).wf (.coll .base) = true := by decide
/-- ℬ(X22)×ℬ(X22)×ℬ(X22) (2^66 members): outside the exact range, saturated and not 0
(`card_saturates`, `card_zero_iff_empty`). -/
example : (LSet.prod [.pow (X 22), .pow (X 22), .pow (X 22)]).factorsNonempty = true ∧
    (LSet.prod [.pow (X 22), .pow (X 22), .pow (X 22)]).cardExact = false := by decide
example : (LSet.prod [.pow (X 22), .pow (X 22), .pow (X 22)]).card = some SET_INFINITY :=
  (card_saturates _ (by decide) (by decide)).1
example : (LSet.prod [.pow (X 22), .pow (X 22), .pow (X 22)]).card ≠ some 0 := by
  rw [(card_saturates _ (by decide) (by decide)).1]; decide
/-- the exactness test does not depend on the order of the factors: ℬ(X26)×{1,2,3} and {1,2,3}×ℬ(X26)
both report their 201326592 ≤ `SET_INFINITY` members (`card_exact_of_small`). -/
example : (LSet.prod [.pow (X 26), X 3]).cardExact = true ∧ (LSet.prod [X 3, .pow (X 26)]).cardExact = true ∧
    (LSet.prod [X 3, .pow (X 26)]).factorsNonempty = true ∧ (LSet.prod [.pow (X 26), X 3]).factorsNonempty = true ∧
    (LSet.prod [X 3, .pow (X 26)]).specCard = some 201326592 ∧
    (LSet.prod [.pow (X 26), X 3]).specCard = some 201326592 := by decide
example : (LSet.prod [X 3, .pow (X 26)]).card = some 201326592 ∧ (LSet.prod [.pow (X 26), X 3]).card = some 201326592 :=
  ⟨by rw [card_exact _ (by decide) (by decide)]; decide, by rw [card_exact _ (by decide) (by decide)]; decide⟩
/-- {1,2,3}×ℬ(X27) has 402653184 > `SET_INFINITY` members: saturated, in either order. -/
example : (LSet.prod [X 3, .pow (X 27)]).cardExact = false ∧ (LSet.prod [.pow (X 27), X 3]).cardExact = false ∧
    (LSet.prod [X 3, .pow (X 27)]).factorsNonempty = true := by decide
/-- a power set of 30 members reports `2^30 > SET_INFINITY` un-saturated (exact), of 31 members `SET_INFINITY`. -/
example : (LSet.pow (X 30)).cardExact = true ∧ (LSet.pow (X 31)).cardExact = false := by decide
example : Built (decartian [boolean (.enum [.e 1]), .enum []]) :=
  .decartian (fun f hf => by
    rcases List.mem_cons.mp hf with e | hf
    · subst e; exact .boolean (.enum _)
    · rcases List.mem_cons.mp hf with e | hf
      · subst e; exact .enum _
      · cases hf)
end card_examples

/-! ## 7. pinned: `SDDecartian::UpdateSize` before 9d0a596

The loop tested `SET_INFINITY / factorSize > count`, i.e. `(count + 1) * factorSize ≤ SET_INFINITY`
(`prodCountPinned`, Model/SDataPinned.lean): a product of between `SET_INFINITY / 2` and `SET_INFINITY`
members could be reported as `SET_INFINITY`, depending on the order of its factors. -/

/-- the old loop on the factor sizes of {1,2,3}×ℬ(X26): `SET_INFINITY`, although the 201326592 members
fit; on those of ℬ(X26)×{1,2,3}: exact; the present loop: exact on both. -/
theorem pinned_product_size_order_counterexample :
    prodCountPinned [3, 2 ^ 26] 1 = some SET_INFINITY ∧ 3 * 2 ^ 26 = 201326592 ∧ 201326592 ≤ SET_INFINITY ∧
    prodCountPinned [2 ^ 26, 3] 1 = some 201326592 ∧
    prodCount [3, 2 ^ 26] 1 = some 201326592 ∧ prodCount [2 ^ 26, 3] 1 = some 201326592 := by decide


end CCVerif.C15
