import CCVerif.Lemmas.Analysis
import CCVerif.Lemmas.AnalysisChecker
import CCVerif.Lemmas.AnalysisCheckerPos
import CCVerif.Lemmas.AnalysisParser
import CCVerif.Lemmas.AnalysisFuelStab
import CCVerif.Lemmas.ParserRangesLex
import CCVerif.Lemmas.ParserShapeTop
import CCVerif.Lemmas.EntryPoints
import CCVerif.Lemmas.PrinterTotal
import CCVerif.Lemmas.VCheckTotal
import CCVerif.Lemmas.EvalPositions
import CCVerif.Properties.C02
import CCVerif.Properties.C03
import CCVerif.Properties.C16
import CCVerif.Properties.C17
/-!
# C04 — analysis of arbitrary input is total, reports failure faithfully, positions lie in the input

What the Lean models can carry of C04 (memory safety / absence of undefined behaviour of the C++
is OBSERVED by `harness/c04_main.cpp` under ASan/UBSan in forked children, not proved):

1. **Lexers** (`Model/Lexer.lean`, both syntaxes, EVERY list of units: arbitrary bytes for ASCII,
   arbitrary code points for MATH): the scan never gets stuck (`lex_total`); the token list tiles
   the text (`lex_tiles_input`, specification `Spec/Scan.lean`): ranges lie in the input, are ordered,
   disjoint and consecutive up to skipped blanks, END sits at the end, every unit is in exactly one
   token or skipped; a token is INTERRUPT exactly at an unknown symbol; the first INTERRUPT — the
   position `LexerBase::Stream` reports as `unknownSymbol` and at which `yylex` stops — lies strictly
   inside the text, and then `Parse` fails.
2. **Parser** (`Model/Parser.lean`, whole grammar): the fuel `fuelFor` is sufficient — any larger
   fuel gives the same verdict and the same tree (`parse_fuel_sufficient`); every node of a returned
   tree starts where a token starts and ends where a token ends, hence lies in `[0, length]`.
3. **Type checker / value auditor** (`Model/Checker.lean`): an accepting run logs no critical error
   (`accept_no_critical`, EVERY tree); with C03's `reject_has_critical_in_range` and `check_total`
   this is "fails iff at least one critical error" on trees of the parser's shape
   (`typecheck_failure_iff_critical`; for parsed trees the range hypothesis `WfRange` is discharged by
   C06's range nesting: `parse_wfRange`, `parsed_typecheck_failure_iff_critical_partial`,
   `parsed_typecheck_faithful_partial` need `WfTop` only); the value auditor logs exactly when it fails; on EVERY parsed
   tree every position either auditor logs lies in `[0, length of the text]`
   (`typecheck_positions_in_input`, `valuecheck_positions_in_input`, no shape hypothesis).
4. Re-exports of the neighbouring results that cover other entry points of the property
   (reference texts: C17; structure data of JSON documents: C16; type check: C03).
-/
namespace CCVerif.C04
open CCVerif.Syntax CCVerif.Generated CCVerif.Lexer CCVerif.Parser CCVerif.Scan CCVerif.Analysis
open CCVerif.Types CCVerif.Checker

def units (s : String) : List Nat := s.toList.map Char.toNat

/-! ## 1. lexers -/

/-- **lex_total**: for both syntaxes and EVERY list of units the scanning loop returns a token list
(`none` of `lexRaw` — "no rule applies" / fuel exhausted — never happens: the catch-all rule `.`
matches every unit but the line feed, which the newline (MATH) / whitespace (ASCII) rule takes, and
the fuel `length + 1` suffices because every step consumes a unit), and that list tiles the text. -/
theorem lex_total (syn : Syn) (text : List Nat) : ∃ ts, lexRaw syn text = some ts ∧ Tiled syn 0 text ts := by
  simpa [lexRaw] using lexGo_tiled syn (text.length + 1) text 0 0 (Nat.lt_succ_self _)

/-- **lex_tiles_input**: the `lineBase + columno()` / `first()` bookkeeping produces a tiling of the
text (`Scan.Tiled`): text = skipped* tok₁ skipped* tok₂ … skipped*, token `lo` = absolute offset of
its first unit (code points for MATH, bytes for ASCII), `hi = lo + columns(text)`. -/
theorem lex_tiles_input (syn : Syn) (text : List Nat) (ts : List RawTok) (h : lexRaw syn text = some ts) :
    Tiled syn 0 text ts := by
  obtain ⟨ts', h', ht⟩ := lex_total syn text
  rw [h] at h'; cases h'; exact ht

/-- **lex_ranges_in_input**: every token range satisfies `lo ≤ hi ≤ length of the input` (and the
token's text ends inside the input). -/
theorem lex_ranges_in_input (syn : Syn) (text : List Nat) (ts : List RawTok) (h : lexRaw syn text = some ts) :
    ∀ t ∈ ts, t.lo ≤ t.hi ∧ t.hi ≤ text.length ∧ t.lo + t.text.length ≤ text.length := by
  intro t ht
  have := tiled_bounds (lex_tiles_input syn text ts h) t ht
  omega

/-- **lex_ranges_ordered**: token ranges are ordered and do not overlap: a later token starts at or
after the end of every earlier one. -/
theorem lex_ranges_ordered (syn : Syn) (text : List Nat) (ts : List RawTok) (h : lexRaw syn text = some ts) :
    ts.Pairwise fun a b => a.hi ≤ b.lo ∧ a.lo + a.text.length ≤ b.lo :=
  tiled_ordered (lex_tiles_input syn text ts h)

/-- **lex_ends_with_END**: the stream ends with the END token carrying the empty range at the end of
the text, and END occurs nowhere else. -/
theorem lex_ends_with_END (syn : Syn) (text : List Nat) (ts : List RawTok) (h : lexRaw syn text = some ts) :
    ∃ pre, ts = pre ++ [⟨.END, text.length, text.length, []⟩] ∧ ∀ t ∈ pre, t.id ≠ .END := by
  simpa using tiled_end (lex_tiles_input syn text ts h)

/-- **lex_tokens_consecutive**: every unit of the text either lies in a token or is skipped material
(blank, tab, line feed; carriage return in ASCII) — each token starts where the previous one plus
the skipped blanks ended. With `lex_ranges_ordered` the tokens and the skipped units partition the text. -/
theorem lex_tokens_consecutive (syn : Syn) (text : List Nat) (ts : List RawTok) (h : lexRaw syn text = some ts)
    (i c : Nat) (hc : text[i]? = some c) (hun : ∀ t ∈ ts, ¬ (t.lo ≤ i ∧ i < t.lo + t.text.length)) :
    isSkipped syn c = true :=
  tiled_uncovered (lex_tiles_input syn text ts h) i c hc (by simpa using hun)

/-- **lex_token_text**: a token's text is the piece of the input at `[lo, lo + length)`, its `hi` is
`lo + columns(text)`, and it is INTERRUPT exactly when no rule of the `.l` file other than the
catch-all matches at `lo` (an unknown symbol) — then the token is that single unit. -/
theorem lex_token_text (syn : Syn) (text : List Nat) (ts : List RawTok) (h : lexRaw syn text = some ts) :
    ∀ t ∈ ts, t.id ≠ .END →
      t.text ≠ [] ∧ (text.drop t.lo).take t.text.length = t.text ∧ t.hi = t.lo + width syn t.text ∧
      (t.id = .INTERRUPT ↔ NoRuleAt syn (text.drop t.lo)) ∧ (t.id = .INTERRUPT → t.text.length = 1) := by
  simpa using tiled_tokens (lex_tiles_input syn text ts h)

/-- **lex_first_error**: the first INTERRUPT of the stream — what `LexerBase::Stream` reports as
`unknownSymbol` at `token.pos.start` and where `yylex` stops the parser — sits strictly inside the
text, at an unknown symbol, its range is at most one position wide, and every token before it ends
at or before that position and starts where some rule matches: the scan stops exactly at the first
position where no rule matches. -/
theorem lex_first_error (syn : Syn) (text : List Nat) (ts pre post : List RawTok) (e : RawTok)
    (h : lexRaw syn text = some ts) (hs : ts = pre ++ e :: post) (he : e.id = .INTERRUPT)
    (hpre : ∀ t ∈ pre, t.id ≠ .INTERRUPT) :
    e.lo < text.length ∧ e.lo ≤ e.hi ∧ e.hi ≤ e.lo + 1 ∧ NoRuleAt syn (text.drop e.lo) ∧
    ∀ t ∈ pre, t.hi ≤ e.lo ∧ ¬ NoRuleAt syn (text.drop t.lo) := by
  have hmem : e ∈ ts := by rw [hs]; simp
  have hne : e.id ≠ .END := by rw [he]; decide
  obtain ⟨_, _, hhi, hiff, hone⟩ := lex_token_text syn text ts h e hmem hne
  have hb := lex_ranges_in_input syn text ts h e hmem
  have h1 := hone he
  have hw := width_le syn e.text
  refine ⟨by omega, by omega, by omega, hiff.1 he, ?_⟩
  intro t ht
  have hord := lex_ranges_ordered syn text ts h
  rw [hs, List.pairwise_append] at hord
  have hte := hord.2.2 t ht e (by simp)
  have htm : t ∈ ts := by rw [hs]; simp [ht]
  have htne : t.id ≠ .END := by
    obtain ⟨p, hp, hnoend⟩ := lex_ends_with_END syn text ts h
    rw [hp] at htm
    rcases List.mem_append.1 htm with hm | hm
    · exact hnoend t hm
    · simp at hm; subst hm; simp at hte; omega
  obtain ⟨_, _, _, hiff', _⟩ := lex_token_text syn text ts h t htm htne
  exact ⟨hte.1, fun hno => hpre t ht (hiff'.2 hno)⟩

/-- **lex_positions_in_input**: the tokens handed to the parser (`Parser::Lex`) carry positions in
`[0, length]` with `start ≤ finish`. -/
theorem lex_positions_in_input (syn : Syn) (text : List Nat) (ts : List LTok) (h : lex syn text = some ts) :
    ∀ t ∈ ts, 0 ≤ t.lo ∧ t.lo ≤ t.hi ∧ t.hi ≤ text.length := by
  unfold lex at h
  cases hr : lexRaw syn text with
  | none => rw [hr] at h; cases h
  | some rs =>
    rw [hr] at h; simp at h; subst h
    intro t ht
    obtain ⟨r, hrm, rfl⟩ := List.mem_map.1 ht
    have := lex_ranges_in_input syn text rs hr r hrm
    simp only [RawTok.toTok]
    omega

/-- **lex_error_fails_parse** (faithfulness for lexer errors): a text with an unknown symbol is never
accepted by `Parse` (`yylex` counts a critical error for the INTERRUPT token). -/
theorem lex_error_fails_parse (syn : Syn) (text : List Nat) (ts : List RawTok) (h : lexRaw syn text = some ts)
    (he : ∃ t ∈ ts, t.id = .INTERRUPT) : parse syn text = none := by
  obtain ⟨t, ht, hid⟩ := he
  have hany : ((ts.map RawTok.toTok).any fun t => t.id == .INTERRUPT) = true := by
    simp only [List.any_map, List.any_eq_true]
    exact ⟨t, ht, by show (t.id == Tok.INTERRUPT) = true; rw [hid]; rfl⟩
  simp [parse, lex, h, parseToks, hany]

/-! ## 2. parser -/

/-- `parseToks` with the fuel as a parameter (`parseToks` itself uses `fuelFor`) -/
def parseToksWith (fuel : Nat) (ts : Toks) : Option Ast :=
  let body := ts.takeWhile (fun t => t.id != .END && t.id != .INTERRUPT)
  if ts.any (fun t => t.id == .INTERRUPT) then none
  else
    match expression fuel body with
    | some raw => if semanticCheck none raw then stripBrackets raw else none
    | none => none

/-- `parse` with the fuel as a parameter -/
def parseWith (syn : Syn) (fuel : Nat) (text : List Nat) : Option Ast :=
  match lex syn text with
  | some ts => parseToksWith fuel ts
  | none => none

/-- the tokens the parser sees (up to END / the first INTERRUPT) -/
def bodyOf (ts : Toks) : Toks := ts.takeWhile (fun t => t.id != .END && t.id != .INTERRUPT)

theorem parseToks_eq_with (ts : Toks) : parseToks ts = parseToksWith (fuelFor (bodyOf ts).length) ts := rfl

/-- **parse_fuel_sufficient**: the parser model is a total function by construction (structural
recursion on the fuel); what has to be shown is that the fuel it is given never runs out, i.e. that
a `none` is a syntax error and not an artefact. For EVERY token list: any fuel `≥ fuelFor n`
(`n` = number of tokens before END) gives exactly the result of `parseToks` — same verdict, same tree. -/
theorem parse_fuel_sufficient (ts : Toks) (fuel : Nat) (h : fuelFor (bodyOf ts).length ≤ fuel) :
    parseToksWith fuel ts = parseToks ts := by
  obtain ⟨d, rfl⟩ : ∃ d, fuel = fuelFor (bodyOf ts).length + d := ⟨fuel - fuelFor (bodyOf ts).length, by omega⟩
  rw [parseToks_eq_with]
  unfold parseToksWith
  simp only []
  rw [show ts.takeWhile (fun t => t.id != .END && t.id != .INTERRUPT) = bodyOf ts from rfl]
  rw [expression_stable (bodyOf ts) (fuelFor (bodyOf ts).length) d (by unfold fuelFor; omega)]

private theorem takeWhile_snoc_length {α : Type} (p : α → Bool) (x : α) (hx : p x = false) :
    ∀ l : List α, ((l ++ [x]).takeWhile p).length ≤ l.length
  | [] => by simp [hx]
  | a :: l => by
    simp only [List.cons_append, List.takeWhile_cons]
    split
    · simp only [List.length_cons]; have := takeWhile_snoc_length p x hx l; omega
    · simp

private theorem tiled_count {syn : Syn} {off : Nat} {s : List Nat} {ts : List RawTok} (h : Tiled syn off s ts) :
    ts.length ≤ s.length + 1 := by
  induction h with
  | eof off => simp
  | skip off c s ts _ _ ih => simp only [List.length_cons]; omega
  | tok off id m s ts hm _ _ _ _ ih =>
    have : 1 ≤ m.length := by
      cases m with
      | nil => exact absurd rfl hm
      | cons a l => simp
    simp only [List.length_cons, List.length_append]; omega

/-- **parse_fuel_independent**: on texts: with any fuel of at least `fuelFor (length of the text)`
the parser model returns what `parse` returns (a text has at most as many tokens as units). -/
theorem parse_fuel_independent (syn : Syn) (text : List Nat) (fuel : Nat) (h : fuelFor text.length ≤ fuel) :
    parseWith syn fuel text = parse syn text := by
  unfold parseWith parse
  cases hl : lex syn text with
  | none => rfl
  | some ts =>
    simp only []
    apply parse_fuel_sufficient
    -- number of tokens before END ≤ number of units
    unfold lex at hl
    cases hr : lexRaw syn text with
    | none => rw [hr] at hl; cases hl
    | some rs =>
      rw [hr] at hl; simp at hl; subst hl
      obtain ⟨pre, hp, _⟩ := lex_ends_with_END syn text rs hr
      have hcount := tiled_count (lex_tiles_input syn text rs hr)
      have hlen : (bodyOf (rs.map RawTok.toTok)).length ≤ pre.length := by
        rw [hp, List.map_append]
        have := takeWhile_snoc_length (fun t : LTok => t.id != .END && t.id != .INTERRUPT)
          (RawTok.toTok ⟨.END, text.length, text.length, []⟩) (by rfl) (pre.map RawTok.toTok)
        simpa [bodyOf] using this
      rw [hp] at hcount; simp only [List.length_append, List.length_cons, List.length_nil] at hcount
      unfold fuelFor at h ⊢
      omega

private theorem mem_takeWhile_pred {α : Type} (p : α → Bool) : ∀ (l : List α) (x : α), x ∈ l.takeWhile p → p x = true
  | [], x, h => by simp at h
  | a :: l, x, h => by
    simp only [List.takeWhile_cons] at h
    split at h
    · rename_i hp
      rcases List.mem_cons.1 h with rfl | h
      · exact hp
      · exact mem_takeWhile_pred p l x h
    · simp at h

/-- the tokens the parser sees are not END, so they start strictly inside the text -/
private theorem body_tokens_strict (syn : Syn) (text : List Nat) (ts : List LTok) (h : lex syn text = some ts) :
    TokInv (fun p => 0 ≤ p ∧ p + 1 ≤ (text.length : Int)) (fun p => 0 ≤ p ∧ p ≤ (text.length : Int))
      (ts.takeWhile (fun t => t.id != .END && t.id != .INTERRUPT)) := by
  unfold lex at h
  cases hr : lexRaw syn text with
  | none => rw [hr] at h; cases h
  | some rs =>
    rw [hr] at h; simp at h; subst h
    intro t ht
    have hp := mem_takeWhile_pred _ _ _ ht
    have hm := (List.takeWhile_prefix _).subset ht
    obtain ⟨r, hrm, rfl⟩ := List.mem_map.1 hm
    have hne : r.id ≠ .END := by
      intro he; simp [RawTok.toTok, he] at hp; exact absurd hp.1 (by decide)
    have hb := lex_ranges_in_input syn text rs hr r hrm
    obtain ⟨hnil, _, _, _, _⟩ := lex_token_text syn text rs hr r hrm hne
    have hl : 1 ≤ r.text.length := by
      cases hrt : r.text with
      | nil => exact absurd hrt hnil
      | cons a l => simp
    simp only [RawTok.toTok]
    omega

/-- a parsed tree: every node starts in `[0, length)` and ends in `[0, length]` -/
private theorem parse_ranged_strict (syn : Syn) (text : List Nat) (t : Ast) (h : parse syn text = some t) :
    Ranged (fun p => 0 ≤ p ∧ p + 1 ≤ (text.length : Int)) (fun p => 0 ≤ p ∧ p ≤ (text.length : Int)) t := by
  unfold parse at h
  cases hl : lex syn text with
  | none => rw [hl] at h; cases h
  | some ts =>
    rw [hl] at h
    exact ranged_parseToks_body ts t (body_tokens_strict syn text ts hl) h

/-- **parse_node_ranges_are_token_ranges**: every node of a tree returned by `parseToks` starts at the
start of one of the tokens and ends at the end of one of the tokens (all twelve parser functions,
all semantic actions of `RSParser.cpp`, `TupleDeclaration`, `CreateSyntaxTree`). -/
theorem parse_node_ranges_are_token_ranges (ts : Toks) (t : Ast) (h : parseToks ts = some t) :
    ∀ x ∈ AstQuery.allNodes [] t, (∃ tk ∈ ts, x.2.lo = tk.lo) ∧ (∃ tk ∈ ts, x.2.hi = tk.hi) := by
  have hr : Ranged (fun p => ∃ tk ∈ ts, p = tk.lo) (fun p => ∃ tk ∈ ts, p = tk.hi) t :=
    ranged_parseToks ts t (fun tk htk => ⟨⟨tk, htk, rfl⟩, ⟨tk, htk, rfl⟩⟩) h
  exact ranged_allNodes t [] hr

/-- **parse_ranges_in_input**: when `parse` returns a tree, the range of the root and of every node
lies within `[0, length of the input]` (positions in units: code points for MATH, bytes for ASCII). -/
theorem parse_ranges_in_input (syn : Syn) (text : List Nat) (t : Ast) (h : parse syn text = some t) :
    ∀ x ∈ AstQuery.allNodes [] t,
      0 ≤ x.2.lo ∧ x.2.lo ≤ text.length ∧ 0 ≤ x.2.hi ∧ x.2.hi ≤ text.length := by
  unfold parse at h
  cases hl : lex syn text with
  | none => rw [hl] at h; cases h
  | some ts =>
    rw [hl] at h
    have hpos := lex_positions_in_input syn text ts hl
    intro x hx
    obtain ⟨⟨t1, ht1, e1⟩, ⟨t2, ht2, e2⟩⟩ := parse_node_ranges_are_token_ranges ts t h x hx
    have h1 := hpos t1 ht1; have h2 := hpos t2 ht2
    rw [e1, e2]; omega

/-- the root in particular -/
theorem parse_root_in_input (syn : Syn) (text : List Nat) (t : Ast) (h : parse syn text = some t) :
    0 ≤ t.lo ∧ t.lo ≤ text.length ∧ 0 ≤ t.hi ∧ t.hi ≤ text.length := by
  have := parse_ranges_in_input syn text t h ([], t) (by cases t; simp [AstQuery.allNodes])
  simpa using this

/-- every node of a parsed tree starts strictly inside the text: `lo + 1 ≤ length` (a node starts where a
token other than END starts, and such a token has at least one unit) -/
theorem parse_node_starts_inside (syn : Syn) (text : List Nat) (t : Ast) (h : parse syn text = some t) :
    ∀ x ∈ AstQuery.allNodes [] t, 0 ≤ x.2.lo ∧ x.2.lo + 1 ≤ text.length := by
  have hr := parse_ranged_strict syn text t h
  intro x hx
  exact (ranged_allNodes t [] hr x hx).1

/-! ## 3. type checker and value auditor: failure iff a critical error -/

private theorem accept_facts (Γ : Ctx) (n : Nat) (e : Ast) (τ : ExprTy) (h : (checkWithFuel Γ n e).out = .ok τ) :
    ∀ err, err ∈ (checkWithFuel Γ n e).errs → isCritical err.1 = false := by
  obtain ⟨new, e1, e2⟩ := (clean_visit Γ n none e).run {}
  unfold checkWithFuel at h ⊢
  generalize visit Γ n none e {} = r at e1 e2 h
  obtain ⟨r, s⟩ := r
  have hs : s.errs = new := by simpa using e1
  cases r with
  | ok u => intro err herr; exact e2 trivial err (by simpa [hs] using herr)
  | fail => simp at h
  | stuck x => simp at h

/-- **accept_no_critical** (the converse of C03's `check_never_silent` / `reject_has_critical_in_range`):
when `TypeAuditor::CheckType` accepts, the log holds no critical error — warnings only
(`localDoubleDeclare`, `localNotUsed`). EVERY tree, every context: no rule logs a critical error and
goes on, and a `false` of a child is never turned into `true`. -/
theorem accept_no_critical (Γ : Ctx) (e : Ast) (τ : ExprTy) (h : (check Γ e).out = .ok τ) :
    ∀ err, err ∈ (check Γ e).errs → isCritical err.1 = false :=
  accept_facts Γ _ e τ h

/-- the same with any fuel -/
theorem accept_no_critical_fuel (Γ : Ctx) (n : Nat) (e : Ast) (τ : ExprTy) (h : (checkWithFuel Γ n e).out = .ok τ) :
    ∀ err, err ∈ (checkWithFuel Γ n e).errs → isCritical err.1 = false :=
  accept_facts Γ n e τ h

private theorem treeQ_of_ranged {Plo Phi Q : Int → Prop} (h1 : ∀ x, Plo x → Q x ∧ Q (x + 1)) (h2 : ∀ x, Phi x → Q x)
    {a : Ast} (h : Ranged Plo Phi a) : TreeQ Q a := by
  induction h with
  | node hlo hhi _ ih => exact .node (h1 _ hlo).1 (h2 _ hhi) (h1 _ hlo).2 ih

private theorem positions_facts (Γ : Ctx) (n : Nat) (e : Ast) (Q : Int → Prop) (hq : TreeQ Q e) :
    ∀ err, err ∈ (checkWithFuel Γ n e).errs → Q err.2 := by
  obtain ⟨new, e1, e2⟩ := (pos_visit Γ n none e hq).run {}
  unfold checkWithFuel
  generalize visit Γ n none e {} = r at e1 e2
  obtain ⟨r, s⟩ := r
  have hs : s.errs = new := by simpa using e1
  cases r <;> (intro err herr; exact e2 err (by simpa [hs] using herr))

/-- **typecheck_positions_in_input** ("every reported position lies within the input", type check):
for EVERY text that parses, in both syntaxes, and EVERY context, every error and warning that
`TypeAuditor::CheckType` logs on the parsed tree is positioned in `[0, length of the text]` — no
hypothesis on the shape of the tree: the rules position what they log at the start of the node or
of a child, at the end of a child (`ViGlobalDeclaration`) or one past the start of a child
(`ViReduce`), and every node of a parsed tree starts in `[0, length)` and ends in `[0, length]`. -/
theorem typecheck_positions_in_input (syn : Syn) (text : List Nat) (Γ : Ctx) (t : Ast) (h : parse syn text = some t) :
    ∀ err, err ∈ (check Γ t).errs → 0 ≤ err.2 ∧ err.2 ≤ text.length := by
  have hq : TreeQ (fun p => 0 ≤ p ∧ p ≤ (text.length : Int)) t :=
    treeQ_of_ranged (fun x hx => ⟨⟨hx.1, by omega⟩, ⟨by omega, hx.2⟩⟩) (fun x hx => hx) (parse_ranged_strict syn text t h)
  exact positions_facts Γ _ t _ hq

/-- **valuecheck_positions_in_input**: the same for the value auditor (`ValueAuditor::Check`), any fuel. -/
theorem valuecheck_positions_in_input (syn : Syn) (text : List Nat) (Γ : Ctx) (fuel : Nat) (t : Ast)
    (h : parse syn text = some t) :
    ∀ err, err ∈ (vcheck Γ fuel t).errs → 0 ≤ err.2 ∧ err.2 ≤ text.length := by
  have hq : TreeQ (fun p => 0 ≤ p ∧ p ≤ (text.length : Int)) t :=
    treeQ_of_ranged (fun x hx => ⟨⟨hx.1, by omega⟩, ⟨by omega, hx.2⟩⟩) (fun x hx => hx) (parse_ranged_strict syn text t h)
  obtain ⟨new, e1, e2⟩ := (vpos_visit Γ fuel true [] t hq).run {}
  unfold vcheck
  generalize vVisit Γ fuel true [] t {} = r at e1 e2
  obtain ⟨r, s⟩ := r
  have hs : s.errs = new := by simpa using e1
  cases r <;> (intro err herr; exact e2 err (by simpa [hs] using herr))

/-- the demand on every tree the parser returns: the type check reaches no faulting site, fails iff it
logged a critical error, and all logged positions lie in the text. The third clause is proved for every
parsed tree (`typecheck_positions_in_input`); the first two are NOT proved in this generality: that a
parsed tree has the shape `WfTop` that C03's theorems assume is not proved (`WfRange` is:
`parse_wfRange`, from C06's range nesting) -/
def typecheck_faithful_statement : Prop :=
  ∀ (syn : Syn) (text : List Nat) (Γ : Ctx) (t : Ast), parse syn text = some t →
    (∀ site, (check Γ t).out ≠ .stuck site) ∧
    ((check Γ t).out = .fail ↔ ∃ err, err ∈ (check Γ t).errs ∧ isCritical err.1 = true) ∧
    (∀ err, err ∈ (check Γ t).errs → 0 ≤ err.2 ∧ err.2 ≤ text.length)

/-- **typecheck_failure_iff_critical** ("an analysis reports failure iff it logged at least one
critical error", for the TypeAuditor): on a tree of the shape the parser builds the check terminates
without reaching a faulting site, and it fails exactly when its log holds a critical error. -/
theorem typecheck_failure_iff_critical (Γ : Ctx) (xs : List String) (e : Ast) (hw : WfRange e) (hg : WfTop Γ xs e) :
    (check Γ e).out = .fail ↔ ∃ err, err ∈ (check Γ e).errs ∧ isCritical err.1 = true := by
  constructor
  · intro hf
    obtain ⟨err, h1, h2, _⟩ := CCVerif.C03.reject_has_critical_in_range Γ xs e hw hg hf
    exact ⟨err, h1, h2⟩
  · rintro ⟨err, h1, h2⟩
    cases ho : (check Γ e).out with
    | fail => rfl
    | stuck site => exact absurd ho (CCVerif.C03.check_total Γ xs e hg site)
    | ok τ => have := accept_no_critical Γ e τ ho err h1; rw [h2] at this; cases this

/-- **typecheck_faithful_partial**: `typecheck_faithful_statement` for a parsed tree under the two
shape hypotheses `WfRange t` and `WfTop Γ xs t` (missing: that `parse` only returns such trees; they are
used for totality and for "failure iff critical error", not for the positions). -/
theorem typecheck_faithful_partial (syn : Syn) (text : List Nat) (Γ : Ctx) (xs : List String) (t : Ast)
    (hp : parse syn text = some t) (hw : WfRange t) (hg : WfTop Γ xs t) :
    (∀ site, (check Γ t).out ≠ .stuck site) ∧
    ((check Γ t).out = .fail ↔ ∃ err, err ∈ (check Γ t).errs ∧ isCritical err.1 = true) ∧
    (∀ err, err ∈ (check Γ t).errs → 0 ≤ err.2 ∧ err.2 ≤ text.length) := by
  exact ⟨CCVerif.C03.check_total Γ xs t hg, typecheck_failure_iff_critical Γ xs t hw hg,
    typecheck_positions_in_input syn text Γ t hp⟩

/-! ### parsed trees: the range hypothesis is discharged (C06 `range_nested`) -/

/-- **parse_wfRange**: every tree `parse` returns (both syntaxes, every text) satisfies the range
hypothesis `WfRange` of the C03 / C04 checker theorems: every node has `lo < hi` and contains its
children. Proof: the invariant of the twelve parser functions in `Lemmas/ParserRanges*.lean` ("the tree
built so far lies between the tokens consumed") on top of `lex_ranges_ordered` and the non-emptiness of
token ranges (`ParserRanges.tiled_strict`). The same fact is C06's `range_nested`. -/
theorem parse_wfRange (syn : Syn) (text : List Nat) (t : Ast) (h : parse syn text = some t) : WfRange t :=
  CCVerif.ParserRanges.nest_wfRange (Int.le_refl 1) t (CCVerif.ParserRanges.parse_nest syn text t h).1

/-- **parsed_typecheck_errors_in_range**: on EVERY parsed tree, in every context, every error and warning
the type check logs is positioned inside the range of the expression — no hypothesis left. -/
theorem parsed_typecheck_errors_in_range (syn : Syn) (text : List Nat) (Γ : Ctx) (t : Ast) (h : parse syn text = some t) :
    ∀ err, err ∈ (check Γ t).errs → CCVerif.C03.InRange t err :=
  CCVerif.C03.errors_in_range Γ t (parse_wfRange syn text t h)

/-- **parsed_typecheck_failure_iff_critical_partial**: `typecheck_failure_iff_critical` for parsed trees
WITHOUT the `WfRange` hypothesis. Still needed: `WfTop Γ xs t` (arities, payloads, set / logic /
declaration positions, and "a call in a set position names a function whose declared type is not
LOGIC", which depends on the context) — that the parser model only returns such trees is not proved. -/
theorem parsed_typecheck_failure_iff_critical_partial (syn : Syn) (text : List Nat) (Γ : Ctx) (xs : List String) (t : Ast)
    (hp : parse syn text = some t) (hg : WfTop Γ xs t) :
    (check Γ t).out = .fail ↔ ∃ err, err ∈ (check Γ t).errs ∧ isCritical err.1 = true :=
  typecheck_failure_iff_critical Γ xs t (parse_wfRange syn text t hp) hg

/-- **parsed_typecheck_faithful_partial**: `typecheck_faithful_statement` for a parsed tree under the one
remaining shape hypothesis `WfTop Γ xs t`. -/
theorem parsed_typecheck_faithful_partial (syn : Syn) (text : List Nat) (Γ : Ctx) (xs : List String) (t : Ast)
    (hp : parse syn text = some t) (hg : WfTop Γ xs t) :
    (∀ site, (check Γ t).out ≠ .stuck site) ∧
    ((check Γ t).out = .fail ↔ ∃ err, err ∈ (check Γ t).errs ∧ isCritical err.1 = true) ∧
    (∀ err, err ∈ (check Γ t).errs → 0 ≤ err.2 ∧ err.2 ≤ text.length) :=
  typecheck_faithful_partial syn text Γ xs t hp (parse_wfRange syn text t hp) hg

/-! ### parsed trees: the shape hypothesis is discharged too (C06 `parse_gives_WfParsed`) -/

/-- **parsed_typecheck_total**: for EVERY text that parses (both syntaxes) and every context in which the
function names occurring in the text are not LOGIC-typed (`ParserShape.FuncsNotLogic`: true of every `Schema`),
the type check of the parsed tree reaches none of the faulting sites of the C++. No hypothesis on the tree:
the parser model only returns trees of the shape `Checker.WfParsed` (`Lemmas/ParserShape*.lean`), and the
checker is total on them (`Checker.check_facts_parsed`). -/
theorem parsed_typecheck_total (syn : Syn) (text : List Nat) (Γ : Ctx) (t : Ast) (hp : parse syn text = some t)
    (hΓ : ∀ ts, lex syn text = some ts → CCVerif.ParserShape.FuncsNotLogic Γ ts) :
    ∀ site, (check Γ t).out ≠ .stuck site := by
  obtain ⟨xs, hw⟩ := CCVerif.ParserShape.parse_wfParsed syn text t hp hΓ
  exact (check_facts_parsed Γ hw _ (Nat.le_succ _)).1

/-- **parsed_typecheck_failure_iff_critical**: "the analysis reports failure iff it logged at least one
critical error" for the TypeAuditor on EVERY parsed text, under the one hypothesis on the context
(`FuncsNotLogic`); neither `WfRange` nor `WfTop` is assumed any more. -/
theorem parsed_typecheck_failure_iff_critical (syn : Syn) (text : List Nat) (Γ : Ctx) (t : Ast) (hp : parse syn text = some t)
    (hΓ : ∀ ts, lex syn text = some ts → CCVerif.ParserShape.FuncsNotLogic Γ ts) :
    (check Γ t).out = .fail ↔ ∃ err, err ∈ (check Γ t).errs ∧ isCritical err.1 = true := by
  obtain ⟨xs, hw⟩ := CCVerif.ParserShape.parse_wfParsed syn text t hp hΓ
  have hf := check_facts_parsed Γ hw _ (Nat.le_succ (Ast.depth t))
  constructor
  · intro hfail
    obtain ⟨err, h1, h2, _⟩ :=
      CCVerif.C03.reject_has_critical_in_range_anytree Γ t (parse_wfRange syn text t hp) hfail hf.2
    exact ⟨err, h1, h2⟩
  · rintro ⟨err, h1, h2⟩
    cases ho : (check Γ t).out with
    | fail => rfl
    | stuck site => exact absurd ho (hf.1 site)
    | ok τ => have := accept_no_critical Γ t τ ho err h1; rw [h2] at this; cases this

/-- **parsed_typecheck_faithful**: the three clauses of `typecheck_faithful_statement` for every parsed text and
every context in which the function names of the text are not LOGIC-typed. Without that hypothesis the
statement is false (`typecheck_faithful_statement_false`). -/
theorem parsed_typecheck_faithful (syn : Syn) (text : List Nat) (Γ : Ctx) (t : Ast) (hp : parse syn text = some t)
    (hΓ : ∀ ts, lex syn text = some ts → CCVerif.ParserShape.FuncsNotLogic Γ ts) :
    (∀ site, (check Γ t).out ≠ .stuck site) ∧
    ((check Γ t).out = .fail ↔ ∃ err, err ∈ (check Γ t).errs ∧ isCritical err.1 = true) ∧
    (∀ err, err ∈ (check Γ t).errs → 0 ≤ err.2 ∧ err.2 ≤ text.length) :=
  ⟨parsed_typecheck_total syn text Γ t hp hΓ, parsed_typecheck_failure_iff_critical syn text Γ t hp hΓ,
    typecheck_positions_in_input syn text Γ t hp⟩

/-- the context of C03's `check_total_needs_functype_counterexample`: the term-function `F1` is given the type LOGIC -/
def ctxBadFunc : Ctx :=
  { CCVerif.C03.ctxK with types := ("F1", .logic) :: CCVerif.C03.ctxK.types, funcs := [("F1", [("a", .coll (.base "X1"))])] }

/-- **typecheck_faithful_statement_false**: as stated (every context) the demand is false — the text `F1[X1]+1`
parses, and in a context that types the function `F1` as LOGIC (no `Schema` does) the check reaches
`bad_variant_access` in `ViArithmetic`. -/
theorem typecheck_faithful_statement_false : ¬ typecheck_faithful_statement := by
  intro h
  have hp : parse .math (units "F1[X1]+1") = some
      (.node .PLUS .none 0 8 [.node .NT_FUNC_CALL .none 0 6 [.node .ID_FUNCTION (.text "F1") 0 2 [], .node .ID_GLOBAL (.text "X1") 3 5 []],
        .node .LIT_INTEGER (.int 1) 7 8 []]) :=
    CCVerif.ParserRanges.parse_eq_of_same _ _ _ (by decide +kernel)
  exact (h .math _ ctxBadFunc _ hp).1 "bad_variant_access:ViArithmetic" (by decide +kernel)

/-- **valuecheck_failure_faithful**: the value auditor (`ValueAuditor::Check`, with a reporter) logs
exactly when it fails: an accepting run leaves the log empty, a failing run (that did not reach a
faulting site) logged a critical error. EVERY tree, every fuel. -/
theorem valuecheck_failure_faithful (Γ : Ctx) (fuel : Nat) (e : Ast) :
    ((vcheck Γ fuel e).out.isSome = true → (vcheck Γ fuel e).errs = []) ∧
    ((vcheck Γ fuel e).out = none → (vcheck Γ fuel e).stuck = none →
      ∃ err, err ∈ (vcheck Γ fuel e).errs ∧ isCritical err.1 = true) := by
  obtain ⟨new, e1, e2, e3⟩ := (vclean_visit Γ fuel true [] e).run {}
  unfold vcheck
  generalize vVisit Γ fuel true [] e {} = r at e1 e2 e3
  obtain ⟨r, s⟩ := r
  have hs : s.errs = new := by simpa using e1
  cases r with
  | ok u => exact ⟨fun _ => by simp [hs, e2 trivial], by simp⟩
  | fail =>
    refine ⟨by simp, fun _ _ => ?_⟩
    obtain ⟨err, h1, h2⟩ := e3 trivial rfl
    exact ⟨err, by simpa [hs] using h1, h2⟩
  | stuck x => exact ⟨by simp, by simp⟩

/-! ## 4. results of the neighbouring properties that cover other entry points of C04 -/

/-- **reference_text_no_fault** (entry points `Reference::Parse` / `ExtractAll`, `RefsManager::Resolve`,
`ManagedText::InitFrom` / `Referals` / `TranslateRaw` on reference text): for EVERY byte string —
malformed UTF-8, malformed / nested / adjacent markers, any offset —, every context and every
translator the model returns normally. Proof: `Refs.no_fault` (Properties/C17.lean). -/
theorem reference_text_no_fault (b : CCVerif.Strings.Bytes) : CCVerif.Refs.NoFault CCVerif.Refs.Variant.current b :=
  CCVerif.Refs.no_fault b

/-- **structure_data_no_oob** (entry point: structure data inside a JSON document, `SDCompact::Unpack`
reached from `RSModel` `from_json`): `std::out_of_range` is never thrown, whatever the table and the
typification. Proof: `SDC.unpack_no_oob` (Properties/C16.lean). -/
theorem structure_data_no_oob (tbl : CCVerif.SDC.Table) (τ : CCVerif.SDC.Ty) :
    CCVerif.SDC.unpack tbl τ ≠ .fault .oob :=
  CCVerif.SDC.unpack_no_oob tbl τ

/-- **structure_data_no_fault**: against a well-formed typification unpacking ANY table (ragged rows,
negative numbers, no rows) never faults in any way. Proof: `SDC.unpack_no_fault` (Properties/C16.lean). -/
theorem structure_data_no_fault (tbl : CCVerif.SDC.Table) (τ : CCVerif.SDC.Ty) (hw : τ.wf = true)
    (k : CCVerif.SDC.Fault) : CCVerif.SDC.unpack tbl τ ≠ .fault k :=
  CCVerif.SDC.unpack_no_fault tbl τ hw k

/-- **typecheck_total** (entry points `Auditor::CheckType`, `check_expression`, `check_constituenta`,
`check_schema` after a successful parse): on every tree of the shape the parser builds the type check
reaches none of the faulting sites of the C++. Proof: `C03.check_total`. -/
theorem typecheck_total (Γ : Ctx) (xs : List String) (e : Ast) (hg : WfTop Γ xs e) :
    ∀ site, (check Γ e).out ≠ .stuck site :=
  CCVerif.C03.check_total Γ xs e hg

/-- **typecheck_errors_in_range**: every error and warning the type check logs is positioned inside
the expression (any tree with well-formed ranges). Proof: `C03.errors_in_range`. -/
theorem typecheck_errors_in_range (Γ : Ctx) (e : Ast) (hw : WfRange e) :
    ∀ err, err ∈ (check Γ e).errs → CCVerif.C03.InRange e err :=
  CCVerif.C03.errors_in_range Γ e hw

/-! ## non-vacuity -/

/-- `a @b` in MATH: LOCAL [0,1), INTERRUPT [2,3) for `@`, LOCAL [3,4), END [4,4); one blank skipped -/
example : lexRaw .math (units "a @b") =
    some [⟨.ID_LOCAL, 0, 1, [97]⟩, ⟨.INTERRUPT, 2, 3, [64]⟩, ⟨.ID_LOCAL, 3, 4, [98]⟩, ⟨.END, 4, 4, []⟩] := by
  decide +kernel

/-- the hypotheses of `lex_first_error` on that text (`pre` = the first token, `e` = the INTERRUPT), and
the failing parse of `lex_error_fails_parse` -/
example : ∃ ts pre post e, lexRaw .math (units "a @b") = some ts ∧ ts = pre ++ e :: post ∧
    e.id = .INTERRUPT ∧ (∀ t ∈ pre, t.id ≠ .INTERRUPT) ∧ pre ≠ [] ∧ e.lo = 2 ∧ parse .math (units "a @b") = none :=
  ⟨_, [⟨.ID_LOCAL, 0, 1, [97]⟩], [⟨.ID_LOCAL, 3, 4, [98]⟩, ⟨.END, 4, 4, []⟩], ⟨.INTERRUPT, 2, 3, [64]⟩,
    by decide +kernel, rfl, rfl, by decide, by decide, rfl, by decide +kernel⟩

/-- arbitrary bytes in ASCII (0xFF, 0x01 are unknown symbols; CR LF are skipped); a lone CR in MATH is
an unknown symbol of width 0 -/
example : (lexRaw .ascii [255, 13, 10, 88, 49, 1]).map (·.map fun t => (t.id, t.lo, t.hi)) =
      some [(.INTERRUPT, 0, 1), (.ID_GLOBAL, 3, 5), (.INTERRUPT, 5, 6), (.END, 6, 6)] ∧
    (lexRaw .math [13, 97]).map (·.map fun t => (t.id, t.lo, t.hi)) =
      some [(.INTERRUPT, 0, 0), (.ID_LOCAL, 1, 2), (.END, 2, 2)] := by
  decide +kernel

/-- a parsed tree whose ranges `parse_ranges_in_input` speaks about; too little fuel gives `none`,
the fuel of `parse` and any larger one give the tree (`parse_fuel_independent`) -/
example : (parse .math (units "∀α∈X1 α=α")).map (fun t => (t.lo, t.hi, (AstQuery.allNodes [] t).length)) = some (0, 9, 6) ∧
    parseWith .math 3 (units "∀α∈X1 α=α") = none ∧
    (parseWith .math 1000 (units "∀α∈X1 α=α")).isSome = true ∧ fuelFor (units "∀α∈X1 α=α").length ≤ 1000 := by
  decide +kernel

private def glob (n : String) (lo hi : Int) : Ast := .node .ID_GLOBAL (.text n) lo hi []
private def loc (n : String) (lo hi : Int) : Ast := .node .ID_LOCAL (.text n) lo hi []
private def lit (n : Int) (lo hi : Int) : Ast := .node .LIT_INTEGER (.int n) lo hi []

/-- `∀a∈X1 1=1`: accepted WITH a logged warning (`localNotUsed`, not critical) — the situation
`accept_no_critical` is about -/
def exUnused : Ast := .node .FORALL .none 0 9 [loc "a" 1 2, glob "X1" 3 5, .node .EQUAL .none 6 9 [lit 1 6 7, lit 1 8 9]]

example : (check CCVerif.C03.ctxK exUnused).out = .ok .logic ∧
    (check CCVerif.C03.ctxK exUnused).errs = [(0x2802, 0)] ∧ isCritical 0x2802 = false := by
  decide +kernel

/-- `typecheck_positions_in_input` on a parsed text: `red(X1)` in the context of C03 parses, is rejected
with `invalidReduce` at position 5 = one past the start of the argument, inside the 7 units of the text -/
example : ((parse .math (units "red(X1)")).map fun t => ((check CCVerif.C03.ctxK t).out, (check CCVerif.C03.ctxK t).errs)) =
    some (.fail, [(0x8810, 5)]) ∧ (units "red(X1)").length = 7 := by
  decide +kernel

/-- both directions of `typecheck_failure_iff_critical` are inhabited: the K2 input `A1∪X1` of C03
(`WfTop`, `WfRange`, rejected with the critical `invalidTypeOperation`) -/
example : (check CCVerif.C03.ctxK CCVerif.C03.exUnionLogic).out = .fail ∧
    (∃ err, err ∈ (check CCVerif.C03.ctxK CCVerif.C03.exUnionLogic).errs ∧ isCritical err.1 = true) :=
  ⟨by decide +kernel, ⟨(0x8807, 0), by decide +kernel, by decide⟩⟩

/-- the hypotheses of `parsed_typecheck_failure_iff_critical_partial` / `parsed_typecheck_faithful_partial`
hold together on a parsed text: `A1∪X1` parses to C03's `exUnionLogic`, which is `WfTop`; it is rejected with
a critical error (both sides of the equivalence are true) -/
example : parse .math (units "A1∪X1") = some CCVerif.C03.exUnionLogic ∧ WfTop CCVerif.C03.ctxK [] CCVerif.C03.exUnionLogic ∧
    (check CCVerif.C03.ctxK CCVerif.C03.exUnionLogic).out = .fail :=
  ⟨CCVerif.ParserRanges.parse_eq_of_same _ _ _ (by decide +kernel),
   .ofDef (.expr (Or.inl (.sSetbin (Or.inl rfl) (.sGlobal (Or.inl rfl)) (.sGlobal (Or.inl rfl))))),
   by decide +kernel⟩

/-- the hypothesis of `parsed_typecheck_total` / `parsed_typecheck_failure_iff_critical` / `parsed_typecheck_faithful`
holds for C03's context on a text WITH a function call: `F1[X1]∪X1` (F1 is not declared in `ctxK`, so not
LOGIC-typed); the text parses, and the check rejects it with a critical error -/
example : (∀ ts, lex .math (units "F1[X1]∪X1") = some ts → CCVerif.ParserShape.FuncsNotLogic CCVerif.C03.ctxK ts) ∧
    ((parse .math (units "F1[X1]∪X1")).map fun t => ((check CCVerif.C03.ctxK t).out, (check CCVerif.C03.ctxK t).errs.map (fun e => isCritical e.1))) =
      some (.fail, [true]) := by
  exact ⟨CCVerif.ParserShape.funcsNotLogic_of_check (by decide +kernel), by decide +kernel⟩

/-- value auditor: `X1` has no value class in the empty context — fails with the critical
`globalNoValue`; an integer literal is accepted with an empty log -/
example : (vcheck {} 5 (glob "X1" 0 2)).out = none ∧ (vcheck {} 5 (glob "X1" 0 2)).stuck = none ∧
    (vcheck {} 5 (glob "X1" 0 2)).errs = [(0x8840, 0)] ∧
    (vcheck {} 5 (lit 1 0 1)).out.isSome = true ∧ (vcheck {} 5 (lit 1 0 1)).errs = [] := by
  decide +kernel

/-! ## 5. the composed entry points on byte strings (`Model/EntryPoints.lean`)

`Parser::Parse(text, hint)`, `Auditor::CheckType(text, hint)` + `CheckValue()`, `Interpreter::Evaluate(text, hint)` and
`ConvertTo(text, target)` as a user calls them: bytes in, verdict + error log out. The parser's own errors are modelled
exactly: the bison automaton (tables regenerated from RSParserImpl.cpp) decides which tokens are pulled (so whether
`unknownSymbol` is logged), which error production fires (`ParseEID`, at the start of the last token pulled), when
`TupleDeclaration` / `SemanticCheck` fail (at a node's start) and when the `ParseEID::syntax` fallback is used. The theorems
hold for EVERY outcome of that automaton (nothing is assumed about the tables). Status `gap` = the automaton and the
recursive-descent tree model disagree / fuel / a faulting site of a model: outside what the model determines. -/
section EntryPoints
open CCVerif.Entry CCVerif.Convert

private abbrev InText (n : Nat) : Int → Prop := fun p => 0 ≤ p ∧ p ≤ (n : Int)

private theorem lex_tokInv (syn : Syn) (units : List Nat) (ts : List LTok) (h : lex syn units = some ts) :
    TokInv (InText units.length) (InText units.length) ts := by
  intro t ht
  have := lex_positions_in_input syn units ts h t ht
  exact ⟨⟨this.1, by omega⟩, ⟨by omega, this.2.2⟩⟩

private theorem lex_some (syn : Syn) (units : List Nat) : ∃ ts, lex syn units = some ts := by
  obtain ⟨rs, hr, _⟩ := lex_total syn units
  exact ⟨rs.map RawTok.toTok, by simp [lex, hr]⟩

/-- the facts of `parse_entry_faithful`, for reuse -/
private theorem parse_entry_core (hint : Option Syn) (bytes : List Nat) (r : ParseRes) (h : parseEntry hint bytes = some r) :
    r.syn = chooseSyntax hint bytes ∧ unitsOf r.syn bytes = some r.units ∧
    ∃ ts, lex r.syn r.units = some ts ∧ StreamFacts (InText r.units.length) ts r := by
  unfold parseEntry at h
  simp only [] at h
  split at h
  · cases h
  · rename_i units hu
    obtain ⟨ts, hl⟩ := lex_some (chooseSyntax hint bytes) units
    rw [hl] at h
    simp only [Option.some.injEq] at h
    subst h
    obtain ⟨e1, e2⟩ := parseStream_syn_units (chooseSyntax hint bytes) units ts
    rw [e1, e2]
    exact ⟨rfl, hu, ts, hl, parseStream_facts _ _ (lex_tokInv _ _ ts hl) ⟨Int.le_refl 0, by omega⟩⟩

/-- **parse_entry_faithful** (`Parser::Parse(text, hint)` on bytes, every hint, every byte string inside the lexer model —
for MATH: well-formed UTF-8): the lexer is the one the hint / `EstimateSyntax` selects; success comes with an EMPTY log and
the tree of `Parser.parse`; failure comes with at least one critical error (`unknownSymbol` of the lexer, a `ParseEID` of an
error production / `TupleDeclaration` / `SemanticCheck`, or the `ParseEID::syntax` fallback) and `Parser.parse` rejects too;
everything the parser logs is critical, and every logged position lies in `[0, length in units]`. -/
theorem parse_entry_faithful (hint : Option Syn) (bytes : List Nat) (r : ParseRes) (h : parseEntry hint bytes = some r) :
    r.syn = chooseSyntax hint bytes ∧ unitsOf r.syn bytes = some r.units ∧
    (r.status = .ok → r.errors = [] ∧ r.tree = parse r.syn r.units ∧ (parse r.syn r.units).isSome = true) ∧
    (r.status = .failed → (∃ e ∈ r.errors, isCritical e.1 = true) ∧ r.tree = none ∧ parse r.syn r.units = none) ∧
    (∀ e ∈ r.errors, isCritical e.1 = true ∧ 0 ≤ e.2 ∧ e.2 ≤ r.units.length) := by
  obtain ⟨h1, h2, ts, hl, hf⟩ := parse_entry_core hint bytes r h
  have hp : parse r.syn r.units = parseToks ts := by simp [parse, hl]
  refine ⟨h1, h2, ?_, ?_, ?_⟩
  · intro hs; rw [hp]; exact hf.ok hs
  · intro hs; rw [hp]; exact hf.failed hs
  · intro e he; exact ⟨hf.critical e he, hf.pos e he⟩

/-- **parse_entry_failure_iff_critical**: whenever the model determines the verdict (status not `gap`), `Parse` returns
false if and only if the log holds a critical error. -/
theorem parse_entry_failure_iff_critical (hint : Option Syn) (bytes : List Nat) (r : ParseRes)
    (h : parseEntry hint bytes = some r) (hd : ∀ why, r.status ≠ .gap why) :
    r.status = .failed ↔ ∃ e ∈ r.errors, isCritical e.1 = true := by
  obtain ⟨_, _, hok, hfail, _⟩ := parse_entry_faithful hint bytes r h
  constructor
  · intro hs; exact (hfail hs).1
  · rintro ⟨e, he, _⟩
    cases hs : r.status with
    | failed => rfl
    | ok => rw [(hok hs).1] at he; cases he
    | gap why => exact absurd hs (hd why)

/-- **parse_entry_unknown_symbol**: an `unknownSymbol` entry of the log sits at the start of an INTERRUPT token of the
stream (hence strictly inside the text, at an unknown symbol: `lex_first_error`). -/
theorem parse_entry_unknown_symbol (syn : Syn) (units : List Nat) (ts : List LTok) (read : Nat) (hl : lex syn units = some ts) :
    ∀ e ∈ lexErrs ts read, e.1 = eidUnknownSymbol ∧ ∃ t ∈ ts, t.id = .INTERRUPT ∧ e.2 = t.lo := by
  intro e he
  obtain ⟨a, _, b⟩ := lexErrs_inv (lex_tokInv syn units ts hl) read e he
  exact ⟨a, b⟩

/-- **check_entry_faithful** (`Auditor::CheckType(text, hint)`, then `CheckValue()` as a second call; every context in which
the function names of the text are not LOGIC-typed — true of every `Schema`, and without it false:
`typecheck_faithful_statement_false`): `CheckType` true ⇒ the log (parser + type auditor) holds no critical error; false ⇒ it
holds one; the type auditor reaches no faulting site (a `gap` status is the parser model's); every position lies in the
text. `CheckValue` runs exactly after a successful `CheckType`; true ⇒ it added nothing to the log; false ⇒ the log holds a
critical error; positions in the text. -/
theorem check_entry_faithful (Γ : Ctx) (hint : Option Syn) (bytes : List Nat) (r : CheckResE)
    (h : checkEntry Γ hint bytes = some r)
    (hΓ : ∀ ts, lex r.parse.syn r.parse.units = some ts → CCVerif.ParserShape.FuncsNotLogic Γ ts) :
    parseEntry hint bytes = some r.parse ∧
    (r.status = .ok → ∀ e ∈ r.errors, isCritical e.1 = false) ∧
    (r.status = .failed → ∃ e ∈ r.errors, isCritical e.1 = true) ∧
    (∀ why, r.status = .gap why → r.parse.status = .gap why) ∧
    (∀ e ∈ r.errors, 0 ≤ e.2 ∧ e.2 ≤ r.parse.units.length) ∧
    (r.vstatus.isSome = true ↔ r.status = .ok) ∧
    (r.vstatus = some .ok → r.verrors = r.errors) ∧
    (r.vstatus = some .failed → ∃ e ∈ r.verrors, isCritical e.1 = true) ∧
    (∀ e ∈ r.verrors, 0 ≤ e.2 ∧ e.2 ≤ r.parse.units.length) := by
  unfold checkEntry at h
  split at h
  · cases h
  · rename_i p hp
    obtain ⟨_, _, hok, hfail, hall⟩ := parse_entry_faithful hint bytes p hp
    have hpos : ∀ e ∈ p.errors, 0 ≤ e.2 ∧ e.2 ≤ p.units.length := fun e he => (hall e he).2
    split at h
    · -- parsed
      rename_i t hst htree
      obtain ⟨herrs, htr, _⟩ := hok hst
      have hparse : parse p.syn p.units = some t := by rw [← htr, htree]
      simp only [] at h
      split at h
      · -- CheckType accepts
        rename_i τ hout
        simp only [Option.some.injEq] at h
        subst h
        simp only [herrs, List.nil_append] at *
        have hacc := accept_no_critical Γ t τ hout
        have hv := valuecheck_failure_faithful Γ (vfuel Γ t) t
        have hvp := valuecheck_positions_in_input p.syn p.units Γ (vfuel Γ t) t hparse
        have htp := typecheck_positions_in_input p.syn p.units Γ t hparse
        refine ⟨hp, fun _ => hacc, by simp, by simp, htp, by simp, ?_, ?_, ?_⟩
        · intro hvs
          have : (vcheck Γ (vfuel Γ t) t).out.isSome = true := by
            revert hvs
            cases (vcheck Γ (vfuel Γ t) t).stuck <;> cases (vcheck Γ (vfuel Γ t) t).out <;> simp
          rw [hv.1 this]; simp
        · intro hvs
          have h2 : (vcheck Γ (vfuel Γ t) t).out = none ∧ (vcheck Γ (vfuel Γ t) t).stuck = none := by
            revert hvs
            cases (vcheck Γ (vfuel Γ t) t).stuck <;> cases (vcheck Γ (vfuel Γ t) t).out <;> simp
          obtain ⟨e, he, hc⟩ := hv.2 h2.1 h2.2
          exact ⟨e, List.mem_append_right _ he, hc⟩
        · intro e he
          rcases List.mem_append.1 he with h1 | h1
          · exact htp e h1
          · exact hvp e h1
      · -- CheckType rejects
        rename_i hout
        simp only [Option.some.injEq] at h
        subst h
        simp only [herrs, List.nil_append] at *
        obtain ⟨e, he, hc⟩ := (parsed_typecheck_failure_iff_critical p.syn p.units Γ t hparse hΓ).1 hout
        exact ⟨hp, by simp, fun _ => ⟨e, he, hc⟩, by simp, typecheck_positions_in_input p.syn p.units Γ t hparse,
          by simp, by simp, by simp, by simp⟩
      · -- a faulting site: excluded by `parsed_typecheck_total`
        rename_i site hout
        exact absurd hout (parsed_typecheck_total p.syn p.units Γ t hparse (by
          simp only [Option.some.injEq] at h; subst h; exact hΓ) site)
    · -- status ok without a tree: impossible
      rename_i hst htree
      obtain ⟨_, htr, hsome⟩ := hok hst
      rw [← htr, htree] at hsome; cases hsome
    · -- the parse did not succeed: its status and log are handed on
      rename_i st tr hne1 hne2
      simp only [Option.some.injEq] at h
      subst h
      refine ⟨hp, ?_, ?_, fun why hw => hw, hpos, ?_, by simp, by simp, by simp⟩
      · intro hs; rw [(hok hs).1]; simp
      · intro hs; exact (hfail hs).1
      · constructor
        · simp
        · intro hs
          obtain ⟨_, htr, hsome⟩ := hok hs
          cases htree : p.tree with
          | none => rw [← htr, htree] at hsome; cases hsome
          | some t => exact absurd htree (hne1 t hs)

/-- **eval_entry_faithful** (`Interpreter::Evaluate(text, hint)`, every context as above, every data context, every fuel of
the evaluator model): a value is returned ⇒ the log holds no critical error; `nullopt` ⇒ the log holds a critical error —
EXCEPT on the empty text, where the documented early return gives `nullopt` with an empty log; the type auditor reaches no
faulting site; an evaluator error is the last entry of the log and is the result `ASTInterpreter::Evaluate` reports
(`unknownError` is the evaluator model's fallback for a `false` without an error). -/
theorem eval_entry_faithful (Γ : Ctx) (env : CCVerif.Eval.Env) (fuel : Nat) (hint : Option Syn) (bytes : List Nat) (r : EvalResE)
    (h : evalEntry Γ env fuel hint bytes = some r)
    (hΓ : ∀ p ts, parseEntry hint bytes = some p → lex p.syn p.units = some ts → CCVerif.ParserShape.FuncsNotLogic Γ ts) :
    (r.emptyInput = true ↔ bytes = []) ∧
    (r.emptyInput = true → r.status = .failed ∧ r.errors = []) ∧
    (r.status = .ok → (∀ e ∈ r.errors, isCritical e.1 = false) ∧ ∃ v, r.value = some v ∧ ∀ eid pos, v ≠ .err eid pos) ∧
    (r.status = .failed → r.emptyInput = false → ∃ e ∈ r.errors, isCritical e.1 = true) ∧
    (∀ eid pos, r.value = some (.err eid pos) → r.status = .failed ∧ ∃ pre, r.errors = pre ++ [(eid, pos)] ∧
      ∀ e ∈ pre, isCritical e.1 = false) := by
  unfold evalEntry at h
  split at h
  · rename_i hemp
    simp only [Option.some.injEq] at h
    subst h
    have : bytes = [] := by simpa using hemp
    simp [this]
  · rename_i hemp
    have hne : bytes ≠ [] := by simpa using hemp
    split at h
    · cases h
    · rename_i p hp
      obtain ⟨_, _, hok, hfail, hall⟩ := parse_entry_faithful hint bytes p hp
      split at h
      · rename_i t hst htree
        obtain ⟨herrs, htr, _⟩ := hok hst
        have hparse : parse p.syn p.units = some t := by rw [← htr, htree]
        simp only [] at h
        split at h
        · rename_i τ hout
          have hacc := accept_no_critical Γ t τ hout
          simp only [herrs, List.nil_append] at h
          split at h
          · simp only [Option.some.injEq] at h; subst h
            exact ⟨by simp [hne], by simp, fun _ => ⟨hacc, _, rfl, by simp⟩, by simp, by simp⟩
          · simp only [Option.some.injEq] at h; subst h
            exact ⟨by simp [hne], by simp, fun _ => ⟨hacc, _, rfl, by simp⟩, by simp, by simp⟩
          · rename_i eid pos _
            split at h
            · rename_i hc
              simp only [Option.some.injEq] at h; subst h
              refine ⟨by simp [hne], by simp, by simp, fun _ _ => ⟨(eid, pos), by simp, hc⟩, ?_⟩
              intro e' p' hv
              simp only [Option.some.injEq, CCVerif.Eval.EvalRes.err.injEq] at hv
              obtain ⟨rfl, rfl⟩ := hv
              exact ⟨rfl, _, rfl, hacc⟩
            · simp only [Option.some.injEq] at h; subst h
              exact ⟨by simp [hne], by simp, by simp, by simp, by simp⟩
          · simp only [Option.some.injEq] at h; subst h
            exact ⟨by simp [hne], by simp, by simp, by simp, by simp⟩
          · simp only [Option.some.injEq] at h; subst h
            exact ⟨by simp [hne], by simp, by simp, by simp, by simp⟩
        · rename_i hout
          simp only [Option.some.injEq] at h; subst h
          simp only [herrs, List.nil_append]
          obtain ⟨e, he, hc⟩ := (parsed_typecheck_failure_iff_critical p.syn p.units Γ t hparse (hΓ p · hp)).1 hout
          exact ⟨by simp [hne], by simp, by simp, fun _ _ => ⟨e, he, hc⟩, by simp⟩
        · rename_i site hout
          exact absurd hout (parsed_typecheck_total p.syn p.units Γ t hparse (hΓ p · hp) site)
      · rename_i hst htree
        obtain ⟨_, htr, hsome⟩ := hok hst
        rw [← htr, htree] at hsome; cases hsome
      · rename_i st tr hne1 hne2
        simp only [Option.some.injEq] at h; subst h
        refine ⟨by simp [hne], by simp, ?_, fun hs _ => (hfail hs).1, by simp⟩
        intro hs
        obtain ⟨_, htr, hsome⟩ := hok hs
        cases htree : p.tree with
        | none => rw [← htr, htree] at hsome; cases hsome
        | some t => exact absurd htree (hne1 t hs)

/-- **convert_entry_total_partial** (`ConvertTo(text, target)`, every byte string, both targets): outside the model exactly when the
text is not in the lexer model of the OPPOSITE syntax (MATH source, ill-formed UTF-8); a text the opposite parser rejects
comes back unchanged, byte for byte; a text it accepts comes back as the printed tree — or the printer model reaches an
unchecked access (`stuck`). That the last case never happens on parsed trees is the missing part of
`convert_entry_total_statement`. -/
theorem convert_entry_total_partial (target : Syn) (input : List Nat) :
    (convertEntry target input = .outside ↔ unitsOf (other target) input = none) ∧
    (∀ units, unitsOf (other target) input = some units → parse (other target) units = none →
      convertEntry target input = .text input) ∧
    (∀ units t, unitsOf (other target) input = some units → parse (other target) units = some t →
      (∃ out, CCVerif.Printer.print target t = some out ∧ convertEntry target input = .text (bytesOf out)) ∨
      (CCVerif.Printer.print target t = none ∧ convertEntry target input = .stuck)) := by
  unfold convertEntry convertTo parseBytes chooseSyntax
  simp only []
  cases hu : unitsOf (other target) input with
  | none => simp
  | some units =>
    refine ⟨?_, ?_, ?_⟩
    · simp only [Option.map_some]
      cases parse (other target) units with
      | none => simp
      | some t => simp only []; split <;> simp
    · intro u hu' hp
      cases hu'
      simp [hp]
    · intro u t hu' hp
      cases hu'
      simp only [Option.map_some, hp]
      cases hpr : CCVerif.Printer.print target t with
      | none => exact Or.inr ⟨rfl, rfl⟩
      | some out => exact Or.inl ⟨out, rfl, rfl⟩

/-- the full demand on `ConvertTo`: as `convert_entry_total_partial`, and the printer never reaches an unchecked access on a
tree the parser returns. PROVED in section 6 (`convert_entry_total`): an induction over `GeneratorImplAST` (Model/Printer.lean)
along the arity / payload table `PrinterShape.Printable` that the parser establishes (the shape `Checker.WfParsed` is too weak
for the printer: `Printer.print_stuck_on_WfParsed_counterexample`). -/
def convert_entry_total_statement : Prop :=
  ∀ (target : Syn) (input : List Nat),
    (convertEntry target input = .outside ↔ unitsOf (other target) input = none) ∧
    (∀ units, unitsOf (other target) input = some units → parse (other target) units = none →
      convertEntry target input = .text input) ∧
    (∀ units t, unitsOf (other target) input = some units → parse (other target) units = some t →
      ∃ out, CCVerif.Printer.print target t = some out ∧ convertEntry target input = .text (bytesOf out))

/-- **convert_unchanged_not_only_on_failure_counterexample**: "returns the input unchanged IFF the parse fails" is false as
an equivalence: `X1` parses in ASCII and is printed as `X1` in MATH. -/
theorem convert_unchanged_not_only_on_failure_counterexample :
    convertEntry .math [88, 49] = .text [88, 49] ∧ (parse .ascii [88, 49]).isSome = true := by
  decide +kernel

/-! ### non-vacuity of the entry-point theorems (ASCII-only texts: bytes = code points; hint UNDEF unless stated) -/

/-- an accepted text: `1+1` parses (MATH by estimate: `+` hints MATH), checks, evaluates to 2 with an empty log -/
example : (parseEntry none (units "1+1")).map (fun r => ((match r.syn with | .math => true | .ascii => false), r.status, r.errors, r.tree.isSome)) =
    some (true, .ok, [], true) := by decide +kernel
example : (checkEntry CCVerif.C03.ctxK none (units "1+1")).map (fun r => (r.status, r.errors, r.vstatus, r.verrors)) =
    some (.ok, [], some .ok, []) := by decide +kernel
example : (evalEntry CCVerif.C03.ctxK {} 100 none (units "1+1")).map
    (fun r => (r.status, r.errors, match r.value with | some (.ok (.e 2)) => true | _ => false)) = some (.ok, [], true) := by
  decide +kernel

/-- a lexer failure: `a @b` — `unknownSymbol` (0x8203) at 2, nothing else (the automaton pulls the INTERRUPT token as end of
input and accepts `a`; `countCriticalErrors ≠ 0`, no fallback) -/
example : (parseEntry none (units "a @b")).map (fun r => (r.status, r.errors)) = some (.failed, [(0x8203, 2)]) := by
  decide +kernel

/-- parser failures: `(X1` — no error production applies, the `ParseEID::syntax` fallback (0x8400) at END = 3;
`D{a∈X1 | 1=1` — the error production `RCE: error`, `missingCurlyBrace` (0x8407) at END = 12;
`∀(a,1)∈X1 1=1` (MATH) — `TupleDeclaration`, `expectedLocal` (0x8415) at the start of `1`;
`a:=1` — `SemanticCheck`, `invalidImperative` (0x8409) at 0; `∀ @` — the lexer's error AND `invalidQuantifier` (0x8408), both at 2 -/
example : (parseEntry none (units "(X1")).map (fun r => (r.status, r.errors)) = some (.failed, [(0x8400, 3)]) := by decide +kernel
example : (parseEntry none ((units "D{a") ++ [0xE2, 0x88, 0x88] ++ units "X1 | 1=1")).map (fun r => (r.status, r.errors)) =
    some (.failed, [(0x8407, 12)]) := by decide +kernel
example : (parseEntry (some .math) ([0xE2, 0x88, 0x80] ++ units "(a,1)" ++ [0xE2, 0x88, 0x88] ++ units "X1 1=1")).map
    (fun r => (r.status, r.errors)) = some (.failed, [(0x8415, 4)]) := by decide +kernel
example : (parseEntry none (units "a:=1")).map (fun r => (r.status, r.errors)) = some (.failed, [(0x8409, 0)]) := by decide +kernel
example : (parseEntry (some .math) ([0xE2, 0x88, 0x80] ++ units " @")).map (fun r => (r.status, r.errors)) =
    some (.failed, [(0x8203, 2), (0x8408, 2)]) := by decide +kernel

/-- a type error: `red(X1)` in C03's context — parsed, `CheckType` false with `invalidReduce` (0x8810) at 5, `CheckValue` not
run; and the hypothesis of `check_entry_faithful` holds there. `X1` alone: `CheckType` true, `CheckValue` false with
`globalNoValue` (0x8840) -/
example : (checkEntry CCVerif.C03.ctxK none (units "red(X1)")).map (fun r => (r.status, r.errors, r.vstatus)) =
      some (.failed, [(0x8810, 5)], none) ∧
    (∀ ts, lex .ascii (units "red(X1)") = some ts → CCVerif.ParserShape.FuncsNotLogic CCVerif.C03.ctxK ts) ∧
    (checkEntry CCVerif.C03.ctxK none (units "X1")).map (fun r => (r.status, r.errors, r.vstatus, r.verrors)) =
      some (.ok, [], some .failed, [(0x8840, 0)]) :=
  ⟨by decide +kernel, CCVerif.ParserShape.funcsNotLogic_of_check (by decide +kernel), by decide +kernel⟩

/-- an evaluation error: `debool({1,2})` — accepted by parser and type auditor, `invalidDebool` (0x8A05) from the evaluator;
`X1` without data — `globalMissingValue` (0x8A03) from the name collection; the empty text — `nullopt`, empty log -/
example : (evalEntry CCVerif.C03.ctxK {} 100 none (units "debool({1,2})")).map (fun r => (r.status, r.errors)) =
      some (.failed, [(0x8A05, 0)]) ∧
    (evalEntry CCVerif.C03.ctxK {} 100 none (units "X1")).map (fun r => (r.status, r.errors)) = some (.failed, [(0x8A03, 0)]) ∧
    (evalEntry CCVerif.C03.ctxK {} 100 none []).map (fun r => (r.status, r.errors, r.emptyInput)) = some (.failed, [], true) := by
  decide +kernel

/-- conversion: a rejected text comes back unchanged; an accepted one is printed in the target syntax (`a \in X1` → `a∈X1`);
a MATH source that is not UTF-8 is outside the model -/
example : convertEntry .ascii (units "X1 )") = .text (units "X1 )") ∧
    convertEntry .math (units "a \\in X1") = .text (units "a" ++ [0xE2, 0x88, 0x88] ++ units "X1") ∧
    convertEntry .ascii [0xFF] = .outside := by
  decide +kernel

end EntryPoints

end CCVerif.C04

/-! ## 6. `ConvertTo` never reaches an unchecked access (`Lemmas/PrinterShape.lean`, `Lemmas/PrinterTotal.lean`) -/
namespace CCVerif.C04
open CCVerif.Syntax CCVerif.Parser CCVerif.Entry CCVerif.Convert

/-- **convert_entry_total** = `convert_entry_total_statement`, proved: for EVERY byte string and both targets `ConvertTo` is
outside the model exactly when the text is not in the lexer model of the opposite syntax (MATH source, ill-formed UTF-8);
a text the opposite parser rejects comes back unchanged; a text it accepts comes back as the printed tree, and the printer
(`GeneratorImplAST`) reaches NO unchecked access on it (`std::get` of the wrong payload, `*begin()` of an empty index
vector, `children.at(i)`, a failing `assert(ChildrenCount() …)`). No hypothesis: `ConvertTo` has no context, and the shape
the printer needs (`PrinterShape.Printable`: arity and payload per node kind) is established by the parser for every
token stream (`PrinterShape.parse_printable`); the checker's shape `WfParsed` of C06 would NOT be enough
(`Printer.print_stuck_on_WfParsed_counterexample`). -/
theorem convert_entry_total : convert_entry_total_statement := by
  intro target input
  obtain ⟨h1, h2, h3⟩ := convert_entry_total_partial target input
  refine ⟨h1, h2, fun units t hu hp => ?_⟩
  rcases h3 units t hu hp with h | ⟨hn, _⟩
  · exact h
  · obtain ⟨out, ho⟩ := CCVerif.Printer.print_total_on_parsed (other target) target units t hp
    rw [ho] at hn; cases hn

/-- **convert_entry_never_stuck**: the outcome `stuck` of the conversion model is unreachable — every byte string (also
outside the lexer model), both targets. -/
theorem convert_entry_never_stuck (target : Syn) (input : List Nat) : convertEntry target input ≠ .stuck := by
  intro hs
  obtain ⟨h1, h2, h3⟩ := convert_entry_total target input
  cases hu : unitsOf (other target) input with
  | none => rw [h1.2 hu] at hs; cases hs
  | some units =>
    cases hp : parse (other target) units with
    | none => rw [h2 units hu hp] at hs; cases hs
    | some t =>
      obtain ⟨out, _, ho⟩ := h3 units t hu hp
      rw [ho] at hs; cases hs

/-- **printed_tree_total**: the generator on EVERY tree the parser returns, in either target syntax (also the syntax the
text was written in: `ConvertTo`'s normalising use) -/
theorem printed_tree_total (src target : Syn) (text : List Nat) (t : Ast) (h : parse src text = some t) :
    ∃ out, CCVerif.Printer.print target t = some out :=
  CCVerif.Printer.print_total_on_parsed src target text t h

/-- non-vacuity: the third clause of `convert_entry_total` on an accepted text that exercises the index tuple, the
variable-arity visitors and the declaration visitor: `S1 \deftype B(X1*X1*X1)`, `Fi1,2[X1, X2](X1*X2)` (ASCII → MATH) -/
example : (parse .ascii (units "S1 \\deftype B(X1*X1*X1)")).isSome = true ∧
    (parse .ascii (units "Fi1,2[X1, X2](X1*X2)")).isSome = true ∧
    convertEntry .math (units "Fi1,2[X1, X2](X1*X2)") = .text (units "Fi1,2[X1, X2](X1" ++ [0xC3, 0x97] ++ units "X2)") := by
  decide +kernel

end CCVerif.C04

/-! ## 7. `CheckValue` reaches no unchecked access: the `gap` status of the value audit disappears (`Lemmas/VCheckTotal.lean`) -/
namespace CCVerif.C04
open CCVerif.Syntax CCVerif.Lexer CCVerif.Parser CCVerif.Types CCVerif.Checker CCVerif.Entry CCVerif.Convert

/-- **vcheck_not_stuck** (`ValueAuditor::Check` on a tree of the parser's shape): with stored function definitions of the
shape `name :== [decls] body` (`AstsShape`: the children `ViFunctionCall` reads without a check exist, every declaration
starts with a named local, the body is grammar-shaped), with the C++ `assert(size(args) == size(argsVals))` satisfied at
every call of a stored function in the input tree and in the stored bodies (`ArityOK`, `AstsArity`), and with non-recursive
stored definitions (`AstsAcyclic`: a rank decreases along calls — otherwise the inlining of the C++ does not terminate and
the model runs out of fuel: `Lemmas/VCheckTotal.lean`, last example), the value audit with the fuel of the entry point
reaches no faulting site. Each hypothesis is needed (closed examples there). -/
theorem vcheck_not_stuck (Γ : Ctx) (rank : String → Nat) (xs : List String) (t : Ast)
    (hS : AstsShape Γ) (hA : AstsArity Γ) (hAc : AstsAcyclic Γ rank) (hw : WfParsed Γ xs t) (ht : ArityOK Γ t) :
    (vcheck Γ (vfuel Γ t) t).stuck = none :=
  CCVerif.Checker.vcheck_not_stuck hS hA hAc hw ht

/-- **vcheck_stuck_only_fuel**: without the acyclicity hypothesis and for EVERY fuel, the only site the model can be stuck
at is its own `"fuel"` — no `child-index`, `bad_variant_access`, `Root.Child(1)`, `Child(1).Child`, `assert:args`,
`args.Child`. -/
theorem vcheck_stuck_only_fuel (Γ : Ctx) (xs : List String) (t : Ast)
    (hS : AstsShape Γ) (hA : AstsArity Γ) (hw : WfParsed Γ xs t) (ht : ArityOK Γ t) :
    ∀ fuel x, (vcheck Γ fuel t).stuck = some x → x = "fuel" :=
  CCVerif.Checker.vcheck_stuck_only_fuel hS hA hw ht

/-- **check_entry_faithful_nogap** (`Auditor::CheckType(text, hint)` then `CheckValue()`): under the hypothesis of
`check_entry_faithful` (`FuncsNotLogic`) and the hypotheses of `vcheck_not_stuck` on the context and on the parsed tree, the
value audit always has a verdict the model determines: `CheckValue` ran exactly when `CheckType` succeeded and then it
either returned true with the log unchanged or returned false with a critical error in the log; a `gap` can only be the
parser model's. -/
theorem check_entry_faithful_nogap (Γ : Ctx) (rank : String → Nat) (hint : Option Syn) (bytes : List Nat) (r : CheckResE)
    (h : checkEntry Γ hint bytes = some r)
    (hΓ : ∀ ts, lex r.parse.syn r.parse.units = some ts → CCVerif.ParserShape.FuncsNotLogic Γ ts)
    (hS : AstsShape Γ) (hA : AstsArity Γ) (hAc : AstsAcyclic Γ rank)
    (hT : ∀ t, r.parse.tree = some t → ArityOK Γ t) :
    (∀ why, r.vstatus ≠ some (.gap why)) ∧
    (r.status = .ok → (r.vstatus = some .ok ∧ r.verrors = r.errors ∧ r.vclass.isSome = true) ∨
      (r.vstatus = some .failed ∧ ∃ e ∈ r.verrors, isCritical e.1 = true)) ∧
    (r.status ≠ .ok → r.vstatus = none) ∧
    (∀ why, r.status = .gap why → r.parse.status = .gap why) := by
  obtain ⟨_, _, _, hgap, _, hiff, hvok, hvfail, _⟩ := check_entry_faithful Γ hint bytes r h hΓ
  have hng : ∀ why, r.vstatus ≠ some (.gap why) := by
    unfold checkEntry at h
    split at h
    · cases h
    · rename_i p hp
      obtain ⟨_, _, hok, _, _⟩ := parse_entry_faithful hint bytes p hp
      split at h
      · rename_i t hst htree
        obtain ⟨_, htr, _⟩ := hok hst
        have hparse : parse p.syn p.units = some t := by rw [← htr, htree]
        simp only [] at h
        split at h
        · simp only [Option.some.injEq] at h
          subst h
          obtain ⟨xs, hw⟩ := CCVerif.ParserShape.parse_wfParsed p.syn p.units t hparse hΓ
          have hns := CCVerif.Checker.vcheck_not_stuck hS hA hAc hw (hT t htree)
          intro why
          simp only [hns]
          cases (vcheck Γ (vfuel Γ t) t).out <;> simp
        · simp only [Option.some.injEq] at h; subst h; intro why; simp
        · simp only [Option.some.injEq] at h; subst h; intro why; simp
      · simp only [Option.some.injEq] at h; subst h; intro why; simp
      · simp only [Option.some.injEq] at h; subst h; intro why; simp
  refine ⟨hng, ?_, ?_, hgap⟩
  · intro hs
    have hsome := hiff.2 hs
    cases hv : r.vstatus with
    | none => rw [hv] at hsome; cases hsome
    | some st =>
      cases st with
      | ok =>
        refine Or.inl ⟨rfl, hvok hv, ?_⟩
        -- the class is reported with the verdict
        unfold checkEntry at h
        split at h
        · cases h
        · split at h
          · simp only [] at h
            split at h
            · simp only [Option.some.injEq] at h
              subst h
              revert hv
              simp only []
              cases (vcheck Γ (vfuel Γ _) _).stuck <;> cases (vcheck Γ (vfuel Γ _) _).out <;> simp
            · simp only [Option.some.injEq] at h; subst h; cases hv
            · simp only [Option.some.injEq] at h; subst h; cases hv
          · simp only [Option.some.injEq] at h; subst h; cases hv
          · simp only [Option.some.injEq] at h; subst h; cases hv
      | failed => exact Or.inr ⟨rfl, hvfail hv⟩
      | gap why => exact absurd hv (hng why)
  · intro hs
    cases hv : r.vstatus with
    | none => rfl
    | some st => exact absurd (hiff.1 (by rw [hv]; rfl)) hs

/-! ### non-vacuity of `vcheck_not_stuck` / `check_entry_faithful_nogap` -/

private def bbX1 : Ast := .node .BOOLEAN .none 0 0 [.node .BOOLEAN .none 0 0 [.node .ID_GLOBAL (.text "X1") 0 0 []]]
/-- the stored definition `F1 :== [a∈ℬℬ(X1)] a∪a` -/
private def defF1 : Ast :=
  .node .PUNC_DEFINE .none 0 0 [.node .ID_FUNCTION (.text "F1") 0 0 [],
    .node .NT_FUNC_DEFINITION .none 0 0 [
      .node .NT_ARGUMENTS .none 0 0 [.node .NT_ARG_DECL .none 0 0 [.node .ID_LOCAL (.text "a") 0 0 [], bbX1]],
      .node .UNION .none 0 0 [.node .ID_LOCAL (.text "a") 0 0 [], .node .ID_LOCAL (.text "a") 0 0 []]]]
/-- a context with the base set `X1` and the term function `F1` (typed, with value class and stored definition) -/
private def ctxCall : Ctx :=
  { types := [("X1", .ty (.coll (.base "X1"))), ("F1", .ty (.coll (.coll (.base "X1"))))],
    funcs := [("F1", [("a", .coll (.coll (.base "X1")))])],
    traits := [("X1", Traits.nominal)],
    vclass := [("X1", .value), ("F1", .value)],
    asts := [("F1", defF1)] }

private theorem ctxCall_lookup {f : String} {tree : Ast} (h : lookup ctxCall.asts f = some tree) : tree = defF1 := by
  simp only [ctxCall, lookup] at h
  split at h
  · exact (Option.some.inj h).symm
  · cases h

private theorem ctxCall_shape : AstsShape ctxCall := by
  intro f tree h
  cases ctxCall_lookup h
  refine ⟨_, _, _, rfl, rfl, rfl, ?_, Or.inl (.sSetbin (Or.inl rfl) .sLocal .sLocal)⟩
  intro d hd
  simp only [Ast.kids, List.mem_cons, List.not_mem_nil, or_false] at hd
  subst hd
  exact ⟨_, _, _, _, _, rfl⟩

private theorem ctxCall_arity : AstsArity ctxCall := by
  intro f tree fd body h h1 hb
  cases ctxCall_lookup h
  cases h1
  cases hb
  decide +kernel

private theorem ctxCall_acyclic : AstsAcyclic ctxCall (fun _ => 0) := by
  intro f tree fd body h h1 hb
  cases ctxCall_lookup h
  cases h1
  cases hb
  show CallsBelow ctxCall (fun _ => 0) 0 _
  decide +kernel

/-- all hypotheses of `check_entry_faithful_nogap` hold for the ASCII text `F1[B(X1)]` in that context: the argument `ℬ(X1)`
is a property, so `ViFunctionCall` audits the STORED body of `F1` (the path with the unchecked accesses and the assert);
`CheckType` true, `CheckValue` true with class `props`, log empty, the parsed tree satisfies the arity condition -/
example : AstsShape ctxCall ∧ AstsArity ctxCall ∧ AstsAcyclic ctxCall (fun _ => 0) ∧
    (∀ ts, lex .ascii (units "F1[B(X1)]") = some ts → CCVerif.ParserShape.FuncsNotLogic ctxCall ts) ∧
    (checkEntry ctxCall (some .ascii) (units "F1[B(X1)]")).map (fun r => (r.status, r.errors, r.vstatus, r.verrors)) =
      some (.ok, [], some .ok, []) ∧
    (checkEntry ctxCall (some .ascii) (units "F1[B(X1)]")).map (fun r => (r.vclass,
      r.parse.tree.map (fun t => decide (ArityOK ctxCall t)))) = some (some .props, some true) :=
  ⟨ctxCall_shape, ctxCall_arity, ctxCall_acyclic, CCVerif.ParserShape.funcsNotLogic_of_check (by decide +kernel),
    by decide +kernel, by decide +kernel⟩

/-- `vcheck_not_stuck` instantiated on the tree of that text -/
example : ∀ t, parse .ascii (units "F1[B(X1)]") = some t → ArityOK ctxCall t → (vcheck ctxCall (vfuel ctxCall t) t).stuck = none := by
  intro t hp ht
  obtain ⟨xs, hw⟩ := CCVerif.ParserShape.parse_wfParsed .ascii _ t hp
    (CCVerif.ParserShape.funcsNotLogic_of_check (Γ := ctxCall) (by decide +kernel))
  exact vcheck_not_stuck ctxCall (fun _ => 0) xs t ctxCall_shape ctxCall_arity ctxCall_acyclic hw ht

end CCVerif.C04

/-! ## 8. the evaluator's errors: positions inside the input, `unknownError` only through the fallback
(`Lemmas/EvalPositionsNorm.lean`, `Lemmas/EvalPositions.lean`)

`reachable t` (`EvalPos.visibleNodes`) = the nodes of `t` that are not below an `ID_LOCAL` node: what a visitor can reach
(neither `NameCollector` nor `ASTInterpreter` descends into a local; in a parsed tree a local is a leaf, so these are all
nodes).  The normaliser gives every node it creates the range of a node that was there, and `SubstituteArgs` overwrites
the ranges of an inlined body with the range of the CALL - only the children of a renamed local keep theirs, and they are
not reachable.  So nothing is assumed about the stored function trees. -/
namespace CCVerif.C04
open CCVerif.Syntax CCVerif.Lexer CCVerif.Parser CCVerif.Types CCVerif.Checker CCVerif.Entry CCVerif.Analysis
open CCVerif.EvalPos

private theorem rangedL_of_ranged {Plo Phi : Int → Prop} {a : Ast} (h : Ranged Plo Phi a) :
    RangedL (fun lo _ => Plo lo) a := by
  induction h with
  | node hlo _ _ ih => exact .node hlo (fun _ => ih)

private theorem rangedL_of_wfRange (L H : Int) {a : Ast} (h : WfRange a) :
    L ≤ a.lo → a.hi ≤ H → RangedL (fun lo hi => L ≤ lo ∧ lo < hi ∧ hi ≤ H) a := by
  induction h with
  | node hlt _ hin ih =>
    intro h1 h2
    simp only [Ast.lo, Ast.hi] at h1 h2
    refine .node ⟨h1, hlt, h2⟩ (fun _ k hkm => ih k hkm ?_ ?_)
    · have := (hin k hkm).1; omega
    · have := (hin k hkm).2; omega

/-- **normalize_ranges_in** (`SyntaxTree::Normalize`, every set of stored function trees, every fuel): in the normalised
tree of a tree with nested ranges (`WfRange`: every parsed tree, `parse_wfRange`) every reachable node has a non-empty range
inside the range of the ORIGINAL root - the generated `pr<i>` chains and the renamed pattern local of a tuple declaration,
the nested quantifiers of an enumerated declaration, and every node of an inlined function body included. -/
theorem normalize_ranges_in (fs : CCVerif.Norm.Funcs) (fuel : Nat) (t nt : Ast) (hw : WfRange t)
    (hn : CCVerif.Norm.normalizeTree fs fuel t = some nt) :
    ∀ n ∈ visibleNodes nt, t.lo ≤ n.lo ∧ n.lo < n.hi ∧ n.hi ≤ t.hi :=
  rangedL_visible nt (rangedL_normalizeTree fs fuel t nt
    (rangedL_of_wfRange t.lo t.hi hw (Int.le_refl _) (Int.le_refl _)) hn)

/-- the same for any property of ranges: the reachable nodes of the normalised tree only carry ranges that reachable
nodes of the original tree carry -/
theorem normalize_ranges_from_tree (fs : CCVerif.Norm.Funcs) (fuel : Nat) (t nt : Ast) (P : Int → Int → Prop)
    (ht : ∀ n ∈ visibleNodes t, P n.lo n.hi) (hn : CCVerif.Norm.normalizeTree fs fuel t = some nt) :
    ∀ n ∈ visibleNodes nt, P n.lo n.hi :=
  rangedL_visible nt (rangedL_normalizeTree fs fuel t nt (visible_rangedL t ht) hn)

/-- **eval_error_position_in** (`Interpreter::Evaluate` after parsing and type checking = normalise, collect names,
calculate; EVERY tree, data context, set of stored function trees and fuel): an error result is either the `unknownError`
fallback, reported at position 0, or one of the six documented `ValueEID`s (`typedOverflow`, `booleanLimit`,
`globalMissingValue`, `iterationsLimit`, `invalidDebool`, `iterateInfinity`) at a position where a reachable node of the
tree starts: if those starts lie in `[lo, hi]`, so does the position. -/
theorem eval_error_position_in (fuel : Nat) (env : CCVerif.Eval.Env) (t : Ast) (lo hi : Int)
    (hr : ∀ n ∈ visibleNodes t, lo ≤ n.lo ∧ n.lo ≤ hi) (eid : Nat) (pos : Int)
    (h : (CCVerif.Eval.evaluate fuel env t).1 = .err eid pos) :
    (eid = CCVerif.Eval.EID.unknownError ∧ pos = 0) ∨ (Doc eid ∧ lo ≤ pos ∧ pos ≤ hi) := by
  obtain ⟨nt, _, h1 | h1⟩ := evaluate_err (Qp := fun p => lo ≤ p ∧ p ≤ hi) fuel env t (visible_rangedL t hr) eid pos h
  · exact Or.inl ⟨h1.2.1, h1.2.2⟩
  · exact Or.inr ⟨h1.2.1, h1.2.2⟩

/-- **unknown_error_iff_quiet_visit**: `Interpreter::Evaluate` answers `unknownError` exactly when one of the two visitors
(`NameCollector`, `ASTInterpreter`) returned `false` WITHOUT logging (`visitFail … = some .quiet`) - the fallback of
`ASTInterpreter::Evaluate` / `AfterVisit` - and then at position 0; no visitor logs `unknownError` itself. Every tree. -/
theorem unknown_error_iff_quiet_visit (fuel : Nat) (env : CCVerif.Eval.Env) (t : Ast) (pos : Int) :
    (CCVerif.Eval.evaluate fuel env t).1 = .err CCVerif.Eval.EID.unknownError pos ↔
      pos = 0 ∧ ∃ nt, CCVerif.Norm.normalizeTree env.funcs fuel t = some nt ∧ visitFail fuel env nt = some .quiet := by
  constructor
  · intro h
    obtain ⟨nt, hn, h1 | h1⟩ := evaluate_err (Qp := fun _ => True) fuel env t
      ((rangedL_true t).mono (fun _ _ _ => trivial)) _ pos h
    · exact ⟨h1.2.2, nt, hn, h1.1⟩
    · exact absurd rfl (doc_ne_unknown h1.2.1)
  · rintro ⟨rfl, nt, hn, hq⟩
    exact (evaluate_of_visit fuel env t nt hn).1 hq

/-- what `evalEntry` returns, branch by branch -/
private theorem eval_entry_core (Γ : Ctx) (env : CCVerif.Eval.Env) (fuel : Nat) (hint : Option Syn) (bytes : List Nat)
    (r : EvalResE) (h : evalEntry Γ env fuel hint bytes = some r) :
    (bytes = [] ∧ r.errors = [] ∧ r.value = none) ∨
    ∃ p, parseEntry hint bytes = some p ∧
      ((r.value = none ∧ ∀ e ∈ r.errors, 0 ≤ e.2 ∧ e.2 ≤ p.units.length) ∨
       ∃ t v, parse p.syn p.units = some t ∧ p.tree = some t ∧ (CCVerif.Eval.evaluate fuel env t).1 = v ∧ r.value = some v ∧
         ∃ pre : List Entry.Err, (∀ e ∈ pre, isCritical e.1 = false ∧ 0 ≤ e.2 ∧ e.2 ≤ (p.units.length : Int)) ∧
           r.errors = pre ++ (match v with | .err eid pos => [(eid, pos)] | _ => [])) := by
  unfold evalEntry at h
  split at h
  · rename_i hemp
    simp only [Option.some.injEq] at h
    subst h
    exact Or.inl ⟨by simpa using hemp, rfl, rfl⟩
  · split at h
    · cases h
    · rename_i p hp
      refine Or.inr ⟨p, hp, ?_⟩
      obtain ⟨_, _, hok, hfail, hall⟩ := parse_entry_faithful hint bytes p hp
      have hpos : ∀ e ∈ p.errors, 0 ≤ e.2 ∧ e.2 ≤ p.units.length := fun e he => (hall e he).2
      split at h
      · rename_i t hst htree
        obtain ⟨herrs, htr, _⟩ := hok hst
        have hparse : parse p.syn p.units = some t := by rw [← htr, htree]
        have htp := typecheck_positions_in_input p.syn p.units Γ t hparse
        simp only [] at h
        split at h
        · rename_i τ hout
          have hacc := accept_no_critical Γ t τ hout
          have hpre : ∀ e ∈ (check Γ t).errs, isCritical e.1 = false ∧ 0 ≤ e.2 ∧ e.2 ≤ p.units.length :=
            fun e he => ⟨hacc e he, htp e he⟩
          simp only [herrs, List.nil_append] at h
          split at h
          · rename_i v hv
            simp only [Option.some.injEq] at h; subst h
            exact Or.inr ⟨t, _, hparse, htree, hv, rfl, _, hpre, by simp⟩
          · rename_i b hv
            simp only [Option.some.injEq] at h; subst h
            exact Or.inr ⟨t, _, hparse, htree, hv, rfl, _, hpre, by simp⟩
          · rename_i eid pos hv
            split at h
            · simp only [Option.some.injEq] at h; subst h
              exact Or.inr ⟨t, _, hparse, htree, hv, rfl, _, hpre, rfl⟩
            · simp only [Option.some.injEq] at h; subst h
              exact Or.inl ⟨rfl, fun e he => (hpre e he).2⟩
          · simp only [Option.some.injEq] at h; subst h
            exact Or.inl ⟨rfl, fun e he => (hpre e he).2⟩
          · simp only [Option.some.injEq] at h; subst h
            exact Or.inl ⟨rfl, fun e he => (hpre e he).2⟩
        · simp only [Option.some.injEq] at h; subst h
          exact Or.inl ⟨rfl, fun e he => htp e (by simpa [herrs] using he)⟩
        · simp only [Option.some.injEq] at h; subst h
          exact Or.inl ⟨rfl, fun e he => htp e (by simpa [herrs] using he)⟩
      · simp only [Option.some.injEq] at h; subst h
        exact Or.inl ⟨rfl, hpos⟩
      · simp only [Option.some.injEq] at h; subst h
        exact Or.inl ⟨rfl, hpos⟩

/-- **eval_entry_positions** (`Interpreter::Evaluate(text, hint)`; every hint, every byte string inside the lexer model,
every type context, data context, set of stored function trees and fuel): EVERY entry of the error log - the parser's, the
type auditor's and now the evaluator's - is positioned in `[0, length of the text in units]`; more precisely the evaluator's
entry is `unknownError` at 0 or a documented `ValueEID` at the start of a node: `0 ≤ pos < length`. -/
theorem eval_entry_positions (Γ : Ctx) (env : CCVerif.Eval.Env) (fuel : Nat) (hint : Option Syn) (bytes : List Nat)
    (r : EvalResE) (p : ParseRes) (h : evalEntry Γ env fuel hint bytes = some r) (hp : parseEntry hint bytes = some p) :
    (∀ e ∈ r.errors, 0 ≤ e.2 ∧ e.2 ≤ p.units.length) ∧
    (∀ eid pos, r.value = some (.err eid pos) →
      (eid = CCVerif.Eval.EID.unknownError ∧ pos = 0) ∨ (Doc eid ∧ 0 ≤ pos ∧ pos + 1 ≤ p.units.length)) := by
  rcases eval_entry_core Γ env fuel hint bytes r h with ⟨_, he, hv⟩ | ⟨p', hp', hc⟩
  · rw [he, hv]; exact ⟨by simp, by simp⟩
  · rw [hp] at hp'
    simp only [Option.some.injEq] at hp'
    subst hp'
    rcases hc with ⟨hv, hpos⟩ | ⟨t, v, hparse, _, hev, hv, pre, hpre, herr⟩
    · rw [hv]; exact ⟨hpos, by simp⟩
    · have key : ∀ eid pos, v = .err eid pos →
          (eid = CCVerif.Eval.EID.unknownError ∧ pos = 0) ∨ (Doc eid ∧ 0 ≤ pos ∧ pos + 1 ≤ p.units.length) := by
        intro eid pos hve
        rw [hve] at hev
        obtain ⟨nt, _, h1 | h1⟩ := evaluate_err (Qp := fun q => 0 ≤ q ∧ q + 1 ≤ (p.units.length : Int)) fuel env t
          (rangedL_of_ranged (parse_ranged_strict p.syn p.units t hparse)) eid pos hev
        · exact Or.inl ⟨h1.2.1, h1.2.2⟩
        · exact Or.inr ⟨h1.2.1, h1.2.2⟩
      refine ⟨?_, ?_⟩
      · intro e he
        rw [herr] at he
        rcases List.mem_append.1 he with he | he
        · exact (hpre e he).2
        · cases v with
          | err eid pos =>
            rcases List.mem_singleton.1 he with rfl
            rcases key eid pos rfl with ⟨_, rfl⟩ | ⟨_, h1, h2⟩
            · exact ⟨Int.le_refl 0, by simp⟩
            · exact ⟨h1, by simp only; omega⟩
          | _ => simp at he
      · intro eid pos hve
        rw [hv] at hve
        simp only [Option.some.injEq] at hve
        exact key eid pos hve

/-- **unknown_error_only_fallback** (`Interpreter::Evaluate(text, hint)`, same generality): when the evaluation of an accepted
text ends with an error `(eid, pos)`, then `eid` is `unknownError` EXACTLY when a visitor returned `false` without logging
(the fallback branch), the position then being 0; otherwise `eid` is a documented `ValueEID` that the visitor logged itself.
The evaluator's entry is the last one of the log and no entry before it is critical - so none is `unknownError` (0x8A00).
NOT covered: that the parser's / type auditor's own error codes (`ParseEID` 0x84xx, `SemanticEID` 0x88xx, 0x8203) differ
from 0x8A00 when the text is REJECTED (read off the enums, not proved). -/
theorem unknown_error_only_fallback (Γ : Ctx) (env : CCVerif.Eval.Env) (fuel : Nat) (hint : Option Syn) (bytes : List Nat)
    (r : EvalResE) (h : evalEntry Γ env fuel hint bytes = some r) :
    (∀ eid pos, r.value = some (.err eid pos) →
      ∃ p t nt, parseEntry hint bytes = some p ∧ parse p.syn p.units = some t ∧
        CCVerif.Norm.normalizeTree env.funcs fuel t = some nt ∧
        ((eid = CCVerif.Eval.EID.unknownError ∧ pos = 0 ∧ visitFail fuel env nt = some .quiet) ∨
         (Doc eid ∧ eid ≠ CCVerif.Eval.EID.unknownError ∧ visitFail fuel env nt = some (.err eid pos)))) ∧
    (∀ v, r.value = some v → ∃ pre : List Entry.Err,
      r.errors = pre ++ (match v with | .err eid pos => [(eid, pos)] | _ => []) ∧
      ∀ e ∈ pre, e.1 ≠ CCVerif.Eval.EID.unknownError) := by
  rcases eval_entry_core Γ env fuel hint bytes r h with ⟨_, _, hv⟩ | ⟨p, hp, hc⟩
  · rw [hv]; exact ⟨by simp, by simp⟩
  · rcases hc with ⟨hv, _⟩ | ⟨t, v, hparse, _, hev, hv, pre, hpre, herr⟩
    · rw [hv]; exact ⟨by simp, by simp⟩
    · refine ⟨?_, ?_⟩
      · intro eid pos hve
        rw [hv] at hve
        simp only [Option.some.injEq] at hve
        rw [hve] at hev
        obtain ⟨nt, hn, h1 | h1⟩ := evaluate_err (Qp := fun _ => True) fuel env t
          ((rangedL_true t).mono (fun _ _ _ => trivial)) eid pos hev
        · exact ⟨p, t, nt, hp, hparse, hn, Or.inl ⟨h1.2.1, h1.2.2, h1.1⟩⟩
        · exact ⟨p, t, nt, hp, hparse, hn, Or.inr ⟨h1.2.1, doc_ne_unknown h1.2.1, h1.1⟩⟩
      · intro v' hv'
        rw [hv] at hv'
        simp only [Option.some.injEq] at hv'
        subst hv'
        refine ⟨pre, herr, fun e he hu => ?_⟩
        have := (hpre e he).1
        rw [hu] at this
        revert this; decide

/-- **unknown_error_never_on_fragments** (corollary of C02's progress theorems): when the parsed tree of an accepted text lies
in one of the fragments on which evaluation is proved never to fault - stage 8 (`Typed8`: integers, sets, tuples,
quantifiers, `D{}`, `R{}`, `I{}`, tuple patterns, filters), stage 7 / 7n (calls of stored term functions) - the evaluator's
answer is never `unknownError`, whatever the fuel.  A function / structure DEFINITION evaluated directly is outside these
fragments and does answer `unknownError` (recorded finding C01/C02-definition-unknown-error; example below). -/
theorem unknown_error_never_on_fragments (Γ : Ctx) (env : CCVerif.Eval.Env) (fuel : Nat) (hint : Option Syn) (bytes : List Nat)
    (r : EvalResE) (p : ParseRes) (t : Ast) (τ : CCVerif.Eval.ExprTy) (h : evalEntry Γ env fuel hint bytes = some r)
    (hp : parseEntry hint bytes = some p) (ht : p.tree = some t)
    (hT : CCVerif.Eval.Typed8 env t τ ∨ CCVerif.Eval.Typed7 env t τ ∨ CCVerif.Eval.Typed7n env t τ) :
    ∀ pos, r.value ≠ some (.err CCVerif.Eval.EID.unknownError pos) := by
  intro pos hv
  have hsound : CCVerif.Eval.Sound (CCVerif.Eval.evaluate fuel env t).1 τ := by
    rcases hT with hT | hT | hT
    · exact CCVerif.Eval.progress_preservation_partial8 env t τ hT fuel
    · exact CCVerif.Eval.progress_preservation_partial7 env t τ hT fuel
    · exact CCVerif.Eval.progress_preservation_partial7n env t τ hT fuel
  rcases eval_entry_core Γ env fuel hint bytes r h with ⟨_, _, hv'⟩ | ⟨p', hp', hc⟩
  · rw [hv'] at hv; cases hv
  · rw [hp] at hp'
    simp only [Option.some.injEq] at hp'
    subst hp'
    rcases hc with ⟨hv', _⟩ | ⟨t', v, _, ht', hev, hv', _⟩
    · rw [hv'] at hv; cases hv
    · rw [ht] at ht'
      simp only [Option.some.injEq] at ht'
      subst ht'
      rw [hv'] at hv
      simp only [Option.some.injEq] at hv
      rw [hv] at hev
      rw [hev] at hsound
      revert hsound
      simp only [CCVerif.Eval.Sound, CCVerif.Eval.Documented]
      decide

/-! ### non-vacuity -/

/-- `∀(a,b)∈X1×X1 a=b` (16 code points): the normalised tree has the renamed pattern local (range of the pattern, 1..6) and
the generated `pr1` / `pr2` nodes (ranges of the replaced locals) - all inside `[0, 16]` -/
example : ((parse .math (units "∀(a,b)∈X1×X1 a=b")).bind (CCVerif.Norm.normalizeTree [] 20)).map
      (fun nt => (visibleNodes nt).map (fun n => (n.id, n.lo, n.hi))) =
    some [(.FORALL, 0, 16), (.ID_LOCAL, 1, 6), (.DECART, 7, 12), (.ID_GLOBAL, 7, 9), (.ID_GLOBAL, 10, 12), (.EQUAL, 13, 16),
      (.SMALLPR, 13, 14), (.ID_LOCAL, 13, 14), (.SMALLPR, 15, 16), (.ID_LOCAL, 15, 16)] := by decide +kernel

/-- the `iterationsLimit` site is reached (loop level: `EvalPos.quantLoop_limit` - a universal quantifier whose body holds
everywhere, over more than `MAX_ITERATIONS` elements, ends with `iterationsLimit` at the quantifier's position); an
entry-level text would need 100001 kernel-evaluated iterations and is left to the harness -/
example : CCVerif.Eval.quantLoop (fun st => .ok (.bool true) st) 0 true 6 (List.replicate 100001 (.e 0)) { data := [.e 0], iters := 0 } =
    .fail (.err CCVerif.Eval.EID.iterationsLimit 6) 100001 :=
  quantLoop_limit _ 0 6 (fun st => ⟨st, rfl, rfl⟩) _ _ (by decide) (by simp only [List.length_replicate]; decide)

/-- `1=debool({1,2})`: accepted, the evaluator logs `invalidDebool` (0x8A05) at 2 - strictly inside the text;
a definition evaluated directly: accepted, `unknownError` (0x8A00) at 0 (the recorded finding - `ViGlobalDeclaration` of the
name collector returns false without an error) -/
example : (evalEntry CCVerif.C03.ctxK {} 100 none (units "1=debool({1,2})")).map (fun r => (r.status, r.errors)) =
      some (.failed, [(0x8A05, 2)]) ∧
    (evalEntry CCVerif.C03.ctxK {} 100 (some .math) (units "F1:==[a" ++ [0xE2, 0x88, 0x88] ++ units "X1] a")).map
      (fun r => (r.status, r.errors)) = some (.failed, [(0x8A00, 0)]) := by
  decide +kernel

end CCVerif.C04
