import CCVerif.Generated.Consts
import CCVerif.Model.Eval

/-!
# Source tie (TieEval) of hand-transcribed constants and kind tables

`Generated/Consts.lean` is rewritten from /repo's current source by `tools/gen_consts.py` on every run.
The theorems below state that the hand-written models use exactly the regenerated values: limits of the
evaluator and of the value representation, the CRITICAL threshold and every error code the checker and
evaluator models log, the numbering of `CstType`, the kind predicates, the ordering priorities of
`CstList` and the alias letters of `CstNameGenerator`. Each quantifier ranges over a finite generated
table, so `decide` is a proof here, not a sample. An edit of one of these values in the C++ changes the
generated file and the corresponding theorem no longer checks.
-/

namespace CCVerif.TieEval
open CCVerif.Gen

theorem max_iterations_tie : Eval.MAX_ITERATIONS = Consts.MAX_ITERATIONS := by decide

/-- the codes the evaluator model returns, by name -/
def evaluatorCodes : List (String × Nat) := [
  ("unknownError", Eval.EID.unknownError), ("typedOverflow", Eval.EID.typedOverflow),
  ("booleanLimit", Eval.EID.booleanLimit), ("globalMissingValue", Eval.EID.globalMissingValue),
  ("iterationsLimit", Eval.EID.iterationsLimit), ("invalidDebool", Eval.EID.invalidDebool),
  ("iterateInfinity", Eval.EID.iterateInfinity)]

def codesOf (enumName : String) : List (String × Nat) :=
  (Consts.errorCodes.filter (·.1 == enumName)).map (·.2)

/-- the evaluator model's error codes are exactly the `ValueEID` enumeration of the source -/
theorem value_codes_tie : evaluatorCodes = codesOf "ValueEID" := by decide

theorem bool_infinity_eval_tie : Eval.Val.BOOL_INFINITY = Consts.BOOL_INFINITY := by decide

theorem set_infinity_eval_tie : Eval.Val.SET_INFINITY = Consts.SET_INFINITY := by decide

end CCVerif.TieEval
