import CCVerif.Model.Oss
import CCVerif.Lemmas.Oss
import CCVerif.Lemmas.OssRel
import CCVerif.Lemmas.OssInv
import CCVerif.Lemmas.OssTop
import CCVerif.Lemmas.OssExec
import CCVerif.Lemmas.OssStep
import CCVerif.Lemmas.OssStab
import CCVerif.Lemmas.OssFuel
import CCVerif.Lemmas.OssFuelStep
/-!
# C19 — the operation schema stays sound and never shows outdated synthesis as current

Model: `CCVerif/Model/Oss.lean` (`St = Struct × Dyn`, `step`, `run`). The theorems hold for every
code variant `v` and every oracle `o` (synthesis / aggregation / `CheckCall` answers) unless a
variant is named.

* structure: `StructInv` (every operation pictogram has two distinct existing parents, the others
  none; the parent relation decreases a rank, hence `acyclic_no_cycle`; one grid cell and one
  source handle per pictogram; graph-facet items / adjacency indices consistent) is preserved by
  every step (`structInv_step`: `InsertBase`, `InsertOperation`, `Erase` with its index shifting,
  every source event, `InitFor`, `Execute`, `ExecuteAll`, and save → load with ANY rearrangement
  of items and connections) and holds after every history (`structInv_history`);
  `erase_only_leaves`; `index_in_range` (no `.at()` throws); `children_parents`.
* freshness: `no_stale_done_statement v`; refuted for the pinned code by three closed histories
  (`no_stale_done_counterexample_exec / _lost / _gone`, `no_stale_done_pinned_false`). For the
  repaired code (the code of /repo now) **`no_stale_done_repaired`** proves it for every admissible
  history (`admissibleRun`: a document is opened only when it is closed, new documents get names
  never used before, a reloaded document keeps for every child the order of its connections), every
  oracle whose synthesis never has the "no hash" content `0`, in every state without a model fault.
  The invariant behind it: `DInv` (handle invariant `HInv` of `Lemmas/OssInv.lean`: an attached
  document exists, is open, handle hash = content announced last; a detached handle names a closed
  document; no two pictograms stand for one document; `desc = src`; the schema listens) and `J7`
  (an operation not marked outdated with a recorded execution was built from the hashes its parents'
  handles carry now), carried through the re-entrant reaction chain by `reactions_rel`,
  `reactions_hinv` and through every API call by `tinv_step`. `no_stale_done_hypotheses_needed`
  shows on closed histories that each hypothesis is needed, `no_stale_done_repaired_unrestricted_false`
  that the unrestricted statement fails for the repaired model too. `heard_change_not_done` (every
  variant): an announcement the schema hears and that alters the content leaves no child `done`.
* result of an execution: `exec_result_statement` (arbitrary dynamic state) is false
  (`exec_result_statement_false`: a document attached to two pictograms); **`exec_result_reachable`**
  proves its conclusion — operand documents hold at the END of the call the contents the synthesis
  was computed from, the result document holds the oracle's synthesis of them, status `done` — for
  every state reached by an admissible history of the repaired code. `exec_result_partial`,
  `dataFor_reads`: the earlier partial forms (any variant, any state).
* `execute_null_translations_counterexample`: the fourth pinned defect (a fault).
* fuel sufficiency (the model's loops with a hidden variant take fuel; "out of fuel" is proved
  unreachable): `closestFree_fuel_sufficient` (every grid, every start), `insert_none_iff`;
  `reactions_depth_any_state` / `reactions_depth_bound` (nesting depth of the reaction chain
  ≤ 5 · stale pictograms + 5, any state; the model's constant `8 · (documents + 2)` suffices when no two
  pictograms stand for one document), `reactions_fuel_sufficient` (every entry point of `step`, from
  an invariant state), `execute_fuel_sufficient`, `run_fuel_sufficient` (`Execute` through
  `PrepareParents`, `ExecuteAll`); `reactions_fuel_independent`, `execute_fuel_independent`: more fuel
  than the model's constants never changes a result (the `0` cases are not reached);
  **`fault_never_fuel`**: after every admissible history of the repaired code the model fault is never
  "fuel"; hence `no_stale_done_repaired_access` and `exec_result_reachable_access`, whose hypothesis
  is only "no unchecked access of the C++ was reached" (`Dyn.accessFault`);
  `fault_never_fuel_needs_admissible`: with reused document names the constant IS too small.
  Lemmas: `Lemmas/OssFuel.lean`, `Lemmas/OssFuelStep.lean`.
-/
namespace CCVerif.Oss

/-! ## the structural invariant -/

/-- the five pictogram-keyed tables agree, the graph facet's index bookkeeping is consistent -/
structure KeysInv (s : Struct) : Prop where
  storageNodup : s.storage.Nodup
  idsEq : ∀ p, p ∈ s.ids ↔ p ∈ s.storage
  /-- items without repetition, one adjacency row per item, every stored index in range -/
  graphWf : s.graph.Wf
  itemsSub : ∀ p ∈ s.graph.items, p ∈ s.storage
  /-- one pictogram per cell, one cell per pictogram -/
  gridWf : s.grid.Wf
  gridVals : ∀ p, p ∈ s.grid.map (·.2) ↔ p ∈ s.storage
  /-- exactly one source handle per pictogram -/
  srcNodup : s.srcKeys.Nodup
  srcEq : ∀ p, p ∈ s.srcKeys ↔ p ∈ s.storage
  opNodup : s.opKeys.Nodup
  opSub : ∀ p ∈ s.opKeys, p ∈ s.storage

/-- every operation pictogram has two distinct existing parents, other pictograms have none, and
the parent relation is acyclic (it decreases a rank) -/
structure ParentsInv (s : Struct) : Prop where
  opParents : ∀ p ∈ s.opKeys, ∃ a b, s.graph.parentsOf p = [a, b] ∧ a ≠ b ∧ a ∈ s.storage ∧ b ∈ s.storage
  baseNoParents : ∀ p, p ∉ s.opKeys → s.graph.parentsOf p = []
  acyclic : ∃ rank : Pid → Nat, ∀ c p, p ∈ s.graph.parentsOf c → rank p < rank c

structure StructInv (s : Struct) : Prop where
  keys : KeysInv s
  parents : ParentsInv s

/-- the mathematical reading of "acyclic": no pictogram is its own ancestor -/
inductive Ancestor (s : Struct) : Pid → Pid → Prop
  | parent {c p} : p ∈ s.graph.parentsOf c → Ancestor s c p
  | step {c p q} : p ∈ s.graph.parentsOf c → Ancestor s p q → Ancestor s c q

/-! ## statements -/

/-- the invariant holds after every history -/
def structInv_history_statement : Prop :=
  ∀ (v : Variant) (o : Oracle) (ops : List Op) (st : St), run v o ops = some st → StructInv st.s

/-- `Erase` succeeds exactly on an existing pictogram that is nobody's parent; a refused erase
changes nothing -/
def erase_only_leaves_statement : Prop :=
  ∀ (v : Variant) (o : Oracle) (st st' : St) (p : Pid) (b : Bool), StructInv st.s →
    step v o st (.erase p) = some (st', b) →
    (b = true ↔ p ∈ st.s.storage ∧ ∀ c ∈ st.s.storage, p ∉ st.s.graph.parentsOf c) ∧
    (b = false → st' = st) ∧ (b = true → p ∉ st'.s.storage)

private theorem contains_false_iff {l : List Nat} {p : Nat} : l.contains p = false ↔ p ∉ l := by
  simp

/-! ## `InsertInternal` -/

private theorem keysInv_insertInternal {s : Struct} (h : KeysInv s) {p : Pid} {pos : Pos} {isOp : Bool}
    (g' : Graph) (wg : g'.Wf) (hsub : ∀ q ∈ g'.items, q ∈ s.storage ∨ q = p)
    (hp : p ∉ s.ids) (hpos : pos ∉ s.grid.map (·.1)) :
    KeysInv (({ s with graph := g' } : Struct).insertInternal p pos isOp) := by
  have hps : p ∉ s.storage := fun hm => hp ((h.idsEq p).2 hm)
  have hpv : p ∉ s.grid.map (·.2) := fun hm => hps ((h.gridVals p).1 hm)
  have hpk : p ∉ s.srcKeys := fun hm => hps ((h.srcEq p).1 hm)
  have hpo : p ∉ s.opKeys := fun hm => hps (h.opSub p hm)
  have hfo : s.opKeys.filter (· != p) = s.opKeys := by
    rw [List.filter_eq_self]; intro a ha
    simp only [bne_iff_ne, ne_eq]; rintro rfl; exact hpo ha
  have e1 : s.ids.contains p = false := contains_false_iff.2 hp
  have e2 : s.storage.contains p = false := contains_false_iff.2 hps
  have e3 : s.srcKeys.contains p = false := contains_false_iff.2 hpk
  unfold Struct.insertInternal
  simp only [e1, e2, e3, Bool.false_eq_true, if_false, Grid.setPosFor_fresh hpv hpos, hfo]
  constructor
  · exact List.nodup_cons.2 ⟨hps, h.storageNodup⟩
  · intro q; simp only [List.mem_cons, h.idsEq q]
  · exact wg
  · intro q hq
    rcases hsub q hq with h1 | rfl
    · exact List.mem_cons_of_mem _ h1
    · exact List.mem_cons_self
  · exact h.gridWf.cons hpv hpos
  · intro q; simp only [List.map_cons, List.mem_cons, h.gridVals q]
  · exact List.nodup_cons.2 ⟨hpk, h.srcNodup⟩
  · intro q; simp only [List.mem_cons, h.srcEq q]
  · cases isOp
    · exact h.opNodup
    · exact List.nodup_cons.2 ⟨hpo, h.opNodup⟩
  · intro q hq
    cases isOp
    · exact List.mem_cons_of_mem _ (h.opSub q hq)
    · simp only [if_true, List.mem_cons] at hq
      rcases hq with rfl | hq
      · exact List.mem_cons_self
      · exact List.mem_cons_of_mem _ (h.opSub q hq)

/-! ## `InsertBase` -/

private theorem structInv_insertBase {s s' : Struct} (h : StructInv s) {fresh : Pid}
    (hs : s.insertBase fresh = some s') : StructInv s' := by
  unfold Struct.insertBase at hs
  split at hs
  · cases hs
  · rename_i hfresh
    split at hs
    · cases hs
    · rename_i pos hpos
      injection hs with hs; subst hs
      have hp : fresh ∉ s.ids := by simpa using hfresh
      have hk := keysInv_insertInternal h.keys (p := fresh) (pos := pos) (isOp := false) s.graph h.keys.graphWf
        (fun q hq => Or.inl (h.keys.itemsSub q hq)) hp (Grid.closestFreePos_free hpos)
      refine ⟨hk, ?_, ?_, ?_⟩
      · intro p hpo
        have hpo' : p ∈ s.opKeys := by simpa [Struct.insertInternal] using hpo
        obtain ⟨a, b, h1, h2, h3, h4⟩ := h.parents.opParents p hpo'
        refine ⟨a, b, by simpa [Struct.insertInternal] using h1, h2, ?_, ?_⟩
        · exact (hk.idsEq a).1 (by
            have : a ∈ s.ids := (h.keys.idsEq a).2 h3
            simp only [Struct.insertInternal]; split <;> simp [this])
        · exact (hk.idsEq b).1 (by
            have : b ∈ s.ids := (h.keys.idsEq b).2 h4
            simp only [Struct.insertInternal]; split <;> simp [this])
      · intro p hpo
        have hpo' : p ∉ s.opKeys := by simpa [Struct.insertInternal] using hpo
        simpa [Struct.insertInternal] using h.parents.baseNoParents p hpo'
      · obtain ⟨rank, hr⟩ := h.parents.acyclic
        exact ⟨rank, by simpa [Struct.insertInternal] using hr⟩

/-! ## `InsertOperation` -/

private theorem mem_storage_insertInternal {s : Struct} {p q : Pid} {pos : Pos} {isOp : Bool}
    (hq : q ∈ s.storage) : q ∈ (s.insertInternal p pos isOp).storage := by
  simp only [Struct.insertInternal]; split <;> simp [hq]

private theorem parentsOf_mem_items {g : Graph} (w : g.Wf) {c p : Pid} (h : p ∈ g.parentsOf c) : p ∈ g.items := by
  obtain ⟨i, k, _, hk, _⟩ := (Graph.mem_parentsOf w).1 h
  exact List.mem_of_getElem? hk

private theorem structInv_insertOperation {s s' : Struct} (h : StructInv s) {a b fresh : Pid}
    (hs : s.insertOperation a b fresh = some (some s')) : StructInv s' := by
  unfold Struct.insertOperation at hs
  split at hs
  · cases hs
  · rename_i hab
    split at hs
    · cases hs
    · rename_i hcont
      split at hs
      · cases hs
      · rename_i hfresh
        dsimp only at hs
        split at hs
        · cases hs
        · rename_i pos hpos
          injection hs with hs; injection hs with hs; subst hs
          have hab' : a ≠ b := by simpa using hab
          have ha : a ∈ s.storage := by
            simp only [Struct.contains, Bool.not_eq_true, Bool.or_eq_true, not_or] at hcont; simpa using hcont.1
          have hb : b ∈ s.storage := by
            simp only [Struct.contains, Bool.not_eq_true, Bool.or_eq_true, not_or] at hcont; simpa using hcont.2
          have hp : fresh ∉ s.ids := by simpa using hfresh
          have hps : fresh ∉ s.storage := fun hm => hp ((h.keys.idsEq fresh).2 hm)
          obtain ⟨wg, hpar, hother, hmem⟩ := Graph.addItem_spec s.graph h.keys.graphWf fresh a b
          have hposfree : pos ∉ s.grid.map (·.1) := by
            unfold Grid.childPosFor at hpos
            split at hpos
            · exact Grid.closestFreePos_free hpos
            · cases hpos
          have hk := keysInv_insertInternal h.keys (p := fresh) (pos := pos) (isOp := true)
            (s.graph.addItem fresh [a, b]) wg
            (fun q hq => by
              rcases (hmem q).1 hq with h1 | rfl | rfl | rfl
              · exact Or.inl (h.keys.itemsSub q h1)
              · exact Or.inl ha
              · exact Or.inl hb
              · exact Or.inr rfl) hp hposfree
          have hg : (({ s with graph := s.graph.addItem fresh [a, b] } : Struct).insertInternal fresh pos true).graph
              = s.graph.addItem fresh [a, b] := rfl
          have hops : ∀ q, q ∈ (({ s with graph := s.graph.addItem fresh [a, b] } : Struct).insertInternal fresh pos true).opKeys
              ↔ q = fresh ∨ q ∈ s.opKeys := by
            intro q
            simp only [Struct.insertInternal, if_true, List.mem_cons, List.mem_filter, bne_iff_ne, ne_eq]
            constructor
            · rintro (h1 | h1)
              · exact Or.inl h1
              · exact Or.inr h1.1
            · rintro (h1 | h1)
              · exact Or.inl h1
              · by_cases hq : q = fresh
                · exact Or.inl hq
                · exact Or.inr ⟨h1, hq⟩
          refine ⟨hk, ?_, ?_, ?_⟩
          · intro q hq
            rw [hg]
            rcases (hops q).1 hq with rfl | hq'
            · exact ⟨a, b, hpar, hab', mem_storage_insertInternal ha, mem_storage_insertInternal hb⟩
            · have hqf : q ≠ fresh := fun e => hps (e ▸ h.keys.opSub q hq')
              obtain ⟨x, y, h1, h2, h3, h4⟩ := h.parents.opParents q hq'
              exact ⟨x, y, by rw [hother q hqf]; exact h1, h2, mem_storage_insertInternal h3, mem_storage_insertInternal h4⟩
          · intro q hq
            rw [hg]
            have hqf : q ≠ fresh := fun e => hq ((hops q).2 (Or.inl e))
            have hqo : q ∉ s.opKeys := fun e => hq ((hops q).2 (Or.inr e))
            rw [hother q hqf]
            exact h.parents.baseNoParents q hqo
          · obtain ⟨rank, hr⟩ := h.parents.acyclic
            refine ⟨fun q => if q = fresh then max (rank a) (rank b) + 1 else rank q, ?_⟩
            intro c p hcp
            rw [hg] at hcp
            by_cases hc : c = fresh
            · subst hc
              rw [hpar] at hcp
              simp only [List.mem_cons, List.not_mem_nil, or_false] at hcp
              have hpf : p ≠ c := by
                rcases hcp with rfl | rfl
                · exact fun e => hps (e ▸ ha)
                · exact fun e => hps (e ▸ hb)
              simp only [if_neg hpf, if_true]
              rcases hcp with rfl | rfl
              · have := Nat.le_max_left (rank p) (rank b); omega
              · have := Nat.le_max_right (rank a) (rank p); omega
            · rw [hother c hc] at hcp
              have hpf : p ≠ fresh := fun e =>
                hps (e ▸ h.keys.itemsSub p (parentsOf_mem_items h.keys.graphWf hcp))
              simp only [if_neg hc, if_neg hpf]
              exact hr c p hcp

/-! ## `Erase` -/

private theorem not_parent_of_leaf {s : Struct} (h : StructInv s) {p : Pid}
    (hleaf : s.graph.childrenOf p = []) : ∀ q, p ∉ s.graph.parentsOf q := by
  intro q hq
  by_cases hqp : q = p
  · subst hqp
    obtain ⟨rank, hr⟩ := h.parents.acyclic
    exact Nat.lt_irrefl _ (hr q q hq)
  · have : q ∈ s.graph.childrenOf p := (Graph.mem_childrenOf h.keys.graphWf).2 ⟨hqp, hq⟩
    rw [hleaf] at this; cases this

private theorem graph_erase_leaf {s : Struct} (h : StructInv s) {p : Pid}
    (hleaf : s.graph.childrenOf p = []) :
    (s.graph.erase p).Wf ∧ (∀ q, q ≠ p → (s.graph.erase p).parentsOf q = s.graph.parentsOf q) ∧
    (s.graph.erase p).parentsOf p = [] ∧ (∀ q, q ∈ (s.graph.erase p).items ↔ q ∈ s.graph.items ∧ q ≠ p) := by
  have w := h.keys.graphWf
  cases hk : s.graph.findItemIndex p with
  | none =>
    have hp : p ∉ s.graph.items := Graph.findItemIndex_eq_none.1 hk
    have he : s.graph.erase p = s.graph := by simp [Graph.erase, hk]
    rw [he]
    refine ⟨w, fun _ _ => rfl, by simp [Graph.parentsOf, hk], ?_⟩
    intro q
    exact ⟨fun hq => ⟨hq, fun e => hp (e ▸ hq)⟩, fun hq => hq.1⟩
  | some k =>
    apply Graph.erase_spec s.graph w p k hk
    intro l hl hkl
    obtain ⟨i, hi, rfl⟩ := List.mem_iff_getElem.1 hl
    have hrow : s.graph.row i = s.graph.adj[i] := by
      simp [Graph.row, List.getD_eq_getElem?_getD, List.getElem?_eq_getElem hi]
    have hil : i < s.graph.items.length := by rw [← w.len]; exact hi
    have hpar : p ∈ s.graph.parentsOf s.graph.items[i] :=
      (Graph.mem_parentsOf w).2 ⟨i, k, List.getElem?_eq_getElem hil, Graph.findItemIndex_eq_some hk, by rw [hrow]; exact hkl⟩
    exact not_parent_of_leaf h hleaf _ hpar

private theorem structInv_erase {s : Struct} (h : StructInv s) {p : Pid} (he : s.erasable p = true) :
    StructInv ((s.eraseFacets p).eraseKeys p) := by
  simp only [Struct.erasable, Struct.contains, Bool.and_eq_true, List.isEmpty_iff] at he
  obtain ⟨hps, hleaf⟩ := he
  have hps : p ∈ s.storage := by simpa using hps
  obtain ⟨wg, hother, hself, hitems⟩ := graph_erase_leaf h hleaf
  obtain ⟨wgrid, hgrid⟩ := Grid.erasePid_spec h.keys.gridWf p
  have hnp := not_parent_of_leaf h hleaf
  have memf : ∀ (l : List Pid) (q : Pid), q ∈ l.filter (· != p) ↔ q ∈ l ∧ q ≠ p := by
    intro l q; simp [List.mem_filter]
  refine ⟨⟨?_, ?_, wg, ?_, wgrid, ?_, ?_, ?_, ?_, ?_⟩, ⟨?_, ?_, ?_⟩⟩
  · exact List.Nodup.sublist List.filter_sublist h.keys.storageNodup
  · intro q
    show q ∈ s.ids.filter (· != p) ↔ q ∈ s.storage.filter (· != p)
    rw [memf, memf, h.keys.idsEq q]
  · intro q hq
    show q ∈ s.storage.filter (· != p)
    rw [memf]
    have := (hitems q).1 hq
    exact ⟨h.keys.itemsSub q this.1, this.2⟩
  · intro q
    show q ∈ (s.grid.erasePid p).map (·.2) ↔ q ∈ s.storage.filter (· != p)
    rw [memf, hgrid q, h.keys.gridVals q]
  · exact List.Nodup.sublist List.filter_sublist h.keys.srcNodup
  · intro q
    show q ∈ s.srcKeys.filter (· != p) ↔ q ∈ s.storage.filter (· != p)
    rw [memf, memf, h.keys.srcEq q]
  · exact List.Nodup.sublist List.filter_sublist h.keys.opNodup
  · intro q hq
    have hq' : q ∈ s.opKeys.filter (· != p) := hq
    show q ∈ s.storage.filter (· != p)
    rw [memf] at hq' ⊢
    exact ⟨h.keys.opSub q hq'.1, hq'.2⟩
  · intro q hq
    have hq' : q ∈ s.opKeys.filter (· != p) := hq
    rw [memf] at hq'
    obtain ⟨a, b, h1, h2, h3, h4⟩ := h.parents.opParents q hq'.1
    have hap : a ≠ p := fun e => hnp q (by rw [h1, e]; simp)
    have hbp : b ≠ p := fun e => hnp q (by rw [h1, e]; simp)
    refine ⟨a, b, ?_, h2, ?_, ?_⟩
    · show (s.graph.erase p).parentsOf q = [a, b]
      rw [hother q hq'.2]; exact h1
    · show a ∈ s.storage.filter (· != p)
      rw [memf]; exact ⟨h3, hap⟩
    · show b ∈ s.storage.filter (· != p)
      rw [memf]; exact ⟨h4, hbp⟩
  · intro q hq
    show (s.graph.erase p).parentsOf q = []
    by_cases hqp : q = p
    · rw [hqp]; exact hself
    · rw [hother q hqp]
      apply h.parents.baseNoParents
      intro hqo
      apply hq
      show q ∈ s.opKeys.filter (· != p)
      rw [memf]; exact ⟨hqo, hqp⟩
  · obtain ⟨rank, hr⟩ := h.parents.acyclic
    refine ⟨rank, ?_⟩
    intro c q hcq
    have hcq' : q ∈ (s.graph.erase p).parentsOf c := hcq
    by_cases hcp : c = p
    · rw [hcp, hself] at hcq'; cases hcq'
    · rw [hother c hcp] at hcq'; exact hr c q hcq'

/-! ## loading a document -/

private theorem isPerm_perm {α} [BEq α] [LawfulBEq α] : ∀ (l m : List α), isPerm l m = true → l.Perm m
  | [], m, h => by
    simp only [isPerm, List.isEmpty_iff] at h
    subst h; exact List.Perm.refl _
  | a :: l, m, h => by
    simp only [isPerm, Bool.and_eq_true, List.contains_iff_mem] at h
    exact ((List.perm_cons_erase h.1).trans (List.Perm.cons a (isPerm_perm l (m.erase a) h.2).symm)).symm

private theorem keysInv_loadPict {s s' : Struct} (h : KeysInv s) {uid x : Pid} {pos : Pos} {isOp : Bool}
    (hl : s.loadPict uid pos isOp uid = some (s', x)) :
    KeysInv s' ∧ s'.graph = s.graph ∧ (∀ q, q ∈ s'.storage ↔ q = uid ∨ q ∈ s.storage) ∧
    (∀ q, q ∈ s'.opKeys ↔ (q = uid ∧ isOp = true) ∨ q ∈ s.opKeys) := by
  unfold Struct.loadPict at hl
  dsimp only at hl
  split at hl
  · cases hl
  · rename_i pos' hpos'
    have hfree : pos' ∉ s.grid.map (·.1) := by
      split at hpos'
      · exact Grid.closestFreePos_free hpos'
      · rename_i hc
        injection hpos' with hpos'; subst hpos'
        intro hm
        exact hc (Grid.cell_isSome_iff.2 hm)
    split at hl
    · simp at hl
    · rename_i hid
      injection hl with hl
      have hs' : s' = s.insertInternal uid pos' isOp := (congrArg Prod.fst hl).symm
      subst hs'
      have hp : uid ∉ s.ids := by simpa using hid
      have hps : uid ∉ s.storage := fun hm => hp ((h.idsEq uid).2 hm)
      have hpo : uid ∉ s.opKeys := fun hm => hps (h.opSub uid hm)
      refine ⟨keysInv_insertInternal h s.graph h.graphWf (fun q hq => Or.inl (h.itemsSub q hq)) hp hfree, rfl, ?_, ?_⟩
      · intro q
        simp [Struct.insertInternal, hps]
      · intro q
        cases isOp
        · simp [Struct.insertInternal]
        · simp only [Struct.insertInternal, if_true, List.mem_cons, List.mem_filter, bne_iff_ne, ne_eq, and_true]
          constructor
          · rintro (h1 | h1)
            · exact Or.inl h1
            · exact Or.inr h1.1
          · rintro (h1 | h1)
            · exact Or.inl h1
            · exact Or.inr ⟨h1, fun e => hpo (e ▸ h1)⟩

private theorem keysInv_loadPicts : ∀ (doc : List DocItem) (s s' : Struct), KeysInv s → loadPicts doc s = some s' →
    KeysInv s' ∧ s'.graph = s.graph ∧ (∀ q, q ∈ s'.storage ↔ q ∈ s.storage ∨ q ∈ doc.map (·.uid)) ∧
    (∀ q, q ∈ s'.opKeys ↔ q ∈ s.opKeys ∨ ∃ it ∈ doc, it.uid = q ∧ it.op.isSome = true)
  | [], s, s', h, hl => by
    simp only [loadPicts] at hl; injection hl with hl; subst hl
    exact ⟨h, rfl, by simp, by simp⟩
  | it :: doc, s, s', h, hl => by
    simp only [loadPicts] at hl
    cases hlp : s.loadPict it.uid it.pos it.op.isSome it.uid with
    | none => rw [hlp] at hl; cases hl
    | some r =>
      rw [hlp] at hl
      simp only [Option.bind_some] at hl
      obtain ⟨k1, g1, m1, o1⟩ := keysInv_loadPict h (s' := r.1) (x := r.2) hlp
      obtain ⟨k2, g2, m2, o2⟩ := keysInv_loadPicts doc r.1 s' k1 hl
      refine ⟨k2, g2.trans g1, ?_, ?_⟩
      · intro q
        rw [m2 q, m1 q]
        simp only [List.map_cons, List.mem_cons]
        constructor
        · rintro ((h1 | h1) | h1)
          · exact Or.inr (Or.inl h1)
          · exact Or.inl h1
          · exact Or.inr (Or.inr h1)
        · rintro (h1 | h1 | h1)
          · exact Or.inl (Or.inr h1)
          · exact Or.inl (Or.inl h1)
          · exact Or.inr h1
      · intro q
        rw [o2 q, o1 q]
        constructor
        · rintro ((⟨h1, h2⟩ | h1) | ⟨x, hx, h1⟩)
          · exact Or.inr ⟨it, List.mem_cons_self, h1.symm, h2⟩
          · exact Or.inl h1
          · exact Or.inr ⟨x, List.mem_cons_of_mem _ hx, h1⟩
        · rintro (h1 | ⟨x, hx, h1⟩)
          · exact Or.inl (Or.inr h1)
          · rcases List.mem_cons.1 hx with rfl | hx
            · exact Or.inl (Or.inl ⟨h1.1.symm, h1.2⟩)
            · exact Or.inr ⟨x, hx, h1⟩

private theorem foldl_loadParent (edges : List (Pid × Pid)) : ∀ (s : Struct),
    edges.foldl (fun s e => (s.loadParent e.1 e.2).1) s = { s with graph := s.graph.loadParents edges } := by
  induction edges with
  | nil => intro s; rfl
  | cons e edges ih =>
    intro s
    simp only [List.foldl_cons]
    rw [ih]
    rfl

private theorem keysInv_empty : KeysInv {} := by
  constructor <;> first
    | exact List.nodup_nil
    | (intro p; simp)
    | exact ⟨List.nodup_nil, rfl, by intro l hl; cases hl⟩
    | exact ⟨List.nodup_nil, List.nodup_nil⟩
    | (intro p hp; cases hp)

private theorem perm_pair {l : List Pid} {a b : Pid} (h : l.Perm [a, b]) (hab : a ≠ b) :
    ∃ x y, l = [x, y] ∧ x ≠ y ∧ (x = a ∨ x = b) ∧ (y = a ∨ y = b) := by
  have hlen := h.length_eq
  match l, hlen with
  | [x, y], _ =>
    have hnd : [x, y].Nodup := h.nodup_iff.2 (by simp [hab])
    have hx : x ∈ [a, b] := h.mem_iff.1 (by simp)
    have hy : y ∈ [a, b] := h.mem_iff.1 (by simp)
    simp only [List.mem_cons, List.not_mem_nil, or_false] at hx hy
    refine ⟨x, y, rfl, ?_, hx, hy⟩
    simp only [List.nodup_cons, List.mem_cons, List.not_mem_nil, or_false, not_false_eq_true, List.nodup_nil,
      and_true] at hnd
    exact hnd

/-- loading a rearranged saved document of a well-formed schema gives a well-formed schema -/
private theorem structInv_reload {s s' : Struct} (h : StructInv s) {items : List Pid} {edges : List (Pid × Pid)}
    {doc : List DocItem} (hitems : items.Perm s.storage) (hedges : edges.Perm s.graph.edgeList)
    (hdocU : doc.map (·.uid) = items) (hdocO : ∀ it ∈ doc, it.op.isSome = s.isOperable it.uid)
    (hl : loadPicts doc {} = some s') :
    StructInv { s' with graph := s'.graph.loadParents edges } := by
  have w := h.keys.graphWf
  obtain ⟨k, hg, hm, ho⟩ := keysInv_loadPicts doc {} s' keysInv_empty hl
  have hst : ∀ q, q ∈ s'.storage ↔ q ∈ s.storage := by
    intro q; rw [hm q, hdocU, hitems.mem_iff]; simp
  have hop : ∀ q, q ∈ s'.opKeys ↔ q ∈ s.opKeys := by
    intro q
    rw [ho q]
    constructor
    · rintro (h1 | ⟨it, hit, rfl, h2⟩)
      · cases h1
      · rw [hdocO it hit] at h2
        simpa [Struct.isOperable] using h2
    · intro hq
      have hqs : q ∈ doc.map (·.uid) := by rw [hdocU, hitems.mem_iff]; exact h.keys.opSub q hq
      obtain ⟨it, hit, rfl⟩ := List.mem_map.1 hqs
      exact Or.inr ⟨it, hit, rfl, by rw [hdocO it hit]; simpa [Struct.isOperable] using hq⟩
  -- the connections of the document
  have hfib : ∀ q, (edges.filter (·.1 == q)).map (·.2) |>.Perm (s.graph.parentsOf q) := by
    intro q
    rw [← Graph.edgeList_fibre s.graph w q]
    exact (hedges.filter _).map _
  have hmemE : ∀ c p, (c, p) ∈ edges ↔ p ∈ s.graph.parentsOf c := by
    intro c p; rw [hedges.mem_iff, Graph.mem_edgeList w]
  obtain ⟨rank, hr⟩ := h.parents.acyclic
  have parNodup : ∀ q, (s.graph.parentsOf q).Nodup := by
    intro q
    by_cases hq : q ∈ s.opKeys
    · obtain ⟨a, b, h1, h2, _, _⟩ := h.parents.opParents q hq
      rw [h1]; simp [h2]
    · rw [h.parents.baseNoParents q hq]; exact List.nodup_nil
  have hnd : ([] ++ edges).Nodup := by
    rw [List.nil_append]
    apply nodup_of_fibres
    intro c
    exact (hfib c).nodup_iff.2 (parNodup c)
  have hne : ∀ e ∈ [] ++ edges, e.1 ≠ e.2 := by
    intro e he heq
    rw [List.nil_append] at he
    have : e.2 ∈ s.graph.parentsOf e.1 := (hmemE e.1 e.2).1 he
    have := hr _ _ this
    rw [heq] at this; exact Nat.lt_irrefl _ this
  have hrev : ∀ e ∈ [] ++ edges, (e.2, e.1) ∉ [] ++ edges := by
    intro e he he2
    rw [List.nil_append] at he he2
    have h1 := hr _ _ ((hmemE e.1 e.2).1 he)
    have h2 := hr _ _ ((hmemE e.2 e.1).1 he2)
    omega
  have hg0 : s'.graph = {} := hg
  obtain ⟨wg, hpar, hitm⟩ := Graph.loadParents_spec edges [] s'.graph k.graphWf
    (by intro q; rw [hg0]; simp [Graph.parentsOf, Graph.findItemIndex]) hnd hne hrev
  simp only [List.nil_append] at hpar
  have hparPerm : ∀ q, ((s'.graph.loadParents edges).parentsOf q).Perm (s.graph.parentsOf q) := by
    intro q; rw [hpar q]; exact hfib q
  refine ⟨{ k with graphWf := wg, itemsSub := ?_ }, ?_, ?_, ?_⟩
  · intro q hq
    have := (hitm q).1 hq
    rw [hg0] at this
    rcases this with h1 | ⟨e, he, h1⟩
    · cases h1
    · have hpe : e.2 ∈ s.graph.parentsOf e.1 := (hmemE e.1 e.2).1 he
      rw [hst]
      rcases h1 with rfl | rfl
      · obtain ⟨i, _, hi, _, _⟩ := (Graph.mem_parentsOf w).1 hpe
        exact h.keys.itemsSub _ (List.mem_of_getElem? hi)
      · exact h.keys.itemsSub _ (parentsOf_mem_items w hpe)
  · intro q hq
    have hq' : q ∈ s.opKeys := (hop q).1 hq
    obtain ⟨a, b, h1, h2, h3, h4⟩ := h.parents.opParents q hq'
    have hp := hparPerm q
    rw [h1] at hp
    obtain ⟨x, y, e1, e2, hx, hy⟩ := perm_pair hp h2
    refine ⟨x, y, e1, e2, ?_, ?_⟩
    · show x ∈ s'.storage
      rw [hst]; rcases hx with rfl | rfl <;> assumption
    · show y ∈ s'.storage
      rw [hst]; rcases hy with rfl | rfl <;> assumption
  · intro q hq
    have hq' : q ∉ s.opKeys := fun e => hq ((hop q).2 e)
    have hp := hparPerm q
    rw [h.parents.baseNoParents q hq'] at hp
    exact List.perm_nil.1 hp |> fun e => e
  · refine ⟨rank, ?_⟩
    intro c p hcp
    exact hr c p ((hparPerm c).mem_iff.1 hcp)

private theorem docItem_spec {st : St} {p : Pid} {it : DocItem} (h : st.docItem p = some it) :
    it.uid = p ∧ it.op.isSome = st.s.isOperable p := by
  unfold St.docItem at h
  split at h
  · cases h
  · injection h with h; subst h
    constructor
    · rfl
    · dsimp only; split <;> simp_all

private theorem filterMap_docItem (st : St) : ∀ (items : List Pid), items.all (fun p => (st.docItem p).isSome) = true →
    (items.filterMap st.docItem).map (·.uid) = items ∧
    ∀ it ∈ items.filterMap st.docItem, it.op.isSome = st.s.isOperable it.uid
  | [], _ => ⟨rfl, fun _ h => by cases h⟩
  | p :: items, h => by
    simp only [List.all_cons, Bool.and_eq_true] at h
    obtain ⟨ih1, ih2⟩ := filterMap_docItem st items h.2
    cases hd : st.docItem p with
    | none => rw [hd] at h; simp at h
    | some it =>
      obtain ⟨e1, e2⟩ := docItem_spec hd
      simp only [List.filterMap_cons, hd, List.map_cons, ih1, e1, List.mem_cons, true_and]
      intro x hx
      rcases hx with rfl | hx
      · rw [e2, e1]
      · exact ih2 x hx

/-- every step of the model preserves the structural invariant -/
theorem structInv_step (v : Variant) (o : Oracle) (st st' : St) (op : Op) (b : Bool)
    (h : StructInv st.s) (hs : step v o st op = some (st', b)) : StructInv st'.s := by
  cases op with
  | insertBase fresh =>
    simp only [step, Option.map_eq_some_iff] at hs
    obtain ⟨s', hs', he⟩ := hs
    injection he with he; subst he
    exact structInv_insertBase h hs'
  | insertOperation a b' fresh =>
    simp only [step, Option.map_eq_some_iff] at hs
    obtain ⟨r, hr, he⟩ := hs
    cases r with
    | none => simp only at he; injection he with he; subst he; exact h
    | some s' =>
      simp only at he; injection he with he; subst he
      exact structInv_insertOperation h hr
  | erase p =>
    simp only [step] at hs
    split at hs
    · injection hs with hs; injection hs with hs; subst hs; exact h
    · rename_i he
      injection hs with hs; injection hs with hs; subst hs
      exact structInv_erase h (by simpa using he)
  | newSource n c =>
    simp only [step] at hs
    split at hs
    · cases hs
    · injection hs with hs; injection hs with hs; subst hs; exact h
  | connect p n => simp only [step] at hs; injection hs with hs; injection hs with hs; subst hs; exact h
  | edit n c => simp only [step] at hs; injection hs with hs; injection hs with hs; subst hs; exact h
  | announce n => simp only [step] at hs; injection hs with hs; injection hs with hs; subst hs; exact h
  | close n => simp only [step] at hs; injection hs with hs; injection hs with hs; subst hs; exact h
  | openSrc n => simp only [step] at hs; injection hs with hs; injection hs with hs; subst hs; exact h
  | destroy n => simp only [step] at hs; injection hs with hs; injection hs with hs; subst hs; exact h
  | initFor p t opts same => simp only [step] at hs; injection hs with hs; injection hs with hs; subst hs; exact h
  | execute p a => simp only [step] at hs; injection hs with hs; injection hs with hs; subst hs; exact h
  | executeAll => simp only [step] at hs; injection hs with hs; injection hs with hs; subst hs; exact h
  | reload items edges =>
    simp only [step] at hs
    split at hs
    · cases hs
    · rename_i hperm
      split at hs
      · cases hs
      · rename_i hall
        simp only [Bool.or_eq_true, Bool.not_eq_true', not_or, Bool.not_eq_false] at hperm
        simp only [Bool.not_eq_true', Bool.not_eq_false] at hall
        simp only [Option.map_eq_some_iff] at hs
        obtain ⟨st2, hl, he⟩ := hs
        injection he with he; subst he
        simp only [loadDoc, Option.map_eq_some_iff] at hl
        obtain ⟨sA, hA, he⟩ := hl
        subst he
        obtain ⟨hu, ho⟩ := filterMap_docItem
          { s := st.s, d := List.foldl (fun d p => updateSync st.s o (fuelOf d) d p) st.d st.s.storage } items hall
        show StructInv (edges.foldl (fun s e => (s.loadParent e.1 e.2).1) sA)
        rw [foldl_loadParent]
        exact structInv_reload h (isPerm_perm _ _ hperm.1) (isPerm_perm _ _ hperm.2) hu ho hA

theorem structInv_init : StructInv ({} : St).s := by
  have hpar : ∀ q, ({} : Graph).parentsOf q = [] := by intro q; simp [Graph.parentsOf, Graph.findItemIndex]
  refine ⟨keysInv_empty, ?_, ?_, ?_⟩
  · intro p hp; cases hp
  · intro p _; exact hpar p
  · refine ⟨fun _ => 0, ?_⟩
    intro c p hp
    have : p ∈ ({} : Graph).parentsOf c := hp
    rw [hpar c] at this; cases this

/-- the structural invariant holds after every history -/
theorem structInv_history : structInv_history_statement := by
  intro v o ops
  induction ops with
  | nil => intro st h; simp only [run] at h; injection h with h; subst h; exact structInv_init
  | cons op ops ih =>
    intro st h
    simp only [run, Option.bind_eq_some_iff, Option.map_eq_some_iff] at h
    obtain ⟨st0, h0, ⟨r, hr, he⟩⟩ := h
    subst he
    exact structInv_step v o st0 r.1 op r.2 (ih st0 h0) hr

/-! ## only leaves can be erased -/

private theorem erasable_iff {s : Struct} (h : StructInv s) (p : Pid) :
    s.erasable p = true ↔ p ∈ s.storage ∧ ∀ c ∈ s.storage, p ∉ s.graph.parentsOf c := by
  simp only [Struct.erasable, Struct.contains, Bool.and_eq_true, List.contains_iff_mem, List.isEmpty_iff]
  constructor
  · rintro ⟨hp, hleaf⟩
    exact ⟨hp, fun c _ => not_parent_of_leaf h hleaf c⟩
  · rintro ⟨hp, hno⟩
    refine ⟨hp, ?_⟩
    apply List.eq_nil_iff_forall_not_mem.2
    intro c hc
    obtain ⟨_, hpc⟩ := (Graph.mem_childrenOf h.keys.graphWf).1 hc
    obtain ⟨i, _, hi, _, _⟩ := (Graph.mem_parentsOf h.keys.graphWf).1 hpc
    exact hno c (h.keys.itemsSub c (List.mem_of_getElem? hi)) hpc

theorem erase_only_leaves : erase_only_leaves_statement := by
  intro v o st st' p b h hs
  simp only [step] at hs
  split at hs
  · rename_i he
    injection hs with hs; injection hs with h1 h2; subst h1; subst h2
    have he' : st.s.erasable p = false := by simpa using he
    refine ⟨?_, fun _ => rfl, (fun hb => by cases hb)⟩
    constructor
    · intro hb; cases hb
    · intro hc
      rw [(erasable_iff h p).2 hc] at he'; cases he'
  · rename_i he
    injection hs with hs; injection hs with h1 h2; subst h1; subst h2
    have he' : st.s.erasable p = true := by simpa using he
    refine ⟨⟨fun _ => (erasable_iff h p).1 he', fun _ => rfl⟩, (fun hb => by cases hb), fun _ => ?_⟩
    show p ∉ st.s.storage.filter (· != p)
    simp [List.mem_filter]

/-! ## no unchecked access, no cycle -/

/-- every index stored in the adjacency rows is in range (`items.at(index)` never throws) and
`Index2PIDs` drops nothing -/
theorem index_in_range {s : Struct} (h : StructInv s) :
    (∀ i j, j ∈ s.graph.row i → j < s.graph.items.length) ∧
    (∀ i, (s.graph.index2PIDs (s.graph.row i)).length = (s.graph.row i).length) :=
  ⟨fun _ _ hj => h.keys.graphWf.row_lt hj,
   fun _ => Graph.index2PIDs_length (fun _ hj => h.keys.graphWf.row_lt hj)⟩

/-- the rank of `StructInv` excludes cycles in the mathematical sense -/
theorem acyclic_no_cycle {s : Struct} (h : StructInv s) (x : Pid) : ¬ Ancestor s x x := by
  obtain ⟨rank, hr⟩ := h.parents.acyclic
  have key : ∀ a b, Ancestor s a b → rank b < rank a := by
    intro a b hab
    induction hab with
    | parent hp => exact hr _ _ hp
    | step hp _ ih => exact Nat.lt_trans ih (hr _ _ hp)
  intro hx
  exact Nat.lt_irrefl _ (key x x hx)

/-- `ChildrenOf` is the converse of `ParentsOf` (graph-facet indices consistent) -/
theorem children_parents {s : Struct} (h : StructInv s) (c p : Pid) :
    c ∈ s.graph.childrenOf p ↔ c ≠ p ∧ p ∈ s.graph.parentsOf c :=
  Graph.mem_childrenOf h.keys.graphWf

/-! ## freshness -/

/-- full statement for a code variant: after every history, every operation with a stored result
that reports `done` was built from the announced content of both parents (`St.fresh`, ghost
fields `built` / `announced`) -/
def no_stale_done_statement (v : Variant) : Prop :=
  ∀ (o : Oracle) (ops : List Op) (st : St), runHist v o ops = some st → st.fresh = true

/-- after a successful `Execute` the stored content is the synthesis of the parents' current
contents (aggregated with the previous result, if any) -/
def exec_result_statement : Prop :=
  ∀ (v : Variant) (o : Oracle) (st st' : St) (p : Pid) (a : Bool), StructInv st.s → st.d.fault = none →
    step v o st (.execute p a) = some (st', true) → st'.d.fault = none →
    ∃ p1 p2 c1 c2 old n,
      st.s.graph.parentsOf p = [p1, p2] ∧
      ((st'.d.handle p1).src.bind st'.d.source).map (·.content) = some c1 ∧
      ((st'.d.handle p2).src.bind st'.d.source).map (·.content) = some c2 ∧
      (st'.d.handle p).src = some n ∧ (st'.d.source n).map (·.content) = some (o.synth p c1 c2 old) ∧
      statusOf st'.s st'.d p = .done

/-- the oracle of the closed examples: every synthesis is correct, contents are told apart -/
def exampleOracle : Oracle :=
  { check := fun _ => true, synth := fun p c1 c2 _ => 1000 + 100 * p + 10 * c1 + c2, aggOk := fun _ => true,
    execCheck := fun _ => true }

/-- bases 1, 2, 3 with documents 1, 2, 3; `4 = 1 + 2`, `5 = 4 + 3`, both merged and executed -/
def chain : List Op :=
  [.insertBase 1, .newSource 1 1, .connect 1 1,
   .insertBase 2, .newSource 2 1, .connect 2 2,
   .insertBase 3, .newSource 3 1, .connect 3 3,
   .insertOperation 1 2 4, .initFor 4 .merge .none false,
   .insertOperation 4 3 5, .initFor 5 .merge .none false,
   .execute 4 false, .execute 5 false]

/-- K1: operand 1 changes, the change is announced (4 becomes outdated: correct), 4 is re-executed:
its child 5 still reports `done` although it was built from the previous result of 4 -/
def histExec : List Op := chain ++ [.edit 1 2, .announce 1, .execute 4 false]
/-- K2: operand 3 has a pending change; re-executing 4 announces it while the schema does not
listen (the guard of `SaveOperationResult`): 5 still reports `done` -/
def histLost : List Op := chain ++ [.edit 3 2, .execute 4 false]
/-- K3: operation 4 is redefined, its result is discarded: 5 still reports `done` -/
def histGone : List Op := chain ++ [.initFor 4 .synt .empty false]

theorem no_stale_done_counterexample_exec :
    (runHist Variant.pinned exampleOracle histExec).map (fun st => (st.fresh, statusOf st.s st.d 5)) = some (false, .done) := by
  decide +kernel

theorem no_stale_done_counterexample_lost :
    (runHist Variant.pinned exampleOracle histLost).map (fun st => (st.fresh, statusOf st.s st.d 5)) = some (false, .done) := by
  decide +kernel

theorem no_stale_done_counterexample_gone :
    (runHist Variant.pinned exampleOracle histGone).map (fun st => (st.fresh, statusOf st.s st.d 5)) = some (false, .done) := by
  decide +kernel

/-- hence the full statement fails for the code as pinned -/
theorem no_stale_done_pinned_false : ¬ no_stale_done_statement Variant.pinned := by
  intro h
  have h1 : (runHist Variant.pinned exampleOracle histExec).map (·.fresh) = some false := by decide +kernel
  cases hr : runHist Variant.pinned exampleOracle histExec with
  | none => rw [hr] at h1; cases h1
  | some st =>
    rw [hr] at h1
    have := h exampleOracle histExec st hr
    simp only [Option.map_some, Option.some.injEq] at h1
    rw [h1] at this; cases this

/-- the repaired variant on the same histories: the child reports `outdated` / `broken` -/
theorem no_stale_done_repaired_examples :
    (runHist Variant.repaired exampleOracle histExec).map (fun st => (st.fresh, statusOf st.s st.d 5)) = some (true, .outdated) ∧
    (runHist Variant.repaired exampleOracle histLost).map (fun st => (st.fresh, statusOf st.s st.d 5)) = some (true, .outdated) ∧
    (runHist Variant.repaired exampleOracle histGone).map (fun st => (st.fresh, statusOf st.s st.d 5)) = some (true, .broken) := by
  decide +kernel

/-- the fourth pinned defect: `Execute` of an operation whose pictogram got a document attached by
hand dereferences the null `translations` (model: `fault`); repaired: the call is refused -/
theorem execute_null_translations_counterexample :
    (runHist Variant.pinned exampleOracle
      (chain ++ [.initFor 5 .synt .empty false, .newSource 9 1, .connect 5 9, .execute 5 false])).map (·.d.fault)
      = some (some "*translations") ∧
    (runHist Variant.repaired exampleOracle
      (chain ++ [.initFor 5 .synt .empty false, .newSource 9 1, .connect 5 9, .execute 5 false])).map (·.d.fault)
      = some none := by
  decide +kernel

/-! ## the mechanism that is sound in every variant -/

/-- An announced change that the schema hears and that alters the formal content of the source of
pictogram `p` leaves no (operable) child of `p` reporting `done` — in every code variant. The
pinned defects are all on paths where the announcement is *not* heard (`dnd > 0`) or nothing is
announced (`Discard`). -/
theorem heard_change_not_done (s : Struct) (o : Oracle) (f : Nat) (d : Dyn) (n : SrcName) (src : Source) (p : Pid)
    (hsrc : d.source n = some src) (hpending : src.saved = false) (hopen : src.opened = true)
    (hlisten : d.dnd = 0) (hp : src2pid s d n = some p) (hchange : (d.handle p).coreHash ≠ src.content) :
    ∀ c ∈ s.graph.childrenOf p, s.isOperable c = true → statusOf s (announce s o (f + 3) d n) c ≠ .done := by
  intro c hc hop
  apply statusOf_ne_done_of_outdated
  have hn := Dyn.source_name hsrc
  have hpsrc : (d.handle p).src = some n := by
    have := List.find?_some hp
    simpa using this
  have h2p : ∀ x : Source, src2pid s (d.setSource x) n = some p := fun _ => hp
  have hcont : ∀ a b c, ((d.setSource (⟨src.name, src.content, a, b, c⟩ : Source)).source n).map (·.content)
      = some src.content := by
    intro a b c
    rw [Dyn.source_setSource]
    simp only [hn, if_true, hsrc, Option.map_some]
  simp only [announce, hsrc, hpending, hopen, Bool.false_or, Bool.not_true, Bool.false_eq_true, if_false,
    Dyn.dnd_setSource, hlisten, Nat.lt_irrefl, h2p, syncPict, Dyn.handle_setSource, hpsrc, hcont]
  have hb : ((d.handle p).coreHash != src.content) = true := by simpa using hchange
  simp only [Option.getD_some, Dyn.dnd_setHandle, Dyn.dnd_setSource, hlisten, beq_self_eq_true, hb, Bool.and_self,
    if_true, Dyn.op_setHandle]
  exact coreChange_marks s o f _ p c hc hop

/-! ## the result of an execution -/

/-- After a successful `Execute(p)` the source of `p` holds the synthesis of the operand contents
`c1`, `c2` that `CallFor` read in this very call (recorded in the ghost `built`), aggregated with
the previous result `old` (`none` if there was none or it was discarded). -/
theorem exec_result_partial (s : Struct) (v : Variant) (o : Oracle) (f : Nat) (d d' : Dyn) (p : Pid) (a : Bool)
    (h : execute s v o f d p a = (d', true)) (hok : d'.fault = none) :
    ∃ c1 c2 old n, (d'.op p).built = some (some c1, some c2) ∧ (d'.handle p).src = some n ∧
      (d'.source n).map (·.content) = some (o.synth p c1 c2 old) := by
  have fin : ∀ (dx : Dyn) (c1 c2 : Content) (old : Option Content),
      saveResult s v o dx p (o.synth p c1 c2 old) (some c1, some c2) = (d', true) →
      ∃ c1 c2 old n, (d'.op p).built = some (some c1, some c2) ∧ (d'.handle p).src = some n ∧
        (d'.source n).map (·.content) = some (o.synth p c1 c2 old) := by
    intro dx c1 c2 old hs
    have h1 : (saveResult s v o dx p (o.synth p c1 c2 old) (some c1, some c2)).1 = d' := by rw [hs]
    obtain ⟨n, e1, e2, e3⟩ := saveResult_spec s v o dx p (o.synth p c1 c2 old) (some c1, some c2) (by rw [h1]; exact hok)
    rw [h1] at e1 e2 e3
    exact ⟨c1, c2, old, n, e3, e1, e2⟩
  have run : ∀ dx, runOperation s v o dx p a = (d', true) →
      ∃ c1 c2 old n, (d'.op p).built = some (some c1, some c2) ∧ (d'.handle p).src = some n ∧
        (d'.source n).map (·.content) = some (o.synth p c1 c2 old) := by
    intro dx hr
    unfold runOperation at hr
    dsimp only at hr
    repeat' (split at hr)
    all_goals first
      | exact fin _ _ _ _ hr
      | (simp at hr)
  cases f with
  | zero => rw [execute] at h; simp at h
  | succ f =>
    rw [execute] at h
    split at h
    · simp at h
    · unfold finishExecute at h
      dsimp only at h
      split at h
      · simp at h
      · split at h
        · simp at h
        · exact run _ h

/-- what `CallFor` reads for an operand (`DataFor`): the content of the source the operand's handle
points to afterwards — so the `c1`, `c2` of `exec_result_partial` are the operands' contents at the time of
the call, reopened documents included -/
theorem dataFor_reads (s : Struct) (o : Oracle) (f : Nat) (d : Dyn) (q : Pid) (c : Content)
    (h : (dataFor s o f d q).2 = some c) :
    ∃ n, ((dataFor s o f d q).1.handle q).src = some n ∧
      ((dataFor s o f d q).1.source n).map (·.content) = some c := by
  cases f with
  | zero => simp [dataFor] at h
  | succ f =>
    simp only [dataFor] at h ⊢
    split at h
    · simp at h
    · rename_i hcont
      split at h
      · simp at h
      · rename_i hempty
        cases hsrc : (d.handle q).src with
        | some n =>
          simp only [hsrc] at h
          simp only [hcont, hempty, hsrc, Bool.false_eq_true, if_false]
          exact ⟨n, rfl, h⟩
        | none =>
          simp only [hsrc] at h
          simp only [hcont, hempty, Bool.false_eq_true, if_false]
          cases hb : (d.handle q).desc.bind d.source with
          | none => rw [hb] at h; simp at h
          | some src =>
            rw [hb] at h
            simp only [Option.some.injEq] at h
            obtain ⟨m, _, hm⟩ := Option.bind_eq_some_iff.1 hb
            have hn := Dyn.source_name hm
            have fr := (reactions_frame s o f).2.1
              ((d.setSource { src with opened := true, announced := src.content }).setHandle q
                { (d.setSource { src with opened := true, announced := src.content }).handle q with src := some src.name }) q
            refine ⟨src.name, ?_, ?_⟩
            · apply fr.src; simp
            · rw [fr.content]
              simp only [Dyn.source_setHandle]
              rw [Dyn.source_setSource]
              simp only [if_true]
              rw [hn, hm]
              simp [h]


/-! ## freshness for the repaired code: the invariant and its preservation -/

private theorem structOk_of_inv {s : Struct} (h : StructInv s) : StructOk s := by
  obtain ⟨rank, hr⟩ := h.parents.acyclic
  refine ⟨⟨h.keys.graphWf, fun c hc => Nat.lt_irrefl _ (hr c c hc), ?_⟩, h.keys.opSub, ?_⟩
  · intro q c hc
    have hp := ((Graph.mem_childrenOf h.keys.graphWf).1 hc).2
    have : c ∈ s.opKeys := by
      apply Classical.byContradiction
      intro hn
      rw [h.parents.baseNoParents c hn] at hp; cases hp
    simpa [Struct.isOperable] using this
  · intro p hp
    obtain ⟨a, b, h1, _, h3, h4⟩ := h.parents.opParents p hp
    exact ⟨a, b, h1, h3, h4⟩

/-- which steps the freshness theorem speaks about: a document is only opened when it is closed;
new documents get names never used before (as `CreateLocalDesc` and the harness' manager do); a
document loaded back keeps, for every child, the order of its connections -/
def admissibleStep (st : St) : Op → Bool
  | .openSrc n => match st.d.source n with
    | some x => !x.opened
    | none => true
  | .newSource n _ => decide (st.d.nextName < n)
  | .reload _ edges => st.s.storage.all fun c => (edges.filter (·.1 == c)).map (·.2) == st.s.graph.parentsOf c
  | _ => true

/-- admissibility of a history (newest step first, as `run` takes it) -/
def admissibleRun (v : Variant) (o : Oracle) : List Op → Bool
  | [] => true
  | op :: ops => admissibleRun v o ops && (match run v o ops with
    | some st => admissibleStep st op
    | none => true)

/-- the invariant of the freshness theorem: in a state without a model fault, the handle invariant
and the freshness invariant hold -/
def TInv (st : St) : Prop := st.d.fault = none → DInv st.s st.d ∧ J7 st.s noEx st.d

private theorem statusOf_done {s : Struct} {d : Dyn} {p : Pid} (h : statusOf s d p = .done) : (d.op p).outdated = false := by
  unfold statusOf at h
  split at h
  · cases h
  · dsimp only at h
    split at h
    · cases h
    · split at h
      · cases h
      · split at h
        · split at h
          · cases h
          · rename_i ho; simpa using ho
        · cases h

/-- the invariants give the freshness clause -/
private theorem fresh_of_inv {st : St} (hs : StructInv st.s) (i : DInv st.s st.d) (j : J7 st.s noEx st.d) : st.fresh = true := by
  unfold St.fresh
  rw [List.all_eq_true]
  intro p hp
  unfold St.freshAt
  split
  · rfl
  · rename_i hst
    have hdone : statusOf st.s st.d p = .done := by simpa using hst
    have hout := statusOf_done hdone
    obtain ⟨p1, p2, hpar, _, hs1, hs2⟩ := hs.parents.opParents p hp
    rw [hpar]
    cases hb : (st.d.op p).built with
    | none => rfl
    | some b =>
      obtain ⟨b1, b2⟩ := b
      dsimp only
      obtain ⟨a1, a2⟩ := j p hp hout b1 b2 hb p1 p2 hpar
      have okq : ∀ q b, q ∈ st.s.storage → (b = some (st.d.handle q).coreHash ∧ (st.d.handle q).ed ≠ none) →
          (if (st.d.handle q).empty = true then false
            else match st.announcedOf q with
              | none => true
              | some c => b == some c) = true := by
        intro q b hq ⟨e1, e2⟩
        have hne : (st.d.handle q).empty = false := by
          cases hh : (st.d.handle q).empty with
          | false => rfl
          | true => exact absurd (Handle.empty_iff_ed.1 hh) e2
        rw [hne]
        simp only [Bool.false_eq_true, if_false]
        cases ha : st.announcedOf q with
        | none => rfl
        | some c =>
          dsimp only
          unfold St.announcedOf at ha
          obtain ⟨x, hx, hxc⟩ := Option.map_eq_some_iff.1 ha
          obtain ⟨n, hn, hnx⟩ := Option.bind_eq_some_iff.1 hx
          have : (st.d.handle q).coreHash = x.announced := by
            cases hsrc : (st.d.handle q).src with
            | some m =>
              have := i.c2 q hq m hsrc
              rw [hn] at this; injection this with this; subst this
              obtain ⟨y, hy, _, yh⟩ := i.h.conn q hq (by simp) n hsrc
              rw [hnx] at hy; injection hy with hy; subst hy
              exact yh
            | none => exact (i.h.detached q hq (by simp) hsrc n hn x hnx).2
          rw [e1, this, hxc]
          simp
      simp only [Bool.and_eq_true]
      exact ⟨okq p1 b1 hs1 (a1 (fun e => e)), okq p2 b2 hs2 (a2 (fun e => e))⟩

private theorem tinv_of_step {st : St} {d' : Dyn} (h : Step st.s st.d d') (t : TInv st) : TInv { st with d := d' } := by
  intro hf
  obtain ⟨i, j⟩ := t (h.fault hf)
  exact h.post i j hf

private theorem J7.setOp_noBuilt {s : Struct} {d : Dyn} (j : J7 s noEx d) (p : Pid) : J7 s noEx (d.setOp p { d.op p with built := none }) :=
  j.setOp_reset p _ rfl

/-- the graph between `graph->Erase(p)` and the erasure of the keys is still good enough for the
reactions of `Discard` -/
private theorem graphOk_eraseFacets {s : Struct} (h : StructInv s) {p : Pid} (hleaf : s.graph.childrenOf p = []) :
    GraphOk (s.eraseFacets p) := by
  obtain ⟨wg, hother, hself, _⟩ := graph_erase_leaf h hleaf
  obtain ⟨rank, hr⟩ := h.parents.acyclic
  have hpar : ∀ c q, q ∈ (s.graph.erase p).parentsOf c → c ≠ p ∧ q ∈ s.graph.parentsOf c := by
    intro c q hq
    by_cases e : c = p
    · subst e; rw [hself] at hq; cases hq
    · rw [hother c e] at hq; exact ⟨e, hq⟩
  refine ⟨wg, ?_, ?_⟩
  · intro c hc
    exact Nat.lt_irrefl _ (hr c c (hpar c c hc).2)
  · intro q c hc
    have hp := ((Graph.mem_childrenOf wg).1 hc).2
    obtain ⟨_, hp'⟩ := hpar c q hp
    have : c ∈ s.opKeys := by
      apply Classical.byContradiction
      intro hn
      rw [h.parents.baseNoParents c hn] at hp'; cases hp'
    simpa [Struct.isOperable, Struct.eraseFacets] using this

/-- what loading a rearranged document does to the keys and the parent lists -/
private theorem reload_struct_facts {s s' : Struct} (h : StructInv s) {items : List Pid} {edges : List (Pid × Pid)}
    {doc : List DocItem} (hitems : items.Perm s.storage) (hedges : edges.Perm s.graph.edgeList)
    (hdocU : doc.map (·.uid) = items) (hdocO : ∀ it ∈ doc, it.op.isSome = s.isOperable it.uid)
    (hl : loadPicts doc {} = some s')
    (hadm : ∀ c ∈ s.storage, (edges.filter (·.1 == c)).map (·.2) = s.graph.parentsOf c) :
    (∀ q, q ∈ s'.storage ↔ q ∈ s.storage) ∧ (∀ q, q ∈ s'.opKeys ↔ q ∈ s.opKeys) ∧
    (∀ q, (s'.graph.loadParents edges).parentsOf q = s.graph.parentsOf q) := by
  have w := h.keys.graphWf
  obtain ⟨k, hg, hm, ho⟩ := keysInv_loadPicts doc {} s' keysInv_empty hl
  have hst : ∀ q, q ∈ s'.storage ↔ q ∈ s.storage := by
    intro q; rw [hm q, hdocU, hitems.mem_iff]; simp
  have hop : ∀ q, q ∈ s'.opKeys ↔ q ∈ s.opKeys := by
    intro q
    rw [ho q]
    constructor
    · rintro (h1 | ⟨it, hit, rfl, h2⟩)
      · cases h1
      · rw [hdocO it hit] at h2
        simpa [Struct.isOperable] using h2
    · intro hq
      have hqs : q ∈ doc.map (·.uid) := by rw [hdocU, hitems.mem_iff]; exact h.keys.opSub q hq
      obtain ⟨it, hit, rfl⟩ := List.mem_map.1 hqs
      exact Or.inr ⟨it, hit, rfl, by rw [hdocO it hit]; simpa [Struct.isOperable] using hq⟩
  have hfib : ∀ q, (edges.filter (·.1 == q)).map (·.2) |>.Perm (s.graph.parentsOf q) := by
    intro q
    rw [← Graph.edgeList_fibre s.graph w q]
    exact (hedges.filter _).map _
  have hmemE : ∀ c p, (c, p) ∈ edges ↔ p ∈ s.graph.parentsOf c := by
    intro c p; rw [hedges.mem_iff, Graph.mem_edgeList w]
  obtain ⟨rank, hr⟩ := h.parents.acyclic
  have parNodup : ∀ q, (s.graph.parentsOf q).Nodup := by
    intro q
    by_cases hq : q ∈ s.opKeys
    · obtain ⟨a, b, h1, h2, _, _⟩ := h.parents.opParents q hq
      rw [h1]; simp [h2]
    · rw [h.parents.baseNoParents q hq]; exact List.nodup_nil
  have hnd : ([] ++ edges).Nodup := by
    rw [List.nil_append]
    apply nodup_of_fibres
    intro c
    exact (hfib c).nodup_iff.2 (parNodup c)
  have hne : ∀ e ∈ [] ++ edges, e.1 ≠ e.2 := by
    intro e he heq
    rw [List.nil_append] at he
    have : e.2 ∈ s.graph.parentsOf e.1 := (hmemE e.1 e.2).1 he
    have := hr _ _ this
    rw [heq] at this; exact Nat.lt_irrefl _ this
  have hrev : ∀ e ∈ [] ++ edges, (e.2, e.1) ∉ [] ++ edges := by
    intro e he he2
    rw [List.nil_append] at he he2
    have h1 := hr _ _ ((hmemE e.1 e.2).1 he)
    have h2 := hr _ _ ((hmemE e.2 e.1).1 he2)
    omega
  have hg0 : s'.graph = {} := hg
  obtain ⟨_, hpar, _⟩ := Graph.loadParents_spec edges [] s'.graph k.graphWf
    (by intro q; rw [hg0]; simp [Graph.parentsOf, Graph.findItemIndex]) hnd hne hrev
  simp only [List.nil_append] at hpar
  refine ⟨hst, hop, ?_⟩
  intro q
  rw [hpar q]
  by_cases hq : q ∈ s.storage
  · exact hadm q hq
  · have hqo : q ∉ s.opKeys := fun e => hq (h.keys.opSub q e)
    have := hfib q
    rw [h.parents.baseNoParents q hqo] at this ⊢
    exact List.perm_nil.1 this

/-- every admissible step of the repaired code preserves the invariant -/
private theorem tinv_step (o : Oracle) (hsyn : o.synthNonzero) (st st' : St) (op : Op) (b : Bool)
    (hs : StructInv st.s) (t : TInv st) (hadm : admissibleStep st op = true)
    (hstep : step Variant.repaired o st op = some (st', b)) : TInv st' := by
  have k := structOk_of_inv hs
  cases op with
  | insertBase fresh =>
    simp only [step, Option.map_eq_some_iff] at hstep
    obtain ⟨s', hs', he⟩ := hstep
    injection he with he; subst he
    intro hf
    obtain ⟨i, j⟩ := t hf
    unfold Struct.insertBase at hs'
    split at hs'
    · cases hs'
    · rename_i hfr
      split at hs'
      · cases hs'
      · rename_i pos _
        injection hs' with hs'; subst hs'
        have hfresh : fresh ∉ st.s.storage := fun hm => by
          have := (hs.keys.idsEq fresh).2 hm
          simp [this] at hfr
        refine insert_transfer k hfresh (fresh := fresh) (d := st.d) (s' := st.s.insertInternal fresh pos false)
          (d' := (st.d.dropPid fresh).setHandle fresh {}) ?_ ?_ ?_ ?_ (fun _ => rfl) rfl rfl ?_ ?_ i j
        · intro q hq
          simp only [Struct.insertInternal] at hq
          split at hq
          · exact Or.inr hq
          · rcases List.mem_cons.1 hq with e | e
            · exact Or.inl e
            · exact Or.inr e
        · intro c hc
          exact Or.inr (by simpa [Struct.insertInternal] using hc)
        · intro c _; rfl
        · intro q
          show ((st.d.dropPid fresh).setHandle fresh {}).handle q = _
          rw [Dyn.handle_setHandle, Dyn.handle_dropPid]
          split <;> rfl
        · intro c hc
          show ((st.d.dropPid fresh).setHandle fresh {}).op c = _
          rw [Dyn.op_setHandle, Dyn.op_dropPid, if_neg hc]
        · show (((st.d.dropPid fresh).setHandle fresh {}).op fresh).built = none
          rw [Dyn.op_setHandle, Dyn.op_dropPid, if_pos rfl]
  | insertOperation a b' fresh =>
    simp only [step, Option.map_eq_some_iff] at hstep
    obtain ⟨r, hr, he⟩ := hstep
    cases r with
    | none => simp only at he; injection he with he; subst he; exact t
    | some s' =>
      simp only at he; injection he with he; subst he
      intro hf
      obtain ⟨i, j⟩ := t hf
      unfold Struct.insertOperation at hr
      split at hr
      · cases hr
      · split at hr
        · cases hr
        · split at hr
          · cases hr
          · rename_i hfr
            dsimp only at hr
            split at hr
            · cases hr
            · rename_i pos _
              injection hr with hr; injection hr with hr; subst hr
              have hfresh : fresh ∉ st.s.storage := fun hm => by
                have := (hs.keys.idsEq fresh).2 hm
                simp [this] at hfr
              obtain ⟨_, _, hother, _⟩ := Graph.addItem_spec st.s.graph hs.keys.graphWf fresh a b'
              refine insert_transfer k hfresh (fresh := fresh) (d := st.d)
                (s' := ({ st.s with graph := st.s.graph.addItem fresh [a, b'] } : Struct).insertInternal fresh pos true)
                (d' := ((st.d.dropPid fresh).setHandle fresh {}).setOp fresh {}) ?_ ?_ ?_ ?_ (fun _ => rfl) rfl rfl ?_ ?_ i j
              · intro q hq
                simp only [Struct.insertInternal] at hq
                split at hq
                · exact Or.inr hq
                · rcases List.mem_cons.1 hq with e | e
                  · exact Or.inl e
                  · exact Or.inr e
              · intro c hc
                simp only [Struct.insertInternal, if_true, List.mem_cons, List.mem_filter] at hc
                rcases hc with e | e
                · exact Or.inl e
                · exact Or.inr e.1
              · intro c hc; exact hother c hc
              · intro q
                show (((st.d.dropPid fresh).setHandle fresh {}).setOp fresh {}).handle q = _
                rw [Dyn.handle_setOp, Dyn.handle_setHandle, Dyn.handle_dropPid]
                split <;> rfl
              · intro c hc
                show (((st.d.dropPid fresh).setHandle fresh {}).setOp fresh {}).op c = _
                rw [Dyn.op_setOp, if_neg hc, Dyn.op_setHandle, Dyn.op_dropPid, if_neg hc]
              · show ((((st.d.dropPid fresh).setHandle fresh {}).setOp fresh {}).op fresh).built = none
                rw [Dyn.op_setOp, if_pos rfl]
  | erase p =>
    simp only [step] at hstep
    split at hstep
    · injection hstep with hstep; injection hstep with hstep; subst hstep; exact t
    · rename_i he
      injection hstep with hstep; injection hstep with hstep; subst hstep
      have he' : st.s.erasable p = true := by simpa using he
      simp only [Struct.erasable, Struct.contains, Bool.and_eq_true, List.isEmpty_iff] at he'
      obtain ⟨hps, hleaf⟩ := he'
      have g1 := graphOk_eraseFacets hs hleaf
      obtain ⟨_, hother, hself, _⟩ := graph_erase_leaf hs hleaf
      have hnp := not_parent_of_leaf hs hleaf
      obtain ⟨gd, _⟩ := discard_spec g1 o st.d p
      intro hf
      have hf1 : (discard (st.s.eraseFacets p) o st.d p).fault = none := hf
      obtain ⟨i, j⟩ := t (gd.fault hf1)
      obtain ⟨i1, j1⟩ := erase_transfer1 (s := st.s) (s1 := st.s.eraseFacets p) (p := p) rfl rfl hother hself i j
      obtain ⟨i2, r2⟩ := gd.post i1 hf1
      have j2 : J7 (st.s.eraseFacets p) (exOnly p) (discard (st.s.eraseFacets p) o st.d p) :=
        j1.of_jrel' g1 r2 (by intro q e; rcases e with e | e; exact e.elim; exact e)
      show DInv ((st.s.eraseFacets p).eraseKeys p) ((discard (st.s.eraseFacets p) o st.d p).dropPid p) ∧
        J7 ((st.s.eraseFacets p).eraseKeys p) noEx ((discard (st.s.eraseFacets p) o st.d p).dropPid p)
      refine erase_transfer2 (s1 := st.s.eraseFacets p) (s2 := (st.s.eraseFacets p).eraseKeys p) ?_ ?_ rfl ?_ i2 j2
      · intro q hq
        have : q ∈ st.s.storage.filter (· != p) := hq
        show q ∈ st.s.storage ∧ q ≠ p
        simpa [List.mem_filter] using this
      · intro c hc
        have : c ∈ st.s.opKeys.filter (· != p) := hc
        show c ∈ st.s.opKeys ∧ c ≠ p
        simpa [List.mem_filter] using this
      · intro c hc
        by_cases e : c = p
        · rw [e] at hc
          have : p ∈ (st.s.graph.erase p).parentsOf p := hc
          rw [hself] at this; cases this
        · have : p ∈ (st.s.graph.erase p).parentsOf c := hc
          rw [hother c e] at this
          exact hnp c this
  | newSource n c =>
    simp only [step] at hstep
    split at hstep
    · cases hstep
    · injection hstep with hstep; injection hstep with hstep; subst hstep
      have hn : st.d.nextName < n := by simpa [admissibleStep] using hadm
      exact tinv_of_step ((evNewSource_good st.s st.d n c hn).step k.g) t
  | connect p n =>
    simp only [step] at hstep
    injection hstep with hstep; injection hstep with hstep; subst hstep
    have g1 := (connectPict2Src_good k.g o st.d p n).step k.g
    refine tinv_of_step ?_ t
    split
    · refine ⟨g1.fault, fun i j hf => ?_⟩
      obtain ⟨i1, j1⟩ := g1.post i j hf
      exact ⟨i1.setOp _ _, j1.setOp_noBuilt p⟩
    · exact g1
  | edit n c =>
    simp only [step] at hstep; injection hstep with hstep; injection hstep with hstep; subst hstep
    exact tinv_of_step ((evEdit_good st.s st.d n c).step k.g) t
  | announce n =>
    simp only [step] at hstep; injection hstep with hstep; injection hstep with hstep; subst hstep
    exact tinv_of_step ((announce_good k.g o _ st.d n).step k.g) t
  | close n =>
    simp only [step] at hstep; injection hstep with hstep; injection hstep with hstep; subst hstep
    exact tinv_of_step ((evClose_good st.s st.d n).step k.g) t
  | openSrc n =>
    simp only [step] at hstep; injection hstep with hstep; injection hstep with hstep; subst hstep
    refine tinv_of_step ((evOpen_good k.g o st.d n ?_).step k.g) t
    intro x hx
    simp only [admissibleStep, hx] at hadm
    simpa using hadm
  | destroy n =>
    simp only [step] at hstep; injection hstep with hstep; injection hstep with hstep; subst hstep
    exact tinv_of_step ((evDestroy_good st.s st.d n).step k.g) t
  | initFor p ty opts same =>
    simp only [step] at hstep; injection hstep with hstep; injection hstep with hstep; subst hstep
    exact tinv_of_step (initFor_step k.g o st.d p ty opts same) t
  | execute p a =>
    simp only [step] at hstep; injection hstep with hstep; injection hstep with hstep; subst hstep
    exact tinv_of_step (execute_step k o hsyn _ st.d p a) t
  | executeAll =>
    simp only [step] at hstep; injection hstep with hstep; injection hstep with hstep; subst hstep
    exact tinv_of_step (executeAll_step k o hsyn st.d) t
  | reload items edges =>
    simp only [step] at hstep
    split at hstep
    · cases hstep
    · rename_i hperm
      split at hstep
      · cases hstep
      · rename_i hall
        simp only [Bool.or_eq_true, Bool.not_eq_true', not_or, Bool.not_eq_false] at hperm
        simp only [Bool.not_eq_true', Bool.not_eq_false] at hall
        simp only [Option.map_eq_some_iff] at hstep
        obtain ⟨st2, hl, he⟩ := hstep
        injection he with he; subst he
        simp only [loadDoc, Option.map_eq_some_iff] at hl
        obtain ⟨sA, hA, he⟩ := hl
        subst he
        have hpi := isPerm_perm _ _ hperm.1
        have hpe := isPerm_perm _ _ hperm.2
        obtain ⟨gS, hRQ⟩ := saveAll_spec k.g o st.s.storage st.d (fun _ h => h)
        generalize hd1 : List.foldl (fun d p => updateSync st.s o (fuelOf d) d p) st.d st.s.storage = d1 at gS hRQ hall hA
        obtain ⟨hu, hoo⟩ := filterMap_docItem { s := st.s, d := d1 } items hall
        have hadm' : ∀ c ∈ st.s.storage, (edges.filter (·.1 == c)).map (·.2) = st.s.graph.parentsOf c := by
          intro c hc
          simp only [admissibleStep, List.all_eq_true] at hadm
          simpa using hadm c hc
        obtain ⟨hst, hops, hpar⟩ := reload_struct_facts hs hpi hpe hu hoo hA hadm'
        obtain ⟨cH, cN, cF, cD, cC⟩ := closeAll_spec st.s o d1
        have hnd : items.Nodup := hpi.nodup_iff.2 hs.keys.storageNodup
        obtain ⟨lh, lo⟩ := loadDyn_docItems { s := st.s, d := d1 } items
          ({ closeAll st.s o d1 with handles := [], ops := [], dnd := 0 } : Dyn) hnd hall
        obtain ⟨ls, ln, ld, lf, _⟩ := loadDyn_frame (items.filterMap (St.docItem { s := st.s, d := d1 }))
          ({ closeAll st.s o d1 with handles := [], ops := [], dnd := 0 } : Dyn)
        intro hf
        have hfC : (closeAll st.s o d1).fault = none := by
          have : (loadDyn ({ closeAll st.s o d1 with handles := [], ops := [], dnd := 0 } : Dyn)
            (items.filterMap (St.docItem { s := st.s, d := d1 }))).fault = none := hf
          rw [lf] at this; exact this
        have hf1 : d1.fault = none := by rw [← cF]; exact hfC
        obtain ⟨i, j⟩ := t (gS.fault hf1)
        obtain ⟨i1, j1⟩ := (gS.step k.g).post i j hf1
        show DInv (edges.foldl (fun s e => (s.loadParent e.1 e.2).1) sA) _ ∧ J7 (edges.foldl (fun s e => (s.loadParent e.1 e.2).1) sA) noEx _
        rw [foldl_loadParent]
        apply reload_transfer k (s' := { sA with graph := sA.graph.loadParents edges }) hst hops hpar i1 j1
          (hRQ i hf1) cN cD cC
        · intro q hq
          exact lh q (hpi.mem_iff.2 hq)
        · intro c hc
          exact lo c (hpi.mem_iff.2 (hs.keys.opSub c hc)) (by simpa [Struct.isOperable] using hc)
        · intro n; exact ls n
        · exact ln
        · exact ld

theorem tinv_init : TInv {} := by
  intro _
  refine ⟨⟨rfl, ⟨?_, ?_, ?_, ?_, ?_, ?_⟩, ?_⟩, ?_⟩
  · intro n x h; cases h
  · intro q hq; cases hq
  · intro q hq; cases hq
  · intro q hq; cases hq
  · intro q hq; cases hq
  · intro n x h; cases h
  · intro q hq; cases hq
  · intro p hp; cases hp

/-- the invariant holds after every admissible history of the repaired code -/
private theorem tinv_history (o : Oracle) (hsyn : o.synthNonzero) :
    ∀ (ops : List Op) (st : St), run Variant.repaired o ops = some st → admissibleRun Variant.repaired o ops = true →
      StructInv st.s ∧ TInv st := by
  intro ops
  induction ops with
  | nil =>
    intro st h _
    simp only [run] at h; injection h with h; subst h
    exact ⟨structInv_init, tinv_init⟩
  | cons op ops ih =>
    intro st h ha
    have hs := structInv_history Variant.repaired o (op :: ops) st h
    simp only [run, Option.bind_eq_some_iff, Option.map_eq_some_iff] at h
    obtain ⟨st0, h0, ⟨r, hr, he⟩⟩ := h
    subst he
    simp only [admissibleRun, Bool.and_eq_true, h0] at ha
    obtain ⟨hs0, t0⟩ := ih st0 h0 ha.1
    exact ⟨hs, tinv_step o hsyn st0 r.1 op r.2 hs0 t0 ha.2 hr⟩

/-- **no stale `done`, repaired code.** After every admissible history (`admissibleRun`: documents are
opened only when closed, new documents get fresh names, reloaded documents keep the order of each
child's connections) under an oracle whose synthesis never has the "no hash" content `0`, in a
state without a model fault (an unchecked access of the C++ or exhausted fuel — the latter is
unreachable: `fault_never_fuel`, `no_stale_done_repaired_access`), every operation
with a stored result that reports `done` was built from the announced content of both parents. -/
theorem no_stale_done_repaired (o : Oracle) (hsyn : o.synthNonzero) (ops : List Op) (st : St)
    (hrun : runHist Variant.repaired o ops = some st) (hadm : admissibleRun Variant.repaired o ops.reverse = true)
    (hf : st.d.fault = none) : st.fresh = true := by
  obtain ⟨hs, t⟩ := tinv_history o hsyn ops.reverse st hrun hadm
  obtain ⟨i, j⟩ := t hf
  exact fresh_of_inv hs i j


/-! ## the result of an execution, for reachable states -/

/-- After a successful `Execute(p)` in a state satisfying the invariants: the operands' documents
hold at the END of the call the contents `c1`, `c2` the synthesis was computed from, the document
of `p` holds the oracle's synthesis of them (aggregated with the previous result `old`), and `p`
reports `done`. -/
private theorem exec_result_of_inv (o : Oracle) (hsyn : o.synthNonzero) (st st' : St) (p : Pid) (a : Bool)
    (hs : StructInv st.s) (i : DInv st.s st.d) (j : J7 st.s noEx st.d)
    (hstep : step Variant.repaired o st (.execute p a) = some (st', true)) (hf : st'.d.fault = none) :
    ∃ p1 p2 c1 c2 old n,
      st.s.graph.parentsOf p = [p1, p2] ∧
      ((st'.d.handle p1).src.bind st'.d.source).map (·.content) = some c1 ∧
      ((st'.d.handle p2).src.bind st'.d.source).map (·.content) = some c2 ∧
      (st'.d.handle p).src = some n ∧ (st'.d.source n).map (·.content) = some (o.synth p c1 c2 old) ∧
      statusOf st'.s st'.d p = .done := by
  have k := structOk_of_inv hs
  simp only [step] at hstep
  injection hstep with hstep
  injection hstep with h1 h2
  subst h1
  rw [execute_succ] at h2 hf ⊢
  split at h2
  · cases h2
  · rename_i hop
    rw [if_neg hop] at hf ⊢
    have hop' : st.s.isOperable p = true := by simpa using hop
    have hpo : p ∈ st.s.opKeys := by simpa [Struct.isOperable] using hop'
    obtain ⟨p1, p2, hpar, hs1, hs2⟩ := k.opPar p hpo
    have hpre := prepare_step k o hsyn (st.s.storage.length + 1) (st.s.graph.parentsOf p) (st.d, true)
    generalize (st.s.graph.parentsOf p).foldl (prepStep st.s Variant.repaired o (st.s.storage.length + 1)) (st.d, true) = pre
      at hpre h2 hf ⊢
    obtain ⟨ff, fp⟩ := finishExecute_spec k o p p1 p2 a pre hpo hpar hs1 hs2
    have hfpre := ff hf
    obtain ⟨ipre, _⟩ := hpre.post i j hfpre
    obtain ⟨out, hty⟩ := fp ipre hf
    obtain ⟨c1, c2, dS, old, e, iS, y1S, y2S, ty, y1, y2⟩ := out.ok h2
    have hne : (pre.1.op p).type ≠ .tba := hty h2
    obtain ⟨d1, d2, d3, n, d4, d5⟩ := saveResult_done k.g o dS p p1 p2 (o.synth p c1 c2 old) c1 c2 (k.opSub p hpo) hpar hs1 hs2
      iS y1S y2S
    rw [← e] at d1 d2 d3 d4 d5
    generalize (finishExecute st.s Variant.repaired o p a pre).1 = dF at y1 y2 d1 d2 d3 d4 d5 hf ⊢
    refine ⟨p1, p2, c1, c2, old, n, hpar, ?_, ?_, d4, d5, ?_⟩
    · obtain ⟨m, e1, e2, _⟩ := y1
      show ((dF.handle p1).src.bind dF.source).map (·.content) = some c1
      rw [e1]; exact e2
    · obtain ⟨m, e1, e2, _⟩ := y2
      show ((dF.handle p2).src.bind dF.source).map (·.content) = some c2
      rw [e1]; exact e2
    · show statusOf st.s dF p = .done
      unfold statusOf
      have hty' : (dF.op p).type ≠ .tba := by rw [d3, ty]; exact hne
      have hemp : (dF.handle p).empty = false := Handle.not_empty_of_ed (Handle.ed_of_src d4)
      simp [hop', hty', d1, d2, hemp]

/-- **result of an execution, reachable states**: the statement of `exec_result_statement` for every
state the repaired code reaches by an admissible history (under an oracle whose synthesis never has
the "no hash" content `0`) -/
def exec_result_reachable_statement : Prop :=
  ∀ (o : Oracle) (ops : List Op) (st st' : St) (p : Pid) (a : Bool), o.synthNonzero →
    runHist Variant.repaired o ops = some st → admissibleRun Variant.repaired o ops.reverse = true →
    step Variant.repaired o st (.execute p a) = some (st', true) → st'.d.fault = none →
    ∃ p1 p2 c1 c2 old n,
      st.s.graph.parentsOf p = [p1, p2] ∧
      ((st'.d.handle p1).src.bind st'.d.source).map (·.content) = some c1 ∧
      ((st'.d.handle p2).src.bind st'.d.source).map (·.content) = some c2 ∧
      (st'.d.handle p).src = some n ∧ (st'.d.source n).map (·.content) = some (o.synth p c1 c2 old) ∧
      statusOf st'.s st'.d p = .done

theorem exec_result_reachable : exec_result_reachable_statement := by
  intro o ops st st' p a hsyn hrun hadm hstep hf
  obtain ⟨hs, t⟩ := tinv_history o hsyn ops.reverse st hrun hadm
  have hf0 : st.d.fault = none := by
    have k := structOk_of_inv hs
    simp only [step] at hstep
    injection hstep with hstep
    injection hstep with h1 _
    subst h1
    exact (execute_step k o hsyn _ st.d p a).fault hf
  obtain ⟨i, j⟩ := t hf0
  exact exec_result_of_inv o hsyn st st' p a hs i j hstep hf



/-! ## fuel sufficiency: the model's out-of-fuel outcomes are unreachable -/

/-- **(3) `ClosestFreePos` never runs out of fuel**: for every grid and every start cell the scan
finds a free cell within the `g.length + 2` iterations the model allows (no invariant needed) -/
theorem closestFree_fuel_sufficient (g : Grid) (start : Pos) : g.closestFreePos start ≠ none := by
  have := closestFreePos_isSome g start
  intro h; rw [h] at this; cases this

/-- hence `step` answers `none` for an insertion / a loaded pictogram only for an identifier that is
not fresh (`InsertOperation`: under the structural invariant, which gives both operands a cell) -/
theorem insert_none_iff (v : Variant) (o : Oracle) (st : St) :
    (∀ fresh, step v o st (.insertBase fresh) = none ↔ fresh ∈ st.s.ids) ∧
    (∀ a b fresh, StructInv st.s →
      (step v o st (.insertOperation a b fresh) = none ↔ a ≠ b ∧ a ∈ st.s.storage ∧ b ∈ st.s.storage ∧ fresh ∈ st.s.ids)) ∧
    (∀ uid pos isOp fresh, st.s.loadPict uid pos isOp fresh = none ↔ uid ∈ st.s.ids ∧ fresh ∈ st.s.ids) := by
  refine ⟨?_, ?_, ?_⟩
  · intro fresh
    simp only [step, Option.map_eq_none_iff, Struct.insertBase]
    cases hc : st.s.grid.closestFreePos with
    | none => exact absurd hc (closestFree_fuel_sufficient _ _)
    | some pos =>
      by_cases hm : fresh ∈ st.s.ids
      · simp [hm]
      · simp [hm]
  · intro a b fresh hs
    simp only [step, Option.map_eq_none_iff, Struct.insertOperation]
    by_cases hab : a = b
    · simp [hab]
    · by_cases hsa : a ∈ st.s.storage
      · by_cases hsb : b ∈ st.s.storage
        · by_cases hm : fresh ∈ st.s.ids
          · simp [hab, hsa, hsb, hm, Struct.contains]
          · have hpa : ∃ pa, st.s.grid.posOf a = some pa := by
              have := (hs.keys.gridVals a).2 hsa
              obtain ⟨x, hx, hxa⟩ := List.mem_map.1 this
              cases hf : st.s.grid.find? (·.2 == a) with
              | none => exact absurd (List.find?_eq_none.1 hf x hx) (by simp [hxa])
              | some y => exact ⟨y.1, by simp [Grid.posOf, hf]⟩
            have hpb : ∃ pb, st.s.grid.posOf b = some pb := by
              have := (hs.keys.gridVals b).2 hsb
              obtain ⟨x, hx, hxa⟩ := List.mem_map.1 this
              cases hf : st.s.grid.find? (·.2 == b) with
              | none => exact absurd (List.find?_eq_none.1 hf x hx) (by simp [hxa])
              | some y => exact ⟨y.1, by simp [Grid.posOf, hf]⟩
            obtain ⟨pa, hpa⟩ := hpa
            obtain ⟨pb, hpb⟩ := hpb
            simp only [hab, hsa, hsb, hm, Struct.contains, List.contains_iff_mem, if_false, Grid.childPosFor, hpa, hpb,
              ne_eq, not_false_eq_true, and_false, iff_false]
            cases hc : st.s.grid.closestFreePos ⟨max pa.row pb.row + 1,
                if 2 * pa.col + pa.row + 2 * pb.col + pb.row - 2 * (max pa.row pb.row + 1) ≤ 0 then 0
                else (2 * pa.col + pa.row + 2 * pb.col + pb.row - 2 * (max pa.row pb.row + 1) + 2) / 4⟩ with
            | none => exact absurd hc (closestFree_fuel_sufficient _ _)
            | some pos => simp [hab, hsa, hsb]
        · simp [hab, hsa, hsb, Struct.contains]
      · simp [hab, hsa, Struct.contains]
  · intro uid pos isOp fresh
    unfold Struct.loadPict
    have hp : ∃ q, (if (st.s.grid.cell pos).isSome then st.s.grid.closestFreePos pos else some pos) = some q := by
      split
      · cases hc : st.s.grid.closestFreePos pos with
        | none => exact absurd hc (closestFree_fuel_sufficient _ _)
        | some q => exact ⟨q, rfl⟩
      · exact ⟨pos, rfl⟩
    obtain ⟨q, hq⟩ := hp
    simp only [hq]
    by_cases h1 : uid ∈ st.s.ids <;> by_cases h2 : fresh ∈ st.s.ids <;> simp [h1, h2]

/-- **the nesting depth of the reaction chain** (any state, any variant, any oracle): when no two
stored pictograms stand for one document, a call of the chain with the model's fuel
`fuelOf d = 8 * (#documents + 2)` does not produce the fault "fuel" — the depth is at most
`5 * (stale pictograms) + 5`, and there are at most as many stale pictograms as documents -/
theorem reactions_depth_bound (s : Struct) (o : Oracle) (d : Dyn) (hn : s.storage.Nodup) (hu : UniqEd s d)
    (hf : d.fault ≠ some "fuel") :
    (∀ n, (announce s o (fuelOf d) d n).fault ≠ some "fuel") ∧
    (∀ p, p ∈ s.storage → (syncPict s o (fuelOf d) d p).fault ≠ some "fuel") ∧
    (∀ p, (coreChange s o (fuelOf d) d p).fault ≠ some "fuel") ∧
    (∀ p, (updateSync s o (fuelOf d) d p).fault ≠ some "fuel") ∧
    (∀ p, (dataFor s o (fuelOf d) d p).1.fault ≠ some "fuel") ∧
    (∀ p, (checkOp s o (fuelOf d) d p).fault ≠ some "fuel") := by
  have hb : 5 * depthOf s d + 5 ≤ fuelOf d :=
    fuelOf_enough (Nat.le_trans (depthOf_le_env hn hu) (Nat.le_add_right _ _))
  obtain ⟨a, b, c, e, f, g⟩ := reactions_fuel s o (fuelOf d)
  exact ⟨fun n => a d n hf (by omega), fun p hp => b d p hp hf (by omega), fun p => c d p hf (by omega),
    fun p => e d p hf (by omega), fun p => f d p hf (by omega), fun p => g d p hf (by omega)⟩

/-- the depth bound in terms of pictograms (ANY state, no invariant, any variant, any oracle): fuel
`5 * storage.length + 5` is enough for every function of the chain. The model's constant
`fuelOf d` counts documents instead; it is enough when no two pictograms stand for one document
(`reactions_depth_bound`), and too small otherwise (`fault_never_fuel_needs_admissible`) -/
theorem reactions_depth_any_state (s : Struct) (o : Oracle) (d : Dyn) (f : Nat) (hfuel : 5 * s.storage.length + 5 ≤ f)
    (hf : d.fault ≠ some "fuel") :
    (∀ n, (announce s o f d n).fault ≠ some "fuel") ∧
    (∀ p, p ∈ s.storage → (syncPict s o f d p).fault ≠ some "fuel") ∧
    (∀ p, (coreChange s o f d p).fault ≠ some "fuel") ∧
    (∀ p, (updateSync s o f d p).fault ≠ some "fuel") ∧
    (∀ p, (dataFor s o f d p).1.fault ≠ some "fuel") ∧
    (∀ p, (checkOp s o f d p).fault ≠ some "fuel") := by
  have hb : depthOf s d ≤ s.storage.length :=
    Nat.le_trans (depthOf_le_staleCount s d) (List.countP_le_length)
  obtain ⟨a, b, c, e, f', g⟩ := reactions_fuel s o f
  exact ⟨fun n => a d n hf (by omega), fun p hp => b d p hp hf (by omega), fun p => c d p hf (by omega),
    fun p => e d p hf (by omega), fun p => f' d p hf (by omega), fun p => g d p hf (by omega)⟩

/-- **(1) the reaction chain never runs out of fuel** from the entry points `step` uses, in a
fault-free state that satisfies the structural invariant and the invariant between calls (`DInv`;
what is used of it: `HInv.uniq` — no two pictograms stand for one document — for the count, and
the whole of it to know the state again after each sub-call); `evOpen` for a closed document (the
admissibility condition of the freshness theorem) -/
theorem reactions_fuel_sufficient (s : Struct) (o : Oracle) (d : Dyn) (hs : StructInv s) (i : DInv s d) (hf : d.fault = none) :
    (∀ n, (evAnnounce s o d n).fault ≠ some "fuel") ∧
    (∀ n, (mgrClose s o d n).fault ≠ some "fuel") ∧
    (∀ n, (∀ x, d.source n = some x → x.opened = false) → (evOpen s o d n).fault ≠ some "fuel") ∧
    (∀ p n, (connectPict2Src s o d p n).1.fault ≠ some "fuel") ∧
    (∀ p, (discard s o d p).fault ≠ some "fuel") ∧
    (∀ p t opts same, (initFor s Variant.repaired o d p t opts same).1.fault ≠ some "fuel") ∧
    (∀ p ch, (updateChildren s Variant.repaired o d p ch).fault ≠ some "fuel") ∧
    (∀ l : List Pid, (l.foldl (fun d p => updateSync s o (fuelOf d) d p) d).fault ≠ some "fuel") ∧
    (∀ p, (checkOp s o (fuelOf d) d p).fault ≠ some "fuel") ∧ (∀ p, (coreChange s o (fuelOf d) d p).fault ≠ some "fuel") ∧
    (∀ p, (updateSync s o (fuelOf d) d p).fault ≠ some "fuel") ∧ (∀ p, (dataFor s o (fuelOf d) d p).1.fault ≠ some "fuel") := by
  have k := structOk_of_inv hs
  have hn := hs.keys.storageNodup
  exact ⟨fun n => (announce_ds k.g hn o d n).nf i hf, fun n => (mgrClose_ds k.g hn o d n).nf i hf,
    fun n ha => (evOpen_ds k.g hn o d n ha).nf i hf, fun p n => (connectPict2Src_ds k.g hn o d p n).nf i hf,
    fun p => (discard_ds k.g hn o d p).nf i hf, fun p t opts same => (initFor_ds k.g hn o d p t opts same).nf i hf,
    fun p ch => (updateChildren_ds k.g hn o d p ch).nf i hf, fun l => (saveAll_ds k.g hn o l d).nf i hf,
    fun p => (checkOp_ds k.g hn o d p).nf i hf, fun p => (coreChange_ds k.g hn o d p).nf i hf,
    fun p => (updateSync_ds k.g hn o d p).nf i hf, fun p => (dataFor_ds k.g hn o d p).nf i hf⟩

/-- **(2) `Execute` never runs out of fuel** — neither its own (`storage.length + 2` levels of
`PrepareParents`: the pictograms on the recursion stack are pairwise different stored operations,
because the parent relation is acyclic) nor that of the chain calls inside (`CheckOperation`,
`RunOperation`, `SaveOperationResult`) — in a fault-free state satisfying the invariants; same for
`ExecuteAll` -/
theorem execute_fuel_sufficient (s : Struct) (o : Oracle) (d : Dyn) (hs : StructInv s) (i : DInv s d) (hf : d.fault = none) :
    (∀ p a, (execute s Variant.repaired o (s.storage.length + 2) d p a).1.fault ≠ some "fuel") ∧
    (executeAll s Variant.repaired o d).fault ≠ some "fuel" := by
  have k := structOk_of_inv hs
  have hn := hs.keys.storageNodup
  obtain ⟨rank, hr⟩ := hs.parents.acyclic
  exact ⟨fun p a => (execute_top_ds k hn o rank hr d p a).nf i hf, (executeAll_ds k hn o rank hr d).nf i hf⟩

/-- the pieces of `Execute` after `PrepareParents`, same hypotheses -/
theorem run_fuel_sufficient (s : Struct) (o : Oracle) (d : Dyn) (hs : StructInv s) (i : DInv s d) (hf : d.fault = none) :
    (∀ p ∈ s.storage, ∀ c built, (saveResult s Variant.repaired o d p c built).1.fault ≠ some "fuel") ∧
    (∀ p ∈ s.opKeys, ∀ a, (runOperation s Variant.repaired o d p a).1.fault ≠ some "fuel") ∧
    (∀ p ∈ s.opKeys, ∀ a b, (finishExecute s Variant.repaired o p a (d, b)).1.fault ≠ some "fuel") := by
  have k := structOk_of_inv hs
  have hn := hs.keys.storageNodup
  refine ⟨fun p hp c built => (saveResult_ds k.g hn o d p c built hp).nf i hf, ?_, ?_⟩
  · intro p hp a
    obtain ⟨p1, p2, hpar, _, _⟩ := k.opPar p hp
    exact (runOperation_ds k.g hn o d p p1 p2 a (k.opSub p hp) hpar).nf i hf
  · intro p hp a b
    obtain ⟨p1, p2, hpar, _, _⟩ := k.opPar p hp
    exact (finishExecute_ds k hn o p p1 p2 a (d, b) hp hpar).nf i hf

/-- **the chain does not depend on the fuel constant** (any variant, any oracle, any dynamic state —
faulty or not — in which no two stored pictograms stand for one document): more fuel than the model's
`fuelOf d` gives the same result, i.e. the `0` case of the model's functions is never reached -/
theorem reactions_fuel_independent (s : Struct) (o : Oracle) (d : Dyn) (hn : s.storage.Nodup) (hu : UniqEd s d)
    (f : Nat) (hfuel : fuelOf d ≤ f) :
    (∀ n, announce s o f d n = announce s o (fuelOf d) d n) ∧
    (∀ p, p ∈ s.storage → syncPict s o f d p = syncPict s o (fuelOf d) d p) ∧
    (∀ p, coreChange s o f d p = coreChange s o (fuelOf d) d p) ∧
    (∀ p, updateSync s o f d p = updateSync s o (fuelOf d) d p) ∧
    (∀ p, dataFor s o f d p = dataFor s o (fuelOf d) d p) ∧
    (∀ p, checkOp s o f d p = checkOp s o (fuelOf d) d p) := by
  have hb : 5 * depthOf s d + 5 ≤ fuelOf d :=
    fuelOf_enough (Nat.le_trans (depthOf_le_env hn hu) (Nat.le_add_right _ _))
  obtain ⟨a, b, c, e, g, h⟩ := reactions_fuel_indep s o f (fuelOf d)
  exact ⟨fun n => a d n (by omega) (by omega), fun p hp => b d p hp (by omega) (by omega), fun p => c d p (by omega) (by omega),
    fun p => e d p (by omega) (by omega), fun p => g d p (by omega) (by omega), fun p => h d p (by omega) (by omega)⟩

/-- **`Execute` does not depend on its fuel** (any variant, any oracle, any dynamic state, under the
structural invariant alone): every fuel above the number of stored pictograms gives the result of the
model's `storage.length + 2`, i.e. the `0` case of `execute` is never reached -/
theorem execute_fuel_independent (s : Struct) (v : Variant) (o : Oracle) (hs : StructInv s) (d : Dyn) (p : Pid) (a : Bool)
    (f : Nat) (hfuel : s.storage.length < f) :
    execute s v o f d p a = execute s v o (s.storage.length + 2) d p a := by
  obtain ⟨rank, hr⟩ := hs.parents.acyclic
  exact execute_fuel_indep v o hs.keys.opSub rank hr f _ d p a [] List.nodup_nil (fun _ h => by cases h) (by simpa using hfuel) (by simp)

/-- a fault is never overwritten by `Execute` (the first fault is kept): from a state whose fault is
`w` the call ends with fault `w` -/
theorem execute_keeps_fault (s : Struct) (o : Oracle) (d : Dyn) (hs : StructInv s) (p : Pid) (a : Bool) (w : String)
    (hw : d.fault = some w) : (execute s Variant.repaired o (s.storage.length + 2) d p a).1.fault = some w := by
  have k := structOk_of_inv hs
  obtain ⟨rank, hr⟩ := hs.parents.acyclic
  exact (execute_top_ds k hs.keys.storageNodup o rank hr d p a).sticky w hw

private theorem ds_ite {s : Struct} {d : Dyn} {c : Prop} [Decidable c] {a b : Dyn} (ha : DS s d a) (hb : DS s d b) :
    DS s d (if c then a else b) := by
  split
  · exact ha
  · exact hb

private theorem evEdit_fault (d : Dyn) (n : SrcName) (c : Content) : (evEdit d n c).fault = d.fault := by
  unfold evEdit
  split <;> rfl

private theorem evDestroy_fault (s : Struct) (d : Dyn) (n : SrcName) : (evDestroy s d n).fault = d.fault := by
  unfold evDestroy
  cases d.source n with
  | none => rfl
  | some x =>
    dsimp only
    split
    · exact evClose_fault s d n
    · rfl

/-- one step of the repaired code: a fault is kept; from a fault-free state satisfying the invariants
no "fuel" fault arises -/
private theorem step_fuel (o : Oracle) (st st' : St) (op : Op) (b : Bool)
    (hs : StructInv st.s) (hadm : admissibleStep st op = true)
    (hstep : step Variant.repaired o st op = some (st', b)) :
    Sticky st.d st'.d ∧ (DInv st.s st.d → st.d.fault = none → NF st'.d) := by
  have k := structOk_of_inv hs
  have hn := hs.keys.storageNodup
  obtain ⟨rank, hr⟩ := hs.parents.acyclic
  have of_ds : ∀ {d' : Dyn}, DS st.s st.d d' → Sticky st.d d' ∧ (DInv st.s st.d → st.d.fault = none → NF d') :=
    fun h => ⟨h.sticky, h.nf⟩
  have of_eq : ∀ {d' : Dyn}, d'.fault = st.d.fault → Sticky st.d d' ∧ (DInv st.s st.d → st.d.fault = none → NF d') :=
    fun e => ⟨Sticky.of_eq e, fun _ hf => NF.of_none (by rw [e]; exact hf)⟩
  cases op with
  | insertBase fresh =>
    simp only [step, Option.map_eq_some_iff] at hstep
    obtain ⟨s', _, he⟩ := hstep
    injection he with he; subst he
    exact of_eq rfl
  | insertOperation a b' fresh =>
    simp only [step, Option.map_eq_some_iff] at hstep
    obtain ⟨r, _, he⟩ := hstep
    cases r with
    | none => simp only at he; injection he with he; subst he; exact of_eq rfl
    | some s' => simp only at he; injection he with he; subst he; exact of_eq rfl
  | erase p =>
    simp only [step] at hstep
    split at hstep
    · injection hstep with hstep; injection hstep with hstep; subst hstep; exact of_eq rfl
    · rename_i he
      injection hstep with hstep; injection hstep with hstep; subst hstep
      have he' : st.s.erasable p = true := by simpa using he
      simp only [Struct.erasable, Struct.contains, Bool.and_eq_true, List.isEmpty_iff] at he'
      have g1 := graphOk_eraseFacets hs he'.2
      have hd := discard_ds (s := st.s.eraseFacets p) g1 hn o st.d p
      exact ⟨hd.sticky.trans (Sticky.of_eq rfl), fun i hf => (hd.nf (i.subset (fun _ h => h)) hf).of_eq rfl⟩
  | newSource n c =>
    simp only [step] at hstep
    split at hstep
    · cases hstep
    · injection hstep with hstep; injection hstep with hstep; subst hstep
      exact of_eq rfl
  | connect p n =>
    simp only [step] at hstep
    injection hstep with hstep; injection hstep with hstep; subst hstep
    have hd := connectPict2Src_ds k.g hn o st.d p n
    exact of_ds (ds_ite (hd.trans (DS.setOp _ _ _ _)) hd)
  | edit n c =>
    simp only [step] at hstep; injection hstep with hstep; injection hstep with hstep; subst hstep
    exact of_eq (evEdit_fault st.d n c)
  | announce n =>
    simp only [step] at hstep; injection hstep with hstep; injection hstep with hstep; subst hstep
    exact of_ds (announce_ds k.g hn o st.d n)
  | close n =>
    simp only [step] at hstep; injection hstep with hstep; injection hstep with hstep; subst hstep
    exact of_eq (evClose_fault st.s st.d n)
  | openSrc n =>
    simp only [step] at hstep; injection hstep with hstep; injection hstep with hstep; subst hstep
    refine of_ds (evOpen_ds k.g hn o st.d n ?_)
    intro x hx
    simp only [admissibleStep, hx] at hadm
    simpa using hadm
  | destroy n =>
    simp only [step] at hstep; injection hstep with hstep; injection hstep with hstep; subst hstep
    exact of_eq (evDestroy_fault st.s st.d n)
  | initFor p ty opts same =>
    simp only [step] at hstep; injection hstep with hstep; injection hstep with hstep; subst hstep
    exact of_ds (initFor_ds k.g hn o st.d p ty opts same)
  | execute p a =>
    simp only [step] at hstep; injection hstep with hstep; injection hstep with hstep; subst hstep
    exact of_ds (execute_top_ds k hn o rank hr st.d p a)
  | executeAll =>
    simp only [step] at hstep; injection hstep with hstep; injection hstep with hstep; subst hstep
    exact of_ds (executeAll_ds k hn o rank hr st.d)
  | reload items edges =>
    simp only [step] at hstep
    split at hstep
    · cases hstep
    · split at hstep
      · cases hstep
      · simp only [Option.map_eq_some_iff] at hstep
        obtain ⟨st2, hl, he⟩ := hstep
        injection he with he; subst he
        simp only [loadDoc, Option.map_eq_some_iff] at hl
        obtain ⟨sA, _, he⟩ := hl
        subst he
        have hS := saveAll_ds k.g hn o st.s.storage st.d
        generalize List.foldl (fun d p => updateSync st.s o (fuelOf d) d p) st.d st.s.storage = d1 at hS
        obtain ⟨_, _, cF, _, _⟩ := closeAll_spec st.s o d1
        obtain ⟨_, _, _, lf, _⟩ := loadDyn_frame (items.filterMap (St.docItem { s := st.s, d := d1 }))
          ({ closeAll st.s o d1 with handles := [], ops := [], dnd := 0 } : Dyn)
        have e : (loadDyn ({ closeAll st.s o d1 with handles := [], ops := [], dnd := 0 } : Dyn)
            (items.filterMap (St.docItem { s := st.s, d := d1 }))).fault = d1.fault := lf.trans cF
        exact ⟨hS.sticky.trans (Sticky.of_eq e), fun i hf => (hS.nf i hf).of_eq e⟩

/-- an unchecked access of the C++ was reached (`operations.at`, a null `src` in `SyncData`,
`ParentIndex(...).value()`, `*translations`, `*params`, the `assert`s, `Execute(call).value()`,
`WriteData` without a document): the model fault is set and it is not the out-of-fuel marker -/
def Dyn.accessFault (d : Dyn) : Prop := ∃ w, d.fault = some w ∧ w ≠ "fuel"

/-- **the out-of-fuel outcome is unreachable**: after every admissible history of the repaired code
(any oracle whose synthesis is never the "no hash" content) the model fault is not "fuel": in a
fault-free state the next step does not run out of fuel (`closestFree_fuel_sufficient` for the
grid — there the outcome would be `none`, not a fault —, `reactions_fuel_sufficient`,
`execute_fuel_sufficient`), and a state with an access fault keeps that fault -/
theorem fault_never_fuel (o : Oracle) (hsyn : o.synthNonzero) (ops : List Op) (st : St)
    (hrun : runHist Variant.repaired o ops = some st) (hadm : admissibleRun Variant.repaired o ops.reverse = true) :
    st.d.fault ≠ some "fuel" := by
  have key : ∀ (l : List Op) (st : St), run Variant.repaired o l = some st → admissibleRun Variant.repaired o l = true → NF st.d := by
    intro l
    induction l with
    | nil =>
      intro st h _
      simp only [run] at h; injection h with h; subst h
      exact NF.of_none rfl
    | cons op l ih =>
      intro st h ha
      simp only [run, Option.bind_eq_some_iff, Option.map_eq_some_iff] at h
      obtain ⟨st0, h0, ⟨r, hr, he⟩⟩ := h
      subst he
      simp only [admissibleRun, Bool.and_eq_true, h0] at ha
      obtain ⟨hs0, t0⟩ := tinv_history o hsyn l st0 h0 ha.1
      obtain ⟨stk, nf⟩ := step_fuel o st0 r.1 op r.2 hs0 ha.2 hr
      exact nf_step (ih st0 h0 ha.1) stk (fun hf0 => nf (t0 hf0).1 hf0)
  exact key ops.reverse st hrun hadm

/-- in a reachable state "no model fault" and "no unchecked access reached" are the same -/
theorem fault_none_iff_no_access (o : Oracle) (hsyn : o.synthNonzero) (ops : List Op) (st : St)
    (hrun : runHist Variant.repaired o ops = some st) (hadm : admissibleRun Variant.repaired o ops.reverse = true) :
    st.d.fault = none ↔ ¬ st.d.accessFault := by
  have hnf := fault_never_fuel o hsyn ops st hrun hadm
  constructor
  · intro h ⟨w, hw, _⟩
    rw [h] at hw; cases hw
  · intro h
    cases hf : st.d.fault with
    | none => rfl
    | some w =>
      exfalso
      apply h
      refine ⟨w, hf, ?_⟩
      rintro rfl
      exact hnf hf

/-- **no stale `done`, repaired code, without the fuel caveat**: after every admissible history,
in every state in which no unchecked access of the C++ was reached (`Dyn.accessFault`), every
operation with a stored result that reports `done` was built from the announced content of both
parents. (`no_stale_done_repaired` assumed `fault = none`, which also excluded exhausted fuel.) -/
theorem no_stale_done_repaired_access (o : Oracle) (hsyn : o.synthNonzero) (ops : List Op) (st : St)
    (hrun : runHist Variant.repaired o ops = some st) (hadm : admissibleRun Variant.repaired o ops.reverse = true)
    (hacc : ¬ st.d.accessFault) : st.fresh = true :=
  no_stale_done_repaired o hsyn ops st hrun hadm ((fault_none_iff_no_access o hsyn ops st hrun hadm).2 hacc)

/-- **result of an execution, reachable states, without the fuel caveat** -/
def exec_result_reachable_access_statement : Prop :=
  ∀ (o : Oracle) (ops : List Op) (st st' : St) (p : Pid) (a : Bool), o.synthNonzero →
    runHist Variant.repaired o ops = some st → admissibleRun Variant.repaired o ops.reverse = true →
    step Variant.repaired o st (.execute p a) = some (st', true) → ¬ st'.d.accessFault →
    ∃ p1 p2 c1 c2 old n,
      st.s.graph.parentsOf p = [p1, p2] ∧
      ((st'.d.handle p1).src.bind st'.d.source).map (·.content) = some c1 ∧
      ((st'.d.handle p2).src.bind st'.d.source).map (·.content) = some c2 ∧
      (st'.d.handle p).src = some n ∧ (st'.d.source n).map (·.content) = some (o.synth p c1 c2 old) ∧
      statusOf st'.s st'.d p = .done

theorem exec_result_reachable_access : exec_result_reachable_access_statement := by
  intro o ops st st' p a hsyn hrun hadm hstep hacc
  have hrun' : runHist Variant.repaired o (ops ++ [Op.execute p a]) = some st' := by
    unfold runHist at hrun ⊢
    rw [List.reverse_append]
    simp only [List.reverse_cons, List.reverse_nil, List.nil_append, List.singleton_append, run, hrun, Option.bind_some,
      hstep, Option.map_some]
  have hadm' : admissibleRun Variant.repaired o (ops ++ [Op.execute p a]).reverse = true := by
    rw [List.reverse_append]
    simp only [List.reverse_cons, List.reverse_nil, List.nil_append, List.singleton_append, admissibleRun, hadm,
      Bool.true_and]
    unfold runHist at hrun
    rw [hrun]
    rfl
  exact exec_result_reachable o ops st st' p a hsyn hrun hadm hstep
    ((fault_none_iff_no_access o hsyn _ st' hrun' hadm').2 hacc)

/-! ## what the hypotheses of the freshness theorem exclude; the unrestricted statements -/

theorem exampleOracle_synthNonzero : exampleOracle.synthNonzero := by
  intro p c1 c2 old h
  have h' : (1000 : Nat) + 100 * (p : Nat) + 10 * (c1 : Nat) + (c2 : Nat) = 0 := h
  omega

/-- a synthesis that may produce the "no hash" content `0` (a collision with the value of a discarded
handle) and an aggregation that always fails -/
def zeroOracle : Oracle :=
  { exampleOracle with synth := fun _ c1 _ _ => if c1 == 2 then 0 else 5, aggOk := fun _ => false }

/-- Each hypothesis of `no_stale_done_repaired` is needed on the model (every line: no fault, the
freshness predicate fails, `5` or `4` still reports `done`; the last component is admissibility):
`TriggerOpen` of an open document with a pending change (the manager's `announced` moves, nobody is
told); a document loaded back with the two connections of a child swapped (the ghost `built` is
positional); a new document under the name of a destroyed one; a synthesis result with content `0`
after an automatic discard. None of these is reachable through the harness' manager. -/
theorem no_stale_done_hypotheses_needed :
    (runHist Variant.repaired exampleOracle (chain ++ ([.edit 1 2, .openSrc 1] : List Op))).map
      (fun st => (st.d.fault, st.fresh, statusOf st.s st.d 4)) = some (none, false, .done) ∧
    admissibleRun Variant.repaired exampleOracle (chain ++ ([.edit 1 2, .openSrc 1] : List Op)).reverse = false ∧
    (runHist Variant.repaired exampleOracle (chain ++ ([.reload [4, 1, 2, 3, 5] [(4, 1), (4, 2), (5, 3), (5, 4)]] : List Op))).map
      (fun st => (st.d.fault, st.fresh, statusOf st.s st.d 5)) = some (none, false, .done) ∧
    admissibleRun Variant.repaired exampleOracle
      (chain ++ ([.reload [4, 1, 2, 3, 5] [(4, 1), (4, 2), (5, 3), (5, 4)]] : List Op)).reverse = false ∧
    (runHist Variant.repaired exampleOracle (chain ++ ([.destroy 3, .newSource 3 7] : List Op))).map
      (fun st => (st.d.fault, st.fresh, statusOf st.s st.d 5)) = some (none, false, .done) ∧
    admissibleRun Variant.repaired exampleOracle (chain ++ ([.destroy 3, .newSource 3 7] : List Op)).reverse = false ∧
    (runHist Variant.repaired zeroOracle (chain ++ ([.edit 1 2, .announce 1, .execute 4 true] : List Op))).map
      (fun st => (st.d.fault, st.fresh, statusOf st.s st.d 5)) = some (none, false, .done) ∧
    admissibleRun Variant.repaired zeroOracle (chain ++ ([.edit 1 2, .announce 1, .execute 4 true] : List Op)).reverse = true := by
  decide +kernel

/-- hence the unrestricted statement does not hold for the repaired model either: it needs the
hypotheses made explicit in `no_stale_done_repaired` -/
theorem no_stale_done_repaired_unrestricted_false : ¬ no_stale_done_statement Variant.repaired := by
  intro h
  have h1 : (runHist Variant.repaired exampleOracle (chain ++ ([.edit 1 2, .openSrc 1] : List Op))).map (·.fresh) = some false := by
    decide +kernel
  cases hr : runHist Variant.repaired exampleOracle (chain ++ ([.edit 1 2, .openSrc 1] : List Op)) with
  | none => rw [hr] at h1; cases h1
  | some st =>
    rw [hr] at h1
    have := h exampleOracle _ st hr
    simp only [Option.map_some, Option.some.injEq] at h1
    rw [h1] at this; cases this

/-- the state of `chain` with the handle of operation `4` pointed at the document of its own
operand `1`: not reachable (a document attached to two pictograms) -/
def sharedState : St :=
  { (runHist Variant.pinned exampleOracle chain).getD {} with
    d := ((runHist Variant.pinned exampleOracle chain).getD {}).d.setHandle 4 ⟨some 1, some 1, 1⟩ }

/-- `exec_result_statement` quantifies over every dynamic state; in a state where a document is attached
to two pictograms the write of the result changes an operand, and the statement fails. The statement
for reachable states is `exec_result_reachable`. -/
theorem exec_result_statement_false : ¬ exec_result_statement := by
  intro h
  have hr : run Variant.pinned exampleOracle chain.reverse = some ((runHist Variant.pinned exampleOracle chain).getD {}) := by
    decide +kernel
  have hs : StructInv sharedState.s :=
    structInv_history Variant.pinned exampleOracle _ ((runHist Variant.pinned exampleOracle chain).getD {}) hr
  have hstep : step Variant.repaired exampleOracle sharedState (.execute 4 false) =
      some (((step Variant.repaired exampleOracle sharedState (.execute 4 false)).getD ({}, false)).1, true) := by
    decide +kernel
  obtain ⟨p1, p2, c1, c2, old, n, hpar, h1, _, h3, h4, _⟩ :=
    h Variant.repaired exampleOracle sharedState _ 4 false hs (by decide +kernel) hstep (by decide +kernel)
  have e1 : sharedState.s.graph.parentsOf 4 = [1, 2] := by decide +kernel
  rw [e1] at hpar
  injection hpar with hp1 _
  subst hp1
  have e2 : ((((step Variant.repaired exampleOracle sharedState (.execute 4 false)).getD ({}, false)).1.d.handle 1).src.bind
      ((step Variant.repaired exampleOracle sharedState (.execute 4 false)).getD ({}, false)).1.d.source).map (·.content)
      = some 1411 := by decide +kernel
  rw [e2] at h1
  injection h1 with h1
  subst h1
  have e3 : (((step Variant.repaired exampleOracle sharedState (.execute 4 false)).getD ({}, false)).1.d.handle 4).src = some 1 := by
    decide +kernel
  rw [e3] at h3
  injection h3 with h3
  subst h3
  have e4 : (((step Variant.repaired exampleOracle sharedState (.execute 4 false)).getD ({}, false)).1.d.source 1).map (·.content)
      = some 1411 := by decide +kernel
  rw [e4] at h4
  injection h4 with h4
  simp only [exampleOracle] at h4
  have h4' : (1411 : Nat) = 1000 + 100 * 4 + 10 * 1411 + (c2 : Nat) := h4
  omega

/-- six base pictograms attached one after the other to documents that all get the name `1` (each
destroyed before the next is created — the only inadmissible steps: `newSource` with a name used
before), operations `100+i = (i+1) + (i+2)` defined while no document `1` exists, then a seventh
document `1` and `Execute(100)` -/
def histShared : List Op :=
  (List.range 6).flatMap (fun i => [Op.insertBase (i+1), Op.newSource 1 (10 + i), Op.connect (i+1) 1, Op.destroy 1]) ++
  (List.range 5).flatMap (fun i => [Op.insertOperation (i+1) (i+2) (100+i), Op.initFor (100+i) .merge .none false]) ++
  [Op.newSource 1 99, Op.execute 100 false]

/-- **the admissibility hypothesis of `fault_never_fuel` is needed** (a limitation of the model's
fuel constant, not of the code, whose recursion is unbounded): when document names are reused, six
detached pictograms stand for the one document `1`; `Execute(100)` opens and synchronises them
nested in each other (`DataFor → SyncPict → OnCoreChange → CheckOperation → DataFor → …`, four
frames per pictogram), and the model's `fuelOf = 8 * (1 + 2) = 24` frames run out -/
theorem fault_never_fuel_needs_admissible :
    exampleOracle.synthNonzero ∧
    (runHist Variant.repaired exampleOracle histShared).map (fun st => (st.d.fault, st.s.storage.length)) = some (some "fuel", 11) ∧
    admissibleRun Variant.repaired exampleOracle histShared.reverse = false :=
  ⟨exampleOracle_synthNonzero, by decide +kernel, by decide +kernel⟩

/-! ## non-vacuity -/

/-- an admissible history for `no_stale_done_repaired`: a changed operand announced and re-executed,
a document edited while closed and reopened, `ExecuteAll`, a redefinition, save → load with rearranged
items and connections (each child's order kept), a new document attached by hand, a destroyed
document, an operation inserted and erased -/
def histAdmissible : List Op := chain ++
  [.edit 1 2, .announce 1, .execute 4 false, .close 3, .edit 3 5, .openSrc 3, .executeAll,
   .initFor 4 .synt .empty false, .execute 5 true,
   .reload [5, 3, 4, 1, 2] [(5, 4), (4, 1), (5, 3), (4, 2)], .openSrc 1, .openSrc 2, .openSrc 3, .executeAll,
   .newSource 20 7, .connect 3 20, .destroy 1, .insertOperation 4 5 6, .erase 6]

/-- the hypotheses of `no_stale_done_repaired` hold for `histAdmissible` (and for every prefix the
statuses go through `done`, `outdated`, `broken`, `defined`) -/
example : exampleOracle.synthNonzero ∧ admissibleRun Variant.repaired exampleOracle histAdmissible.reverse = true ∧
    (runHist Variant.repaired exampleOracle histAdmissible).map
      (fun st => (st.d.fault, statusOf st.s st.d 4, statusOf st.s st.d 5, st.d.nextName)) =
      some (none, .done, .outdated, 20) :=
  ⟨exampleOracle_synthNonzero, by decide +kernel, by decide +kernel⟩

/-- the hypotheses of `exec_result_reachable`: after the first ten steps of `histAdmissible` the call
`Execute(4)` succeeds without fault -/
example : admissibleRun Variant.repaired exampleOracle (chain ++ ([.edit 1 2, .announce 1] : List Op)).reverse = true ∧
    ((runHist Variant.repaired exampleOracle (chain ++ ([.edit 1 2, .announce 1] : List Op))).bind
      (fun st => step Variant.repaired exampleOracle st (.execute 4 false))).map
      (fun r => (r.2, r.1.d.fault, (r.1.d.source 4).map (·.content))) = some (true, none, some 1421) := by
  decide +kernel

/-- `chain` runs, both operations end `done` with the synthesised contents, no fault -/
example : (runHist Variant.pinned exampleOracle chain).map
      (fun st => (statusOf st.s st.d 4, statusOf st.s st.d 5, st.s.graph.edgeList)) =
      some (.done, .done, [(4, 1), (4, 2), (5, 4), (5, 3)]) ∧
    (runHist Variant.pinned exampleOracle chain).map
      (fun st => ((st.d.source 4).map (·.content), (st.d.source 5).map (·.content), st.d.fault.isNone, st.fresh)) =
      some (some 1411, some 15611, true, true) := by
  decide +kernel

/-- a diamond erased leaf-first and reloaded child-first keeps the invariant's data: the history
is admissible (`some`), the reload rearranges items and connections -/
example : (runHist Variant.pinned exampleOracle
    (chain ++ [.insertOperation 4 5 6, .erase 4, .erase 6, .reload [5, 3, 4, 1, 2] [(5, 4), (4, 1), (5, 3), (4, 2)]])).map
    (fun st => (st.s.graph.items, st.s.graph.parentsOf 5, st.s.graph.parentsOf 4, st.s.graph.executeOrder))
    = some ([5, 4, 1, 3, 2], [4, 3], [1, 2], [5, 4]) := by
  decide +kernel

/-- refused calls: an operation over one pictogram twice, erasing a parent -/
example : (step Variant.pinned exampleOracle ((runHist Variant.pinned exampleOracle chain).getD {}) (.insertOperation 1 1 7)).map (·.2) = some false ∧
    (step Variant.pinned exampleOracle ((runHist Variant.pinned exampleOracle chain).getD {}) (.erase 4)).map (·.2) = some false ∧
    (step Variant.pinned exampleOracle ((runHist Variant.pinned exampleOracle chain).getD {}) (.erase 5)).map (·.2) = some true := by
  decide +kernel

/-- a zig-zag: bases 1..4 with their documents, operations `11 = 1+2`, `12 = 2+3`, `13 = 3+4`, every
document with a pending change -/
def histZig : List Op :=
  [.insertBase 1, .newSource 1 1, .connect 1 1, .insertBase 2, .newSource 2 1, .connect 2 2,
   .insertBase 3, .newSource 3 1, .connect 3 3, .insertBase 4, .newSource 4 1, .connect 4 4,
   .insertOperation 1 2 11, .initFor 11 .merge .none false,
   .insertOperation 2 3 12, .initFor 12 .merge .none false,
   .insertOperation 3 4 13, .initFor 13 .merge .none false,
   .edit 1 2, .edit 2 2, .edit 3 2, .edit 4 2]

/-- the hypotheses of `reactions_fuel_sufficient` / `execute_fuel_sufficient` / `reactions_depth_bound`
hold in the state after `histZig`, where they say something: four pictograms are stale, announcing
document 1 nests the announcements of 2, 3, 4 (20 frames are not enough), the model's fuel is -/
example : ∃ st, runHist Variant.repaired exampleOracle histZig = some st ∧ StructInv st.s ∧ DInv st.s st.d ∧ st.d.fault = none ∧
    UniqEd st.s st.d ∧ staleCount st.s st.d = 4 ∧ st.d.env.length = 4 ∧
    (announce st.s exampleOracle 20 st.d 1).fault = some "fuel" ∧ (evAnnounce st.s exampleOracle st.d 1).fault = none := by
  have hadm : admissibleRun Variant.repaired exampleOracle histZig.reverse = true := by decide +kernel
  have hc : (runHist Variant.repaired exampleOracle histZig).map (fun st => (st.d.fault, staleCount st.s st.d, st.d.env.length,
      (announce st.s exampleOracle 20 st.d 1).fault, (evAnnounce st.s exampleOracle st.d 1).fault)) =
      some (none, 4, 4, some "fuel", none) := by decide +kernel
  cases hr : runHist Variant.repaired exampleOracle histZig with
  | none => rw [hr] at hc; cases hc
  | some st =>
    rw [hr] at hc
    simp only [Option.map_some, Option.some.injEq, Prod.mk.injEq] at hc
    obtain ⟨h1, h2, h3, h4, h5⟩ := hc
    obtain ⟨hs, t⟩ := tinv_history exampleOracle exampleOracle_synthNonzero histZig.reverse st hr hadm
    exact ⟨st, rfl, hs, (t h1).1, h1, (t h1).1.h.uniq, h2, h3, h4, h5⟩

/-- `execute_fuel_sufficient`: after `chain` and an announced change of operand 1 both operations are
outdated; `Execute(5)` recurses into `Execute(4)` (one level of fuel is not enough), succeeds with
the model's fuel -/
example : ((runHist Variant.repaired exampleOracle (chain ++ ([.edit 1 2, .announce 1] : List Op))).map
      (fun st => ((execute st.s Variant.repaired exampleOracle 1 st.d 5 false).1.fault,
        (execute st.s Variant.repaired exampleOracle (st.s.storage.length + 2) st.d 5 false).2,
        (execute st.s Variant.repaired exampleOracle (st.s.storage.length + 2) st.d 5 false).1.fault,
        st.d.fault))) = some (some "fuel", true, none, none) := by
  decide +kernel

/-- `closestFree_fuel_sufficient`: a start left of column 0 in a full row segment: four iterations do
not find the free cell, the model's `g.length + 2 = 6` do -/
example : closestFreeGo [(⟨0, -2⟩, 1), (⟨0, -1⟩, 2), (⟨0, 0⟩, 3), (⟨0, 1⟩, 4)] 4 ⟨0, -2⟩ ⟨0, -2⟩ = none ∧
    Grid.closestFreePos [(⟨0, -2⟩, 1), (⟨0, -1⟩, 2), (⟨0, 0⟩, 3), (⟨0, 1⟩, 4)] ⟨0, -2⟩ = some ⟨0, 2⟩ := by
  decide +kernel

/-- the hypotheses of `fault_never_fuel`, `no_stale_done_repaired_access`, `exec_result_reachable_access`
hold for `histAdmissible` (resp. its prefix before `Execute(4)`): no unchecked access was reached -/
example : ∃ st, runHist Variant.repaired exampleOracle histAdmissible = some st ∧
    admissibleRun Variant.repaired exampleOracle histAdmissible.reverse = true ∧ ¬ st.d.accessFault := by
  have hc : (runHist Variant.repaired exampleOracle histAdmissible).map (·.d.fault) = some none := by decide +kernel
  cases hr : runHist Variant.repaired exampleOracle histAdmissible with
  | none => rw [hr] at hc; cases hc
  | some st =>
    rw [hr] at hc
    simp only [Option.map_some, Option.some.injEq] at hc
    refine ⟨st, rfl, by decide +kernel, ?_⟩
    rintro ⟨w, hw, _⟩
    rw [hc] at hw; cases hw

end CCVerif.Oss
