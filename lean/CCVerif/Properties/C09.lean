import CCVerif.Model.Core
import CCVerif.Lemmas.Core
/-!
# C09 — identity and ordering invariants of a schema hold after any edit history

Invariant of the bookkeeping state, stated over every history (`run ops = some st`: the only
histories excluded are those that feed the model a "fresh" uid that is already taken, which the
real generator never does).
-/
namespace CCVerif.Core

/-- list is ordered by kind priority: base, constant, structured, then the rest -/
def KindSorted (st : St) : Prop :=
  (st.order.map (fun u => (st.typeOf u).priority)).Pairwise (· ≥ ·)

structure Inv (st : St) : Prop where
  storeNodup : (st.store.map (·.uid)).Nodup
  aliasNodup : (st.store.map (·.alias)).Nodup
  aliasKind : ∀ c ∈ st.store, typeForName c.alias = some c.type
  idsEq : ∀ u, u ∈ st.ids ↔ u ∈ st.store.map (·.uid)
  namesEq : ∀ a, a ∈ st.names ↔ a ∈ st.store.map (·.alias)
  orderNodup : st.order.Nodup
  orderEq : ∀ u, u ∈ st.order ↔ u ∈ st.store.map (·.uid)
  textsEq : ∀ u, u ∈ st.texts ↔ u ∈ st.store.map (·.uid)
  trackSub : ∀ u ∈ st.tracking, u ∈ st.store.map (·.uid)
  sorted : KindSorted st

/-- full statement: the invariant holds after every history -/
def inv_history_statement : Prop := ∀ ops st, run ops = some st → Inv st

/-- a refused operation (result `false`) leaves the state unchanged -/
def refused_is_identity_statement : Prop :=
  ∀ st op st', step st op = some (st', .bool false) → st' = st

/-- an erased constituent is gone from every view -/
def erase_removes_everywhere_statement : Prop :=
  ∀ st u st', Inv st → step st (.erase u) = some (st', .bool true) →
    u ∉ st'.ids ∧ u ∉ st'.store.map (·.uid) ∧ u ∉ st'.texts ∧ u ∉ st'.order ∧ u ∉ st'.tracking ∧
    (∀ c ∈ st.store, c.uid = u → c.alias ∉ st'.names)

/-- tracked constituents cannot be erased or have their definition edited -/
def tracked_protected_statement : Prop :=
  ∀ st u, u ∈ st.tracking →
    step st (.erase u) = some (st, .bool false) ∧ step st (.setExpression u) = some (st, .bool false)

theorem inv_init : Inv init := by
  constructor <;> simp [init, KindSorted]

theorem tracked_protected : tracked_protected_statement := by
  intro st u h
  simp [step, h]

theorem refused_is_identity : refused_is_identity_statement := by
  intro st op st' h
  cases op with
  | emplace t fresh =>
    simp only [step] at h; split at h <;> simp at h
  | insert uid alias t fresh =>
    simp only [step] at h; split at h <;> simp at h
  | erase uid =>
    simp only [step] at h
    split at h
    · simp at h; exact h.symm
    · split at h <;> simp at h
      exact h.symm
  | eraseInternal uid =>
    simp only [step] at h
    split at h <;> simp at h
    exact h.symm
  | setAlias uid name =>
    simp only [step] at h
    split at h
    · simp at h; exact h.symm
    · split at h
      · simp at h; exact h.symm
      · split at h <;> simp at h
        exact h.symm
  | moveBefore what wh =>
    simp only [step] at h
    split at h
    · simp at h; exact h.symm
    · split at h
      · simp at h; exact h.symm
      · split at h
        · simp at h
        · split at h <;> simp at h
          exact h.symm
  | resetAliases => simp [step] at h
  | track uid => simp only [step] at h; split at h <;> simp at h
  | setExpression uid =>
    simp only [step] at h
    split at h
    · simp at h; exact h.symm
    · split at h <;> simp at h
      exact h.symm

/-- non-vacuity: a history with colliding uid and alias, an erase, a rename and a move -/
example : ∃ st, run [.emplace .term 7, .insert 7 "D1" .term 9, .insert 3 "X1" .base 0, .track 3,
    .erase 3, .erase 7, .setAlias 9 "D5", .moveBefore 3 0, .resetAliases] = some st ∧
    st.order = [3, 9] ∧ st.store.map (·.alias) = ["X1", "D1"] := by
  refine ⟨_, rfl, ?_, ?_⟩ <;> decide

/-! ## every operation preserves the invariant -/

theorem kindSorted_iff (st : St) : KindSorted st ↔ Sorted (prioIn st.store) st.order := Iff.rfl

theorem Inv.uid_inj {st : St} (h : Inv st) :
    ∀ x ∈ st.store, ∀ y ∈ st.store, x.uid = y.uid → x = y := injOn_of_nodup_map h.storeNodup

theorem Inv.alias_inj {st : St} (h : Inv st) :
    ∀ x ∈ st.store, ∀ y ∈ st.store, x.alias = y.alias → x = y := injOn_of_nodup_map h.aliasNodup

/-- common tail of `emplace` / `insert`: a new uid with a new alias of the right kind -/
theorem inv_insertCst {st : St} (h : Inv st) {u : Nat} {a : String} {t : CstType}
    (hu : u ∉ st.ids) (ha : a ∉ st.names) (hk : typeForName a = some t) :
    Inv (insertCst st (u :: st.ids) (a :: st.names) { uid := u, alias := a, type := t }) := by
  have hus : u ∉ st.store.map (·.uid) := fun hm => hu ((h.idsEq u).2 hm)
  have hf1 : st.store.filter (·.uid != u) = st.store := by
    rw [List.filter_eq_self]; intro c hc
    simp only [bne_iff_ne, ne_eq]
    intro heq; exact hus (heq ▸ List.mem_map_of_mem hc)
  have hf2 : st.texts.filter (· != u) = st.texts := by
    rw [List.filter_eq_self]; intro v hv
    simp only [bne_iff_ne, ne_eq]
    intro heq; exact hus ((h.textsEq u).1 (heq ▸ hv))
  have huo : u ∉ st.order := fun hm => hus ((h.orderEq u).1 hm)
  unfold insertCst
  simp only [hf1, hf2]
  constructor
  · simp only [List.map_cons, List.nodup_cons]; exact ⟨hus, h.storeNodup⟩
  · simp only [List.map_cons, List.nodup_cons]
    exact ⟨fun hm => ha ((h.namesEq a).2 hm), h.aliasNodup⟩
  · intro c hc
    simp only [List.mem_cons] at hc
    rcases hc with rfl | hc
    · exact hk
    · exact h.aliasKind c hc
  · intro v; simp only [List.mem_cons, List.map_cons, h.idsEq v]
  · intro b; simp only [List.mem_cons, List.map_cons, h.namesEq b]
  · exact nodup_insertAt huo h.orderNodup
  · intro v; simp only [mem_insertAt, List.mem_cons, List.map_cons, h.orderEq v]
  · intro v; simp only [List.mem_cons, List.map_cons, h.textsEq v]
  · intro v hv; simp only [List.map_cons, List.mem_cons]; exact Or.inr (h.trackSub v hv)
  · rw [kindSorted_iff]
    simp only []
    have hs0 : Sorted (prioIn ({ uid := u, alias := a, type := t } :: st.store)) st.order := by
      apply ((kindSorted_iff st).1 h.sorted).congr
      intro v hv
      unfold prioIn
      rw [typeIn_cons_ne]
      intro heq; apply huo; have : v = u := heq
      rw [← this]; exact hv
    have hpu : prioIn ({ uid := u, alias := a, type := t } :: st.store) u = t.priority := by
      unfold prioIn
      rw [typeIn_cons_self ({ uid := u, alias := a, type := t } : Cst)]
    have hsp := insertPosition_spec
      { ids := u :: st.ids, names := a :: st.names,
        store := { uid := u, alias := a, type := t } :: st.store, texts := u :: st.texts,
        order := st.order, tracking := st.tracking } st.order t hs0
    apply sorted_insertAt hs0
    · intro x hx; rw [hpu]; exact hsp.1 x hx
    · intro x hx; rw [hpu]; exact hsp.2 x hx



theorem mem_map_uid_filter {store : List Cst} {uid v : Nat} :
    v ∈ (store.filter (·.uid != uid)).map (·.uid) ↔ v ∈ store.map (·.uid) ∧ v ≠ uid := by
  simp only [List.mem_map, List.mem_filter, bne_iff_ne, ne_eq]
  constructor
  · rintro ⟨x, ⟨hx, hne⟩, rfl⟩; exact ⟨⟨x, hx, rfl⟩, hne⟩
  · rintro ⟨⟨x, hx, rfl⟩, hne⟩; exact ⟨x, ⟨hx, hne⟩, rfl⟩

theorem inv_erase {st : St} (h : Inv st) {uid : Nat} {c : Cst} (hc : st.find uid = some c) :
    Inv { ids := st.ids.filter (· != uid), names := st.names.filter (· != c.alias),
          store := st.store.filter (·.uid != uid), texts := st.texts.filter (· != uid),
          order := st.order.filter (· != uid), tracking := st.tracking.filter (· != uid) } := by
  obtain ⟨hcm, hcu⟩ := find_eq_some hc
  constructor
  · exact List.Nodup.sublist (List.filter_sublist.map _) h.storeNodup
  · exact List.Nodup.sublist (List.filter_sublist.map _) h.aliasNodup
  · intro x hx; exact h.aliasKind x (List.mem_filter.1 hx).1
  · intro v
    simp only [mem_map_uid_filter, List.mem_filter, bne_iff_ne, ne_eq, h.idsEq v]
  · intro a
    simp only [List.mem_filter, bne_iff_ne, ne_eq, h.namesEq a, List.mem_map]
    constructor
    · rintro ⟨⟨x, hx, rfl⟩, hne⟩
      refine ⟨x, ⟨hx, ?_⟩, rfl⟩
      intro hxu
      exact hne (by rw [h.uid_inj x hx c hcm (hxu.trans hcu.symm)])
    · rintro ⟨x, ⟨hx, hne⟩, rfl⟩
      refine ⟨⟨x, hx, rfl⟩, ?_⟩
      intro hal
      exact hne (by rw [h.alias_inj x hx c hcm hal]; exact hcu)
  · exact List.Nodup.sublist List.filter_sublist h.orderNodup
  · intro v
    simp only [mem_map_uid_filter, List.mem_filter, bne_iff_ne, ne_eq, h.orderEq v]
  · intro v
    simp only [mem_map_uid_filter, List.mem_filter, bne_iff_ne, ne_eq, h.textsEq v]
  · intro v hv
    simp only [List.mem_filter, bne_iff_ne, ne_eq] at hv
    exact mem_map_uid_filter.2 ⟨h.trackSub v hv.1, hv.2⟩
  · rw [kindSorted_iff]
    apply (((kindSorted_iff st).1 h.sorted).sublist List.filter_sublist).congr
    intro v hv
    simp only [List.mem_filter, bne_iff_ne, ne_eq] at hv
    unfold prioIn
    rw [typeIn_filter_ne hv.2]

theorem inv_setAlias {st : St} (h : Inv st) {uid : Nat} {name : String} {c : Cst}
    (hc : st.find uid = some c) (hn : name ∉ st.names) (hk : typeForName name = some c.type) :
    Inv { st with names := name :: st.names.filter (· != c.alias),
                  store := st.store.map (fun x => if x.uid = uid then { x with alias := name } else x) } := by
  obtain ⟨hcm, hcu⟩ := find_eq_some hc
  have hg : ∀ x : Cst, (if x.uid = uid then { x with alias := name } else x).uid = x.uid ∧
      (if x.uid = uid then { x with alias := name } else x).type = x.type := by
    intro x; split <;> exact ⟨rfl, rfl⟩
  have hga : ∀ x : Cst, (if x.uid = uid then { x with alias := name } else x).alias =
      if x.uid = uid then name else x.alias := by
    intro x; split <;> rfl
  have hmapuid : (st.store.map (fun x => if x.uid = uid then { x with alias := name } else x)).map (·.uid)
      = st.store.map (·.uid) := by
    rw [List.map_map]; apply List.map_congr_left; intro x _; exact (hg x).1
  have hns : name ∉ st.store.map (·.alias) := fun hm => hn ((h.namesEq name).2 hm)
  constructor
  · simp only [hmapuid]; exact h.storeNodup
  · simp only [List.map_map]
    apply nodup_map_of_injOn (nodup_of_nodup_map h.storeNodup)
    intro x hx y hy hxy
    simp only [Function.comp, hga] at hxy
    by_cases hxu : x.uid = uid <;> by_cases hyu : y.uid = uid
    · exact h.uid_inj x hx y hy (hxu.trans hyu.symm)
    · rw [if_pos hxu, if_neg hyu] at hxy
      exact absurd (hxy ▸ List.mem_map_of_mem hy) hns
    · rw [if_neg hxu, if_pos hyu] at hxy
      exact absurd (hxy ▸ List.mem_map_of_mem hx) hns
    · rw [if_neg hxu, if_neg hyu] at hxy
      exact h.alias_inj x hx y hy hxy
  · intro c' hc'
    simp only [List.mem_map] at hc'
    obtain ⟨x, hx, rfl⟩ := hc'
    by_cases hxu : x.uid = uid
    · rw [if_pos hxu]
      rw [h.uid_inj x hx c hcm (hxu.trans hcu.symm)]
      exact hk
    · rw [if_neg hxu]; exact h.aliasKind x hx
  · intro v; simp only [hmapuid]; exact h.idsEq v
  · intro a
    simp only [List.map_map, List.mem_cons, List.mem_filter, bne_iff_ne, ne_eq, List.mem_map,
      Function.comp, hga, h.namesEq a]
    constructor
    · rintro (rfl | ⟨⟨x, hx, rfl⟩, hne⟩)
      · exact ⟨c, hcm, by rw [if_pos hcu]⟩
      · refine ⟨x, hx, ?_⟩
        rw [if_neg]
        intro hxu
        exact hne (by rw [h.uid_inj x hx c hcm (hxu.trans hcu.symm)])
    · rintro ⟨x, hx, rfl⟩
      by_cases hxu : x.uid = uid
      · rw [if_pos hxu]; exact Or.inl rfl
      · rw [if_neg hxu]
        refine Or.inr ⟨⟨x, hx, rfl⟩, ?_⟩
        intro hal
        exact hxu (by rw [h.alias_inj x hx c hcm hal]; exact hcu)
  · exact h.orderNodup
  · intro v; simp only [hmapuid]; exact h.orderEq v
  · intro v; simp only [hmapuid]; exact h.textsEq v
  · intro v hv; simp only [hmapuid]; exact h.trackSub v hv
  · rw [kindSorted_iff]
    apply ((kindSorted_iff st).1 h.sorted).congr
    intro v _
    unfold prioIn
    rw [typeIn_map_congr v (fun x _ => hg x)]

theorem inv_moveBefore {st : St} (h : Inv st) {what wh : Nat} (hw : what < st.order.length)
    (hwh : wh ≤ st.order.length) (hcan : canMoveBefore st st.order 3 what wh = true) :
    Inv { st with order := splice st.order what wh } := by
  have hp := splice_perm st.order wh hw
  have hspec := canMoveBefore_spec hcan hw
  exact { h with
    orderNodup := hp.nodup_iff.2 h.orderNodup
    orderEq := fun v => (hp.mem_iff).trans (h.orderEq v)
    sorted := (kindSorted_iff _).2
      (sorted_splice ((kindSorted_iff st).1 h.sorted) hw hwh hspec.1 hspec.2) }

theorem inv_track {st : St} (h : Inv st) {uid : Nat} (hc : st.contains uid = true) :
    Inv { st with tracking := uid :: st.tracking.filter (· != uid) } := by
  exact { h with
    trackSub := by
      intro v hv
      simp only [List.mem_cons, List.mem_filter] at hv
      rcases hv with rfl | hv
      · exact contains_iff.1 hc
      · exact h.trackSub v hv.1 }



theorem inv_resetAliases {st : St} (h : Inv st) :
    Inv { st with ids := st.order.reverse, names := (resetAliasesGo st st.order [] []).1,
                  store := st.store.map (fun x =>
                    (((resetAliasesGo st st.order [] []).2.find? (·.uid == x.uid)).getD x)) } := by
  obtain ⟨cs, h1, h2, h3, h4, h5⟩ := resetAliasesGo_spec st st.order [] []
  simp only [List.reverse_nil, List.nil_append] at h1
  rw [h1]
  have h5' : ∀ a, a ∈ (resetAliasesGo st st.order [] []).1 ↔ a ∈ cs.map (·.alias) := by
    intro a; rw [h5 a]; simp
  have hcsnd : (cs.map (·.uid)).Nodup := by rw [h2]; exact h.orderNodup
  have hg : ∀ x ∈ st.store, (cs.find? (·.uid == x.uid)).getD x ∈ cs ∧
      ((cs.find? (·.uid == x.uid)).getD x).uid = x.uid ∧
      ((cs.find? (·.uid == x.uid)).getD x).type = x.type := by
    intro x hx
    have hxo : x.uid ∈ cs.map (·.uid) := by
      rw [h2, h.orderEq]; exact List.mem_map_of_mem hx
    cases hf : cs.find? (·.uid == x.uid) with
    | none =>
      have := find?_uid_isSome.2 hxo
      rw [hf] at this; cases this
    | some c' =>
      have hc'm := List.mem_of_find?_eq_some hf
      have hc'u : c'.uid = x.uid := by simpa using List.find?_some hf
      refine ⟨hc'm, hc'u, ?_⟩
      show c'.type = x.type
      rw [(h3 c' hc'm).1, hc'u, typeOf_eq, typeIn_of_mem h.storeNodup hx]
  have hmapuid : (st.store.map (fun x => (cs.find? (·.uid == x.uid)).getD x)).map (·.uid)
      = st.store.map (·.uid) := by
    rw [List.map_map]; apply List.map_congr_left; intro x hx; exact (hg x hx).2.1
  constructor
  · simp only [hmapuid]; exact h.storeNodup
  · simp only [List.map_map]
    apply nodup_map_of_injOn (nodup_of_nodup_map h.storeNodup)
    intro x hx y hy hxy
    simp only [Function.comp] at hxy
    have := injOn_of_nodup_map h4 _ (hg x hx).1 _ (hg y hy).1 hxy
    apply h.uid_inj x hx y hy
    rw [← (hg x hx).2.1, ← (hg y hy).2.1, this]
  · intro c' hc'
    simp only [List.mem_map] at hc'
    obtain ⟨x, hx, rfl⟩ := hc'
    exact (h3 _ (hg x hx).1).2.1
  · intro v
    simp only [hmapuid, List.mem_reverse]
    exact (h.orderEq v)
  · intro a
    simp only [h5' a, List.map_map, List.mem_map, Function.comp]
    constructor
    · rintro ⟨c, hc, rfl⟩
      have hco : c.uid ∈ st.store.map (·.uid) := by
        rw [← h.orderEq, ← h2]; exact List.mem_map_of_mem hc
      obtain ⟨x, hx, hxu⟩ := List.mem_map.1 hco
      refine ⟨x, hx, ?_⟩
      rw [injOn_of_nodup_map hcsnd _ (hg x hx).1 c hc ((hg x hx).2.1.trans hxu)]
    · rintro ⟨x, hx, rfl⟩
      exact ⟨_, (hg x hx).1, rfl⟩
  · exact h.orderNodup
  · intro v; simp only [hmapuid]; exact h.orderEq v
  · intro v; simp only [hmapuid]; exact h.textsEq v
  · intro v hv; simp only [hmapuid]; exact h.trackSub v hv
  · rw [kindSorted_iff]
    apply ((kindSorted_iff st).1 h.sorted).congr
    intro v _
    unfold prioIn
    rw [typeIn_map_congr v (fun x hx => (hg x hx).2)]

/-- every operation of the model preserves the invariant -/
theorem inv_step {st st' : St} {op : Op} {out : Out} (h : Inv st)
    (hstep : step st op = some (st', out)) : Inv st' := by
  cases op with
  | emplace t fresh =>
    simp only [step] at hstep
    split at hstep
    · cases hstep
    · rename_i hf
      simp only [Option.some.injEq, Prod.mk.injEq] at hstep
      rw [← hstep.1]
      have hn := newNameFor_spec st.names t
      exact inv_insertCst h (by simpa using hf) hn.1 hn.2
  | insert uid alias t fresh =>
    simp only [step] at hstep
    split at hstep
    · cases hstep
    · rename_i ids names u a hr
      simp only [Option.some.injEq, Prod.mk.injEq] at hstep
      rw [← hstep.1]
      obtain ⟨rfl, rfl, hu, ha, hk⟩ := registerID_spec hr
      exact inv_insertCst h hu ha hk
  | erase uid =>
    simp only [step] at hstep
    split at hstep
    · simp only [Option.some.injEq, Prod.mk.injEq] at hstep; rw [← hstep.1]; exact h
    · split at hstep
      · simp only [Option.some.injEq, Prod.mk.injEq] at hstep; rw [← hstep.1]; exact h
      · rename_i c hc
        simp only [Option.some.injEq, Prod.mk.injEq] at hstep
        rw [← hstep.1]
        exact inv_erase h hc
  | eraseInternal uid =>
    simp only [step] at hstep
    split at hstep
    · simp only [Option.some.injEq, Prod.mk.injEq] at hstep; rw [← hstep.1]; exact h
    · rename_i c hc
      simp only [Option.some.injEq, Prod.mk.injEq] at hstep
      rw [← hstep.1]
      exact inv_erase h hc
  | setAlias uid name =>
    simp only [step] at hstep
    split at hstep
    · simp only [Option.some.injEq, Prod.mk.injEq] at hstep; rw [← hstep.1]; exact h
    · rename_i c hc
      split at hstep
      · simp only [Option.some.injEq, Prod.mk.injEq] at hstep; rw [← hstep.1]; exact h
      · split at hstep
        · simp only [Option.some.injEq, Prod.mk.injEq] at hstep; rw [← hstep.1]; exact h
        · rename_i hcond
          simp only [Option.some.injEq, Prod.mk.injEq] at hstep
          rw [← hstep.1]
          simp only [Bool.or_eq_true, not_or, Bool.not_eq_true] at hcond
          have hn := needNameChange_false hcond.2
          exact inv_setAlias h hc hn.1 hn.2
  | moveBefore what wh =>
    simp only [step] at hstep
    split at hstep
    · simp only [Option.some.injEq, Prod.mk.injEq] at hstep; rw [← hstep.1]; exact h
    · split at hstep
      · simp only [Option.some.injEq, Prod.mk.injEq] at hstep; rw [← hstep.1]; exact h
      · split at hstep
        · cases hstep
        · split at hstep
          · rename_i hlen hwh hcan
            simp only [Option.some.injEq, Prod.mk.injEq] at hstep
            rw [← hstep.1]
            exact inv_moveBefore h (by omega) (by omega) hcan
          · simp only [Option.some.injEq, Prod.mk.injEq] at hstep; rw [← hstep.1]; exact h
  | resetAliases =>
    simp only [step] at hstep
    simp only [Option.some.injEq, Prod.mk.injEq] at hstep
    rw [← hstep.1]
    exact inv_resetAliases h
  | track uid =>
    simp only [step] at hstep
    split at hstep
    · rename_i hc
      simp only [Option.some.injEq, Prod.mk.injEq] at hstep
      rw [← hstep.1]
      exact inv_track h hc
    · simp only [Option.some.injEq, Prod.mk.injEq] at hstep; rw [← hstep.1]; exact h
  | setExpression uid =>
    simp only [step] at hstep
    split at hstep
    · simp only [Option.some.injEq, Prod.mk.injEq] at hstep; rw [← hstep.1]; exact h
    · split at hstep <;>
      (simp only [Option.some.injEq, Prod.mk.injEq] at hstep; rw [← hstep.1]; exact h)



theorem run_eq_foldl (ops : List Op) : run ops =
    ops.foldl (fun acc op => acc.bind (fun st => (step st op).map (·.1))) (some init) := by
  cases ops <;> rfl

theorem inv_foldl (ops : List Op) : ∀ (acc : Option St) (st : St), (∀ s, acc = some s → Inv s) →
    ops.foldl (fun acc op => acc.bind (fun st => (step st op).map (·.1))) acc = some st → Inv st := by
  induction ops with
  | nil => intro acc st hacc h; exact hacc st h
  | cons op ops ih =>
    intro acc st hacc h
    rw [List.foldl_cons] at h
    refine ih _ st ?_ h
    intro s hs
    cases acc with
    | none => cases hs
    | some s0 =>
      simp only [Option.bind_some, Option.map_eq_some_iff] at hs
      obtain ⟨⟨s1, out⟩, hstep, rfl⟩ := hs
      exact inv_step (hacc s0 rfl) hstep

/-- the invariant holds after every admissible edit history -/
theorem inv_history : inv_history_statement := by
  intro ops st h
  rw [run_eq_foldl] at h
  exact inv_foldl ops (some init) st (fun s hs => by cases hs; exact inv_init) h

/-- a successfully erased constituent (and its alias) is gone from every view of the state -/
theorem erase_removes_everywhere : erase_removes_everywhere_statement := by
  intro st u st' h hstep
  simp only [step] at hstep
  split at hstep
  · simp at hstep
  · split at hstep
    · simp at hstep
    · rename_i c0 hc0
      simp only [Option.some.injEq, Prod.mk.injEq, and_true] at hstep
      subst hstep
      obtain ⟨hcm, hcu⟩ := find_eq_some hc0
      refine ⟨?_, ?_, ?_, ?_, ?_, ?_⟩
      · simp [List.mem_filter]
      · rw [mem_map_uid_filter]; simp
      · simp [List.mem_filter]
      · simp [List.mem_filter]
      · simp [List.mem_filter]
      · intro c hc hcu'
        rw [h.uid_inj c hc c0 hcm (hcu'.trans hcu.symm)]
        simp [List.mem_filter]

/-- the same for the internal erase used by duplicate removal and equations (which also removes
a *tracked* constituent together with its tracking record) -/
theorem eraseInternal_removes_everywhere (st : St) (u : Nat) (st' : St) (h : Inv st)
    (hstep : step st (.eraseInternal u) = some (st', .bool true)) :
    u ∉ st'.ids ∧ u ∉ st'.store.map (·.uid) ∧ u ∉ st'.texts ∧ u ∉ st'.order ∧ u ∉ st'.tracking ∧
    (∀ c ∈ st.store, c.uid = u → c.alias ∉ st'.names) := by
  simp only [step] at hstep
  split at hstep
  · simp at hstep
  · rename_i c0 hc0
    simp only [Option.some.injEq, Prod.mk.injEq, and_true] at hstep
    subst hstep
    obtain ⟨hcm, hcu⟩ := find_eq_some hc0
    refine ⟨?_, ?_, ?_, ?_, ?_, ?_⟩
    · simp [List.mem_filter]
    · rw [mem_map_uid_filter]; simp
    · simp [List.mem_filter]
    · simp [List.mem_filter]
    · simp [List.mem_filter]
    · intro c hc hcu'
      rw [h.uid_inj c hc c0 hcm (hcu'.trans hcu.symm)]
      simp [List.mem_filter]

/-- non-vacuity of `erase_removes_everywhere`: a reachable state in which an erase succeeds -/
example : ∃ st st', run [.emplace .term 7, .insert 3 "X1" .base 0] = some st ∧
    step st (.erase 7) = some (st', .bool true) ∧ st'.order = [3] := by
  refine ⟨_, _, rfl, rfl, ?_⟩; decide

end CCVerif.Core
