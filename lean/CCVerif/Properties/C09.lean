import CCVerif.Model.Core
/-!
# C09 — identity and ordering invariants of a schema hold after any edit history

Invariant of the bookkeeping state, stated over every history (`run ops = some st`: the only
histories excluded are those that feed the model a "fresh" uid that is already taken, which the
real generator never does).
-/
namespace CCVerif.Core

/-- list is ordered by kind priority: base, constant, structured, then the rest -/
def KindSorted (st : St) : Prop :=
  (st.order.map (fun u => (st.typeOf u).priority)).Pairwise (· ≥ ·)

structure Inv (st : St) : Prop where
  storeNodup : (st.store.map (·.uid)).Nodup
  aliasNodup : (st.store.map (·.alias)).Nodup
  aliasKind : ∀ c ∈ st.store, typeForName c.alias = some c.type
  idsEq : ∀ u, u ∈ st.ids ↔ u ∈ st.store.map (·.uid)
  namesEq : ∀ a, a ∈ st.names ↔ a ∈ st.store.map (·.alias)
  orderNodup : st.order.Nodup
  orderEq : ∀ u, u ∈ st.order ↔ u ∈ st.store.map (·.uid)
  textsEq : ∀ u, u ∈ st.texts ↔ u ∈ st.store.map (·.uid)
  trackSub : ∀ u ∈ st.tracking, u ∈ st.store.map (·.uid)
  sorted : KindSorted st

/-- full statement: the invariant holds after every history -/
def inv_history_statement : Prop := ∀ ops st, run ops = some st → Inv st

/-- a refused operation (result `false`) leaves the state unchanged -/
def refused_is_identity_statement : Prop :=
  ∀ st op st', step st op = some (st', .bool false) → st' = st

/-- an erased constituent is gone from every view -/
def erase_removes_everywhere_statement : Prop :=
  ∀ st u st', Inv st → step st (.erase u) = some (st', .bool true) →
    u ∉ st'.ids ∧ u ∉ st'.store.map (·.uid) ∧ u ∉ st'.texts ∧ u ∉ st'.order ∧ u ∉ st'.tracking ∧
    (∀ c ∈ st.store, c.uid = u → c.alias ∉ st'.names)

/-- tracked constituents cannot be erased or have their definition edited -/
def tracked_protected_statement : Prop :=
  ∀ st u, u ∈ st.tracking →
    step st (.erase u) = some (st, .bool false) ∧ step st (.setExpression u) = some (st, .bool false)

theorem inv_init : Inv init := by
  constructor <;> simp [init, KindSorted]

theorem tracked_protected : tracked_protected_statement := by
  intro st u h
  simp [step, h]

theorem refused_is_identity : refused_is_identity_statement := by
  intro st op st' h
  cases op with
  | emplace t fresh =>
    simp only [step] at h; split at h <;> simp at h
  | insert uid alias t fresh =>
    simp only [step] at h; split at h <;> simp at h
  | erase uid =>
    simp only [step] at h
    split at h
    · simp at h; exact h.symm
    · split at h <;> simp at h
      exact h.symm
  | setAlias uid name =>
    simp only [step] at h
    split at h
    · simp at h; exact h.symm
    · split at h
      · simp at h; exact h.symm
      · split at h <;> simp at h
        exact h.symm
  | moveBefore what wh =>
    simp only [step] at h
    split at h
    · simp at h; exact h.symm
    · split at h
      · simp at h; exact h.symm
      · split at h
        · simp at h
        · split at h <;> simp at h
          exact h.symm
  | resetAliases => simp [step] at h
  | track uid => simp only [step] at h; split at h <;> simp at h
  | setExpression uid =>
    simp only [step] at h
    split at h
    · simp at h; exact h.symm
    · split at h <;> simp at h
      exact h.symm

/-- non-vacuity: a history with colliding uid and alias, an erase, a rename and a move -/
example : ∃ st, run [.emplace .term 7, .insert 7 "D1" .term 9, .insert 3 "X1" .base 0, .track 3,
    .erase 3, .erase 7, .setAlias 9 "D5", .moveBefore 3 0, .resetAliases] = some st ∧
    st.order = [3, 9] ∧ st.store.map (·.alias) = ["X1", "D1"] := by
  refine ⟨_, rfl, ?_, ?_⟩ <;> decide

end CCVerif.Core
