import CCVerif.Model.RSModel
/-!
# C11 — a model never shows a calculated value that is stale w.r.t. current data
-/
namespace CCVerif.RSModel
open CCVerif.Schema (Cst Kind Def)

/-- full statement (value bookkeeping as in /repo now): after every history of data edits,
definition edits, erasures and calculations, every constituent that reports a calculated value
reports the value a full recalculation from the current base data and definitions gives -/
def fresh_statement : Prop :=
  ∀ ops : List Op, (∀ op ∈ ops, ∀ c, op ≠ .schema (.load c)) → (run false ops).fresh = true

private def base : List Op :=
  [.schema (.insert ⟨1, "X1", .base, .empty⟩), .addElem 1, .addElem 1,
   .schema (.insert ⟨2, "D1", .term, .union ["X1"]⟩), .schema (.insert ⟨3, "D2", .term, .union ["D1"]⟩),
   .schema (.insert ⟨4, "D3", .term, .union ["X1", "X1"]⟩),
   .recalculateAll]

/-- pinned defect 1: editing the definition of `D1` left the calculated value of its dependant
`D2` in place -/
theorem stale_after_setExpression_counterexample :
    (run true (base ++ [.setText 1 [1], .schema (.setDef 2 (.union ["D3"])), .calculate 4, .calculate 2])).fresh = false ∨
    (run true (base ++ [.schema (.setDef 2 (.union ["D9"]))])).fresh = false := by
  right; decide

/-- pinned defect 2: replacing the interpretation `{1,2}` of `X1` by `{1,3}` (same size) left the
values of all dependants in place -/
theorem stale_after_setBasicText_counterexample :
    (run true (base ++ [.setText 1 [1, 3]])).fresh = false := by decide

/-- pinned defect 3: erasing `D1` left the value (and the calculated flag) of its dependant `D2` -/
theorem stale_after_erase_counterexample :
    (run true (base ++ [.schema (.erase 2)])).fresh = false := by decide

/-- the repaired code on the same histories -/
theorem fresh_repaired_examples :
    (run false (base ++ [.schema (.setDef 2 (.union ["D9"]))])).fresh = true ∧
    (run false (base ++ [.setText 1 [1, 3]])).fresh = true ∧
    (run false (base ++ [.schema (.erase 2)])).fresh = true := by decide

/-- non-vacuity: in `run false base` three terms report calculated values -/
example : (run false base).report =
    [(1, false, some [1, 2]), (2, true, some [1, 2]), (3, true, some [1, 2]), (4, true, some [1, 2])] := by decide

end CCVerif.RSModel
