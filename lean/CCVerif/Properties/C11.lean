import CCVerif.Model.RSModel
import CCVerif.Lemmas.RSModel
import CCVerif.Lemmas.RSModelGen
import CCVerif.Lemmas.RSModelGenRen
import CCVerif.Lemmas.RSModelGenFrag
import CCVerif.Lemmas.RSModelGenSim
import CCVerif.Lemmas.EvaluatorAnalysis
import CCVerif.Lemmas.CheckerEvaluatorRen
import CCVerif.Lemmas.EvaluatorRenameTop
import CCVerif.Lemmas.EvaluatorRenameCex
import CCVerif.Lemmas.NormLocals
import CCVerif.Lemmas.CheckerEvaluatorPlain
/-!
# C11 — a model never shows a calculated value that is stale w.r.t. current data
-/
namespace CCVerif.RSModel
open CCVerif.Schema (Cst Kind Def AliasesDistinct)

/-- full statement (value bookkeeping as in /repo now): after every history of data edits,
definition edits, erasures and calculations, every constituent that reports a calculated value
reports the value a full recalculation from the current base data and definitions gives -/
def fresh_statement : Prop :=
  ∀ ops : List Op, (∀ op ∈ ops, ∀ c, op ≠ .schema (.load c)) → (run false ops).fresh = true

private def base : List Op :=
  [.schema (.insert ⟨1, "X1", .base, .empty⟩), .addElem 1, .addElem 1,
   .schema (.insert ⟨2, "D1", .term, .union ["X1"]⟩), .schema (.insert ⟨3, "D2", .term, .union ["D1"]⟩),
   .schema (.insert ⟨4, "D3", .term, .union ["X1", "X1"]⟩),
   .recalculateAll]

/-- pinned defect 1: editing the definition of `D1` left the calculated value of its dependant
`D2` in place -/
theorem stale_after_setExpression_counterexample :
    (run true (base ++ [.setText 1 [1], .schema (.setDef 2 (.union ["D3"])), .calculate 4, .calculate 2])).fresh = false ∨
    (run true (base ++ [.schema (.setDef 2 (.union ["D9"]))])).fresh = false := by
  right; decide

/-- pinned defect 2: replacing the interpretation `{1,2}` of `X1` by `{1,3}` (same size) left the
values of all dependants in place -/
theorem stale_after_setBasicText_counterexample :
    (run true (base ++ [.setText 1 [1, 3]])).fresh = false := by decide

/-- pinned defect 3: erasing `D1` left the value (and the calculated flag) of its dependant `D2` -/
theorem stale_after_erase_counterexample :
    (run true (base ++ [.schema (.erase 2)])).fresh = false := by decide

/-- the repaired code on the same histories -/
theorem fresh_repaired_examples :
    (run false (base ++ [.schema (.setDef 2 (.union ["D9"]))])).fresh = true ∧
    (run false (base ++ [.setText 1 [1, 3]])).fresh = true ∧
    (run false (base ++ [.schema (.erase 2)])).fresh = true := by decide

/-- non-vacuity: in `run false base` three terms report calculated values -/
example : (run false base).report =
    [(1, false, some [1, 2]), (2, true, some [1, 2]), (3, true, some [1, 2]), (4, true, some [1, 2])] := by decide

/-- aliases pairwise distinct throughout: `X1 = {1}`, `X2 = ∅`, `D1 := X1` calculated to `{1}`; then
`X1` is renamed to `X9` and `X2` to `X1`, both without substitution -/
def histRename : List Op :=
  [.schema (.insert ⟨1, "X1", .base, .empty⟩), .schema (.insert ⟨2, "X2", .base, .empty⟩), .addElem 1,
   .schema (.insert ⟨3, "D1", .term, .union ["X1"]⟩), .calculate 3,
   .schema (.setAlias 1 "X9" false), .schema (.setAlias 2 "X1" false)]

/-- pinned defect 4 (found by this verification, outside the three code paths above):
`SetAliasFor(target, newName, substitute = false)` renamed a constituent without touching the
definitions that mention it and without resetting any value. On `histRename` the term `D1 := X1` is
well typed, denotes the empty set, and still shows `{1}` as its calculated value -/
theorem fresh_rename_counterexample :
    (run true histRename).fresh = false ∧
    (run true histRename).report = [(1, false, some [1]), (2, false, some []), (3, true, some [1])] ∧
    (run true histRename).recomputed.report = [(1, false, some [1]), (2, false, some []), (3, true, some [])] ∧
    (run true histRename).sch.report =
      [(1, .verified, some "X9"), (2, .verified, some "X1"), (3, .verified, some "X1")] := by decide

/-- the repaired code (dependants collected before the rename are reset) on the same history: the
value of `D1` is dropped with the first rename -/
theorem fresh_rename_repaired_example :
    (run false histRename).fresh = true ∧
    (run false histRename).report = [(1, false, some [1]), (2, false, some []), (3, false, none)] := by
  decide

theorem histRename_distinct : ∀ k, AliasesDistinct (run false (histRename.take k)).sch := by
  intro k
  by_cases hk : k < 8
  · have h : ∀ k ∈ List.range 8, AliasesDistinct (run false (histRename.take k)).sch := by decide
    exact h k (List.mem_range.2 hk)
  · rw [List.take_of_length_le (by simp only [histRename, List.length_cons, List.length_nil]; omega)]
    decide

/-! ## the repaired code: what holds and what does not

`fresh_statement` quantifies over *all* `load`-free histories, including those in which two
constituents carry the same alias. `RSModel` never checks aliases (only the identity manager of
`RSCore` keeps them unique), and for such histories the statement is false: `Insert` can change the
constituent a mention denotes without any value being reset. -/

/-- `X1` (uid 2) with one element, `D1 := X1` calculated to `{1}`, then a second `X1` with the
smaller uid 1 is inserted: the mention now denotes the empty uid 1, `D1` still shows `{1}` -/
def histDup : List Op :=
  [.schema (.insert ⟨2, "X1", .base, .empty⟩), .addElem 2,
   .schema (.insert ⟨3, "D1", .term, .union ["X1"]⟩), .calculate 3,
   .schema (.insert ⟨1, "X1", .base, .empty⟩)]

theorem fresh_dup_alias_counterexample : (run false histDup).fresh = false := by decide

/-- the statement as first formulated is false (for the model, and — the model being a
transcription — for `RSModel` used without `RSCore`'s alias discipline) -/
theorem fresh_statement_false : ¬ fresh_statement := by
  intro h
  have := h histDup (by
    intro op hop c e
    subst e
    simp [histDup] at hop)
  rw [fresh_dup_alias_counterexample] at this
  cases this

/-- **C11.** After every admissible history (`AdmissibleFrom`: no `load`; after every `insert`,
`setAlias`, `substitute` the aliases are still pairwise distinct) — with arbitrary definition edits,
erasures, data edits, calculations and renamings with or without substitution — every constituent that reports a calculated value reports the
value a full recalculation from the current base data and definitions gives. -/
theorem fresh (ops : List Op) (ha : AdmissibleFrom {} ops) : (run false ops).fresh = true :=
  (Inv.run ha).fresh

/-- the same for histories along which aliases stay pairwise distinct — the discipline `RSCore`
enforces; this is `fresh_statement` with that one extra hypothesis -/
theorem fresh_of_distinct_aliases (ops : List Op)
    (hl : ∀ op ∈ ops, ∀ c, op ≠ .schema (.load c))
    (hd : ∀ k, AliasesDistinct (run false (ops.take k)).sch) : (run false ops).fresh = true :=
  fresh ops (admissibleFrom_of_distinct ops {} hl hd)

/-- operations that do not change aliases -/
def NoAliasChange : Op → Prop
  | .schema (.insert _) | .schema (.erase _) | .schema (.setDef _ _) => True
  | .schema _ => False
  | _ => True

/-- the part for histories of insert / setDef / erase / addElem / setText / resetData / calculate /
recalculateAll (a special case of `fresh_of_distinct_aliases`) -/
theorem fresh_partial (ops : List Op) (hn : ∀ op ∈ ops, NoAliasChange op)
    (hd : ∀ k, AliasesDistinct (run false (ops.take k)).sch) : (run false ops).fresh = true := by
  refine fresh_of_distinct_aliases ops ?_ hd
  intro op hop c e
  subst e
  exact hn _ hop

/-- stronger than `fresh`, independent of the `calculated` flag: whatever value is stored for a
term is the value a full recalculation assigns -/
theorem stored_eq_recomputed (ops : List Op) (ha : AdmissibleFrom {} ops) {u : Nat} {v : Data}
    (hk : (run false ops).kindOf u = some .term) (hv : (run false ops).dataFor u = some v) :
    (run false ops).recomputed.dataFor u = some v :=
  (Inv.run ha).recomputed_eq hk hv

/-- what the stored values are, declaratively: every value stored for a term is its intended value
`TV` (the term is well typed w.r.t. the current definitions and `v` is the union of the intended
values of the constituents it mentions, base sets being interpreted by their current data), and
`RecalculateAll` stores the intended value of every constituent that has one -/
theorem values_declarative (ops : List Op) (ha : AdmissibleFrom {} ops) :
    (∀ u v, (run false ops).kindOf u = some .term → (run false ops).dataFor u = some v →
      ∃ t, TV (run false ops).sch.store (run false ops).dataFor u t v) ∧
    (∀ u t v, TV (run false ops).sch.store (run false ops).dataFor u t v →
      (run false ops).recalculateAll.dataFor u = some v) :=
  ⟨(Inv.run ha).val, fun _ _ _ h => recalc_computes (Inv.run ha).wf h⟩

/-! non-vacuity: the histories of the four repaired defects are admissible (and keep aliases
distinct); a mixed history with erasure, renaming with and without substitution and `substitute`
in which calculated values survive; the duplicate-alias history is not admissible -/

example : AdmissibleFrom {} (base ++ [.schema (.setDef 2 (.union ["D9"]))]) := by decide
example : AdmissibleFrom {} (base ++ [.setText 1 [1, 3]]) := by decide
example : AdmissibleFrom {} (base ++ [.schema (.erase 2)]) := by decide

def histMixed : List Op :=
  base ++ [.schema (.setAlias 1 "X2" true), .schema (.substitute [("D1", "D5"), ("D3", "D1")]),
    .schema (.insert ⟨5, "X1", .base, .empty⟩), .addElem 5, .schema (.setDef 3 (.union ["X1"])),
    .calculate 3, .schema (.erase 4), .schema (.setAlias 3 "D7" false), .resetData 5, .addElem 5, .calculate 3]

example : AdmissibleFrom {} histMixed := by decide
example : (run false histMixed).report =
    [(1, false, some [1, 2]), (2, true, some [1, 2]), (3, true, some [1]), (5, false, some [1])] := by decide
example : ¬ AdmissibleFrom {} histDup := by decide
example : AdmissibleFrom {} histRename := by decide

end CCVerif.RSModel

/-! # The same for ANY evaluation that satisfies the laws

`Model/RSModelGen.lean` is the value bookkeeping of `Model/RSModel.lean` over the generic schema
machine of C07 (`Model/SchemaGen.lean`, analysis `A`), with the evaluation as a parameter
`E : Eval D I V` (`eval ctx c`: value of the definition of `c`, `ctx name` = the value stored for the
constituent the name denotes). Hypotheses: `SchemaGen.Lawful A` (C07), `EvalLawful A E`:

* `mono` — FRAME + monotonicity: `eval` reads `ctx` only at `mentions c.defn`, and more information
  does not change a value already obtained (the real evaluator short-circuits `&`, `∨`, `⇒` and
  quantifiers over empty sets, so it is NOT strict in the mentioned names; monotone it is);
* `missing` — a mentioned name that denotes nothing makes the ANALYSIS fail;
* `verified_ok` — `status == VERIFIED` only on successful entries;
* `skel_indep` — the analysis does not read the store-without-definitions;

and, for the renaming operations only, `Equivariant A E`: a consistent renaming of constituents,
definitions and context changes the analysis entries uniformly (`renI`) and the values not at all. -/
namespace CCVerif.RSModelGen
open CCVerif.SchemaGen (Analysis Lawful Cst fragA fragA_lawful heightA heightA_lawful AliasesDistinct)

/-- **C11, generic.** For every analysis and evaluation satisfying the laws and every admissible
history (`AdmissibleAllFrom`: no `load`; after every `insert`, `setAlias`, `substitute` the aliases are
still pairwise distinct) of insertions, erasures, definition edits, renamings with or without
substitution, `UpdateState`, data edits of base sets, `Calculate` and `RecalculateAll`, every term that
reports a calculated value reports the value a full recalculation from the current base data and
definitions gives. -/
theorem fresh_generic {D I V : Type} [DecidableEq D] (A : Analysis D I) (E : Eval D I V)
    (hA : Lawful A) (hE : EvalLawful A E) (hQ : Equivariant A E) (ops : List (Op D V))
    (ha : AdmissibleAllFrom A E {} ops) : (run A E ops).Fresh A E :=
  (Inv.runAll hA hE hQ ha).fresh hA hE

/-- the same for histories along which aliases stay pairwise distinct (the discipline of `RSCore`) -/
theorem fresh_generic_of_distinct_aliases {D I V : Type} [DecidableEq D] (A : Analysis D I)
    (E : Eval D I V) (hA : Lawful A) (hE : EvalLawful A E) (hQ : Equivariant A E) (ops : List (Op D V))
    (hl : ∀ op ∈ ops, ∀ c, op ≠ .schema (.load c))
    (hd : ∀ k, AliasesDistinct (run A E (ops.take k)).sch) : (run A E ops).Fresh A E :=
  fresh_generic A E hA hE hQ ops (admissibleAllFrom_of_distinct ops {} hl hd)

/-- without the equivariance hypothesis: histories without renaming operations (`AdmissibleFrom`
excludes `setAlias` and `substitute`) -/
theorem fresh_generic_no_renaming {D I V : Type} [DecidableEq D] (A : Analysis D I) (E : Eval D I V)
    (hA : Lawful A) (hE : EvalLawful A E) (ops : List (Op D V)) (ha : AdmissibleFrom A E {} ops) :
    (run A E ops).Fresh A E :=
  (Inv.run hA hE ha).fresh hA hE

/-- stronger, independent of the `calculated` flag: whatever value is stored for a term is the value a
full recalculation assigns -/
theorem stored_eq_recomputed_generic {D I V : Type} [DecidableEq D] (A : Analysis D I) (E : Eval D I V)
    (hA : Lawful A) (hE : EvalLawful A E) (hQ : Equivariant A E) (ops : List (Op D V))
    (ha : AdmissibleAllFrom A E {} ops)
    {u : Nat} {v : V} (hk : (run A E ops).kindOf u = some .term) (hv : (run A E ops).dataFor u = some v) :
    ((run A E ops).recomputed A E).dataFor u = some v :=
  (Inv.runAll hA hE hQ ha).recomputed_eq hA hE hk hv

/-- what the stored values are, declaratively: every value stored for a term is its intended value
`TVal` (least solution: the term is verified and the value is the evaluation of its definition
against intended values of constituents it mentions), the intended value is unique, and
`RecalculateAll` stores the intended value of every constituent that has one -/
theorem values_declarative_generic {D I V : Type} [DecidableEq D] (A : Analysis D I) (E : Eval D I V)
    (hA : Lawful A) (hE : EvalLawful A E) (hQ : Equivariant A E) (ops : List (Op D V))
    (ha : AdmissibleAllFrom A E {} ops) :
    (∀ u v, (run A E ops).kindOf u = some .term → (run A E ops).dataFor u = some v →
      TVal A E (run A E ops).sch.store (run A E ops).dataFor u v) ∧
    (∀ u v v', TVal A E (run A E ops).sch.store (run A E ops).dataFor u v →
      TVal A E (run A E ops).sch.store (run A E ops).dataFor u v' → v = v') ∧
    (∀ u v, TVal A E (run A E ops).sch.store (run A E ops).dataFor u v →
      ((run A E ops).recalculateAll A E).dataFor u = some v) := by
  have h := Inv.runAll hA hE hQ ha
  exact ⟨h.val, fun _ _ _ h1 h2 => h1.unique hE h.wf.base.nodup h2,
    fun _ _ ht => recalc_computes hA hE h.wf ht⟩

/-- the statement WITHOUT the equivariance hypothesis: all operations, `Lawful` + `EvalLawful` only -/
def fresh_generic_statement : Prop :=
  ∀ (D I V : Type) [DecidableEq D] (A : Analysis D I) (E : Eval D I V), Lawful A → EvalLawful A E →
    ∀ ops : List (Op D V), AdmissibleAllFrom A E {} ops → (run A E ops).Fresh A E

/-- an evaluation that reads the NAMES in a definition (`nameE`: 1 if the definition mentions `X1`
literally) satisfies the laws; `D1 := X1` is calculated to 1, then `X1` is renamed to `X2` with
substitution: the definition becomes `X2`, the stored value stays 1, a recalculation gives 0 -/
def histName : List (Op (List String) Nat) :=
  [.schema (.insert ⟨1, "X1", .base, []⟩), .schema (.insert ⟨2, "D1", .term, ["X1"]⟩), .calculate 2,
   .schema (.substitute [("X1", "X2")])]

theorem fresh_generic_rename_counterexample :
    AdmissibleAllFrom heightA nameE {} histName ∧
    (run heightA nameE histName).report = [(1, false, some 0), (2, true, some 1)] ∧
    ((run heightA nameE histName).recomputed heightA nameE).report = [(1, false, some 0), (2, true, some 0)] := by
  refine ⟨by decide, by decide, by decide⟩

/-- that statement is false: the equivariance hypothesis of `fresh_generic` cannot be dropped -/
theorem fresh_generic_statement_false : ¬ fresh_generic_statement := by
  intro h
  have hf := h (List String) (Option Nat) Nat heightA nameE heightA_lawful nameE_lawful histName
    fresh_generic_rename_counterexample.1
  have := hf ⟨2, "D1", .term, ["X2"]⟩ (by decide) rfl (by decide) 1 (by decide)
  revert this
  decide

/-- the fragment machine of `Model/RSModel.lean` is simulated by the instance `(fragA, fragE)` of the
generic machine, step by step (`toGR` drops the text interpretation; `opsG st op`: the 0 or 1 generic
operations a fragment operation amounts to in the state `st`) -/
theorem fragment_is_instance (st : RSModel.St) (op : RSModel.Op) :
    toGR (RSModel.step false st op) = (opsG st op).foldl (step fragA fragE) (toGR st) := toGR_step st op

/-- **C11 for the fragment, as a corollary of the generic theorem** (`fragA_lawful`, `fragE_lawful`,
`fragEquivariant` discharge the hypotheses; nothing of the fragment-specific development
`Lemmas/RSModel.lean` §2–§8 is used) -/
theorem fresh_from_generic (ops : List RSModel.Op) (ha : RSModel.AdmissibleFrom {} ops) :
    (RSModel.run false ops).fresh = true := fresh_via_generic ops ha

/-! non-vacuity: the fragment of `Model/RSModel.lean` is an instance of all three sets of laws; an
admissible history with data edits, a definition edit over a dependant, renamings with and without
substitution and an erasure, in which calculated values survive -/

example : EvalLawful fragA fragE := fragE_lawful
example : Equivariant fragA fragE := fragEquivariant
example : EvalLawful heightA nameE := nameE_lawful

def gHist : List (Op Schema.Def RSModel.Data) :=
  [.schema (.insert ⟨1, "X1", .base, .empty⟩), .setBase 1 [1, 2],
   .schema (.insert ⟨2, "D1", .term, .union ["X1"]⟩), .schema (.insert ⟨3, "D2", .term, .union ["D1"]⟩),
   .schema (.insert ⟨4, "D3", .term, .union ["X1", "X1"]⟩), .recalculateAll,
   .schema (.setDef 2 (.union ["D3"])), .calculate 2, .setBase 1 [1, 3], .calculate 4,
   .schema (.erase 3), .schema .updateState]

example : AdmissibleFrom fragA fragE {} gHist := by decide
example : (run fragA fragE gHist).report =
    [(1, false, some [1, 3]), (2, false, none), (4, true, some [1, 3])] := by decide

def gHistRen : List (Op Schema.Def RSModel.Data) :=
  gHist ++ [.calculate 2, .schema (.setAlias 1 "X2" true), .schema (.substitute [("D1", "D5"), ("D3", "D1")]),
    .schema (.setAlias 4 "D7" false)]

example : AdmissibleAllFrom fragA fragE {} gHistRen := by decide
example : (run fragA fragE gHistRen).report =
    [(1, false, some [1, 3]), (2, false, none), (4, true, some [1, 3])] := by decide

end CCVerif.RSModelGen

/-! # The real type-checker model + the real evaluator model

`checkerA` / `checkerR` (`Lemmas/CheckerAnalysis.lean`, `Lemmas/CheckerRename.lean`): the C03 type checker
as the analysis; `evaluatorE fuel` (`Lemmas/EvaluatorAnalysis.lean`): `Interpreter::Evaluate` =
`Model/Normalize.lean` + `Model/Eval.lean` on the tree of `Generator::GlobalDefinition(alias, definition)`
against the values stored for the mentioned constituents, as `CalculateCstInternal` runs it.
`EvalLawful` is PROVED for this pair (`evaluatorE_lawful`; `mono` by induction over the name collector,
`Lemmas/EvaluatorFrame.lean`), so the generic theorem applies. Restrictions of the instance (all
explicit in `Lemmas/EvaluatorAnalysis.lean`): empty `SyntaxTreeContext` (a term that calls a term
function gets no value), constant `TraitsFor`, kinds base / term. -/
namespace CCVerif.RSModelGen
open CCVerif.SchemaGen (checkerA checkerR CDef CInfo checkerA_lawful checkerR_lawful glob setMinus renameC mentionsOf)

/-- full statement: the checker with the real `rename` and the evaluator, ALL admissible histories
(renamings with and without substitution included) -/
def fresh_checker_evaluator_statement : Prop :=
  ∀ (traits : Types.TraitEnv) (fuel : Nat) (ops : List (Op CDef Eval.Val)),
    AdmissibleAllFrom (checkerR fun _ => traits) (evaluatorE fuel) {} ops →
    (run (checkerR fun _ => traits) (evaluatorE fuel) ops).Fresh (checkerR fun _ => traits) (evaluatorE fuel)

/-- **C11 for the type-checker model and the evaluator model** (part: histories without the renaming
operations `setAlias` / `substitute`, which `AdmissibleFrom` excludes). For every trait environment,
every fuel and every admissible history of insertions, erasures, definition edits, `UpdateState`, data
edits of base sets, `Calculate` and `RecalculateAll` — definitions being arbitrary syntax trees — every
term that reports a calculated value reports the value a full re-analysis and recalculation from the
current base data and definitions gives. No hypothesis on analysis or evaluation is left. -/
theorem fresh_checker_evaluator_partial (traits : Types.TraitEnv) (fuel : Nat) (ops : List (Op CDef Eval.Val))
    (ha : AdmissibleFrom (checkerA fun _ => traits) (evaluatorE fuel) {} ops) :
    (run (checkerA fun _ => traits) (evaluatorE fuel) ops).Fresh (checkerA fun _ => traits) (evaluatorE fuel) :=
  fresh_generic_no_renaming _ _ (checkerA_lawful _) (evaluatorE_lawful traits fuel) ops ha

/-- the same over the checker instance with the real `rename` of C08 -/
theorem fresh_checkerR_evaluator_partial (traits : Types.TraitEnv) (fuel : Nat) (ops : List (Op CDef Eval.Val))
    (ha : AdmissibleFrom (checkerR fun _ => traits) (evaluatorE fuel) {} ops) :
    (run (checkerR fun _ => traits) (evaluatorE fuel) ops).Fresh (checkerR fun _ => traits) (evaluatorE fuel) :=
  fresh_generic_no_renaming _ _ (checkerR_lawful _) (evaluatorE_lawfulR traits fuel) ops ha

/-- stronger, independent of the `calculated` flag: whatever value is stored for a term is the value a
full recalculation assigns -/
theorem stored_eq_recomputed_checker_evaluator_partial (traits : Types.TraitEnv) (fuel : Nat)
    (ops : List (Op CDef Eval.Val))
    (ha : AdmissibleFrom (checkerA fun _ => traits) (evaluatorE fuel) {} ops) {u : Nat} {v : Eval.Val}
    (hk : (run (checkerA fun _ => traits) (evaluatorE fuel) ops).kindOf u = some .term)
    (hv : (run (checkerA fun _ => traits) (evaluatorE fuel) ops).dataFor u = some v) :
    ((run (checkerA fun _ => traits) (evaluatorE fuel) ops).recomputed (checkerA fun _ => traits)
      (evaluatorE fuel)).dataFor u = some v :=
  (Inv.run (checkerA_lawful _) (evaluatorE_lawful traits fuel) ha).recomputed_eq (checkerA_lawful _)
    (evaluatorE_lawful traits fuel) hk hv

/-- why the full statement does not follow from `fresh_generic`: the law `Equivariant.rename_id` is
FALSE for the checker on the carrier `Option Ast` of ALL trees — `TranslateRS` renames every global
token, the graph updater reports the visited positions only. In the tree `X1(X2)` (a child below an
identifier, which no parser builds) `X2` is not mentioned, and renaming `X2 ↦ X3` changes the tree. -/
theorem equivariant_checker_counterexample (traits : Types.TraitEnv) (fuel : Nat) :
    ¬ Nonempty (Equivariant (checkerR fun _ => traits) (evaluatorE fuel)) := by
  rintro ⟨hQ⟩
  have hm : ∀ m ∈ mentionsOf (some (.node .ID_GLOBAL (.text "X1") 0 0 [glob "X2"])),
      ren (fun n => if n = "X2" then some "X3" else none) m = m := by decide
  have h : renameC (fun n => if n = "X2" then some "X3" else none)
      (some (.node .ID_GLOBAL (.text "X1") 0 0 [glob "X2"])) = some (.node .ID_GLOBAL (.text "X1") 0 0 [glob "X2"]) :=
    hQ.rename_id (fun n => if n = "X2" then some "X3" else none)
      (some (.node .ID_GLOBAL (.text "X1") 0 0 [glob "X2"])) hm
  revert h
  decide

private def un (a b : Syntax.Ast) : Syntax.Ast := .node .UNION .none 0 0 [a, b]

/-- `X1` = {1,2}; `D1 := X1∪X1`, `D2 := D1\X1`, both calculated; `X1` edited to {1,3}; `D1` calculated;
the definition of `D2` edited to `D1∪D1`; `D2` calculated; `X1` edited to {5}; `D1` calculated -/
def histEval : List (Op CDef Eval.Val) :=
  [.schema (.insert ⟨1, "X1", .base, none⟩), .setBase 1 (.s [.e 1, .e 2]),
   .schema (.insert ⟨2, "D1", .term, some (un (glob "X1") (glob "X1"))⟩),
   .schema (.insert ⟨3, "D2", .term, some (setMinus (glob "D1") (glob "X1"))⟩),
   .recalculateAll, .setBase 1 (.s [.e 1, .e 3]), .calculate 2,
   .schema (.setDef 3 (some (un (glob "D1") (glob "D1")))), .calculate 3, .setBase 1 (.s [.e 5]), .calculate 2]

/-! non-vacuity: the history is admissible; the values after `RecalculateAll`, after the second
`Calculate` and at the end -/
example : AdmissibleFrom (checkerA fun _ => []) (evaluatorE 10) {} histEval := by decide +kernel
example : (run (checkerA fun _ => []) (evaluatorE 10) (histEval.take 5)).report =
    [(1, false, some (.s [.e 1, .e 2])), (2, true, some (.s [.e 1, .e 2])), (3, true, some (.s []))] := by
  decide +kernel
example : (run (checkerA fun _ => []) (evaluatorE 10) (histEval.take 9)).report =
    [(1, false, some (.s [.e 1, .e 3])), (2, true, some (.s [.e 1, .e 3])), (3, true, some (.s [.e 1, .e 3]))] := by
  decide +kernel
example : (run (checkerA fun _ => []) (evaluatorE 10) histEval).report =
    [(1, false, some (.s [.e 5])), (2, true, some (.s [.e 5])), (3, false, none)] := by
  decide +kernel
example : EvalLawful (checkerA fun _ => []) (evaluatorE 10) := evaluatorE_lawful [] 10

end CCVerif.RSModelGen

/-! # The checker model + the evaluator model WITH renaming operations, on grammar-shaped definitions

`Equivariant` asks the renaming laws for every partial map and every tree, which is false for the checker
(`equivariant_checker_counterexample`). On the CARRIER the machine really works on — every stored constituent has
a good alias (`GoodName`) and a grammar-shaped definition (`cstShaped`: `Wf.wf .ND` + the token texts the lexer
gives, `Lemmas/CheckerWfCarrier.lean`) — the laws are only needed for the maps that occur, and there they follow
from the C08 equivariance of the checker:
* `rename_id_on_carrier` — the field that was false on `Option Ast`;
* `checker_carrier` — admissibility: the map of a `SetAliasFor(…, substitute = true)` / `SubstitueAliases` step,
  injective on the aliases because they stay pairwise distinct, IS an admissible renaming (`NameBij.ofMap`) that
  is good for every stored constituent;
* `Inv.run_on` (`Lemmas/RSModelGenRenOn.lean`) — the generic machine under these carrier laws.
What is left is ONE law of the evaluator model alone, `evaluator_rename_statement` (open): `Interpreter::Evaluate`
gives the same value on the renamed tree against the renamed data context. -/
namespace CCVerif.RSModelGen
open CCVerif.SchemaGen (defShaped renameC_id_shaped checkerR CDef CInfo checkerR_lawful glob setMinus renameC mentionsOf)

/-- **`Equivariant.rename_id` holds on the carrier**: `TranslateRS` with a map that does not touch the mentioned
names leaves a grammar-shaped definition alone (on all of `Option Ast` it does not:
`equivariant_checker_counterexample`) -/
theorem rename_id_on_carrier (f : String → Option String) (d : CDef) (hs : defShaped d = true)
    (h : ∀ m ∈ mentionsOf d, ren f m = m) : renameC f d = d :=
  renameC_id_shaped f hs h

/-- the tree of `equivariant_checker_counterexample` is not in the carrier -/
example : defShaped (some (.node .ID_GLOBAL (.text "X1") 0 0 [glob "X2"])) = false := by decide +kernel

/-- **C11 for the type-checker model and the evaluator model, histories WITH `SetAliasFor(…, substitute = true)`
and `SubstitueAliases`** (part: `SetAliasFor(…, substitute = false)` excluded — `NoPlainRename`; the evaluator
law `evaluator_rename_statement` is a hypothesis). For constant traits whose keys are not good names, every
fuel, every admissible history (aliases stay pairwise distinct) of insertions, erasures, definition edits,
`UpdateState`, data edits, `Calculate`, `RecalculateAll` and renamings with substitution along which every
stored constituent is in the carrier: every term that reports a calculated value reports the value a full
re-analysis and recalculation gives. The checker half of the equivariance is PROVED (`checker_carrier`). -/
theorem fresh_checker_evaluator_partial2 (traits : Types.TraitEnv) (hT : TraitsApart traits) (fuel : Nat)
    (hev : evaluator_rename_statement fuel) (ops : List (Op CDef Eval.Val))
    (ha : AdmissibleAllFrom (checkerR fun _ => traits) (evaluatorE fuel) {} ops)
    (hnp : ∀ op ∈ ops, NoPlainRename op)
    (hP : ∀ k, ∀ c ∈ (run (checkerR fun _ => traits) (evaluatorE fuel) (ops.take k)).sch.store, cstShaped c) :
    (run (checkerR fun _ => traits) (evaluatorE fuel) ops).Fresh (checkerR fun _ => traits) (evaluatorE fuel) :=
  (Inv.run_on (checkerR_lawful _) (evaluatorE_lawfulR traits fuel) (SchemaGen.checkerEquivariance fun _ => traits)
    (evalEquivariance_of traits fuel hev) (checker_carrier traits hT) ha hnp hP).fresh (checkerR_lawful _)
    (evaluatorE_lawfulR traits fuel)

/-- `X1` = {1,2}; `D1 := X1∪X1`, `D2 := D1\X1`, both calculated; `X1` renamed to `X2` with substitution; then
`D1 ↦ D5`, `D2 ↦ D1` simultaneously -/
def histEvalRen : List (Op CDef Eval.Val) :=
  [.schema (.insert ⟨1, "X1", .base, none⟩), .setBase 1 (.s [.e 1, .e 2]),
   .schema (.insert ⟨2, "D1", .term, some (un (glob "X1") (glob "X1"))⟩),
   .schema (.insert ⟨3, "D2", .term, some (setMinus (glob "D1") (glob "X1"))⟩),
   .recalculateAll, .schema (.setAlias 1 "X2" true), .schema (.substitute [("D1", "D5"), ("D2", "D1")])]

/-! non-vacuity of the hypotheses on the history (the evaluator law is the open hypothesis): admissible, no plain
rename, every stored constituent in the carrier at every step; the calculated values SURVIVE both renamings and
agree with a full recalculation; the conclusion of the evaluator law on the renaming of this history -/
example : AdmissibleAllFrom (checkerR fun _ => []) (evaluatorE 10) {} histEvalRen := by decide +kernel
example : ∀ op ∈ histEvalRen, NoPlainRename op := by decide
example : TraitsApart [] ∧ TraitsApart [("Z", Types.Traits.nominal)] := by decide +kernel

theorem histEvalRen_shaped : ∀ k, ∀ c ∈ (run (checkerR fun _ => []) (evaluatorE 10) (histEvalRen.take k)).sch.store,
    cstShaped c := by
  intro k
  by_cases hk : k < 8
  · have h : ∀ k ∈ List.range 8, ∀ c ∈ (run (checkerR fun _ => []) (evaluatorE 10) (histEvalRen.take k)).sch.store,
        cstShaped c := by decide +kernel
    exact h k (List.mem_range.2 hk)
  · rw [List.take_of_length_le (by simp only [histEvalRen, List.length_cons, List.length_nil]; omega)]
    decide +kernel

theorem fresh_checker_evaluator_rename_example :
    (run (checkerR fun _ => []) (evaluatorE 10) (histEvalRen.take 5)).report =
      [(1, false, some (.s [.e 1, .e 2])), (2, true, some (.s [.e 1, .e 2])), (3, true, some (.s []))] ∧
    (run (checkerR fun _ => []) (evaluatorE 10) histEvalRen).report =
      [(1, false, some (.s [.e 1, .e 2])), (2, true, some (.s [.e 1, .e 2])), (3, true, some (.s []))] ∧
    ((run (checkerR fun _ => []) (evaluatorE 10) histEvalRen).recomputed (checkerR fun _ => [])
      (evaluatorE 10)).report =
      [(1, false, some (.s [.e 1, .e 2])), (2, true, some (.s [.e 1, .e 2])), (3, true, some (.s []))] ∧
    (run (checkerR fun _ => []) (evaluatorE 10) histEvalRen).sch.store =
      [⟨1, "X2", .base, none⟩, ⟨2, "D5", .term, some (un (glob "X2") (glob "X2"))⟩,
       ⟨3, "D1", .term, some (setMinus (glob "D5") (glob "X2"))⟩] ∧
    evalC 10 (fun m => if m = "X1" then some (.s [.e 1, .e 2]) else none)
      ⟨2, "D1", .term, some (un (glob "X1") (glob "X1"))⟩ = some (.s [.e 1, .e 2]) ∧
    evalC 10 (fun m => if m = "X2" then some (.s [.e 1, .e 2]) else none)
      ⟨2, "D5", .term, some (un (glob "X2") (glob "X2"))⟩ = some (.s [.e 1, .e 2]) := by
  decide +kernel

end CCVerif.RSModelGen

/-! # The evaluator law, proved (prover-C11s)

`evaluator_rename_statement` quantifies over EVERY `NameBij` that fixes the radicals; such a bijection may move
strings that are not names at all (e.g. exchange the global token `XY` with the local spelling `aB`), and then the
name collector — ONE slot table for local and global spellings — identifies the two. The renamings that occur
(`checker_carrier`: `NameBij.ofMap`, a product of transpositions of good names) move GOOD NAMES ONLY. For those the
law is proved: the normaliser commutes with the renaming of the global tokens (`Eval.normalizeTree_renAst`), name
collector and interpreter are invariant under a bijective renaming of all spellings (`Eval.evalNorm_ren`: same slots,
same data, same iteration counter, values compared by content). The one remaining hypothesis is decidable and
spelling-only: no local variable of the NORMALISED tree is spelled like a good global name (`normLocalsOK`; the
lexer's `local_id` starts with `_` or a lower-case letter, generated names with `@` — not derived from `Wf.wf`
here). -/
namespace CCVerif.RSModelGen
open CCVerif.SchemaGen (checkerR CDef CInfo checkerR_lawful glob Cst)

/-- **the statement `evaluator_rename_statement` (EVERY `NameBij` that fixes the radicals) is false in the model**:
the transposition `XY ↔ aB` of a `global_id` spelling and a `local_id` spelling, both not blocks, is such a
bijection; on `D{aB∈XY | aB=aB}` the renamed global token and the bound variable share one slot of the name
collector (`{1,2}` becomes `∅`). Not a defect of the code: no renaming of the machine moves anything but good names
(`checker_carrierG`), and for those the law holds (`evaluator_rename_partial1`). -/
theorem evaluator_rename_counterexample' : ¬ evaluator_rename_statement 10 := evaluator_rename_counterexample

/-- what is left of the evaluator law: `normLocalsOK` follows from the carrier (`cstShaped`: every `ID_LOCAL` text
lexes as `local_id`; the normaliser only adds names that start with `@`) -/
def normLocals_statement : Prop := ∀ (fuel : Nat) (c : Cst CDef), cstShaped c → normLocalsOK fuel c = true

/-- **the evaluator law of C11** (`evaluator_rename_statement` for the renamings that occur): for a `NameBij` that
moves good names only, a constituent of the carrier whose normalised tree has no local variable spelled like a good
name and two data contexts related by the bijection on the mentioned names, `Interpreter::Evaluate` gives the
renamed constituent the value it gives the constituent -/
theorem evaluator_rename_partial1 (fuel : Nat) (n : Checker.NameBij)
    (hfix : ∀ s, ¬ Checker.GoodName s → n.b.f s = s) (ctx ctx' : String → Option Eval.Val) (c : Cst CDef)
    (v : Eval.Val) (hs : cstShaped c) (hl : normLocalsOK fuel c = true)
    (hctx : ∀ m ∈ SchemaGen.mentionsOf c.defn, ∀ x, ctx m = some x → ctx' (n.b.f m) = some x)
    (he : evalC fuel ctx c = some v) :
    evalC fuel ctx' (SchemaGen.renCstC (Checker.CRen.ofNameBij n) c) = some v :=
  evaluator_rename_partial fuel n hfix ctx ctx' c v hs hl hctx he

/-- **C11 for the type-checker model and the evaluator model, histories WITH `SetAliasFor(…, substitute = true)` and
`SubstitueAliases`, NO open law** (part: `SetAliasFor(…, substitute = false)` excluded — `NoPlainRename`; the
carrier also asks `normLocalsOK`, decidable). For constant traits whose keys are not good names, every fuel, every
admissible history of insertions, erasures, definition edits, `UpdateState`, data edits, `Calculate`,
`RecalculateAll` and renamings with substitution along which every stored constituent is in the carrier: every term
that reports a calculated value reports the value a full re-analysis and recalculation gives. -/
theorem fresh_checker_evaluator_partial3 (traits : Types.TraitEnv) (hT : TraitsApart traits) (fuel : Nat)
    (ops : List (Op CDef Eval.Val))
    (ha : AdmissibleAllFrom (checkerR fun _ => traits) (evaluatorE fuel) {} ops)
    (hnp : ∀ op ∈ ops, NoPlainRename op)
    (hP : ∀ k, ∀ c ∈ (run (checkerR fun _ => traits) (evaluatorE fuel) (ops.take k)).sch.store, cstShapedN fuel c) :
    (run (checkerR fun _ => traits) (evaluatorE fuel) ops).Fresh (checkerR fun _ => traits) (evaluatorE fuel) :=
  (Inv.run_on (checkerR_lawful _) (evaluatorE_lawfulR traits fuel) (SchemaGen.checkerEquivariance fun _ => traits)
    (evalEquivarianceG traits fuel) (checker_carrierG traits hT fuel) ha hnp hP).fresh (checkerR_lawful _)
    (evaluatorE_lawfulR traits fuel)

/-! non-vacuity: the renaming history `histEvalRen` meets every hypothesis (admissible, no plain rename: above) -/
theorem histEvalRen_shapedN : ∀ k, ∀ c ∈ (run (checkerR fun _ => []) (evaluatorE 10) (histEvalRen.take k)).sch.store,
    cstShapedN 10 c := by
  intro k
  by_cases hk : k < 8
  · have h : ∀ k ∈ List.range 8, ∀ c ∈ (run (checkerR fun _ => []) (evaluatorE 10) (histEvalRen.take k)).sch.store,
        cstShapedN 10 c := by decide +kernel
    exact h k (List.mem_range.2 hk)
  · rw [List.take_of_length_le (by simp only [histEvalRen, List.length_cons, List.length_nil]; omega)]
    decide +kernel

/-- a definition with a bound variable and a tuple pattern is in the carrier: `D{(a,b)∈X1×X1 | a=b}` -/
example : cstShapedN 10 ⟨2, "D1", .term, some (.node .NT_DECLARATIVE_EXPR .none 0 0
    [.node .NT_TUPLE_DECL .none 0 0 [.node .ID_LOCAL (.text "a") 0 0 [], .node .ID_LOCAL (.text "b") 0 0 []],
     .node .DECART .none 0 0 [glob "X1", glob "X1"],
     .node .EQUAL .none 0 0 [.node .ID_LOCAL (.text "a") 0 0 [], .node .ID_LOCAL (.text "b") 0 0 []]])⟩ := by
  decide +kernel

example : (run (checkerR fun _ => []) (evaluatorE 10) histEvalRen).Fresh (checkerR fun _ => []) (evaluatorE 10) :=
  fresh_checker_evaluator_partial3 [] (by decide) 10 histEvalRen (by decide +kernel) (by decide) histEvalRen_shapedN

end CCVerif.RSModelGen

/-! # The last carrier condition, discharged (prover-C06f)

`normLocals_statement` is PROVED (`Lemmas/NormLocals.lean`): in a grammar-shaped tree every `ID_LOCAL` token carries a
text that lexes (MATH) as ONE `ID_LOCAL` token (`Wf.wf`, `wfLeaf`); such a text does not start with an upper-case
letter (the only rules of the table with the actions skip / newline / `ID_LOCAL` / `END` are `{local_id}`, the blank
rules, `\n` and `<<EOF>>`, none of which matches at an upper-case letter), so it is not a `GoodName`; the normaliser
with the empty `SyntaxTreeContext` keeps the local spellings and adds only names that `ProcessTupleDeclaration`
generates, which start with `@` (induction through all of `Model/Normalize.lean`). -/
namespace CCVerif.RSModelGen
open CCVerif.SchemaGen (checkerR CDef CInfo checkerR_lawful glob Cst)

/-- **`normLocals_statement` holds**: on the carrier `cstShaped` (good alias, grammar-shaped definition) no local
variable of the normalised definition tree is spelled like a good global name, for every fuel. (Only the
definition half of `cstShaped` is used.) -/
theorem normLocals_proved : normLocals_statement :=
  fun fuel c hs => normLocalsOK_of_shaped fuel c hs.2

/-- the two carriers coincide -/
theorem cstShapedN_iff (fuel : Nat) (c : Cst CDef) : cstShapedN fuel c ↔ cstShaped c :=
  ⟨fun h => h.1, fun h => ⟨h, normLocals_proved fuel c h⟩⟩

/-- **C11 for the type-checker model and the evaluator model, histories WITH `SetAliasFor(…, substitute = true)` and
`SubstitueAliases`; carrier = grammar-shaped constituents, nothing else** (`fresh_checker_evaluator_partial3` without
its condition `normLocalsOK`; part: `SetAliasFor(…, substitute = false)` excluded — `NoPlainRename`; that every stored
constituent stays grammar-shaped along the history is a hypothesis — it is NOT a consequence of "every inserted
definition was parsed": `cstShaped_history_counterexample`). -/
theorem fresh_checker_evaluator_partial4 (traits : Types.TraitEnv) (hT : TraitsApart traits) (fuel : Nat)
    (ops : List (Op CDef Eval.Val))
    (ha : AdmissibleAllFrom (checkerR fun _ => traits) (evaluatorE fuel) {} ops)
    (hnp : ∀ op ∈ ops, NoPlainRename op)
    (hP : ∀ k, ∀ c ∈ (run (checkerR fun _ => traits) (evaluatorE fuel) (ops.take k)).sch.store, cstShaped c) :
    (run (checkerR fun _ => traits) (evaluatorE fuel) ops).Fresh (checkerR fun _ => traits) (evaluatorE fuel) :=
  fresh_checker_evaluator_partial3 traits hT fuel ops ha hnp
    (fun k c hc => (cstShapedN_iff fuel c).2 (hP k c hc))

/-! non-vacuity: `histEvalRen` with the carrier hypothesis `histEvalRen_shaped` (no `normLocalsOK` evaluated) -/
example : (run (checkerR fun _ => []) (evaluatorE 10) histEvalRen).Fresh (checkerR fun _ => []) (evaluatorE 10) :=
  fresh_checker_evaluator_partial4 [] (by decide) 10 histEvalRen (by decide +kernel) (by decide) histEvalRen_shaped

/-- non-vacuity of `normLocals_proved` on a definition with a tuple pattern, whose normalised tree has the generated
local `@ab`: `D{(a,b)∈X1×X1 | a=b}` -/
example :
    let c : Cst CDef := ⟨2, "D1", .term, some (.node .NT_DECLARATIVE_EXPR .none 0 0
      [.node .NT_TUPLE_DECL .none 0 0 [.node .ID_LOCAL (.text "a") 0 0 [], .node .ID_LOCAL (.text "b") 0 0 []],
       .node .DECART .none 0 0 [glob "X1", glob "X1"],
       .node .EQUAL .none 0 0 [.node .ID_LOCAL (.text "a") 0 0 [], .node .ID_LOCAL (.text "b") 0 0 []]])⟩
    cstShaped c ∧ (SchemaGen.cstTree c).bind (fun tr => (Norm.normalizeTree [] 10 tr).map Norm.collectLocals) =
      some ["@ab", "@ab", "@ab"] := by
  decide +kernel

/-! ## carrier preservation by the operations is NOT a consequence of "good inputs" -/

/-- what an operation feeds into the store is in the carrier: inserted constituents are grammar-shaped with a good
alias, edited definitions are grammar-shaped, new aliases are good names -/
def OpShaped : Op CDef Eval.Val → Prop
  | .schema (.insert c) => cstShaped c
  | .schema (.load c) => cstShaped c
  | .schema (.setDef _ d) => SchemaGen.defShaped d = true
  | .schema (.setAlias _ a _) => Checker.GoodName a
  | .schema (.substitute m) => ∀ p ∈ m, Checker.GoodName p.2
  | _ => True

instance (op : Op CDef Eval.Val) : Decidable (OpShaped op) := by
  unfold OpShaped
  split <;> infer_instance

/-- the statement one would like (then `hP` of `fresh_checker_evaluator_partial4` would follow from a condition on
the operations alone). FALSE: `cstShaped_history_counterexample`. -/
def cstShaped_history_statement : Prop :=
  ∀ (traits : Types.TraitEnv) (fuel : Nat) (ops : List (Op CDef Eval.Val)),
    AdmissibleAllFrom (checkerR fun _ => traits) (evaluatorE fuel) {} ops → (∀ op ∈ ops, NoPlainRename op) →
    (∀ op ∈ ops, OpShaped op) →
    ∀ k, ∀ c ∈ (run (checkerR fun _ => traits) (evaluatorE fuel) (ops.take k)).sch.store, cstShaped c

/-- `X1` = {1,2}; `D1 := X1∪X1`, calculated; `X1` renamed to `F1` with substitution -/
def histKind : List (Op CDef Eval.Val) :=
  [.schema (.insert ⟨1, "X1", .base, none⟩), .setBase 1 (.s [.e 1, .e 2]),
   .schema (.insert ⟨2, "D1", .term, some (un (glob "X1") (glob "X1"))⟩),
   .recalculateAll, .schema (.setAlias 1 "F1" true)]

/-- **cstShaped_history_counterexample**: the carrier is not closed under the renaming operations of the machine, even
when every inserted constituent is grammar-shaped and every new alias is a `GoodName`: renaming the base set `X1` to
`F1` (a good name, but of another lexical KIND) with substitution turns the stored definition `X1∪X1` into the tree
`F1∪F1` whose `ID_GLOBAL` tokens carry the text `F1`, which lexes as `ID_FUNCTION` — not `Wf.wf`. (The model stores
TREES and renames tokens; the real code stores the TEXT `F1∪F1`, which re-parses with `ID_FUNCTION` tokens.) The
history is admissible and the reported values ARE fresh, so this is a limit of the carrier, not a defect: a
preservation theorem needs renamings that keep the lexical kind of the alias (`X…↦X…`, `D…↦D…`, …). -/
theorem cstShaped_history_counterexample :
    ¬ cstShaped_history_statement ∧
    AdmissibleAllFrom (checkerR fun _ => []) (evaluatorE 10) {} histKind ∧ (∀ op ∈ histKind, NoPlainRename op) ∧
    (∀ op ∈ histKind, OpShaped op) ∧
    (run (checkerR fun _ => []) (evaluatorE 10) histKind).sch.store =
      [⟨1, "F1", .base, none⟩, ⟨2, "D1", .term, some (un (glob "F1") (glob "F1"))⟩] ∧
    ¬ cstShaped ⟨2, "D1", .term, some (un (glob "F1") (glob "F1"))⟩ ∧
    (run (checkerR fun _ => []) (evaluatorE 10) histKind).report =
      ((run (checkerR fun _ => []) (evaluatorE 10) histKind).recomputed (checkerR fun _ => []) (evaluatorE 10)).report := by
  have ha : AdmissibleAllFrom (checkerR fun _ => []) (evaluatorE 10) {} histKind := by decide +kernel
  have hn : ∀ op ∈ histKind, NoPlainRename op := by decide
  have ho : ∀ op ∈ histKind, OpShaped op := by decide +kernel
  have hs : (run (checkerR fun _ => []) (evaluatorE 10) histKind).sch.store =
      [⟨1, "F1", .base, none⟩, ⟨2, "D1", .term, some (un (glob "F1") (glob "F1"))⟩] := by decide +kernel
  have hc : ¬ cstShaped ⟨2, "D1", .term, some (un (glob "F1") (glob "F1"))⟩ := by decide +kernel
  refine ⟨?_, ha, hn, ho, hs, hc, by decide +kernel⟩
  intro h
  have := h [] 10 histKind ha hn ho 5 ⟨2, "D1", .term, some (un (glob "F1") (glob "F1"))⟩
  rw [List.take_of_length_le (by decide), hs] at this
  exact hc (this (by simp))

end CCVerif.RSModelGen

/-! # The plain rename `SetAliasFor(…, substitute = false)` on the carrier (prover-C11u)

`Inv.run_on` excludes the plain rename: the store after it is not the old store renamed by a map (the dependants keep
their definitions, the old name dangles in them), and the carrier hypothesis says nothing about the RENAMED
definitions of the dependants, so the admissibility `RenCarrier.adm` cannot be applied to the whole store. The
dependants lose their values (the repaired defect); the value of every other term is transferred through the
SUB-STORE of the constituents not reachable from the renamed one (`Inv.setAliasFalse_on`,
`Lemmas/CheckerEvaluatorPlain.lean`): frame into the sub-store, `RenCarrier.adm` + `TVal.ren` on the sub-store with
the map `old ↦ new` (which leaves the definitions of the sub-store alone: `RenameIdOn`, the law `rename_id` on the
carrier, `renameC_id_shaped`), then `TVal.rename_sub` into the new store. No new law of checker or evaluator. -/
namespace CCVerif.RSModelGen
open CCVerif.SchemaGen (checkerR CDef CInfo checkerR_lawful glob Cst)

/-- **C11 for the type-checker model and the evaluator model, ALL operations of the machine on the carrier of
grammar-shaped constituents** (`fresh_checker_evaluator_partial4` without `NoPlainRename`). For constant traits whose
keys are not good names, every fuel, every admissible history (aliases stay pairwise distinct, no `load`) of
insertions, erasures, definition edits, `UpdateState`, data edits, `Calculate`, `RecalculateAll`, `SetAliasFor` WITH
and WITHOUT substitution and `SubstitueAliases` along which every stored constituent is grammar-shaped with a good
alias: every term that reports a calculated value reports the value a full re-analysis and recalculation gives.
Part of `fresh_checker_evaluator_statement`: the carrier hypothesis `hP` and `TraitsApart` remain. -/
theorem fresh_checker_evaluator_partial5 (traits : Types.TraitEnv) (hT : TraitsApart traits) (fuel : Nat)
    (ops : List (Op CDef Eval.Val))
    (ha : AdmissibleAllFrom (checkerR fun _ => traits) (evaluatorE fuel) {} ops)
    (hP : ∀ k, ∀ c ∈ (run (checkerR fun _ => traits) (evaluatorE fuel) (ops.take k)).sch.store, cstShaped c) :
    (run (checkerR fun _ => traits) (evaluatorE fuel) ops).Fresh (checkerR fun _ => traits) (evaluatorE fuel) :=
  (Inv.run_onAll (checkerR_lawful _) (evaluatorE_lawfulR traits fuel) (SchemaGen.checkerEquivariance fun _ => traits)
    (evalEquivarianceG traits fuel) (checker_carrierG traits hT fuel) (checker_renameIdOn traits fuel) ha
    (fun k c hc => (cstShapedN_iff fuel c).2 (hP k c hc))).fresh (checkerR_lawful _)
    (evaluatorE_lawfulR traits fuel)

/-- `X1` = {1,2}, `X2` = {3}; `D1 := X1∪X1`, `D2 := X2∪X2`, both calculated; `X1` renamed to `X7` WITHOUT
substitution: `D1` still says `X1∪X1`, is incorrect and loses its value, `D2` keeps its value; then `X2` renamed to
`X3` with substitution -/
def histEvalPlain : List (Op CDef Eval.Val) :=
  [.schema (.insert ⟨1, "X1", .base, none⟩), .setBase 1 (.s [.e 1, .e 2]),
   .schema (.insert ⟨4, "X2", .base, none⟩), .setBase 4 (.s [.e 3]),
   .schema (.insert ⟨2, "D1", .term, some (un (glob "X1") (glob "X1"))⟩),
   .schema (.insert ⟨3, "D2", .term, some (un (glob "X2") (glob "X2"))⟩),
   .recalculateAll, .schema (.setAlias 1 "X7" false), .schema (.setAlias 4 "X3" true)]

/-! non-vacuity: the history has a plain rename, is admissible, every stored constituent is in the carrier at every
step; the reports before and after the plain rename and at the end -/
example : ¬ ∀ op ∈ histEvalPlain, NoPlainRename op := by decide
example : AdmissibleAllFrom (checkerR fun _ => []) (evaluatorE 10) {} histEvalPlain := by decide +kernel

theorem histEvalPlain_shaped :
    ∀ k, ∀ c ∈ (run (checkerR fun _ => []) (evaluatorE 10) (histEvalPlain.take k)).sch.store, cstShaped c := by
  intro k
  by_cases hk : k < 10
  · have h : ∀ k ∈ List.range 10, ∀ c ∈ (run (checkerR fun _ => []) (evaluatorE 10) (histEvalPlain.take k)).sch.store,
        cstShaped c := by decide +kernel
    exact h k (List.mem_range.2 hk)
  · rw [List.take_of_length_le (by simp only [histEvalPlain, List.length_cons, List.length_nil]; omega)]
    decide +kernel

example : (run (checkerR fun _ => []) (evaluatorE 10) histEvalPlain).Fresh (checkerR fun _ => []) (evaluatorE 10) :=
  fresh_checker_evaluator_partial5 [] (by decide) 10 histEvalPlain (by decide +kernel) histEvalPlain_shaped

/-- the reports: before the plain rename `D1` and `D2` are calculated; after `SetAliasFor(X1 ↦ X7, false)` the
dependant `D1` (still `X1∪X1`, `X1` dangling) is INCORRECT and WITHOUT VALUE, `D2` keeps its value; the final report
agrees with a full recalculation -/
theorem fresh_checker_evaluator_plain_example :
    (run (checkerR fun _ => []) (evaluatorE 10) (histEvalPlain.take 7)).report =
      [(1, false, some (.s [.e 1, .e 2])), (2, true, some (.s [.e 1, .e 2])), (3, true, some (.s [.e 3])),
       (4, false, some (.s [.e 3]))] ∧
    (run (checkerR fun _ => []) (evaluatorE 10) (histEvalPlain.take 8)).report =
      [(1, false, some (.s [.e 1, .e 2])), (2, false, none), (3, true, some (.s [.e 3])),
       (4, false, some (.s [.e 3]))] ∧
    (checkerR fun _ => []).ok (SchemaGen.St.infoFor (checkerR fun _ => [])
      (run (checkerR fun _ => []) (evaluatorE 10) (histEvalPlain.take 8)).sch 2) = false ∧
    (checkerR fun _ => []).ok (SchemaGen.St.infoFor (checkerR fun _ => [])
      (run (checkerR fun _ => []) (evaluatorE 10) (histEvalPlain.take 8)).sch 3) = true ∧
    (run (checkerR fun _ => []) (evaluatorE 10) histEvalPlain).sch.store =
      [⟨1, "X7", .base, none⟩, ⟨2, "D1", .term, some (un (glob "X1") (glob "X1"))⟩,
       ⟨3, "D2", .term, some (un (glob "X3") (glob "X3"))⟩, ⟨4, "X3", .base, none⟩] ∧
    (run (checkerR fun _ => []) (evaluatorE 10) histEvalPlain).report =
      ((run (checkerR fun _ => []) (evaluatorE 10) histEvalPlain).recomputed (checkerR fun _ => [])
        (evaluatorE 10)).report := by
  decide +kernel

end CCVerif.RSModelGen
