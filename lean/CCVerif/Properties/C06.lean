import CCVerif.Model.Parser
import CCVerif.Model.AstQuery
import CCVerif.Lemmas.ParserRangesLex
import CCVerif.Lemmas.ParserShapeTop
import CCVerif.Lemmas.RangeExactPos
import CCVerif.Lemmas.ParseRender
import CCVerif.Lemmas.ParseShaped
import CCVerif.Lemmas.ParserWfLex
import CCVerif.Lemmas.IdentsRelex
/-!
# C06 — the parser builds the grammar's tree; node ranges delimit their source text

Models: `Model/Lexer.lean`, `Model/Parser.lean` (shared with C05), `Model/AstQuery.lean`
(`FindMinimalNode`, range predicates).

Proved here: uniqueness of the tree (trivially), the position arithmetic of both lexers
(`mathPos_is_codepoint_offset`), the range bookkeeping of the semantic actions
(`range_actions_nested`), range nesting for the WHOLE grammar (`range_nested_tokens`: every tree
`parseToks` returns on a token stream laid out left to right has nested, ordered, disjoint ranges;
`range_nested`: every tree `parse` returns on a text, in both syntaxes, has `lo < hi` at every node,
children inside the parent, siblings in order and disjoint — `Checker.WfRange`, `rangesNested`, and
the same spelled out per node in `range_nested_nodes`; `findMinimal_deepest_parsed`: on a parsed tree
`FindMinimalNode` returns the deepest covering node; the invariant over the twelve mutually recursive
parser functions is in `Lemmas/ParserRanges*.lean`), instances of the whole parser on concrete texts
with redundant parentheses / newlines / multi-byte symbols, the specification of `FindMinimalNode`
(`findMinimal_none_iff`, `findMinimal_sound`, `findMinimal_deepest`), and "the parser builds the grammar's
tree" in the sense of the checker's shape predicate: `parse_gives_WfParsed` (every parsed tree has the arities,
token payloads, non-empty index lists and set / logic / declaration positions of `Checker.Wf`, at the top one of
`e`, `[args] e`, `X:==`, `X:==…`, `S::=…`; second invariant over the twelve parser functions, on the RAW trees
with their bracket nodes, `Lemmas/ParserShape*.lean`); `parse_gives_WfTop_partial` / `_counterexample`: C03's
narrower `WfTop` misses exactly `S::=rhs` with a right-hand side that is not a set expression.
`range_exact` is proved in its local form for the whole grammar (`range_exact_tiled`, `range_exact_positions`:
every node's range is tiled exactly by the tokens of its own production, its innermost redundant parentheses and
its children; third invariant over the twelve parser functions, `Lemmas/RangeExact*.lean`) and the whitespace
freedom of `parse_renders` (`parse_renders_partial`, `Lemmas/ParsePosMap.lean`).
The freedom of REDUNDANT PARENTHESES is proved on the fragment `E3` of C05 (`parse_renders_parens`: every rendering
`PR.R3` of a fragment term with admissible redundant pairs - any number around a binary set phrase, one around a
connective / predicate in operand position - parses to the tree of the canonical rendering; `Lemmas/ParseRender*.lean`),
with the grammar facts of the property as corollaries (`binary_left_assoc`, `product_flattening`, `quantifier_scope`)
and the limits of the freedom on closed streams (`parens_limits`). NOT proved: the same for the forms outside `E3`
(`{x∈S | P}`, function definitions and global declarations at the top; `parse_renders_parens_statement`) - those
renderings are compared by the correspondence run (`harness/syntax_gen.hpp` `render`, op `c06 tree`).
-/
namespace CCVerif.C06
open CCVerif.Syntax CCVerif.Generated CCVerif.Lexer CCVerif.Parser CCVerif.AstQuery CCVerif.Strings

/-- **parse_deterministic**: the tree of a text is unique. Trivial — the model is a function; it is
stated because the property speaks of "the unique tree": any two successful parses of the same
text in the same syntax are the same tree. (That the function agrees with the LALR automaton is
the correspondence run, not a theorem.) -/
theorem parse_deterministic (syn : Syn) (text : List Nat) (t₁ t₂ : Ast)
    (h₁ : parse syn text = some t₁) (h₂ : parse syn text = some t₂) : t₁ = t₂ := by
  rw [h₁] at h₂; exact Option.some.inj h₂

/-! ## positions of tokens -/

/-- whatever `bestRule` returns was either the incoming candidate or the match of one of the rules -/
private theorem bestRule_origin (syn : Syn) (s : List Nat) : ∀ (rules : List LexRule) (best : Option (Nat × LexAct)) (n : Nat) (act : LexAct),
    bestRule syn s rules best = some (n, act) →
    best = some (n, act) ∨ ∃ r ∈ rules, r.act = act ∧ matchPat syn s r.pat = some n := by
  intro rules
  induction rules with
  | nil => intro best n act h; left; simpa [bestRule] using h
  | cons r rs ih =>
    intro best n act h
    simp only [bestRule] at h
    cases hm : matchPat syn s r.pat with
    | none =>
      rw [hm] at h
      rcases ih best n act (by simpa using h) with h' | ⟨r', hr', ha, hp⟩
      · exact Or.inl h'
      · exact Or.inr ⟨r', List.mem_cons_of_mem _ hr', ha, hp⟩
    | some k =>
      rw [hm] at h
      cases best with
      | none =>
        rcases ih _ n act (by simpa using h) with h' | ⟨r', hr', ha, hp⟩
        · simp at h'; exact Or.inr ⟨r, by simp, h'.2, by rw [hm, h'.1]⟩
        · exact Or.inr ⟨r', List.mem_cons_of_mem _ hr', ha, hp⟩
      | some b =>
        obtain ⟨m, a⟩ := b
        simp only at h
        split at h
        · rcases ih _ n act h with h' | ⟨r', hr', ha, hp⟩
          · simp at h'; exact Or.inr ⟨r, by simp, h'.2, by rw [hm, h'.1]⟩
          · exact Or.inr ⟨r', List.mem_cons_of_mem _ hr', ha, hp⟩
        · rcases ih _ n act h with h' | ⟨r', hr', ha, hp⟩
          · exact Or.inl h'
          · exact Or.inr ⟨r', List.mem_cons_of_mem _ hr', ha, hp⟩

/-- in both generated tables the line-base action belongs to the `\n` pattern only -/
theorem newline_rules : ∀ syn ∈ [Syn.math, .ascii], ∀ r ∈ rulesOf syn, r.act = .newline → r.pat = .newline := by
  decide +kernel

private theorem take_length_take (s : List Nat) (n : Nat) : (s.take n).length ≤ n ∧ s.take (s.take n).length = s.take n := by
  constructor
  · simp [List.length_take]; omega
  · simp [List.length_take, List.take_eq_take_iff]

private theorem drop_drop' (l : List Nat) (a b : Nat) : List.drop b (List.drop a l) = List.drop (a + b) l := by
  first | (rw [List.drop_drop]; done) | (rw [List.drop_drop, Nat.add_comm]; done) | (simp [List.drop_drop]; done)

/-- position invariant of the scanning loop: every token's `lo` is `lineBase + col` plus the number
of units scanned before it, its text sits there, and `hi = lo + columns(text)` -/
private theorem lexGo_positions (syn : Syn) (rules : List LexRule)
    (hnl : ∀ r ∈ rules, r.act = .newline → r.pat = .newline) :
    ∀ (fuel : Nat) (s : List Nat) (lineBase col : Nat) (ts : List RawTok),
      lexGo syn rules fuel s lineBase col = some ts →
      ∀ tok ∈ ts, ∃ k, tok.lo = lineBase + col + k ∧ tok.text = (s.drop k).take tok.text.length ∧
        tok.hi = tok.lo + width syn tok.text := by
  intro fuel
  induction fuel with
  | zero => intro s lb col ts h; simp [lexGo] at h
  | succ fuel ih =>
    intro s lb col ts h tok htok
    cases s with
    | nil =>
      simp only [lexGo] at h
      cases he : eofTok rules with
      | none => rw [he] at h; cases h
      | some t =>
        rw [he] at h; simp at h; subst h
        simp at htok; subst htok
        exact ⟨0, by simp, by simp, by simp [width]; cases syn <;> simp⟩
    | cons c r =>
      simp only [lexGo] at h
      cases hb : bestRule syn (c :: r) rules none with
      | none => rw [hb] at h; cases h
      | some na =>
        obtain ⟨n, act⟩ := na
        rw [hb] at h
        cases n with
        | zero => simp at h
        | succ n =>
          simp only at h
          cases act with
          | tok t =>
            simp only at h
            cases hr : lexGo syn rules fuel ((c :: r).drop (n + 1)) lb (col + (n + 1)) with
            | none => rw [hr] at h; cases h
            | some rest =>
              rw [hr] at h; simp at h; subst h
              rcases List.mem_cons.1 htok with rfl | hin
              · refine ⟨0, by simp, ?_, by simp⟩
                simp only [List.drop_zero]
                exact ((take_length_take (c :: r) (n + 1)).2).symm
              · obtain ⟨k, h1, h2, h3⟩ := ih _ _ _ _ hr tok hin
                refine ⟨n + 1 + k, by omega, ?_, h3⟩
                rw [← drop_drop' (c :: r) (n + 1) k]; exact h2
          | skip =>
            obtain ⟨k, h1, h2, h3⟩ := ih _ _ _ _ h tok htok
            refine ⟨n + 1 + k, by omega, ?_, h3⟩
            rw [← drop_drop' (c :: r) (n + 1) k]; exact h2
          | newline =>
            -- the matched rule is the `\n` rule, so exactly one unit was consumed
            have hn1 : n + 1 = 1 := by
              rcases bestRule_origin syn (c :: r) rules none (n + 1) .newline hb with h' | ⟨r', hr', ha, hp⟩
              · cases h'
              · have := hnl r' hr' ha
                rw [this] at hp
                simp only [matchPat] at hp
                split at hp <;> simp at hp
                omega
            obtain ⟨k, h1, h2, h3⟩ := ih _ _ _ _ h tok htok
            refine ⟨n + 1 + k, by omega, ?_, h3⟩
            rw [← drop_drop' (c :: r) (n + 1) k]; exact h2

/-- **mathPos_is_codepoint_offset**: the MATH lexer's `lineBase + columno()` arithmetic gives every
token the absolute code-point offset of its first symbol (newlines, tabs and multi-byte symbols
before it count one each), the token's text is found at that offset, and `finish - start` is the
number of its symbols (`\r` excepted, which RE-flex's `columns()` does not count). The same
statement for ASCII says positions are byte offsets. -/
theorem mathPos_is_codepoint_offset (syn : Syn) (text : List Nat) (ts : List RawTok)
    (h : lexRaw syn text = some ts) :
    ∀ tok ∈ ts, tok.text = (text.drop tok.lo).take tok.text.length ∧ tok.hi = tok.lo + width syn tok.text := by
  intro tok htok
  have hs : syn ∈ [Syn.math, .ascii] := by cases syn <;> simp
  obtain ⟨k, h1, h2, h3⟩ := lexGo_positions syn (rulesOf syn) (newline_rules syn hs) _ _ _ _ ts h tok htok
  simp at h1
  exact ⟨by rw [h1]; exact h2, h3⟩


/-! ## `FindMinimalNode` -/

/-- the node's range contains the query range (`StrRange::Contains`) -/
def covers (q : StrRange) (a : Ast) : Bool := StrRange.contains ⟨a.lo, a.hi⟩ q

theorem findMinimal_none_iff (q : StrRange) (t : Ast) : findMinimal q t = none ↔ covers q t = false := by
  cases t with
  | node id d lo hi kids =>
    simp only [findMinimal, covers, Ast.lo, Ast.hi]
    cases h : StrRange.contains ⟨lo, hi⟩ q <;> simp
    cases findMinimalKids q kids 0 <;> simp

/-- what `findMinimalKids` returns: the first child (from index `i` on) whose search succeeds -/
private theorem findMinimalKids_spec (q : StrRange) : ∀ (ks : List Ast) (i : Nat),
    match findMinimalKids q ks i with
    | some p => ∃ j k p', p = (i + j) :: p' ∧ ks[j]? = some k ∧ findMinimal q k = some p' ∧
                  ∀ j' k', j' < j → ks[j']? = some k' → covers q k' = false
    | none => ∀ k ∈ ks, covers q k = false
  | [], i => by simp [findMinimalKids]
  | k :: ks, i => by
    simp only [findMinimalKids]
    cases h : findMinimal q k with
    | some p' =>
      refine ⟨0, k, p', by simp, by simp, h, ?_⟩
      intro j' k' hj; omega
    | none =>
      have hk := (findMinimal_none_iff q k).1 h
      have ih := findMinimalKids_spec q ks (i + 1)
      cases h2 : findMinimalKids q ks (i + 1) with
      | some p =>
        rw [h2] at ih
        obtain ⟨j, k2, p', hp, hk2, hf, hall⟩ := ih
        refine ⟨j + 1, k2, p', by rw [hp]; congr 1; omega, by simpa using hk2, hf, ?_⟩
        intro j' k' hj hk'
        cases j' with
        | zero => simp at hk'; subst hk'; exact hk
        | succ j'' => exact hall j'' k' (by omega) (by simpa using hk')
      | none =>
        rw [h2] at ih
        intro k' hk'
        simp at hk'
        rcases hk' with rfl | hk'
        · exact hk
        · exact ih k' hk'

/-- specification of the answer, independent of the search: every node on the path covers the
query and no child of the last node does -/
def IsMinimalAt (q : StrRange) : Ast → List Nat → Prop
  | t, [] => covers q t = true ∧ ∀ k ∈ t.kids, covers q k = false
  | t, i :: p => covers q t = true ∧ ∃ k, t.kids[i]? = some k ∧ IsMinimalAt q k p

private theorem covers_of_findMinimal {q : StrRange} {t : Ast} {p : List Nat} (h : findMinimal q t = some p) :
    covers q t = true := by
  cases hc : covers q t with
  | true => rfl
  | false => rw [(findMinimal_none_iff q t).2 hc] at h; cases h

theorem findMinimal_sound (q : StrRange) : ∀ (p : List Nat) (t : Ast), findMinimal q t = some p → IsMinimalAt q t p := by
  intro p
  induction p with
  | nil =>
    intro t h
    refine ⟨covers_of_findMinimal h, ?_⟩
    cases t with
    | node id d lo hi kids =>
      simp only [findMinimal] at h
      split at h
      · cases h
      · have sp := findMinimalKids_spec q kids 0
        cases h2 : findMinimalKids q kids 0 with
        | some p' =>
          rw [h2] at sp h
          obtain ⟨j, k, p'', hp, _⟩ := sp
          simp at h; rw [hp] at h; cases h
        | none => rw [h2] at sp; exact sp
  | cons i p ih =>
    intro t h
    refine ⟨covers_of_findMinimal h, ?_⟩
    cases t with
    | node id d lo hi kids =>
      simp only [findMinimal] at h
      split at h
      · cases h
      · have sp := findMinimalKids_spec q kids 0
        cases h2 : findMinimalKids q kids 0 with
        | some p' =>
          rw [h2] at sp h
          obtain ⟨j, k, p'', hp, hk, hf, _⟩ := sp
          simp at h
          rw [hp] at h
          simp at h
          obtain ⟨hj, hpp⟩ := h
          subst hj; subst hpp
          exact ⟨k, by simpa [Ast.kids] using hk, ih k hf⟩
        | none => rw [h2] at h; simp at h

/-! ### the answer is the deepest covering node when ranges nest -/

private theorem contains_mono {lo hi lo' hi' : Int} {q : StrRange} (h1 : lo ≤ lo') (h2 : hi' ≤ hi)
    (h : StrRange.contains ⟨lo', hi'⟩ q = true) : StrRange.contains ⟨lo, hi⟩ q = true := by
  simp only [StrRange.contains, StrRange.empty, StrRange.containsPos] at h ⊢
  by_cases he : q.finish = q.start
  · simp only [he, decide_true, if_true, Bool.and_eq_true, decide_eq_true_eq] at h ⊢; omega
  · simp only [he, decide_false, Bool.false_eq_true, if_false, Bool.and_eq_true, decide_eq_true_eq] at h ⊢; omega

private theorem kidsWithin_mem {lo hi : Int} : ∀ {ks : List Ast}, kidsWithin lo hi ks = true → ∀ k ∈ ks, lo ≤ k.lo ∧ k.hi ≤ hi
  | [], _, k, hk => by cases hk
  | a :: as, h, k, hk => by
    simp only [kidsWithin, Bool.and_eq_true, decide_eq_true_eq] at h
    rcases List.mem_cons.1 hk with rfl | hk'
    · exact ⟨h.1.1, h.1.2⟩
    · exact kidsWithin_mem h.2 k hk'

private theorem rangesNestedKids_mem : ∀ {ks : List Ast}, rangesNestedKids ks = true → ∀ k ∈ ks, rangesNested k = true
  | [], _, k, hk => by cases hk
  | a :: as, h, k, hk => by
    simp only [rangesNestedKids, Bool.and_eq_true] at h
    rcases List.mem_cons.1 hk with rfl | hk'
    · exact h.1
    · exact rangesNestedKids_mem h.2 k hk'

private theorem rangesNested_lo_le_hi {t : Ast} (h : rangesNested t = true) : t.lo ≤ t.hi := by
  cases t with
  | node id d lo hi kids =>
    simp only [rangesNested, Bool.and_eq_true, decide_eq_true_eq] at h
    exact h.1.1.1

/-- ordered siblings with non-inverted ranges: an earlier sibling ends before a later one starts -/
private theorem siblings_lt : ∀ {ks : List Ast}, siblingsOrdered ks = true → (∀ k ∈ ks, k.lo ≤ k.hi) →
    ∀ (i j : Nat) (a b : Ast), i < j → ks[i]? = some a → ks[j]? = some b → a.hi ≤ b.lo
  | [], _, _, i, j, a, b, _, ha, _ => by simp at ha
  | [x], _, _, i, j, a, b, hij, ha, hb => by
    cases j with
    | zero => omega
    | succ j => simp at hb
  | x :: y :: r, ho, hle, i, j, a, b, hij, ha, hb => by
    simp only [siblingsOrdered, Bool.and_eq_true, decide_eq_true_eq] at ho
    have hle' : ∀ k ∈ y :: r, k.lo ≤ k.hi := fun k hk => hle k (List.mem_cons_of_mem _ hk)
    cases i with
    | zero =>
      simp at ha; subst ha
      cases j with
      | zero => omega
      | succ j =>
        cases j with
        | zero => simp at hb; subst hb; exact ho.1
        | succ j =>
          have hyb : (y :: r)[0]? = some y := by simp
          have hb' : (y :: r)[j + 1]? = some b := by simpa using hb
          have := siblings_lt ho.2 hle' 0 (j + 1) y b (by omega) hyb hb'
          have hy := hle y (by simp)
          omega
    | succ i =>
      cases j with
      | zero => omega
      | succ j =>
        exact siblings_lt ho.2 hle' i j a b (by omega) (by simpa using ha) (by simpa using hb)

private theorem covers_disjoint {q : StrRange} (hq : q.start ≤ q.finish) {a b : Ast} (ha : a.lo ≤ a.hi) (hb : b.lo ≤ b.hi)
    (hab : a.hi ≤ b.lo) (ca : covers q a = true) (cb : covers q b = true) : False := by
  simp only [covers, StrRange.contains, StrRange.empty, StrRange.containsPos] at ca cb
  by_cases he : q.finish = q.start
  · simp only [he, decide_true, if_true, Bool.and_eq_true, decide_eq_true_eq] at ca cb; omega
  · simp only [he, decide_false, Bool.false_eq_true, if_false, Bool.and_eq_true, decide_eq_true_eq] at ca cb; omega

private theorem rangesNested_unpack {id : Tok} {d : TokData} {lo hi : Int} {kids : List Ast}
    (h : rangesNested (.node id d lo hi kids) = true) :
    lo ≤ hi ∧ kidsWithin lo hi kids = true ∧ siblingsOrdered kids = true ∧ rangesNestedKids kids = true := by
  simp only [rangesNested, Bool.and_eq_true, decide_eq_true_eq] at h
  exact ⟨h.1.1.1, h.1.1.2, h.1.2, h.2⟩

/-- a covering descendant makes every ancestor cover the query -/
private theorem covers_ancestor (q : StrRange) : ∀ (p : List Nat) (t n : Ast), rangesNested t = true →
    nodeAt t p = some n → covers q n = true → covers q t = true := by
  intro p
  induction p with
  | nil => intro t n _ hn hc; simp [nodeAt] at hn; subst hn; exact hc
  | cons i p ih =>
    intro t n ht hn hc
    cases t with
    | node id d lo hi kids =>
      simp only [nodeAt, Ast.kids] at hn
      cases hk : kids[i]? with
      | none => rw [hk] at hn; cases hn
      | some k =>
        rw [hk] at hn
        obtain ⟨_, hw, _, hnk⟩ := rangesNested_unpack ht
        have hmem : k ∈ kids := List.mem_of_getElem? hk
        have hck := ih k n (rangesNestedKids_mem hnk k hmem) hn hc
        have hb := kidsWithin_mem hw k hmem
        exact contains_mono hb.1 hb.2 hck

/-- **findMinimal_deepest**: when ranges nest (children within the parent, siblings ordered and
disjoint) and the query is not inverted, every node that covers the query lies on the path to the
node `FindMinimalNode` returns — the answer is the deepest covering node, and it is unique. -/
theorem findMinimal_deepest (q : StrRange) (hq : q.start ≤ q.finish) : ∀ (p' : List Nat) (t : Ast) (p : List Nat) (n' : Ast),
    rangesNested t = true → findMinimal q t = some p → nodeAt t p' = some n' → covers q n' = true →
    p' <+: p := by
  intro p'
  induction p' with
  | nil => intro t p n' _ _ _ _; exact List.nil_prefix
  | cons i r ih =>
    intro t p n' ht hf hn hc
    cases t with
    | node id d lo hi kids =>
      simp only [nodeAt, Ast.kids] at hn
      cases hk : kids[i]? with
      | none => rw [hk] at hn; cases hn
      | some k =>
        rw [hk] at hn
        obtain ⟨_, hw, hso, hnk⟩ := rangesNested_unpack ht
        have hmem : k ∈ kids := List.mem_of_getElem? hk
        have hkn := rangesNestedKids_mem hnk k hmem
        have hck : covers q k = true := covers_ancestor q r k n' hkn hn hc
        simp only [findMinimal] at hf
        split at hf
        · cases hf
        · have sp := findMinimalKids_spec q kids 0
          cases h2 : findMinimalKids q kids 0 with
          | none =>
            rw [h2] at sp
            have := sp k hmem
            rw [this] at hck; cases hck
          | some p0 =>
            rw [h2] at sp hf
            obtain ⟨j, kj, p'', hp, hkj, hfj, hall⟩ := sp
            simp at hf; subst hf
            have hle : ∀ x ∈ kids, x.lo ≤ x.hi := fun x hx => rangesNested_lo_le_hi (rangesNestedKids_mem hnk x hx)
            have hckj : covers q kj = true := covers_of_findMinimal hfj
            have hij : i = j := by
              rcases Nat.lt_trichotomy i j with h | h | h
              · have := hall i k h hk; rw [this] at hck; cases hck
              · exact h
              · exact (covers_disjoint hq (hle kj (List.mem_of_getElem? hkj)) (hle k hmem)
                  (siblings_lt hso hle j i kj k h hkj hk) hckj hck).elim
            subst hij
            rw [hk] at hkj; cases hkj
            rw [hp]
            simp only [Nat.zero_add]
            exact (List.prefix_cons_inj i).2 (ih k p'' n' hkn hfj hn hc)

/-- non-vacuity: on `a+b*c-d` the cursor range `[4,5)` finds the leaf `c` (path 0.1.1), the range
`[2,5)` the product, an empty range at 1 the operator node `+` (no leaf covers position 1) -/
example :
    let t := Ast.node .MINUS .none 0 7 [.node .PLUS .none 0 5 [.node .ID_LOCAL (.text "a") 0 1 [],
        .node .MULTIPLY .none 2 5 [.node .ID_LOCAL (.text "b") 2 3 [], .node .ID_LOCAL (.text "c") 4 5 []]],
        .node .ID_LOCAL (.text "d") 6 7 []]
    rangesNested t = true ∧ findMinimal ⟨4, 5⟩ t = some [0, 1, 1] ∧ findMinimal ⟨2, 5⟩ t = some [0, 1] ∧
    findMinimal ⟨1, 1⟩ t = some [0] ∧ findMinimal ⟨6, 9⟩ t = none := by
  decide +kernel

/-! ## ranges built by the semantic actions -/

/-- the token stream is laid out left to right: every token has `lo ≤ hi` and ends before the next
one starts (what `mathPos_is_codepoint_offset` gives for the lexer's output) -/
def tokensOrdered : List LTok → Bool
  | [] => true
  | [t] => decide (t.lo ≤ t.hi)
  | a :: b :: r => decide (a.lo ≤ a.hi) && decide (a.hi ≤ b.lo) && tokensOrdered (b :: r)

@[simp] private theorem lo_node (id : Tok) (d : TokData) (lo hi : Int) (ks : List Ast) : (Ast.node id d lo hi ks).lo = lo := rfl
@[simp] private theorem hi_node (id : Tok) (d : TokData) (lo hi : Int) (ks : List Ast) : (Ast.node id d lo hi ks).hi = hi := rfl
@[simp] private theorem kids_node (id : Tok) (d : TokData) (lo hi : Int) (ks : List Ast) : (Ast.node id d lo hi ks).kids = ks := rfl

private theorem rangesNested_single (id : Tok) (d : TokData) (lo hi : Int) (c : Ast) :
    rangesNested (.node id d lo hi [c]) = true ↔ (lo ≤ hi ∧ lo ≤ c.lo ∧ c.hi ≤ hi ∧ rangesNested c = true) := by
  simp only [rangesNested, rangesNestedKids, kidsWithin, siblingsOrdered, Bool.and_eq_true, decide_eq_true_eq,
    Bool.and_true]
  constructor
  · rintro ⟨⟨h1, h2, h3⟩, h4⟩; exact ⟨h1, h2, h3, h4⟩
  · rintro ⟨h1, h2, h3, h4⟩; exact ⟨⟨h1, h2, h3⟩, h4⟩

private theorem kidsWithin_mono {lo hi lo' hi' : Int} (h1 : lo' ≤ lo) (h2 : hi ≤ hi') :
    ∀ {ks : List Ast}, kidsWithin lo hi ks = true → kidsWithin lo' hi' ks = true
  | [], _ => rfl
  | k :: ks, h => by
    simp only [kidsWithin, Bool.and_eq_true, decide_eq_true_eq] at h ⊢
    exact ⟨⟨by omega, by omega⟩, kidsWithin_mono h1 h2 h.2⟩

private theorem kidsWithin_snoc {lo hi : Int} {b : Ast} (hb1 : lo ≤ b.lo) (hb2 : b.hi ≤ hi) :
    ∀ {ks : List Ast}, kidsWithin lo hi ks = true → kidsWithin lo hi (ks ++ [b]) = true
  | [], _ => by simp [kidsWithin]; exact ⟨hb1, hb2⟩
  | k :: ks, h => by
    simp only [kidsWithin, Bool.and_eq_true, decide_eq_true_eq, List.cons_append] at h ⊢
    exact ⟨h.1, kidsWithin_snoc hb1 hb2 h.2⟩

private theorem siblingsOrdered_snoc {b : Ast} :
    ∀ {ks : List Ast}, siblingsOrdered ks = true → (∀ k ∈ ks.getLast?, k.hi ≤ b.lo) → siblingsOrdered (ks ++ [b]) = true
  | [], _, _ => rfl
  | [k], _, hl => by
    have := hl k (by simp)
    simp [siblingsOrdered]; exact this
  | k :: k2 :: ks, h, hl => by
    simp only [siblingsOrdered, Bool.and_eq_true, decide_eq_true_eq, List.cons_append] at h ⊢
    refine ⟨h.1, siblingsOrdered_snoc h.2 ?_⟩
    intro x hx
    apply hl x
    simpa [List.getLast?_cons_cons] using hx

private theorem rangesNestedKids_snoc {b : Ast} (hb : rangesNested b = true) :
    ∀ {ks : List Ast}, rangesNestedKids ks = true → rangesNestedKids (ks ++ [b]) = true
  | [], _ => by simp [rangesNestedKids, hb]
  | k :: ks, h => by
    simp only [rangesNestedKids, Bool.and_eq_true, List.cons_append] at h ⊢
    exact ⟨h.1, rangesNestedKids_snoc hb h.2⟩

/-- **range_actions_nested**: each range-widening action of RSParser.cpp keeps "children lie within
the parent, siblings ordered and disjoint", given operands that satisfy it and lie in text order:
`BinaryOperation`, `UnaryOperation`, `TextOperator`, `RemoveBrackets` (the operand takes the
bracket range; the bracket node is dropped later), `Decartian` (both branches). -/
theorem range_actions_nested :
    (∀ (a b : Ast) (op : LTok), rangesNested a = true → rangesNested b = true → a.hi ≤ b.lo →
        rangesNested (binaryOperation a op b) = true) ∧
    (∀ (a : Ast) (op : LTok), rangesNested a = true → op.lo ≤ a.lo →
        rangesNested (unaryOperation op a) = true) ∧
    (∀ (a : Ast) (op rp : LTok), rangesNested a = true → op.lo ≤ a.lo → a.hi ≤ rp.hi →
        rangesNested (textOperator op a rp) = true) ∧
    (∀ (a : Ast) (l r : LTok), rangesNested a = true → l.lo ≤ a.lo → a.hi ≤ r.hi →
        rangesNested (removeBrackets l a r) = true) ∧
    (∀ (a b : Ast) (op : LTok), rangesNested a = true → rangesNested b = true → a.hi ≤ b.lo →
        (∀ k ∈ a.kids.getLast?, k.hi ≤ b.lo) →
        rangesNested (decartian a op b) = true) := by
  refine ⟨?_, ?_, ?_, ?_, ?_⟩
  · intro a b op ha hb hab
    have h1 := rangesNested_lo_le_hi ha; have h2 := rangesNested_lo_le_hi hb
    simp only [binaryOperation, rangesNested, rangesNestedKids, kidsWithin, siblingsOrdered, ha, hb,
      Bool.and_eq_true, decide_eq_true_eq, Bool.and_true, and_true]
    omega
  · intro a op ha h
    have h1 := rangesNested_lo_le_hi ha
    simp only [unaryOperation, rangesNested, rangesNestedKids, kidsWithin, siblingsOrdered, ha,
      Bool.and_eq_true, decide_eq_true_eq, Bool.and_true, and_true]
    omega
  · intro a op rp ha h h'
    have h1 := rangesNested_lo_le_hi ha
    simp only [textOperator, rangesNested, rangesNestedKids, kidsWithin, siblingsOrdered, ha,
      Bool.and_eq_true, decide_eq_true_eq, Bool.and_true, and_true]
    omega
  · intro a l r ha h h'
    have h1 := rangesNested_lo_le_hi ha
    cases a with
    | node id d lo hi kids =>
      obtain ⟨_, hw, hso, hnk⟩ := rangesNested_unpack ha
      rw [lo_node] at h; rw [hi_node] at h'; rw [lo_node, hi_node] at h1
      have hw' : kidsWithin l.lo r.hi kids = true := kidsWithin_mono h h' hw
      have hlr : l.lo ≤ r.hi := by omega
      have hin : rangesNested (.node id d l.lo r.hi kids) = true := by
        simp only [rangesNested, hw', hso, hnk, Bool.and_eq_true, decide_eq_true_eq, and_true]; exact hlr
      show rangesNested (.node .PUNC_PL .none l.lo r.hi [.node id d l.lo r.hi kids]) = true
      rw [rangesNested_single]
      exact ⟨hlr, by rw [lo_node]; exact Int.le_refl _, by rw [hi_node]; exact Int.le_refl _, hin⟩
  · intro a b op ha hb hab hlast
    have h1 := rangesNested_lo_le_hi ha; have h2 := rangesNested_lo_le_hi hb
    unfold decartian
    split
    · -- the product absorbs the next factor
      cases a with
      | node id d lo hi kids =>
        obtain ⟨_, hw, hso, hnk⟩ := rangesNested_unpack ha
        rw [hi_node] at hab; rw [lo_node, hi_node] at h1; rw [kids_node] at hlast
        have hw' : kidsWithin lo b.hi (kids ++ [b]) = true :=
          kidsWithin_snoc (by omega) (Int.le_refl _) (kidsWithin_mono (Int.le_refl _) (by omega) hw)
        show rangesNested (.node id d lo b.hi (kids ++ [b])) = true
        simp only [rangesNested, hw', siblingsOrdered_snoc hso hlast, rangesNestedKids_snoc hb hnk,
          Bool.and_eq_true, decide_eq_true_eq, and_true]
        omega
    · simp only [binaryOperation, rangesNested, rangesNestedKids, kidsWithin, siblingsOrdered, ha, hb,
        Bool.and_eq_true, decide_eq_true_eq, Bool.and_true, and_true]
      omega

private theorem sorted_of_tokensOrdered : ∀ (ts : List LTok) (p : Int), tokensOrdered ts = true →
    (∀ t ∈ ts.head?, p ≤ t.lo) → ParserRanges.Sorted 0 p ts
  | [], _, _, _ => trivial
  | [t], p, h, hp => by
    simp only [tokensOrdered, decide_eq_true_eq] at h
    rw [ParserRanges.sorted_cons]
    exact ⟨hp t (by simp), by omega, trivial⟩
  | a :: b :: r, p, h, hp => by
    simp only [tokensOrdered, Bool.and_eq_true, decide_eq_true_eq] at h
    rw [ParserRanges.sorted_cons]
    exact ⟨hp a (by simp), by omega, sorted_of_tokensOrdered (b :: r) a.hi h.2 (by intro t ht; simp at ht; subst ht; exact h.1.2)⟩

/-- **range_nested_tokens** (the former `range_nested_statement`, now proved for the whole grammar): on
EVERY token stream laid out left to right (`lo ≤ hi`, each token ending at or before the start of the
next — empty token ranges allowed) every tree the parser returns has nested, ordered, disjoint ranges:
`lo ≤ hi` at every node, children within the parent, an earlier sibling ending at or before the start of
a later one. All twelve parser functions, all semantic actions of `RSParser.cpp`, `TupleDeclaration`,
`CreateSyntaxTree` (`Lemmas/ParserRanges.lean`, `ParserRangesTop.lean`: "the tree built so far lies
between the tokens consumed", by induction on the fuel). -/
theorem range_nested_tokens (ts : List LTok) (t : Ast) (ho : tokensOrdered ts = true) (h : parseToks ts = some t) :
    rangesNested t = true := by
  have hs : ParserRanges.Sorted 0 ((ts.head?.map (·.lo)).getD 0) ts :=
    sorted_of_tokensOrdered ts _ ho (by intro t ht; cases ts with
      | nil => simp at ht
      | cons a r => simp at ht; subst ht; simp)
  exact ParserRanges.nest_rangesNested (Int.le_refl 0) t
    (ParserRanges.nest_parseToks (Int.le_refl 0) ts t _ hs h).1

/-- **range_nested** (DESIGN §8 C06): for both syntaxes, EVERY text and every tree `parse` returns on it:
every node has a non-empty range (`lo < hi`), the children of a node lie within it
(`Checker.WfRange`, the hypothesis of the C03 / C04 checker theorems), siblings are ordered and pairwise
disjoint (`rangesNested`), and the tree starts at or after position 0. Uses the lexer facts "token
ranges are ordered and disjoint" (`Analysis.tiled_ordered`) and "a token other than END / INTERRUPT has
a non-empty range" (`ParserRanges.tiled_strict`: `columns()` skips only `\r`, and no MATH rule other
than the catch-all starts with `\r`). -/
theorem range_nested (syn : Syn) (text : List Nat) (t : Ast) (h : parse syn text = some t) :
    Checker.WfRange t ∧ rangesNested t = true ∧ 0 ≤ t.lo := by
  obtain ⟨hn, h0⟩ := ParserRanges.parse_nest syn text t h
  exact ⟨ParserRanges.nest_wfRange (Int.le_refl 1) t hn, ParserRanges.nest_rangesNested (by decide) t hn, h0⟩

/-- `Nest` at the root gives `Nest` at every path -/
private theorem nest_nodeAt {δ : Int} : ∀ (p : List Nat) (t n : Ast), ParserRanges.Nest δ t → nodeAt t p = some n →
    ParserRanges.Nest δ n
  | [], t, n, ht, hn => by simp [nodeAt] at hn; subst hn; exact ht
  | i :: p, t, n, ht, hn => by
    simp only [nodeAt] at hn
    cases hk : t.kids[i]? with
    | none => rw [hk] at hn; cases hn
    | some k =>
      rw [hk] at hn
      exact nest_nodeAt p k n (ParserRanges.sibs_mem ht.sibs k (List.mem_of_getElem? hk)) hn

private theorem sibs_pair {δ : Int} (hδ : 0 ≤ δ) : ∀ (l : List Ast) (p q : Int), ParserRanges.Sibs δ p l q →
    ∀ (i j : Nat) (a b : Ast), i < j → l[i]? = some a → l[j]? = some b → a.hi ≤ b.lo
  | [], _, _, _, i, j, a, b, _, ha, _ => by simp at ha
  | x :: l, p, q, h, i, j, a, b, hij, ha, hb => by
    rw [ParserRanges.sibs_cons] at h
    cases j with
    | zero => omega
    | succ j =>
      have hb' : l[j]? = some b := by simpa using hb
      cases i with
      | zero =>
        simp at ha; subst ha
        exact (ParserRanges.sibs_within hδ h.2.2 b (List.mem_of_getElem? hb')).1
      | succ i =>
        exact sibs_pair hδ l _ _ h.2.2 i j a b (by omega) (by simpa using ha) hb'

/-- **range_nested_nodes**: `range_nested` spelled out node by node, without auxiliary predicates: for
every node `n` of a parsed tree (at any path): `n.lo < n.hi`; every child lies within `n`; and of two
children the earlier one ends at or before the start of the later one. -/
theorem range_nested_nodes (syn : Syn) (text : List Nat) (t : Ast) (h : parse syn text = some t)
    (path : List Nat) (n : Ast) (hn : nodeAt t path = some n) :
    n.lo < n.hi ∧
    (∀ (i : Nat) (a : Ast), n.kids[i]? = some a → n.lo ≤ a.lo ∧ a.hi ≤ n.hi) ∧
    (∀ (i j : Nat) (a b : Ast), i < j → n.kids[i]? = some a → n.kids[j]? = some b → a.hi ≤ b.lo) := by
  have hN := nest_nodeAt path t n (ParserRanges.parse_nest syn text t h).1 hn
  have hle := hN.le
  refine ⟨by omega, ?_, ?_⟩
  · intro i a ha
    exact ParserRanges.sibs_within (by decide) hN.sibs a (List.mem_of_getElem? ha)
  · exact sibs_pair (by decide) n.kids _ _ hN.sibs

/-- **findMinimal_deepest_parsed**: on every parsed tree (no hypothesis on the ranges any more) and every
query range that is not inverted, every node that covers the query lies on the path to the node
`FindMinimalNode` returns: the answer is the deepest covering node, and it is unique. -/
theorem findMinimal_deepest_parsed (syn : Syn) (text : List Nat) (t : Ast) (h : parse syn text = some t)
    (q : StrRange) (hq : q.start ≤ q.finish) (p p' : List Nat) (n' : Ast)
    (hf : findMinimal q t = some p) (hn : nodeAt t p' = some n') (hc : covers q n' = true) : p' <+: p :=
  findMinimal_deepest q hq p' t p n' (range_nested syn text t h).2.1 hf hn hc

def units (s : String) : List Nat := s.toList.map Char.toNat

/-! ## the shape of parsed trees -/

/-- **parse_gives_WfParsed**: for both syntaxes, EVERY text and every tree `parse` returns on it, the tree has
the shape `Checker.WfParsed Γ xs` for some list `xs` of declared argument names: every node has the arity, the
token payload (identifier spelling, `int`, non-empty index tuple of `pr/Pr/Fi`) and the set / logic /
declaration / block positions that the grammar gives it (`Checker.Wf`, the hypothesis of the C03 theorems), and
the whole input is `e`, `[x₁∈D₁,…] e`, `X:==`, `X:==e`, `X:==[…] e` or `S::=…`. The one hypothesis concerns the
context, not the parser: a function name occurring in the text is not LOGIC-typed in `Γ` (`Wf.sCall`; true of
every `Schema`). Proof: `ParserShape.parserWf` — every parser function, given tokens with the payload of their
kind, returns a RAW tree (bracket nodes inside) that `CreateSyntaxTree` turns into a `Wf` tree of the
category of its nonterminal; `TupleDeclaration` turns raw tuples into declarations. -/
theorem parse_gives_WfParsed (syn : Syn) (text : List Nat) (Γ : Types.Ctx) (t : Ast) (h : parse syn text = some t)
    (hΓ : ∀ ts, lex syn text = some ts → ParserShape.FuncsNotLogic Γ ts) : ∃ xs, Checker.WfParsed Γ xs t :=
  ParserShape.parse_wfParsed syn text t h hΓ

/-- **parse_gives_WfTop_partial**: C03's shape `WfTop` holds of every parsed tree EXCEPT a structure declaration
`S::=rhs` whose right-hand side is not a set expression (a logic expression or a function definition — the
grammar has `global_name STRUCT no_declaration`). Missing for the full `parse_gives_WfTop`: nothing — it is
false, see `parse_gives_WfTop_counterexample`; the checker theorems are extended to the exceptional trees in
`Checker.check_facts_parsed`. -/
theorem parse_gives_WfTop_partial (syn : Syn) (text : List Nat) (Γ : Types.Ctx) (t : Ast) (h : parse syn text = some t)
    (hΓ : ∀ ts, lex syn text = some ts → ParserShape.FuncsNotLogic Γ ts) :
    (∃ xs, Checker.WfTop Γ xs t) ∨
    (∃ d lo hi nm ex xs, t = .node .PUNC_STRUCT d lo hi [nm, ex] ∧ Checker.WfDef Γ xs ex ∧ ¬ Checker.Wf Γ .S ex) := by
  obtain ⟨xs, hw⟩ := parse_gives_WfParsed syn text Γ t h hΓ
  cases hw with
  | top h => exact Or.inl ⟨xs, h⟩
  | structAny hd =>
    rename_i d lo hi nm ex
    by_cases hS : Checker.Wf Γ .S ex
    · exact Or.inl ⟨[], .struct hS⟩
    · exact Or.inr ⟨d, lo, hi, nm, ex, xs, rfl, hd, hS⟩

/-- `S7::=1=1` as the parser returns it -/
def exStructLogic : Ast :=
  .node .PUNC_STRUCT .none 0 8 [.node .ID_GLOBAL (.text "S7") 0 2 [],
    .node .EQUAL .none 5 8 [.node .LIT_INTEGER (.int 1) 5 6 [], .node .LIT_INTEGER (.int 1) 7 8 []]]

/-- **parse_gives_WfTop_counterexample**: `parse_gives_WfTop` (every parsed tree is `WfTop`) is FALSE: the text
`S7::=1=1` parses (the real grammar accepts it too: `global_name STRUCT no_declaration`), the tree is not
`WfTop` in any context (`WfTop.struct` demands a set expression on the right), and the checker rejects it with the
critical error `globalStructure` at the end of the name. -/
theorem parse_gives_WfTop_counterexample :
    parse .math (units "S7::=1=1") = some exStructLogic ∧ (∀ Γ xs, ¬ Checker.WfTop Γ xs exStructLogic) ∧
    (Checker.check {} exStructLogic).out = .fail ∧ (Checker.check {} exStructLogic).errs = [(0x881C, 2)] := by
  refine ⟨ParserRanges.parse_eq_of_same _ _ _ (by decide +kernel), ?_, by decide +kernel, by decide +kernel⟩
  intro Γ xs h
  unfold exStructLogic at h
  cases h with
  | ofDef hd =>
    cases hd with
    | expr h =>
      rcases h with h | h
      · cases h <;> simp_all
      · cases h <;> simp_all
  | struct h => cases h <;> simp_all

/-- non-vacuity of `parse_gives_WfParsed` / `parse_gives_WfTop_partial`: the hypothesis on the context holds for
the empty context on a text with a function call inside a declared function, which parses -/
example : (∀ ts, lex .math (units "F2:==[a∈ℬ(X1)] F1[a,pr1(a)]∪{a}") = some ts → ParserShape.FuncsNotLogic {} ts) ∧
    (parse .math (units "F2:==[a∈ℬ(X1)] F1[a,pr1(a)]∪{a}")).isSome = true :=
  ⟨ParserShape.funcsNotLogic_of_check (by decide +kernel), by decide +kernel⟩


/-- the parse of `text` is exactly `t` (positions included) -/
def parsesTo (syn : Syn) (text : List Nat) (t : Ast) : Bool :=
  match parse syn text with
  | some t' => sameAst t' t
  | none => false

/-- **range_instances**: the whole parser model on concrete texts —
precedence and left associativity, n-ary `×` only when unparenthesised, redundant parentheses
leave no node but widen the operand's range (doubled ones: the inner pair), a quantifier takes
the next non-binary formula, MATH positions count code points across a newline, ASCII positions
count bytes. -/
theorem range_instances :
    parsesTo .math (units "X1×X2×X3")
      (.node .DECART .none 0 8 [.node .ID_GLOBAL (.text "X1") 0 2 [], .node .ID_GLOBAL (.text "X2") 3 5 [],
        .node .ID_GLOBAL (.text "X3") 6 8 []]) = true ∧
    parsesTo .math (units "(X1×X2)×X3")
      (.node .DECART .none 0 10 [.node .DECART .none 0 7 [.node .ID_GLOBAL (.text "X1") 1 3 [], .node .ID_GLOBAL (.text "X2") 4 6 []],
        .node .ID_GLOBAL (.text "X3") 8 10 []]) = true ∧
    parsesTo .math (units "((X1∪X2))")
      (.node .UNION .none 1 8 [.node .ID_GLOBAL (.text "X1") 2 4 [], .node .ID_GLOBAL (.text "X2") 5 7 []]) = true ∧
    parsesTo .math (units "a+b*c-d")
      (.node .MINUS .none 0 7 [.node .PLUS .none 0 5 [.node .ID_LOCAL (.text "a") 0 1 [],
        .node .MULTIPLY .none 2 5 [.node .ID_LOCAL (.text "b") 2 3 [], .node .ID_LOCAL (.text "c") 4 5 []]],
        .node .ID_LOCAL (.text "d") 6 7 []]) = true ∧
    parsesTo .math (units "∀α∈X1 α=α\n& a=b")
      (.node .AND .none 0 15 [.node .FORALL .none 0 9 [.node .ID_LOCAL (.text "α") 1 2 [], .node .ID_GLOBAL (.text "X1") 3 5 [],
          .node .EQUAL .none 6 9 [.node .ID_LOCAL (.text "α") 6 7 [], .node .ID_LOCAL (.text "α") 8 9 []]],
        .node .EQUAL .none 12 15 [.node .ID_LOCAL (.text "a") 12 13 [], .node .ID_LOCAL (.text "b") 14 15 []]]) = true ∧
    parsesTo .ascii (units "a \\in X1")
      (.node .IN .none 0 8 [.node .ID_LOCAL (.text "a") 0 1 [], .node .ID_GLOBAL (.text "X1") 6 8 []]) = true := by
  decide +kernel

/-- non-vacuity of `range_nested` / `range_nested_nodes` / `findMinimal_deepest_parsed`: a text with a
tuple declaration, a product, projections, redundant parentheses and nested connectives parses (20 nodes),
and the conclusion can be evaluated on the tree -/
example : (parse .math (units "D{(a,b)∈X1×X2 | pr1(a)=b & ¬(a∈b ∨ b∈a)}")).map rangesNested = some true ∧
    (parse .math (units "D{(a,b)∈X1×X2 | pr1(a)=b & ¬(a∈b ∨ b∈a)}")).map (fun t => (allNodes [] t).length) = some 20 ∧
    (parse .math (units "D{(a,b)∈X1×X2 | pr1(a)=b & ¬(a∈b ∨ b∈a)}")).map (findMinimal ⟨20, 21⟩) = some (some [2, 0, 0, 0]) := by
  decide +kernel

/-- non-vacuity of `range_nested_tokens`: a hand-made token stream with an EMPTY token range (`a` at
`[3,3)`, which no lexer produces) is `tokensOrdered` and parses -/
example :
    let ts : List LTok := [⟨.ID_LOCAL, .text "a", 3, 3⟩, ⟨.PLUS, .none, 3, 4⟩, ⟨.ID_LOCAL, .text "b", 7, 8⟩, ⟨.END, .none, 8, 8⟩]
    tokensOrdered ts = true ∧ (parseToks ts).map (fun t => (t.lo, t.hi, rangesNested t)) = some (3, 8, true) := by
  decide +kernel

/-! ## range_exact: every node is tiled exactly by the tokens of its own production and its children -/

/-- **range_exact_tiled** (the local form of `range_exact`, WHOLE grammar, every token stream): number the
tokens (`RangeExact.Idx 0 ts`: the `k`-th token has `lo = hi = k`, so a node's range `[lo, hi]` is "first token
index, last token index" — positions and the gaps between tokens are abstracted away and put back by
`range_exact_positions`). Then the tree `parseToks` returns is `stripBrackets raw` (`CreateSyntaxTree`:
a bracket node `PUNC_PL` is replaced by its operand) of a raw tree that is `RangeExact.Tight`: at EVERY node the
range consists of exactly the tokens of the node's own production and the ranges of its children, in order, with
nothing else in between — `Sep s kids e` = first child starts at token `s`, exactly one token between
neighbours, last child ends at token `e`: binary operator / n-ary product `Sep lo kids hi`; `{…}` `(…,…)`
`Sep (lo+1) kids (hi-1)`; `F[…]` `Sep lo kids (hi-1)`; `pr1(…)` `ℬ(…)` `Sep (lo+2) kids (hi-1)`; `ℬℬ…` and `¬…`
`Sep (lo+1) kids hi`; `∀v∈d p`: `v` at `lo+1`, `d` two after `v`, `p` directly after `d`, up to `hi`; `D{…}` `R{…}` `I{…}`
`Sep (lo+2) kids (hi-1)`; `{x∈d|p}` `Sep (lo+1) kids (hi-1)`; `Fi[…](…)`; `[args] e`; `X:==…`; a leaf is one token.
A REDUNDANT PARENTHESIS `( x )` over tokens `lo … hi`: the operand `x` carries the range `[lo, hi]` of the brackets
(`RemoveBrackets`) while its own production is laid out over `[lo+1, hi-1]` — so after `stripBrackets` a
bracketed node's range is first token `(` … last token `)` of its INNERMOST pair, and an outer pair `((x))` belongs
to the tokens of the parent (`TB`). Hence every node's range is [first token of its own span, last token of its own
span], the span being contiguous and made of its production's tokens, its (innermost) redundant parentheses and its
children's spans. Proof: third invariant over the twelve parser functions (`Lemmas/RangeExact.lean`,
`RangeExactTop.lean`, `parserTight`), all semantic actions, `TupleDeclaration`, function definitions, `X:==`. -/
theorem range_exact_tiled (ts : List LTok) (t : Ast) (hn : RangeExact.Idx 0 ts) (h : parseToks ts = some t) :
    ∃ raw : Ast, RangeExact.Tight raw ∧ raw.lo = 0 ∧ semanticCheck none raw = true ∧ stripBrackets raw = some t := by
  unfold parseToks at h
  simp only [] at h
  split at h
  · cases h
  · split at h
    · rename_i raw hraw
      split at h
      · rename_i hs
        obtain ⟨n1, n2⟩ := RangeExact.tight_expression _ _ raw 0 (RangeExact.idx_takeWhile _ hn) hraw
        exact ⟨raw, n1, n2, hs, h⟩
      · cases h
    · cases h

/-- non-vacuity of `range_exact_tiled`, with redundant parentheses (single and doubled): the numbered stream of
`( ( a + b ) ) * ( c ) ∪ d`… here `((a+b))*(c∪d)`: tokens 0 `(` 1 `(` 2 `a` 3 `+` 4 `b` 5 `)` 6 `)` 7 `*` 8 `(` 9 `c`
10 `∪` 11 `d` 12 `)`. The parentheses leave no trace in the tree; `a+b` carries the range 1…5 of its INNER pair,
`c∪d` the range 8…12 of its pair, the product 0…12 (it starts at the outer `(`). -/
example :
    let ts : List LTok := [⟨.PUNC_PL, .none, 0, 0⟩, ⟨.PUNC_PL, .none, 1, 1⟩, ⟨.ID_LOCAL, .text "a", 2, 2⟩, ⟨.PLUS, .none, 3, 3⟩,
      ⟨.ID_LOCAL, .text "b", 4, 4⟩, ⟨.PUNC_PR, .none, 5, 5⟩, ⟨.PUNC_PR, .none, 6, 6⟩, ⟨.MULTIPLY, .none, 7, 7⟩,
      ⟨.PUNC_PL, .none, 8, 8⟩, ⟨.ID_LOCAL, .text "c", 9, 9⟩, ⟨.UNION, .none, 10, 10⟩, ⟨.ID_LOCAL, .text "d", 11, 11⟩,
      ⟨.PUNC_PR, .none, 12, 12⟩, ⟨.END, .none, 13, 13⟩]
    RangeExact.Idx 0 ts ∧
    (parseToks ts).map (fun t => Ast.eqv t (.node .MULTIPLY .none 0 12
      [.node .PLUS .none 1 5 [.node .ID_LOCAL (.text "a") 2 2 [], .node .ID_LOCAL (.text "b") 4 4 []],
       .node .UNION .none 8 12 [.node .ID_LOCAL (.text "c") 9 9 [], .node .ID_LOCAL (.text "d") 11 11 []]]) &&
      t.lo == 0 && t.hi == 12 && (t.kids.map (fun k => (k.lo, k.hi))) == [(1, 5), (8, 12)]) = some true := by
  refine ⟨by simp [RangeExact.Idx], ?_⟩
  decide +kernel

/-- **parse_renders_partial** (the WHITESPACE freedom of `parse_renders`, whole grammar; NOT the freedom of
redundant parentheses, for which only `range_exact_tiled` — what the tree and the ranges are WHEN such a rendering
parses — and closed instances are proved): moving the tokens of a stream apart or together in any way (every
`lo` mapped by `pl`, every `hi` by `ph`, arbitrary functions — any amount of whitespace / newlines between tokens, even
overlapping or unordered positions) changes nothing but the positions: the stream parses iff the original does, to
the same tree, every node's `lo` / `hi` moved by the same maps. (`Lemmas/ParsePosMap.lean`: the twelve parser
functions and all semantic actions only copy positions.) -/
theorem parse_renders_partial (pl ph : Int → Int) (ts : List LTok) :
    parseToks (ts.map (PN.mp pl ph)) = (parseToks ts).map (PN.mpA pl ph) :=
  PN.parseToks_natural ts

/-- **range_exact_positions** (`range_exact` for EVERY positioned token stream, whole grammar): the tree `t` that
`parseToks` returns on `ts` is the tree `t0` of the numbered stream (`k`-th token at `[k, k]`) with the positions put
back — a node that spans the tokens number `a … b` has the range `[lo of token a, hi of token b)`
(`loAt ts 0 a`, `hiAt ts 0 b`) — and `t0 = stripBrackets raw` for a raw tree that is tiled exactly
(`RangeExact.Tight`, see `range_exact_tiled`): `a` is the first and `b` the last token of the node's own span (its
production's tokens, its children's spans, its innermost redundant parentheses), whatever lies between the tokens. -/
theorem range_exact_positions (ts : List LTok) (t : Ast) (h : parseToks ts = some t) :
    ∃ raw t0 : Ast, RangeExact.Tight raw ∧ raw.lo = 0 ∧ stripBrackets raw = some t0 ∧
      parseToks (RangeExact.number 0 ts) = some t0 ∧
      t = PN.mpA (RangeExact.loAt ts 0) (RangeExact.hiAt ts 0) t0 := by
  rw [RangeExact.parseToks_number] at h
  cases hp : parseToks (RangeExact.number 0 ts) with
  | none => rw [hp] at h; cases h
  | some t0 =>
    rw [hp] at h
    obtain ⟨raw, n1, n2, _, n4⟩ := range_exact_tiled _ t0 (RangeExact.idx_number ts 0) hp
    exact ⟨raw, t0, n1, n2, n4, rfl, by cases h; rfl⟩

/-- non-vacuity of `range_exact_positions` / `parse_renders_partial`: `(a + b)  *c` with gaps (tokens at `[0,1) [1,2)
[3,4) [5,6) [6,7) [9,10) [10,11)`): the numbered stream gives `*` over tokens 0…6 and `+` over 0…4 (its own
parentheses), so the positioned tree has `*` at `[0, 11)` and `+` at `[0, 7)`; the parentheses leave no trace. -/
example :
    let ts : List LTok := [⟨.PUNC_PL, .none, 0, 1⟩, ⟨.ID_LOCAL, .text "a", 1, 2⟩, ⟨.PLUS, .none, 3, 4⟩,
      ⟨.ID_LOCAL, .text "b", 5, 6⟩, ⟨.PUNC_PR, .none, 6, 7⟩, ⟨.MULTIPLY, .none, 9, 10⟩, ⟨.ID_LOCAL, .text "c", 10, 11⟩,
      ⟨.END, .none, 11, 11⟩]
    ((parseToks (RangeExact.number 0 ts)).map (fun t => (t.id, t.lo, t.hi, t.kids.map (fun k => (k.id, k.lo, k.hi)))) ==
      some (.MULTIPLY, 0, 6, [(.PLUS, 0, 4), (.ID_LOCAL, 6, 6)]) &&
    (parseToks ts).map (fun t => (t.id, t.lo, t.hi, t.kids.map (fun k => (k.id, k.lo, k.hi)))) ==
      some (.MULTIPLY, 0, 11, [(.PLUS, 0, 7), (.ID_LOCAL, 10, 11)]) &&
    RangeExact.loAt ts 0 6 == 10 && RangeExact.hiAt ts 0 4 == 7) = true := by
  decide +kernel


/-! ## redundant parentheses leave no trace; precedence, associativity, flattening, quantifier scope

`PR.R3` (`Lemmas/ParseRenderDef.lean`) = the terms of the fragment `E3` of C05 (`Model/PPFragment3.lean`: every
expression form the printer writes - atoms, text functions, `+ - * ∪ ∩ \ ∆`, n-ary `×`, predicates, `¬ & ∨ ⇒ ⇔`, `ℬ`,
enumerations, tuples, `F[…]`, `P[…]`, filters, quantifiers, `D{…}`, `R{…}`, `I{…}` with its blocks) with one more
constructor `par` = "a pair of parentheses the printer would not write". `R3.toks` writes the REQUIRED parentheses
exactly as the printer does (`E3.toks`) and `( … )` for every `par`; `R3.wf` allows `par` where `RSParserImpl.y` does:
around a `setexpr_binary` any number of times and wherever a set expression stands, around a `logic_binary` /
`logic_predicates` ONCE and only as operand of a connective, of `¬` or as body of a quantifier (`logic_par`; so never on
top of required parentheses, never at the top of the expression, as body of `D{…|…}`, condition of `R{…|…|…}` or block of
`I{…}`), nowhere else. `R3.erase` forgets the `par`s. Proofs: `Lemmas/ParseRender*.lean` (the development of
`parse_print_fragment3` re-done over `R3`). -/

open CCVerif.PP (tk prec isSetOp7)
open CCVerif.PR (R3 SetOperand LogOperand bin lps rps)

/-- **parse_renders_parens** (fragment `E3`; tokens, so together with `parse_renders_partial` for every layout): every
rendering `r` of a term of the fragment with any admissible redundant parentheses parses, to the tree of the term it
denotes (`r.erase.ast`: no trace of the redundant pairs) = the tree the parser returns on the canonical rendering (the
printer's token sequence `r.erase.toks`), and the denoted term is a well-formed term of the fragment. Hypotheses: `r` is
well-formed (`R3.wf`: categories as `E3.wf` + the admissible positions of `par`) and may stand at the top (`R3.topOK`: a
set expression, or a formula not itself in parentheses). -/
theorem parse_renders_parens (r : R3) (hw : r.wf = true) (ht : r.topOK = true) :
    parseToks (r.toks ++ [tk .END]) = some r.erase.ast ∧
    parseToks (r.toks ++ [tk .END]) = parseToks (r.erase.toks ++ [tk .END]) ∧
    r.erase.wf = true :=
  ⟨PR.parse_render r hw ht, PR.parse_render_canonical r hw ht, PR.wf_erase r hw⟩

/-- the canonical rendering (the printer's text, `parse_print_fragment3` of C05) is the rendering without `par`:
`parse_renders_parens` contains `parse_print_fragment3` -/
theorem canonical_is_rendering (e : PP3.E3) (hw : e.wf = true) :
    (PR.ofE3 e).wf = true ∧ (PR.ofE3 e).toks = e.toks ∧ (PR.ofE3 e).erase = e ∧ (PR.ofE3 e).pars = 0 := by
  refine ⟨PR.wf_ofE3 e hw, PR.toks_ofE3 e, PR.erase_ofE3 e, ?_⟩
  clear hw
  induction e <;> simp_all [PR.ofE3, PR.R3.pars]

/-- NOT proved - a whole-grammar form of "redundant parentheses leave no trace" that needs no rendering relation:
whenever a token stream with a DOUBLED pair `… ( ( v ) ) …` parses, the stream with one layer removed parses to the
same tree up to positions. (`parse_renders_parens` gives it for the renderings of `E3`; outside are the forms `E3`
lacks: the short form `{x∈S | P}` of a declarative term, function definitions `[a∈X1] e` and global declarations
`X1:==e` at the top. A single redundant pair cannot be described on bare token streams, only on renderings.) -/
def parse_renders_parens_statement : Prop :=
  ∀ (u v w : List LTok) (lp lp' rp rp' : LTok), lp.id = .PUNC_PL → lp'.id = .PUNC_PL → rp.id = .PUNC_PR → rp'.id = .PUNC_PR →
    (parseToks (u ++ lp :: lp' :: (v ++ rp' :: rp :: w))).isSome = true →
    (parseToks (u ++ lp :: lp' :: (v ++ rp' :: rp :: w))).map (PN.mpA (fun _ => 0) (fun _ => 0)) =
      (parseToks (u ++ lp' :: (v ++ rp' :: w))).map (PN.mpA (fun _ => 0) (fun _ => 0))

/-- **binary_left_assoc** (precedence and associativity; fragment `E3`): for two operators of `+ - * ∪ ∩ \ ∆` (first
clause) or of `& ∨ ⇒ ⇔` (second clause) and operands `a b c` - ANY renderings that are not themselves unparenthesised
binary operations of the family (`SetOperand` / `LogOperand`: primaries, parenthesised phrases, …) - the token
sequence `a op1 b op2 c` parses as `(a op1 b) op2 c` when `op2` binds no tighter than `op1` in the regenerated
`%left` table (`precLines`: same line - e.g. the same operator, `+`/`-`, `∪ ∩ \ ∆` - or a lower one), and as
`a op1 (b op2 c)` when it binds strictly tighter. All eleven operators are `%left`. -/
theorem binary_left_assoc (op1 op2 : Tok) (a b c : R3) :
    (isSetOp7 op1 = true → isSetOp7 op2 = true → SetOperand a → SetOperand b → SetOperand c →
      (prec op2 ≤ prec op1 → parseToks (a.toks ++ tk op1 :: (b.toks ++ tk op2 :: (c.toks ++ [tk .END]))) =
        some (bin op2 (bin op1 a.erase.ast b.erase.ast) c.erase.ast)) ∧
      (prec op1 < prec op2 → parseToks (a.toks ++ tk op1 :: (b.toks ++ tk op2 :: (c.toks ++ [tk .END]))) =
        some (bin op1 a.erase.ast (bin op2 b.erase.ast c.erase.ast)))) ∧
    (isLogicOp op1 = true → isLogicOp op2 = true → LogOperand a → LogOperand b → LogOperand c →
      (prec op2 ≤ prec op1 → parseToks (a.toks ++ tk op1 :: (b.toks ++ tk op2 :: (c.toks ++ [tk .END]))) =
        some (bin op2 (bin op1 a.erase.ast b.erase.ast) c.erase.ast)) ∧
      (prec op1 < prec op2 → parseToks (a.toks ++ tk op1 :: (b.toks ++ tk op2 :: (c.toks ++ [tk .END]))) =
        some (bin op1 a.erase.ast (bin op2 b.erase.ast c.erase.ast)))) :=
  ⟨fun h1 h2 ha hb hc => ⟨fun hp => PR.set_left_assoc op1 op2 h1 h2 hp a b c ha hb hc,
      fun hp => PR.set_precedence op1 op2 h1 h2 hp a b c ha hb hc⟩,
    fun h1 h2 ha hb hc => ⟨fun hp => PR.logic_left_assoc op1 op2 h1 h2 hp a b c ha hb hc,
      fun hp => PR.logic_precedence op1 op2 h1 h2 hp a b c ha hb hc⟩⟩

/-- the precedence table the theorem refers to (regenerated `%left` lines, lowest first): `+ -` < `*` < (`¬`) < `⇔` <
`⇒` < `∨` < `&` < `× ∪ ∩ \ ∆` -/
example : [Tok.PLUS, .MINUS, .MULTIPLY, .EQUIVALENT, .IMPLICATION, .OR, .AND, .DECART, .UNION, .INTERSECTION, .SET_MINUS,
    .SYMMINUS].map PP.prec = [0, 0, 1, 3, 4, 5, 6, 7, 7, 7, 7, 7] := by decide +kernel

/-- **product_flattening** (n-ary flattening of UNPARENTHESISED products only; fragment `E3`): (1) an unparenthesised
product `p` of any length followed by `× k` is ONE `DECART` node with `k` as one more child; (2) `a × b × c` is one
ternary node; (3) `(a × b) × c` - with any number `n + 1` of pairs - and (4) `a × (b × c)` are nested binary nodes. -/
theorem product_flattening (a b c : R3) (ha : SetOperand a) (hb : SetOperand b) (hc : SetOperand c) :
    (∀ p : R3, p.wf = true → p.isProd = true →
      parseToks (p.toks ++ tk .DECART :: (c.toks ++ [tk .END])) =
        some (.node .DECART .none 0 0 (p.erase.ast.kids ++ [c.erase.ast]))) ∧
    parseToks (a.toks ++ tk .DECART :: (b.toks ++ tk .DECART :: (c.toks ++ [tk .END]))) =
      some (.node .DECART .none 0 0 [a.erase.ast, b.erase.ast, c.erase.ast]) ∧
    (∀ n, parseToks (lps (n + 1) ++ (a.toks ++ tk .DECART :: b.toks) ++ rps (n + 1) ++ tk .DECART :: (c.toks ++ [tk .END])) =
      some (bin .DECART (bin .DECART a.erase.ast b.erase.ast) c.erase.ast)) ∧
    parseToks (a.toks ++ tk .DECART :: tk .PUNC_PL :: (b.toks ++ tk .DECART :: (c.toks ++ [tk .PUNC_PR, tk .END]))) =
      some (bin .DECART a.erase.ast (bin .DECART b.erase.ast c.erase.ast)) :=
  ⟨fun p hp hpP => PR.prod_flatten p c hp hpP hc, PR.prod_flat3 a b c ha hb hc,
    fun n => PR.prod_nested_left n a b c ha hb hc, PR.prod_nested_right a b c ha hb hc⟩

/-- **quantifier_scope** (scope limited to the next non-binary formula; fragment `E3`): for a quantifier `q`, any
connective `op` (whatever its precedence), a variable list `vs`, a domain `dom` and formulas `P`, `Q` that are not
unparenthesised connectives, `q vs ∈ dom P op Q` parses as `(q vs ∈ dom P) op Q`; likewise `¬P op Q` as `(¬P) op Q`. -/
theorem quantifier_scope (q op : Tok) (hq : (q == .FORALL || q == .EXISTS) = true) (hop : isLogicOp op = true)
    (vs dom P Q : R3) (hvw : vs.wf = true) (hvA : vs.isA = true) (hvV : vs.isVar = true)
    (hdw : dom.wf = true) (hdS : dom.isS = true) (hP : LogOperand P) (hQ : LogOperand Q) :
    parseToks (tk q :: (vs.toks ++ tk .IN :: (dom.toks ++ (P.toks ++ tk op :: (Q.toks ++ [tk .END]))))) =
      some (bin op (.node q .none 0 0 [vs.erase.declOf, dom.erase.ast, P.erase.ast]) Q.erase.ast) ∧
    parseToks (tk .NOT :: (P.toks ++ tk op :: (Q.toks ++ [tk .END]))) =
      some (bin op (.node .NOT .none 0 0 [P.erase.ast]) Q.erase.ast) :=
  ⟨PR.quant_scope q op hq hop vs dom P Q hvw hvA hvV hdw hdS hP hQ, PR.neg_scope op hop P Q hP hQ⟩

/-! ### non-vacuity and the limits of the freedom (closed token streams, `decide`) -/

mutual
/-- preorder list of (token, number of children): determines the tree up to payloads and positions -/
private def flat : Ast → List (Tok × Nat)
  | .node id _ _ _ kids => (id, kids.length) :: flatL kids
private def flatL : List Ast → List (Tok × Nat)
  | [] => []
  | k :: ks => flat k ++ flatL ks
end

private def tA : R3 := .atom .ID_LOCAL (.text "a")
private def tB : R3 := .atom .ID_LOCAL (.text "b")
private def tX (n : String) : R3 := .atom .ID_GLOBAL (.text n)
private def tEq : R3 := .pred .EQUAL tA tB
private def tIn : R3 := .pred .IN tA (tX "X1")

/-- `((a+b))*((a×b))`: doubled pairs on both sides - on the left one pair is required (the canonical rendering is
`(a+b)*a×b`), on the right none is; 4 `par`s = 3 redundant pairs + the one standing in for the required pair. The
rendering is well-formed, denotes `(a+b)*a×b`, and both token streams parse to the same tree `*(+(a,b), ×(a,b))` -/
example :
    let r : R3 := .sbin .MULTIPLY (.par (.par (.sbin .PLUS tA tB))) (.par (.par (.prod2 tA tB)))
    (r.wf && r.topOK && r.pars == 4 &&
     r.toks.map (·.id) == [.PUNC_PL, .PUNC_PL, .ID_LOCAL, .PLUS, .ID_LOCAL, .PUNC_PR, .PUNC_PR, .MULTIPLY,
       .PUNC_PL, .PUNC_PL, .ID_LOCAL, .DECART, .ID_LOCAL, .PUNC_PR, .PUNC_PR] &&
     r.erase.toks.map (·.id) == [.PUNC_PL, .ID_LOCAL, .PLUS, .ID_LOCAL, .PUNC_PR, .MULTIPLY,
       .ID_LOCAL, .DECART, .ID_LOCAL] &&
     (parseToks (r.toks ++ [PP.tk .END])).map (fun t => (t.id, t.kids.map (fun k => (k.id, k.kids.length)))) ==
       some (.MULTIPLY, [(.PLUS, 2), (.DECART, 2)]) &&
     (parseToks (r.toks ++ [PP.tk .END])).map flat == (parseToks (r.erase.toks ++ [PP.tk .END])).map flat) = true := by
  decide +kernel

/-- a formula with every admissible kind of redundant pair: `∀a∈((X1∪X1)) (a∈X1) & ¬(a=b) ∨ (a=b)` - redundant
pairs around the domain (twice), the body of the quantifier, the operand of `¬` and an operand of `∨`; well-formed, and
the parentheses leave no trace -/
example :
    let r : R3 := .lbin .OR
      (.lbin .AND (.quant .FORALL (.one tA) (.par (.par (.sbin .UNION (tX "X1") (tX "X1")))) (.par tIn)) (.neg (.par tEq)))
      (.par tEq)
    (r.wf && r.topOK && r.pars == 5 && (parseToks (r.toks ++ [PP.tk .END])).map flat == some (flat r.erase.ast) &&
     (parseToks (r.toks ++ [PP.tk .END])).map flat == (parseToks (r.erase.toks ++ [PP.tk .END])).map flat &&
     r.erase.toks.length + 10 == r.toks.length) = true := by
  decide +kernel

/-- non-vacuity of `binary_left_assoc`, `product_flattening`, `quantifier_scope` on closed streams: `a-b+a` is
`(a-b)+a`, `a+b*a` is `a+(b*a)`, `X1∪X2∩X3` is `(X1∪X2)∩X3` (one `%left` line), `a=b ⇒ a=b & a=b` is `a=b ⇒ (a=b & a=b)`,
`X1×X2×X3` has three children, `((X1×X2))×X3` two, `∀a∈X1 a∈X1 & a=b` is `(∀…) & a=b`; and the operands of the
theorems exist: atoms, parenthesised binary phrases, predicates, parenthesised formulas -/
example :
    let sh (ts : List LTok) := (parseToks (ts ++ [PP.tk .END])).map fun t => (t.id, t.kids.map fun k => (k.id, k.kids.length))
    let X (n : String) : LTok := PP.tk .ID_GLOBAL (.text n)
    let a : LTok := PP.tk .ID_LOCAL (.text "a")
    let b : LTok := PP.tk .ID_LOCAL (.text "b")
    let t (i : Tok) : LTok := PP.tk i
    (sh [a, t .MINUS, b, t .PLUS, a] == some (.PLUS, [(.MINUS, 2), (.ID_LOCAL, 0)]) &&
     sh [a, t .PLUS, b, t .MULTIPLY, a] == some (.PLUS, [(.ID_LOCAL, 0), (.MULTIPLY, 2)]) &&
     sh [X "X1", t .UNION, X "X2", t .INTERSECTION, X "X3"] == some (.INTERSECTION, [(.UNION, 2), (.ID_GLOBAL, 0)]) &&
     sh [a, t .EQUAL, b, t .IMPLICATION, a, t .EQUAL, b, t .AND, a, t .EQUAL, b] == some (.IMPLICATION, [(.EQUAL, 2), (.AND, 2)]) &&
     sh [X "X1", t .DECART, X "X2", t .DECART, X "X3"] == some (.DECART, [(.ID_GLOBAL, 0), (.ID_GLOBAL, 0), (.ID_GLOBAL, 0)]) &&
     sh [t .PUNC_PL, t .PUNC_PL, X "X1", t .DECART, X "X2", t .PUNC_PR, t .PUNC_PR, t .DECART, X "X3"] ==
       some (.DECART, [(.DECART, 2), (.ID_GLOBAL, 0)]) &&
     sh [t .FORALL, a, t .IN, X "X1", a, t .IN, X "X1", t .AND, a, t .EQUAL, b] == some (.AND, [(.FORALL, 3), (.EQUAL, 2)])) = true ∧
    PR.SetOperand tA ∧ PR.SetOperand (.par (.sbin .PLUS tA tB)) ∧ PR.LogOperand tEq ∧ PR.LogOperand (.par tEq) ∧
    PR.LogOperand (.quant .FORALL (.one tA) (tX "X1") tIn) := by
  refine ⟨by decide +kernel, ?_, ?_, ?_, ?_, ?_⟩ <;> exact ⟨by decide +kernel, by decide +kernel, by decide +kernel⟩

/-- **the freedom is exactly what `R3.wf` says** - the limits, on closed streams (all of them REJECTED by the parser
model, as by the grammar: `logic_par` is neither `logic_binary` nor `logic_predicates`, and no other nonterminal has a
parenthesised production): doubled parentheses around a formula `((a=b)) & a=b`, parentheses around a formula at the top
`(a=b)`, around a negation `(¬a=b) & a=b`, around an atom `(a)+b`, around the body of `D{a∈X1 | (a=b)}`; while ONE pair
around a predicate operand `(a=b) & a=b` is accepted. So "any number of redundant pairs" is false for formulas. -/
theorem parens_limits :
    let ok (ts : List LTok) := (parseToks (ts ++ [PP.tk .END])).isSome
    let a : LTok := PP.tk .ID_LOCAL (.text "a")
    let b : LTok := PP.tk .ID_LOCAL (.text "b")
    let t (i : Tok) : LTok := PP.tk i
    ok [t .PUNC_PL, t .PUNC_PL, a, t .EQUAL, b, t .PUNC_PR, t .PUNC_PR, t .AND, a, t .EQUAL, b] = false ∧
    ok [t .PUNC_PL, a, t .EQUAL, b, t .PUNC_PR] = false ∧
    ok [t .PUNC_PL, t .NOT, a, t .EQUAL, b, t .PUNC_PR, t .AND, a, t .EQUAL, b] = false ∧
    ok [t .PUNC_PL, a, t .PUNC_PR, t .PLUS, b] = false ∧
    ok [t .DECLARATIVE, t .PUNC_CL, a, t .IN, PP.tk .ID_GLOBAL (.text "X1"), t .PUNC_BAR, t .PUNC_PL, a, t .EQUAL, b,
      t .PUNC_PR, t .PUNC_CR] = false ∧
    ok [t .PUNC_PL, a, t .EQUAL, b, t .PUNC_PR, t .AND, a, t .EQUAL, b] = true := by
  decide +kernel

/-! ## the parser's range and the carrier `defShaped` of the schema-level theorems (prover-C06f, prover-Wf)

C08 `rename_iso_checker_shaped`, C11 `fresh_checker_evaluator_partial3/4`, C12 `synth_correct_checker`, C13
`extract_status_type_preserved_checker` assume that every stored definition is GRAMMAR-SHAPED (`SchemaGen.defShaped`:
`Wf.wf .ND` of `Model/WfAst.lean` + `Checker.shapeOK`). The schemas store what the parser returned. Since the widening
of `Wf.shape` (a call standing where `logic_or_setexpr` is accepted is headed by a predicate OR a term-function name,
`Wf.shapeLS`) a term-function call at the top of a definition or as the body of a function definition is on the
carrier (`parse_call_defShaped`); what is still outside is a definition containing a radical token spelled `R0…`. -/

/-- the statement one would like: every definition tree (no global declaration at the top) the parser returns is in
the carrier. FALSE: `parse_gives_defShaped_counterexample`. -/
def parse_gives_defShaped_statement : Prop :=
  ∀ (syn : Syn) (text : List Nat) (t : Ast), parse syn text = some t → t.id ≠ .PUNC_DEFINE → t.id ≠ .PUNC_STRUCT →
    SchemaGen.defShaped (some t) = true

/-- **parse_call_defShaped** (positive examples, formerly the first half of the counterexample): the parsed trees of
`F1[X1]` — a call of a TERM function at the top of a definition —, of `[α∈ℬ(R1)] F1[α]` — the same as the body of a
function definition —, of the predicate calls `P1[X1]`, `[α∈ℬ(R1)] P1[α]` and of `X1∪F1[X1]` are all on the carrier
(`Wf.wf .ND` and `shapeOK`), in both syntaxes where the text is ASCII. -/
theorem parse_call_defShaped :
    parse .math (units "F1[X1]") = some ParseShaped.exCall ∧ parse .ascii (units "F1[X1]") = some ParseShaped.exCall ∧
    Wf.wf .ND ParseShaped.exCall = true ∧ SchemaGen.defShaped (some ParseShaped.exCall) = true ∧
    (∀ s ∈ ["[α∈ℬ(R1)] F1[α]", "P1[X1]", "[α∈ℬ(R1)] P1[α]", "X1∪F1[X1]", "[α∈ℬ(R1)] α∪F1[F1[α]]"],
      ((parse .math (units s)).map fun t => SchemaGen.defShaped (some t)) = some true) := by
  refine ⟨by decide +kernel, by decide +kernel, by decide +kernel, by decide +kernel, by decide +kernel⟩

/-- **parse_gives_defShaped_counterexample**: a closed text whose parsed tree is outside the carrier: `X1∪R01` (also
`R0`) — the lexer's `R{number}` makes `R01` an `ID_RADICAL` token, for `Types.isRadical` (`alias.at(1) != '0'`) it is
not a radical, so `shapeOK` fails; `Wf.wf .ND` holds. The real parser accepts the text; the theorems stated on the
carrier say nothing about schemas that contain such a definition. (The former first half — `F1[X1]`, a term-function
call at the top — was an artefact of `Wf.shape` and is gone: `parse_call_defShaped`.) -/
theorem parse_gives_defShaped_counterexample :
    ¬ parse_gives_defShaped_statement ∧
    parse .math (units "X1∪R01") = some ParseShaped.exRad ∧
    Wf.wf .ND ParseShaped.exRad = true ∧ Checker.shapeOK ParseShaped.exRad = false ∧
    ((parse .math (units "R0")).map fun t => (Wf.wf .ND t, Checker.shapeOK t)) = some (true, false) := by
  have h1 : parse .math (units "X1∪R01") = some ParseShaped.exRad := by decide +kernel
  refine ⟨?_, h1, by decide +kernel, by decide +kernel, by decide +kernel⟩
  intro h
  have := h .math _ _ h1 (by decide) (by decide)
  revert this
  decide +kernel

/-- the statement one would like: every tree the parser returns is a phrase of the executable grammar `Wf.wfAst`
(`Model/WfAst.lean`), and `Wf.wf .ND` — the first half of the carrier — when its root is not a global declaration.
Proved up to the re-lexing of identifier texts: `parse_gives_Wf_partial`. -/
def parse_gives_Wf_statement : Prop :=
  ∀ (syn : Syn) (text : List Nat) (t : Ast), parse syn text = some t →
    Wf.wfAst t = true ∧ (t.id ≠ .PUNC_DEFINE → t.id ≠ .PUNC_STRUCT → Wf.wf .ND t = true)

/-- **parse_gives_Wf_partial** (strengthens `parse_gives_WfParsed` to the executable grammar): for both syntaxes and
every text, the tree `parse` returns satisfies `Wf.wfAst` — exact arities, set / logic / declaration positions, the
head of a call a leaf of the right kind, `:∈` / `:=` only directly below an imperative expression (`SemanticCheck`),
operator nodes without payload, `Pr/pr/Fi` with a non-empty `int16_t` tuple, integer literals `int32_t`, identifier
leaves without children — and `Wf.wf .ND` when its root is not a global declaration. MISSING HYPOTHESIS `hr`: the
text of every identifier token of the stream, lexed alone in the MATH syntax, is ONE token of the same kind
(`ParserWf.IdentsRelex`, what `Wf.wfLeaf` asks of an identifier leaf; decidable for a closed text,
`ParserWf.identsRelexB`; a maximal-munch property of the lexer tables, not proved here). Invariant over the twelve
mutually recursive parser functions for the relaxed grammar `Wf.wfR`, then `SemanticCheck` (`Wf.wf_of_wfR`). -/
theorem parse_gives_Wf_partial (syn : Syn) (text : List Nat) (t : Ast) (h : parse syn text = some t)
    (hr : ∀ ts, lex syn text = some ts → ParserWf.IdentsRelex ts) :
    Wf.wfAst t = true ∧ (t.id ≠ .PUNC_DEFINE → t.id ≠ .PUNC_STRUCT → Wf.wf .ND t = true) :=
  ParserWf.parse_wfAst syn text t h hr

/-- … on token streams, with the payload condition `ParserWf.tokW` on the tokens the parser sees -/
theorem parseToks_gives_Wf (ts : List LTok) (t : Ast)
    (ht : ∀ tok ∈ ts.takeWhile (fun t => t.id != .END && t.id != .INTERRUPT), ParserWf.tokW tok = true)
    (h : parseToks ts = some t) : Wf.wfAst t = true :=
  ParserWf.parseToks_wfAst ts t ht h

/-- **parse_gives_defShaped_partial**: the carrier hypothesis of C08 / C11 / C12 / C13 for a stored definition that
was parsed: the identifier texts re-lex as themselves (`hr`, see above) and the token-level conditions `shapeOK` hold
(they fail exactly for a radical token spelled `R0…`, `parse_gives_defShaped_counterexample`). -/
theorem parse_gives_defShaped_partial (syn : Syn) (text : List Nat) (t : Ast) (h : parse syn text = some t)
    (h1 : t.id ≠ .PUNC_DEFINE) (h2 : t.id ≠ .PUNC_STRUCT)
    (hr : ∀ ts, lex syn text = some ts → ParserWf.IdentsRelex ts) (hs : Checker.shapeOK t = true) :
    SchemaGen.defShaped (some t) = true := by
  show (Wf.wf .ND t && Checker.shapeOK t) = true
  rw [(parse_gives_Wf_partial syn text t h hr).2 h1 h2, hs]
  rfl

/-- non-vacuity: `[α∈ℬ(R1)] D{ξ∈α | F1[ξ, Pr1,2(X1)]≠∅ & ∀σ,(β,γ)∈X1×X2 P2[σ]}` and `I{(a,b) | a:∈X1; b:=a; (a,b)∈S1}`
meet the hypotheses -/
example : ∀ s ∈ ["[α∈ℬ(R1)] D{ξ∈α | F1[ξ, Pr1,2(X1)]≠∅ & ∀σ,(β,γ)∈X1×X2 P2[σ]}", "I{(a,b) | a:∈X1; b:=a; (a,b)∈S1}"],
    ((lex .math (units s)).map ParserWf.identsRelexB) = some true ∧ (parse .math (units s)).isSome = true ∧
    ((parse .math (units s)).map Checker.shapeOK) = some true := by
  decide +kernel

/-- **lex_identifier_spelling**: for both syntaxes and EVERY text, the text of every identifier token of the lexer's
stream is a spelling of the rule of its kind (`ParseShaped.spelledAs`): `ID_FUNCTION` = `F` digits⁺, `ID_PREDICATE` =
`P` digits⁺, `ID_RADICAL` = `R` digits⁺, `ID_GLOBAL` = an upper-case letter other than `B` followed by letters, digits
and `_`, `ID_LOCAL` = `_` or a lower-case (MATH: or Greek) letter followed by the same. With C04 `lex_token_text` (the
text is the slice of the input at the token's range) this is the payload half of "the tokens of a parsed tree carry
the texts the lexer gives them". In particular an `ID_GLOBAL` token may be spelled `X01`, `X1a`, `XY`, `X_1` — no
`GoodName` condition follows for it, and `shapeOK` asks none. -/
theorem lex_identifier_spelling (syn : Syn) (text : List Nat) (ts : List RawTok) (h : lexRaw syn text = some ts) :
    ∀ tok ∈ ts, ParseShaped.spelledAs syn tok.id tok.text = true :=
  ParseShaped.lexRaw_spelled syn text ts h

/-- non-vacuity: the identifier tokens of `X01∪F12[ξ_1, R01]` and their spellings -/
example : (lexRaw .math (units "X01∪F12[ξ_1, R01]")).map (fun ts => ts.map fun t => (t.id, t.text)) =
    some [(.ID_GLOBAL, units "X01"), (.UNION, units "∪"), (.ID_FUNCTION, units "F12"), (.PUNC_SL, units "["),
      (.ID_LOCAL, units "ξ_1"), (.PUNC_COMMA, units ","), (.ID_RADICAL, units "R01"), (.PUNC_SR, units "]"), (.END, [])] := by
  decide +kernel

/-- **lex_identifiers_relex** (`identsRelex_all`, prover-C06g): for both syntaxes and EVERY text, the text of every
identifier token of the lexer's stream, lexed ALONE with the MATH lexer, is exactly one token of the same kind — the
hypothesis `hr` of `parse_gives_Wf_partial` always holds. The token's text is the slice the winning rule matched;
no pattern of the tables looks beyond its match (`IdentsRelex.matchPat_take`, one truncation lemma per pattern shape),
so every rule matches the slice as it matched the text and the same rule wins, at full length. For an ASCII token
the slice is made of ASCII letters, digits and `_` and does not start with `B`, and the rules that can match such a
text are the same list, in the same order, in both tables (`IdentsRelex.idRules_same`: `pr… Pr… Fi… card bool red
debool D R I Z {number} F… P… R… {global_id} {local_id} .`) — no identifier of the ASCII lexer is a keyword of the
MATH lexer. -/
theorem lex_identifiers_relex (syn : Syn) (text : List Nat) (ts : List LTok) (h : lex syn text = some ts) :
    ParserWf.IdentsRelex ts :=
  IdentsRelex.identsRelex_all syn text ts h

/-- … at one position: the slice the winning rule matched when it is an identifier rule -/
theorem identifier_slice_relexes (syn : Syn) (c : Nat) (r : List Nat) (n : Nat) (t : Tok)
    (hid : IdentsRelex.isIdTok t = true)
    (hb : bestRule syn (c :: r) (rulesOf syn) none = some (n + 1, .tok t)) :
    Wf.lexesAs t (unitsToString ((c :: r).take (n + 1))) = true :=
  IdentsRelex.best_relex syn c r n t hid hb

/-- the spelling alone does not decide the kind (so the statement has to be about texts that WERE lexed as an
identifier): `red`, `card`, `pr1` have the spelling of a local, `D`, `Z`, `Pr1`, `F1` that of a global, and are
lexed (both syntaxes) as keywords / as a term function; `reda`, `card1`, `pr1a`, `Da`, `Pr1x` are identifiers -/
example : ∀ syn ∈ [Syn.math, .ascii],
    (["red", "card", "pr1"].all fun s => ParseShaped.spelledAs syn .ID_LOCAL (units s)) = true ∧
    (["D", "Z", "Pr1", "F1"].all fun s => ParseShaped.spelledAs syn .ID_GLOBAL (units s)) = true ∧
    ["red", "card", "pr1", "D", "Z", "Pr1", "F1"].map (fun s => lexKinds syn (units s)) =
      [some [.REDUCE], some [.CARD], some [.SMALLPR], some [.DECLARATIVE], some [.LIT_INTSET], some [.BIGPR],
        some [.ID_FUNCTION]] ∧
    ["reda", "card1", "pr1a", "Da", "Pr1x"].map (fun s => lexKinds syn (units s)) =
      [some [.ID_LOCAL], some [.ID_LOCAL], some [.ID_LOCAL], some [.ID_GLOBAL], some [.ID_GLOBAL]] := by
  decide +kernel

/-- **parse_gives_Wf** (= `parse_gives_Wf_statement`, no hypothesis left): for BOTH syntaxes and EVERY text, the tree
`parse` returns satisfies the executable grammar predicate `Wf.wfAst` (`Model/WfAst.lean`: exact arities, set / logic /
declaration positions, call heads, `:∈` / `:=` only directly below an imperative expression, payload per leaf kind —
for an identifier leaf: its text lexes alone (MATH) as one token of its kind), and `Wf.wf .ND` — the first half of
the carrier `defShaped` of C08 / C11 / C12 / C13 — when its root is not a global declaration. No side condition for
ASCII texts either. -/
theorem parse_gives_Wf : parse_gives_Wf_statement := fun syn text t h =>
  parse_gives_Wf_partial syn text t h (lex_identifiers_relex syn text)

/-- non-vacuity: texts of both syntaxes with identifiers that start like keywords parse -/
example : (parse .ascii (units "\\A reda \\in Pr1x*Da pr1a \\eq card1")).isSome = true ∧
    (parse .math (units "∀reda∈Pr1x×Da pr1a=card1 & ξ_1∈F1[R1, Zα]")).isSome = true := by
  decide +kernel

/-- **parse_gives_defShaped_exact**: a parsed definition (root not a global declaration) is on the carrier
`SchemaGen.defShaped` of C08 / C11 / C12 / C13 exactly when the token-level conditions `Checker.shapeOK` hold — they
fail exactly for a radical token spelled `R0…` (`parse_gives_defShaped_counterexample`); the grammar half `Wf.wf .ND`
always holds (`parse_gives_Wf`). -/
theorem parse_gives_defShaped_exact (syn : Syn) (text : List Nat) (t : Ast) (h : parse syn text = some t)
    (h1 : t.id ≠ .PUNC_DEFINE) (h2 : t.id ≠ .PUNC_STRUCT) :
    SchemaGen.defShaped (some t) = Checker.shapeOK t := by
  show (Wf.wf .ND t && Checker.shapeOK t) = Checker.shapeOK t
  rw [(parse_gives_Wf syn text t h).2 h1 h2]
  rfl

/-- non-vacuity: both values occur — `∀reda∈Pr1x×Da pr1a=card1 & ξ_1∈F1[R1, Zα]` is on the carrier, `X1∪R01` is not -/
example : (parse .math (units "∀reda∈Pr1x×Da pr1a=card1 & ξ_1∈F1[R1, Zα]")).map (fun t => SchemaGen.defShaped (some t)) = some true ∧
    (parse .math (units "X1∪R01")).map (fun t => SchemaGen.defShaped (some t)) = some false := by
  decide +kernel

end CCVerif.C06
