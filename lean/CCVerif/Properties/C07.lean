import CCVerif.Model.Schema
import CCVerif.Lemmas.Schema
/-!
# C07 — incremental schema re-analysis equals analysis from scratch after any edits
-/
namespace CCVerif.Schema

/-- full statement (for the incremental algorithm as in /repo now): after every history the
reported analysis results and dependency edges equal those of a schema built from scratch from
the same content -/
def incremental_eq_scratch_statement : Prop :=
  ∀ ops : List Op, (∀ op ∈ ops, ∀ c, op ≠ .load c) →
    (run false ops).report = (run false ops).scratch.report ∧
    (run false ops).depEdges = (run false ops).scratch.depEdges

/-- the pinned defect: `D1:=X1`, then `D1:=D1∪X1` is accepted incrementally (the target is
analysed against its own stale entry) and rejected from scratch -/
def histSelf : List Op :=
  [.insert ⟨1, "X1", .base, .empty⟩, .insert ⟨2, "D1", .term, .union ["X1"]⟩, .setDef 2 (.union ["D1", "X1"])]

theorem incremental_pinned_counterexample :
    (run true histSelf).report ≠ (run true histSelf).scratch.report := by decide

/-- the repaired algorithm on the same history -/
theorem incremental_repaired_example :
    (run false histSelf).report = (run false histSelf).scratch.report := by decide

/-- closed cycle: `D1:=X1, D2:=D1`, then `D1:=D2` -/
def histCycle : List Op :=
  [.insert ⟨1, "X1", .base, .empty⟩, .insert ⟨2, "D1", .term, .union ["X1"]⟩,
   .insert ⟨3, "D2", .term, .union ["D1"]⟩, .setDef 2 (.union ["D2"])]

theorem incremental_pinned_cycle_counterexample :
    (run true histCycle).report ≠ (run true histCycle).scratch.report := by decide

theorem incremental_repaired_cycle_example :
    (run false histCycle).report = (run false histCycle).scratch.report := by decide

/-! ## the repaired algorithm: what holds and what does not

`incremental_eq_scratch_statement` quantifies over *all* `load`-free histories, including those in
which two constituents carry the same alias. `Schema` itself never checks aliases (only the
identity manager of `RSCore` keeps them unique), and for such histories the statement is false:
`Erase` removes the vertex of the erased constituent from the dependency graph but does not
re-resolve the mentions of its alias, which may now denote another constituent. -/

/-- `X1` twice (uids 1, 2), `D1 := X1` (resolved to uid 1), then erase uid 1: the mention now
denotes uid 2, the graph has no edge `2 → 3`, `TopologicalOrder` analyses 3 before 2 -/
def histDup : List Op :=
  [.insert ⟨1, "X1", .base, .empty⟩, .insert ⟨2, "X1", .base, .empty⟩,
   .insert ⟨3, "D1", .term, .union ["X1"]⟩, .erase 1]

theorem incremental_dup_alias_counterexample :
    (run false histDup).report ≠ (run false histDup).scratch.report ∧
    (run false histDup).depEdges ≠ (run false histDup).scratch.depEdges := by decide

/-- the statement as first formulated is false (for the model, and — the model being a
transcription — for `Schema` used without `RSCore`'s alias discipline) -/
theorem incremental_eq_scratch_statement_false : ¬ incremental_eq_scratch_statement := by
  intro h
  refine incremental_dup_alias_counterexample.1 (h histDup ?_).1
  intro op hop c e
  subst e
  simp [histDup] at hop

/-- **C07.** After every admissible history (no `load`; whenever a constituent is erased, no
other constituent carries its alias) the incremental state reports the same status and type per
constituent and the same dependency edges as the analysis from scratch of the same content. -/
theorem incremental_eq_scratch (ops : List Op) (ha : AdmissibleFrom {} ops) :
    (run false ops).report = (run false ops).scratch.report ∧
    (run false ops).depEdges = (run false ops).scratch.depEdges :=
  (WF.run ha).observables

/-- the same for histories along which aliases stay pairwise distinct — the discipline `RSCore`
enforces; this is `incremental_eq_scratch_statement` with that one extra hypothesis -/
theorem incremental_eq_scratch_of_distinct_aliases (ops : List Op)
    (hl : ∀ op ∈ ops, ∀ c, op ≠ .load c)
    (hd : ∀ k, AliasesDistinct (run false (ops.take k))) :
    (run false ops).report = (run false ops).scratch.report ∧
    (run false ops).depEdges = (run false ops).scratch.depEdges :=
  incremental_eq_scratch ops (admissibleFrom_of_distinct ops {} hl hd)

/-- the graph-currency part on its own -/
theorem depEdges_eq_scratch (ops : List Op) (ha : AdmissibleFrom {} ops) :
    (run false ops).depEdges = (run false ops).scratch.depEdges :=
  (incremental_eq_scratch ops ha).2

/-- what the incremental state holds, declaratively: a constituent is recorded with type `t`
iff `t` is derivable by the typing rules (`Typed`: least solution), its status is `verified` iff
it has a type, and the dependency graph is current -/
theorem incremental_declarative (ops : List Op) (ha : AdmissibleFrom {} ops) :
    (∀ u t, ((run false ops).infoFor u).ty = some t ↔ Typed (run false ops).store u t) ∧
    (∀ c ∈ (run false ops).store, ((run false ops).infoFor c.uid).status =
      if ((run false ops).infoFor c.uid).ty.isSome then .verified else .incorrect) ∧
    GraphCur (run false ops).store (run false ops).graph := by
  have h := WF.run ha
  exact ⟨fun u t => ⟨h.sync.sound u t, h.sync.complete u t trivial⟩,
    fun c hc => h.sync.status c.uid (mem_uids.2 ⟨c, hc, rfl⟩), h.cur⟩

/-! non-vacuity: the histories above are admissible (and keep aliases distinct); a history with
`erase`, `setAlias` and `substitute`; the counterexample history is not admissible -/

example : AdmissibleFrom {} histSelf := by decide
example : AdmissibleFrom {} histCycle := by decide

def histMixed : List Op :=
  [.insert ⟨1, "X1", .base, .empty⟩, .insert ⟨2, "D1", .term, .union ["X1"]⟩,
   .insert ⟨3, "D2", .term, .union ["D1", "X1"]⟩, .setDef 2 (.union ["D2"]),
   .setAlias 1 "X2" true, .substitute [("D1", "D3")], .setDef 2 (.union ["X2"]), .erase 1,
   .updateState]

example : AdmissibleFrom {} histMixed := by decide
example : ∀ k, AliasesDistinct (run false (histMixed.take k)) := by
  intro k
  by_cases hk : k < 10
  · have h : ∀ k ∈ List.range 10, AliasesDistinct (run false (histMixed.take k)) := by decide
    exact h k (List.mem_range.2 hk)
  · rw [List.take_of_length_le (by simp only [histMixed, List.length_cons, List.length_nil]; omega)]
    decide
example : ¬ AdmissibleFrom {} histDup := by decide

end CCVerif.Schema
