import CCVerif.Model.Schema
import CCVerif.Lemmas.Schema
import CCVerif.Lemmas.SchemaGen
import CCVerif.Lemmas.SchemaGenFrag
import CCVerif.Lemmas.SchemaGenSim
import CCVerif.Lemmas.CheckerAnalysis
import CCVerif.Lemmas.Thesaurus
import CCVerif.Lemmas.ThesaurusTr
/-!
# C07 — incremental schema re-analysis equals analysis from scratch after any edits
-/
namespace CCVerif.Schema

/-- full statement (for the incremental algorithm as in /repo now): after every history the
reported analysis results and dependency edges equal those of a schema built from scratch from
the same content -/
def incremental_eq_scratch_statement : Prop :=
  ∀ ops : List Op, (∀ op ∈ ops, ∀ c, op ≠ .load c) →
    (run false ops).report = (run false ops).scratch.report ∧
    (run false ops).depEdges = (run false ops).scratch.depEdges

/-- the pinned defect: `D1:=X1`, then `D1:=D1∪X1` is accepted incrementally (the target is
analysed against its own stale entry) and rejected from scratch -/
def histSelf : List Op :=
  [.insert ⟨1, "X1", .base, .empty⟩, .insert ⟨2, "D1", .term, .union ["X1"]⟩, .setDef 2 (.union ["D1", "X1"])]

theorem incremental_pinned_counterexample :
    (run true histSelf).report ≠ (run true histSelf).scratch.report := by decide

/-- the repaired algorithm on the same history -/
theorem incremental_repaired_example :
    (run false histSelf).report = (run false histSelf).scratch.report := by decide

/-- closed cycle: `D1:=X1, D2:=D1`, then `D1:=D2` -/
def histCycle : List Op :=
  [.insert ⟨1, "X1", .base, .empty⟩, .insert ⟨2, "D1", .term, .union ["X1"]⟩,
   .insert ⟨3, "D2", .term, .union ["D1"]⟩, .setDef 2 (.union ["D2"])]

theorem incremental_pinned_cycle_counterexample :
    (run true histCycle).report ≠ (run true histCycle).scratch.report := by decide

theorem incremental_repaired_cycle_example :
    (run false histCycle).report = (run false histCycle).scratch.report := by decide

/-! ## the repaired algorithm: what holds and what does not

`incremental_eq_scratch_statement` quantifies over *all* `load`-free histories, including those in
which two constituents carry the same alias. `Schema` itself never checks aliases (only the
identity manager of `RSCore` keeps them unique), and for such histories the statement is false:
`Erase` removes the vertex of the erased constituent from the dependency graph but does not
re-resolve the mentions of its alias, which may now denote another constituent. -/

/-- `X1` twice (uids 1, 2), `D1 := X1` (resolved to uid 1), then erase uid 1: the mention now
denotes uid 2, the graph has no edge `2 → 3`, `TopologicalOrder` analyses 3 before 2 -/
def histDup : List Op :=
  [.insert ⟨1, "X1", .base, .empty⟩, .insert ⟨2, "X1", .base, .empty⟩,
   .insert ⟨3, "D1", .term, .union ["X1"]⟩, .erase 1]

theorem incremental_dup_alias_counterexample :
    (run false histDup).report ≠ (run false histDup).scratch.report ∧
    (run false histDup).depEdges ≠ (run false histDup).scratch.depEdges := by decide

/-- the statement as first formulated is false (for the model, and — the model being a
transcription — for `Schema` used without `RSCore`'s alias discipline) -/
theorem incremental_eq_scratch_statement_false : ¬ incremental_eq_scratch_statement := by
  intro h
  refine incremental_dup_alias_counterexample.1 (h histDup ?_).1
  intro op hop c e
  subst e
  simp [histDup] at hop

/-- **C07.** After every admissible history (no `load`; whenever a constituent is erased, no
other constituent carries its alias) the incremental state reports the same status and type per
constituent and the same dependency edges as the analysis from scratch of the same content. -/
theorem incremental_eq_scratch (ops : List Op) (ha : AdmissibleFrom {} ops) :
    (run false ops).report = (run false ops).scratch.report ∧
    (run false ops).depEdges = (run false ops).scratch.depEdges :=
  (WF.run ha).observables

/-- the same for histories along which aliases stay pairwise distinct — the discipline `RSCore`
enforces; this is `incremental_eq_scratch_statement` with that one extra hypothesis -/
theorem incremental_eq_scratch_of_distinct_aliases (ops : List Op)
    (hl : ∀ op ∈ ops, ∀ c, op ≠ .load c)
    (hd : ∀ k, AliasesDistinct (run false (ops.take k))) :
    (run false ops).report = (run false ops).scratch.report ∧
    (run false ops).depEdges = (run false ops).scratch.depEdges :=
  incremental_eq_scratch ops (admissibleFrom_of_distinct ops {} hl hd)

/-- the graph-currency part on its own -/
theorem depEdges_eq_scratch (ops : List Op) (ha : AdmissibleFrom {} ops) :
    (run false ops).depEdges = (run false ops).scratch.depEdges :=
  (incremental_eq_scratch ops ha).2

/-- what the incremental state holds, declaratively: a constituent is recorded with type `t`
iff `t` is derivable by the typing rules (`Typed`: least solution), its status is `verified` iff
it has a type, and the dependency graph is current -/
theorem incremental_declarative (ops : List Op) (ha : AdmissibleFrom {} ops) :
    (∀ u t, ((run false ops).infoFor u).ty = some t ↔ Typed (run false ops).store u t) ∧
    (∀ c ∈ (run false ops).store, ((run false ops).infoFor c.uid).status =
      if ((run false ops).infoFor c.uid).ty.isSome then .verified else .incorrect) ∧
    GraphCur (run false ops).store (run false ops).graph := by
  have h := WF.run ha
  exact ⟨fun u t => ⟨h.sync.sound u t, h.sync.complete u t trivial⟩,
    fun c hc => h.sync.status c.uid (mem_uids.2 ⟨c, hc, rfl⟩), h.cur⟩

/-! non-vacuity: the histories above are admissible (and keep aliases distinct); a history with
`erase`, `setAlias` and `substitute`; the counterexample history is not admissible -/

example : AdmissibleFrom {} histSelf := by decide
example : AdmissibleFrom {} histCycle := by decide

def histMixed : List Op :=
  [.insert ⟨1, "X1", .base, .empty⟩, .insert ⟨2, "D1", .term, .union ["X1"]⟩,
   .insert ⟨3, "D2", .term, .union ["D1", "X1"]⟩, .setDef 2 (.union ["D2"]),
   .setAlias 1 "X2" true, .substitute [("D1", "D3")], .setDef 2 (.union ["X2"]), .erase 1,
   .updateState]

example : AdmissibleFrom {} histMixed := by decide
example : ∀ k, AliasesDistinct (run false (histMixed.take k)) := by
  intro k
  by_cases hk : k < 10
  · have h : ∀ k ∈ List.range 10, AliasesDistinct (run false (histMixed.take k)) := by decide
    exact h k (List.mem_range.2 hk)
  · rw [List.take_of_length_le (by simp only [histMixed, List.length_cons, List.length_nil]; omega)]
    decide
example : ¬ AdmissibleFrom {} histDup := by decide

end CCVerif.Schema

/-! # The same for ANY per-constituent analysis that satisfies the frame laws

`Model/SchemaGen.lean` is the machine of `Model/Schema.lean` with the analysis as a parameter
`A : Analysis D I` (`mentions`: what the graph updater extracts from a definition; `analyse skel ctx c`:
the entry `ParseCst` stores, computed from the store-without-definitions `skel` and the context
`ctx : name → Option entry`). `Lawful A` are the frame hypotheses:

* `frame`: `analyse` reads `ctx` only at `mentions c.defn`, and does not tell apart two
  unsuccessful entries of an existing constituent (reset / failed) — but it MAY tell a name that
  denotes nothing from a name whose constituent has no successful entry, as the code does;
* `strict`: a mentioned constituent without a successful entry makes the analysis unsuccessful;
* `reset_not_ok`: a reset entry is not a successful one. -/
namespace CCVerif.SchemaGen

/-- **C07, generic.** For every analysis satisfying the frame laws and every admissible history
(no `load`; whenever a constituent is erased, no other constituent carries its alias) the incremental
state reports the same entry per constituent and the same dependency edges as the analysis from
scratch of the same content. -/
theorem incremental_eq_scratch_generic {D I : Type} [DecidableEq D] (A : Analysis D I)
    (hA : Lawful A) (ops : List (Op D)) (ha : AdmissibleFrom A {} ops) :
    (run A ops).report A = ((run A ops).scratch A).report A ∧
    (run A ops).depEdges A = ((run A ops).scratch A).depEdges A :=
  (WF.run hA ha).observables hA

/-- the same for histories along which aliases stay pairwise distinct (the discipline of `RSCore`) -/
theorem incremental_eq_scratch_generic_of_distinct_aliases {D I : Type} [DecidableEq D]
    (A : Analysis D I) (hA : Lawful A) (ops : List (Op D)) (hl : ∀ op ∈ ops, ∀ c, op ≠ .load c)
    (hd : ∀ k, AliasesDistinct (run A (ops.take k))) :
    (run A ops).report A = ((run A ops).scratch A).report A ∧
    (run A ops).depEdges A = ((run A ops).scratch A).depEdges A :=
  incremental_eq_scratch_generic A hA ops (admissibleFrom_of_distinct ops {} hl hd)

/-- what the incremental state holds, declaratively: the entry of every constituent is its `Final`
entry (the analysis against a context in which every mentioned constituent that has a successful
entry `Val` — least solution — shows it and every other one shows an unsuccessful entry; a function
of the store by the laws), and the dependency graph is current -/
theorem incremental_declarative_generic {D I : Type} [DecidableEq D] (A : Analysis D I)
    (hA : Lawful A) (ops : List (Op D)) (ha : AdmissibleFrom A {} ops) :
    (∀ u ∈ uids (run A ops).store, Final A (run A ops).store u ((run A ops).infoFor A u)) ∧
    (∀ u i, Val A (run A ops).store u i → (run A ops).infoFor A u = i) ∧
    GraphCur A (run A ops).store (run A ops).graph := by
  have h := WF.run hA ha
  refine ⟨h.sync, fun u i hv => ?_, h.cur⟩
  exact (h.sync u hv.mem).eq_val hA h.base.nodup hv

/-- the entries of a complete analysis are a function of the store: two states with the same store
whose entries are all `Final` agree (this is what makes "from scratch" well defined whatever order
`TopologicalOrder` picks on cyclic parts) -/
theorem final_unique {D I : Type} (A : Analysis D I) (hA : Lawful A) {s : List (Cst D)}
    (hn : (uids s).Nodup) {u : Nat} {i j : I} (h1 : Final A s u i) (h2 : Final A s u j) : i = j :=
  h1.unique hA hn h2

/-- the fragment machine of `Model/Schema.lean` IS the instance `fragA` of the generic machine
(`toG`: the same state with the constituents re-packed), step by step -/
theorem fragment_is_instance (st : Schema.St) (op : Schema.Op) :
    toG (Schema.step false st op) = step fragA (toG st) (opG op) := toG_step st op

/-- **C07 for the fragment, as a corollary of the generic theorem** (`fragA_lawful` discharges the
frame hypotheses; nothing of the fragment-specific development `Lemmas/Schema.lean` §3–§9 is used) -/
theorem incremental_eq_scratch_from_generic (ops : List Schema.Op) (ha : Schema.AdmissibleFrom {} ops) :
    (Schema.run false ops).report = (Schema.run false ops).scratch.report ∧
    (Schema.run false ops).depEdges = (Schema.run false ops).scratch.depEdges :=
  incremental_eq_scratch_via_generic ops ha

/-! ## the frame hypotheses discharged for the type-checker model of C03

`Lemmas/CheckerFrame*.lean` prove, by induction over the rules of `Model/Checker.lean`, that
`check Γ e` reads the context only at the global names at VISITED positions of `e`
(`usedGlobals e`; for trees of the grammar's shape these are all global names occurring in `e`),
and that an accepting run has found a type for each of them. `checkerA` (`Lemmas/CheckerAnalysis.lean`)
is the analysis "build `alias :== body` as `CheckConstituenta` does, run `check` in the context
`TypeFor` / `FunctionArgsFor` offer, keep type and declared arguments"; a definition is `none`
(empty text) or `some body`. -/

open CCVerif.Checker in
/-- FRAME of the checker: the result depends on `Γ.types` / `Γ.funcs` only at the global names at
visited positions (never on the entry of the declared name itself), on `Γ.traits` and on
`Γ.isTypification` -/
theorem checker_frame {Γ Γ' : Types.Ctx} {e : Syntax.Ast}
    (ht : ∀ n ∈ usedGlobals e, Types.lookup Γ.types n = Types.lookup Γ'.types n)
    (hf : ∀ n ∈ usedGlobals e, Types.lookup Γ.funcs n = Types.lookup Γ'.funcs n)
    (htr : Γ.traits = Γ'.traits) (hty : Γ.isTypification = Γ'.isTypification) :
    check Γ e = check Γ' e :=
  check_frame_used ht hf htr hty

open CCVerif.Checker in
/-- STRICTNESS of the checker: an accepting run has found a type for every global name at a visited
position; on trees of the grammar's shape (`Wf.wf`, the executable grammar of `Model/WfAst.lean`)
these are all global names occurring in the tree -/
theorem checker_strict {Γ : Types.Ctx} {e : Syntax.Ast} {t : Types.ExprTy}
    (h : (check Γ e).out = .ok t) :
    (∀ n ∈ usedGlobals e, (Types.lookup Γ.types n).isSome = true) ∧
    (∀ c, Wf.wf c e = true → ∀ n ∈ globalsOf e, (Types.lookup Γ.types n).isSome = true) :=
  ⟨check_strict h, fun _ hw => check_strict_wf hw h⟩

/-- the checker model satisfies the frame laws of the generic machine, whatever `TraitsFor` does
with the store-without-definitions -/
theorem checker_lawful (traitsOf : Skel → Types.TraitEnv) : Lawful (checkerA traitsOf) :=
  checkerA_lawful traitsOf

/-- **C07 with the per-constituent analysis instantiated by the C03 checker model**: for every
admissible history of schemas whose definitions are arbitrary syntax trees, the incremental state
equals the analysis from scratch (type and declared arguments per constituent, dependency edges) -/
theorem incremental_eq_scratch_checker (traitsOf : Skel → Types.TraitEnv) (ops : List (Op CDef))
    (ha : AdmissibleFrom (checkerA traitsOf) {} ops) :
    (run (checkerA traitsOf) ops).report (checkerA traitsOf) =
      ((run (checkerA traitsOf) ops).scratch (checkerA traitsOf)).report (checkerA traitsOf) ∧
    (run (checkerA traitsOf) ops).depEdges (checkerA traitsOf) =
      ((run (checkerA traitsOf) ops).scratch (checkerA traitsOf)).depEdges (checkerA traitsOf) :=
  incremental_eq_scratch_generic (checkerA traitsOf) (checkerA_lawful traitsOf) ops ha

/-- the context may as well be built from ALL names of the schema (what `Schema::TypeFor` offers):
the checker's result is the one obtained from the mentions alone -/
theorem checker_full_context (traits : Types.TraitEnv) (ctx : String → Option CInfo) (c : Cst CDef)
    (tr : Syntax.Ast) (htr : cstTree c = some tr) (allNames : List String)
    (h : ∀ n ∈ mentionsOf c.defn, n ∈ allNames) :
    Checker.check (ctxToΓ traits ctx allNames) tr =
      Checker.check (ctxToΓ traits ctx (Checker.usedGlobals tr)) tr :=
  checkerA_full_context traits ctx c tr htr allNames h

example : AdmissibleFrom (checkerA fun _ => []) {} histChecker := by decide +kernel

/-! ## the strictness hypothesis cannot be dropped

`negA`: a definition is the list of the names it mentions, an entry is a Boolean, and a constituent is
accepted iff none of the constituents it mentions is. It satisfies `reset_not_ok` and `frame` but is
not strict; on the two-cycle `D1 := D2`, `D2 := D1` the result depends on which of the two is analysed
first, and `TriggerParse(D2)` starts with `D2` while `UpdateState` starts with `D1`. -/

def negA : Analysis (List String) Bool where
  mentions := fun d => d
  rename := fun f d => d.map (fun n => (f n).getD n)
  reset := false
  ok := fun b => b
  analyse := fun _ ctx c => c.defn.all (fun m => ctx m != some true)

theorem negA_frame (sk : Skel) (ctx ctx' : String → Option Bool) (c : Cst (List String))
    (h : ∀ m ∈ negA.mentions c.defn, Sim negA (ctx m) (ctx' m)) :
    negA.analyse sk ctx c = negA.analyse sk ctx' c := by
  show c.defn.all (fun m => ctx m != some true) = c.defn.all (fun m => ctx' m != some true)
  have hm : ∀ m ∈ c.defn, ctx m = ctx' m := by
    intro m hm
    rcases h m hm with e | ⟨i, j, e1, e2, hi, hj⟩
    · exact e
    · have hi' : i = false := hi
      have hj' : j = false := hj
      rw [e1, e2, hi', hj']
  generalize c.defn = l at hm
  induction l with
  | nil => rfl
  | cons x xs ih =>
    rw [List.all_cons, List.all_cons, hm x (by simp), ih (fun m hm' => hm m (List.mem_cons_of_mem _ hm'))]

def histNeg : List (Op (List String)) :=
  [.insert ⟨1, "D1", .term, ["D2"]⟩, .insert ⟨2, "D2", .term, ["D1"]⟩, .setDef 2 ["D1", "D1"]]

theorem incremental_needs_strict_counterexample :
    negA.ok negA.reset = false ∧ AdmissibleFrom negA {} histNeg ∧
    (run negA histNeg).report negA = [(1, false), (2, true)] ∧
    ((run negA histNeg).scratch negA).report negA = [(1, true), (2, false)] := by
  refine ⟨rfl, by decide, by decide, by decide⟩

/-! non-vacuity: the fragment of `Model/Schema.lean` is an instance (`fragA_lawful`), so is the
unrelated height analysis; admissible histories with an incremental re-analysis over a cycle -/

example : Lawful fragA := fragA_lawful
example : Lawful heightA := heightA_lawful

def gHist : List (Op Schema.Def) :=
  [.insert ⟨1, "X1", .base, .empty⟩, .insert ⟨2, "D1", .term, .union ["X1"]⟩,
   .insert ⟨3, "D2", .term, .union ["D1", "X1"]⟩, .setDef 2 (.union ["D2"]),
   .setAlias 1 "X2" true, .substitute [("D1", "D3")], .setDef 2 (.union ["X2"]), .erase 1,
   .updateState]

example : AdmissibleFrom fragA {} gHist := by decide
example : (run fragA gHist).report fragA =
    [(2, { status := .incorrect, ty := none }), (3, { status := .incorrect, ty := none })] := by decide

def hHist : List (Op (List String)) :=
  [.insert ⟨1, "X1", .base, []⟩, .insert ⟨2, "D1", .term, ["X1"]⟩,
   .insert ⟨3, "D2", .term, ["D1", "X1"]⟩, .insert ⟨4, "D3", .term, ["D2", "X9"]⟩,
   .setDef 2 ["D2"], .setDef 2 ["X1", "X1"], .erase 4]

example : AdmissibleFrom heightA {} hHist := by decide
example : (run heightA hHist).report heightA = [(1, some 1), (2, some 2), (3, some 3)] := by decide
example : (run heightA (hHist.take 5)).report heightA = [(1, some 1), (2, none), (3, none), (4, none)] := by
  decide

end CCVerif.SchemaGen

/-! # The TEXT layer: resolved terms and definition texts (`Thesaurus`)

`Model/Thesaurus.lean` transcribes `Thesaurus.cpp` (storage, `termGraph` / `defGraph` with their
`invalid` flags, `UpdateState`, `OnTermChange` with its propagation order, `SetTermFor`,
`SetTermFormFor`, `SetDefinitionFor`, `SetAliasFor`, `SubstitueAliases`, the `Translate*` family,
`Emplace` / `Erase`) over a resolver `L : Lang T F` (`mentions` = `Referals`, `resolve` = `RefsManager::Resolve`
in a term context, `translate` = `TranslateRaw`). `Lawful L` is the frame law "`Resolve` reads the
context only at the names `Referals` lists"; `refsLang` (the C17 model of `cclLang`) satisfies it.

`Acyclic L s`: the term references of the content `s` decrease a rank. `St.scratch`: a thesaurus
freshly built from the same content (empty caches, no graphs, `UpdateState`). -/
namespace CCVerif.Thesaurus

/-- full statement: after ANY history of text-layer operations, if the term references of the final
content are acyclic, every reported text (raw and resolved term, raw and resolved definition) is the
one a freshly built thesaurus reports -/
def terms_eq_scratch_statement {T F : Type} [DecidableEq T] [DecidableEq F] (L : Lang T F) : Prop :=
  ∀ ops : List (Op T F), Acyclic L (run L ops).store →
    (run L ops).report L = ((run L ops).scratch L).report L

/-- **C07, text layer (partial).** For every resolver satisfying the frame law and every ADMISSIBLE
history — `Emplace`/`Insert`, `Erase` of an entity whose alias no other entity carries, `SetAliasFor`
WITHOUT substitution, `SetTermFor`, `SetTermFormFor`, `SetDefinitionFor`, `UpdateState`, in any order,
through any cyclic intermediate contents — if the term references of the final content are acyclic,
every resolved term and resolved definition equals the one of a from-scratch rebuild, and no unchecked
`storage.at` was reached. Restriction (not refuted, not proved): histories containing
`SetAliasFor(…, substitute)`, `SubstitueAliases`, `Translate`, `TranslateTerm`, `TranslateDef`,
`TranslateAll` (in the model, compared with the code by the harness only). -/
theorem terms_eq_scratch_partial {T F : Type} [DecidableEq T] [DecidableEq F] (L : Lang T F) (hL : Lawful L)
    (ops : List (Op T F)) (ha : AdmissibleFrom L (St.init L) ops) (hac : Acyclic L (run L ops).store) :
    (run L ops).report L = ((run L ops).scratch L).report L ∧ (run L ops).stuck = false := by
  have h := WF.run hL ha
  obtain ⟨h', hs⟩ := h.scratch hL
  exact ⟨report_eq hL h h' hs hac, h.ok⟩

/-- the same, pointwise and without global acyclicity: whatever cycles exist elsewhere, every entity that
no reference cycle reaches (`TVal`: its resolved term is derivable) holds exactly that term, and every
definition text whose mentions are all such holds its resolution against them -/
theorem terms_declarative_partial {T F : Type} [DecidableEq T] [DecidableEq F] (L : Lang T F) (hL : Lawful L)
    (ops : List (Op T F)) (ha : AdmissibleFrom L (St.init L) ops) :
    (∀ u w, TVal L (run L ops).store u w → (run L ops).tCache u = w) ∧
    (∀ c ∈ (run L ops).store, ∀ jf : Nat → T,
      (∀ m ∈ L.mentions c.defRaw, ∀ a, findAliasL (run L ops).store m = some a → TVal L (run L ops).store a (jf a)) →
      (run L ops).dCache c.uid = L.resolve c.defRaw (ctxOfL L (run L ops).store jf)) := by
  have h := WF.run hL ha
  exact ⟨fun u w hv => h.tsync u w trivial hv, fun c hc jf hd => h.dsync c hc trivial jf hd⟩

/-- graph currency: after every admissible history each of the two graphs is either marked broken (and
rebuilt at its next use) or represents exactly the reference relation of the content — same live
vertices as the storage, an edge `a → b` iff the term (resp. definition text) of `b` mentions an alias
that `FindAlias` resolves to `a` -/
theorem text_graphs_current_partial {T F : Type} [DecidableEq T] [DecidableEq F] (L : Lang T F) (hL : Lawful L)
    (ops : List (Op T F)) (ha : AdmissibleFrom L (St.init L) ops) :
    ((run L ops).tInvalid = true ∨
      ((∀ x, x ∈ Graph.liveUids (run L ops).tGraph ↔ x ∈ uids (run L ops).store) ∧
       ∀ a b, (a, b) ∈ Graph.edges (run L ops).tGraph ↔
         ∃ c ∈ (run L ops).store, c.uid = b ∧ ∃ m ∈ L.mentions c.termRaw, findAliasL (run L ops).store m = some a)) ∧
    ((run L ops).dInvalid = true ∨
      ((∀ x, x ∈ Graph.liveUids (run L ops).dGraph ↔ x ∈ uids (run L ops).store) ∧
       ∀ a b, (a, b) ∈ Graph.edges (run L ops).dGraph ↔
         ∃ c ∈ (run L ops).store, c.uid = b ∧ ∃ m ∈ L.mentions c.defRaw, findAliasL (run L ops).store m = some a)) := by
  have h := WF.run hL ha
  refine ⟨?_, ?_⟩
  · rcases h.tg with h1 | ⟨_, hg⟩
    · exact Or.inl h1
    · exact Or.inr ⟨tLive_iff hg, tEdge_iff hg h.nodup⟩
  · rcases h.dg with h1 | ⟨_, hg⟩
    · exact Or.inl h1
    · exact Or.inr ⟨dLive_iff hg, dEdge_iff hg h.nodup⟩

/-- the resolver model of C17 (`RefsManager::Resolve` / `Referals` of the current code) satisfies the frame law -/
theorem refs_resolver_lawful : Lawful refsLang := refsLang_lawful

/-- **C07, text layer, for the modelled `cclLang` resolver** -/
theorem terms_eq_scratch_refs_partial (ops : List (Op Strings.Bytes Refs.Morph))
    (ha : AdmissibleFrom refsLang (St.init refsLang) ops) (hac : Acyclic refsLang (run refsLang ops).store) :
    (run refsLang ops).report refsLang = ((run refsLang ops).scratch refsLang).report refsLang :=
  (terms_eq_scratch_partial refsLang refsLang_lawful ops ha hac).1

/-! non-vacuity: the chain X1 ← term of D1 ← definition text of D2; then the term of X1 is edited -/

def b (s : String) : Strings.Bytes := s.toUTF8.toList.map (·.toNat)

def chainHist : List (Op Strings.Bytes Refs.Morph) :=
  [.insert ⟨1, "X1", b "alpha", [], []⟩,
   .insert ⟨2, "D1", b "big @{X1|nomn,sing}", [], []⟩,
   .insert ⟨3, "D2", [], [], b "see @{D1|nomn,sing} end"⟩,
   .setTerm 1 (b "beta")]

example : AdmissibleFrom refsLang (St.init refsLang) chainHist := ⟨trivial, trivial, trivial, trivial, trivial⟩
example : Acyclic refsLang (run refsLang chainHist).store := acyclic_of_check (rank := id) (by decide +kernel)
/-- all three resolved texts of the chain (term of X1, term of D1, definition of D2) equal scratch after the edit -/
example : (run refsLang chainHist).report refsLang = ((run refsLang chainHist).scratch refsLang).report refsLang :=
  terms_eq_scratch_refs_partial chainHist ⟨trivial, trivial, trivial, trivial, trivial⟩
    (acyclic_of_check (rank := id) (by decide +kernel))

end CCVerif.Thesaurus

/-! # The TEXT layer, second part: renaming WITH substitution and the `Translate*` family

`Lemmas/ThesaurusTr.lean`: the loop of `TranslateAll` (per round `TextConcept::Translate`, `defGraph.UpdateFor`,
`termGraph.UpdateFor`) keeps uids distinct and each graph broken-or-current (`graphCur_setDef` per round), and
`UpdateState` turns any such state into a well-formed one; the single-entity `Translate` / `TranslateTerm` are an
edit of the term (and definition text) of the target followed by `OnTermChange(target)`; `TranslateDef` is
`SetDefinitionFor` past its early exit. `Admissible2`: EVERY text-layer operation, with `Erase` of an entity whose
alias no other entity carries and `Translate` / `TranslateTerm` / `TranslateDef` of a PRESENT entity (their
`storage.at(target)` is unchecked). No law about `TranslateRaw` is needed for this: incremental and rebuilt state
hold the same translated content. What renaming does to the resolved texts is `rename_transparent` below. -/
namespace CCVerif.Thesaurus

/-- **C07, text layer (partial 2).** For every resolver satisfying the frame law and every history of
`Emplace`/`Insert`, `Erase` (of an entity whose alias no other entity carries), `SetAliasFor` WITH or WITHOUT
substitution of the mentions, `SetTermFor`, `SetTermFormFor`, `SetDefinitionFor`, `SubstitueAliases`, `TranslateAll`,
`Translate` / `TranslateTerm` / `TranslateDef` (of a present entity), `UpdateState`, in any order, through any cyclic
intermediate contents: if the term references of the final content are acyclic, every resolved term and resolved
definition equals the one of a from-scratch rebuild, and no unchecked `storage.at` was reached.
Remaining restriction w.r.t. `terms_eq_scratch_statement` (not refuted): `Erase` of an entity whose alias is
shared; `Translate*` of an absent uid (throws `std::out_of_range` in the code). -/
theorem terms_eq_scratch_partial2 {T F : Type} [DecidableEq T] [DecidableEq F] (L : Lang T F) (hL : Lawful L)
    (ops : List (Op T F)) (ha : AdmissibleFrom2 L (St.init L) ops) (hac : Acyclic L (run L ops).store) :
    (run L ops).report L = ((run L ops).scratch L).report L ∧ (run L ops).stuck = false := by
  have h := WF.run2 hL ha
  obtain ⟨h', hs⟩ := h.scratch hL
  exact ⟨report_eq hL h h' hs hac, h.ok⟩

/-- pointwise, without global acyclicity (cf. `terms_declarative_partial`) -/
theorem terms_declarative_partial2 {T F : Type} [DecidableEq T] [DecidableEq F] (L : Lang T F) (hL : Lawful L)
    (ops : List (Op T F)) (ha : AdmissibleFrom2 L (St.init L) ops) :
    (∀ u w, TVal L (run L ops).store u w → (run L ops).tCache u = w) ∧
    (∀ c ∈ (run L ops).store, ∀ jf : Nat → T,
      (∀ m ∈ L.mentions c.defRaw, ∀ a, findAliasL (run L ops).store m = some a → TVal L (run L ops).store a (jf a)) →
      (run L ops).dCache c.uid = L.resolve c.defRaw (ctxOfL L (run L ops).store jf)) := by
  have h := WF.run2 hL ha
  exact ⟨fun u w hv => h.tsync u w trivial hv, fun c hc jf hd => h.dsync c hc trivial jf hd⟩

/-- graph currency after the larger class of histories (cf. `text_graphs_current_partial`) -/
theorem text_graphs_current_partial2 {T F : Type} [DecidableEq T] [DecidableEq F] (L : Lang T F) (hL : Lawful L)
    (ops : List (Op T F)) (ha : AdmissibleFrom2 L (St.init L) ops) :
    ((run L ops).tInvalid = true ∨
      ((∀ x, x ∈ Graph.liveUids (run L ops).tGraph ↔ x ∈ uids (run L ops).store) ∧
       ∀ a b, (a, b) ∈ Graph.edges (run L ops).tGraph ↔
         ∃ c ∈ (run L ops).store, c.uid = b ∧ ∃ m ∈ L.mentions c.termRaw, findAliasL (run L ops).store m = some a)) ∧
    ((run L ops).dInvalid = true ∨
      ((∀ x, x ∈ Graph.liveUids (run L ops).dGraph ↔ x ∈ uids (run L ops).store) ∧
       ∀ a b, (a, b) ∈ Graph.edges (run L ops).dGraph ↔
         ∃ c ∈ (run L ops).store, c.uid = b ∧ ∃ m ∈ L.mentions c.defRaw, findAliasL (run L ops).store m = some a)) := by
  have h := WF.run2 hL ha
  refine ⟨?_, ?_⟩
  · rcases h.tg with h1 | ⟨_, hg⟩
    · exact Or.inl h1
    · exact Or.inr ⟨tLive_iff hg, tEdge_iff hg h.nodup⟩
  · rcases h.dg with h1 | ⟨_, hg⟩
    · exact Or.inl h1
    · exact Or.inr ⟨dLive_iff hg, dEdge_iff hg h.nodup⟩

/-- **C07, text layer, for the modelled `cclLang` resolver**, all operations -/
theorem terms_eq_scratch_refs_partial2 (ops : List (Op Strings.Bytes Refs.Morph))
    (ha : AdmissibleFrom2 refsLang (St.init refsLang) ops) (hac : Acyclic refsLang (run refsLang ops).store) :
    (run refsLang ops).report refsLang = ((run refsLang ops).scratch refsLang).report refsLang :=
  (terms_eq_scratch_partial2 refsLang refsLang_lawful ops ha hac).1

/-! non-vacuity: X1 with the term "множество", the term of D1 mentions X1, the definition text of D2 mentions D1;
X1 is renamed to X5 WITH substitution of the mentions; then D1 is translated on its own, all aliases are
substituted, and everything is translated once more -/

def renameHist : List (Op Strings.Bytes Refs.Morph) :=
  [.insert ⟨1, "X1", b "множество", [], []⟩,
   .insert ⟨2, "D1", b "большое @{X1|nomn,sing}", [], []⟩,
   .insert ⟨3, "D2", [], [], b "см. @{D1|nomn,sing} далее"⟩,
   .setAlias 1 "X5" true]

example : AdmissibleFrom2 refsLang (St.init refsLang) renameHist := ⟨trivial, trivial, trivial, trivial, trivial⟩
example : Acyclic refsLang (run refsLang renameHist).store := acyclic_of_check (rank := id) (by decide +kernel)
set_option synthInstance.maxSize 512 in
/-- the mention was rewritten and all resolved texts are those of the chain -/
example : (run refsLang renameHist).report refsLang =
    [(1, "X5", b "множество", b "множество", [], []),
     (2, "D1", b "большое @{X5|nomn,sing}", b "большое множество", [], []),
     (3, "D2", [], [], b "см. @{D1|nomn,sing} далее", b "см. большое множество далее")] := by decide +kernel
/-- renaming with substitution is invisible in the resolved texts: they are the ones before the renaming -/
example : ((run refsLang renameHist).report refsLang).map (fun r => (r.1, r.2.2.2.1, r.2.2.2.2.2)) =
    ((run refsLang (renameHist.take 3)).report refsLang).map (fun r => (r.1, r.2.2.2.1, r.2.2.2.2.2)) := by
  decide +kernel
/-- … and equal the from-scratch rebuild, by the theorem -/
example : (run refsLang renameHist).report refsLang = ((run refsLang renameHist).scratch refsLang).report refsLang :=
  terms_eq_scratch_refs_partial2 renameHist ⟨trivial, trivial, trivial, trivial, trivial⟩
    (acyclic_of_check (rank := id) (by decide +kernel))

def translateHist : List (Op Strings.Bytes Refs.Morph) :=
  renameHist ++
  [.translate 2 [("X5", "X1")], .substitute [("D1", "D7"), ("X5", "X2")], .translateTerm 2 [("X2", "X5")],
   .translateDef 3 [("D7", "D1")], .translateAll [("X5", "X2"), ("D1", "D7")], .erase 1]

example : AdmissibleFrom2 refsLang (St.init refsLang) translateHist := by
  refine ⟨trivial, trivial, trivial, trivial, ?_, trivial, ?_, ?_, trivial, ?_, trivial⟩
  · show 2 ∈ uids _; decide +kernel
  · show 2 ∈ uids _; decide +kernel
  · show 3 ∈ uids _; decide +kernel
  · show EraseOk _ 1; unfold EraseOk; decide +kernel
example : Acyclic refsLang (run refsLang translateHist).store := acyclic_of_check (rank := id) (by decide +kernel)

/-! ## the side condition on `Erase` cannot be dropped: `terms_eq_scratch_statement` is false

`Thesaurus` itself never checks aliases (only the identity manager of `RSCore` keeps them unique). Two entities
with the alias `D2` (uids 1, 2), the term of `D3` mentions `D2` (resolved to uid 1, edge 1 → 3). `Erase(1)` removes
the vertex 1 with its edge from `termGraph` and re-resolves everything (the mention now denotes uid 2), but no
edge 2 → 3 is added: the following `SetTermFor(2, …)` does not reach `D3`. The content is acyclic. Replayed on
the real `Thesaurus` by the harness (`c07 treportx` / `c07 tscratchx` lines: code = model for both the
incremental and the rebuilt state). -/

def histTextDup : List (Op Strings.Bytes Refs.Morph) :=
  [.insert ⟨1, "D2", b "w1", [], []⟩, .insert ⟨2, "D2", b "w2", [], []⟩,
   .insert ⟨3, "D3", b "w3 @{D2|nomn,sing}", [], []⟩, .erase 1, .setTerm 2 (b "n6")]

set_option synthInstance.maxSize 512 in
theorem terms_dup_alias_counterexample :
    Acyclic refsLang (run refsLang histTextDup).store ∧
    (run refsLang histTextDup).report refsLang =
      [(2, "D2", b "n6", b "n6", [], []), (3, "D3", b "w3 @{D2|nomn,sing}", b "w3 w2", [], [])] ∧
    ((run refsLang histTextDup).scratch refsLang).report refsLang =
      [(2, "D2", b "n6", b "n6", [], []), (3, "D3", b "w3 @{D2|nomn,sing}", b "w3 n6", [], [])] :=
  ⟨acyclic_of_check (rank := id) (by decide +kernel), by decide +kernel, by decide +kernel⟩

set_option synthInstance.maxSize 512 in
/-- the statement over ALL histories is false (for the model and — the model being a transcription, and the
history replayed — for `Thesaurus` used without `RSCore`'s alias discipline) -/
theorem terms_eq_scratch_statement_false : ¬ terms_eq_scratch_statement refsLang := by
  intro h
  have h1 := h histTextDup terms_dup_alias_counterexample.1
  rw [terms_dup_alias_counterexample.2.1, terms_dup_alias_counterexample.2.2] at h1
  revert h1
  decide +kernel

/-- the history is exactly outside `Admissible2`: its `Erase` removes an entity whose alias is shared -/
example : ¬ AdmissibleFrom2 refsLang (St.init refsLang) histTextDup := by
  intro h
  have h4 : EraseOk (run refsLang (histTextDup.take 3)).store 1 := h.2.2.2.1
  revert h4
  unfold EraseOk
  decide +kernel

end CCVerif.Thesaurus
