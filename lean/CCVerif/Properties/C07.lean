import CCVerif.Model.Schema
/-!
# C07 — incremental schema re-analysis equals analysis from scratch after any edits
-/
namespace CCVerif.Schema

/-- full statement (for the incremental algorithm as in /repo now): after every history the
reported analysis results and dependency edges equal those of a schema built from scratch from
the same content -/
def incremental_eq_scratch_statement : Prop :=
  ∀ ops : List Op, (∀ op ∈ ops, ∀ c, op ≠ .load c) →
    (run false ops).report = (run false ops).scratch.report ∧
    (run false ops).depEdges = (run false ops).scratch.depEdges

/-- the pinned defect: `D1:=X1`, then `D1:=D1∪X1` is accepted incrementally (the target is
analysed against its own stale entry) and rejected from scratch -/
def histSelf : List Op :=
  [.insert ⟨1, "X1", .base, .empty⟩, .insert ⟨2, "D1", .term, .union ["X1"]⟩, .setDef 2 (.union ["D1", "X1"])]

theorem incremental_pinned_counterexample :
    (run true histSelf).report ≠ (run true histSelf).scratch.report := by decide

/-- the repaired algorithm on the same history -/
theorem incremental_repaired_example :
    (run false histSelf).report = (run false histSelf).scratch.report := by decide

/-- closed cycle: `D1:=X1, D2:=D1`, then `D1:=D2` -/
def histCycle : List Op :=
  [.insert ⟨1, "X1", .base, .empty⟩, .insert ⟨2, "D1", .term, .union ["X1"]⟩,
   .insert ⟨3, "D2", .term, .union ["D1"]⟩, .setDef 2 (.union ["D2"])]

theorem incremental_pinned_cycle_counterexample :
    (run true histCycle).report ≠ (run true histCycle).scratch.report := by decide

theorem incremental_repaired_cycle_example :
    (run false histCycle).report = (run false histCycle).scratch.report := by decide

end CCVerif.Schema
