import CCVerif.Lemmas.EvalGround
/-!
# C01 — evaluation returns the set-theoretic value

Objects: `CCVerif.Eval.evaluate` (transcription of `Interpreter::Evaluate` after parsing and type
checking: `Normalizer`, `NameCollector`, `ASTInterpreter`; checked against the C++ on every run by
`harness/c01_main.cpp`) and `CCVerif.Spec.denote` (`⟦e⟧ρ`, the reference semantics written from the
set-theoretic meaning on the un-normalised tree).

* canonical sets: `Compare` is a strict order with `EQUAL` = structural equality; `std::set`
  insertion keeps the strictly increasing list; union / intersection / difference / symmetric
  difference of canonical sets are canonical and have exactly the right members; canonical lists
  are extensional; the set operations of the evaluator coincide with the reference operations;
* `eval_refines_denote_statement` is the full refinement claim (parametric in the typing
  judgement `Γ ⊢ e` of C03, which is not yet modelled); `eval_refines_denote_partial` proves it
  for the ground integer / logic fragment (literals, `+ - *`, `< > ≤ ≥ = ≠`, `¬ & ∨ ⇒ ⇔` with the
  short-circuit evaluation against the strong-Kleene tables) — binders, sets inside the
  evaluator, the normaliser's rewrites and calls are covered by the correspondence + oracle run only;
* `…_fixed`: the closed inputs on which the pinned code violated the claim, after the `fix:` commits.
-/
namespace CCVerif.Eval
open CCVerif.Syntax CCVerif.Spec CCVerif.Norm
open Val

/-! ## `Compare` is an order -/

/-- `Compare(a, a) = EQUAL` -/
theorem compare_refl (a : Val) : cmp a a = .eq := cmp_refl a

/-- `Compare` answers `EQUAL` exactly for structurally equal values -/
theorem compare_eq_iff (a b : Val) : cmp a b = .eq ↔ a = b := cmp_eq_iff a b

/-- `Compare(b, a)` is the mirror image of `Compare(a, b)` -/
theorem compare_antisymm (a b : Val) : cmp a b = .lt ↔ cmp b a = .gt := lt_iff_gt a b

/-- `operator<` is transitive -/
theorem compare_trans (a b c : Val) (h1 : cmp a b = .lt) (h2 : cmp b c = .lt) : cmp a c = .lt :=
  cmp_trans a b c h1 h2

/-! ## canonical sets -/

private theorem pcSub {l1 l2 : List Val} (h : PairComparable l2) (hs : ∀ x ∈ l1, x ∈ l2) : PairComparable l1 :=
  fun a ha b hb => h a (hs a ha) b (hs b hb)

private theorem all_congr' {f g : Val → Bool} : ∀ {l : List Val}, (∀ x ∈ l, f x = g x) → l.all f = l.all g
  | [], _ => rfl
  | x :: l, h => by
    simp only [List.all_cons]
    rw [h x (by simp), all_congr' (fun y hy => h y (List.mem_cons_of_mem _ hy))]

/-- `std::set::insert` keeps the list strictly increasing -/
theorem insert_canonical (x : Val) (l : List Val) (h : sortedStrict l = true) : sortedStrict (insert x l) = true :=
  insert_sorted h

/-- … and adds exactly the new element (which must be comparable with the old ones) -/
theorem mem_insert (x y : Val) (l : List Val) (hc : ∀ z ∈ l, Comparable x z) :
    y ∈ insert x l ↔ y = x ∨ y ∈ l := mem_insert_iff hc

/-- `Factory::Set`: canonical, with exactly the listed members -/
theorem mkSet_canonical (xs : List Val) : sortedStrict (mkSetList xs) = true := mkSetList_sorted xs
theorem mem_mkSet (xs : List Val) (y : Val) (hc : PairComparable xs) : y ∈ mkSetList xs ↔ y ∈ xs :=
  mem_mkSetList_iff hc

/-- `std::set::contains` (ordered search) is membership -/
theorem contains_iff_mem (l : List Val) (x : Val) (hs : sortedStrict l = true) (hc : ∀ y ∈ l, Comparable x y) :
    mem x l = true ↔ x ∈ l := mem_iff hs hc

/-- extensionality of canonical sets -/
theorem canonical_ext (l1 l2 : List Val) (h1 : sortedStrict l1 = true) (h2 : sortedStrict l2 = true)
    (h : ∀ x, x ∈ l1 ↔ x ∈ l2) : l1 = l2 := sorted_ext h1 h2 h

theorem union_canonical (xs ys : List Val) : sortedStrict (union xs ys) = true :=
  insertAll_sorted ys (insertAll_sorted xs (by simp [sortedStrict]))

theorem mem_union (xs ys : List Val) (z : Val) (hc : PairComparable (xs ++ ys)) :
    z ∈ union xs ys ↔ z ∈ xs ∨ z ∈ ys := by
  have hx : PairComparable xs := pcSub hc (fun x hx => by simp [hx])
  have h1 : ∀ w, w ∈ insertAll [] xs ↔ w ∈ xs := fun w => by
    have := mem_insertAll_iff xs (acc := []) (y := w) (by simpa using hx)
    simpa using this
  have hc2 : PairComparable (insertAll [] xs ++ ys) := pcSub hc (fun w hw => by
    rcases List.mem_append.mp hw with m | m
    · simp [(h1 w).mp m]
    · simp [m])
  unfold union
  rw [mem_insertAll_iff ys hc2, h1]

theorem inter_canonical (xs ys : List Val) : sortedStrict (inter xs ys) = true :=
  insertAll_sorted _ (by simp [sortedStrict])

theorem mem_inter (xs ys : List Val) (z : Val) (hs : sortedStrict xs = true) (hc : PairComparable (xs ++ ys)) :
    z ∈ inter xs ys ↔ z ∈ xs ∧ z ∈ ys := by
  have hf : PairComparable (ys.filter (fun y => mem y xs)) :=
    pcSub hc (fun w hw => by simp [(List.mem_filter.mp hw).1])
  unfold inter
  have := mem_mkSetList_iff (y := z) hf
  unfold mkSetList at this
  rw [this, List.mem_filter]
  constructor
  · rintro ⟨hy, hm⟩
    exact ⟨(mem_iff hs (fun y hy' => hc z (by simp [hy]) y (by simp [hy']))).mp hm, hy⟩
  · rintro ⟨hx, hy⟩
    exact ⟨hy, (mem_iff hs (fun y hy' => hc z (by simp [hy]) y (by simp [hy']))).mpr hx⟩

theorem diff_canonical (xs ys : List Val) : sortedStrict (diff xs ys) = true :=
  insertAll_sorted _ (by simp [sortedStrict])

theorem mem_diff (xs ys : List Val) (z : Val) (hs : sortedStrict ys = true) (hc : PairComparable (xs ++ ys)) :
    z ∈ diff xs ys ↔ z ∈ xs ∧ z ∉ ys := by
  have hf : PairComparable (xs.filter (fun x => !mem x ys)) :=
    pcSub hc (fun w hw => by simp [(List.mem_filter.mp hw).1])
  unfold diff
  have := mem_mkSetList_iff (y := z) hf
  unfold mkSetList at this
  rw [this, List.mem_filter]
  constructor
  · rintro ⟨hx, hm⟩
    refine ⟨hx, fun hy => ?_⟩
    have := (mem_iff hs (fun y hy' => hc z (by simp [hx]) y (by simp [hy']))).mpr hy
    simp [this] at hm
  · rintro ⟨hx, hy⟩
    refine ⟨hx, ?_⟩
    have : mem z ys ≠ true := fun hm => hy ((mem_iff hs (fun y hy' => hc z (by simp [hx]) y (by simp [hy']))).mp hm)
    simpa using this

theorem symDiff_canonical (xs ys : List Val) : sortedStrict (symDiff xs ys) = true :=
  insertAll_sorted _ (insertAll_sorted _ (by simp [sortedStrict]))

theorem mem_symDiff (xs ys : List Val) (z : Val) (hsx : sortedStrict xs = true) (hsy : sortedStrict ys = true)
    (hc : PairComparable (xs ++ ys)) :
    z ∈ symDiff xs ys ↔ (z ∈ xs ∧ z ∉ ys) ∨ (z ∈ ys ∧ z ∉ xs) := by
  have hc' : PairComparable (ys ++ xs) := pcSub hc (fun w hw => by
    rcases List.mem_append.mp hw with m | m <;> simp [m])
  have e : symDiff xs ys = insertAll (diff xs ys) (ys.filter (fun y => !mem y xs)) := rfl
  have hd := mem_diff xs ys
  have hcc : PairComparable (diff xs ys ++ ys.filter (fun y => !mem y xs)) := pcSub hc (fun w hw => by
    rcases List.mem_append.mp hw with m | m
    · simp [((hd w hsy hc).mp m).1]
    · simp [(List.mem_filter.mp m).1])
  rw [e, mem_insertAll_iff _ hcc, hd z hsy hc, List.mem_filter]
  constructor
  · rintro (h | ⟨hy, hm⟩)
    · exact Or.inl h
    · refine Or.inr ⟨hy, fun hx => ?_⟩
      have := (mem_iff hsx (fun y hy' => hc' z (by simp [hy]) y (by simp [hy']))).mpr hx
      simp [this] at hm
  · rintro (h | ⟨hy, hx⟩)
    · exact Or.inl h
    · refine Or.inr ⟨hy, ?_⟩
      have : mem z xs ≠ true := fun hm => hx ((mem_iff hsx (fun y hy' => hc' z (by simp [hy]) y (by simp [hy']))).mp hm)
      simpa using this

/-! ## the evaluator's set operations are the reference operations -/

theorem isMember_iff (x : Val) (l : List Val) : isMember x l = true ↔ x ∈ l := by
  simp [isMember]

/-- `SDSet::Union` = the set with the members of both (no hypothesis: same fold) -/
theorem union_agrees (xs ys : List Val) : Val.s (union xs ys) = setOf (xs ++ ys) := by
  simp [union, setOf, mkSet, mkSetList, insertAll, List.foldl_append]

theorem inter_agrees (xs ys : List Val) (hs : sortedStrict xs = true) (hc : PairComparable (xs ++ ys)) :
    Val.s (inter xs ys) = setOf (xs.filter (isMember · ys)) := by
  simp only [setOf, mkSet]
  congr 1
  apply sorted_ext (inter_canonical xs ys) (mkSetList_sorted _)
  intro z
  have hf : PairComparable (xs.filter (isMember · ys)) := pcSub hc (fun w hw => by simp [(List.mem_filter.mp hw).1])
  rw [mem_inter xs ys z hs hc, mem_mkSetList_iff hf, List.mem_filter, isMember_iff]

theorem diff_agrees (xs ys : List Val) (hs : sortedStrict ys = true) (hc : PairComparable (xs ++ ys)) :
    Val.s (diff xs ys) = setOf (xs.filter (!isMember · ys)) := by
  simp only [setOf, mkSet]
  congr 1
  apply sorted_ext (diff_canonical xs ys) (mkSetList_sorted _)
  intro z
  have hf : PairComparable (xs.filter (!isMember · ys)) := pcSub hc (fun w hw => by simp [(List.mem_filter.mp hw).1])
  rw [mem_diff xs ys z hs hc, mem_mkSetList_iff hf, List.mem_filter]
  simp [isMember]

theorem symDiff_agrees (xs ys : List Val) (hsx : sortedStrict xs = true) (hsy : sortedStrict ys = true)
    (hc : PairComparable (xs ++ ys)) :
    Val.s (symDiff xs ys) = setOf (xs.filter (!isMember · ys) ++ ys.filter (!isMember · xs)) := by
  simp only [setOf, mkSet]
  congr 1
  apply sorted_ext (symDiff_canonical xs ys) (mkSetList_sorted _)
  intro z
  have hf : PairComparable (xs.filter (!isMember · ys) ++ ys.filter (!isMember · xs)) := pcSub hc (fun w hw => by
    rcases List.mem_append.mp hw with m | m <;> simp [(List.mem_filter.mp m).1])
  rw [mem_symDiff xs ys z hsx hsy hc, mem_mkSetList_iff hf, List.mem_append, List.mem_filter, List.mem_filter]
  simp [isMember]

/-- `Contains` / `IsSubsetOrEq` of the evaluator = membership / inclusion of the reference -/
theorem mem_agrees (x : Val) (ys : List Val) (hs : sortedStrict ys = true) (hc : ∀ y ∈ ys, Comparable x y) :
    mem x ys = isMember x ys := by
  have h1 := mem_iff hs hc
  have h2 := isMember_iff x ys
  cases hm : mem x ys <;> cases hi : isMember x ys <;> simp_all

theorem subsetEq_agrees (xs ys : List Val) (hs : sortedStrict ys = true) (hc : PairComparable (xs ++ ys)) :
    subsetEq xs ys = isSubset xs ys := by
  unfold subsetEq isSubset
  apply all_congr'
  intro x hx
  exact mem_agrees x ys hs (fun y hy => hc x (by simp [hx]) y (by simp [hy]))

/-! ## refinement -/

def senvOf (env : Env) : SEnv := { globals := env.globals, funcs := env.funcs }

/-- **full statement**: for every accepted expression, a value returned by the evaluator is the
value of the reference semantics (`Typed` = the typing judgement of the checker, C03) -/
def eval_refines_denote_statement (Typed : Env → Ast → Prop) : Prop :=
  ∀ (env : Env) (e : Ast), Typed env e → ∀ (fuel : Nat),
    (∀ v, (evaluate fuel env e).1 = .ok v → denote (senvOf env) fuel .nil e = some (.val v)) ∧
    (∀ b, (evaluate fuel env e).1 = .okBool b → denote (senvOf env) fuel .nil e = some (.bool b))

/-- **full statement** about the normaliser: the rewrites preserve `⟦·⟧` -/
def normalize_correct_statement (Typed : Env → Ast → Prop) : Prop :=
  ∀ (env : Env) (e n : Ast), Typed env e → ∀ (fuel : Nat), normalizeTree env.funcs fuel e = some n →
    denote (senvOf env) fuel .nil n = denote (senvOf env) fuel .nil e

/-- on the ground fragment the evaluator runs on the tree as parsed -/
private theorem evaluate_ground (env : Env) (e : Ast) (h : GInt e ∨ GLog e) (fuel : Nat) :
    evaluate fuel env e = (.outOfFuel, 0) ∨
    evaluate fuel env e =
      (match ev { ids := [] } fuel e none { data := [], iters := 0 } with
        | .ok (.val v) st => (.ok v, st.iters)
        | .ok (.bool b) st => (.okBool b, st.iters)
        | .fail .quiet n => (.err EID.unknownError 0, n)
        | .fail (.err e p) n => (.err e p, n)
        | .fail (.stuck site) n => (.stuck site, n)
        | .fail .outOfFuel n => (.outOfFuel, n)) := by
  have hn : normalize env.funcs fuel e { userLocals := collectLocals e } = none ∨
      normalize env.funcs fuel e { userLocals := collectLocals e } = some (e, { userLocals := collectLocals e }) := by
    rcases h with h | h
    · exact normalize_gint _ h fuel _
    · exact normalize_glog _ h fuel _
  have hcl : collect env fuel e {} = .fail .outOfFuel ∨ collect env fuel e {} = .ok [] false {} := by
    rcases h with h | h
    · exact collect_gint _ h fuel {}
    · exact collect_glog _ h fuel {}
  unfold evaluate normalizeTree
  rcases hn with hn | hn
  · left; simp [hn]
  · rcases hcl with hc | hc
    · left; simp [hn, evalNorm, hc]
    · right
      simp only [hn, evalNorm, hc, Option.map_some]
      generalize ev { ids := [] } fuel e none { data := [], iters := 0 } = r
      cases r with
      | ok v st => cases v <;> rfl
      | fail f n => cases f <;> rfl

/-- **normalize_correct_partial**: on the ground fragment the normaliser is the identity -/
theorem normalize_correct_partial : normalize_correct_statement (fun _ e => GInt e ∨ GLog e) := by
  intro env e n h fuel hn
  have hid : normalize env.funcs fuel e { userLocals := collectLocals e } = none ∨
      normalize env.funcs fuel e { userLocals := collectLocals e } = some (e, { userLocals := collectLocals e }) := by
    rcases h with h | h
    · exact normalize_gint _ h fuel _
    · exact normalize_glog _ h fuel _
  unfold normalizeTree at hn
  rcases hid with h0 | h0 <;> rw [h0] at hn <;> simp at hn
  rw [← hn]

/-- **eval_refines_denote_partial**: the refinement for ground integer terms and ground formulas
(no identifiers, binders, sets or calls).  The evaluator short-circuits `& ∨ ⇒`; the reference
semantics is strong Kleene; the value is the same. -/
theorem eval_refines_denote_partial : eval_refines_denote_statement (fun _ e => GInt e ∨ GLog e) := by
  intro env e h fuel
  rcases evaluate_ground env e h fuel with he | he
  · constructor <;> intro v hv <;> simp [he] at hv
  · rcases h with h | h
    · rcases sim_int (senvOf env) { ids := [] } h fuel none { data := [], iters := 0 } .nil with ⟨n, hx, dx⟩ | hx | ⟨⟨_, hx⟩, _⟩
      · constructor
        · intro v hv; rw [he, hx] at hv; simp at hv; rw [← hv]; exact dx
        · intro b hv; rw [he, hx] at hv; simp at hv
      · constructor <;> intro v hv <;> rw [he, hx] at hv <;> simp at hv
      · constructor <;> intro v hv <;> rw [he, hx] at hv <;> simp at hv
    · rcases sim_log (senvOf env) { ids := [] } h fuel none { data := [], iters := 0 } .nil with ⟨n, hx, dx⟩ | hx | ⟨⟨_, hx⟩, _⟩
      · constructor
        · intro v hv; rw [he, hx] at hv; simp at hv
        · intro b hv; rw [he, hx] at hv; simp at hv; rw [← hv]; exact dx
      · constructor <;> intro v hv <;> rw [he, hx] at hv <;> simp at hv
      · constructor <;> intro v hv <;> rw [he, hx] at hv <;> simp at hv

/-! non-vacuity: `(2+3)*4 < 21 ⇒ ¬ 1 = 2` is in the fragment, evaluates to `true`, and so does `⟦·⟧` -/
private def lit (n : Int) : Ast := .node .LIT_INTEGER (.int n) 0 0 []
private def bin (t : Tok) (a b : Ast) : Ast := .node t .none 0 0 [a, b]
private def sample : Ast :=
  bin .IMPLICATION (bin .LESSER (bin .MULTIPLY (bin .PLUS (lit 2) (lit 3)) (lit 4)) (lit 21))
    (.node .NOT .none 0 0 [bin .EQUAL (lit 1) (lit 2)])
example : GLog sample :=
  .conn _ _ _ (by simp [isConn])
    (.cmp _ _ _ (by simp [isIntCmp])
      (.arith _ _ _ (by simp [isArith]) (.arith _ _ _ (by simp [isArith]) (.lit _ _ _) (.lit _ _ _)) (.lit _ _ _)) (.lit _ _ _))
    (.not _ _ _ (.eq _ _ _ (by simp [isEq]) (.lit _ _ _) (.lit _ _ _)))
example : (evaluate 10 {} sample).1 = .okBool true ∧ denote {} 10 .nil sample = some (.bool true) := by decide

/-! ## former counterexamples (before the `fix:` commits in ASTNormalizer.cpp / NameCollector.cpp):
the inputs on which the pinned code violated the claim now evaluate to the reference value
(each is replayed on the implementation by the `known.*` classes of `harness/c01_main.cpp`) -/

private def nd (t : Tok) (ks : List Ast) : Ast := .node t .none 0 0 ks
private def loc (s : String) : Ast := .node .ID_LOCAL (.text s) 0 0 []
private def glob (s : String) : Ast := .node .ID_GLOBAL (.text s) 0 0 []
private def x1x1 : Ast := nd .DECART [glob "X1", glob "X1"]
private def envX : Env := { globals := [("X1", .s [.e 1, .e 2])] }

/-- `∀(a,bc)∈X1×X1 ∃(ab,c)∈X1×X1 a≠ab` -/
def binderCollision : Ast :=
  nd .FORALL [nd .NT_TUPLE_DECL [loc "a", loc "bc"], x1x1,
    nd .EXISTS [nd .NT_TUPLE_DECL [loc "ab", loc "c"], x1x1, nd .NOTEQUAL [loc "a", loc "ab"]]]

/-- **binder_collision_fixed** (DESIGN finding 20): the binders are renamed to `@abc` and
`@abc@` (a pattern with other component names never re-uses a generated name); evaluator and
reference semantics agree on `true` -/
theorem binder_collision_fixed :
    (evaluate 20 envX binderCollision).1 = .okBool true ∧
    denote (senvOf envX) 20 .nil binderCollision = some (.bool true) := by decide

/-- `F1 :== [s∈ℬ(X1)] D{y∈X1 | y∈s}` -/
def f1Def : Ast :=
  nd .PUNC_DEFINE [.node .ID_FUNCTION (.text "F1") 0 0 [],
    nd .NT_FUNC_DEFINITION [nd .NT_ARGUMENTS [nd .NT_ARG_DECL [loc "s", nd .BOOLEAN [glob "X1"]]],
      nd .NT_DECLARATIVE_EXPR [loc "y", glob "X1", nd .IN [loc "y", loc "s"]]]]
/-- `D{__var1∈X1 | F1[{__var1}]={__var1}}` -/
def inlineCapture : Ast :=
  nd .NT_DECLARATIVE_EXPR [loc "__var1", glob "X1",
    nd .EQUAL [nd .NT_FUNC_CALL [.node .ID_FUNCTION (.text "F1") 0 0 [], nd .NT_ENUMERATION [loc "__var1"]],
      nd .NT_ENUMERATION [loc "__var1"]]]
private def envF : Env := { globals := [("X1", .s [.e 1, .e 2])], funcs := [("F1", f1Def)] }

/-- **inline_capture_fixed** (DESIGN finding 27): inlined locals are called `__var<n>` with the first
`n` that is not a local name of the expression (`__var2` here) -/
theorem inline_capture_fixed :
    (evaluate 20 envF inlineCapture).1 = .ok (.s [.e 1, .e 2]) ∧
    denote (senvOf envF) 20 .nil inlineCapture = some (.val (.s [.e 1, .e 2])) := by decide

/-- `∃(a,b),c∈X1×X1 (a=b & c=c)` -/
def enumTuple : Ast :=
  nd .EXISTS [nd .NT_ENUM_DECL [nd .NT_TUPLE_DECL [loc "a", loc "b"], loc "c"], x1x1,
    nd .AND [nd .EQUAL [loc "a", loc "b"], nd .EQUAL [loc "c", loc "c"]]]

/-- **enum_tuple_fixed**: the first declaration of a split enumerated declaration is rewritten
when it is a tuple pattern -/
theorem enum_tuple_fixed :
    (evaluate 20 envX enumTuple).1 = .okBool true ∧
    denote (senvOf envX) 20 .nil enumTuple = some (.bool true) := by decide

/-- `D{(a,b)∈{a∈X1×X1 | pr1(a)=pr1(a)} | a=b}` -/
def patternScope : Ast :=
  nd .NT_DECLARATIVE_EXPR [nd .NT_TUPLE_DECL [loc "a", loc "b"],
    nd .NT_DECLARATIVE_EXPR [loc "a", x1x1,
      nd .EQUAL [.node .SMALLPR (.tuple [1]) 0 0 [loc "a"], .node .SMALLPR (.tuple [1]) 0 0 [loc "a"]]],
    nd .EQUAL [loc "a", loc "b"]]

/-- **pattern_scope_fixed**: the pattern substitution no longer reaches the binder's own domain -/
theorem pattern_scope_fixed :
    (evaluate 20 envX patternScope).1 = .ok (.s [.t [.e 1, .e 1], .t [.e 2, .e 2]]) ∧
    denote (senvOf envX) 20 .nil patternScope = some (.val (.s [.t [.e 1, .e 1], .t [.e 2, .e 2]])) := by decide

/-- the normal form of `binderCollision` denotes what the expression denotes -/
theorem normalize_correct_on_binderCollision :
    ∃ n, normalizeTree envX.funcs 20 binderCollision = some n ∧
      denote (senvOf envX) 20 .nil n = denote (senvOf envX) 20 .nil binderCollision := by
  refine ⟨_, rfl, ?_⟩; decide

end CCVerif.Eval
