import CCVerif.Lemmas.EvalGround
import CCVerif.Lemmas.EvalSetOps
import CCVerif.Lemmas.EvalExamples
/-!
# C01 — evaluation returns the set-theoretic value

Objects: `CCVerif.Eval.evaluate` (transcription of `Interpreter::Evaluate` after parsing and type
checking: `Normalizer`, `NameCollector`, `ASTInterpreter`; checked against the C++ on every run by
`harness/c01_main.cpp`) and `CCVerif.Spec.denote` (`⟦e⟧ρ`, the reference semantics written from the
set-theoretic meaning on the un-normalised tree).

* canonical sets: `Compare` is a strict order with `EQUAL` = structural equality; `std::set`
  insertion keeps the strictly increasing list; union / intersection / difference / symmetric
  difference of canonical sets are canonical and have exactly the right members; canonical lists
  are extensional; the set operations of the evaluator coincide with the reference operations;
* `eval_refines_denote_statement` is the full refinement claim (parametric in the typing
  judgement `Γ ⊢ e` of C03, which is not yet modelled); `eval_refines_denote_partial` proves it
  for the ground integer / logic fragment (literals, `+ - *`, `< > ≤ ≥ = ≠`, `¬ & ∨ ⇒ ⇔` with the
  short-circuit evaluation against the strong-Kleene tables);
  `eval_refines_denote_partial1/2/3` prove it for the typed fragments `Frag … lvl` of
  `Lemmas/EvalFrag.lean`: (1) every ground set construct (`∅ {…} (…) ∪ ∩ \ ∆ ∈ ∉ ⊆ ⊂ ⊄ card bool debool
  red pr Pr × ℬ`), (2) globals under a canonical typed interpretation (`GlobalsOK`), (3) `∀ ∃` and
  `D{x∈S | P}` over one plain variable, with the slot table of the evaluator tied to the scoped
  environment of `⟦·⟧` (`Inv`); the normaliser is the identity there (`normalize_correct_partial3`).
  Tuple patterns, enumerated declarations, calls, `R{}`, `I{}`, filters are covered by the
  correspondence + oracle run only; `ℬ` carries a size guard (the bounds of model and reference agree: `pow_bound_agrees`);
* `…_fixed`: the closed inputs on which the pinned code violated the claim, after the `fix:` commits.
-/
namespace CCVerif.Eval
open CCVerif.Syntax CCVerif.Spec CCVerif.Norm
open Val

/-! ## `Compare` is an order -/

/-- `Compare(a, a) = EQUAL` -/
theorem compare_refl (a : Val) : cmp a a = .eq := cmp_refl a

/-- `Compare` answers `EQUAL` exactly for structurally equal values -/
theorem compare_eq_iff (a b : Val) : cmp a b = .eq ↔ a = b := cmp_eq_iff a b

/-- `Compare(b, a)` is the mirror image of `Compare(a, b)` -/
theorem compare_antisymm (a b : Val) : cmp a b = .lt ↔ cmp b a = .gt := lt_iff_gt a b

/-- `operator<` is transitive -/
theorem compare_trans (a b c : Val) (h1 : cmp a b = .lt) (h2 : cmp b c = .lt) : cmp a c = .lt :=
  cmp_trans a b c h1 h2

/-! ## canonical sets -/

/-- `std::set::insert` keeps the list strictly increasing -/
theorem insert_canonical (x : Val) (l : List Val) (h : sortedStrict l = true) : sortedStrict (insert x l) = true :=
  SetOps.insert_canonical x l h

/-- … and adds exactly the new element (which must be comparable with the old ones) -/
theorem mem_insert (x y : Val) (l : List Val) (hc : ∀ z ∈ l, Comparable x z) :
    y ∈ insert x l ↔ y = x ∨ y ∈ l := SetOps.mem_insert x y l hc

/-- `Factory::Set`: canonical, with exactly the listed members -/
theorem mkSet_canonical (xs : List Val) : sortedStrict (mkSetList xs) = true := SetOps.mkSet_canonical xs
theorem mem_mkSet (xs : List Val) (y : Val) (hc : PairComparable xs) : y ∈ mkSetList xs ↔ y ∈ xs :=
  SetOps.mem_mkSet xs y hc

/-- `std::set::contains` (ordered search) is membership -/
theorem contains_iff_mem (l : List Val) (x : Val) (hs : sortedStrict l = true) (hc : ∀ y ∈ l, Comparable x y) :
    mem x l = true ↔ x ∈ l := SetOps.contains_iff_mem l x hs hc

/-- extensionality of canonical sets -/
theorem canonical_ext (l1 l2 : List Val) (h1 : sortedStrict l1 = true) (h2 : sortedStrict l2 = true)
    (h : ∀ x, x ∈ l1 ↔ x ∈ l2) : l1 = l2 := SetOps.canonical_ext l1 l2 h1 h2 h

theorem union_canonical (xs ys : List Val) : sortedStrict (union xs ys) = true := SetOps.union_canonical xs ys

theorem mem_union (xs ys : List Val) (z : Val) (hc : PairComparable (xs ++ ys)) :
    z ∈ union xs ys ↔ z ∈ xs ∨ z ∈ ys := SetOps.mem_union xs ys z hc

theorem inter_canonical (xs ys : List Val) : sortedStrict (inter xs ys) = true := SetOps.inter_canonical xs ys

theorem mem_inter (xs ys : List Val) (z : Val) (hs : sortedStrict xs = true) (hc : PairComparable (xs ++ ys)) :
    z ∈ inter xs ys ↔ z ∈ xs ∧ z ∈ ys := SetOps.mem_inter xs ys z hs hc

theorem diff_canonical (xs ys : List Val) : sortedStrict (diff xs ys) = true := SetOps.diff_canonical xs ys

theorem mem_diff (xs ys : List Val) (z : Val) (hs : sortedStrict ys = true) (hc : PairComparable (xs ++ ys)) :
    z ∈ diff xs ys ↔ z ∈ xs ∧ z ∉ ys := SetOps.mem_diff xs ys z hs hc

theorem symDiff_canonical (xs ys : List Val) : sortedStrict (symDiff xs ys) = true := SetOps.symDiff_canonical xs ys

theorem mem_symDiff (xs ys : List Val) (z : Val) (hsx : sortedStrict xs = true) (hsy : sortedStrict ys = true)
    (hc : PairComparable (xs ++ ys)) :
    z ∈ symDiff xs ys ↔ (z ∈ xs ∧ z ∉ ys) ∨ (z ∈ ys ∧ z ∉ xs) := SetOps.mem_symDiff xs ys z hsx hsy hc

/-! ## the evaluator's set operations are the reference operations
(proofs: `Lemmas/EvalSetOps.lean`, `Lemmas/EvalPow.lean`) -/

theorem isMember_iff (x : Val) (l : List Val) : isMember x l = true ↔ x ∈ l := SetOps.isMember_iff x l

/-- `SDSet::Union` = the set with the members of both (no hypothesis: same fold) -/
theorem union_agrees (xs ys : List Val) : Val.s (union xs ys) = setOf (xs ++ ys) := SetOps.union_agrees xs ys

theorem inter_agrees (xs ys : List Val) (hs : sortedStrict xs = true) (hc : PairComparable (xs ++ ys)) :
    Val.s (inter xs ys) = setOf (xs.filter (isMember · ys)) := SetOps.inter_agrees xs ys hs hc

theorem diff_agrees (xs ys : List Val) (hs : sortedStrict ys = true) (hc : PairComparable (xs ++ ys)) :
    Val.s (diff xs ys) = setOf (xs.filter (!isMember · ys)) := SetOps.diff_agrees xs ys hs hc

theorem symDiff_agrees (xs ys : List Val) (hsx : sortedStrict xs = true) (hsy : sortedStrict ys = true)
    (hc : PairComparable (xs ++ ys)) :
    Val.s (symDiff xs ys) = setOf (xs.filter (!isMember · ys) ++ ys.filter (!isMember · xs)) :=
  SetOps.symDiff_agrees xs ys hsx hsy hc

/-- `Contains` / `IsSubsetOrEq` of the evaluator = membership / inclusion of the reference -/
theorem mem_agrees (x : Val) (ys : List Val) (hs : sortedStrict ys = true) (hc : ∀ y ∈ ys, Comparable x y) :
    mem x ys = isMember x ys := SetOps.mem_agrees x ys hs hc

theorem subsetEq_agrees (xs ys : List Val) (hs : sortedStrict ys = true) (hc : PairComparable (xs ++ ys)) :
    subsetEq xs ys = isSubset xs ys := SetOps.subsetEq_agrees xs ys hs hc

/-! ## refinement -/

/-- **full statement**: for every accepted expression, a value returned by the evaluator is the
value of the reference semantics (`Typed` = the typing judgement of the checker, C03) -/
def eval_refines_denote_statement (Typed : Env → Ast → Prop) : Prop :=
  ∀ (env : Env) (e : Ast), Typed env e → ∀ (fuel : Nat),
    (∀ v, (evaluate fuel env e).1 = .ok v → denote (senvOf env) fuel .nil e = some (.val v)) ∧
    (∀ b, (evaluate fuel env e).1 = .okBool b → denote (senvOf env) fuel .nil e = some (.bool b))

/-- **full statement** about the normaliser: the rewrites preserve `⟦·⟧` -/
def normalize_correct_statement (Typed : Env → Ast → Prop) : Prop :=
  ∀ (env : Env) (e n : Ast), Typed env e → ∀ (fuel : Nat), normalizeTree env.funcs fuel e = some n →
    denote (senvOf env) fuel .nil n = denote (senvOf env) fuel .nil e

/-- on the ground fragment the evaluator runs on the tree as parsed -/
private theorem evaluate_ground (env : Env) (e : Ast) (h : GInt e ∨ GLog e) (fuel : Nat) :
    evaluate fuel env e = (.outOfFuel, 0) ∨
    evaluate fuel env e =
      (match ev { ids := [] } fuel e none { data := [], iters := 0 } with
        | .ok (.val v) st => (.ok v, st.iters)
        | .ok (.bool b) st => (.okBool b, st.iters)
        | .fail .quiet n => (.err EID.unknownError 0, n)
        | .fail (.err e p) n => (.err e p, n)
        | .fail (.stuck site) n => (.stuck site, n)
        | .fail .outOfFuel n => (.outOfFuel, n)) := by
  have hn : normalize env.funcs fuel e { userLocals := collectLocals e } = none ∨
      normalize env.funcs fuel e { userLocals := collectLocals e } = some (e, { userLocals := collectLocals e }) := by
    rcases h with h | h
    · exact normalize_gint _ h fuel _
    · exact normalize_glog _ h fuel _
  have hcl : collect env fuel e {} = .fail .outOfFuel ∨ collect env fuel e {} = .ok [] false {} := by
    rcases h with h | h
    · exact collect_gint _ h fuel {}
    · exact collect_glog _ h fuel {}
  unfold evaluate normalizeTree
  rcases hn with hn | hn
  · left; simp [hn]
  · rcases hcl with hc | hc
    · left; simp [hn, evalNorm, hc]
    · right
      simp only [hn, evalNorm, hc, Option.map_some]
      generalize ev { ids := [] } fuel e none { data := [], iters := 0 } = r
      cases r with
      | ok v st => cases v <;> rfl
      | fail f n => cases f <;> rfl

/-- **normalize_correct_partial**: on the ground fragment the normaliser is the identity -/
theorem normalize_correct_partial : normalize_correct_statement (fun _ e => GInt e ∨ GLog e) := by
  intro env e n h fuel hn
  have hid : normalize env.funcs fuel e { userLocals := collectLocals e } = none ∨
      normalize env.funcs fuel e { userLocals := collectLocals e } = some (e, { userLocals := collectLocals e }) := by
    rcases h with h | h
    · exact normalize_gint _ h fuel _
    · exact normalize_glog _ h fuel _
  unfold normalizeTree at hn
  rcases hid with h0 | h0 <;> rw [h0] at hn <;> simp at hn
  rw [← hn]

/-- **eval_refines_denote_partial**: the refinement for ground integer terms and ground formulas
(no identifiers, binders, sets or calls).  The evaluator short-circuits `& ∨ ⇒`; the reference
semantics is strong Kleene; the value is the same. -/
theorem eval_refines_denote_partial : eval_refines_denote_statement (fun _ e => GInt e ∨ GLog e) := by
  intro env e h fuel
  rcases evaluate_ground env e h fuel with he | he
  · constructor <;> intro v hv <;> simp [he] at hv
  · rcases h with h | h
    · rcases sim_int (senvOf env) { ids := [] } h fuel none { data := [], iters := 0 } .nil with ⟨n, hx, dx⟩ | hx | ⟨⟨_, hx⟩, _⟩
      · constructor
        · intro v hv; rw [he, hx] at hv; simp at hv; rw [← hv]; exact dx
        · intro b hv; rw [he, hx] at hv; simp at hv
      · constructor <;> intro v hv <;> rw [he, hx] at hv <;> simp at hv
      · constructor <;> intro v hv <;> rw [he, hx] at hv <;> simp at hv
    · rcases sim_log (senvOf env) { ids := [] } h fuel none { data := [], iters := 0 } .nil with ⟨n, hx, dx⟩ | hx | ⟨⟨_, hx⟩, _⟩
      · constructor
        · intro v hv; rw [he, hx] at hv; simp at hv
        · intro b hv; rw [he, hx] at hv; simp at hv; rw [← hv]; exact dx
      · constructor <;> intro v hv <;> rw [he, hx] at hv <;> simp at hv
      · constructor <;> intro v hv <;> rw [he, hx] at hv <;> simp at hv

/-! non-vacuity: `(2+3)*4 < 21 ⇒ ¬ 1 = 2` is in the fragment, evaluates to `true`, and so does `⟦·⟧` -/
private def lit (n : Int) : Ast := .node .LIT_INTEGER (.int n) 0 0 []
private def bin (t : Tok) (a b : Ast) : Ast := .node t .none 0 0 [a, b]
private def sample : Ast :=
  bin .IMPLICATION (bin .LESSER (bin .MULTIPLY (bin .PLUS (lit 2) (lit 3)) (lit 4)) (lit 21))
    (.node .NOT .none 0 0 [bin .EQUAL (lit 1) (lit 2)])
example : GLog sample :=
  .conn _ _ _ (by simp [isConn])
    (.cmp _ _ _ (by simp [isIntCmp])
      (.arith _ _ _ (by simp [isArith]) (.arith _ _ _ (by simp [isArith]) (.lit _ _ _) (.lit _ _ _)) (.lit _ _ _)) (.lit _ _ _))
    (.not _ _ _ (.eq _ _ _ (by simp [isEq]) (.lit _ _ _) (.lit _ _ _)))
example : (evaluate 10 {} sample).1 = .okBool true ∧ denote {} 10 .nil sample = some (.bool true) := by decide

/-! ## stages 1-3: set-valued expressions, globals, binders over one plain variable

`Frag env G lvl Γ e τ` (`Lemmas/EvalFrag.lean`) is the typed fragment: `lvl = 1` ground set-valued
expressions (`∅`, `{…}`, tuples, `∪ ∩ \ ∆`, `∈ ∉ ⊆ ⊂ ⊄`, `card`, `bool debool red`, `pr Pr`, `×`, and
`ℬ` of an operand with at most `2^POW_BOUND` subsets), `lvl = 2` adds globals whose interpretation
is canonical and typed (`GlobalsOK`), `lvl = 3` adds `∀ ∃` and `D{x∈S | P}` over one plain variable
(no tuple pattern, no enumerated declaration, no shadowing). -/

/-- stage 1: closed ground expressions, integer-, set- or truth-valued -/
def Stage1 (env : Env) (e : Ast) : Prop := ∃ τ, Frag env [] 1 [] e τ
/-- stage 2: + globals; the canonical-values hypothesis on the interpretation is explicit -/
def Stage2 (env : Env) (e : Ast) : Prop := ∃ G τ, GlobalsOK env G ∧ Frag env G 2 [] e τ
/-- stage 3: + quantifiers and the declarative set-builder with a single plain variable -/
def Stage3 (env : Env) (e : Ast) : Prop := ∃ G τ, GlobalsOK env G ∧ Frag env G 3 [] e τ

theorem globalsOK_nil (env : Env) : GlobalsOK env [] := by
  intro g τ h; simp [lookup] at h

theorem stage1_sub_stage2 {env : Env} {e : Ast} (h : Stage1 env e) : Stage2 env e :=
  let ⟨τ, hf⟩ := h; ⟨[], τ, globalsOK_nil env, hf.mono (by decide)⟩
theorem stage2_sub_stage3 {env : Env} {e : Ast} (h : Stage2 env e) : Stage3 env e :=
  let ⟨G, τ, hG, hf⟩ := h; ⟨G, τ, hG, hf.mono (by decide)⟩

private theorem refines_of_frag {env : Env} {G : TCtx} {lvl : Nat} (hG : GlobalsOK env G) {e : Ast} {τ : ExprTy}
    (h : Frag env G lvl [] e τ) (fuel : Nat) :
    (∀ v, (evaluate fuel env e).1 = .ok v → denote (senvOf env) fuel .nil e = some (.val v)) ∧
    (∀ b, (evaluate fuel env e).1 = .okBool b → denote (senvOf env) fuel .nil e = some (.bool b)) := by
  rcases evaluate_frag hG h fuel with hg | hf | ⟨eid, pos, he, _⟩
  · cases τ with
    | ty ty =>
      obtain ⟨v, hr, _, _, hd⟩ := hg
      constructor
      · intro v' hv; rw [hr] at hv; injection hv with hv; rw [← hv]; exact hd
      · intro b hb; rw [hr] at hb; cases hb
    | logic =>
      obtain ⟨b, hr, hd⟩ := hg
      constructor
      · intro v hv; rw [hr] at hv; cases hv
      · intro b' hb; rw [hr] at hb; injection hb with hb; rw [← hb]; exact hd
  · constructor <;> intro x hx <;> rw [hf] at hx <;> cases hx
  · constructor <;> intro x hx <;> rw [he] at hx <;> cases hx

/-- **eval_refines_denote_partial3**: the refinement for closed expressions built from literals,
arithmetic, comparisons, connectives (short-circuit vs strong Kleene), every ground set construct,
globals under a canonical typed interpretation, and `∀ ∃ D{·∈·|·}` over one plain variable.
Missing from the full statement: tuple patterns and enumerated declarations (where the normaliser
rewrites), calls, `R{}`, `I{}`, filters, `Z`; `ℬ` of operands with more than `2^POW_BOUND` subsets. -/
theorem eval_refines_denote_partial3 : eval_refines_denote_statement Stage3 := by
  intro env e ⟨G, τ, hG, hf⟩ fuel
  exact refines_of_frag hG hf fuel

/-- **eval_refines_denote_partial2**: closed expressions over globals (no binders) -/
theorem eval_refines_denote_partial2 : eval_refines_denote_statement Stage2 :=
  fun env e h => eval_refines_denote_partial3 env e (stage2_sub_stage3 h)

/-- **eval_refines_denote_partial1**: ground set-valued expressions -/
theorem eval_refines_denote_partial1 : eval_refines_denote_statement Stage1 :=
  fun env e h => eval_refines_denote_partial2 env e (stage1_sub_stage2 h)

/-- **normalize_correct_partial3**: on the three fragments the normaliser is the identity (single plain
binder variables are not rewritten) -/
theorem normalize_correct_partial3 : normalize_correct_statement Stage3 := by
  intro env e n ⟨G, τ, _, hf⟩ fuel hn
  rcases normalizeTree_shape hf.shape_closed fuel with h0 | h0 <;> rw [h0] at hn
  · cases hn
  · injection hn with hn; rw [← hn]

/-- the canonical-sets theorems above now cover the two lazy sets as well: the iteration order of
`SDPowerSet` / `SDDecartian` lists exactly the canonical set of all subsets / all tuples -/
theorem pow_agrees' (xs : List Val) (τ : Ty) (hn : Ty.noAny τ = true) (ht : Ty.hasTyAll xs τ = true)
    (hs : sortedStrict xs = true) : Val.s (pow xs) = setOf ((subsets xs).map setOf) := pow_agrees xs τ hn ht hs

theorem prod_agrees' (fs : List (List Val)) (ts : List Ty) (hn : Ty.noAnyList ts = true)
    (ht : List.Forall₂ (fun f t => Ty.hasTyAll f t = true) fs ts) (hs : ∀ f ∈ fs, sortedStrict f = true) :
    Val.s (prod fs) = setOf ((tuples fs).map Val.t) := prod_agrees fs ts hn ht hs

/-! non-vacuity of the three stages (witnesses in `Lemmas/EvalExamples.lean`):
`card(ℬ({1,2})) = 4 & pr1((1,{2})) ∈ {1,2}\{2}`;
`Pr1(D1) ⊆ X1 & (X1×X1) ∩ D1 = D1`;
`(∀x∈X1 ∃y∈X1 ((x,y)∈D1 ∨ (y,x)∈D1)) & D{x∈X1 | ∃y∈X1 (x,y)∈D1} = Pr1(D1)`
over `X1 = {1,2,3}`, `D1 = {(1,2),(2,3)}`: members of the fragments, evaluated to `true`, denoted `true` -/
example : Stage1 {} Examples.e1 := ⟨_, Examples.e1_frag {}⟩
example : (evaluate 20 {} Examples.e1).1 = .okBool true ∧ denote (senvOf {}) 20 .nil Examples.e1 = some (.bool true) := by
  decide
example : Stage2 Examples.envS Examples.e2 := ⟨_, _, Examples.globalsOK_S, Examples.e2_frag⟩
example : (evaluate 20 Examples.envS Examples.e2).1 = .okBool true ∧
    denote (senvOf Examples.envS) 20 .nil Examples.e2 = some (.bool true) := by decide
example : Stage3 Examples.envS Examples.e3 := ⟨_, _, Examples.globalsOK_S, Examples.e3_frag⟩
example : (evaluate 20 Examples.envS Examples.e3).1 = .okBool true ∧
    denote (senvOf Examples.envS) 20 .nil Examples.e3 = some (.bool true) := by decide
/-- `card(ℬ({0,…,10}))` -/
def powGap : Ast :=
  .node .CARD .none 0 0 [.node .BOOLEAN .none 0 0 [.node .NT_ENUMERATION .none 0 0
    ((List.range 11).map fun (i : Nat) => Ast.node .LIT_INTEGER (.int (Int.ofNat i)) 0 0 [])]]

/-- **pow_bound_agrees**: the reference semantics enumerates power sets of operands with at most
`POW_BOUND` members and the evaluator model up to `POW_LIMIT`; the two bounds are equal (a gap
between them - `POW_BOUND = 10 < POW_LIMIT = 12` until it was found by the proof of
`eval_refines_denote_partial1` - made the evaluator answer where `⟦·⟧` had no value; the former witness
`card(ℬ({0..10}))` evaluates to `2048`, as the C++ does). -/
theorem pow_bound_agrees :
    Spec.POW_BOUND = Eval.POW_LIMIT ∧ (evaluate 20 {} powGap).1 = .ok (.e 2048) := by
  decide +kernel

/-! ## former counterexamples (before the `fix:` commits in ASTNormalizer.cpp / NameCollector.cpp):
the inputs on which the pinned code violated the claim now evaluate to the reference value
(each is replayed on the implementation by the `known.*` classes of `harness/c01_main.cpp`) -/

private def nd (t : Tok) (ks : List Ast) : Ast := .node t .none 0 0 ks
private def loc (s : String) : Ast := .node .ID_LOCAL (.text s) 0 0 []
private def glob (s : String) : Ast := .node .ID_GLOBAL (.text s) 0 0 []
private def x1x1 : Ast := nd .DECART [glob "X1", glob "X1"]
private def envX : Env := { globals := [("X1", .s [.e 1, .e 2])] }

/-- `∀(a,bc)∈X1×X1 ∃(ab,c)∈X1×X1 a≠ab` -/
def binderCollision : Ast :=
  nd .FORALL [nd .NT_TUPLE_DECL [loc "a", loc "bc"], x1x1,
    nd .EXISTS [nd .NT_TUPLE_DECL [loc "ab", loc "c"], x1x1, nd .NOTEQUAL [loc "a", loc "ab"]]]

/-- **binder_collision_fixed** (DESIGN finding 20): the binders are renamed to `@abc` and
`@abc@` (a pattern with other component names never re-uses a generated name); evaluator and
reference semantics agree on `true` -/
theorem binder_collision_fixed :
    (evaluate 20 envX binderCollision).1 = .okBool true ∧
    denote (senvOf envX) 20 .nil binderCollision = some (.bool true) := by decide

/-- `F1 :== [s∈ℬ(X1)] D{y∈X1 | y∈s}` -/
def f1Def : Ast :=
  nd .PUNC_DEFINE [.node .ID_FUNCTION (.text "F1") 0 0 [],
    nd .NT_FUNC_DEFINITION [nd .NT_ARGUMENTS [nd .NT_ARG_DECL [loc "s", nd .BOOLEAN [glob "X1"]]],
      nd .NT_DECLARATIVE_EXPR [loc "y", glob "X1", nd .IN [loc "y", loc "s"]]]]
/-- `D{__var1∈X1 | F1[{__var1}]={__var1}}` -/
def inlineCapture : Ast :=
  nd .NT_DECLARATIVE_EXPR [loc "__var1", glob "X1",
    nd .EQUAL [nd .NT_FUNC_CALL [.node .ID_FUNCTION (.text "F1") 0 0 [], nd .NT_ENUMERATION [loc "__var1"]],
      nd .NT_ENUMERATION [loc "__var1"]]]
private def envF : Env := { globals := [("X1", .s [.e 1, .e 2])], funcs := [("F1", f1Def)] }

/-- **inline_capture_fixed** (DESIGN finding 27): inlined locals are called `__var<n>` with the first
`n` that is not a local name of the expression (`__var2` here) -/
theorem inline_capture_fixed :
    (evaluate 20 envF inlineCapture).1 = .ok (.s [.e 1, .e 2]) ∧
    denote (senvOf envF) 20 .nil inlineCapture = some (.val (.s [.e 1, .e 2])) := by decide

/-- `∃(a,b),c∈X1×X1 (a=b & c=c)` -/
def enumTuple : Ast :=
  nd .EXISTS [nd .NT_ENUM_DECL [nd .NT_TUPLE_DECL [loc "a", loc "b"], loc "c"], x1x1,
    nd .AND [nd .EQUAL [loc "a", loc "b"], nd .EQUAL [loc "c", loc "c"]]]

/-- **enum_tuple_fixed**: the first declaration of a split enumerated declaration is rewritten
when it is a tuple pattern -/
theorem enum_tuple_fixed :
    (evaluate 20 envX enumTuple).1 = .okBool true ∧
    denote (senvOf envX) 20 .nil enumTuple = some (.bool true) := by decide

/-- `D{(a,b)∈{a∈X1×X1 | pr1(a)=pr1(a)} | a=b}` -/
def patternScope : Ast :=
  nd .NT_DECLARATIVE_EXPR [nd .NT_TUPLE_DECL [loc "a", loc "b"],
    nd .NT_DECLARATIVE_EXPR [loc "a", x1x1,
      nd .EQUAL [.node .SMALLPR (.tuple [1]) 0 0 [loc "a"], .node .SMALLPR (.tuple [1]) 0 0 [loc "a"]]],
    nd .EQUAL [loc "a", loc "b"]]

/-- **pattern_scope_fixed**: the pattern substitution no longer reaches the binder's own domain -/
theorem pattern_scope_fixed :
    (evaluate 20 envX patternScope).1 = .ok (.s [.t [.e 1, .e 1], .t [.e 2, .e 2]]) ∧
    denote (senvOf envX) 20 .nil patternScope = some (.val (.s [.t [.e 1, .e 1], .t [.e 2, .e 2]])) := by decide

/-- the normal form of `binderCollision` denotes what the expression denotes -/
theorem normalize_correct_on_binderCollision :
    ∃ n, normalizeTree envX.funcs 20 binderCollision = some n ∧
      denote (senvOf envX) 20 .nil n = denote (senvOf envX) 20 .nil binderCollision := by
  refine ⟨_, rfl, ?_⟩; decide

end CCVerif.Eval
