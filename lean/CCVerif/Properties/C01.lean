import CCVerif.Lemmas.EvalGround
import CCVerif.Lemmas.EvalSetOps
import CCVerif.Lemmas.EvalExamples
import CCVerif.Lemmas.EvalExamples6
import CCVerif.Lemmas.EvalExamples7
import CCVerif.Lemmas.EvalExamples8
import CCVerif.Lemmas.EvalExamples7n
import CCVerif.Lemmas.EvalNestedExamples
import CCVerif.Lemmas.EvalBlocksPatExamples
import CCVerif.Lemmas.EvalBlocksPatFilterExamples
import CCVerif.Lemmas.EvalCallsPatExamples
/-!
# C01 — evaluation returns the set-theoretic value

Objects: `CCVerif.Eval.evaluate` (transcription of `Interpreter::Evaluate` after parsing and type
checking: `Normalizer`, `NameCollector`, `ASTInterpreter`; checked against the C++ on every run by
`harness/c01_main.cpp`) and `CCVerif.Spec.denote` (`⟦e⟧ρ`, the reference semantics written from the
set-theoretic meaning on the un-normalised tree).

* canonical sets: `Compare` is a strict order with `EQUAL` = structural equality; `std::set`
  insertion keeps the strictly increasing list; union / intersection / difference / symmetric
  difference of canonical sets are canonical and have exactly the right members; canonical lists
  are extensional; the set operations of the evaluator coincide with the reference operations;
* `eval_refines_denote_statement` is the full refinement claim (parametric in the typing
  judgement `Γ ⊢ e` of C03, which is not yet modelled); `eval_refines_denote_partial` proves it
  for the ground integer / logic fragment (literals, `+ - *`, `< > ≤ ≥ = ≠`, `¬ & ∨ ⇒ ⇔` with the
  short-circuit evaluation against the strong-Kleene tables);
  `eval_refines_denote_partial1/2/3` prove it for the typed fragments `Frag … lvl` of
  `Lemmas/EvalFrag.lean`: (1) every ground set construct (`∅ {…} (…) ∪ ∩ \ ∆ ∈ ∉ ⊆ ⊂ ⊄ card bool debool
  red pr Pr × ℬ`), (2) globals under a canonical typed interpretation (`GlobalsOK`), (3) `∀ ∃` and
  `D{x∈S | P}` over one plain variable, with the slot table of the evaluator tied to the scoped
  environment of `⟦·⟧` (`Inv`); the normaliser is the identity there (`normalize_correct_partial3`).
  Tuple patterns, enumerated declarations, calls, `R{}`, `I{}`, filters are covered by the
  correspondence + oracle run only; `ℬ` carries a size guard (the bounds of model and reference agree: `pow_bound_agrees`);
* `…_fixed`: the closed inputs on which the pinned code violated the claim, after the `fix:` commits.
-/
namespace CCVerif.Eval
open CCVerif.Syntax CCVerif.Spec CCVerif.Norm
open Val

/-! ## `Compare` is an order -/

/-- `Compare(a, a) = EQUAL` -/
theorem compare_refl (a : Val) : cmp a a = .eq := cmp_refl a

/-- `Compare` answers `EQUAL` exactly for structurally equal values -/
theorem compare_eq_iff (a b : Val) : cmp a b = .eq ↔ a = b := cmp_eq_iff a b

/-- `Compare(b, a)` is the mirror image of `Compare(a, b)` -/
theorem compare_antisymm (a b : Val) : cmp a b = .lt ↔ cmp b a = .gt := lt_iff_gt a b

/-- `operator<` is transitive -/
theorem compare_trans (a b c : Val) (h1 : cmp a b = .lt) (h2 : cmp b c = .lt) : cmp a c = .lt :=
  cmp_trans a b c h1 h2

/-! ## canonical sets -/

/-- `std::set::insert` keeps the list strictly increasing -/
theorem insert_canonical (x : Val) (l : List Val) (h : sortedStrict l = true) : sortedStrict (insert x l) = true :=
  SetOps.insert_canonical x l h

/-- … and adds exactly the new element (which must be comparable with the old ones) -/
theorem mem_insert (x y : Val) (l : List Val) (hc : ∀ z ∈ l, Comparable x z) :
    y ∈ insert x l ↔ y = x ∨ y ∈ l := SetOps.mem_insert x y l hc

/-- `Factory::Set`: canonical, with exactly the listed members -/
theorem mkSet_canonical (xs : List Val) : sortedStrict (mkSetList xs) = true := SetOps.mkSet_canonical xs
theorem mem_mkSet (xs : List Val) (y : Val) (hc : PairComparable xs) : y ∈ mkSetList xs ↔ y ∈ xs :=
  SetOps.mem_mkSet xs y hc

/-- `std::set::contains` (ordered search) is membership -/
theorem contains_iff_mem (l : List Val) (x : Val) (hs : sortedStrict l = true) (hc : ∀ y ∈ l, Comparable x y) :
    mem x l = true ↔ x ∈ l := SetOps.contains_iff_mem l x hs hc

/-- extensionality of canonical sets -/
theorem canonical_ext (l1 l2 : List Val) (h1 : sortedStrict l1 = true) (h2 : sortedStrict l2 = true)
    (h : ∀ x, x ∈ l1 ↔ x ∈ l2) : l1 = l2 := SetOps.canonical_ext l1 l2 h1 h2 h

theorem union_canonical (xs ys : List Val) : sortedStrict (union xs ys) = true := SetOps.union_canonical xs ys

theorem mem_union (xs ys : List Val) (z : Val) (hc : PairComparable (xs ++ ys)) :
    z ∈ union xs ys ↔ z ∈ xs ∨ z ∈ ys := SetOps.mem_union xs ys z hc

theorem inter_canonical (xs ys : List Val) : sortedStrict (inter xs ys) = true := SetOps.inter_canonical xs ys

theorem mem_inter (xs ys : List Val) (z : Val) (hs : sortedStrict xs = true) (hc : PairComparable (xs ++ ys)) :
    z ∈ inter xs ys ↔ z ∈ xs ∧ z ∈ ys := SetOps.mem_inter xs ys z hs hc

theorem diff_canonical (xs ys : List Val) : sortedStrict (diff xs ys) = true := SetOps.diff_canonical xs ys

theorem mem_diff (xs ys : List Val) (z : Val) (hs : sortedStrict ys = true) (hc : PairComparable (xs ++ ys)) :
    z ∈ diff xs ys ↔ z ∈ xs ∧ z ∉ ys := SetOps.mem_diff xs ys z hs hc

theorem symDiff_canonical (xs ys : List Val) : sortedStrict (symDiff xs ys) = true := SetOps.symDiff_canonical xs ys

theorem mem_symDiff (xs ys : List Val) (z : Val) (hsx : sortedStrict xs = true) (hsy : sortedStrict ys = true)
    (hc : PairComparable (xs ++ ys)) :
    z ∈ symDiff xs ys ↔ (z ∈ xs ∧ z ∉ ys) ∨ (z ∈ ys ∧ z ∉ xs) := SetOps.mem_symDiff xs ys z hsx hsy hc

/-! ## the evaluator's set operations are the reference operations
(proofs: `Lemmas/EvalSetOps.lean`, `Lemmas/EvalPow.lean`) -/

theorem isMember_iff (x : Val) (l : List Val) : isMember x l = true ↔ x ∈ l := SetOps.isMember_iff x l

/-- `SDSet::Union` = the set with the members of both (no hypothesis: same fold) -/
theorem union_agrees (xs ys : List Val) : Val.s (union xs ys) = setOf (xs ++ ys) := SetOps.union_agrees xs ys

theorem inter_agrees (xs ys : List Val) (hs : sortedStrict xs = true) (hc : PairComparable (xs ++ ys)) :
    Val.s (inter xs ys) = setOf (xs.filter (isMember · ys)) := SetOps.inter_agrees xs ys hs hc

theorem diff_agrees (xs ys : List Val) (hs : sortedStrict ys = true) (hc : PairComparable (xs ++ ys)) :
    Val.s (diff xs ys) = setOf (xs.filter (!isMember · ys)) := SetOps.diff_agrees xs ys hs hc

theorem symDiff_agrees (xs ys : List Val) (hsx : sortedStrict xs = true) (hsy : sortedStrict ys = true)
    (hc : PairComparable (xs ++ ys)) :
    Val.s (symDiff xs ys) = setOf (xs.filter (!isMember · ys) ++ ys.filter (!isMember · xs)) :=
  SetOps.symDiff_agrees xs ys hsx hsy hc

/-- `Contains` / `IsSubsetOrEq` of the evaluator = membership / inclusion of the reference -/
theorem mem_agrees (x : Val) (ys : List Val) (hs : sortedStrict ys = true) (hc : ∀ y ∈ ys, Comparable x y) :
    mem x ys = isMember x ys := SetOps.mem_agrees x ys hs hc

theorem subsetEq_agrees (xs ys : List Val) (hs : sortedStrict ys = true) (hc : PairComparable (xs ++ ys)) :
    subsetEq xs ys = isSubset xs ys := SetOps.subsetEq_agrees xs ys hs hc

/-! ## refinement -/

/-- **full statement**: for every accepted expression, a value returned by the evaluator is the
value of the reference semantics (`Typed` = the typing judgement of the checker, C03) -/
def eval_refines_denote_statement (Typed : Env → Ast → Prop) : Prop :=
  ∀ (env : Env) (e : Ast), Typed env e → ∀ (fuel : Nat),
    (∀ v, (evaluate fuel env e).1 = .ok v → denote (senvOf env) fuel .nil e = some (.val v)) ∧
    (∀ b, (evaluate fuel env e).1 = .okBool b → denote (senvOf env) fuel .nil e = some (.bool b))

/-- **full statement** about the normaliser: the rewrites preserve `⟦·⟧` -/
def normalize_correct_statement (Typed : Env → Ast → Prop) : Prop :=
  ∀ (env : Env) (e n : Ast), Typed env e → ∀ (fuel : Nat), normalizeTree env.funcs fuel e = some n →
    denote (senvOf env) fuel .nil n = denote (senvOf env) fuel .nil e

/-- on the ground fragment the evaluator runs on the tree as parsed -/
private theorem evaluate_ground (env : Env) (e : Ast) (h : GInt e ∨ GLog e) (fuel : Nat) :
    evaluate fuel env e = (.outOfFuel, 0) ∨
    evaluate fuel env e =
      (match ev { ids := [] } fuel e none { data := [], iters := 0 } with
        | .ok (.val v) st => (.ok v, st.iters)
        | .ok (.bool b) st => (.okBool b, st.iters)
        | .fail .quiet n => (.err EID.unknownError 0, n)
        | .fail (.err e p) n => (.err e p, n)
        | .fail (.stuck site) n => (.stuck site, n)
        | .fail .outOfFuel n => (.outOfFuel, n)) := by
  have hn : normalize env.funcs fuel e { userLocals := collectLocals e } = none ∨
      normalize env.funcs fuel e { userLocals := collectLocals e } = some (e, { userLocals := collectLocals e }) := by
    rcases h with h | h
    · exact normalize_gint _ h fuel _
    · exact normalize_glog _ h fuel _
  have hcl : collect env fuel e {} = .fail .outOfFuel ∨ collect env fuel e {} = .ok [] false {} := by
    rcases h with h | h
    · exact collect_gint _ h fuel {}
    · exact collect_glog _ h fuel {}
  unfold evaluate normalizeTree
  rcases hn with hn | hn
  · left; simp [hn]
  · rcases hcl with hc | hc
    · left; simp [hn, evalNorm, hc]
    · right
      simp only [hn, evalNorm, hc, Option.map_some]
      generalize ev { ids := [] } fuel e none { data := [], iters := 0 } = r
      cases r with
      | ok v st => cases v <;> rfl
      | fail f n => cases f <;> rfl

/-- **normalize_correct_partial**: on the ground fragment the normaliser is the identity -/
theorem normalize_correct_partial : normalize_correct_statement (fun _ e => GInt e ∨ GLog e) := by
  intro env e n h fuel hn
  have hid : normalize env.funcs fuel e { userLocals := collectLocals e } = none ∨
      normalize env.funcs fuel e { userLocals := collectLocals e } = some (e, { userLocals := collectLocals e }) := by
    rcases h with h | h
    · exact normalize_gint _ h fuel _
    · exact normalize_glog _ h fuel _
  unfold normalizeTree at hn
  rcases hid with h0 | h0 <;> rw [h0] at hn <;> simp at hn
  rw [← hn]

/-- **eval_refines_denote_partial**: the refinement for ground integer terms and ground formulas
(no identifiers, binders, sets or calls).  The evaluator short-circuits `& ∨ ⇒`; the reference
semantics is strong Kleene; the value is the same. -/
theorem eval_refines_denote_partial : eval_refines_denote_statement (fun _ e => GInt e ∨ GLog e) := by
  intro env e h fuel
  rcases evaluate_ground env e h fuel with he | he
  · constructor <;> intro v hv <;> simp [he] at hv
  · rcases h with h | h
    · rcases sim_int (senvOf env) { ids := [] } h fuel none { data := [], iters := 0 } .nil with ⟨n, hx, dx⟩ | hx | ⟨⟨_, hx⟩, _⟩
      · constructor
        · intro v hv; rw [he, hx] at hv; simp at hv; rw [← hv]; exact dx
        · intro b hv; rw [he, hx] at hv; simp at hv
      · constructor <;> intro v hv <;> rw [he, hx] at hv <;> simp at hv
      · constructor <;> intro v hv <;> rw [he, hx] at hv <;> simp at hv
    · rcases sim_log (senvOf env) { ids := [] } h fuel none { data := [], iters := 0 } .nil with ⟨n, hx, dx⟩ | hx | ⟨⟨_, hx⟩, _⟩
      · constructor
        · intro v hv; rw [he, hx] at hv; simp at hv
        · intro b hv; rw [he, hx] at hv; simp at hv; rw [← hv]; exact dx
      · constructor <;> intro v hv <;> rw [he, hx] at hv <;> simp at hv
      · constructor <;> intro v hv <;> rw [he, hx] at hv <;> simp at hv

/-! non-vacuity: `(2+3)*4 < 21 ⇒ ¬ 1 = 2` is in the fragment, evaluates to `true`, and so does `⟦·⟧` -/
private def lit (n : Int) : Ast := .node .LIT_INTEGER (.int n) 0 0 []
private def bin (t : Tok) (a b : Ast) : Ast := .node t .none 0 0 [a, b]
private def sample : Ast :=
  bin .IMPLICATION (bin .LESSER (bin .MULTIPLY (bin .PLUS (lit 2) (lit 3)) (lit 4)) (lit 21))
    (.node .NOT .none 0 0 [bin .EQUAL (lit 1) (lit 2)])
example : GLog sample :=
  .conn _ _ _ (by simp [isConn])
    (.cmp _ _ _ (by simp [isIntCmp])
      (.arith _ _ _ (by simp [isArith]) (.arith _ _ _ (by simp [isArith]) (.lit _ _ _) (.lit _ _ _)) (.lit _ _ _)) (.lit _ _ _))
    (.not _ _ _ (.eq _ _ _ (by simp [isEq]) (.lit _ _ _) (.lit _ _ _)))
example : (evaluate 10 {} sample).1 = .okBool true ∧ denote {} 10 .nil sample = some (.bool true) := by decide

/-! ## stages 1-3: set-valued expressions, globals, binders over one plain variable

`Frag env G lvl Γ e τ` (`Lemmas/EvalFrag.lean`) is the typed fragment: `lvl = 1` ground set-valued
expressions (`∅`, `{…}`, tuples, `∪ ∩ \ ∆`, `∈ ∉ ⊆ ⊂ ⊄`, `card`, `bool debool red`, `pr Pr`, `×`, and
`ℬ` of an operand with at most `2^POW_BOUND` subsets), `lvl = 2` adds globals whose interpretation
is canonical and typed (`GlobalsOK`), `lvl = 3` adds `∀ ∃` and `D{x∈S | P}` over one plain variable
(no tuple pattern, no enumerated declaration, no shadowing). -/

/-- stage 1: closed ground expressions, integer-, set- or truth-valued -/
def Stage1 (env : Env) (e : Ast) : Prop := ∃ τ, Frag env [] 1 [] e τ
/-- stage 2: + globals; the canonical-values hypothesis on the interpretation is explicit -/
def Stage2 (env : Env) (e : Ast) : Prop := ∃ G τ, GlobalsOK env G ∧ Frag env G 2 [] e τ
/-- stage 3: + quantifiers and the declarative set-builder with a single plain variable -/
def Stage3 (env : Env) (e : Ast) : Prop := ∃ G τ, GlobalsOK env G ∧ Frag env G 3 [] e τ

theorem globalsOK_nil (env : Env) : GlobalsOK env [] := by
  intro g τ h; simp [lookup] at h

theorem stage1_sub_stage2 {env : Env} {e : Ast} (h : Stage1 env e) : Stage2 env e :=
  let ⟨τ, hf⟩ := h; ⟨[], τ, globalsOK_nil env, hf.mono (by decide)⟩
theorem stage2_sub_stage3 {env : Env} {e : Ast} (h : Stage2 env e) : Stage3 env e :=
  let ⟨G, τ, hG, hf⟩ := h; ⟨G, τ, hG, hf.mono (by decide)⟩

private theorem refines_of_frag {env : Env} {G : TCtx} {lvl : Nat} (hG : GlobalsOK env G) {e n : Ast} {τ : ExprTy}
    (h : FragR env G lvl [] [] e n τ) (hl5 : lvl ≤ 5) (fuel : Nat) :
    (∀ v, (evaluate fuel env e).1 = .ok v → denote (senvOf env) fuel .nil e = some (.val v)) ∧
    (∀ b, (evaluate fuel env e).1 = .okBool b → denote (senvOf env) fuel .nil e = some (.bool b)) := by
  rcases evaluate_frag hG h hl5 fuel with hg | hf | ⟨eid, pos, he, _⟩
  · cases τ with
    | ty ty =>
      obtain ⟨v, hr, _, _, hd⟩ := hg
      constructor
      · intro v' hv; rw [hr] at hv; injection hv with hv; rw [← hv]; exact hd fuel (Nat.le_refl _)
      · intro b hb; rw [hr] at hb; cases hb
    | logic =>
      obtain ⟨b, hr, hd⟩ := hg
      constructor
      · intro v hv; rw [hr] at hv; cases hv
      · intro b' hb; rw [hr] at hb; injection hb with hb; rw [← hb]; exact hd fuel (Nat.le_refl _)
  · constructor <;> intro x hx <;> rw [hf] at hx <;> cases hx
  · constructor <;> intro x hx <;> rw [he] at hx <;> cases hx

/-- **eval_refines_denote_partial3**: the refinement for closed expressions built from literals,
arithmetic, comparisons, connectives (short-circuit vs strong Kleene), every ground set construct,
globals under a canonical typed interpretation, and `∀ ∃ D{·∈·|·}` over one plain variable.
Missing from the full statement: tuple patterns and enumerated declarations (where the normaliser
rewrites), calls, `R{}`, `I{}`, filters, `Z`; `ℬ` of operands with more than `2^POW_BOUND` subsets. -/
theorem eval_refines_denote_partial3 : eval_refines_denote_statement Stage3 := by
  intro env e ⟨G, τ, hG, hf⟩ fuel
  exact refines_of_frag hG hf (by decide) fuel

/-- **eval_refines_denote_partial2**: closed expressions over globals (no binders) -/
theorem eval_refines_denote_partial2 : eval_refines_denote_statement Stage2 :=
  fun env e h => eval_refines_denote_partial3 env e (stage2_sub_stage3 h)

/-- **eval_refines_denote_partial1**: ground set-valued expressions -/
theorem eval_refines_denote_partial1 : eval_refines_denote_statement Stage1 :=
  fun env e h => eval_refines_denote_partial2 env e (stage1_sub_stage2 h)

/-- **normalize_correct_partial3**: on the three fragments the normaliser is the identity (single plain
binder variables are not rewritten) -/
theorem normalize_correct_partial3 : normalize_correct_statement Stage3 := by
  intro env e n ⟨G, τ, _, hf⟩ fuel hn
  rcases FragR.normalizesTree hf (by decide) fuel with h0 | h0 <;> rw [h0] at hn
  · cases hn
  · injection hn with hn; rw [← hn]

/-! ## stage 4: the recursive and the imperative constructor over plain variables

`Frag … 4` adds `R{x := init | step}`, `R{x := init | cond | step}` and `I{value | blocks}` with `x :∈ S`,
`x := e` and condition blocks (one plain variable per binder, no shadowing).  The normaliser is still the
identity.  Budgets: the evaluator counts the rounds of ALL loops of one evaluation in one counter and stops
with the documented `iterationsLimit` beyond `MAX_ITERATIONS`; the reference semantics bounds each `R{…}`
separately by `REC_BOUND = MAX_ITERATIONS + 1` rounds (`rec_budget`) and does not bound `I{…}`.  Because the
counter never decreases (part of the simulation invariant), an evaluation that returns a value made at most
`MAX_ITERATIONS` rounds of any recursion, so the reference has a value too - the same one.  The converse
does not hold and is not claimed: `⟦·⟧` may have a value where the evaluator reports `iterationsLimit`.
The block machine of `ImpEvaluator` (block stack, iterator stack, `PrepareNextIteration`) is shown to
enumerate exactly the nested comprehension (`impLoop_sim` in `Lemmas/EvalRecImp.lean`). -/

/-- stage 4: + `R{…}` (short and full form) and `I{…}` over plain variables -/
def Stage4 (env : Env) (e : Ast) : Prop := ∃ G τ, GlobalsOK env G ∧ Frag env G 4 [] e τ

theorem stage3_sub_stage4 {env : Env} {e : Ast} (h : Stage3 env e) : Stage4 env e :=
  let ⟨G, τ, hG, hf⟩ := h; ⟨G, τ, hG, hf.mono (by decide)⟩

/-- the two iteration budgets: one more round is granted to every recursion of the reference semantics than
the evaluator grants to the whole evaluation -/
theorem rec_budget : Spec.REC_BOUND = Eval.MAX_ITERATIONS + 1 := rfl

/-- **eval_refines_denote_partial4**: the refinement for closed expressions of stage 3 extended with the
recursive constructor (short and full form) and the imperative constructor (iterate / assign / condition
blocks), all binders over one plain variable.  A returned value is the reference value although the two
sides bound iteration differently (see above); `iterationsLimit` is an allowed failure.
Missing from the full statement: enumerated declarations, tuple patterns, calls, filters, `Z`; `ℬ` of operands
with more than `2^POW_BOUND` subsets. -/
theorem eval_refines_denote_partial4 : eval_refines_denote_statement Stage4 := by
  intro env e ⟨G, τ, hG, hf⟩ fuel
  exact refines_of_frag hG hf (by decide) fuel

/-- … and the value does not depend on the fuel of the reference semantics: every larger fuel gives it too -/
theorem eval_refines_denote_partial4_stable (env : Env) (e : Ast) (h : Stage4 env e) (fuel f' : Nat) (hf' : fuel ≤ f') :
    (∀ v, (evaluate fuel env e).1 = .ok v → denote (senvOf env) f' .nil e = some (.val v)) ∧
    (∀ b, (evaluate fuel env e).1 = .okBool b → denote (senvOf env) f' .nil e = some (.bool b)) := by
  obtain ⟨G, τ, hG, hf⟩ := h
  rcases evaluate_frag hG hf (by decide) fuel with hg | ho | ⟨eid, pos, he, _⟩
  · cases τ with
    | ty ty =>
      obtain ⟨v, hr, _, _, hd⟩ := hg
      constructor
      · intro v' hv; rw [hr] at hv; injection hv with hv; rw [← hv]; exact hd f' hf'
      · intro b hb; rw [hr] at hb; cases hb
    | logic =>
      obtain ⟨b, hr, hd⟩ := hg
      constructor
      · intro v hv; rw [hr] at hv; cases hv
      · intro b' hb; rw [hr] at hb; injection hb with hb; rw [← hb]; exact hd f' hf'
  · constructor <;> intro x hx <;> rw [ho] at hx <;> cases hx
  · constructor <;> intro x hx <;> rw [he] at hx <;> cases hx

/-- **normalize_correct_partial4**: the normaliser is the identity on stage 4 as well (plain variables in
`R{}` / `I{}` are not rewritten) -/
theorem normalize_correct_partial4 : normalize_correct_statement Stage4 := by
  intro env e n ⟨G, τ, _, hf⟩ fuel hn
  rcases FragR.normalizesTree hf (by decide) fuel with h0 | h0 <;> rw [h0] at hn
  · cases hn
  · injection hn with hn; rw [← hn]

/-! non-vacuity of stage 4 (`Lemmas/EvalExamples.lean`):
`R{s:={1} | card(s)<3 | s ∪ D{y∈{1,2,3,4} | ∃x∈s y=x+1}} = {1,2,3} & R{s:={1} | s ∪ D{…}} = {1,2,3,4} &
I{(x,y) | x:∈{1,2,3}; y:=x*x; y>1} = {(2,4),(3,9)}` -/
example : Stage4 Examples.env0 Examples.e5 := ⟨[], _, globalsOK_nil _, Examples.e5_frag⟩
example : (evaluate 30 Examples.env0 Examples.e5).1 = .okBool true ∧
    denote (senvOf Examples.env0) 30 .nil Examples.e5 = some (.bool true) := by decide

/-! ## stage 5: enumerated declarations `Q x₁,…,xₙ ∈ S . P`

Here the normaliser is NOT the identity: `Normalizer::EnumDeclaration` turns the quantifier into `n` nested
quantifiers, each over a copy of the domain (`nest`).  `FragR env G 5 Γ e n τ` relates the expression as parsed
to its normal form; the reference semantics is taken on `e` (the domain denoted once, the declarations ranging
over all combinations: `quantSem`), the evaluator runs on `n`.  The copies of the domain are evaluated inside
the scope of the earlier variables; this is sound because the domain is typed outside them and because every
binder restores the slot of its variable (`SlotGuard`, see `enum_domain_rebinds_fixed`): no side condition on
the names bound inside the domain is needed. -/

/-- stage 5: + quantifiers with an enumerated declaration (`n ≥ 2` distinct new plain variables) -/
def Stage5 (env : Env) (e : Ast) : Prop := ∃ G τ n, GlobalsOK env G ∧ FragR env G 5 [] [] e n τ

theorem stage4_sub_stage5 {env : Env} {e : Ast} (h : Stage4 env e) : Stage5 env e :=
  let ⟨G, τ, hG, hf⟩ := h; ⟨G, τ, e, hG, FragR.mono (by decide) hf⟩

/-- **eval_refines_denote_partial5**: the refinement for closed expressions of stage 4 extended with
enumerated declarations in `∀ ∃`: evaluation of the NORMALISED tree (nested quantifiers over copies of the
domain) returns the value the reference semantics assigns to the ORIGINAL tree.
Missing from the full statement: tuple patterns, calls, filters, `Z`; `ℬ` of operands with more than
`2^POW_BOUND` subsets. -/
theorem eval_refines_denote_partial5 : eval_refines_denote_statement Stage5 := by
  intro env e ⟨G, τ, n, hG, hf⟩ fuel
  exact refines_of_frag hG hf (by decide) fuel

/-- **normalize_enum_partial5**: what the normaliser does on stage 5: it returns the normal form of the
judgement - every enumerated declaration replaced by nested single-variable quantifiers (`nest`), everything
else untouched (or it runs out of the model's fuel) -/
theorem normalize_enum_partial5 (env : Env) (e n : Ast) (G : TCtx) (τ : ExprTy) (h : FragR env G 5 [] [] e n τ) (fuel : Nat) :
    normalizeTree env.funcs fuel e = none ∨ normalizeTree env.funcs fuel e = some n :=
  FragR.normalizesTree h (by decide) fuel

/-- **normalize_correct_partial5** (evaluation of the normal form refines the semantics of the original): if
`Interpreter::Evaluate` - which runs on the normal form - returns a value, that value is the reference value
of the original tree at every fuel from the evaluator's on.  NOT proved: the unconditional equation
`⟦n⟧ = ⟦e⟧` of `normalize_correct_statement` for this rewrite; it needs two general facts about `⟦·⟧` that are
not available yet (monotonicity in the fuel; independence from variables that do not occur). -/
theorem normalize_correct_partial5 (env : Env) (e : Ast) (h : Stage5 env e) (fuel f' : Nat) (hf' : fuel ≤ f') :
    (∀ v, (evaluate fuel env e).1 = .ok v → denote (senvOf env) f' .nil e = some (.val v)) ∧
    (∀ b, (evaluate fuel env e).1 = .okBool b → denote (senvOf env) f' .nil e = some (.bool b)) := by
  obtain ⟨G, τ, n, hG, hf⟩ := h
  rcases evaluate_frag hG hf (by decide) fuel with hg | ho | ⟨eid, pos, he, _⟩
  · cases τ with
    | ty ty =>
      obtain ⟨v, hr, _, _, hd⟩ := hg
      constructor
      · intro v' hv; rw [hr] at hv; injection hv with hv; rw [← hv]; exact hd f' hf'
      · intro b hb; rw [hr] at hb; cases hb
    | logic =>
      obtain ⟨b, hr, hd⟩ := hg
      constructor
      · intro v hv; rw [hr] at hv; cases hv
      · intro b' hb; rw [hr] at hb; injection hb with hb; rw [← hb]; exact hd f' hf'
  · constructor <;> intro x hx <;> rw [ho] at hx <;> cases hx
  · constructor <;> intro x hx <;> rw [he] at hx <;> cases hx

/-! non-vacuity of stage 5 (`Lemmas/EvalExamples.lean`):
`∃a,b∈D{a∈{1,2} | 1=1} (a=1 & b=b) & ∀x,y,z∈{1,2,3} (x<y & y<z ⇒ x<z)` - the first conjunct is the input of
`enum_domain_rebinds_fixed` (the domain binds a variable named like the first variable of the declaration);
the normal form is the nested one -/
example : Stage5 Examples.env0 Examples.e6 := ⟨[], _, _, globalsOK_nil _, Examples.e6_frag⟩
example : normalizeTree Examples.env0.funcs 30 Examples.e6 = some Examples.e6n := by rfl
example : (evaluate 30 Examples.env0 Examples.e6).1 = .okBool true ∧
    denote (senvOf Examples.env0) 30 .nil Examples.e6 = some (.bool true) := by decide

/-! ## stage 6: flat tuple patterns `Q (x₁,…,xₙ) ∈ S . P`, `D{(x₁,…,xₙ) ∈ S | P}`

`Normalizer::TupleDeclaration` replaces the pattern by ONE generated variable (`'@'` + the component names, with
`'@'` appended while the name is taken by a pattern with other components) and substitutes `pr_i` of it for the
components in the scope.  The judgement `FragR … 6` carries a realisation map (`x ↦ (nn, i)`: the source variable
`x` is `pr_i(nn)` in the normal form) and the simulation invariant says how the evaluator holds the value of a
variable: in its own slot, or as a component of the tuple in the slot of the generated variable (`Holds`).  The
reference semantics binds the components by projection (`bindPat`); the two are tied at every binder
(`Inv.bindTup`).  The generated names depend on the state of the `Normalizer` object; under `NoCollide` (no two
patterns of the expression with different components have the same concatenation of component names - the
situation of `binder_collision_fixed`, which stays a closed theorem) the name is the candidate name, and
`FragR.normRel` (`Lemmas/EvalNormRel.lean`) proves that the normaliser returns exactly the normal form of the
judgement, including the substitution into the not yet normalised scope.
Covered: flat patterns of plain variables in `∀ ∃` and `D{}`, arbitrarily nested with everything of stages 1-5.
Not covered: nested patterns `((a,b),c)`, patterns in `R{}` / `I{}` and inside enumerated declarations. -/

/-- stage 6: + flat tuple patterns in `∀ ∃ D{}`; the candidate names of the patterns do not collide -/
def Stage6 (env : Env) (e : Ast) : Prop :=
  ∃ G τ n, GlobalsOK env G ∧ FragR env G 6 [] [] e n τ ∧ NoCollide (patsOf e)

/-- every expression without tuple patterns satisfies the side condition -/
theorem noCollide_nil : NoCollide [] := by intro xs hx; simp at hx

private theorem top_of_frag6 {env : Env} {G : TCtx} (hG : GlobalsOK env G) {e n : Ast} {τ : ExprTy}
    (h : FragR env G 6 [] [] e n τ) (hP : NoCollide (patsOf e)) (fuel : Nat) :
    TopGood env fuel e τ (evaluate fuel env e).1 ∨ (evaluate fuel env e).1 = .outOfFuel ∨
    ∃ eid pos, (evaluate fuel env e).1 = .err eid pos ∧ DocErr eid :=
  evaluate_frag_of_norm hG h fuel (h.normalizesTree6 hP fuel)

/-- **eval_refines_denote_partial6**: the refinement for closed expressions of stage 5 extended with flat tuple
patterns in quantifiers and declarative set-builders: evaluation of the normalised tree (one generated variable
per pattern, components read as projections) returns the value the reference semantics assigns to the original
tree (components bound by projection), at the evaluator's fuel and at every larger one.
Missing from the full statement: nested patterns, patterns in `R{}` / `I{}` / enumerated declarations, patterns
whose candidate names collide, calls, filters, `Z`; `ℬ` of operands with more than `2^POW_BOUND` subsets. -/
theorem eval_refines_denote_partial6 : eval_refines_denote_statement Stage6 := by
  intro env e ⟨G, τ, n, hG, hf, hP⟩ fuel
  rcases top_of_frag6 hG hf hP fuel with hg | ho | ⟨eid, pos, he, _⟩
  · cases τ with
    | ty ty =>
      obtain ⟨v, hr, _, _, hd⟩ := hg
      constructor
      · intro v' hv; rw [hr] at hv; injection hv with hv; rw [← hv]; exact hd fuel (Nat.le_refl _)
      · intro b hb; rw [hr] at hb; cases hb
    | logic =>
      obtain ⟨b, hr, hd⟩ := hg
      constructor
      · intro v hv; rw [hr] at hv; cases hv
      · intro b' hb; rw [hr] at hb; injection hb with hb; rw [← hb]; exact hd fuel (Nat.le_refl _)
  · constructor <;> intro x hx <;> rw [ho] at hx <;> cases hx
  · constructor <;> intro x hx <;> rw [he] at hx <;> cases hx

/-- **normalize_tuple_partial6**: what the normaliser returns on stage 6: the normal form of the judgement - every
flat pattern replaced by the generated variable `'@' + components`, every use of a component in its scope by the
projection of that variable, enumerated declarations nested, everything else untouched -/
theorem normalize_tuple_partial6 (env : Env) (e n : Ast) (G : TCtx) (τ : ExprTy) (h : FragR env G 6 [] [] e n τ)
    (hP : NoCollide (patsOf e)) (fuel : Nat) :
    normalizeTree env.funcs fuel e = none ∨ normalizeTree env.funcs fuel e = some n :=
  h.normalizesTree6 hP fuel

/-! non-vacuity of stage 6 (`Lemmas/EvalExamples6.lean`):
`D{(a,b)∈{(1,2),(2,3)} | ∃(c,d)∈{(1,2),(2,3)} b=c} = {(1,2)} & ∀(x,y)∈{(1,2),(2,3)} x<y`; its normal form uses the
generated variables `@ab`, `@cd`, `@xy` -/
example : Stage6 Examples.env0 Examples.e7 := ⟨[], _, _, globalsOK_nil _, Examples.e7_frag, Examples.e7_nocollide⟩
example : normalizeTree Examples.env0.funcs 30 Examples.e7 = some Examples.e7n := by rfl
example : (evaluate 30 Examples.env0 Examples.e7).1 = .okBool true ∧
    denote (senvOf Examples.env0) 30 .nil Examples.e7 = some (.bool true) := by decide

/-- the canonical-sets theorems above now cover the two lazy sets as well: the iteration order of
`SDPowerSet` / `SDDecartian` lists exactly the canonical set of all subsets / all tuples -/
theorem pow_agrees' (xs : List Val) (τ : Ty) (hn : Ty.noAny τ = true) (ht : Ty.hasTyAll xs τ = true)
    (hs : sortedStrict xs = true) : Val.s (pow xs) = setOf ((subsets xs).map setOf) := pow_agrees xs τ hn ht hs

theorem prod_agrees' (fs : List (List Val)) (ts : List Ty) (hn : Ty.noAnyList ts = true)
    (ht : List.Forall₂ (fun f t => Ty.hasTyAll f t = true) fs ts) (hs : ∀ f ∈ fs, sortedStrict f = true) :
    Val.s (prod fs) = setOf ((tuples fs).map Val.t) := prod_agrees fs ts hn ht hs

/-! non-vacuity of the three stages (witnesses in `Lemmas/EvalExamples.lean`):
`card(ℬ({1,2})) = 4 & pr1((1,{2})) ∈ {1,2}\{2}`;
`Pr1(D1) ⊆ X1 & (X1×X1) ∩ D1 = D1`;
`(∀x∈X1 ∃y∈X1 ((x,y)∈D1 ∨ (y,x)∈D1)) & D{x∈X1 | ∃y∈X1 (x,y)∈D1} = Pr1(D1)`
over `X1 = {1,2,3}`, `D1 = {(1,2),(2,3)}`: members of the fragments, evaluated to `true`, denoted `true` -/
example : Stage1 {} Examples.e1 := ⟨_, Examples.e1_frag {}⟩
example : (evaluate 20 {} Examples.e1).1 = .okBool true ∧ denote (senvOf {}) 20 .nil Examples.e1 = some (.bool true) := by
  decide
example : Stage2 Examples.envS Examples.e2 := ⟨_, _, Examples.globalsOK_S, Examples.e2_frag⟩
example : (evaluate 20 Examples.envS Examples.e2).1 = .okBool true ∧
    denote (senvOf Examples.envS) 20 .nil Examples.e2 = some (.bool true) := by decide
example : Stage3 Examples.envS Examples.e3 := ⟨_, _, Examples.globalsOK_S, Examples.e3_frag⟩
example : (evaluate 20 Examples.envS Examples.e3).1 = .okBool true ∧
    denote (senvOf Examples.envS) 20 .nil Examples.e3 = some (.bool true) := by decide
/-- `card(ℬ({0,…,10}))` -/
def powGap : Ast :=
  .node .CARD .none 0 0 [.node .BOOLEAN .none 0 0 [.node .NT_ENUMERATION .none 0 0
    ((List.range 11).map fun (i : Nat) => Ast.node .LIT_INTEGER (.int (Int.ofNat i)) 0 0 [])]]

/-- **pow_bound_agrees**: the reference semantics enumerates power sets of operands with at most
`POW_BOUND` members and the evaluator model up to `POW_LIMIT`; the two bounds are equal (a gap
between them - `POW_BOUND = 10 < POW_LIMIT = 12` until it was found by the proof of
`eval_refines_denote_partial1` - made the evaluator answer where `⟦·⟧` had no value; the former witness
`card(ℬ({0..10}))` evaluates to `2048`, as the C++ does). -/
theorem pow_bound_agrees :
    Spec.POW_BOUND = Eval.POW_LIMIT ∧ (evaluate 20 {} powGap).1 = .ok (.e 2048) := by
  decide +kernel

/-! ## former counterexamples (before the `fix:` commits in ASTNormalizer.cpp / NameCollector.cpp):
the inputs on which the pinned code violated the claim now evaluate to the reference value
(each is replayed on the implementation by the `known.*` classes of `harness/c01_main.cpp`) -/

private def nd (t : Tok) (ks : List Ast) : Ast := .node t .none 0 0 ks
private def loc (s : String) : Ast := .node .ID_LOCAL (.text s) 0 0 []
private def glob (s : String) : Ast := .node .ID_GLOBAL (.text s) 0 0 []
private def x1x1 : Ast := nd .DECART [glob "X1", glob "X1"]
private def envX : Env := { globals := [("X1", .s [.e 1, .e 2])] }

/-- `∀(a,bc)∈X1×X1 ∃(ab,c)∈X1×X1 a≠ab` -/
def binderCollision : Ast :=
  nd .FORALL [nd .NT_TUPLE_DECL [loc "a", loc "bc"], x1x1,
    nd .EXISTS [nd .NT_TUPLE_DECL [loc "ab", loc "c"], x1x1, nd .NOTEQUAL [loc "a", loc "ab"]]]

/-- **binder_collision_fixed** (DESIGN finding 20): the binders are renamed to `@abc` and
`@abc@` (a pattern with other component names never re-uses a generated name); evaluator and
reference semantics agree on `true` -/
theorem binder_collision_fixed :
    (evaluate 20 envX binderCollision).1 = .okBool true ∧
    denote (senvOf envX) 20 .nil binderCollision = some (.bool true) := by decide

/-- `F1 :== [s∈ℬ(X1)] D{y∈X1 | y∈s}` -/
def f1Def : Ast :=
  nd .PUNC_DEFINE [.node .ID_FUNCTION (.text "F1") 0 0 [],
    nd .NT_FUNC_DEFINITION [nd .NT_ARGUMENTS [nd .NT_ARG_DECL [loc "s", nd .BOOLEAN [glob "X1"]]],
      nd .NT_DECLARATIVE_EXPR [loc "y", glob "X1", nd .IN [loc "y", loc "s"]]]]
/-- `D{__var1∈X1 | F1[{__var1}]={__var1}}` -/
def inlineCapture : Ast :=
  nd .NT_DECLARATIVE_EXPR [loc "__var1", glob "X1",
    nd .EQUAL [nd .NT_FUNC_CALL [.node .ID_FUNCTION (.text "F1") 0 0 [], nd .NT_ENUMERATION [loc "__var1"]],
      nd .NT_ENUMERATION [loc "__var1"]]]
private def envF : Env := { globals := [("X1", .s [.e 1, .e 2])], funcs := [("F1", f1Def)] }

/-- **inline_capture_fixed** (DESIGN finding 27): inlined locals are called `__var<n>` with the first
`n` that is not a local name of the expression (`__var2` here) -/
theorem inline_capture_fixed :
    (evaluate 20 envF inlineCapture).1 = .ok (.s [.e 1, .e 2]) ∧
    denote (senvOf envF) 20 .nil inlineCapture = some (.val (.s [.e 1, .e 2])) := by decide

/-- `∃(a,b),c∈X1×X1 (a=b & c=c)` -/
def enumTuple : Ast :=
  nd .EXISTS [nd .NT_ENUM_DECL [nd .NT_TUPLE_DECL [loc "a", loc "b"], loc "c"], x1x1,
    nd .AND [nd .EQUAL [loc "a", loc "b"], nd .EQUAL [loc "c", loc "c"]]]

/-- **enum_tuple_fixed**: the first declaration of a split enumerated declaration is rewritten
when it is a tuple pattern -/
theorem enum_tuple_fixed :
    (evaluate 20 envX enumTuple).1 = .okBool true ∧
    denote (senvOf envX) 20 .nil enumTuple = some (.bool true) := by decide

/-- `D{(a,b)∈{a∈X1×X1 | pr1(a)=pr1(a)} | a=b}` -/
def patternScope : Ast :=
  nd .NT_DECLARATIVE_EXPR [nd .NT_TUPLE_DECL [loc "a", loc "b"],
    nd .NT_DECLARATIVE_EXPR [loc "a", x1x1,
      nd .EQUAL [.node .SMALLPR (.tuple [1]) 0 0 [loc "a"], .node .SMALLPR (.tuple [1]) 0 0 [loc "a"]]],
    nd .EQUAL [loc "a", loc "b"]]

/-- **pattern_scope_fixed**: the pattern substitution no longer reaches the binder's own domain -/
theorem pattern_scope_fixed :
    (evaluate 20 envX patternScope).1 = .ok (.s [.t [.e 1, .e 1], .t [.e 2, .e 2]]) ∧
    denote (senvOf envX) 20 .nil patternScope = some (.val (.s [.t [.e 1, .e 1], .t [.e 2, .e 2]])) := by decide

/-! ## stage 7 (calls of term functions): not proved; the statement needs a larger reference fuel

`eval_refines_denote_statement` compares `evaluate fuel` with `denote … fuel` - the SAME fuel on both sides.  For
calls this is false at tight fuel, as an artefact of the two fuels (not of the code): the normaliser inlines the
call, so the evaluator spends nothing on it, while the reference semantics spends one unit on the call node and
one on every parameter it looks up (call by name: the parameter is a thunk).  `call_fuel_counterexample` is the
closed witness; from fuel 3 on both sides agree.  Stages 1-6 are not affected (there the evaluated tree is at
least as deep as the original one, and the theorems give the reference value at every fuel from the evaluator's
on).  A statement for stage 7 has to grant the reference more fuel: `eval_refines_denote_calls_statement`. -/

/-- `F1 :== [s∈ℬ(X1)] s` -/
def fIdDef : Ast :=
  nd .PUNC_DEFINE [.node .ID_FUNCTION (.text "F1") 0 0 [],
    nd .NT_FUNC_DEFINITION [nd .NT_ARGUMENTS [nd .NT_ARG_DECL [loc "s", nd .BOOLEAN [glob "X1"]]], loc "s"]]
/-- `F1[X1]` -/
def callId : Ast := nd .NT_FUNC_CALL [.node .ID_FUNCTION (.text "F1") 0 0 [], glob "X1"]
private def envId : Env := { globals := [("X1", .s [.e 1, .e 2])], funcs := [("F1", fIdDef)] }

/-- **call_fuel_counterexample**: with fuel 2 the evaluator returns `{1,2}` for `F1[X1]` (`F1 :== [s∈ℬ(X1)] s`) while
the reference semantics has no value yet; with fuel 3 it has the same value -/
theorem call_fuel_counterexample :
    (evaluate 2 envId callId).1 = .ok (.s [.e 1, .e 2]) ∧ denote (senvOf envId) 2 .nil callId = none ∧
    denote (senvOf envId) 3 .nil callId = some (.val (.s [.e 1, .e 2])) := by decide

/-- the form in which the refinement can hold with calls: the reference is granted `k` more units of fuel (`k`
bounded by the nesting of calls and parameter look-ups of the expression); not proved -/
def eval_refines_denote_calls_statement (Typed : Env → Ast → Prop) : Prop :=
  ∀ (env : Env) (e : Ast), Typed env e → ∃ k, ∀ (fuel f' : Nat), fuel + k ≤ f' →
    (∀ v, (evaluate fuel env e).1 = .ok v → denote (senvOf env) f' .nil e = some (.val v)) ∧
    (∀ b, (evaluate fuel env e).1 = .okBool b → denote (senvOf env) f' .nil e = some (.bool b))

/-- `∃a,b∈D{a∈{1,2} | 1=1} (a=1 & b=b)` -/
def enumDomainRebinds : Ast :=
  nd .EXISTS [nd .NT_ENUM_DECL [loc "a", loc "b"],
    nd .NT_DECLARATIVE_EXPR [loc "a", nd .NT_ENUMERATION [.node .LIT_INTEGER (.int 1) 0 0 [], .node .LIT_INTEGER (.int 2) 0 0 []],
      nd .EQUAL [.node .LIT_INTEGER (.int 1) 0 0 [], .node .LIT_INTEGER (.int 1) 0 0 []]],
    nd .AND [nd .EQUAL [loc "a", .node .LIT_INTEGER (.int 1) 0 0 []], nd .EQUAL [loc "b", loc "b"]]]

/-- **enum_domain_rebinds_fixed** (found while preparing stage 5): the normaliser copies the domain of an
enumerated declaration into the scope of the earlier variables; a binder inside the copy that is named like
one of them overwrote the shared slot (the evaluator answered `false`).  Every binder now puts the previous
value of its slot back (`SlotGuard`): evaluator and reference semantics agree on `true` -/
theorem enum_domain_rebinds_fixed :
    (evaluate 20 {} enumDomainRebinds).1 = .okBool true ∧
    denote (senvOf {}) 20 .nil enumDomainRebinds = some (.bool true) := by decide

/-- the normal form of `binderCollision` denotes what the expression denotes -/
theorem normalize_correct_on_binderCollision :
    ∃ n, normalizeTree envX.funcs 20 binderCollision = some n ∧
      denote (senvOf envX) 20 .nil n = denote (senvOf envX) 20 .nil binderCollision := by
  refine ⟨_, rfl, ?_⟩; decide

/-! ## stage 7: calls of term functions / predicates `F[args]`

`Normalizer::Function` inlines the body of the definition (arguments put in place of the parameters, bound variables
of the body renamed to `__var<n>`); the reference semantics binds the parameters to thunks (call by name).
`Beta fs K [] e es` (`Lemmas/EvalCalls.lean`) is the syntactic relation "`e` β-reduces to the call-free `es`":
calls may occur anywhere among literals, arithmetic, comparisons, connectives, every ground set construct, globals,
`∀ ∃ D{x∈S | P}` over one plain variable, in arguments and in bodies of called definitions (nesting of calls is
arbitrary; a derivation is finite, so the called definitions are not recursive - the checker has no recursive
definitions either: a definition may only use constituents analysed before it); a bound variable of the reduct must be
new on the reduct side (`avoid`).  `Beta.sound` proves the reduction sound for `⟦·⟧` with `K` more units of fuel.
`es` must lie in the typed fragment of stage 6 with normal form `n`, and `n` must be what the normaliser returns for
`e` at SOME fuel (a closed computation for a concrete expression; `normalizeTree_stable` extends it to every fuel).
NOT proved: that the normaliser always returns such an `n` (the `__var<n>` name generation is not characterised by a
theorem: no `normalize_correct_partial7`); calls under `R{}` / `I{}` / enumerated declarations / tuple patterns
(`Beta` has no rule for these binders). -/

/-- stage 7: the expression β-reduces (calls unfolded) to an expression of stage 6 whose normal form is the
normaliser's answer for the expression itself -/
def Stage7 (env : Env) (e : Ast) : Prop :=
  ∃ G τ es n K f0, GlobalsOK env G ∧ FragR env G 6 [] [] es n τ ∧ Beta env.funcs K [] e es ∧
    normalizeTree env.funcs f0 e = some n

/-- **eval_refines_denote_partial7**: the refinement for closed expressions with calls of term functions and
predicates, in the form `eval_refines_denote_calls_statement` (the reference semantics is granted `K` more units of
fuel, `K` = the offset of the β-reduction: one per call plus one per parameter look-up along the deepest path): a value
returned by `Interpreter::Evaluate` - which runs on the tree with every call inlined - is the value the reference
semantics assigns to the original tree, calls evaluated by binding parameters to thunks. -/
theorem eval_refines_denote_partial7 : eval_refines_denote_calls_statement Stage7 := by
  intro env e ⟨G, τ, es, n, K, f0, hG, hf, hbeta, hn⟩
  refine ⟨K, fun fuel f' hf' => ?_⟩
  rcases evaluate_calls hG hf hbeta hn fuel with hg | ho | ⟨eid, pos, he, _⟩
  · cases τ with
    | ty ty =>
      obtain ⟨v, hr, _, _, hd⟩ := hg
      constructor
      · intro v' hv; rw [hr] at hv; injection hv with hv; rw [← hv]; exact hd f' hf'
      · intro b hb; rw [hr] at hb; cases hb
    | logic =>
      obtain ⟨b, hr, hd⟩ := hg
      constructor
      · intro v hv; rw [hr] at hv; cases hv
      · intro b' hb; rw [hr] at hb; injection hb with hb; rw [← hb]; exact hd f' hf'
  · constructor <;> intro x hx <;> rw [ho] at hx <;> cases hx
  · constructor <;> intro x hx <;> rw [he] at hx <;> cases hx

/-- **normalize_stable_partial7**: the answer of the normaliser does not depend on the model's fuel (for every
expression, calls included): once it returns `n` at some fuel, at every fuel it returns `n` or runs out of fuel -/
theorem normalize_stable_partial7 (fs : Funcs) (e n : Ast) (f0 : Nat) (h : normalizeTree fs f0 e = some n) (fuel : Nat) :
    normalizeTree fs fuel e = none ∨ normalizeTree fs fuel e = some n := normalizeTree_stable h fuel

/-! non-vacuity of stage 7 (`Lemmas/EvalExamples7.lean`): `F1 :== [s∈ℬ(X1)] D{y∈X1 | y∈s}`, caller
`D{x∈X1 | F1[{x}]={x}}` over `X1 = {1,2}`; β-reduct and normal form `D{x∈X1 | D{__var1∈X1 | __var1∈{x}}={x}}`,
offset `K = 2` (the call, the look-up of `s`) -/
example : Stage7 Examples7.env7 Examples7.caller :=
  ⟨_, _, _, _, 2, 10, Examples7.globalsOK_7, Examples7.callerN_frag, Examples7.caller_beta, Examples7.caller_normalizes⟩
example : (evaluate 20 Examples7.env7 Examples7.caller).1 = .ok (.s [.e 1, .e 2]) ∧
    denote (senvOf Examples7.env7) 22 .nil Examples7.caller = some (.val (.s [.e 1, .e 2])) := by decide

/-! ## stage 8: filters `Fi_{i1..ik}[P1,…,Pk](S)` and `Fi_{i1,…,ik}[P](S)`

`ASTInterpreter::ViFilter` evaluates the argument `S` first and answers `∅` at once when it is empty (no parameter is
evaluated).  With as many parameters as indices (`EvaluateFilterTuple`) the parameters are evaluated left to right, each
once, and the first EMPTY one ends the evaluation with `∅` (the later ones are not evaluated); otherwise a member `x` of
`S` is kept when `pr_{i_j}(x) ∈ P_j` for every `j` (conjunction stopped at the first `false`).  With ONE parameter for
`k ≥ 2` indices (`EvaluateFilterComplex`) `x` is kept when the tuple `pr_{i_1,…,i_k}(x)` is a member of `P`.
The reference semantics (`Spec/Denote.lean`, `FILTER`): `{x ∈ S | ∀j. pr_{i_j}(x) ∈ P_j}` resp. `{x ∈ S | pr_idx(x) ∈ P}`,
strong Kleene in the sense that an empty `S` or an empty `P_j` decides the result `∅` whatever the other operands are.
Hence the evaluator refines it: whenever the evaluator skips an operand, the reference value does not depend on it.
The converse fails (and is not claimed): `filter_error_before_empty_example`.

`FragF` (`Lemmas/EvalFiltersSim.lean`) is the typed fragment `FragR` of stages 1-6, constructor by constructor, plus the
two filter forms (typing: `S : ℬ(τ₁×…×τₙ)`, `P_j : ℬ(τ_{i_j})`, resp. `P : ℬ(τ_{i_1}×…×τ_{i_k})`; result `ℬ(τ₁×…×τₙ)`);
filters may occur anywhere (under binders, `R{}`, `I{}`, in domains of tuple patterns, nested in each other) and contain
anything of stages 1-6.  `FragR.toF` embeds the old fragment.  The normaliser does not rewrite a `FILTER` node; the
pending substitutions of tuple patterns go through it (`FragF.normRel`).
Not covered: calls (`Beta` of stage 7 has no rule for `FILTER`), the restrictions of stages 1-6. -/

/-- stage 8: stage 6 + filters -/
def Stage8 (env : Env) (e : Ast) : Prop :=
  ∃ G τ n, GlobalsOK env G ∧ FragF env G 6 [] [] e n τ ∧ NoCollide (patsOf e)

theorem stage6_sub_stage8 {env : Env} {e : Ast} (h : Stage6 env e) : Stage8 env e :=
  let ⟨G, τ, n, hG, hf, hP⟩ := h; ⟨G, τ, n, hG, hf.toF (Nat.le_refl _), hP⟩

private theorem top_of_frag8 {env : Env} {G : TCtx} (hG : GlobalsOK env G) {e n : Ast} {τ : ExprTy}
    (h : FragF env G 6 [] [] e n τ) (hP : NoCollide (patsOf e)) (fuel : Nat) :
    TopGood env fuel e τ (evaluate fuel env e).1 ∨ (evaluate fuel env e).1 = .outOfFuel ∨
    ∃ eid pos, (evaluate fuel env e).1 = .err eid pos ∧ DocErr eid :=
  evaluate_fragF_of_norm hG h fuel (h.normalizesTree6 hP fuel)

/-- **eval_refines_denote_partial8_stable**: the refinement for closed expressions of stage 6 extended with filters
(both forms, anywhere in the expression): a value returned by `Interpreter::Evaluate` is the value the reference
semantics assigns to the original tree, at the evaluator's fuel and at every larger one. -/
theorem eval_refines_denote_partial8_stable (env : Env) (e : Ast) (h : Stage8 env e) (fuel f' : Nat) (hf' : fuel ≤ f') :
    (∀ v, (evaluate fuel env e).1 = .ok v → denote (senvOf env) f' .nil e = some (.val v)) ∧
    (∀ b, (evaluate fuel env e).1 = .okBool b → denote (senvOf env) f' .nil e = some (.bool b)) := by
  obtain ⟨G, τ, n, hG, hf, hP⟩ := h
  rcases top_of_frag8 hG hf hP fuel with hg | ho | ⟨eid, pos, he, _⟩
  · cases τ with
    | ty ty =>
      obtain ⟨v, hr, _, _, hd⟩ := hg
      constructor
      · intro v' hv; rw [hr] at hv; injection hv with hv; rw [← hv]; exact hd f' hf'
      · intro b hb; rw [hr] at hb; cases hb
    | logic =>
      obtain ⟨b, hr, hd⟩ := hg
      constructor
      · intro v hv; rw [hr] at hv; cases hv
      · intro b' hb; rw [hr] at hb; injection hb with hb; rw [← hb]; exact hd f' hf'
  · constructor <;> intro x hx <;> rw [ho] at hx <;> cases hx
  · constructor <;> intro x hx <;> rw [he] at hx <;> cases hx

/-- **eval_refines_denote_partial8**: `eval_refines_denote_statement` on stage 8 (stages 1-6 + filters).
Missing from the full statement: calls together with filters, nested patterns, patterns in `R{}` / `I{}` / enumerated
declarations, colliding candidate names, `Z`, `ℬ` of operands with more than `2^POW_BOUND` subsets, typings that need
the any-type. -/
theorem eval_refines_denote_partial8 : eval_refines_denote_statement Stage8 :=
  fun env e h fuel => eval_refines_denote_partial8_stable env e h fuel fuel (Nat.le_refl _)

/-- **normalize_filter_partial8**: what the normaliser returns on stage 8: the normal form of the judgement - filters
untouched (their parameters and argument normalised, substitutions of enclosing tuple patterns applied inside them) -/
theorem normalize_filter_partial8 (env : Env) (e n : Ast) (G : TCtx) (τ : ExprTy) (h : FragF env G 6 [] [] e n τ)
    (hP : NoCollide (patsOf e)) (fuel : Nat) :
    normalizeTree env.funcs fuel e = none ∨ normalizeTree env.funcs fuel e = some n :=
  h.normalizesTree6 hP fuel

/-! non-vacuity of stage 8 (`Lemmas/EvalExamples8.lean`), with `S = {1,2}×{1,2}`:
`Fi1[{1}](S) = {(1,1),(1,2)} & Fi1,2[{(1,2)}](S) = {(1,2)} & card(Fi1,2[{1}\{1}, {debool({1,2})}](S)) = 0 &
card(Fi1[{debool({1,2})}](S\S)) = 0 & ∀(a,b)∈Fi2[{2}](S) b=2` - both filter forms; a first parameter that is empty while
the second would raise `invalidDebool`; an empty argument with an erroneous parameter; a tuple pattern over a filter -/
example : Stage8 Examples.env0 Examples.e8 := ⟨[], _, _, globalsOK_nil _, Examples.e8_frag, Examples.e8_nocollide⟩
example : normalizeTree Examples.env0.funcs 30 Examples.e8 = some Examples.e8n := by rfl
example : (evaluate 30 Examples.env0 Examples.e8).1 = .okBool true ∧
    denote (senvOf Examples.env0) 30 .nil Examples.e8 = some (.bool true) := by decide
example : Stage8 Examples.env0 Examples.e8v := ⟨[], _, _, globalsOK_nil _, Examples.e8v_frag _ _, Examples.e8v_nocollide⟩
example : (evaluate 30 Examples.env0 Examples.e8v).1 = .ok (.s [.t [.e 1, .e 1], .t [.e 1, .e 2]]) ∧
    denote (senvOf Examples.env0) 30 .nil Examples.e8v = some (.val (.s [.t [.e 1, .e 1], .t [.e 1, .e 2]])) := by decide

/-- `Fi1,2[{debool({1,2})}, {1}\{1}]({1,2}×{1,2})` -/
def filterErrorBeforeEmpty : Ast :=
  Examples.fi [1, 2] [Examples.badParam, nd .SET_MINUS [Examples.enum1, Examples.enum1], Examples.sq]

/-- **filter_error_before_empty_example**: only the refinement direction holds for filters.  The evaluator evaluates
the parameters left to right: an erroneous parameter BEFORE an empty one makes it fail with the documented
`invalidDebool`, while the reference semantics - for which any empty parameter decides the result - has the value `∅`.
(The evaluator is never MORE defined than the reference: `eval_refines_denote_partial8`.) -/
theorem filter_error_before_empty_example :
    (evaluate 30 Examples.env0 filterErrorBeforeEmpty).1 = .err EID.invalidDebool 0 ∧
    denote (senvOf Examples.env0) 30 .nil filterErrorBeforeEmpty = some (.val (.s [])) := by decide

/-! ## stage 7, the normaliser side: calls with call-free, binder-free arguments and bodies

`CN fs [] e es` (`Lemmas/EvalCallsNorm.lean`): `e` is built from literals, globals, bound variables, the unary / binary /
n-ary constructs of stage 7, `∀ ∃ D{x∈S | P}` over one new plain variable, and calls `F[a₁,…,aₙ]` - anywhere, also under
binders - whose arguments are call-free and binder-free (they may mention the bound variables) and whose definition
`F :== [p₁∈…,…,pₙ∈…] body` has distinct parameters and a call-free, binder-free body over its parameters and the
globals; `es` is `e` with every call replaced by the body, argument trees in place of the parameters, the other nodes of
the body re-ranged to the range of the call.  For this class the per-expression hypothesis of `Stage7` (`the normaliser
returns the normal form of a β-reduct`) is a theorem: no `__var<n>` is generated because the bodies bind nothing. -/

/-- **normalize_correct_partial7**: on the class `CN` the normaliser ALWAYS (at every fuel, or it runs out of the model's
fuel) returns the inlined form `es`, and `es` is a β-reduct of `e` in the sense of `Beta` (offset 2: the call, the
parameter look-up) - sound for the thunk semantics of `⟦·⟧` by `Beta.sound`.  NOT covered: bodies / arguments with
binders (there `Normalizer::Function` generates `__var<n>` names) or with calls; the unconditional equation `⟦n⟧ = ⟦e⟧`
of `normalize_correct_statement`. -/
theorem normalize_correct_partial7 (fs : Funcs) (e es : Ast) (h : CN fs [] e es) :
    Beta fs 2 [] e es ∧ ∀ fuel, normalizeTree fs fuel e = none ∨ normalizeTree fs fuel e = some es :=
  ⟨h.beta, h.normalizesTree⟩

/-- stage 7 without the per-expression normaliser hypothesis: the class `CN`, its inlined form typed in stage 6 -/
def Stage7n (env : Env) (e : Ast) : Prop :=
  ∃ G τ es, GlobalsOK env G ∧ CN env.funcs [] e es ∧ FragR env G 6 [] [] es es τ

/-- **eval_refines_denote_partial7n**: `eval_refines_denote_calls_statement` (the reference gets 2 more units of fuel)
for expressions with calls of the class `CN` - no hypothesis about what the normaliser returns -/
theorem eval_refines_denote_partial7n : eval_refines_denote_calls_statement Stage7n := by
  intro env e ⟨G, τ, es, hG, hcn, hf⟩
  refine ⟨2, fun fuel f' hf' => ?_⟩
  rcases evaluate_calls' hG hf hcn.beta hcn.normalizesTree fuel with hg | ho | ⟨eid, pos, he, _⟩
  · cases τ with
    | ty ty =>
      obtain ⟨v, hr, _, _, hd⟩ := hg
      constructor
      · intro v' hv; rw [hr] at hv; injection hv with hv; rw [← hv]; exact hd f' hf'
      · intro b hb; rw [hr] at hb; cases hb
    | logic =>
      obtain ⟨b, hr, hd⟩ := hg
      constructor
      · intro v hv; rw [hr] at hv; cases hv
      · intro b' hb; rw [hr] at hb; injection hb with hb; rw [← hb]; exact hd f' hf'
  · constructor <;> intro x hx <;> rw [ho] at hx <;> cases hx
  · constructor <;> intro x hx <;> rw [he] at hx <;> cases hx

/-! non-vacuity (`Lemmas/EvalExamples7n.lean`): `F2 :== [s∈ℬ(X1), t∈ℬ(X1)] s∩t`, caller `D{x∈X1 | F2[{x}, X1] = {x}}` over
`X1 = {1,2}` (a call under a binder, an argument that mentions the bound variable); inlined form `D{x∈X1 | {x}∩X1 = {x}}` -/
example : CN Examples7.env7n.funcs [] Examples7.caller2 Examples7.caller2N := Examples7.caller2_cn
example : Stage7n Examples7.env7n Examples7.caller2 :=
  ⟨_, _, _, Examples7.globalsOK_7n, Examples7.caller2_cn, Examples7.caller2N_frag⟩
example : normalizeTree Examples7.env7n.funcs 10 Examples7.caller2 = some Examples7.caller2N := by rfl
example : (evaluate 20 Examples7.env7n Examples7.caller2).1 = .ok (.s [.e 1, .e 2]) ∧
    denote (senvOf Examples7.env7n) 22 .nil Examples7.caller2 = some (.val (.s [.e 1, .e 2])) := by decide

/-! ## stage 9: NESTED tuple patterns `Q ((a,b),c) ∈ S . P`, `D{((a,b),c) ∈ S | P}` (any nesting depth)

`Normalizer::ProcessTupleDeclaration` replaces a pattern of any depth by ONE generated variable (`'@'` + ALL leaf names
in pre-order) and every leaf by a CHAIN of projections of it (`wrapPr`, path = child indices from the root).  The
reference semantics binds the pattern by recursive projection of the member (`bindPat`; `bindPat_leaves`: on a value of
the type of the pattern every leaf is bound to the component along its path).

Route (a reduction to stage 6 / 8, no second copy of the simulation): the chain `pr_j(pr_i(@abc))` is also what stage 6
produces for `pr_j(ab)` under the FLAT pattern `(ab, c)` when the inner pattern is replaced by ONE variable named by
the concatenation of its leaves - the candidate name `'@' + "ab" + "c"` is the same string, so nested and flat
expression have the SAME normal form.  `Unn S Γ Δ e es` (`Lemmas/EvalNestedSound.lean`) is this rewriting: every pattern
replaced by the flat pattern of its top-level components, every leaf of an inner pattern by its projection chain;
`Unn.sound`: a value of `es` under `⟦·⟧` at fuel `f` is the value of `e` at every fuel `≥ f`.  Binding through a nested
pattern is defined on members of the SHAPE of the pattern only, the flat pattern takes every tuple of the right
length, so the soundness needs the reference value of every binder domain to be typed (`DomTy`): type preservation of
`⟦·⟧` itself, proved for the class `DT` (`Lemmas/EvalNestedTy.lean`: literals, typed globals, bound variables,
enumerations, tuples, `×`, `ℬ`, `∪ ∩ \ ∆`, `bool`, `D{}` with any condition), a hypothesis of `Unn` otherwise.
Covered by `Unn`: literals, globals, variables, all unary / binary / n-ary ground constructs, `∈` (both forms), `pr`, `Pr`,
`∀ ∃ D{}` over a plain variable or a pattern of any depth (distinct leaves; the component variables - concatenations of
leaf names - distinct and not in use).  NOT covered: `R{}`, `I{}`, enumerated declarations, filters, calls inside an
expression with nested patterns (no `Unn` rule), patterns in `R{}` / `I{}` blocks; that the normaliser returns `n` for
`e` is a per-expression hypothesis (closed computation), as in stage 7. -/

/-- stage 9: the expression un-nests to an expression of stage 8 (flat patterns only) whose normal form is the
normaliser's answer for the expression itself -/
def Stage9 (env : Env) (e : Ast) : Prop :=
  ∃ G τ es n f0, GlobalsOK env G ∧ FragF env G 6 [] [] es n τ ∧ Unn (senvOf env) [] [] e es ∧
    normalizeTree env.funcs f0 e = some n

/-- **eval_refines_denote_partial9_stable**: the refinement for closed expressions with NESTED tuple patterns in
`∀ ∃ D{}`: a value returned by `Interpreter::Evaluate` - which runs on the tree with one generated variable per pattern
and projection chains for the leaves - is the value the reference semantics assigns to the ORIGINAL tree (leaves bound
by recursive projection of the member), at the evaluator's fuel and at every larger one. -/
theorem eval_refines_denote_partial9_stable (env : Env) (e : Ast) (h : Stage9 env e) (fuel f' : Nat) (hf' : fuel ≤ f') :
    (∀ v, (evaluate fuel env e).1 = .ok v → denote (senvOf env) f' .nil e = some (.val v)) ∧
    (∀ b, (evaluate fuel env e).1 = .okBool b → denote (senvOf env) f' .nil e = some (.bool b)) := by
  obtain ⟨G, τ, es, n, f0, hG, hf, hu, hn⟩ := h
  rcases evaluate_nested hG hf hu hn fuel with hg | ho | ⟨eid, pos, he, _⟩
  · cases τ with
    | ty ty =>
      obtain ⟨v, hr, _, _, hd⟩ := hg
      constructor
      · intro v' hv; rw [hr] at hv; injection hv with hv; rw [← hv]; exact hd f' hf'
      · intro b hb; rw [hr] at hb; cases hb
    | logic =>
      obtain ⟨b, hr, hd⟩ := hg
      constructor
      · intro v hv; rw [hr] at hv; cases hv
      · intro b' hb; rw [hr] at hb; injection hb with hb; rw [← hb]; exact hd f' hf'
  · constructor <;> intro x hx <;> rw [ho] at hx <;> cases hx
  · constructor <;> intro x hx <;> rw [he] at hx <;> cases hx

/-- **eval_refines_denote_partial9**: `eval_refines_denote_statement` on stage 9 (nested tuple patterns in `∀ ∃ D{}`).
Missing from the full statement: nested patterns together with `R{}` / `I{}` / enumerated declarations / filters / calls,
patterns in `R{}` / `I{}` blocks, domains outside `DT` without their typing hypothesis, the general proof that the
normaliser returns the common normal form. -/
theorem eval_refines_denote_partial9 : eval_refines_denote_statement Stage9 :=
  fun env e h fuel => eval_refines_denote_partial9_stable env e h fuel fuel (Nat.le_refl _)

/-- **unnest_sound_partial9**: the reduction itself, on the reference side alone: for closed expressions the value of
the flat form is the value of the form with nested patterns (at every larger fuel) -/
theorem unnest_sound_partial9 (S : SEnv) (e es : Ast) (h : Unn S [] [] e es) (f : Nat) (v : SemVal)
    (hv : denote S f .nil es = some v) (f' : Nat) (hf' : f ≤ f') : denote S f' .nil e = some v :=
  h.sound .nil .nil (URel.nil _ _) (EnvTy.nil _) f v hv f' (by omega)

/-- **nested_pattern_binds_by_projection**: the reference semantics binds a pattern of any depth, on a member of the
type of the pattern, by projection: the binding is defined and binds every leaf to the component along its path -/
theorem nested_pattern_binds_by_projection (p : Ast) (τ : Ty) (v : Val) (ρ : LEnv) (hp : patOK p τ = true)
    (hv : Ty.hasTy v τ = true) :
    bindPat p v ρ = some (bindLeaves v (patLeaves p) ρ) ∧ ∀ q ∈ patLeaves p, ∃ u, projPath v q.2 = some u :=
  ⟨bindPat_leaves p τ v ρ hp hv, projPath_defined p τ v hp hv⟩

/-! non-vacuity of stage 9 (`Lemmas/EvalNestedExamples.lean`), over `X1 = {1,2}`:
`∀((a,b),c)∈(X1×X1)×X1 (a=c ∨ b=c)` (false: the member `((1,1),2)`) and `D{((a,b),c)∈(X1×X1)×X1 | a=b}`; flat forms
`∀(ab,c)∈… (pr1(ab)=c ∨ pr2(ab)=c)`, `D{(ab,c)∈… | pr1(ab)=pr2(ab)}`; common normal forms over `@abc` with the chains
`pr1(pr1(@abc))`, `pr2(pr1(@abc))`, `pr2(@abc)` -/
example : Stage9 Examples7.env7 Examples9.e9 :=
  ⟨_, _, _, _, 10, Examples7.globalsOK_7, Examples9.e9s_frag.toF (Nat.le_refl _), Examples9.e9_unn, Examples9.e9_normalizes⟩
example : Stage9 Examples7.env7 Examples9.d9 :=
  ⟨_, _, _, _, 10, Examples7.globalsOK_7, Examples9.d9s_frag.toF (Nat.le_refl _), Examples9.d9_unn, Examples9.d9_normalizes⟩
example : normalizeTree Examples7.env7.funcs 10 Examples9.e9 = normalizeTree Examples7.env7.funcs 10 Examples9.e9s := by rfl
example : (evaluate 30 Examples7.env7 Examples9.e9).1 = .okBool false ∧
    denote (senvOf Examples7.env7) 30 .nil Examples9.e9 = some (.bool false) := by decide
example : (evaluate 30 Examples7.env7 Examples9.d9).1 =
      .ok (.s [.t [.t [.e 1, .e 1], .e 1], .t [.t [.e 1, .e 1], .e 2], .t [.t [.e 2, .e 2], .e 1], .t [.t [.e 2, .e 2], .e 2]]) ∧
    denote (senvOf Examples7.env7) 30 .nil Examples9.d9 =
      some (.val (.s [.t [.t [.e 1, .e 1], .e 1], .t [.t [.e 1, .e 1], .e 2], .t [.t [.e 2, .e 2], .e 1], .t [.t [.e 2, .e 2], .e 2]])) := by
  decide
example : bindPat Examples9.pat9 (.t [.t [.e 1, .e 2], .e 3]) .nil =
    some (.val "c" (.e 3) (.val "b" (.e 2) (.val "a" (.e 1) .nil))) := by rfl

/-! ## stage 10: tuple patterns in the blocks of `I{}`, in the variable position of `R{}`, inside enumerated declarations
(and, closing the earlier stages under each other, anywhere else: `∀ ∃ D{}`; any nesting depth; under / over `R{}`, `I{}`,
enumerated declarations, filters of the form over plain variables)

`Normalizer::ProcessTupleDeclaration` treats a pattern the same wherever it stands (`Normalizer::Recursion`,
`Normalizer::Imperative`, `Normalizer::Quantifier` after `EnumDeclaration`): ONE generated local, every leaf in the scope
replaced by its chain of projections (scope of a block pattern of `I{}`: the FOLLOWING blocks and the result; of `R{}`:
condition and step, not the initial value; of a member of an enumerated declaration: the body, not the copies of the
domain).  The evaluator's block machine (`impLoop`), `recLoop` and the nested quantifiers then iterate / assign the
generated local like any plain variable.

Route (a reduction, no second copy of the simulation): the normal form has PLAIN variables only, so the machine side is
the proved simulation of stages 4 / 5 / 8 (`simF`) on the form `es` of the expression over the generated locals; what is
new is a statement about the reference semantics alone.  `PE S Γ Δ e es` (`Lemmas/EvalBlocksPatSound.lean`, "pattern
elimination"): `es` is `e` with every declaration - plain or pattern, of any depth - replaced by one plain variable `w`
and every leaf by its projection chain of `w`; rules for literals, globals, variables, all unary / binary / n-ary ground
constructs, `∈` (both forms), `pr`, `Pr`, `∀ ∃ D{}`, enumerated declarations (each member plain or pattern), `R{}` (both
forms), `I{}` (`:∈`, `:=`, condition blocks), arbitrarily nested.  `PE.sound`: a value of `es` under `⟦·⟧` at fuel `f` is
the value of `e` at every fuel `≥ f` - the loop lemmas of stage 4 / 5 with the pattern case on the reference side
(`recSem_mono`, `impList_rel`, `quantSem_rel` in `Lemmas/EvalBlocksPat.lean`), the pattern bound by recursive projection
(`bind_relW`).  Binding through a pattern is defined on values of the SHAPE of the pattern only, so the rules carry the
typing of the reference values that get bound (`DomTy` for domains, `ValTy` for the initial value / step of `R{}` and the
right side of `:=`; discharged by `DT`, `ValTy.arith`, `ValTy.tuple`).
NOT covered: filters and calls inside an expression with patterns (no `PE` rule); that the normaliser returns the normal
form `n` of `es` for `e` is a per-expression hypothesis (a closed computation, as in stages 7 and 9) - in particular the
generated names are whatever the normaliser chose, colliding candidates included. -/

/-- stage 10: the expression goes by pattern elimination to an expression of stage 8 over plain variables whose normal
form is the normaliser's answer for the expression itself -/
def Stage10 (env : Env) (e : Ast) : Prop :=
  ∃ G τ es n f0, GlobalsOK env G ∧ FragF env G 6 [] [] es n τ ∧ PE (senvOf env) [] [] e es ∧
    normalizeTree env.funcs f0 e = some n

/-- **eval_refines_denote_partial10_stable**: the refinement for closed expressions with tuple patterns in `I{}` blocks,
in `R{}`, inside enumerated declarations (and in `∀ ∃ D{}`), any depth: a value returned by `Interpreter::Evaluate` - which
runs its loops on ONE generated local per pattern and projection chains for the leaves - is the value the reference
semantics assigns to the ORIGINAL tree (leaves bound by recursive projection), at the evaluator's fuel and at every
larger one. -/
theorem eval_refines_denote_partial10_stable (env : Env) (e : Ast) (h : Stage10 env e) (fuel f' : Nat) (hf' : fuel ≤ f') :
    (∀ v, (evaluate fuel env e).1 = .ok v → denote (senvOf env) f' .nil e = some (.val v)) ∧
    (∀ b, (evaluate fuel env e).1 = .okBool b → denote (senvOf env) f' .nil e = some (.bool b)) := by
  obtain ⟨G, τ, es, n, f0, hG, hf, hu, hn⟩ := h
  rcases evaluate_blocksPat hG hf hu hn fuel with hg | ho | ⟨eid, pos, he, _⟩
  · cases τ with
    | ty ty =>
      obtain ⟨v, hr, _, _, hd⟩ := hg
      constructor
      · intro v' hv; rw [hr] at hv; injection hv with hv; rw [← hv]; exact hd f' hf'
      · intro b hb; rw [hr] at hb; cases hb
    | logic =>
      obtain ⟨b, hr, hd⟩ := hg
      constructor
      · intro v hv; rw [hr] at hv; cases hv
      · intro b' hb; rw [hr] at hb; injection hb with hb; rw [← hb]; exact hd f' hf'
  · constructor <;> intro x hx <;> rw [ho] at hx <;> cases hx
  · constructor <;> intro x hx <;> rw [he] at hx <;> cases hx

/-- **eval_refines_denote_partial10**: `eval_refines_denote_statement` on stage 10 (patterns in `I{}` / `R{}` / enumerated
declarations, combined with each other and with the plain-variable constructs of stages 1-5).
Missing from the full statement: filters / calls inside an expression with patterns, reference values outside the typed
classes without their typing hypothesis, the general proof that the normaliser returns the normal form of the
pattern-free form, `Z`, `ℬ` beyond `2^POW_BOUND`, the any-type typings. -/
theorem eval_refines_denote_partial10 : eval_refines_denote_statement Stage10 :=
  fun env e h fuel => eval_refines_denote_partial10_stable env e h fuel fuel (Nat.le_refl _)

/-- **pattern_elim_sound_partial10**: the reduction itself, on the reference side alone: for closed expressions the value
of the form over plain variables and projection chains is the value of the form with patterns (at every larger fuel) -/
theorem pattern_elim_sound_partial10 (S : SEnv) (e es : Ast) (h : PE S [] [] e es) (f : Nat) (v : SemVal)
    (hv : denote S f .nil es = some v) (f' : Nat) (hf' : f ≤ f') : denote S f' .nil e = some v :=
  h.sound .nil .nil (URel.nil _ _) (EnvTy.nil _) f v hv f' (by omega)

/-- **block_pattern_binds_by_projection**: one declaration (plain or pattern of any depth) against the plain variable
that carries it, on a value of the type of the pattern: the reference binding is defined and every leaf `x` with path `π`
holds `pr_π` of the value the carrier holds -/
theorem block_pattern_binds_by_projection (p : Ast) (w : String) (τ : Ty) (v : Val) (hd : DeclOK [] p w τ)
    (hv : Ty.hasTy v τ = true) :
    ∃ ρ', bindPat p v .nil = some ρ' ∧ URel (leafDelta p w) ρ' (.val w v .nil) := by
  obtain ⟨ρ', h1, h2, _⟩ := bind_relW (URel.nil .nil .nil) (EnvTy.nil .nil) hd v hv
  exact ⟨ρ', h1, by simpa using h2⟩

/-! non-vacuity of stage 10 (`Lemmas/EvalBlocksPatExamples.lean`), over `X1 = {1,2}`:
`I{(a,b) | (a,b):∈X1×X1; a=b} = {(1,1),(2,2)}`, `R{(a,b):=(0,0) | a<3 | (a+1,b+a)} = (3,3)`, `∀(a,b),c∈X1×X1 a=a`;
forms over the generated local `@ab`: `I{(pr1(@ab),pr2(@ab)) | @ab:∈X1×X1; pr1(@ab)=pr2(@ab)}`,
`R{@ab:=(0,0) | pr1(@ab)<3 | (pr1(@ab)+1,pr2(@ab)+pr1(@ab))}`, `∀@ab,c∈X1×X1 pr1(@ab)=pr1(@ab)` (normal form: nested) -/
example : Stage10 Examples7.env7 Examples10.i10 :=
  ⟨_, _, _, _, 10, Examples7.globalsOK_7, Examples10.i10s_frag.toF (Nat.le_refl _), Examples10.i10_pe, Examples10.i10_normalizes⟩
example : Stage10 Examples7.env7 Examples10.r10 :=
  ⟨_, _, _, _, 10, Examples7.globalsOK_7, Examples10.r10s_frag.toF (Nat.le_refl _), Examples10.r10_pe, Examples10.r10_normalizes⟩
example : Stage10 Examples7.env7 Examples10.q10 :=
  ⟨_, _, _, _, 10, Examples7.globalsOK_7, Examples10.q10s_frag.toF (Nat.le_refl _), Examples10.q10_pe, Examples10.q10_normalizes⟩
example : normalizeTree Examples7.env7.funcs 10 Examples10.i10 = some Examples10.i10s := by rfl
example : normalizeTree Examples7.env7.funcs 10 Examples10.q10 = normalizeTree Examples7.env7.funcs 10 Examples10.q10s := by rfl
example : (evaluate 30 Examples7.env7 Examples10.i10).1 = .ok (.s [.t [.e 1, .e 1], .t [.e 2, .e 2]]) ∧
    denote (senvOf Examples7.env7) 30 .nil Examples10.i10 = some (.val (.s [.t [.e 1, .e 1], .t [.e 2, .e 2]])) := by decide
example : (evaluate 30 Examples7.env7 Examples10.r10).1 = .ok (.t [.e 3, .e 3]) ∧
    denote (senvOf Examples7.env7) 30 .nil Examples10.r10 = some (.val (.t [.e 3, .e 3])) := by decide
example : (evaluate 30 Examples7.env7 Examples10.q10).1 = .okBool true ∧
    denote (senvOf Examples7.env7) 30 .nil Examples10.q10 = some (.bool true) := by decide
example : DeclOK [] Examples10.patAB "@ab" Examples10.XX := Examples10.declOK10 _ (by decide)

/-! ## stage 11: filters inside expressions with tuple patterns

Stage 10's relation `PE` has no rule for a FILTER node, so a filter could stand only in an expression over plain variables
(stage 8).  `PE2` (`Lemmas/EvalBlocksPatFilter.lean`) = the rules of `PE` + two congruence rules: `Fi_idx[P₁,…,Pₖ](S)` (tuple
form, `k` parameters for `k` indices) and `Fi_idx[P](S)` (one parameter for `k ≠ 1` indices) are related when parameters
and argument are; the filter may stand anywhere - domain of a pattern, inside its scope with parameters / argument that
use the leaves, under `R{}` / `I{}` / enumerated declarations.  `PE2.sound`: the reference value of a filter node is a
function of the values of parameters and argument that is monotone in definedness (`filterTVal_mono`; NOT strict: an empty
argument or one empty parameter decides the value without the other parameters - exactly the cases in which
`EvaluateFilterTuple` does not evaluate them).  The machine side is unchanged: `simF` of stage 8 on the pattern-free form.
NOT covered: calls inside an expression with patterns; the normal form for `e` is still a per-expression hypothesis. -/

/-- stage 11: stage 10 with the filter rules in the pattern elimination -/
def Stage11 (env : Env) (e : Ast) : Prop :=
  ∃ G τ es n f0, GlobalsOK env G ∧ FragF env G 6 [] [] es n τ ∧ PE2 (senvOf env) [] [] e es ∧
    normalizeTree env.funcs f0 e = some n

/-- **eval_refines_denote_partial11_stable**: the refinement for closed expressions with tuple patterns in any binding
position and filters anywhere (also in the scope of a pattern): a value returned by `Interpreter::Evaluate` is the value
the reference semantics assigns to the ORIGINAL tree, at the evaluator's fuel and at every larger one. -/
theorem eval_refines_denote_partial11_stable (env : Env) (e : Ast) (h : Stage11 env e) (fuel f' : Nat) (hf' : fuel ≤ f') :
    (∀ v, (evaluate fuel env e).1 = .ok v → denote (senvOf env) f' .nil e = some (.val v)) ∧
    (∀ b, (evaluate fuel env e).1 = .okBool b → denote (senvOf env) f' .nil e = some (.bool b)) := by
  obtain ⟨G, τ, es, n, f0, hG, hf, hu, hn⟩ := h
  rcases evaluate_blocksPatFilter hG hf hu hn fuel with hg | ho | ⟨eid, pos, he, _⟩
  · cases τ with
    | ty ty =>
      obtain ⟨v, hr, _, _, hd⟩ := hg
      constructor
      · intro v' hv; rw [hr] at hv; injection hv with hv; rw [← hv]; exact hd f' hf'
      · intro b hb; rw [hr] at hb; cases hb
    | logic =>
      obtain ⟨b, hr, hd⟩ := hg
      constructor
      · intro v hv; rw [hr] at hv; cases hv
      · intro b' hb; rw [hr] at hb; injection hb with hb; rw [← hb]; exact hd f' hf'
  · constructor <;> intro x hx <;> rw [ho] at hx <;> cases hx
  · constructor <;> intro x hx <;> rw [he] at hx <;> cases hx

/-- **eval_refines_denote_partial11**: `eval_refines_denote_statement` on stage 11 (stage 10 + filters inside expressions
with patterns).  Missing from the full statement: calls inside an expression with patterns, reference values outside the
typed classes without their typing hypothesis, the general proof that the normaliser returns the normal form of the
pattern-free form, `Z`, `ℬ` beyond `2^POW_BOUND`, the any-type typings. -/
theorem eval_refines_denote_partial11 : eval_refines_denote_statement Stage11 :=
  fun env e h fuel => eval_refines_denote_partial11_stable env e h fuel fuel (Nat.le_refl _)

/-- stage 10 is part of stage 11 -/
theorem stage10_sub_stage11 (env : Env) (e : Ast) (h : Stage10 env e) : Stage11 env e := by
  obtain ⟨G, τ, es, n, f0, hG, hf, hu, hn⟩ := h
  exact ⟨G, τ, es, n, f0, hG, hf, hu.toPE2, hn⟩

/-- **pattern_elim_sound_partial11**: the reduction with filters, on the reference side alone -/
theorem pattern_elim_sound_partial11 (S : SEnv) (e es : Ast) (h : PE2 S [] [] e es) (f : Nat) (v : SemVal)
    (hv : denote S f .nil es = some v) (f' : Nat) (hf' : f ≤ f') : denote S f' .nil e = some v :=
  h.sound .nil .nil (URel.nil _ _) (EnvTy.nil _) f v hv f' (by omega)

/-- **filter_value_monotone_partial11**: the value of the tuple-form filter from the values of its parameters (`none` =
no value) never changes when undefined parameters become defined -/
theorem filter_value_monotone_partial11 (idx : List Int) (argv : List Val) (L' L : List (Option (List Val)))
    (h : List.Forall₂ OLe L' L) (v : SemVal) (hv : filterTVal idx argv L' = some v) : filterTVal idx argv L = some v :=
  filterTVal_mono idx argv h v hv

/-! non-vacuity of stage 11 (`Lemmas/EvalBlocksPatFilterExamples.lean`), no globals, `S = {1,2}×{1,2}`:
`I{(a,b) | (a,b):∈S; (a,b)∈Fi1[{1}](S)} = {(1,1),(1,2)}`; form over the generated local `@ab`:
`I{(pr1(@ab),pr2(@ab)) | @ab:∈S; (pr1(@ab),pr2(@ab))∈Fi1[{1}](S)}`; the second parameter list is defined while the first is
not: `filterTVal` on `[none, some []]` -/
example : Stage11 Examples.env0 Examples11.i11 :=
  ⟨[], _, _, _, 10, globalsOK_nil _, Examples11.i11s_frag, Examples11.i11_pe, Examples11.i11_normalizes⟩
example : normalizeTree Examples.env0.funcs 10 Examples11.i11 = some Examples11.i11s := by rfl
example : (evaluate 30 Examples.env0 Examples11.i11).1 = .ok (.s [.t [.e 1, .e 1], .t [.e 1, .e 2]]) ∧
    denote (senvOf Examples.env0) 30 .nil Examples11.i11 = some (.val (.s [.t [.e 1, .e 1], .t [.e 1, .e 2]])) :=
  Examples11.i11_value
example : List.Forall₂ OLe [none, some ([] : List Val)] [some [.e 1], some []] ∧
    filterTVal [1, 2] [.t [.e 1, .e 2]] [none, some []] = some (.val (.s [])) :=
  ⟨.cons (fun _ h => by cases h) (.cons (fun _ h => h) .nil), by decide⟩

/-! ## stage 12: calls composed with tuple patterns / `R{}` / `I{}` / enumerated declarations / filters

Stage 7 (`Beta`: calls unfolded, binders `∀ ∃ D{}` over ONE plain variable only) and stage 11 (`PE2`: patterns eliminated,
no calls) are composed.  `Beta2` (`Lemmas/EvalCallsPat.lean`) = the rules of `Beta` with the binder rules over an ARBITRARY
declaration (plain variable or tuple pattern of any depth; every leaf renamed to a name new on the reduct side, `PRens`)
and congruence through `R{p:=…|…}`, `R{p:=…|…|…}`, enumerated declarations, the blocks of `I{}` (`p:∈dom`, `p:=e`,
conditions) and both filter forms; the `call` rule reduces the body of the definition by `Beta2`, so these forms may also
stand INSIDE a called definition, and a call may stand anywhere under them.  `Beta2.sound`: a value of the reduct at fuel
`f` is the value of the expression at every fuel `≥ f + K` (the new cases: monotonicity of `⟦·⟧` in the definedness of the
sub-terms; binding through a pattern and through its renamed copy gives related environments, `PRens.sound`).
`Stage12`: `e` β-reduces to the call-free `e1`, `e1` goes by `PE2` to `es` over plain variables, `es` lies in the typed
fragment of stage 8 with normal form `n`, and `n` is what the normaliser returns for `e`.  The refinement is in the form
with the larger reference fuel (`eval_refines_denote_calls_statement`, see `call_fuel_counterexample`).
NOT proved: that the normaliser always returns such an `n` (per-expression hypothesis, as in stages 7 and 9-11). -/

/-- stage 12: calls unfolded (`Beta2`), then patterns eliminated (`PE2`), then the typed fragment of stage 8 -/
def Stage12 (env : Env) (e : Ast) : Prop :=
  ∃ G τ e1 es n K f0, GlobalsOK env G ∧ FragF env G 6 [] [] es n τ ∧ Beta2 env.funcs K [] e e1 ∧
    PE2 (senvOf env) [] [] e1 es ∧ normalizeTree env.funcs f0 e = some n

/-- **eval_refines_denote_partial12**: the refinement for closed expressions in which calls of term functions / predicates
occur together with tuple patterns, `R{}`, `I{}`, enumerated declarations and filters (in the caller and in the bodies of
the called definitions): a value returned by `Interpreter::Evaluate` is the value the reference semantics assigns to the
ORIGINAL tree (calls by thunks, patterns bound by `bindPat`) at every fuel `≥ fuel + K`, `K` the offset of the β-reduction. -/
theorem eval_refines_denote_partial12 : eval_refines_denote_calls_statement Stage12 := by
  intro env e ⟨G, τ, e1, es, n, K, f0, hG, hf, hbeta, hu, hn⟩
  refine ⟨K, fun fuel f' hf' => ?_⟩
  rcases evaluate_callsPat hG hf hbeta hu hn fuel with hg | ho | ⟨eid, pos, he, _⟩
  · cases τ with
    | ty ty =>
      obtain ⟨v, hr, _, _, hd⟩ := hg
      constructor
      · intro v' hv; rw [hr] at hv; injection hv with hv; rw [← hv]; exact hd f' hf'
      · intro b hb; rw [hr] at hb; cases hb
    | logic =>
      obtain ⟨b, hr, hd⟩ := hg
      constructor
      · intro v hv; rw [hr] at hv; cases hv
      · intro b' hb; rw [hr] at hb; injection hb with hb; rw [← hb]; exact hd f' hf'
  · constructor <;> intro x hx <;> rw [ho] at hx <;> cases hx
  · constructor <;> intro x hx <;> rw [he] at hx <;> cases hx

/-- **beta_pattern_sound_partial12**: the two reductions composed, on the reference side alone: a value of the
call-free, pattern-free `es` at fuel `f` is the value of `e` at every fuel `≥ f + K` -/
theorem beta_pattern_sound_partial12 (S : SEnv) (K : Nat) (e e1 es : Ast) (hb : Beta2 S.funcs K [] e e1)
    (hu : PE2 S [] [] e1 es) (f : Nat) (v : SemVal) (hv : denote S f .nil es = some v) (f' : Nat) (hf' : f + K ≤ f') :
    denote S f' .nil e = some v :=
  hb.sound .nil .nil (ERel.nil _ _ _) f v (hu.sound .nil .nil (URel.nil _ _) (EnvTy.nil _) f v hv f (by omega)) f' hf'

/-- `Beta` (stage 7) is part of `Beta2` -/
theorem beta_sub_beta2 (fs : Funcs) (K : Nat) (e es : Ast) (h : Beta fs K [] e es) : Beta2 fs K [] e es := h.toBeta2

/-! non-vacuity of stage 12 (`Lemmas/EvalCallsPatExamples.lean`), `X1 = {1,2}`, `F1 :== [s∈ℬ(X1)] D{y∈X1 | y∈s}`: caller
`∀(a,b)∈X1×X1 F1[{a}]={a}`; β-reduct `∀(a,b)∈X1×X1 D{__var1∈X1 | __var1∈{a}}={a}` (offset 2); pattern-free form and normal
form `∀@ab∈X1×X1 D{__var1∈X1 | __var1∈{pr1(@ab)}}={pr1(@ab)}` -/
example : Stage12 Examples7.env7 Examples12.c12 :=
  ⟨_, _, _, _, _, 2, 10, Examples7.globalsOK_7, Examples12.c12n_frag.toF (Nat.le_refl _), Examples12.c12_beta,
    Examples12.c12_pe, Examples12.c12_normalizes⟩
example : normalizeTree Examples7.env7.funcs 10 Examples12.c12 = some Examples12.c12n := by rfl
example : (evaluate 20 Examples7.env7 Examples12.c12).1 = .okBool true ∧
    denote (senvOf Examples7.env7) 22 .nil Examples12.c12 = some (.bool true) := Examples12.c12_value

end CCVerif.Eval
